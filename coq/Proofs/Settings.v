(* Proofs about the settings model: precedence of flag / env var / files / default, laws of the
   ${VAR} expansion automaton, and the generated tables. *)
From Refinery Require Import Lib.Base Gen.GenC29 Model.Settings.
Local Open Scope string_scope.

(* ------------------------------------------------------------------ precedence *)
Lemma resolve_flag_wins f e r files d :
  is_set f = true -> resolve {| s_cmd := (Some f, e) :: r; s_files := files; s_default := d |} = f.
Proof. intros H. unfold resolve. cbn [s_cmd map cmd_of fst first_set]. rewrite H. reflexivity. Qed.

Lemma resolve_env_wins e r files d :
  is_set e = true -> resolve {| s_cmd := (None, Some e) :: r; s_files := files; s_default := d |} = e.
Proof. intros H. unfold resolve. cbn [s_cmd map cmd_of fst snd first_set]. rewrite H. reflexivity. Qed.

(* an option that was not given (or given as the zero value) passes on to the next cmdenv tag *)
Lemma resolve_next_tag p r files d :
  match cmd_of p with Some v => is_set v = false | None => True end ->
  resolve {| s_cmd := p :: r; s_files := files; s_default := d |} =
  resolve {| s_cmd := r; s_files := files; s_default := d |}.
Proof.
  intros H. unfold resolve. cbn [s_cmd map first_set]. destruct (cmd_of p) as [v|]; [rewrite H|]; reflexivity.
Qed.

Definition no_option (cmd : list (option sval * option sval)) : Prop := first_set (map cmd_of cmd) = None.
Definition scalar (v : sval) : Prop := match v with VMap _ => False | _ => True end.

Lemma merge_scalar acc v : scalar v -> merge_val acc (Some v) = Some v.
Proof. destruct v; cbn; intros H; try reflexivity. destruct H. Qed.

Lemma files_value_app a b : files_value (a ++ b) = fold_left merge_val b (files_value a).
Proof. unfold files_value. apply fold_left_app. Qed.

Lemma fold_nones k acc : fold_left merge_val (repeat None k) acc = acc.
Proof. induction k as [|k IH]; [reflexivity|]. cbn. exact IH. Qed.

(* the last file that names a (non-map) setting wins, whatever earlier files said *)
Lemma resolve_last_file_wins cmd fs v k d :
  no_option cmd -> scalar v -> is_set v = true ->
  resolve {| s_cmd := cmd; s_files := fs ++ Some v :: repeat None k; s_default := d |} = v.
Proof.
  intros Hc Hs Hv. unfold resolve. cbn [s_cmd s_files s_default]. unfold no_option in Hc. rewrite Hc.
  rewrite files_value_app. cbn [fold_left]. rewrite (merge_scalar _ v Hs), fold_nones, Hv. reflexivity.
Qed.

(* maps from several files merge key by key, later files overriding *)
Lemma resolve_map_merge cmd m1 m2 d :
  no_option cmd -> m1 <> [] ->
  resolve {| s_cmd := cmd; s_files := [Some (VMap m1); Some (VMap m2)]; s_default := d |} =
  VMap (fold_left (fun a kv => map_put (fst kv) (snd kv) a) m2 m1).
Proof.
  intros Hc Hm. unfold resolve. cbn [s_cmd s_files s_default]. unfold no_option in Hc. rewrite Hc.
  unfold files_value. cbn [fold_left merge_val].
  assert (Hs : is_set (VMap (fold_left (fun a kv => map_put (fst kv) (snd kv) a) m2 m1)) = true).
  { cbn [is_set]. revert m1 Hm. induction m2 as [|[k v] r IH]; intros m1 Hm; cbn [fold_left].
    - destruct m1; [exfalso; apply Hm; reflexivity|reflexivity].
    - apply IH. cbn [fst snd]. destruct m1 as [|[k' v'] m1']; [discriminate|]. cbn [map_put]. destruct (String.eqb k k'); discriminate. }
  rewrite Hs. reflexivity.
Qed.

Lemma resolve_default cmd k d :
  no_option cmd -> resolve {| s_cmd := cmd; s_files := repeat None k; s_default := d |} = d.
Proof.
  intros Hc. unfold resolve. cbn [s_cmd s_files s_default]. unfold no_option in Hc. rewrite Hc.
  unfold files_value. rewrite fold_nones. reflexivity.
Qed.

(* ------------------------------------------------------------------ expansion *)
Lemma sapp_assoc (a b c : string) : (a ++ b) ++ c = a ++ (b ++ c).
Proof. induction a as [|x a IH]; cbn; [reflexivity|]. rewrite IH. reflexivity. Qed.
Lemma sapp_nil_r (a : string) : a ++ "" = a.
Proof. induction a as [|x a IH]; cbn; [reflexivity|]. rewrite IH. reflexivity. Qed.

Fixpoint no_char (c : ascii) (s : string) : bool :=
  match s with EmptyString => true | String x r => negb (Ascii.eqb x c) && no_char c r end.

Definition pending (st : xstate) : string :=
  match st with XNorm => "" | XDollar => "$" | XName acc => "${" ++ acc end.

(* E2: when no variable has a (non-empty) value the text is unchanged, in every state of the scan *)
Lemma xrun_unset env : (forall n, env n = "") -> forall s st, xrun env st s = pending st ++ s.
Proof.
  intros He. induction s as [|c r IH]; intros st.
  - destruct st; cbn; rewrite ?sapp_nil_r; reflexivity.
  - destruct st as [| |acc]; cbn [xrun pending].
    + destruct (Ascii.eqb c dollar) eqn:E.
      * apply Ascii.eqb_eq in E. subst c. rewrite IH. reflexivity.
      * rewrite IH. reflexivity.
    + destruct (Ascii.eqb c lbrace) eqn:E.
      * apply Ascii.eqb_eq in E. subst c. rewrite IH. reflexivity.
      * destruct (Ascii.eqb c dollar) eqn:E2.
        -- apply Ascii.eqb_eq in E2. subst c. rewrite IH. reflexivity.
        -- rewrite IH. reflexivity.
    + destruct (Ascii.eqb c rbrace) eqn:E.
      * apply Ascii.eqb_eq in E. subst c. destruct (String.eqb acc "") eqn:Ea.
        -- apply String.eqb_eq in Ea. subst acc. rewrite IH. reflexivity.
        -- rewrite IH. unfold subst. rewrite He. cbn [String.eqb pending]. cbn.
           rewrite sapp_assoc. reflexivity.
      * rewrite IH. cbn [pending]. unfold snoc. cbn. rewrite sapp_assoc. reflexivity.
Qed.

Lemma expand_unset env s : (forall n, env n = "") -> expand env s = s.
Proof. intros He. unfold expand. rewrite (xrun_unset env He). reflexivity. Qed.

(* E1 / prefix law: text without '$' is copied *)
Lemma xrun_plain_prefix env pre t : no_char dollar pre = true -> xrun env XNorm (pre ++ t) = pre ++ xrun env XNorm t.
Proof.
  induction pre as [|c r IH]; intros H; [reflexivity|]. cbn in H. apply andb_true_iff in H. destruct H as [H1 H2].
  apply negb_true_iff in H1. cbn [append xrun]. rewrite H1, IH by exact H2. reflexivity.
Qed.

Lemma expand_plain env s : no_char dollar s = true -> expand env s = s.
Proof.
  intros H. unfold expand. rewrite <- (sapp_nil_r s) at 1. rewrite xrun_plain_prefix by exact H.
  cbn. apply sapp_nil_r.
Qed.

Lemma xrun_name env name : forall acc post,
  no_char rbrace name = true -> acc ++ name <> "" ->
  xrun env (XName acc) (name ++ String rbrace post) = subst env (acc ++ name) ++ xrun env XNorm post.
Proof.
  induction name as [|c r IH]; intros acc post Hn Hne.
  - cbn [append xrun]. rewrite Ascii.eqb_refl. rewrite sapp_nil_r in *.
    destruct (String.eqb acc "") eqn:E; [apply String.eqb_eq in E; contradiction|reflexivity].
  - cbn in Hn. apply andb_true_iff in Hn. destruct Hn as [H1 H2]. apply negb_true_iff in H1.
    cbn [append xrun]. rewrite H1. rewrite IH; [|exact H2|].
    + unfold snoc. rewrite sapp_assoc. reflexivity.
    + unfold snoc. rewrite sapp_assoc. cbn. destruct acc; discriminate.
Qed.

(* E3: a reference ${name} (name non-empty, without '}') after dollar-free text is replaced by the variable's
   value, or kept when the variable is unset, and scanning resumes AFTER the replacement (single pass) *)
Lemma expand_reference env pre name post :
  no_char dollar pre = true -> no_char rbrace name = true -> name <> "" ->
  expand env (pre ++ "${" ++ name ++ String rbrace post) = pre ++ subst env name ++ expand env post.
Proof.
  intros Hp Hn Hne. unfold expand. rewrite xrun_plain_prefix by exact Hp. f_equal.
  cbn [append xrun]. rewrite Ascii.eqb_refl.
  change (xrun env XDollar (String lbrace (name ++ String rbrace post))) with
         (xrun env (XName "") (name ++ String rbrace post)).
  rewrite xrun_name; [reflexivity|exact Hn|exact Hne].
Qed.

(* ------------------------------------------------------------------ generated tables *)
Lemma gen_expansion_covers : expansion_covers settings = true.
Proof. vm_compute. reflexivity. Qed.
Lemma gen_shape : gen_shape_ok = true.
Proof. vm_compute. reflexivity. Qed.
Lemma gen_doc_mismatches :
  doc_mismatches settings cmdenv_options env_docs = [("LegacyMetrics", "APIKey"); ("OTelTracing", "APIKey")].
Proof. vm_compute. reflexivity. Qed.

(* every setting of the generated table whose type carries strings is rewritten by the expansion *)
Lemma every_string_setting_expanded r :
  In r settings -> carries_strings (row_under r) = true -> type_expanded (row_type r) = true.
Proof.
  intros Hin Hc. pose proof gen_expansion_covers as H. unfold expansion_covers in H.
  rewrite forallb_forall in H. specialize (H r Hin). apply andb_true_iff in H. destruct H as [_ H].
  rewrite Hc in H. cbn in H. exact H.
Qed.

Lemma effective_expanded env ty s :
  type_expanded ty = true -> effective env ty s = expand_val env (resolve s).
Proof. intros H. unfold effective. rewrite H. reflexivity. Qed.
