(* Proofs about the timestamp model (C22), part 1: text formats (integer epoch, RFC 3339). *)
From Refinery Require Import Lib.Base Model.Timestamp.
Local Open Scope Z_scope.

(* ------------------------------------------------------------------ digits *)
Lemma digit_val_char d : 0 <= d <= 9 -> digit_val (digit_char d) = Some d.
Proof.
  intros H.
  assert (Hc : d = 0 \/ d = 1 \/ d = 2 \/ d = 3 \/ d = 4 \/ d = 5 \/ d = 6 \/ d = 7 \/ d = 8 \/ d = 9) by lia.
  destruct Hc as [->|[->|[->|[->|[->|[->|[->|[->|[->| ->]]]]]]]]]; reflexivity.
Qed.

Lemma eqb_digit_false c x d : digit_val c = Some d -> digit_val x = None -> Ascii.eqb c x = false.
Proof.
  intros Hc Hx. destruct (Ascii.eqb c x) eqn:E; [|reflexivity].
  apply Ascii.eqb_eq in E. subst x. congruence.
Qed.

Lemma is_digit_val c : is_digit c = true -> exists d, digit_val c = Some d.
Proof. unfold is_digit. destruct (digit_val c) as [d|]; [eauto|discriminate]. Qed.

Lemma pow10_pos w : 0 < 10 ^ Z.of_nat w.
Proof. apply Z.pow_pos_nonneg; lia. Qed.

Lemma pow10_succ w : 10 ^ Z.of_nat (S w) = 10 * 10 ^ Z.of_nat w.
Proof. rewrite Nat2Z.inj_succ, Z.pow_succ_r by lia. reflexivity. Qed.

Lemma digitsZ_S w n :
  digitsZ (S w) n = digit_char (n / 10 ^ Z.of_nat w) :: digitsZ w (n mod 10 ^ Z.of_nat w).
Proof. reflexivity. Qed.

Lemma digitsZ_length w : forall n, length (digitsZ w n) = w.
Proof. induction w as [|w IH]; intros n; [reflexivity|]. rewrite digitsZ_S. cbn [length]. rewrite IH. reflexivity. Qed.

Lemma lead_digit_range w n : 0 <= n < 10 ^ Z.of_nat (S w) -> 0 <= n / 10 ^ Z.of_nat w <= 9.
Proof.
  intros H. rewrite pow10_succ in H. pose proof (pow10_pos w) as Hp.
  split; [apply Z.div_pos; lia|].
  assert (n / 10 ^ Z.of_nat w < 10); [|lia].
  apply Z.div_lt_upper_bound; lia.
Qed.

Lemma read_num_digits w : forall n acc rest,
  0 <= n < 10 ^ Z.of_nat w ->
  read_num w acc (digitsZ w n ++ rest) = Some (acc * 10 ^ Z.of_nat w + n, rest).
Proof.
  induction w as [|w IH]; intros n acc rest H.
  - cbn [read_num digitsZ app]. change (10 ^ Z.of_nat 0) with 1 in *. f_equal. f_equal. lia.
  - rewrite digitsZ_S. cbn [app read_num].
    rewrite digit_val_char by (apply lead_digit_range; exact H).
    pose proof (pow10_pos w) as Hp.
    rewrite IH by (apply Z.mod_pos_bound; exact Hp).
    f_equal. f_equal. rewrite pow10_succ.
    pose proof (Z.div_mod n (10 ^ Z.of_nat w)) as Hdm. lia.
Qed.

Lemma read_num0 w n rest :
  0 <= n < 10 ^ Z.of_nat w -> read_num w 0 (digitsZ w n ++ rest) = Some (n, rest).
Proof. intros H. rewrite read_num_digits by exact H. f_equal. Qed.

Lemma read_num0_nil w n :
  0 <= n < 10 ^ Z.of_nat w -> read_num w 0 (digitsZ w n) = Some (n, []).
Proof. intros H. rewrite <- (app_nil_r (digitsZ w n)) at 1. apply read_num0. exact H. Qed.

Lemma digitsZ_all_digits w : forall n,
  0 <= n < 10 ^ Z.of_nat w -> Forall (fun c => is_digit c = true) (digitsZ w n).
Proof.
  induction w as [|w IH]; intros n H; [constructor|].
  rewrite digitsZ_S. constructor.
  - unfold is_digit. rewrite digit_val_char by (apply lead_digit_range; exact H). reflexivity.
  - apply IH. apply Z.mod_pos_bound. apply pow10_pos.
Qed.

Lemma span_digits_app ds c rest :
  Forall (fun x => is_digit x = true) ds -> is_digit c = false ->
  span_digits (ds ++ c :: rest) = (ds, c :: rest).
Proof.
  intros Hd Hc. induction Hd as [|x l Hx Hl IH]; cbn [app span_digits].
  - rewrite Hc. reflexivity.
  - rewrite Hx, IH. reflexivity.
Qed.

Lemma expect_cons c l : expect c (c :: l) = Some l.
Proof. cbn [expect]. rewrite Ascii.eqb_refl. reflexivity. Qed.

(* ------------------------------------------------------------------ integer epoch *)
Lemma parse_rfc_digits5 c0 c1 c2 c3 c4 rest :
  is_digit c0 = true -> is_digit c1 = true -> is_digit c2 = true -> is_digit c3 = true ->
  is_digit c4 = true -> parse_rfc (c0 :: c1 :: c2 :: c3 :: c4 :: rest) = None.
Proof.
  intros H0 H1 H2 H3 H4.
  apply is_digit_val in H0; destruct H0 as [d0 H0]. apply is_digit_val in H1; destruct H1 as [d1 H1].
  apply is_digit_val in H2; destruct H2 as [d2 H2]. apply is_digit_val in H3; destruct H3 as [d3 H3].
  apply is_digit_val in H4; destruct H4 as [d4 H4].
  unfold parse_rfc. cbn [read_num]. rewrite H0, H1, H2, H3. cbn [expect].
  rewrite (eqb_digit_false c4 "-"%char d4 H4) by reflexivity. reflexivity.
Qed.

Lemma parse_rfc_digit_string l :
  Forall (fun c => is_digit c = true) l -> (5 <= length l)%nat -> parse_rfc l = None.
Proof.
  intros Hf Hl.
  destruct l as [|c0 [|c1 [|c2 [|c3 [|c4 r]]]]]; cbn [length] in Hl; try lia.
  inversion Hf as [|? ? H0 Hf1]; subst. inversion Hf1 as [|? ? H1 Hf2]; subst.
  inversion Hf2 as [|? ? H2 Hf3]; subst. inversion Hf3 as [|? ? H3 Hf4]; subst.
  inversion Hf4 as [|? ? H4 Hf5]; subst.
  apply parse_rfc_digits5; assumption.
Qed.

Lemma frac_bounds k nsec :
  (k <= 9)%nat -> 0 <= nsec < 10 ^ 9 ->
  0 <= nsec / 10 ^ (9 - Z.of_nat k) < 10 ^ Z.of_nat k.
Proof.
  intros Hk Hn.
  assert (Hp : 0 < 10 ^ (9 - Z.of_nat k)) by (apply Z.pow_pos_nonneg; lia).
  split; [apply Z.div_pos; lia|].
  apply Z.div_lt_upper_bound; [exact Hp|].
  rewrite <- Z.pow_add_r by lia. replace (9 - Z.of_nat k + Z.of_nat k) with 9 by lia. lia.
Qed.

Lemma frac_exact k nsec :
  nsec mod 10 ^ (9 - Z.of_nat k) = 0 ->
  nsec / 10 ^ (9 - Z.of_nat k) * 10 ^ (9 - Z.of_nat k) = nsec.
Proof.
  intros Hm. pose proof (Z.div_mod nsec (10 ^ (9 - Z.of_nat k))) as H.
  destruct (Z.eq_dec (10 ^ (9 - Z.of_nat k)) 0) as [E|E].
  - rewrite E in *. rewrite Zmod_0_r in Hm. subst nsec. reflexivity.
  - specialize (H E). lia.
Qed.

Lemma epoch_exact : forall k sec nsec,
  (k <= 9)%nat -> 0 <= sec < 10 ^ 10 -> 0 <= nsec < 10 ^ 9 -> has_precision k (sec, nsec) ->
  get_event_time std_cfg (render_epoch k (sec, nsec)) = Some (sec, nsec).
Proof.
  intros k sec nsec Hk Hs Hn Hp. unfold has_precision in Hp. cbn [fst snd] in Hp.
  unfold render_epoch. cbn [fst snd].
  set (f := nsec / 10 ^ (9 - Z.of_nat k)).
  assert (Hf : 0 <= f < 10 ^ Z.of_nat k) by (apply frac_bounds; assumption).
  assert (Hs' : 0 <= sec < 10 ^ Z.of_nat 10) by (change (Z.of_nat 10) with 10; exact Hs).
  assert (Hall : Forall (fun c => is_digit c = true) (digitsZ 10 sec ++ digitsZ k f)).
  { apply Forall_app. split; apply digitsZ_all_digits; assumption. }
  assert (Hlen : length (digitsZ 10 sec ++ digitsZ k f) = (10 + k)%nat).
  { rewrite app_length, !digitsZ_length. reflexivity. }
  set (l := digitsZ 10 sec ++ digitsZ k f) in *.
  assert (Hpe : parse_epoch_digits std_cfg l = Some (sec, nsec)).
  { unfold parse_epoch_digits. rewrite Hlen.
    change (min_digits std_cfg) with 10. change (max_digits std_cfg) with 19.
    change (pad_digits std_cfg) with 19. change (Z.to_nat (sec_digits std_cfg)) with 10%nat.
    destruct ((Z.of_nat (10 + k) <? 10) || (19 <? Z.of_nat (10 + k))) eqn:Eb.
    { apply orb_true_iff in Eb. destruct Eb as [Eb|Eb]; [apply Z.ltb_lt in Eb|apply Z.ltb_lt in Eb]; lia. }
    unfold l. rewrite read_num0 by exact Hs'.
    rewrite digitsZ_length. rewrite read_num0_nil by exact Hf.
    f_equal. f_equal. replace (19 - Z.of_nat (10 + k)) with (9 - Z.of_nat k) by lia.
    apply frac_exact. exact Hp. }
  unfold get_event_time.
  rewrite (parse_rfc_digit_string _ Hall) by lia.
  change (digits_first std_cfg) with true. cbv iota.
  destruct l as [|c0 l0]; [cbn [length] in Hlen; lia|]. exact Hpe.
Qed.

(* ------------------------------------------------------------------ calendar: finite sweep over the days of the stated range *)
Definition civil_ok (z : Z) : bool :=
  let '(y, m, d) := civil_from_days z in
  (0 <=? y) && (y <? 10000) && (1 <=? m) && (m <=? 12) && (1 <=? d) && (d <=? days_in_month y m)
  && (days_from_civil y m d =? z).

(* a two-level sweep: every z in [lo, lo + na*nb) is lo + nb*a + b with a < na, b < nb *)
Definition grid_ok (f : Z -> bool) (lo : Z) (na nb : nat) : bool :=
  forallb (fun a => forallb (fun b => f (lo + Z.of_nat nb * Z.of_nat a + Z.of_nat b)) (seq 0 nb)) (seq 0 na).

Lemma forallb_grid (f : Z -> bool) (lo : Z) (na nb : nat) :
  grid_ok f lo na nb = true ->
  forall z, lo <= z < lo + Z.of_nat na * Z.of_nat nb -> f z = true.
Proof.
  unfold grid_ok. intros Hs z H. rewrite forallb_forall in Hs.
  assert (Hnb : 0 < Z.of_nat nb).
  { destruct nb as [|nb']; [rewrite Z.mul_0_r in H; lia|lia]. }
  assert (Hq : 0 <= (z - lo) / Z.of_nat nb < Z.of_nat na).
  { split; [apply Z.div_pos; lia|apply Z.div_lt_upper_bound; lia]. }
  assert (Hr : 0 <= (z - lo) mod Z.of_nat nb < Z.of_nat nb) by (apply Z.mod_pos_bound; exact Hnb).
  assert (Ha : In (Z.to_nat ((z - lo) / Z.of_nat nb)) (seq 0 na)) by (apply in_seq; lia).
  specialize (Hs _ Ha). rewrite forallb_forall in Hs.
  assert (Hb : In (Z.to_nat ((z - lo) mod Z.of_nat nb)) (seq 0 nb)) by (apply in_seq; lia).
  specialize (Hs _ Hb). rewrite !Z2Nat.id in Hs by lia.
  replace (lo + Z.of_nat nb * ((z - lo) / Z.of_nat nb) + (z - lo) mod Z.of_nat nb) with z in Hs; [exact Hs|].
  pose proof (Z.div_mod (z - lo) (Z.of_nat nb)). lia.
Qed.

(* first and number of local calendar days touched by instants of 2001..2286 at offsets within +-24h *)
Definition day_lo : Z := 11322.
Lemma sweep_ok_true : grid_ok civil_ok day_lo 290 366 = true.
Proof. vm_compute. reflexivity. Qed.

Lemma civil_ok_range z : day_lo <= z < day_lo + 106140 -> civil_ok z = true.
Proof.
  intros H. apply (forallb_grid civil_ok day_lo 290 366 sweep_ok_true).
  replace (Z.of_nat 290 * Z.of_nat 366) with 106140 by reflexivity. exact H.
Qed.

(* ------------------------------------------------------------------ RFC 3339 *)
Lemma parse_zone_render off zulu :
  -1440 < off < 1440 -> parse_zone (render_zone off zulu) = Some (off * 60).
Proof.
  intros H. unfold render_zone.
  destruct (zulu && (off =? 0)) eqn:Ez.
  - apply andb_true_iff in Ez. destruct Ez as [_ Ez]. apply Z.eqb_eq in Ez. subst off. reflexivity.
  - assert (Hh : 0 <= Z.abs off / 60 < 10 ^ Z.of_nat 2).
    { change (10 ^ Z.of_nat 2) with 100. split; [apply Z.div_pos; lia|apply Z.div_lt_upper_bound; lia]. }
    assert (Hm : 0 <= Z.abs off mod 60 < 10 ^ Z.of_nat 2).
    { change (10 ^ Z.of_nat 2) with 100. pose proof (Z.mod_pos_bound (Z.abs off) 60). lia. }
    assert (Hh24 : Z.abs off / 60 <? 24 = true).
    { apply Z.ltb_lt. apply Z.div_lt_upper_bound; lia. }
    assert (Hm60 : Z.abs off mod 60 <? 60 = true).
    { apply Z.ltb_lt. apply Z.mod_pos_bound. lia. }
    pose proof (Z.div_mod (Z.abs off) 60) as Hdm.
    destruct (off <? 0) eqn:En; [apply Z.ltb_lt in En|apply Z.ltb_ge in En];
      unfold parse_zone; cbn [Ascii.eqb Bool.eqb];
      rewrite read_num0 by exact Hh; cbn [app]; rewrite expect_cons;
      rewrite read_num0_nil by exact Hm; rewrite Hh24, Hm60; cbn [andb]; f_equal; lia.
Qed.

Lemma render_zone_head off zulu :
  exists c r, render_zone off zulu = c :: r /\ is_digit c = false /\ Ascii.eqb c "." = false.
Proof.
  unfold render_zone. destruct (zulu && (off =? 0)).
  - eexists _, _. split; [reflexivity|]. split; reflexivity.
  - destruct (off <? 0); eexists _, _; (split; [reflexivity|]); split; reflexivity.
Qed.

Lemma sod_parts sod :
  0 <= sod < 86400 ->
  0 <= sod / 3600 < 24 /\ 0 <= sod mod 3600 / 60 < 60 /\ 0 <= sod mod 60 < 60 /\
  sod / 3600 * 3600 + sod mod 3600 / 60 * 60 + sod mod 60 = sod.
Proof.
  intros H.
  pose proof (Z.div_mod sod 3600). pose proof (Z.mod_pos_bound sod 3600).
  pose proof (Z.div_mod (sod mod 3600) 60). pose proof (Z.mod_pos_bound (sod mod 3600) 60).
  pose proof (Z.mod_pos_bound sod 60).
  pose proof (Z.div_mod sod 60).
  assert (sod mod 60 = (sod mod 3600) mod 60) by lia.
  assert (0 <= sod / 3600 < 24) by (split; [apply Z.div_pos; lia|apply Z.div_lt_upper_bound; lia]).
  assert (0 <= sod mod 3600 / 60 < 60) by (split; [apply Z.div_pos; lia|apply Z.div_lt_upper_bound; lia]).
  lia.
Qed.

Lemma lt100 n : 0 <= n < 60 -> 0 <= n < 10 ^ Z.of_nat 2.
Proof. change (10 ^ Z.of_nat 2) with 100. lia. Qed.

Lemma rfc_exact : forall k off zulu sec nsec,
  (k <= 9)%nat -> -1440 < off < 1440 ->
  range_lo <= sec < range_hi -> 0 <= nsec < 10 ^ 9 -> has_precision k (sec, nsec) ->
  get_event_time std_cfg (render_rfc k off zulu (sec, nsec)) = Some (sec, nsec).
Proof.
  intros k off zulu sec nsec Hk Hoff Hs Hn Hp.
  unfold range_lo, range_hi in Hs. unfold has_precision in Hp. cbn [fst snd] in Hp.
  unfold render_rfc. cbn [fst snd].
  set (loc := sec + off * 60).
  assert (Hdays : day_lo <= loc / 86400 < day_lo + 106140).
  { unfold day_lo. split; [apply Z.div_le_lower_bound; lia|apply Z.div_lt_upper_bound; lia]. }
  pose proof (civil_ok_range _ Hdays) as Hc. unfold civil_ok in Hc.
  destruct (civil_from_days (loc / 86400)) as [[y m] d].
  repeat (apply andb_true_iff in Hc; destruct Hc as [Hc ?]).
  repeat match goal with
         | H : (_ <=? _) = true |- _ => apply Z.leb_le in H
         | H : (_ <? _) = true |- _ => apply Z.ltb_lt in H
         | H : (_ =? _) = true |- _ => apply Z.eqb_eq in H
         end.
  assert (Hsod : 0 <= loc mod 86400 < 86400) by (apply Z.mod_pos_bound; lia).
  destruct (sod_parts _ Hsod) as (Hh & Hmi & Hse & Hsum).
  set (sod := loc mod 86400) in *.
  assert (Hloc : loc / 86400 * 86400 + sod = loc).
  { pose proof (Z.div_mod loc 86400). unfold sod. lia. }
  destruct (render_zone_head off zulu) as (zc & zr & Ezone & Hzd & Hzdot).
  pose proof (parse_zone_render off zulu Hoff) as Hpz.
  (* the rendered text is non-empty and parse_rfc succeeds on it *)
  unfold get_event_time.
  match goal with |- match ?l with [] => _ | _ :: _ => _ end = _ =>
    assert (Hparse : parse_rfc l = Some (sec, nsec)) end.
  { unfold parse_rfc. cbn [app].
    rewrite read_num0 by (change (10 ^ Z.of_nat 4) with 10000; lia). rewrite expect_cons.
    rewrite read_num0 by (change (10 ^ Z.of_nat 2) with 100; lia). rewrite expect_cons.
    rewrite read_num0 by (change (10 ^ Z.of_nat 2) with 100; pose proof (proj2 (conj I I));
                          assert (days_in_month y m <= 31) by (unfold days_in_month; repeat destruct (_ =? _); try destruct (is_leap y); cbn; lia); lia).
    rewrite expect_cons.
    rewrite read_num0 by (apply lt100; lia). rewrite expect_cons.
    rewrite read_num0 by (apply lt100; lia). rewrite expect_cons.
    rewrite read_num0 by (apply lt100; lia).
    assert (Hcond : (1 <=? m) && (m <=? 12) && (1 <=? d) && (d <=? days_in_month y m)
                    && (sod / 3600 <? 24) && (sod mod 3600 / 60 <? 60) && (sod mod 60 <? 60) = true).
    { repeat (apply andb_true_iff; split); try (apply Z.leb_le; lia); apply Z.ltb_lt; lia. }
    destruct k as [|k'].
    - (* no fraction *)
      cbn [app]. rewrite Ezone. rewrite Hzdot. rewrite <- Ezone. rewrite Hpz. rewrite Hcond.
      assert (nsec = 0).
      { change (9 - Z.of_nat 0) with 9 in Hp. rewrite Z.mod_small in Hp by lia. exact Hp. }
      subst nsec. f_equal. f_equal. lia.
    - set (f := nsec / 10 ^ (9 - Z.of_nat (S k'))).
      assert (Hf : 0 <= f < 10 ^ Z.of_nat (S k')) by (apply frac_bounds; assumption).
      cbn [app]. rewrite Ascii.eqb_refl.
      rewrite Ezone.
      rewrite (span_digits_app _ zc zr (digitsZ_all_digits _ _ Hf) Hzd).
      rewrite <- Ezone. rewrite Hpz.
      rewrite digitsZ_S at 1.
      unfold frac_nsec. rewrite digitsZ_length.
      replace (Nat.min 9 (S k')) with (S k') by lia.
      rewrite read_num0_nil by exact Hf. rewrite Hcond.
      f_equal. f_equal; [lia|]. apply frac_exact. exact Hp. }
  rewrite Hparse.
  match goal with |- match ?l with [] => _ | _ :: _ => _ end = _ => destruct l eqn:El end; [|reflexivity].
  unfold parse_rfc in Hparse. cbn in Hparse. discriminate Hparse.
Qed.

