(* Proofs about Model/Registry.v (C12, C13). *)
From Refinery Require Import Lib.Base Lib.Strs_samp Model.Registry.
From Refinery Require Gen.GenC12.
From Coq Require Import ZifyN ZifyNat ZifyBool Permutation.

(* ---------- equality on keys ---------- *)
Lemma list_eqb_Z_eq a b : list_eqb Z.eqb a b = true <-> a = b.
Proof.
  revert b. induction a as [|x a IH]; destruct b as [|y b]; cbn [list_eqb];
    try (split; [discriminate|discriminate]); [split; reflexivity|].
  rewrite andb_true_iff, Z.eqb_eq, IH. split; [intros [-> ->]; reflexivity|intros [= -> ->]; auto].
Qed.

Lemma list_eqb_str_eq a b : list_eqb str_eqb a b = true <-> a = b.
Proof.
  revert b. induction a as [|x a IH]; destruct b as [|y b]; cbn [list_eqb];
    try (split; [discriminate|discriminate]); [split; reflexivity|].
  rewrite andb_true_iff, str_eqb_eq, IH. split; [intros [-> ->]; reflexivity|intros [= -> ->]; auto].
Qed.

Lemma rkey_eqb_eq a b : rkey_eqb a b = true <-> a = b.
Proof.
  unfold rkey_eqb. destruct a as [s1 p1 t1 q1 f1], b as [s2 p2 t2 q2 f2]. cbn [k_scope k_prefix k_type k_params k_fields].
  rewrite !andb_true_iff, str_eqb_eq, N.eqb_eq, list_eqb_Z_eq, list_eqb_str_eq.
  split.
  - intros [[[[Hs ->] ->] ->] ->]. destruct s1, s2; try discriminate; reflexivity.
  - intros [= -> -> -> -> ->]. repeat split. destruct s2; reflexivity.
Qed.

Lemma rkey_eqb_refl a : rkey_eqb a a = true.
Proof. apply rkey_eqb_eq. reflexivity. Qed.

Lemma rkey_eqb_neq a b : rkey_eqb a b = false <-> a <> b.
Proof.
  split.
  - intros H E. apply rkey_eqb_eq in E. congruence.
  - intros H. destruct (rkey_eqb a b) eqn:E; [apply rkey_eqb_eq in E; contradiction|reflexivity].
Qed.

(* ---------- finite maps keyed by rkey ---------- *)
Lemma kfind_kremove_eq {V} k (m : list (rkey * V)) : kfind k (kremove k m) = None.
Proof.
  induction m as [|[k' v] r IH]; cbn [kremove kfind]; [reflexivity|].
  destruct (rkey_eqb k k') eqn:E; [exact IH|]. cbn [kfind]. rewrite E. exact IH.
Qed.

Lemma kfind_kremove_neq {V} k k' (m : list (rkey * V)) : k <> k' -> kfind k (kremove k' m) = kfind k m.
Proof.
  intros Hne. induction m as [|[k2 v] r IH]; cbn [kremove kfind]; [reflexivity|].
  destruct (rkey_eqb k' k2) eqn:E.
  - apply rkey_eqb_eq in E. subst k2.
    destruct (rkey_eqb k k') eqn:E2; [apply rkey_eqb_eq in E2; contradiction|exact IH].
  - cbn [kfind]. destruct (rkey_eqb k k2); [reflexivity|exact IH].
Qed.

Lemma kfind_kset_eq {V} k (v : V) m : kfind k (kset k v m) = Some v.
Proof. unfold kset. cbn [kfind]. rewrite rkey_eqb_refl. reflexivity. Qed.

Lemma kfind_kset_neq {V} k k' (v : V) m : k <> k' -> kfind k (kset k' v m) = kfind k m.
Proof.
  intros H. unfold kset. cbn [kfind].
  destruct (rkey_eqb k k') eqn:E; [apply rkey_eqb_eq in E; contradiction|].
  apply kfind_kremove_neq. exact H.
Qed.

(* ---------- ids in the registry ---------- *)
Definition rid (k : rkey) (reg : list (rkey * inst)) : option N := option_map i_id (kfind k reg).

Lemma kfind_regoal goals p k reg :
  kfind k (map (regoal goals p) reg) =
  option_map (fun i => snd (regoal goals p (k, i))) (kfind k reg).
Proof.
  induction reg as [|[k' i] r IH]; [reflexivity|].
  cbn [map]. assert (fst (regoal goals p (k', i)) = k') as Hk.
  { unfold regoal. destruct (is_throughput (k_type k')); [destruct (kfind k' goals)|]; reflexivity. }
  destruct (regoal goals p (k', i)) as [k2 i2] eqn:R. cbn [fst] in Hk. subst k2.
  cbn [kfind]. destruct (rkey_eqb k k') eqn:E.
  - apply rkey_eqb_eq in E. subst k'. cbn [option_map]. rewrite R. reflexivity.
  - exact IH.
Qed.

Lemma regoal_id goals p k i : i_id (snd (regoal goals p (k, i))) = i_id i.
Proof.
  unfold regoal. destruct (is_throughput (k_type k)); [destruct (kfind k goals)|]; reflexivity.
Qed.

Lemma rid_update s k : rid k (f_reg (update_peer_counts s)) = rid k (f_reg s).
Proof.
  unfold rid, update_peer_counts. cbn [f_reg]. rewrite kfind_regoal.
  destruct (kfind k (f_reg s)) as [i|]; [|reflexivity]. cbn [option_map]. rewrite regoal_id. reflexivity.
Qed.

(* what create does to ids, counters and generation *)
Lemma create_spec s sc name d :
  let k := key_of sc name d in
  let s' := fst (create s sc name d) in
  let id := snd (create s sc name d) in
  f_gen s' = f_gen s /\
  match rid k (f_reg s) with
  | Some i => id = i /\ f_next s' = f_next s /\ forall k', rid k' (f_reg s') = rid k' (f_reg s)
  | None => id = f_next s /\ f_next s' = N.succ (f_next s) /\
            forall k', rid k' (f_reg s') = if rkey_eqb k' k then Some (f_next s) else rid k' (f_reg s)
  end.
Proof.
  intros k s' id. subst s' id. unfold create. fold k. unfold rid at 1.
  destruct (kfind k (f_reg s)) as [i|] eqn:F; cbn [option_map fst snd].
  - split; [reflexivity|]. split; [reflexivity|]. split; [reflexivity|].
    intros k'. rewrite rid_update. reflexivity.
  - split; [reflexivity|]. split; [reflexivity|]. split; [reflexivity|].
    intros k'. rewrite rid_update. cbn [f_reg]. unfold rid. cbn [kfind].
    destruct (rkey_eqb k' k); reflexivity.
Qed.

(* ---------- the log invariant (C12) ---------- *)
Definition e_gen (e : N * rkey * N) : N := fst (fst e).
Definition e_key (e : N * rkey * N) : rkey := snd (fst e).
Definition e_id (e : N * rkey * N) : N := snd e.

Record J (log : list (N * rkey * N)) (s : fstate) (b : N) : Prop := {
  J_b : (b <= f_next s)%N;
  J_le : forall e, In e log -> (e_gen e <= f_gen s)%N;
  J_old : forall e, In e log -> (e_gen e < f_gen s)%N -> (e_id e < b)%N;
  J_cur : forall e, In e log -> e_gen e = f_gen s -> rid (e_key e) (f_reg s) = Some (e_id e);
  J_reg : forall k id, rid k (f_reg s) = Some id -> (b <= id < f_next s)%N;
  J_inj : forall k1 k2 id, rid k1 (f_reg s) = Some id -> rid k2 (f_reg s) = Some id -> k1 = k2;
  J_log : forall e1 e2, In e1 log -> In e2 log ->
          (e_id e1 = e_id e2 <-> e_gen e1 = e_gen e2 /\ e_key e1 = e_key e2)
}.

Lemma J_init : J [] finit 0%N.
Proof.
  constructor; cbn; try (intros; contradiction); try lia.
  - intros k id H. discriminate.
  - intros k1 k2 id H. discriminate.
Qed.

Lemma J_same_ids log s s' b :
  J log s b -> f_next s' = f_next s -> f_gen s' = f_gen s ->
  (forall k, rid k (f_reg s') = rid k (f_reg s)) -> J log s' b.
Proof.
  intros [Jb Jle Jold Jcur Jreg Jinj Jlog] Hn Hg Hr.
  constructor; try rewrite Hn; try rewrite Hg; auto.
  - intros e He Hge. rewrite Hr. apply Jcur; [exact He|congruence].
  - intros k id H. rewrite Hr in H. apply Jreg with k. exact H.
  - intros k1 k2 id H1 H2. rewrite Hr in H1, H2. eapply Jinj; eassumption.
Qed.

Lemma J_create log s b sc name d :
  J log s b ->
  J (log ++ [(f_gen s, key_of sc name d, snd (create s sc name d))]) (fst (create s sc name d)) b.
Proof.
  intros HJ. pose proof (create_spec s sc name d) as H. cbv zeta in H.
  set (k := key_of sc name d) in *. set (s' := fst (create s sc name d)) in *.
  set (id := snd (create s sc name d)) in *.
  destruct H as [Hg H]. destruct HJ as [Jb Jle Jold Jcur Jreg Jinj Jlog].
  destruct (rid k (f_reg s)) as [i|] eqn:R.
  - (* existing instance *)
    destruct H as [Hid [Hn Hr]]. subst id.
    constructor; rewrite ?Hn, ?Hg.
    + exact Jb.
    + intros e He. apply in_app_or in He. destruct He as [He|[<-|[]]]; [apply Jle; exact He|cbn; lia].
    + intros e He Hlt. apply in_app_or in He. destruct He as [He|[<-|[]]]; [apply Jold; assumption|].
      cbn in Hlt. lia.
    + intros e He Hge. rewrite Hr. apply in_app_or in He. destruct He as [He|[<-|[]]].
      * apply Jcur; assumption.
      * cbn. fold k. rewrite Hid. exact R.
    + intros k' id' H'. rewrite Hr in H'. apply Jreg with k'. exact H'.
    + intros k1 k2 id' H1 H2. rewrite Hr in H1, H2. eapply Jinj; eassumption.
    + assert (forall e, In e log ->
                (e_id e = i <-> e_gen e = f_gen s /\ e_key e = k)) as Hnew.
      { intros e He. split.
        - intros Hi. pose proof (Jle e He) as Hle.
          destruct (N.eq_dec (e_gen e) (f_gen s)) as [Hge|Hne].
          + split; [exact Hge|]. pose proof (Jcur e He Hge) as Hc. rewrite Hi in Hc.
            eapply Jinj; eassumption.
          + exfalso. assert (e_gen e < f_gen s)%N as Hlt by lia.
            pose proof (Jold e He Hlt) as Ho. pose proof (Jreg k i R) as Hb. lia.
        - intros [Hge Hk]. pose proof (Jcur e He Hge) as Hc. rewrite Hk, R in Hc. congruence. }
      intros e1 e2 H1 H2. apply in_app_or in H1. apply in_app_or in H2.
      destruct H1 as [H1|[<-|[]]]; destruct H2 as [H2|[<-|[]]].
      * apply Jlog; assumption.
      * cbn [e_id e_gen e_key fst snd]. fold k. rewrite Hid. apply Hnew. exact H1.
      * cbn [e_id e_gen e_key fst snd]. fold k. rewrite Hid.
        specialize (Hnew e2 H2). split.
        -- intros Hi. symmetry in Hi. apply Hnew in Hi. destruct Hi as [-> ->]. split; reflexivity.
        -- intros [Hg' Hk']. symmetry. apply Hnew. split; congruence.
      * split; [intros _; split; reflexivity|intros _; reflexivity].
  - (* fresh instance *)
    destruct H as [Hid [Hn Hr]].
    assert (forall e, In e log -> (e_id e < f_next s)%N) as Hlt.
    { intros e He. pose proof (Jle e He) as Hle.
      destruct (N.eq_dec (e_gen e) (f_gen s)) as [Hge|Hne].
      - pose proof (Jcur e He Hge) as Hc. apply Jreg in Hc. lia.
      - assert (e_gen e < f_gen s)%N as Hl by lia. pose proof (Jold e He Hl). lia. }
    assert (forall e, In e log -> e_gen e = f_gen s -> e_key e <> k) as Hnk.
    { intros e He Hge Hk. pose proof (Jcur e He Hge) as Hc. rewrite Hk, R in Hc. discriminate. }
    constructor; rewrite ?Hn, ?Hg.
    + lia.
    + intros e He. apply in_app_or in He. destruct He as [He|[<-|[]]]; [apply Jle; exact He|cbn; lia].
    + intros e He Hl. apply in_app_or in He. destruct He as [He|[<-|[]]]; [apply Jold; assumption|].
      cbn in Hl. lia.
    + intros e He Hge. rewrite Hr. apply in_app_or in He. destruct He as [He|[<-|[]]].
      * destruct (rkey_eqb (e_key e) k) eqn:E.
        -- apply rkey_eqb_eq in E. exfalso. eapply Hnk; eassumption.
        -- apply Jcur; assumption.
      * cbn [e_key e_id fst snd]. fold k. rewrite rkey_eqb_refl. fold id. rewrite Hid. reflexivity.
    + intros k' id' H'. rewrite Hr in H'. destruct (rkey_eqb k' k).
      * injection H' as <-. lia.
      * apply Jreg in H'. lia.
    + intros k1 k2 id' H1 H2. rewrite Hr in H1, H2.
      destruct (rkey_eqb k1 k) eqn:E1; destruct (rkey_eqb k2 k) eqn:E2.
      * apply rkey_eqb_eq in E1. apply rkey_eqb_eq in E2. congruence.
      * injection H1 as <-. apply Jreg in H2. lia.
      * injection H2 as <-. apply Jreg in H1. lia.
      * eapply Jinj; eassumption.
    + intros e1 e2 H1 H2. apply in_app_or in H1. apply in_app_or in H2.
      destruct H1 as [H1|[<-|[]]]; destruct H2 as [H2|[<-|[]]].
      * apply Jlog; assumption.
      * cbn [e_id e_gen e_key fst snd]. fold k id. rewrite Hid. split.
        -- intros Hi. pose proof (Hlt e1 H1). lia.
        -- intros [Hge Hk]. exfalso. eapply Hnk; eassumption.
      * cbn [e_id e_gen e_key fst snd]. fold k id. rewrite Hid. split.
        -- intros Hi. pose proof (Hlt e2 H2). lia.
        -- intros [Hge Hk]. exfalso. eapply (Hnk e2); [eassumption|congruence|congruence].
      * split; [intros _; split; reflexivity|intros _; reflexivity].
Qed.

Lemma J_clear log s b : J log s b -> J log (clear s) (f_next s).
Proof.
  intros [Jb Jle Jold Jcur Jreg Jinj Jlog]. constructor; cbn [clear f_next f_gen f_reg].
  - lia.
  - intros e He. specialize (Jle e He). lia.
  - intros e He _. pose proof (Jle e He) as Hle.
    destruct (N.eq_dec (e_gen e) (f_gen s)) as [Hge|Hne].
    + pose proof (Jcur e He Hge) as Hc. apply Jreg in Hc. lia.
    + assert (e_gen e < f_gen s)%N as Hl by lia. pose proof (Jold e He Hl). lia.
  - intros e He Hge. specialize (Jle e He). lia.
  - intros k id H. discriminate.
  - intros k1 k2 id H. discriminate.
  - exact Jlog.
Qed.

Lemma J_run ops : forall log s b, J log s b -> exists b', J (log ++ flog s ops) (frun s ops) b'.
Proof.
  induction ops as [|o r IH]; intros log s b HJ; cbn [flog frun].
  - rewrite app_nil_r. exists b. exact HJ.
  - destruct o as [sc name d| |src fire|sc name d src]; cbn [fstep].
    + destruct (create s sc name d) as [s' id] eqn:C. cbn [fst].
      pose proof (J_create log s b sc name d HJ) as HJ'. rewrite C in HJ'. cbn [fst snd] in HJ'.
      destruct (IH _ _ _ HJ') as [b' Hb']. exists b'. rewrite <- app_assoc in Hb'. exact Hb'.
    + cbn [fst]. apply (IH log (clear s) (f_next s)). apply J_clear with b. exact HJ.
    + cbn [fst]. apply (IH log _ b).
      destruct fire.
      * eapply J_same_ids; [exact HJ|reflexivity|reflexivity|].
        intros k. rewrite rid_update. reflexivity.
      * eapply J_same_ids; [exact HJ|reflexivity|reflexivity|reflexivity].
    + destruct (create s sc name d) as [s' id] eqn:C. cbn [fst].
      pose proof (J_create log s b sc name d HJ) as HJ'. rewrite C in HJ'. cbn [fst snd] in HJ'.
      assert (J (log ++ [(f_gen s, key_of sc name d, id)])
                (update_peer_counts {| f_reg := f_reg s'; f_goals := f_goals s'; f_next := f_next s';
                                       f_gen := f_gen s'; f_peers := f_peers s'; f_src := src |}) b) as HJ2.
      { eapply J_same_ids; [exact HJ'|reflexivity|reflexivity|].
        intros k. rewrite rid_update. reflexivity. }
      destruct (IH _ _ _ HJ2) as [b' Hb']. exists b'. rewrite <- app_assoc in Hb'. exact Hb'.
Qed.

(* Every history of creations, clears and membership changes: two creations returned the same
   instance exactly when they happened in the same generation with the same key. *)
Theorem shared_iff_same_key ops e1 e2 :
  In e1 (flog finit ops) -> In e2 (flog finit ops) ->
  (e_id e1 = e_id e2 <-> e_gen e1 = e_gen e2 /\ e_key e1 = e_key e2).
Proof.
  intros H1 H2. destruct (J_run ops [] finit 0%N J_init) as [b HJ]. cbn [app] in HJ.
  apply (J_log _ _ _ HJ); assumption.
Qed.

(* ---------- what "same key" means for the fixed source ---------- *)
Lemma key_of_whole sc name d : key_of sc name d = key_whole sc name d.
Proof. reflexivity. Qed.

Lemma go_prefix_inj sc n1 n2 : go_prefix sc n1 = go_prefix sc n2 -> n1 = n2.
Proof.
  destruct sc; cbn [go_prefix]; [auto|].
  intros H. apply app_inv_head in H. apply app_inv_tail in H. exact H.
Qed.

Lemma ssort_eq_perm l1 l2 : ssort l1 = ssort l2 <-> Permutation l1 l2.
Proof.
  split; [|apply ssort_perm_eq].
  intros H. eapply Permutation_trans; [apply Permutation_sym, ssort_perm|].
  rewrite H. apply ssort_perm.
Qed.

Theorem key_whole_eq_iff sc1 n1 d1 sc2 n2 d2 :
  key_whole sc1 n1 d1 = key_whole sc2 n2 d2 <->
  sc1 = sc2 /\ n1 = n2 /\ dd_type d1 = dd_type d2 /\ dd_params d1 = dd_params d2 /\
  Permutation (dd_fields d1) (dd_fields d2).
Proof.
  unfold key_whole. split.
  - intros [= Hs Hp Ht Hq Hf]. subst sc2. apply go_prefix_inj in Hp.
    apply ssort_eq_perm in Hf. repeat split; assumption.
  - intros [-> [-> [Ht [Hq Hf]]]]. apply ssort_eq_perm in Hf. rewrite Ht, Hq, Hf. reflexivity.
Qed.

Theorem key_of_eq_iff sc1 n1 d1 sc2 n2 d2 :
  key_of sc1 n1 d1 = key_of sc2 n2 d2 <->
  sc1 = sc2 /\ n1 = n2 /\ dd_type d1 = dd_type d2 /\ dd_params d1 = dd_params d2 /\
  Permutation (dd_fields d1) (dd_fields d2).
Proof. rewrite !key_of_whole. apply key_whole_eq_iff. Qed.

(* the pinned tree's key ignored every tuning parameter: two DynamicSampler definitions that
   differ in MaxKeys and UseTraceLength collide, and so do field lists ["a b"] and ["a";"b"] *)
Lemma legacy_key_collides :
  let d1 := {| dd_type := 3; dd_params := [10; 0; 500; 0]; dd_fields := [u "a"] |} in
  let d2 := {| dd_type := 3; dd_params := [10; 0; 7; 1]; dd_fields := [u "a"] |} in
  let d3 := {| dd_type := 3; dd_params := [10; 0; 500; 0]; dd_fields := [u "a b"] |} in
  let d4 := {| dd_type := 3; dd_params := [10; 0; 500; 0]; dd_fields := [u "a"; u "b"] |} in
  key_legacy Down (u "prod") d1 = key_legacy Down (u "prod") d2 /\ dd_params d1 <> dd_params d2 /\
  key_legacy Top (u "prod") d3 = key_legacy Top (u "prod") d4 /\
  key_legacy Top (u "rules:prod:") d1 = key_legacy Down (u "prod") d1 /\
  key_whole Down (u "prod") d1 <> key_whole Down (u "prod") d2 /\
  key_whole Top (u "prod") d3 <> key_whole Top (u "prod") d4 /\
  key_whole Top (u "rules:prod:") d1 <> key_whole Down (u "prod") d1.
Proof. vm_compute. repeat split; try reflexivity; discriminate. Qed.

(* ---------- worker-local cache (C12) ---------- *)
Fixpoint wstate_after (s : wstate) (ops : list wop) : wstate :=
  match ops with [] => s | o :: r => wstate_after (fst (wstep s o)) r end.

Definition no_worker_reload (w : N) (ops : list wop) : Prop :=
  forall o, In o ops -> o <> WWorkerReload w.

Lemma cfind_cons_other w name w' name' v m ids :
  cfind w name m = Some ids -> cfind w name (((w', name'), v) :: m) = Some ids \/
                              (w = w' /\ name = name').
Proof.
  intros H. cbn [cfind]. destruct (N.eqb w w' && str_eqb name name') eqn:E.
  - right. apply andb_true_iff in E. destruct E as [E1 E2].
    apply N.eqb_eq in E1. apply str_eqb_eq in E2. auto.
  - left. exact H.
Qed.

Lemma cfind_filter_other w w' name m :
  w <> w' -> cfind w name (filter (fun e => negb (N.eqb (fst (fst e)) w')) m) = cfind w name m.
Proof.
  intros Hne. induction m as [|[[w2 n2] v] r IH]; [reflexivity|].
  cbn [filter fst]. destruct (N.eqb w2 w') eqn:E; cbn [negb].
  - apply N.eqb_eq in E. subst w2. cbn [cfind].
    destruct (N.eqb w w') eqn:E2; [apply N.eqb_eq in E2; contradiction|]. cbn [andb]. exact IH.
  - cbn [cfind]. destruct (N.eqb w w2 && str_eqb name n2); [reflexivity|exact IH].
Qed.

(* a worker keeps deciding with the sampler it cached until it handles its own reload signal,
   whatever the factory and the other workers do meanwhile *)
Theorem worker_cache_stable ops : forall s w name ids,
  cfind w name (w_cache s) = Some ids -> no_worker_reload w ops ->
  cfind w name (w_cache (wstate_after s ops)) = Some ids.
Proof.
  induction ops as [|o r IH]; intros s w name ids H Hn; [exact H|].
  cbn [wstate_after]. apply IH.
  - destruct o as [w' name'|c|w']; cbn [wstep].
    + destruct (cfind w' name' (w_cache s)) as [ids'|] eqn:C; [exact H|].
      destruct (get_sampler (w_f s) (w_cfg s) name') as [f' ids'] eqn:G. cbn [fst w_cache].
      destruct (cfind_cons_other w name w' name' ids' (w_cache s) ids H) as [H'|[-> ->]]; [exact H'|].
      congruence.
    + exact H.
    + cbn [fst w_cache]. rewrite cfind_filter_other; [exact H|].
      intros ->. apply (Hn (WWorkerReload w')); [left; reflexivity|reflexivity].
  - intros o' Ho'. apply Hn. right. exact Ho'.
Qed.

Lemma wget_hit s w name ids :
  cfind w name (w_cache s) = Some ids -> wstep s (WGet w name) = (s, ids).
Proof. intros H. cbn [wstep]. rewrite H. reflexivity. Qed.

(* asking the factory again (any worker) for the same sampler key under the same rules, with no
   ClearDynsamplers in between, yields the same instances: creation order and worker are irrelevant *)
Lemma create_keeps s sc name d k id :
  rid k (f_reg s) = Some id -> rid k (f_reg (fst (create s sc name d))) = Some id.
Proof.
  intros H. pose proof (create_spec s sc name d) as Hs. cbv zeta in Hs. destruct Hs as [_ Hs].
  destruct (rid (key_of sc name d) (f_reg s)) as [i|] eqn:R.
  - destruct Hs as [_ [_ Hr]]. rewrite Hr. exact H.
  - destruct Hs as [_ [_ Hr]]. rewrite Hr.
    destruct (rkey_eqb k (key_of sc name d)) eqn:E; [|exact H].
    apply rkey_eqb_eq in E. subst k. congruence.
Qed.

Lemma create_returns_rid s sc name d :
  rid (key_of sc name d) (f_reg (fst (create s sc name d))) = Some (snd (create s sc name d)).
Proof.
  pose proof (create_spec s sc name d) as Hs. cbv zeta in Hs. destruct Hs as [_ Hs].
  destruct (rid (key_of sc name d) (f_reg s)) as [i|] eqn:R.
  - destruct Hs as [-> [_ Hr]]. rewrite Hr. exact R.
  - destruct Hs as [-> [_ Hr]]. rewrite Hr, rkey_eqb_refl. reflexivity.
Qed.

Lemma create_again s sc name d :
  rid (key_of sc name d) (f_reg s) = Some (snd (create s sc name d)) ->
  True.
Proof. trivial. Qed.

Lemma create_existing s sc name d id :
  rid (key_of sc name d) (f_reg s) = Some id -> snd (create s sc name d) = id.
Proof.
  intros R. pose proof (create_spec s sc name d) as Hs. cbv zeta in Hs. destruct Hs as [_ Hs].
  rewrite R in Hs. destruct Hs as [-> _]. reflexivity.
Qed.

Definition all_present (s : fstate) (name : str) (ds : list (option ddef)) (ids : list (option N)) : Prop :=
  Forall2 (fun od oi => match od, oi with
                        | Some d, Some id => rid (key_of Down name d) (f_reg s) = Some id
                        | None, None => True
                        | _, _ => False
                        end) ds ids.

Lemma all_present_mono s s' name ds ids :
  (forall k id, rid k (f_reg s) = Some id -> rid k (f_reg s') = Some id) ->
  all_present s name ds ids -> all_present s' name ds ids.
Proof.
  intros Hm H. induction H as [|od oi ds' ids' Hh Ht IH]; constructor; [|exact IH].
  destruct od, oi; auto.
Qed.

Lemma create_down_keeps name ds : forall s k id,
  rid k (f_reg s) = Some id -> rid k (f_reg (fst (create_down s name ds))) = Some id.
Proof.
  induction ds as [|[d|] r IH]; intros s k id H; cbn [create_down].
  - exact H.
  - destruct (create s Down name d) as [s1 i1] eqn:C.
    destruct (create_down s1 name r) as [s2 l] eqn:D. cbn [fst].
    pose proof (IH s1 k id) as IH'. rewrite D in IH'. cbn [fst] in IH'. apply IH'.
    pose proof (create_keeps s Down name d k id H) as Hk. rewrite C in Hk. exact Hk.
  - destruct (create_down s name r) as [s' l] eqn:D. cbn [fst].
    pose proof (IH s k id H) as IH'. rewrite D in IH'. exact IH'.
Qed.

Lemma create_down_present name ds : forall s,
  all_present (fst (create_down s name ds)) name ds (snd (create_down s name ds)).
Proof.
  induction ds as [|[d|] r IH]; intros s; cbn [create_down].
  - constructor.
  - destruct (create s Down name d) as [s1 i1] eqn:C.
    destruct (create_down s1 name r) as [s2 l] eqn:D. cbn [fst snd].
    constructor.
    + pose proof (create_returns_rid s Down name d) as Hr. rewrite C in Hr. cbn [fst snd] in Hr.
      pose proof (create_down_keeps name r s1 _ _ Hr) as Hk. rewrite D in Hk. exact Hk.
    + pose proof (IH s1) as IH'. rewrite D in IH'. exact IH'.
  - destruct (create_down s name r) as [s' l] eqn:D. cbn [fst snd].
    constructor; [exact I|]. pose proof (IH s) as IH'. rewrite D in IH'. exact IH'.
Qed.

Lemma create_down_same name ds : forall s ids,
  all_present s name ds ids -> snd (create_down s name ds) = ids.
Proof.
  induction ds as [|[d|] r IH]; intros s ids H; inversion H as [|od oi ds' ids' Hh Ht]; subst; cbn [create_down].
  - reflexivity.
  - destruct oi as [id|]; [|contradiction].
    destruct (create s Down name d) as [s1 i1] eqn:C.
    destruct (create_down s1 name r) as [s2 l] eqn:D. cbn [snd].
    pose proof (create_existing s Down name d id Hh) as He. rewrite C in He. cbn [snd] in He. subst i1.
    f_equal. pose proof (IH s1 ids') as IH'. rewrite D in IH'. cbn [snd] in IH'. apply IH'.
    eapply all_present_mono; [|exact Ht].
    intros k id' Hk. pose proof (create_keeps s Down name d k id' Hk) as Hk'. rewrite C in Hk'. exact Hk'.
  - destruct oi as [id|]; [contradiction|].
    destruct (create_down s name r) as [s' l] eqn:D. cbn [snd]. f_equal.
    pose proof (IH s ids' Ht) as IH'. rewrite D in IH'. exact IH'.
Qed.

Theorem get_sampler_idempotent s c name :
  snd (get_sampler (fst (get_sampler s c name)) c name) = snd (get_sampler s c name).
Proof.
  unfold get_sampler. destruct (elookup c name) as [|d|ds].
  - reflexivity.
  - destruct (create s Top name d) as [s1 i1] eqn:C. cbn [fst snd].
    destruct (create s1 Top name d) as [s2 i2] eqn:C2. cbn [snd]. f_equal. f_equal.
    pose proof (create_returns_rid s Top name d) as Hr. rewrite C in Hr. cbn [fst snd] in Hr.
    pose proof (create_existing s1 Top name d i1 Hr) as He. rewrite C2 in He. exact He.
  - apply create_down_same. apply create_down_present.
Qed.

(* ---------- all workers of one generation agree (C12) ---------- *)
Definition ext (s s' : fstate) : Prop :=
  forall k id, rid k (f_reg s) = Some id -> rid k (f_reg s') = Some id.

Lemma ext_refl s : ext s s.
Proof. intros k id H. exact H. Qed.

Lemma ext_trans a b c : ext a b -> ext b c -> ext a c.
Proof. intros H1 H2 k id H. apply H2, H1, H. Qed.

Lemma get_sampler_ext s c name : ext s (fst (get_sampler s c name)).
Proof.
  intros k id H. unfold get_sampler. destruct (elookup c name) as [|d|ds].
  - exact H.
  - destruct (create s Top name d) as [s1 i1] eqn:C. cbn [fst].
    pose proof (create_keeps s Top name d k id H) as Hk. rewrite C in Hk. exact Hk.
  - apply create_down_keeps. exact H.
Qed.

(* what a sampler request leaves in the registry determines every later answer *)
Lemma get_sampler_stable s c name s2 :
  ext (fst (get_sampler s c name)) s2 ->
  snd (get_sampler s2 c name) = snd (get_sampler s c name).
Proof.
  intros He. unfold get_sampler in *. destruct (elookup c name) as [|d|ds].
  - reflexivity.
  - destruct (create s Top name d) as [s1 i1] eqn:C. cbn [fst snd] in *.
    destruct (create s2 Top name d) as [s3 i3] eqn:C3. cbn [snd]. f_equal. f_equal.
    pose proof (create_returns_rid s Top name d) as Hr. rewrite C in Hr. cbn [fst snd] in Hr.
    pose proof (create_existing s2 Top name d i1 (He _ _ Hr)) as Hx. rewrite C3 in Hx. exact Hx.
  - apply create_down_same. eapply all_present_mono; [exact He|]. apply create_down_present.
Qed.

Definition no_reload (ops : list wop) : Prop := forall o, In o ops -> forall c, o <> WReload c.

Lemma wstep_ext s o :
  (forall c, o <> WReload c) ->
  ext (w_f s) (w_f (fst (wstep s o))) /\ w_cfg (fst (wstep s o)) = w_cfg s.
Proof.
  intros Hn. destruct o as [w name|c|w]; cbn [wstep].
  - destruct (cfind w name (w_cache s)) as [ids|]; [split; [apply ext_refl|reflexivity]|].
    destruct (get_sampler (w_f s) (w_cfg s) name) as [f' ids] eqn:G. cbn [fst w_f w_cfg].
    split; [|reflexivity]. pose proof (get_sampler_ext (w_f s) (w_cfg s) name) as He.
    rewrite G in He. exact He.
  - exfalso. apply (Hn c). reflexivity.
  - split; [apply ext_refl|reflexivity].
Qed.

Lemma wrun_ext ops : forall s,
  no_reload ops -> ext (w_f s) (w_f (wstate_after s ops)) /\ w_cfg (wstate_after s ops) = w_cfg s.
Proof.
  induction ops as [|o r IH]; intros s Hn; [split; [apply ext_refl|reflexivity]|].
  cbn [wstate_after].
  destruct (wstep_ext s o (Hn o (or_introl eq_refl))) as [He Hc].
  destruct (IH (fst (wstep s o)) (fun o' Ho' => Hn o' (or_intror Ho'))) as [He' Hc'].
  split; [eapply ext_trans; eassumption|congruence].
Qed.

(* Worker-count independence: within one registry generation (no reload in between), a worker
   that has to ask the factory gets exactly the instances the first asker got — whichever worker,
   whatever other lookups and worker reload signals happened meanwhile. *)
Theorem workers_agree s w1 w2 name ops :
  cfind w1 name (w_cache s) = None -> no_reload ops ->
  let s1 := fst (wstep s (WGet w1 name)) in
  let s2 := wstate_after s1 ops in
  cfind w2 name (w_cache s2) = None ->
  snd (wstep s2 (WGet w2 name)) = snd (wstep s (WGet w1 name)).
Proof.
  intros H1 Hn s1 s2 H2. subst s1 s2.
  cbn [wstep] in *. rewrite H1 in *.
  destruct (get_sampler (w_f s) (w_cfg s) name) as [f1 ids1] eqn:G1. cbn [fst snd] in *.
  set (s1 := {| w_f := f1; w_cfg := w_cfg s; w_cache := ((w1, name), ids1) :: w_cache s |}) in *.
  destruct (wrun_ext ops s1 Hn) as [He Hc].
  change (w_f s1) with f1 in He. change (w_cfg s1) with (w_cfg s) in Hc.
  rewrite H2.
  destruct (get_sampler (w_f (wstate_after s1 ops)) (w_cfg (wstate_after s1 ops)) name) as [f2 ids2] eqn:G2.
  cbn [snd].
  pose proof (get_sampler_stable (w_f s) (w_cfg s) name (w_f (wstate_after s1 ops))) as Hs.
  rewrite G1 in Hs. cbn [fst snd] in Hs. rewrite Hc in G2. rewrite G2 in Hs. cbn [snd] in Hs.
  apply Hs. exact He.
Qed.

(* ---------- the reload handler's order (C12) ---------- *)
Lemma wstate_after_app s a b : wstate_after s (a ++ b) = wstate_after (wstate_after s a) b.
Proof. revert s. induction a as [|o r IH]; intros s; [reflexivity|]. cbn [app wstate_after]. apply IH. Qed.

Lemma cfind_after_worker_reload s w name :
  cfind w name (w_cache (fst (wstep s (WWorkerReload w)))) = None.
Proof.
  cbn [wstep fst w_cache]. induction (w_cache s) as [|[[w2 n2] v] r IH]; [reflexivity|].
  cbn [filter fst]. destruct (N.eqb w2 w) eqn:E; cbn [negb]; [exact IH|].
  cbn [cfind]. rewrite N.eqb_sym, E. cbn [andb]. exact IH.
Qed.

Lemma no_reload_app a b : no_reload a -> no_reload b -> no_reload (a ++ b).
Proof. intros Ha Hb o Ho. apply in_app_or in Ho. destruct Ho; [apply Ha|apply Hb]; assumption. Qed.

(* ClearDynsamplers before the signals: every worker runs its reload branch after the registry was
   cleared, so (with no further reload) any two workers that have processed the reload and then need
   the sampler for a key get the same instances — whatever the workers did between the handler's
   two steps ([early], where no reload branch can run yet) and afterwards. *)
Theorem clear_first_workers_agree s c early mid1 mid2 w1 w2 name :
  no_reload early -> no_reload mid1 -> no_reload mid2 ->
  let s0 := wstate_after s (reload_schedule true c early mid1) in
  let sA := fst (wstep s0 (WWorkerReload w1)) in
  let r1 := wstep sA (WGet w1 name) in
  let sB := fst (wstep (wstate_after (fst r1) mid2) (WWorkerReload w2)) in
  snd (wstep sB (WGet w2 name)) = snd r1.
Proof.
  intros He H1 H2 s0 sA r1 sB. subst r1 sB.
  pose proof (workers_agree sA w1 w2 name (mid2 ++ [WWorkerReload w2])) as H.
  cbv zeta in H. rewrite wstate_after_app in H. cbn [wstate_after] in H.
  apply H.
  - apply cfind_after_worker_reload.
  - apply no_reload_app; [exact H2|]. intros o [<-|[]] c0. discriminate.
  - apply cfind_after_worker_reload.
Qed.

(* the same for the order found in the source *)
Theorem real_reload_workers_agree s c early mid1 mid2 w1 w2 name :
  no_reload early -> no_reload mid1 -> no_reload mid2 ->
  let s0 := wstate_after s (real_reload_schedule c early mid1) in
  let sA := fst (wstep s0 (WWorkerReload w1)) in
  let r1 := wstep sA (WGet w1 name) in
  let sB := fst (wstep (wstate_after (fst r1) mid2) (WWorkerReload w2)) in
  snd (wstep sB (WGet w2 name)) = snd r1.
Proof.
  unfold real_reload_schedule.
  rewrite (eq_refl : GenC12.reload_clear_before_signal = true).
  apply clear_first_workers_agree.
Qed.

(* Signals before ClearDynsamplers: worker 0 runs its reload branch and re-creates its sampler
   between the two steps; it obtains the instance of the old generation and, having consumed its
   signal, keeps it, while worker 1 (reload branch after the clear) gets a new one. *)
Definition swap_def : ddef := {| dd_type := 3; dd_params := [10; 0; 0; 0]; dd_fields := [u "a"] |}.
Definition swap_cfg : econfig := [(u "prod", EDyn swap_def); (u "__default__", EDet)].
Definition swap_history : list wop :=
  [WGet 0 (u "prod"); WGet 1 (u "prod")] ++
  reload_schedule false swap_cfg [WWorkerReload 0; WGet 0 (u "prod")] [WWorkerReload 1; WGet 1 (u "prod")] ++
  [WGet 0 (u "prod"); WGet 1 (u "prod")].

Lemma signal_first_refuted :
  let out := wrun {| w_f := finit; w_cfg := swap_cfg; w_cache := [] |} swap_history in
  nth 7 out [] = [Some 0%N] /\ nth 8 out [] = [Some 1%N] /\
  (* with the clear first, the same worker activity ends with both workers on the new instance *)
  let ok := wrun {| w_f := finit; w_cfg := swap_cfg; w_cache := [] |}
                 ([WGet 0 (u "prod"); WGet 1 (u "prod")] ++
                  reload_schedule true swap_cfg [WGet 0 (u "prod")]
                                  [WWorkerReload 0; WGet 0 (u "prod"); WWorkerReload 1; WGet 1 (u "prod")] ++
                  [WGet 0 (u "prod"); WGet 1 (u "prod")]) in
  nth 8 ok [] = [Some 1%N] /\ nth 9 ok [] = [Some 1%N].
Proof. vm_compute. repeat split; reflexivity. Qed.

(* ---------- throughput goals (C13) ---------- *)
Definition k_ucs (k : rkey) : bool := use_cluster (k_type k) (k_params k).
Definition k_goal (k : rkey) : Z := goal_cfg (k_type k) (k_params k).
Definition k_init (k : rkey) : Z := let g := k_goal k in if g =? 0 then 100 else g.

(* bookkeeping invariant before updatePeerCounts runs *)
Definition P (reg : list (rkey * inst)) (goals : list (rkey * Z)) : Prop :=
  (forall k c, kfind k goals = Some c -> k_ucs k = true /\ c = k_goal k) /\
  (forall k i, kfind k reg = Some i -> is_throughput (k_type k) = true ->
     if k_ucs k then kfind k goals = Some (k_goal k)
     else i_goal i = k_init k).

(* invariant of the factory state *)
Definition G (s : fstate) : Prop :=
  1 <= f_peers s /\
  (forall k c, kfind k (f_goals s) = Some c -> k_ucs k = true /\ c = k_goal k) /\
  (forall k i, kfind k (f_reg s) = Some i -> is_throughput (k_type k) = true ->
     if k_ucs k then kfind k (f_goals s) = Some (k_goal k) /\ i_goal i = node_goal (k_goal k) (f_peers s)
     else i_goal i = k_init k).

Lemma G_init : G finit.
Proof.
  unfold G, finit. cbn. split; [lia|]. split; intros; discriminate.
Qed.

Lemma new_peers_ge s : 1 <= f_peers s -> 1 <= new_peers s.
Proof.
  intros H. unfold new_peers. destruct (f_src s) as [n|]; [|exact H].
  destruct (0 <? n) eqn:E; [apply Z.ltb_lt in E; lia|exact H].
Qed.

Lemma G_update s : 1 <= f_peers s -> P (f_reg s) (f_goals s) -> G (update_peer_counts s).
Proof.
  intros Hp [P1 P2]. unfold G. cbn [update_peer_counts f_peers f_goals f_reg].
  split; [apply new_peers_ge; exact Hp|]. split; [exact P1|].
  intros k i Hk Ht. rewrite kfind_regoal in Hk.
  destruct (kfind k (f_reg s)) as [i0|] eqn:F; [|discriminate]. cbn [option_map] in Hk.
  injection Hk as <-. specialize (P2 k i0 F Ht). unfold regoal. rewrite Ht.
  destruct (k_ucs k) eqn:U.
  - rewrite P2. cbn [snd i_goal]. split; reflexivity.
  - destruct (kfind k (f_goals s)) as [c|] eqn:Gk.
    + destruct (P1 k c Gk) as [U' _]. congruence.
    + cbn [snd]. exact P2.
Qed.

Lemma G_P s : G s -> P (f_reg s) (f_goals s).
Proof.
  intros [_ [G1 G2]]. split; [exact G1|].
  intros k i Hk Ht. specialize (G2 k i Hk Ht). destruct (k_ucs k); [apply G2|exact G2].
Qed.

Lemma key_whole_type sc name d : k_type (key_of sc name d) = dd_type d.
Proof. reflexivity. Qed.
Lemma key_whole_params sc name d : k_params (key_of sc name d) = dd_params d.
Proof. reflexivity. Qed.

Lemma G_create s sc name d : G s -> G (fst (create s sc name d)).
Proof.
  intros HG. pose proof (G_P s HG) as [P1 P2]. destruct HG as [Hp _].
  unfold create. set (k := key_of sc name d).
  assert (k_type k = dd_type d) as Kt by apply key_whole_type.
  assert (k_params k = dd_params d) as Kp by apply key_whole_params.
  assert (k_ucs k = use_cluster (dd_type d) (dd_params d)) as Ku by (unfold k_ucs; rewrite Kt, Kp; reflexivity).
  assert (k_goal k = goal_cfg (dd_type d) (dd_params d)) as Kg by (unfold k_goal; rewrite Kt, Kp; reflexivity).
  destruct (kfind k (f_reg s)) as [i|] eqn:F; cbn [fst]; apply G_update; cbn [f_peers f_reg f_goals]; try exact Hp.
  - (* existing *)
    split.
    + intros k' c Hc. destruct (use_cluster (dd_type d) (dd_params d)) eqn:U; [|apply P1; exact Hc].
      destruct (rkey_eqb k' k) eqn:E.
      * apply rkey_eqb_eq in E. subst k'. rewrite kfind_kset_eq in Hc. injection Hc as <-.
        split; [rewrite Ku; reflexivity|rewrite Kg; reflexivity].
      * apply rkey_eqb_neq in E. rewrite kfind_kset_neq in Hc by exact E. apply P1. exact Hc.
    + intros k' i' Hk' Ht'. specialize (P2 k' i' Hk' Ht').
      destruct (use_cluster (dd_type d) (dd_params d)) eqn:U; [|exact P2].
      destruct (rkey_eqb k' k) eqn:E.
      * apply rkey_eqb_eq in E. subst k'. rewrite Ku. rewrite kfind_kset_eq. rewrite Kg. reflexivity.
      * apply rkey_eqb_neq in E. destruct (k_ucs k'); [rewrite kfind_kset_neq by exact E|]; exact P2.
  - (* fresh *)
    split.
    + intros k' c Hc. destruct (use_cluster (dd_type d) (dd_params d)) eqn:U; [|apply P1; exact Hc].
      destruct (rkey_eqb k' k) eqn:E.
      * apply rkey_eqb_eq in E. subst k'. rewrite kfind_kset_eq in Hc. injection Hc as <-.
        split; [rewrite Ku; reflexivity|rewrite Kg; reflexivity].
      * apply rkey_eqb_neq in E. rewrite kfind_kset_neq in Hc by exact E. apply P1. exact Hc.
    + intros k' i' Hk' Ht'. cbn [kfind] in Hk'.
      destruct (rkey_eqb k' k) eqn:E.
      * apply rkey_eqb_eq in E. subst k'. injection Hk' as <-. cbn [i_goal].
        rewrite Ku. destruct (use_cluster (dd_type d) (dd_params d)) eqn:U.
        -- rewrite kfind_kset_eq, Kg. reflexivity.
        -- unfold init_goal, k_init. rewrite <- Kt, Ht'. rewrite Kg. reflexivity.
      * specialize (P2 k' i' Hk' Ht'). apply rkey_eqb_neq in E.
        destruct (use_cluster (dd_type d) (dd_params d)) eqn:U; [|exact P2].
        destruct (k_ucs k'); [rewrite kfind_kset_neq by exact E|]; exact P2.
Qed.

Lemma G_clear s : G s -> G (clear s).
Proof.
  intros [Hp _]. unfold G, clear. cbn. split; [exact Hp|]. split; intros; discriminate.
Qed.

Lemma G_step s o : G s -> G (fst (fstep s o)).
Proof.
  intros HG. destruct o as [sc name d| |src fire|sc name d src]; cbn [fstep].
  - destruct (create s sc name d) as [s' id] eqn:C. cbn [fst].
    pose proof (G_create s sc name d HG) as H. rewrite C in H. exact H.
  - apply G_clear. exact HG.
  - cbn [fst]. destruct fire.
    + apply G_update; cbn [f_peers f_reg f_goals]; [apply HG|apply (G_P s HG)].
    + destruct HG as [Hp [G1 G2]]. unfold G. cbn [f_peers f_goals f_reg]. auto.
  - destruct (create s sc name d) as [s' id] eqn:C. cbn [fst].
    pose proof (G_create s sc name d HG) as H. rewrite C in H. cbn [fst] in H.
    apply G_update; cbn [f_peers f_reg f_goals]; [apply H|apply (G_P s' H)].
Qed.

Theorem G_run ops : forall s, G s -> G (frun s ops).
Proof.
  induction ops as [|o r IH]; intros s HG; [exact HG|]. cbn [frun]. apply IH. apply G_step. exact HG.
Qed.

Lemma node_goal_floor c p : 1 <= p -> node_goal c p = Z.max 1 (c / p).
Proof.
  intros Hp. unfold node_goal. destruct (Z_le_gt_dec 0 c) as [Hc|Hc].
  - rewrite Z.quot_div_nonneg by lia. lia.
  - assert (c / p < 0) as Hd by (apply Z.div_lt_upper_bound; lia).
    assert (Z.quot c p <= 0) as Hq.
    { replace c with (- (- c)) by lia. rewrite Z.quot_opp_l by lia.
      assert (0 <= Z.quot (- c) p) by (apply Z.quot_pos; lia). lia. }
    lia.
Qed.

(* Every history: each live throughput instance created from a UseClusterSize definition has
   goal max(1, floor(configured / peers)); every other throughput instance its configured goal. *)
Theorem goals_in_force ops k i :
  let s := frun finit ops in
  kfind k (f_reg s) = Some i -> is_throughput (k_type k) = true ->
  1 <= f_peers s /\
  i_goal i = if k_ucs k then Z.max 1 (k_goal k / f_peers s) else k_init k.
Proof.
  intros s Hk Ht. pose proof (G_run ops finit G_init) as [Hp [_ G2]]. fold s in Hp, G2.
  split; [exact Hp|]. specialize (G2 k i Hk Ht). destruct (k_ucs k).
  - destruct G2 as [_ ->]. apply node_goal_floor. exact Hp.
  - exact G2.
Qed.

(* the peer count the factory divides by is the current number of peers as soon as it has looked:
   after a notification, or after any creation, with a successful non-empty peer list *)
Lemma peers_after_update s n : f_src s = Some n -> 0 < n -> f_peers (update_peer_counts s) = n.
Proof.
  intros Hs Hn. cbn [update_peer_counts f_peers]. unfold new_peers. rewrite Hs.
  destruct (0 <? n) eqn:E; [reflexivity|apply Z.ltb_ge in E; lia].
Qed.

Theorem peers_current_after_notification ops n :
  0 < n -> f_peers (frun finit (ops ++ [FPeers (Some n) true])) = n.
Proof.
  intros Hn. assert (forall s, f_peers (frun s (ops ++ [FPeers (Some n) true])) = n) as H.
  { induction ops as [|o r IH]; intros s; cbn [app frun].
    - cbn [fstep fst frun]. apply peers_after_update; [reflexivity|exact Hn].
    - apply IH. }
  apply H.
Qed.

(* a membership change delivered while a sampler is being created is not lost: the count is the new one *)
Theorem peers_current_after_racing_creation s sc name d n :
  0 < n -> f_peers (fst (fstep s (FCreateRace sc name d (Some n)))) = n.
Proof.
  intros Hn. cbn [fstep]. destruct (create s sc name d) as [s1 id]. cbn [fst].
  apply peers_after_update; [reflexivity|exact Hn].
Qed.

Theorem peers_current_after_creation s sc name d n :
  f_src s = Some n -> 0 < n -> f_peers (fst (create s sc name d)) = n.
Proof.
  intros Hs Hn. unfold create. destruct (kfind (key_of sc name d) (f_reg s)); cbn [fst];
    apply peers_after_update; try exact Hn; exact Hs.
Qed.

(* failed or empty peer lists leave the count alone *)
Theorem peers_unchanged_on_failure s :
  (f_src s = None \/ exists n, f_src s = Some n /\ n <= 0) ->
  f_peers (update_peer_counts s) = f_peers s.
Proof.
  intros H. cbn [update_peer_counts f_peers]. unfold new_peers.
  destruct H as [->|[n [-> Hn]]]; [reflexivity|].
  destruct (0 <? n) eqn:E; [apply Z.ltb_lt in E; lia|reflexivity].
Qed.

(* ---------- what the translator must have found ---------- *)
Lemma gen_c12_ok :
  GenC12.key_format_whole = true /\ GenC12.key_format_legacy = false /\
  length GenC12.key_calls_pass_level_and_prefix = 5%nat /\
  GenC12.registry_lookup_or_create = true /\ GenC12.clear_empties_registry = true /\
  GenC12.downstream_prefix_shape = true /\ GenC12.downstream_marked = true /\
  GenC12.toplevel_marked = true /\ GenC12.worker_cache_shape = true /\
  GenC12.worker_reload_clears_cache = true /\
  GenC12.reload_clear_before_signal = true /\ GenC12.reload_signal_before_clear = false /\
  param_names 3 = ["SampleRate"; "ClearFrequency"; "MaxKeys"; "UseTraceLength"]%string /\
  param_names 4 = ["GoalSampleRate"; "AdjustmentInterval"; "Weight"; "AgeOutValue"; "BurstMultiple";
                   "BurstDetectionDelay"; "MaxKeys"; "UseTraceLength"]%string /\
  param_names 5 = ["GoalThroughputPerSec"; "UseClusterSize"; "InitialSampleRate"; "AdjustmentInterval";
                   "Weight"; "AgeOutValue"; "BurstMultiple"; "BurstDetectionDelay"; "MaxKeys";
                   "UseTraceLength"]%string /\
  param_names 6 = ["UpdateFrequency"; "LookbackFrequency"; "GoalThroughputPerSec"; "UseClusterSize";
                   "MaxKeys"; "UseTraceLength"]%string /\
  param_names 7 = ["GoalThroughputPerSec"; "UseClusterSize"; "ClearFrequency"; "MaxKeys";
                   "UseTraceLength"]%string.
Proof. repeat split; reflexivity. Qed.
