(* Proofs about Model/Payload.v: whatever Refinery does to a payload between ingestion and
   transmission (critical-field extraction, memoisation in any order, Set of annotations and
   attributes), the marshalled map carries every non-reserved client field exactly once with its
   value, adds only reserved names and explicitly set keys, and invents nothing. *)
From Refinery Require Import Lib.Base Lib.SMap_route2 Gen.GenC20 Model.Payload.

(* ---------- facts read off the generated tables (fail to compile if the source changes them) ---------- *)
Lemma time_standard_true : time_standard = true.
Proof. vm_compute. reflexivity. Qed.

Lemma table_ok_true : table_ok metadata_fields = true.
Proof. vm_compute. reflexivity. Qed.

(* ---------- induction principle for the nested value type ---------- *)
Section ValueInd.
  Variable P : value -> Prop.
  Hypothesis HNil : P VNil.
  Hypothesis HBool : forall b, P (VBool b).
  Hypothesis HInt : forall z, P (VInt z).
  Hypothesis HUint : forall n, P (VUint n).
  Hypothesis HF32 : forall b, P (VF32 b).
  Hypothesis HF64 : forall b, P (VF64 b).
  Hypothesis HStr : forall s, P (VStr s).
  Hypothesis HBin : forall s, P (VBin s).
  Hypothesis HTime : forall s n, P (VTime s n).
  Hypothesis HExt : forall t d, P (VExt t d).
  Hypothesis HArr : forall l, Forall P l -> P (VArr l).
  Hypothesis HMap : forall l, Forall (fun kv => P (snd kv)) l -> P (VMap l).

  Fixpoint value_ind' (v : value) : P v :=
    match v with
    | VNil => HNil | VBool b => HBool b | VInt z => HInt z | VUint n => HUint n
    | VF32 b => HF32 b | VF64 b => HF64 b | VStr s => HStr s | VBin s => HBin s
    | VTime s n => HTime s n | VExt t d => HExt t d
    | VArr l => HArr l ((fix go (l : list value) : Forall P l :=
                           match l with
                           | [] => Forall_nil _
                           | x :: r => Forall_cons _ (value_ind' x) (go r)
                           end) l)
    | VMap l => HMap l ((fix go (l : list (string * value)) : Forall (fun kv => P (snd kv)) l :=
                           match l with
                           | [] => Forall_nil _
                           | kv :: r => Forall_cons (P := fun kv => P (snd kv)) kv (value_ind' (snd kv)) (go r)
                           end) l)
    end.
End ValueInd.

Lemma map_ext_Forall {A B} (f g : A -> B) l : Forall (fun x => f x = g x) l -> map f l = map g l.
Proof. induction 1 as [|x r H _ IH]; cbn [map]; [reflexivity|]. rewrite H, IH. reflexivity. Qed.

Section Canon.
  Variable widen : N -> N.

  Lemma canon_reenc v : canon widen (reenc true v) = canon widen v.
  Proof.
    induction v as [| | | n | | | | | | |l IH|l IH] using value_ind'; cbn [reenc canon]; try reflexivity.
    - destruct (n <? 128)%N; reflexivity.
    - f_equal. rewrite map_map. apply map_ext_Forall. exact IH.
    - f_equal. rewrite map_map. apply map_ext_Forall.
      eapply Forall_impl; [|exact IH]. intros [k v] H. cbn [fst snd] in *. rewrite H. reflexivity.
  Qed.

  Lemma canon_loosen v : canon widen (loosen widen v) = canon widen (bin2str v).
  Proof.
    induction v as [| | | | | | | | | |l IH|l IH] using value_ind'; cbn [loosen bin2str canon]; try reflexivity.
    - f_equal. rewrite !map_map. apply map_ext_Forall. exact IH.
    - f_equal. rewrite !map_map. apply map_ext_Forall.
      eapply Forall_impl; [|exact IH]. intros [k v] H. cbn [fst snd] in *. rewrite H. reflexivity.
  Qed.

  (* canon only abstracts numeric width: every other scalar is pinned exactly *)
  Lemma canon_time_exact v s n : canon widen v = VTime s n -> v = VTime s n.
  Proof. destruct v; cbn [canon]; intros H; try discriminate; exact H. Qed.
  Lemma canon_str_exact v s : canon widen v = VStr s -> v = VStr s.
  Proof. destruct v; cbn [canon]; intros H; try discriminate; exact H. Qed.
  Lemma canon_bin_exact v s : canon widen v = VBin s -> v = VBin s.
  Proof. destruct v; cbn [canon]; intros H; try discriminate; exact H. Qed.
End Canon.

(* ---------- list helpers ---------- *)
Lemma NoDup_app_intro {A} (a b : list A) :
  NoDup a -> NoDup b -> (forall x, In x a -> ~ In x b) -> NoDup (a ++ b).
Proof.
  induction a as [|x r IH]; cbn [app]; intros Ha Hb Hd; [exact Hb|].
  inversion Ha as [|? ? Hn Hr]; subst. constructor.
  - intros Hin. apply in_app_or in Hin. destruct Hin as [Hin|Hin]; [contradiction|].
    exact (Hd x (or_introl eq_refl) Hin).
  - apply IH; [exact Hr|exact Hb|]. intros y Hy. apply Hd. right. exact Hy.
Qed.

Lemma sdistinct_NoDup l : sdistinct l = true -> NoDup l.
Proof.
  induction l as [|x r IH]; cbn [sdistinct]; intros H; [constructor|].
  apply andb_true_iff in H. destruct H as [H1 H2]. constructor; [|apply IH; exact H2].
  apply negb_true_iff in H1. apply smem_false_notin. exact H1.
Qed.

Lemma reserved_false_lookup k : reserved k = false <-> slookup k metadata_fields = None.
Proof. unfold reserved, reserved_in. apply shas_false. Qed.

Lemma table_keys_NoDup : NoDup (skeys metadata_fields).
Proof.
  apply sdistinct_NoDup. pose proof table_ok_true as H. unfold table_ok in H.
  apply andb_true_iff in H. exact (proj2 H).
Qed.

(* ---------- marshal ---------- *)
Lemma marshal_meta_keys tbl m k : In k (skeys (marshal_meta tbl m)) -> In k (skeys tbl).
Proof.
  unfold marshal_meta. induction tbl as [|[n t] r IH]; cbn [flat_map skeys map fst]; [intros []|].
  unfold skeys in *. rewrite map_app. intros H. apply in_app_or in H. destruct H as [H|H].
  - destruct (slookup n m) as [v|]; [|destruct H].
    destruct (meta_emits v); [|destruct H]. cbn [map fst In] in H. destruct H as [H|[]]. left. exact H.
  - right. apply IH. exact H.
Qed.

Lemma marshal_meta_NoDup tbl m : NoDup (skeys tbl) -> NoDup (skeys (marshal_meta tbl m)).
Proof.
  unfold marshal_meta. induction tbl as [|[n t] r IH]; cbn [flat_map skeys map fst]; intros H; [constructor|].
  inversion H as [|? ? Hn Hr]; subst. unfold skeys in *. rewrite map_app.
  apply NoDup_app_intro.
  - destruct (slookup n m) as [v|]; [|constructor]. destruct (meta_emits v); [|constructor].
    cbn [map fst]. constructor; [intros []|constructor].
  - apply IH. exact Hr.
  - intros x Hx Hx2. destruct (slookup n m) as [v|]; [|destruct Hx].
    destruct (meta_emits v); [|destruct Hx]. cbn [map fst In] in Hx. destruct Hx as [<-|[]].
    apply Hn. exact (marshal_meta_keys r m n Hx2).
Qed.

Lemma marshal_meta_lookup_nonres m k : reserved k = false -> slookup k (marshal_meta metadata_fields m) = None.
Proof.
  intros H. apply slookup_None_notin. intros Hin. apply marshal_meta_keys in Hin.
  apply reserved_false_lookup in H. apply slookup_None_notin in H. contradiction.
Qed.

Definition memo_part (p : payload) : fields :=
  map (fun kv => (fst kv, reenc time_standard (snd kv))) (filter (fun kv => negb (reserved (fst kv))) (p_memo p)).
Definition raw_part (p : payload) : fields :=
  filter (fun kv => negb (shas (fst kv) (p_memo p)) && negb (reserved (fst kv))) (p_raw p).

Lemma marshal_split p : marshal p = marshal_meta metadata_fields (p_meta p) ++ memo_part p ++ raw_part p.
Proof. reflexivity. Qed.

Lemma memo_part_lookup p k :
  slookup k (memo_part p) = if reserved k then None else option_map (reenc time_standard) (slookup k (p_memo p)).
Proof.
  unfold memo_part. rewrite slookup_map_val.
  rewrite (slookup_filter_key (fun k => negb (reserved k))).
  destruct (reserved k); reflexivity.
Qed.

Lemma raw_part_lookup p k :
  slookup k (raw_part p) = if negb (shas k (p_memo p)) && negb (reserved k) then slookup k (p_raw p) else None.
Proof.
  unfold raw_part. apply (slookup_filter_key (fun k => negb (shas k (p_memo p)) && negb (reserved k))).
Qed.

Lemma marshal_lookup p k :
  reserved k = false ->
  slookup k (marshal p) =
  match slookup k (p_memo p) with
  | Some v => Some (reenc time_standard v)
  | None => slookup k (p_raw p)
  end.
Proof.
  intros Hr. rewrite marshal_split, !slookup_app, marshal_meta_lookup_nonres by exact Hr.
  rewrite memo_part_lookup, raw_part_lookup, Hr. unfold shas.
  destruct (slookup k (p_memo p)); reflexivity.
Qed.

Lemma marshal_NoDup p :
  NoDup (skeys (p_raw p)) -> NoDup (skeys (p_memo p)) -> NoDup (skeys (marshal p)).
Proof.
  intros Hraw Hmemo. rewrite marshal_split. unfold skeys. rewrite !map_app.
  assert (Hmp : NoDup (skeys (memo_part p))).
  { unfold memo_part. rewrite skeys_map_val. apply NoDup_skeys_filter. exact Hmemo. }
  assert (Hrp : NoDup (skeys (raw_part p))).
  { unfold raw_part. apply NoDup_skeys_filter. exact Hraw. }
  apply NoDup_app_intro.
  - apply marshal_meta_NoDup. exact table_keys_NoDup.
  - apply NoDup_app_intro; [exact Hmp|exact Hrp|].
    intros x Hm Hr. change (In x (skeys (memo_part p))) in Hm. change (In x (skeys (raw_part p))) in Hr.
    apply In_skeys_slookup in Hm. apply In_skeys_slookup in Hr.
    rewrite memo_part_lookup in Hm. rewrite raw_part_lookup in Hr.
    destruct (reserved x); [apply Hm; reflexivity|]. unfold shas in Hr.
    destruct (slookup x (p_memo p)); [apply Hr; reflexivity|apply Hm; reflexivity].
  - intros x Hx Hy. change (In x (skeys (marshal_meta metadata_fields (p_meta p)))) in Hx.
    apply marshal_meta_keys in Hx.
    assert (Hres : reserved x = true).
    { unfold reserved, reserved_in. apply shas_true. exact Hx. }
    apply in_app_or in Hy. destruct Hy as [Hy|Hy].
    + change (In x (skeys (memo_part p))) in Hy. apply In_skeys_slookup in Hy.
      rewrite memo_part_lookup, Hres in Hy. apply Hy. reflexivity.
    + change (In x (skeys (raw_part p))) in Hy. apply In_skeys_slookup in Hy.
      rewrite raw_part_lookup, Hres, andb_false_r in Hy. apply Hy. reflexivity.
Qed.

(* ---------- the invariant ---------- *)
Section Inv.
  Variable widen : N -> N.
  Variable fs0 : fields.            (* the client's fields as the path's decoder presents them *)

  (* S : keys explicitly Set so far *)
  Definition INV (S : list string) (p : payload) : Prop :=
    NoDup (skeys (p_raw p)) /\ NoDup (skeys (p_memo p)) /\
    (forall k v, slookup k (p_raw p) = Some v -> slookup k fs0 = Some v) /\
    (forall k v, slookup k (p_memo p) = Some v -> reserved k = false -> ~ In k S ->
        exists v0, slookup k fs0 = Some v0 /\ canon widen v = canon widen v0) /\
    (forall k, reserved k = false -> ~ In k S -> slookup k (p_memo p) = None ->
        slookup k (p_raw p) = slookup k fs0).

  Lemma INV_same S p p' : p_raw p' = p_raw p -> p_memo p' = p_memo p -> INV S p -> INV S p'.
  Proof. unfold INV. intros -> ->. exact (fun H => H). Qed.

  Lemma meta_assign_raw t k v p : p_raw (meta_assign t k v p) = p_raw p.
  Proof. destruct t, v; reflexivity. Qed.
  Lemma meta_assign_memo t k v p : p_memo (meta_assign t k v p) = p_memo p.
  Proof. destruct t, v; reflexivity. Qed.

  Lemma pset_raw k v p : p_raw (pset k v p) = p_raw p.
  Proof.
    unfold pset. destruct (slookup k metadata_fields) as [t|]; [|reflexivity].
    destruct (mtype_of t); [apply meta_assign_raw|reflexivity].
  Qed.

  Lemma pset_memo_res k v p : reserved k = true -> p_memo (pset k v p) = p_memo p.
  Proof.
    intros H. unfold pset. destruct (slookup k metadata_fields) as [t|] eqn:E.
    - destruct (mtype_of t); [apply meta_assign_memo|reflexivity].
    - apply reserved_false_lookup in E. congruence.
  Qed.

  Lemma pset_memo_nonres k v p : reserved k = false -> p_memo (pset k v p) = sset k v (p_memo p).
  Proof.
    intros H. unfold pset. apply reserved_false_lookup in H. rewrite H. reflexivity.
  Qed.

  (* memoising a field from the raw bytes *)
  Lemma pset_from_raw S p k v : INV S p -> slookup k (p_raw p) = Some v -> INV S (pset k v p).
  Proof.
    intros HI Hk. destruct (reserved k) eqn:Hr.
    - apply (INV_same S p); [apply pset_raw|apply pset_memo_res; exact Hr|exact HI].
    - destruct HI as (Hnr & Hnm & HB' & HA & HB). unfold INV.
      rewrite pset_raw, (pset_memo_nonres k v p Hr).
      split; [exact Hnr|]. split; [apply NoDup_skeys_sset; exact Hnm|]. split; [exact HB'|]. split.
      + intros k' v' Hl Hres Hns. destruct (string_dec k' k) as [->|Hne].
        * rewrite slookup_sset_eq in Hl. injection Hl as <-. exists v. split; [apply HB'; exact Hk|reflexivity].
        * rewrite slookup_sset_neq in Hl by exact Hne. apply HA; assumption.
      + intros k' Hres Hns Hl. destruct (string_dec k' k) as [->|Hne].
        * rewrite slookup_sset_eq in Hl. discriminate.
        * rewrite slookup_sset_neq in Hl by exact Hne. apply HB; assumption.
  Qed.

  (* an explicit Set *)
  Lemma pset_explicit S p k v : INV S p -> INV (k :: S) (pset k v p).
  Proof.
    intros HI. destruct HI as (Hnr & Hnm & HB' & HA & HB). destruct (reserved k) eqn:Hr.
    - unfold INV. rewrite pset_raw, (pset_memo_res k v p Hr).
      split; [exact Hnr|]. split; [exact Hnm|]. split; [exact HB'|]. split.
      + intros k' v' Hl Hres Hns. apply HA; [exact Hl|exact Hres|]. intros Hin. apply Hns. right. exact Hin.
      + intros k' Hres Hns Hl. apply HB; [exact Hres| |exact Hl]. intros Hin. apply Hns. right. exact Hin.
    - unfold INV. rewrite pset_raw, (pset_memo_nonres k v p Hr).
      split; [exact Hnr|]. split; [apply NoDup_skeys_sset; exact Hnm|]. split; [exact HB'|]. split.
      + intros k' v' Hl Hres Hns. assert (Hne : k' <> k) by (intros ->; apply Hns; left; reflexivity).
        rewrite slookup_sset_neq in Hl by exact Hne.
        apply HA; [exact Hl|exact Hres|]. intros Hin. apply Hns. right. exact Hin.
      + intros k' Hres Hns Hl. assert (Hne : k' <> k) by (intros ->; apply Hns; left; reflexivity).
        rewrite slookup_sset_neq in Hl by exact Hne.
        apply HB; [exact Hres| |exact Hl]. intros Hin. apply Hns. right. exact Hin.
  Qed.

  Lemma INV_weaken S S' p : (forall k, In k S -> In k S') -> INV S p -> INV S' p.
  Proof.
    intros Hsub (Hnr & Hnm & HB' & HA & HB). unfold INV.
    split; [exact Hnr|]. split; [exact Hnm|]. split; [exact HB'|]. split.
    - intros k v Hl Hres Hns. apply HA; [exact Hl|exact Hres|]. intros Hin. apply Hns. apply Hsub. exact Hin.
    - intros k Hres Hns Hl. apply HB; [exact Hres| |exact Hl]. intros Hin. apply Hns. apply Hsub. exact Hin.
  Qed.

  (* ----- extractCriticalFieldsFromBytes ----- *)
  Lemma root_false_rm p : p_raw (root_false p) = p_raw p /\ p_memo (root_false p) = p_memo p.
  Proof. split; reflexivity. Qed.

  Lemma In_slookup_raw p k v : NoDup (skeys (p_raw p)) -> In (k, v) (p_raw p) -> slookup k (p_raw p) = Some v.
  Proof. apply In_slookup_NoDup. Qed.

  Lemma extract_step_inv c keys S p n kv p' n' :
    INV S p -> In kv (p_raw p) ->
    extract_step c keys (p, n) kv = Some (p', n') ->
    INV S p' /\ p_raw p' = p_raw p.
  Proof.
    intros HI Hin. destruct kv as [k v]. unfold extract_step.
    set (am := if sprefix "meta." k then
                 match meta_type k with Some t => if wire_type_ok t v then Some t else None | None => None end
               else None).
    destruct am as [t|].
    - destruct (meta_unmarshal t v) as [mv|]; [|discriminate]. intros [= <- <-].
      split; [|reflexivity]. apply (INV_same S p); [reflexivity|reflexivity|exact HI].
    - set (tp := match v with
                 | VStr s => if smem k (trace_names c) && is_empty_str (meta_str meta_trace_id p)
                             then Some (with_meta p (sset meta_trace_id (VStr s) (p_meta p)))
                             else if smem k (parent_names c)
                             then Some (if is_empty_str s then p else root_false p) else None
                 | _ => None end).
      assert (Htp : forall q, tp = Some q -> p_raw q = p_raw p /\ p_memo q = p_memo p).
      { subst tp. intros q. destruct v; try discriminate.
        destruct (smem k (trace_names c) && is_empty_str (meta_str meta_trace_id p)).
        - intros [= <-]. split; reflexivity.
        - destruct (smem k (parent_names c)); [|discriminate]. intros [= <-].
          destruct (is_empty_str s); split; reflexivity. }
      destruct tp as [q|].
      + intros [= <- <-]. destruct (Htp q eq_refl) as [H1 H2].
        split; [|exact H1]. apply (INV_same S p); assumption.
      + destruct ((n <? length keys)%nat && smem k keys && negb (shas k (p_memo p))).
        * intros [= <- <-]. split; [|apply pset_raw].
          apply pset_from_raw; [exact HI|]. apply In_slookup_raw; [exact (proj1 HI)|exact Hin].
        * intros [= <- <-]. split; [exact HI|reflexivity].
  Qed.

  Lemma extract_loop_inv c keys S l : forall p n p' n',
    INV S p -> (forall kv, In kv l -> In kv (p_raw p)) ->
    extract_loop c keys (p, n) l = Some (p', n') ->
    INV S p' /\ p_raw p' = p_raw p.
  Proof.
    induction l as [|kv r IH]; intros p n p' n' HI Hsub; cbn [extract_loop].
    - intros [= <- <-]. split; [exact HI|reflexivity].
    - destruct (extract_step c keys (p, n) kv) as [[p1 n1]|] eqn:E; [|discriminate].
      destruct (extract_step_inv c keys S p n kv p1 n1 HI (Hsub kv (or_introl eq_refl)) E) as [HI1 Hr1].
      intros Hl. destruct (IH p1 n1 p' n' HI1) as [HI2 Hr2].
      + intros x Hx. rewrite Hr1. apply Hsub. right. exact Hx.
      + exact Hl.
      + split; [exact HI2|]. rewrite Hr2. exact Hr1.
  Qed.

  Lemma root_default_rm p : p_raw (root_default p) = p_raw p /\ p_memo (root_default p) = p_memo p.
  Proof. unfold root_default. destruct (shas meta_refinery_root (p_meta p)); split; reflexivity. Qed.
  Lemma log_unsets_root_rm p : p_raw (log_unsets_root p) = p_raw p /\ p_memo (log_unsets_root p) = p_memo p.
  Proof. unfold log_unsets_root. destruct (String.eqb (meta_str meta_signal_type p) "log"); split; reflexivity. Qed.

  Lemma extract_inv c keys S p p' :
    INV S p -> extract c keys (p_raw p) p = Some p' -> INV S p' /\ p_raw p' = p_raw p.
  Proof.
    intros HI. unfold extract.
    destruct (extract_loop c keys (root_default p, 0%nat) (p_raw p)) as [[p1 n1]|] eqn:E; [|discriminate].
    destruct (root_default_rm p) as [Hr0 Hm0].
    assert (HI0 : INV S (root_default p)) by (apply (INV_same S p); assumption).
    destruct (extract_loop_inv c keys S (p_raw p) (root_default p) 0%nat p1 n1 HI0) as [HI1 Hr1].
    { intros kv Hkv. rewrite Hr0. exact Hkv. }
    { exact E. }
    intros [= <-].
    set (p2 := if (n1 <? length keys)%nat then add_missing keys p1 else p1).
    assert (H2 : p_raw p2 = p_raw p1 /\ p_memo p2 = p_memo p1).
    { subst p2. destruct (n1 <? length keys)%nat; split; reflexivity. }
    destruct (log_unsets_root_rm p2) as [Hr3 Hm3].
    split.
    - apply (INV_same S p1); [rewrite Hr3; exact (proj1 H2)|rewrite Hm3; exact (proj2 H2)|exact HI1].
    - rewrite Hr3, (proj1 H2), Hr1. exact Hr0.
  Qed.

  (* ----- ExtractMetadata over the memoised map ----- *)
  Lemma extract_memo_step_rm c p kv :
    p_raw (extract_memo_step c p kv) = p_raw p /\ p_memo (extract_memo_step c p kv) = p_memo p.
  Proof.
    destruct kv as [k v]. unfold extract_memo_step.
    destruct (slookup k metadata_fields) as [t|].
    - destruct (mtype_of t); [split; [apply meta_assign_raw|apply meta_assign_memo]|split; reflexivity].
    - destruct (is_empty_str (meta_str meta_trace_id p) && smem k (trace_names c)).
      + destruct v; try (split; reflexivity). destruct (is_empty_str s); split; reflexivity.
      + destruct (smem k (parent_names c)); [|split; reflexivity].
        destruct v; try (split; reflexivity). destruct (is_empty_str s); split; reflexivity.
  Qed.

  Lemma fold_extract_memo_rm c l : forall p,
    p_raw (fold_left (extract_memo_step c) l p) = p_raw p /\
    p_memo (fold_left (extract_memo_step c) l p) = p_memo p.
  Proof.
    induction l as [|kv r IH]; intros p; cbn [fold_left]; [split; reflexivity|].
    destruct (IH (extract_memo_step c p kv)) as [H1 H2]. destruct (extract_memo_step_rm c p kv) as [H3 H4].
    split; congruence.
  Qed.

  Lemma extract_memo_inv c S p : INV S p -> INV S (extract_memo c p).
  Proof.
    intros HI. unfold extract_memo.
    destruct (log_unsets_root_rm (fold_left (extract_memo_step c) (p_memo p) (root_default p))) as [H1 H2].
    destruct (fold_extract_memo_rm c (p_memo p) (root_default p)) as [H3 H4].
    destruct (root_default_rm p) as [H5 H6].
    apply (INV_same S p); [congruence|congruence|exact HI].
  Qed.

  Lemma add_ua_inv ua S p : INV S p -> INV S (add_ua ua p).
  Proof.
    intros HI. unfold add_ua.
    destruct (negb (is_empty_str ua) && is_empty_str (meta_str meta_incoming_user_agent p)); [|exact HI].
    apply (INV_same S p); [reflexivity|reflexivity|exact HI].
  Qed.

  (* ----- MemoizeFields ----- *)
  Lemma memo_loop_inv tofind S l : forall p n p' n',
    INV S p -> (forall kv, In kv l -> In kv (p_raw p)) ->
    memo_loop tofind (p, n) l = (p', n') -> INV S p' /\ p_raw p' = p_raw p.
  Proof.
    induction l as [|[k v] r IH]; intros p n p' n' HI Hsub; cbn [memo_loop].
    - intros [= <- <-]. split; [exact HI|reflexivity].
    - destruct (n <? length tofind)%nat.
      + destruct (smem k tofind).
        * intros Hl.
          assert (HI1 : INV S (pset k v p)).
          { apply pset_from_raw; [exact HI|]. apply In_slookup_raw; [exact (proj1 HI)|].
            apply Hsub. left. reflexivity. }
          destruct (IH (pset k v p) (Datatypes.S n) p' n' HI1) as [HI2 Hr2].
          { intros x Hx. rewrite pset_raw. apply Hsub. right. exact Hx. }
          { exact Hl. }
          split; [exact HI2|]. rewrite Hr2. apply pset_raw.
        * intros Hl. apply (IH p n p' n' HI); [|exact Hl]. intros x Hx. apply Hsub. right. exact Hx.
      + intros [= <- <-]. split; [exact HI|reflexivity].
  Qed.

  Lemma memoize_inv keys S p : INV S p -> INV S (memoize keys p).
  Proof.
    intros HI. unfold memoize.
    destruct (sdedup (filter (fun k => negb (smem k (p_missing p)) && negb (shas k (p_memo p))) keys)) as [|x tf] eqn:E;
      [exact HI|].
    destruct (memo_loop (x :: tf) (p, 0%nat) (p_raw p)) as [p1 n1] eqn:El.
    destruct (memo_loop_inv (x :: tf) S (p_raw p) p 0%nat p1 n1 HI (fun kv H => H) El) as [HI1 _].
    apply (INV_same S p1); [reflexivity|reflexivity|exact HI1].
  Qed.

  (* ----- the operations applied before transmission ----- *)
  Lemma apply_op_inv S p o :
    INV S p -> INV (match o with OSet k _ => k :: S | OMemoize _ => S end) (apply_op p o).
  Proof.
    intros HI. destruct o as [ks|k v]; cbn [apply_op]; [apply memoize_inv; exact HI|apply pset_explicit; exact HI].
  Qed.

  Lemma ops_inv ops : forall S p, INV S p -> INV (set_keys ops ++ S) (fold_left apply_op ops p).
  Proof.
    induction ops as [|o r IH]; intros S p HI; cbn [fold_left set_keys app]; [exact HI|].
    destruct o as [ks|k v]; cbn [set_keys].
    - apply IH. apply memoize_inv. exact HI.
    - apply (INV_weaken (set_keys r ++ k :: S)).
      + intros x Hx. apply in_app_or in Hx. destruct Hx as [Hx|[->|Hx]].
        * right. apply in_or_app. left. exact Hx.
        * left. reflexivity.
        * right. apply in_or_app. right. exact Hx.
      + apply IH. apply pset_explicit. exact HI.
  Qed.
End Inv.

(* ---------- explicitly set keys keep their last value ---------- *)
Lemma memo_loop_keeps tofind k v l : forall p n,
  smem k tofind = false -> slookup k (p_memo p) = Some v ->
  slookup k (p_memo (fst (memo_loop tofind (p, n) l))) = Some v.
Proof.
  induction l as [|[k' v'] r IH]; intros p n Hk Hl; cbn [memo_loop]; [exact Hl|].
  destruct (n <? length tofind)%nat; [|exact Hl].
  destruct (smem k' tofind) eqn:Hm; [|apply IH; assumption].
  apply IH; [exact Hk|].
  destruct (reserved k') eqn:Hr.
  - rewrite (pset_memo_res k' v' p Hr). exact Hl.
  - rewrite (pset_memo_nonres k' v' p Hr).
    assert (Hne : k <> k') by (intros ->; congruence).
    rewrite slookup_sset_neq by exact Hne. exact Hl.
Qed.

Lemma smem_sdedup k l : smem k (sdedup l) = smem k l.
Proof.
  induction l as [|x r IH]; cbn [sdedup smem]; [reflexivity|].
  destruct (smem x r) eqn:Hx.
  - rewrite IH. destruct (String.eqb k x) eqn:E; [|reflexivity].
    apply String.eqb_eq in E. subst. rewrite Hx. reflexivity.
  - cbn [smem]. rewrite IH. reflexivity.
Qed.

Lemma smem_filter k f l : smem k (filter f l) = smem k l && f k.
Proof.
  induction l as [|x r IH]; cbn [filter smem]; [reflexivity|].
  destruct (f x) eqn:Fx; cbn [smem]; rewrite IH.
  - destruct (String.eqb k x) eqn:E; [|reflexivity]. apply String.eqb_eq in E. subst. rewrite Fx.
    cbn [orb]. destruct (smem x r); reflexivity.
  - destruct (String.eqb k x) eqn:E; [|reflexivity]. apply String.eqb_eq in E. subst. rewrite Fx.
    rewrite !andb_false_r. reflexivity.
Qed.

Lemma memoize_keeps keys k v p :
  slookup k (p_memo p) = Some v -> slookup k (p_memo (memoize keys p)) = Some v.
Proof.
  intros Hl. unfold memoize.
  set (tf := sdedup (filter (fun k => negb (smem k (p_missing p)) && negb (shas k (p_memo p))) keys)).
  assert (Hk : smem k tf = false).
  { subst tf. rewrite smem_sdedup, smem_filter. unfold shas at 1. rewrite Hl.
    cbn [negb]. rewrite !andb_false_r. reflexivity. }
  destruct tf as [|x r] eqn:E; [exact Hl|].
  pose proof (memo_loop_keeps (x :: r) k v (p_raw p) p 0%nat Hk Hl) as H.
  destruct (memo_loop (x :: r) (p, 0%nat) (p_raw p)) as [p1 n1]. exact H.
Qed.

Lemma ops_keep_unset k v ops : forall p,
  last_set k ops = None -> slookup k (p_memo p) = Some v ->
  slookup k (p_memo (fold_left apply_op ops p)) = Some v.
Proof.
  induction ops as [|o r IH]; intros p Hn Hl; cbn [fold_left]; [exact Hl|].
  destruct o as [ks|k' v']; cbn [last_set apply_op] in *.
  - apply IH; [exact Hn|]. apply memoize_keeps. exact Hl.
  - destruct (last_set k r) eqn:Er; [discriminate|].
    destruct (String.eqb k k') eqn:E; [discriminate|]. apply String.eqb_neq in E.
    apply IH; [reflexivity|].
    destruct (reserved k') eqn:Hr.
    + rewrite (pset_memo_res k' v' p Hr). exact Hl.
    + rewrite (pset_memo_nonres k' v' p Hr). rewrite slookup_sset_neq by exact E. exact Hl.
Qed.

Lemma ops_last_set k v ops : forall p,
  reserved k = false -> last_set k ops = Some v ->
  slookup k (p_memo (fold_left apply_op ops p)) = Some v.
Proof.
  induction ops as [|o r IH]; intros p Hr Hs; cbn [fold_left]; [discriminate|].
  destruct o as [ks|k' v']; cbn [last_set apply_op] in *.
  - apply IH; assumption.
  - destruct (last_set k r) as [w|] eqn:Er.
    + apply IH; assumption.
    + destruct (String.eqb k k') eqn:E; [|discriminate]. apply String.eqb_eq in E. subst k'.
      injection Hs as ->. apply ops_keep_unset; [exact Er|].
      rewrite (pset_memo_nonres k v p Hr). apply slookup_sset_eq.
Qed.

(* ---------- the theorem ---------- *)
Section Main.
  Variable widen : N -> N.

  Definition path_spec (pa : path) (v : value) : value :=
    match pa with PEventMsgp => bin2str v | _ => v end.

  Lemma path_fields_lookup pa fs k :
    slookup k (path_fields widen pa fs) = option_map (path_value widen pa) (slookup k fs).
  Proof. unfold path_fields. apply slookup_map_val. Qed.

  Lemma canon_path_value pa v : canon widen (path_value widen pa v) = canon widen (path_spec pa v).
  Proof. destruct pa; cbn [path_value path_spec]; try reflexivity. apply canon_loosen. Qed.

  Lemma path_fields_id pa fs : pa <> PEventMsgp -> path_fields widen pa fs = fs.
  Proof.
    intros Hp. unfold path_fields. rewrite <- (map_id fs) at 2. apply map_ext.
    intros [k v]. destruct pa; cbn [path_value fst snd]; try reflexivity. contradiction.
  Qed.

  Lemma INV_init_raw fs : NoDup (skeys fs) ->
    INV widen fs [] {| p_raw := fs; p_memo := []; p_missing := []; p_meta := [] |}.
  Proof.
    intros Hnd. unfold INV; cbn [p_raw p_memo].
    split; [exact Hnd|]. split; [constructor|]. split; [intros k v H; exact H|]. split.
    - intros k v H. discriminate.
    - intros k _ _ _. reflexivity.
  Qed.

  Lemma INV_init_memo fs0 : NoDup (skeys fs0) ->
    INV widen fs0 [] {| p_raw := []; p_memo := fs0; p_missing := []; p_meta := [] |}.
  Proof.
    intros Hnd. unfold INV; cbn [p_raw p_memo].
    split; [constructor|]. split; [exact Hnd|]. split; [intros k v H; discriminate|]. split.
    - intros k v H _ _. exists v. split; [exact H|reflexivity].
    - intros k _ _ H. rewrite H. reflexivity.
  Qed.

  Lemma ingest_inv pa c ua fs p :
    NoDup (skeys fs) -> ingest widen pa c ua fs = Some p -> INV widen (path_fields widen pa fs) [] p.
  Proof.
    intros Hnd. unfold ingest. destruct fs as [|f0 fr] eqn:Efs; [discriminate|]. rewrite <- Efs in *. clear Efs f0 fr.
    assert (Hbatch : forall keys, pa <> PEventMsgp ->
              match extract c keys fs {| p_raw := fs; p_memo := []; p_missing := []; p_meta := [] |} with
              | Some p0 => Some (add_ua ua p0) | None => None end = Some p ->
              INV widen (path_fields widen pa fs) [] p).
    { intros keys Hp. rewrite (path_fields_id pa fs Hp).
      destruct (extract c keys fs _) as [p0|] eqn:E; [|discriminate]. intros [= <-].
      apply add_ua_inv.
      exact (proj1 (extract_inv widen fs c keys [] _ p0 (INV_init_raw fs Hnd) E)). }
    destruct pa.
    - apply Hbatch. discriminate.
    - apply Hbatch. discriminate.
    - intros [= <-]. apply extract_memo_inv. apply add_ua_inv. apply INV_init_memo.
      unfold path_fields. rewrite skeys_map_val. exact Hnd.
    - intros [= <-]. apply extract_memo_inv. apply add_ua_inv. apply INV_init_memo.
      unfold path_fields. rewrite skeys_map_val. exact Hnd.
    - apply Hbatch. discriminate.
  Qed.

  Theorem forward_preserves pa c ua fs ops out :
    NoDup (skeys fs) ->
    forward widen pa c ua fs ops = Some out ->
    (* no duplicated key *)
    NoDup (skeys out) /\
    (* every client field that is not a reserved name and not overwritten by an explicit Set is there,
       with its value and msgpack type (bin -> str on the loose msgpack /1/events path), and
       no such key appears unless the client sent it *)
    (forall k, reserved k = false -> ~ In k (set_keys ops) ->
        option_map (canon widen) (slookup k out) =
        option_map (fun v => canon widen (path_spec pa v)) (slookup k fs)) /\
    (* nothing else is added but reserved names and explicitly set keys *)
    (forall k, In k (skeys out) -> reserved k = true \/ In k (skeys fs) \/ In k (set_keys ops)) /\
    (* explicitly set, non-reserved attributes carry the value set last *)
    (forall k v, reserved k = false -> last_set k ops = Some v ->
        option_map (canon widen) (slookup k out) = Some (canon widen v)).
  Proof.
    intros Hnd. unfold forward. destruct (ingest widen pa c ua fs) as [p|] eqn:Ei; [|discriminate].
    destruct (is_probe p); [discriminate|]. intros [= <-].
    pose proof (ingest_inv pa c ua fs p Hnd Ei) as HI0.
    pose proof (ops_inv widen (path_fields widen pa fs) ops [] p HI0) as HI.
    rewrite app_nil_r in HI. set (q := fold_left apply_op ops p) in *.
    destruct HI as (Hnr & Hnm & HB' & HA & HB).
    assert (Hcl : forall k, reserved k = false -> ~ In k (set_keys ops) ->
              option_map (canon widen) (slookup k (marshal q)) =
              option_map (fun v => canon widen (path_spec pa v)) (slookup k fs)).
    { intros k Hr Hns. rewrite (marshal_lookup q k Hr), time_standard_true.
      destruct (slookup k (p_memo q)) as [v|] eqn:Em.
      - destruct (HA k v Em Hr Hns) as (v0 & Hv0 & Hc). rewrite path_fields_lookup in Hv0.
        destruct (slookup k fs) as [w|]; [|discriminate]. cbn [option_map] in *. injection Hv0 as <-.
        rewrite canon_reenc, Hc, canon_path_value. reflexivity.
      - rewrite (HB k Hr Hns Em), path_fields_lookup.
        destruct (slookup k fs) as [w|]; cbn [option_map]; [|reflexivity].
        rewrite canon_path_value. reflexivity. }
    split; [apply marshal_NoDup; assumption|]. split; [exact Hcl|]. split.
    - intros k Hin. destruct (reserved k) eqn:Hr; [left; reflexivity|right].
      destruct (in_dec string_dec k (set_keys ops)) as [Hs|Hs]; [right; exact Hs|left].
      pose proof (Hcl k Hr Hs) as H. apply In_skeys_slookup in Hin. apply In_skeys_slookup.
      destruct (slookup k (marshal q)); [|exfalso; apply Hin; reflexivity].
      destruct (slookup k fs); [discriminate|discriminate H].
    - intros k v Hr Hs. rewrite (marshal_lookup q k Hr), time_standard_true.
      subst q. rewrite (ops_last_set k v ops p Hr Hs). cbn [option_map]. rewrite canon_reenc. reflexivity.
  Qed.

  (* consequences in the vocabulary of the property *)
  Corollary timestamps_exact pa c ua fs ops out k s n :
    NoDup (skeys fs) -> forward widen pa c ua fs ops = Some out ->
    reserved k = false -> ~ In k (set_keys ops) ->
    slookup k fs = Some (VTime s n) -> slookup k out = Some (VTime s n).
  Proof.
    intros Hnd Hf Hr Hs Hk. destruct (forward_preserves pa c ua fs ops out Hnd Hf) as (_ & H & _).
    specialize (H k Hr Hs). rewrite Hk in H. cbn [option_map] in H.
    assert (Hp : path_spec pa (VTime s n) = VTime s n) by (destruct pa; reflexivity).
    rewrite Hp in H. cbn [canon] in H.
    destruct (slookup k out) as [w|]; [|discriminate]. cbn [option_map] in H. injection H as H.
    apply canon_time_exact in H. rewrite H. reflexivity.
  Qed.

  Corollary strings_exact pa c ua fs ops out k s :
    NoDup (skeys fs) -> forward widen pa c ua fs ops = Some out ->
    reserved k = false -> ~ In k (set_keys ops) ->
    slookup k fs = Some (VStr s) -> slookup k out = Some (VStr s).
  Proof.
    intros Hnd Hf Hr Hs Hk. destruct (forward_preserves pa c ua fs ops out Hnd Hf) as (_ & H & _).
    specialize (H k Hr Hs). rewrite Hk in H. cbn [option_map] in H.
    assert (Hp : path_spec pa (VStr s) = VStr s) by (destruct pa; reflexivity).
    rewrite Hp in H. cbn [canon] in H.
    destruct (slookup k out) as [w|]; [|discriminate]. cbn [option_map] in H. injection H as H.
    apply canon_str_exact in H. rewrite H. reflexivity.
  Qed.

  (* on every path except the loose msgpack /1/events one, values keep their msgpack type exactly *)
  Corollary types_kept_except_loose_path pa c ua fs ops out k :
    pa <> PEventMsgp ->
    NoDup (skeys fs) -> forward widen pa c ua fs ops = Some out ->
    reserved k = false -> ~ In k (set_keys ops) ->
    option_map (canon widen) (slookup k out) = option_map (canon widen) (slookup k fs).
  Proof.
    intros Hp Hnd Hf Hr Hs. destruct (forward_preserves pa c ua fs ops out Hnd Hf) as (_ & H & _).
    rewrite (H k Hr Hs). destruct (slookup k fs) as [w|]; [|reflexivity]. cbn [option_map].
    destruct pa; try reflexivity. contradiction.
  Qed.
End Main.

(* the full statement ("msgpack values keep their encoded type") fails on the msgpack /1/events path *)
Lemma event_msgpack_bin_refuted :
  exists c ua fs out k s,
    NoDup (skeys fs) /\ reserved k = false /\
    forward (fun b => b) PEventMsgp c ua fs [] = Some out /\
    slookup k fs = Some (VBin s) /\ slookup k out = Some (VStr s).
Proof.
  exists {| trace_names := []; parent_names := []; key_fields := [] |}, EmptyString,
         [("a"%string, VBin "xyz")], [(meta_refinery_root, VBool true); ("a"%string, VStr "xyz")], "a"%string, "xyz"%string.
  split; [constructor; [intros []|constructor]|].
  vm_compute. repeat split; reflexivity.
Qed.
