(* C35 — the instance facts (finite checks by vm_compute on the regenerated table) and the
   instance theorem obtained from the generic table theorem. *)
From Refinery Require Import Lib.Base Model.Locks Model.LocksInst Proofs.Locks.
Local Open Scope nat_scope.

Lemma c35_instance_ok_true : c35_instance_ok = true.
Proof. vm_compute. reflexivity. Qed.

Lemma c35_well_protected : well_protected c35_singleton c35_table = true.
Proof.
  pose proof c35_instance_ok_true as H. unfold c35_instance_ok in H.
  apply andb_true_iff in H. destruct H as [H _]. apply andb_true_iff in H. destruct H as [H _]. exact H.
Qed.

Lemma c35_no_bad_pairs : bad_pairs c35_singleton c35_table = [].
Proof. apply well_protected_bad_pairs. exact c35_well_protected. Qed.

(* every well-formed run of a program described by the regenerated access tables is race free *)
Lemma c35_race_free :
  forall owner pown gate tr,
    wf_locks tr -> wf_edges tr ->
    conforms c35_table c35_singleton owner pown gate tr ->
    race_free c35_table tr.
Proof. intros owner pown gate. apply table_sound. exact c35_well_protected. Qed.

(* the check is not vacuous on the generated table: there are conflicting run-phase pairs and they
   are protected by a common lock *)
Lemma c35_lock_pairs_nonzero : 100 <= lock_protected_pairs c35_table.
Proof. vm_compute. repeat constructor. Qed.

(* the rows of the three defects of the pinned tree (as the translator printed them before the
   fix: commits): the discipline check rejects each of them *)
Lemma pinned_rows_rejected :
  well_protected c35_singleton (map mk_site pinned_kept) = false /\
  well_protected c35_singleton (map mk_site pinned_filecfg) = false /\
  well_protected c35_singleton (map mk_site pinned_watcher) = false /\
  well_protected c35_singleton (map mk_site pinned_collector_reload) = false /\
  well_protected c35_singleton (map mk_site pinned_peers) = false /\
  well_protected c35_singleton (map mk_site pinned_sampler) = false.
Proof. vm_compute. repeat split; reflexivity. Qed.

(* ------------------------------------------------------------------ a concrete conforming run
   Non-vacuity of the table theorem: a two-row table (a write under Lock, a read under RLock), a
   nine-step run of two goroutines on one object that satisfies every hypothesis of [table_sound]
   and contains a conflicting pair (steps 3 and 7). *)
Local Open Scope string_scope.
Definition demo_tbl : list site := map mk_site
  [ ("S", "f", "S.Set", 1%N, [("mu", true)], ["ext"], 1%N, true, false);
    ("S", "f", "S.Get", 0%N, [("mu", false)], ["ext"], 1%N, true, false) ].
Definition demo_run : list ev :=
  [ Post 0%N 0%N; Await 1%N 0%N; Acq 1%N 7%N "mu" true; Acc 1%N 7%N 0%nat; Rel 1%N 7%N "mu" true;
    Await 2%N 0%N; Acq 2%N 7%N "mu" false; Acc 2%N 7%N 1%nat; Rel 2%N 7%N "mu" false ].
Definition demo_single : string -> string -> bool := fun _ _ => false.
Definition demo_owner : obj -> string -> string -> tid := fun _ _ _ => 0%N.
Definition demo_pown : obj -> N -> tid := fun _ _ => 0%N.
Definition demo_gate : obj -> N -> N := fun _ p => p.

Lemma at_indexed (tr : list ev) : forall (k i : nat) (e : ev),
  nth_error tr i = Some e -> In (Nat.add k i, e) (combine (seq k (length tr)) tr).
Proof.
  induction tr as [|x r IH]; intros k i e H; [destruct i; discriminate|].
  destruct i as [|i]; cbn in H |- *.
  - injection H as ->. left. rewrite Nat.add_0_r. reflexivity.
  - right. replace (Nat.add k (S i)) with (Nat.add (S k) i) by lia. apply IH. exact H.
Qed.

Lemma demo_at i e : at_ demo_run i e -> In (i, e) (combine (seq 0 (length demo_run)) demo_run).
Proof. intros H. exact (at_indexed demo_run 0 i e H). Qed.

Ltac demo_cases H :=
  apply demo_at in H; cbn in H;
  repeat (destruct H as [H|H]; [try discriminate H; try (injection H as ? ?; subst)|]); try contradiction.

Lemma demo_wf_locks : wf_locks demo_run.
Proof.
  intros a t o m x t' x' Hacq [a0 [Hlt [Hacq0 Hno]]].
  demo_cases Hacq; demo_cases Hacq0; try lia.
  exfalso. apply (Hno 4%nat); [lia|reflexivity].
Qed.

Lemma demo_wf_edges : wf_edges demo_run.
Proof.
  intros q t k H. demo_cases H; exists 0%nat, 0%N; (split; [lia|reflexivity]).
Qed.

Lemma demo_conforms : conforms demo_tbl demo_single demo_owner demo_pown demo_gate demo_run.
Proof.
  constructor.
  - intros i t o s a m x Hi Ha Hin. demo_cases Hi; cbn in Ha; injection Ha as <-; cbn in Hin;
      destruct Hin as [Hin|[]]; injection Hin as <- <-.
    + exists 2%nat. split; [lia|]. split; [reflexivity|]. intros r Hr. assert (r = 2)%nat by lia. lia.
    + exists 6%nat. split; [lia|]. split; [reflexivity|]. intros r Hr. lia.
  - intros i t o s a r Hi Ha Hr Hs. discriminate Hs.
  - intros i t o s a Hi Ha Hrun. demo_cases Hi; cbn in Ha; injection Ha as <-; discriminate Hrun.
  - intros j t o s b p Hj Hb Hlt Hne. demo_cases Hj; cbn in Hb; injection Hb as <-; cbn in Hlt;
      assert (p = 0%N) by lia; subst p; cbn.
    + exists 1%nat. split; [lia|reflexivity].
    + exists 5%nat. split; [lia|reflexivity].
  - intros i j t t' o s s' a b Hi Hj Hne Ha Hb Hloc Hf.
    demo_cases Hi; cbn in Ha; injection Ha as <-; demo_cases Hj; cbn in Hb; injection Hb as <-; discriminate Hf.
Qed.

Lemma demo_conflict : conflict demo_tbl demo_run 3 7.
Proof.
  exists 1%N, 2%N, 7%N, 0%nat, 1%nat. eexists. eexists.
  split; [lia|]. split; [reflexivity|]. split; [reflexivity|]. split; [discriminate|].
  split; [reflexivity|]. split; [reflexivity|]. split; reflexivity.
Qed.

Lemma demo_nonvacuous :
  well_protected demo_single demo_tbl = true /\ wf_locks demo_run /\ wf_edges demo_run /\
  conforms demo_tbl demo_single demo_owner demo_pown demo_gate demo_run /\
  conflict demo_tbl demo_run 3 7 /\ hb demo_run 3 7.
Proof.
  assert (Hwp : well_protected demo_single demo_tbl = true) by (vm_compute; reflexivity).
  split; [exact Hwp|]. split; [exact demo_wf_locks|]. split; [exact demo_wf_edges|].
  split; [exact demo_conforms|]. split; [exact demo_conflict|].
  exact (table_sound demo_tbl demo_single demo_owner demo_pown demo_gate Hwp demo_run
           demo_wf_locks demo_wf_edges demo_conforms 3 7 demo_conflict).
Qed.
