(* Proofs about the DirectTransmission model: conservation of events, per-destination batches,
   size limits, timely dispatch, bounded retries, gauge accounting. *)
From Refinery Require Import Lib.Base Model.Transmit.
From Coq Require Import Permutation.

Local Open Scope Z_scope.

(* ------------------------------------------------------------------ small list / amap facts *)
Lemma aremove_notin {V} k (m : amap V) : ~ In k (akeys m) -> aremove k m = m.
Proof.
  induction m as [|[k' v] r IH]; cbn [aremove akeys map fst In]; intros H; [reflexivity|].
  destruct (N.eqb k k') eqn:E.
  - apply N.eqb_eq in E. subst. exfalso. apply H. left. reflexivity.
  - f_equal. apply IH. intros Hin. apply H. right. exact Hin.
Qed.

Lemma In_aremove {V} k (kv : N * V) (m : amap V) : In kv (aremove k m) -> In kv m.
Proof.
  induction m as [|[k' v] r IH]; cbn [aremove]; intros H; [exact H|].
  destruct (N.eqb k k'); [right; apply IH; exact H|].
  destruct H as [H|H]; [left; exact H|right; apply IH; exact H].
Qed.

Lemma batch_of_In k (p : amap pbatch) : pevs (batch_of k p) <> [] -> In (k, batch_of k p) p.
Proof.
  unfold batch_of. destruct (alookup k p) eqn:L.
  - intros _. apply alookup_In. exact L.
  - cbn. intros H. exfalso. apply H. reflexivity.
Qed.

(* stamped events: (event, enqueue instant) *)
Definition pev (p : amap pbatch) : list (event * Z) := pending_events p.
Definition dev (ds : list disp) : list (event * Z) := concat (map devs ds).

Lemma pev_cons k b p : pev ((k, b) :: p) = pevs b ++ pev p.
Proof. reflexivity. Qed.

Lemma dev_cons d ds : dev (d :: ds) = devs d ++ dev ds.
Proof. reflexivity. Qed.

Lemma dev_app a b : dev (a ++ b) = dev a ++ dev b.
Proof. unfold dev. rewrite map_app, concat_app. reflexivity. Qed.

Lemma pev_split k (p : amap pbatch) :
  NoDup (akeys p) -> Permutation (pev p) (pevs (batch_of k p) ++ pev (aremove k p)).
Proof.
  induction p as [|[k' b'] r IH]; intros Hnd.
  - unfold batch_of. cbn. constructor.
  - inversion Hnd as [|? ? Hn Hr]; subst. cbn [akeys map fst] in Hn.
    unfold batch_of. cbn [alookup aremove]. destruct (N.eqb k k') eqn:E.
    + apply N.eqb_eq in E. subst k'. rewrite (aremove_notin k r Hn). rewrite pev_cons. apply Permutation_refl.
    + rewrite !pev_cons. specialize (IH Hr). unfold batch_of in IH.
      rewrite IH. rewrite !app_assoc. apply Permutation_app_tail. apply Permutation_app_comm.
Qed.

(* ------------------------------------------------------------------ the batching invariant *)
Section Batching.
  Variable c : tcfg.
  Hypothesis Hc : cfg_ok c = true.

  Lemma cfg_facts :
    5 <= slack c /\ slack c + maxEv c <= maxBody c /\ 0 <= maxEv c /\ (ntries c <= 2)%nat /\
    4 <= tdiv c /\ 1 <= maxBatch c /\ tdiv c <= bt c.
  Proof.
    unfold cfg_ok, consts_ok in Hc. rewrite !andb_true_iff in Hc.
    destruct Hc as [[[[[[H1 H2] H3] H4] H5] H6] H7].
    rewrite Z.leb_le in *. apply Nat.leb_le in H4. repeat split; assumption.
  Qed.

  Lemma q_pos : 0 < tickq c.
  Proof.
    destruct cfg_facts as (_ & _ & _ & _ & Hd & _ & Hb). unfold tickq.
    apply Z.div_str_pos. lia.
  Qed.
  Lemma q_quarter : 4 * tickq c <= bt c.
  Proof.
    destruct cfg_facts as (_ & _ & _ & _ & Hd & _ & Hb). unfold tickq.
    assert (Hm : tdiv c * (bt c / tdiv c) <= bt c) by (apply Z.mul_div_le; lia).
    assert (0 <= bt c / tdiv c) by (apply Z.div_pos; lia). nia.
  Qed.

  (* per batch: belongs to its key, below MaxBatchSize, stamps between start and hi, not overdue at
     the last tick instant lastT *)
  Definition batch_ok (hi lastT : Z) (kb : N * pbatch) : Prop :=
    (forall et, In et (pevs (snd kb)) -> edest (fst et) = fst kb /\ pstart (snd kb) <= snd et /\ snd et <= hi) /\
    Z.of_nat (length (pevs (snd kb))) < maxBatch c /\
    (pevs (snd kb) <> [] -> lastT - pstart (snd kb) < bt c).

  Definition disp_ok (d : disp) : Prop :=
    (exists k, forall et, In et (devs d) -> edest (fst et) = k) /\
    (forall et, In et (devs d) -> snd et <= dtime d /\ dtime d - snd et < bt c + tickq c) /\
    Z.of_nat (length (devs d)) <= maxBatch c /\ devs d <> [].

  Definition inv (s : tstate) : Prop :=
    NoDup (akeys (pend s)) /\ now s < next s /\ next s <= now s + tickq c /\
    Forall (batch_ok (now s) (next s - tickq c)) (pend s).

  Lemma inv_init t0 : inv (tinit c t0).
  Proof.
    pose proof q_pos. unfold inv, tinit. cbn. repeat split; try constructor; lia.
  Qed.

  Lemma batch_ok_mono hi hi' lastT kb : hi <= hi' -> batch_ok hi lastT kb -> batch_ok hi' lastT kb.
  Proof.
    intros Hle (H1 & H2 & H3). repeat split; try assumption; destruct (H1 et H) as (? & ? & ?); try assumption; lia.
  Qed.

  (* ---- enqueue ---- *)
  Lemma enq_spec s e :
    inv s ->
    let '(s', ds) := enq c s e in
    inv s' /\ now s' = now s /\ Forall disp_ok ds /\
    Permutation (pev (pend s') ++ dev ds) (pev (pend s) ++ [(e, now s)]).
  Proof.
    intros (Hnd & Hlt & Hle & Hall).
    pose proof q_pos as Hq. destruct cfg_facts as (_ & _ & _ & _ & _ & Hmb & _).
    unfold enq. set (k := edest e). set (b := batch_of k (pend s)).
    set (st := match pevs b with [] => now s | _ => pstart b end).
    set (evs := pevs b ++ [(e, now s)]).
    assert (Hb : pevs b <> [] -> batch_ok (now s) (next s - tickq c) (k, b)).
    { intros Hne. rewrite Forall_forall in Hall. apply Hall. apply batch_of_In. exact Hne. }
    assert (Hst : st <= now s /\ (next s - tickq c) - st < bt c /\
                  forall et, In et (pevs b) -> edest (fst et) = k /\ st <= snd et /\ snd et <= now s).
    { assert (Hcase : pevs b = [] \/ pevs b <> []) by (destruct (pevs b); [left; reflexivity|right; discriminate]).
      destruct Hcase as [Ee|Hne].
      - assert (Est : st = now s) by (unfold st; rewrite Ee; reflexivity).
        destruct cfg_facts as (_ & _ & _ & _ & Hd & _ & Hbt). rewrite Est, Ee. repeat split; try lia; destruct H.
      - assert (Est : st = pstart b) by (unfold st; destruct (pevs b); [exfalso; apply Hne; reflexivity|reflexivity]).
        destruct (Hb Hne) as (H1 & H2 & H3). cbn [fst snd] in *. rewrite Est.
        assert (Hx : pstart b <= now s).
        { destruct (pevs b) as [|x l] eqn:Ep; [exfalso; apply Hne; reflexivity|].
          destruct (H1 x (or_introl eq_refl)) as (_ & Hx1 & Hx2). lia. }
        repeat split; try (apply H1; assumption); try lia. apply H3. exact Hne. }
    destruct Hst as (Hst1 & Hst2 & Hst3).
    assert (Hlen : Z.of_nat (length (pevs b)) < maxBatch c).
    { assert (Hcase : pevs b = [] \/ pevs b <> []) by (destruct (pevs b); [left; reflexivity|right; discriminate]).
      destruct Hcase as [Ee|Hne]; [rewrite Ee; cbn; lia|].
      destruct (Hb Hne) as (_ & H2 & _). cbn [snd] in H2. exact H2. }
    assert (Hevs : forall et, In et evs -> edest (fst et) = k /\ st <= snd et /\ snd et <= now s).
    { intros et Hin. unfold evs in Hin. apply in_app_or in Hin. destruct Hin as [Hin|[<-|[]]].
      - apply Hst3. exact Hin.
      - cbn. repeat split; try reflexivity; lia. }
    assert (Hrest : Forall (batch_ok (now s) (next s - tickq c)) (aremove k (pend s))).
    { rewrite Forall_forall in *. intros kb Hin. apply Hall. eapply In_aremove. exact Hin. }
    assert (Hperm : Permutation (pev (pend s) ++ [(e, now s)]) (evs ++ pev (aremove k (pend s)))).
    { rewrite (pev_split k (pend s) Hnd). fold b. unfold evs.
      rewrite <- !app_assoc. apply Permutation_app_head. apply Permutation_app_comm. }
    assert (Hinv' : forall nb, batch_ok (now s) (next s - tickq c) (k, nb) ->
              inv {| now := now s; next := next s; pend := aset k nb (pend s) |}).
    { intros nb Hnb. unfold inv. cbn [now next pend]. split; [apply NoDup_akeys_aset; exact Hnd|].
      split; [exact Hlt|]. split; [exact Hle|]. unfold aset. constructor; [exact Hnb|exact Hrest]. }
    destruct (maxBatch c <=? Z.of_nat (length evs)) eqn:Efull.
    - (* dispatch *)
      cbn [now next pend]. split; [|split; [reflexivity|split]].
      + apply Hinv'. unfold batch_ok. cbn [fst snd pevs pstart]. split; [intros et []|]. split; [cbn; lia|].
        intros H; exfalso; apply H; reflexivity.
      + constructor; [|constructor]. unfold disp_ok. cbn [devs dtime]. split; [|split; [|split]].
        * exists k. intros et Hin. apply (Hevs et Hin).
        * intros et Hin. destruct (Hevs et Hin) as (_ & Ha & Hb'). lia.
        * unfold evs. rewrite app_length. cbn [length]. lia.
        * unfold evs. destruct (pevs b); discriminate.
      + unfold aset. rewrite pev_cons. cbn [pevs map app]. rewrite dev_cons. cbn [devs]. unfold dev. cbn [map concat].
        rewrite app_nil_r. rewrite Hperm. apply Permutation_app_comm.
    - cbn [now next pend]. split; [|split; [reflexivity|split]].
      + apply Hinv'. apply Z.leb_gt in Efull. unfold batch_ok. cbn [fst snd pevs pstart].
        split; [exact Hevs|]. split; [exact Efull|]. intros _. exact Hst2.
      + constructor.
      + unfold aset. rewrite pev_cons. cbn [pevs]. unfold dev. cbn [map concat]. rewrite app_nil_r.
        rewrite Hperm. apply Permutation_refl.
  Qed.

  (* ---- ticks ---- *)
  Lemma akeys_map_clear T p : akeys (map (clear_stale c T) p) = akeys p.
  Proof.
    unfold akeys. rewrite map_map. apply map_ext. intros kb. unfold clear_stale. destruct (stale c T kb); reflexivity.
  Qed.

  Lemma tick_spec hi T p :
    hi <= T -> Forall (batch_ok hi (T - tickq c)) p ->
    let '(p', o) := tick c T p in
    Forall (batch_ok hi T) p' /\ Forall disp_ok o /\ (forall d, In d o -> dtime d = T) /\
    Permutation (pev p' ++ dev o) (pev p).
  Proof.
    intros Hhi Hall. unfold tick. induction p as [|kb r IH].
    - cbn. split; [constructor|]. split; [constructor|]. split; [intros d []|]. unfold dev. cbn. constructor.
    - inversion Hall as [|? ? Hkb Hr]; subst. destruct (IH Hr) as (I1 & I2 & I3 & I4). clear IH.
      cbn [map filter]. destruct kb as [k b].
      assert (Ecl : clear_stale c T (k, b) =
                    if stale c T (k, b) then (k, {| pevs := []; pstart := pstart b |}) else (k, b)) by reflexivity.
      rewrite Ecl. clear Ecl.
      destruct Hkb as (H1 & H2 & H3). cbn [fst snd] in H1, H2, H3.
      destruct (stale c T (k, b)) eqn:Es; unfold stale in Es; cbn [snd fst] in Es.
      + cbn [map].
        assert (Hne : pevs b <> []) by (destruct (pevs b); [discriminate|discriminate]).
        specialize (H3 Hne).
        split; [|split; [|split]].
        * constructor; [|exact I1]. unfold batch_ok. cbn [fst snd pevs pstart]. split; [intros et []|].
          split; [cbn; destruct cfg_facts as (_ & _ & _ & _ & _ & Hmb & _); lia|]. intros H; exfalso; apply H; reflexivity.
        * constructor; [|exact I2]. unfold disp_ok, disp_of. cbn [devs dtime snd].
          split; [|split; [|split]].
          -- exists k. intros et Hin. apply (H1 et Hin).
          -- intros et Hin. destruct (H1 et Hin) as (_ & Hx & Hy). lia.
          -- lia.
          -- exact Hne.
        * intros d [<-|Hin]; [reflexivity|apply I3; exact Hin].
        * rewrite pev_cons, dev_cons. cbn [pevs map app devs disp_of snd]. rewrite (pev_cons k b).
          rewrite <- I4. rewrite !app_assoc. apply Permutation_app_tail. apply Permutation_app_comm.
      + split; [|split; [|split]].
        * constructor; [|exact I1]. unfold batch_ok. cbn [fst snd]. split; [exact H1|]. split; [exact H2|].
          intros Hne. destruct (pevs b); [exfalso; apply Hne; reflexivity|]. apply Z.leb_gt in Es. lia.
        * exact I2.
        * exact I3.
        * rewrite !pev_cons. rewrite <- app_assoc. apply Permutation_app_head. exact I4.
  Qed.

  Lemma ticks_spec n : forall hi T p,
    hi <= T -> Forall (batch_ok hi (T - tickq c)) p -> NoDup (akeys p) ->
    let '(p', o) := ticks c n T p in
    Forall (batch_ok hi (T + Z.of_nat n * tickq c - tickq c)) p' /\ Forall disp_ok o /\ NoDup (akeys p') /\
    (forall d, In d o -> T <= dtime d <= T + Z.of_nat n * tickq c - tickq c) /\
    Permutation (pev p' ++ dev o) (pev p).
  Proof.
    pose proof q_pos as Hq.
    induction n as [|n IH]; intros hi T p Hhi Hall Hnd.
    - cbn [ticks]. replace (T + Z.of_nat 0 * tickq c - tickq c) with (T - tickq c) by lia.
      split; [exact Hall|]. split; [constructor|]. split; [exact Hnd|]. split; [intros d []|].
      unfold dev. cbn. rewrite app_nil_r. apply Permutation_refl.
    - cbn [ticks]. pose proof (tick_spec hi T p Hhi Hall) as Ht. destruct (tick c T p) as [p1 o1] eqn:E1.
      destruct Ht as (T1 & T2 & T3 & T4).
      assert (Hnd1 : NoDup (akeys p1)).
      { unfold tick in E1. injection E1 as <- _. rewrite akeys_map_clear. exact Hnd. }
      assert (Hall1 : Forall (batch_ok hi (T + tickq c - tickq c)) p1).
      { replace (T + tickq c - tickq c) with T by lia. exact T1. }
      specialize (IH hi (T + tickq c) p1 ltac:(lia) Hall1 Hnd1).
      destruct (ticks c n (T + tickq c) p1) as [p2 o2]. destruct IH as (I1 & I2 & I3 & I4 & I5).
      replace (T + Z.of_nat (S n) * tickq c - tickq c) with (T + tickq c + Z.of_nat n * tickq c - tickq c) by lia.
      split; [exact I1|]. split; [apply Forall_app; split; assumption|]. split; [exact I3|]. split.
      + intros d Hin. apply in_app_or in Hin. destruct Hin as [Hin|Hin]; [rewrite (T3 d Hin); nia|destruct (I4 d Hin); lia].
      + rewrite dev_app. rewrite <- T4. rewrite <- I5. rewrite <- !app_assoc.
        apply Permutation_app_head. apply Permutation_app_comm.
  Qed.

  Lemma adv_spec s d :
    inv s -> 0 <= d ->
    let '(s', ds) := adv c s d in
    inv s' /\ now s' = now s + d /\ Forall disp_ok ds /\
    Permutation (pev (pend s') ++ dev ds) (pev (pend s)).
  Proof.
    intros (Hnd & Hlt & Hle & Hall) Hd. pose proof q_pos as Hq.
    unfold adv. set (n := nticks c s d).
    pose proof (ticks_spec n (now s) (next s) (pend s) ltac:(lia) Hall Hnd) as Ht.
    destruct (ticks c n (next s) (pend s)) as [p o]. destruct Ht as (T1 & T2 & T3 & T4 & T5).
    cbn [now next pend].
    assert (Hn : now s + d < next s + Z.of_nat n * tickq c <= now s + d + tickq c).
    { unfold n, nticks. destruct (next s <=? now s + d) eqn:E.
      - apply Z.leb_le in E. set (x := now s + d - next s). assert (Hx : 0 <= x) by (unfold x; lia).
        rewrite Z2Nat.id by (assert (0 <= x / tickq c) by (apply Z.div_pos; lia); lia).
        pose proof (Z.div_mod x (tickq c) ltac:(lia)) as Hdm.
        pose proof (Z.mod_pos_bound x (tickq c) Hq) as Hmb. unfold x in *. nia.
      - apply Z.leb_gt in E. cbn. lia. }
    split; [|split; [reflexivity|split; [exact T2|exact T5]]].
    unfold inv. cbn [now next pend]. split; [exact T3|]. split; [lia|]. split; [lia|].
    rewrite Forall_forall in *. intros kb Hin. eapply batch_ok_mono; [|apply T1; exact Hin]. lia.
  Qed.

  (* ---- stop ---- *)
  Lemma stop_spec s :
    inv s ->
    let '(s', ds) := stop s in
    inv s' /\ now s' = now s /\ pend s' = [] /\ Forall disp_ok ds /\
    Permutation (pev (pend s') ++ dev ds) (pev (pend s)).
  Proof.
    intros (Hnd & Hlt & Hle & Hall). pose proof q_pos as Hq. unfold stop. cbn [now next pend].
    split; [unfold inv; cbn [now next pend]; split; [constructor|]; split; [exact Hlt|]; split; [exact Hle|constructor]|].
    split; [reflexivity|]. split; [reflexivity|]. split.
    - rewrite Forall_forall in *. intros d Hin. apply in_map_iff in Hin. destruct Hin as (kb & <- & Hin).
      apply filter_In in Hin. destruct Hin as (Hin & Hne). specialize (Hall kb Hin).
      destruct kb as [k b]. destruct Hall as (H1 & H2 & H3). unfold nonempty in Hne. cbn [fst snd] in *.
      assert (Hne' : pevs b <> []) by (destruct (pevs b); [discriminate|discriminate]).
      specialize (H3 Hne'). unfold disp_ok, disp_of. cbn [devs dtime snd]. split; [|split; [|split]].
      + exists k. intros et Hi. apply (H1 et Hi).
      + intros et Hi. destruct (H1 et Hi) as (_ & Hx & Hy). lia.
      + lia.
      + exact Hne'.
    - cbn [pev pending_events map concat app]. clear. induction (pend s) as [|[k b] r IH]; [constructor|].
      cbn [filter]. unfold nonempty at 1. cbn [snd]. destruct (pevs b) as [|x l] eqn:Eb.
      + rewrite pev_cons, Eb. cbn. exact IH.
      + cbn [map]. rewrite dev_cons, pev_cons. cbn [disp_of devs snd]. apply Permutation_app_head. exact IH.
  Qed.

  (* ---- whole op sequences ---- *)
  Lemma trun_spec ops : forall s,
    inv s -> ops_ok ops = true ->
    let '(s', ds, ys) := trun c s ops in
    inv s' /\ Forall disp_ok ds /\
    Permutation (pev (pend s') ++ dev ds) (pev (pend s) ++ stamps (now s) ops).
  Proof.
    induction ops as [|o r IH]; intros s Hinv Hok.
    - cbn [trun stamps]. split; [exact Hinv|]. split; [constructor|]. unfold dev. cbn. apply Permutation_refl.
    - cbn [ops_ok forallb] in Hok. apply andb_true_iff in Hok. destruct Hok as [Ho Hr].
      cbn [trun].
      assert (Hstep : let '(s1, d1, y1) := tstep c s o in
               inv s1 /\ Forall disp_ok d1 /\
               exists new, Permutation (pev (pend s1) ++ dev d1) (pev (pend s) ++ new) /\
                           stamps (now s) (o :: r) = new ++ stamps (now s1) r).
      { destruct o as [e|d| |]; cbn [tstep stamps].
        - pose proof (enq_spec s e Hinv) as H. destruct (enq c s e) as [s1 d1]. destruct H as (H1 & H2 & H3 & H4).
          split; [exact H1|]. split; [exact H3|]. exists [(e, now s)]. split; [exact H4|]. rewrite H2. reflexivity.
        - cbn [op_ok] in Ho. apply Z.leb_le in Ho. pose proof (adv_spec s d Hinv Ho) as H.
          destruct (adv c s d) as [s1 d1]. destruct H as (H1 & H2 & H3 & H4).
          split; [exact H1|]. split; [exact H3|]. exists []. rewrite app_nil_r. split; [exact H4|]. rewrite H2. reflexivity.
        - split; [exact Hinv|]. split; [constructor|]. exists []. unfold dev. cbn. rewrite !app_nil_r.
          split; [apply Permutation_refl|reflexivity].
        - pose proof (stop_spec s Hinv) as H. destruct (stop s) as [s1 d1]. destruct H as (H1 & H2 & _ & H3 & H4).
          split; [exact H1|]. split; [exact H3|]. exists []. rewrite app_nil_r. split; [exact H4|]. rewrite H2. reflexivity. }
      destruct (tstep c s o) as [[s1 d1] y1]. destruct Hstep as (S1 & S2 & new & S3 & S4).
      specialize (IH s1 S1 Hr). destruct (trun c s1 r) as [[s2 d2] y2]. destruct IH as (I1 & I2 & I3).
      split; [exact I1|]. split; [apply Forall_app; split; assumption|].
      rewrite dev_app. rewrite S4. rewrite (app_assoc (pev (pend s)) _ _). rewrite <- S3.
      rewrite (Permutation_app_comm (dev d1) (dev d2)). rewrite app_assoc. rewrite I3.
      rewrite <- !app_assoc. apply Permutation_app_head. apply Permutation_app_comm.
  Qed.

  Lemma trun_stop_empty ops s :
    let '(s', _, _) := trun c s (ops ++ [Stop]) in pend s' = [].
  Proof.
    revert s. induction ops as [|o r IH]; intros s.
    - cbn. reflexivity.
    - cbn [app trun]. destruct (tstep c s o) as [[s1 d1] y1]. specialize (IH s1).
      destruct (trun c s1 (r ++ [Stop])) as [[s2 d2] y2]. exact IH.
  Qed.
End Batching.

(* ------------------------------------------------------------------ sendBatch *)
Definition ssum (l : list event) : Z := fold_right (fun e a => esize e + a) 0 l.

Lemma In_concat_length {A} (x : list A) (l : list (list A)) : In x l -> (length x <= length (concat l))%nat.
Proof.
  induction l as [|y r IH]; intros H; [destruct H|]. cbn [concat]. rewrite app_length.
  destruct H as [->|H]; [lia|]. specialize (IH H). lia.
Qed.

Lemma stamps_fst t ops : map fst (stamps t ops) = enqueued ops.
Proof.
  revert t. induction ops as [|o r IH]; intros t; [reflexivity|].
  destruct o; cbn [stamps enqueued flat_map map fst app]; unfold enqueued in IH; rewrite ?IH; reflexivity.
Qed.

Section Sending.
  Variable c : tcfg.
  Hypothesis Hc : cfg_ok c = true.

  Lemma take_sub_spec : forall evs acc,
    let '(s, o, rest) := take_sub c acc evs in
    Permutation evs (s ++ o ++ rest) /\
    Forall (fun e => esize e <= maxEv c) s /\ Forall (fun e => maxEv c < esize e) o /\
    (acc <= maxBody c -> acc + ssum s <= maxBody c) /\
    (length rest <= length evs)%nat /\
    (acc + maxEv c <= maxBody c -> evs <> [] -> (length rest < length evs)%nat).
  Proof.
    induction evs as [|e r IH]; intros acc.
    - cbn [take_sub]. split; [constructor|]. split; [constructor|]. split; [constructor|].
      split; [cbn; lia|]. split; [cbn; lia|]. intros _ H. exfalso. apply H. reflexivity.
    - cbn [take_sub]. destruct (maxEv c <? esize e) eqn:Eo.
      + specialize (IH acc). destruct (take_sub c acc r) as [[s o] rest].
        destruct IH as (I1 & I2 & I3 & I4 & I5 & I6). apply Z.ltb_lt in Eo.
        split; [apply Permutation_cons_app; exact I1|]. split; [exact I2|]. split; [constructor; assumption|].
        split; [exact I4|]. split; [cbn [length]; lia|]. intros _ _. cbn [length]. lia.
      + apply Z.ltb_ge in Eo. destruct (maxBody c <? acc + esize e) eqn:Eb.
        * apply Z.ltb_lt in Eb. split; [cbn; apply Permutation_refl|]. split; [constructor|]. split; [constructor|].
          split; [cbn; lia|]. split; [lia|]. intros H _. lia.
        * apply Z.ltb_ge in Eb. specialize (IH (acc + esize e)). destruct (take_sub c (acc + esize e) r) as [[s o] rest].
          destruct IH as (I1 & I2 & I3 & I4 & I5 & I6).
          split; [cbn [app]; constructor; exact I1|]. split; [constructor; assumption|]. split; [exact I3|].
          split; [intros _; cbn [ssum fold_right]; specialize (I4 Eb); unfold ssum in I4; lia|].
          split; [cbn [length]; lia|]. intros _ _. cbn [length]. lia.
  Qed.

  Definition sub_ok (sub : list event) : Prop :=
    sub <> [] /\ slack c + ssum sub <= maxBody c /\ Forall (fun e => esize e <= maxEv c) sub.

  Lemma split_spec : forall fuel evs,
    (length evs < fuel)%nat ->
    exists subs os, split c fuel evs = Some (subs, os) /\
      Permutation evs (concat subs ++ os) /\ Forall sub_ok subs /\ Forall (fun e => maxEv c < esize e) os.
  Proof.
    destruct (cfg_facts c Hc) as (Hs & Hsm & Hm & _).
    induction fuel as [|f IH]; intros evs Hlen; [lia|].
    destruct evs as [|e r].
    - exists [], []. cbn. repeat split; constructor.
    - cbn [split]. pose proof (take_sub_spec (e :: r) (slack c)) as Ht.
      destruct (take_sub c (slack c) (e :: r)) as [[s o] rest].
      destruct Ht as (T1 & T2 & T3 & T4 & T5 & T6).
      assert (Hrl : (length rest < f)%nat).
      { assert (length rest < length (e :: r))%nat by (apply T6; [lia|discriminate]). lia. }
      destruct (IH rest Hrl) as (subs & os & E & P1 & P2 & P3). rewrite E.
      exists (match s with [] => subs | _ => s :: subs end), (o ++ os).
      split; [reflexivity|]. split; [|split].
      + rewrite T1. rewrite P1.
        assert (Hc' : concat (match s with [] => subs | _ :: _ => s :: subs end) = s ++ concat subs)
          by (destruct s; reflexivity).
        rewrite Hc'. rewrite <- !app_assoc. apply Permutation_app_head.
        rewrite !app_assoc. apply Permutation_app_tail. apply Permutation_app_comm.
      + destruct s as [|x l] eqn:Es; [exact P2|]. constructor; [|exact P2].
        unfold sub_ok. split; [discriminate|]. split; [apply T4; lia|exact T2].
      + apply Forall_app. split; assumption.
  Qed.

  Lemma hdr_len_le n : hdr_len n <= 5.
  Proof. unfold hdr_len. destruct (n <? 16); [lia|]. destruct (n <? 65536); lia. Qed.

  Lemma body_size_le sub : sub_ok sub -> body_size sub <= maxBody c.
  Proof.
    destruct (cfg_facts c Hc) as (Hs & _). intros (_ & H & _). unfold body_size. fold (ssum sub).
    pose proof (hdr_len_le (Z.of_nat (length sub))). lia.
  Qed.

  Lemma tries_le n : forall rs, (fst (fst (tries c n rs)) <= N.of_nat n)%N.
  Proof.
    induction n as [|n IH]; intros rs; [cbn; lia|].
    cbn [tries]. set (r := match rs with x :: _ => x | [] => RNetErr end).
    assert (Hag : (fst (fst (match n with
                   | O => (1%N, [], r)
                   | S _ => let '(a, sl, l) := tries c n (tl rs) in (N.succ a, sl, l)
                   end)) <= N.of_nat (S n))%N).
    { destruct n as [|n']; [cbn; lia|]. specialize (IH (tl rs)).
      destruct (tries c (S n') (tl rs)) as [[a sl] l]. cbn [fst] in *. lia. }
    destruct r as [| |code sl sts].
    - exact Hag.
    - cbn [fst]. lia.
    - destruct (retryable_status code && (0 <? sl) && (sl <? retryLim c)).
      + destruct (match n with
                  | O => (1%N, [], RHttp code sl sts)
                  | S _ => let '(a, sl0, l) := tries c n (tl rs) in (N.succ a, sl0, l)
                  end) as [[a sls] l]. cbn [fst] in *. exact Hag.
      + cbn [fst]. lia.
  Qed.

  Lemma account_downs nev a l : downs (account nev a l) = Z.of_nat nev.
  Proof. unfold account. destruct l as [| |code sl sts]; try reflexivity. destruct (code =? 200); reflexivity. Qed.

  Lemma downs_cadd a b : downs (cadd a b) = downs a + downs b.
  Proof. reflexivity. Qed.

  Variable beh : N -> list resp.
  Variable bad : N -> bool.

  Lemma send_sub_spec T sub :
    let '(q, sl, k) := send_sub c beh bad T sub in
    rq_evs q = sub /\ rq_time q = T /\ rq_dest q = first_dest sub /\ rq_size q = body_size sub /\
    (rq_attempts q <= 2)%N /\ downs k = Z.of_nat (length sub).
  Proof.
    destruct (cfg_facts c Hc) as (_ & _ & _ & Hn & _).
    unfold send_sub. destruct (bad (first_dest sub)).
    - cbn [rq_evs rq_time rq_dest rq_size rq_attempts]. rewrite account_downs. repeat split; lia.
    - pose proof (tries_le (ntries c) (beh (first_id sub))) as Ht.
      destruct (tries c (ntries c) (beh (first_id sub))) as [[a sl] l]. cbn [fst] in Ht.
      cbn [rq_evs rq_time rq_dest rq_size rq_attempts]. rewrite account_downs. repeat split; lia.
  Qed.

  Definition req_base (T : Z) (q : request) : Prop :=
    rq_time q = T /\ rq_dest q = first_dest (rq_evs q) /\ rq_size q = body_size (rq_evs q) /\ (rq_attempts q <= 2)%N.

  Lemma send_subs_spec T subs :
    let '(qs, sl, k) := send_subs c beh bad T subs in
    map rq_evs qs = subs /\ Forall (req_base T) qs /\ downs k = Z.of_nat (length (concat subs)).
  Proof.
    induction subs as [|s r IH]; [cbn; repeat split; constructor|].
    cbn [send_subs]. pose proof (send_sub_spec T s) as Hs. destruct (send_sub c beh bad T s) as [[q1 s1] k1].
    destruct (send_subs c beh bad T r) as [[q2 s2] k2]. destruct Hs as (S1 & S2 & S3 & S4 & S5 & S6).
    destruct IH as (I1 & I2 & I3). cbn [map concat]. split; [rewrite S1, I1; reflexivity|].
    split; [constructor; [|exact I2]|].
    - unfold req_base. rewrite S1. repeat split; assumption.
    - rewrite downs_cadd, S6, I3, app_length. lia.
  Qed.

  (* what the property says about one request *)
  Definition req_ok (ds : list disp) (q : request) : Prop :=
    rq_evs q <> [] /\
    (forall e, In e (rq_evs q) -> edest e = rq_dest q /\ esize e <= maxEv c) /\
    rq_size q <= maxBody c /\
    Z.of_nat (length (rq_evs q)) <= maxBatch c /\
    (rq_attempts q <= 2)%N /\
    exists d, In d ds /\ rq_time q = dtime d /\
      forall e, In e (rq_evs q) -> exists t, In (e, t) (devs d) /\ t <= rq_time q /\ 4 * (rq_time q - t) < 5 * bt c.

  Lemma req_ok_mono ds ds' q : incl ds ds' -> req_ok ds q -> req_ok ds' q.
  Proof.
    intros Hi (H1 & H2 & H3 & H4 & H5 & d & Hd & H6). repeat split; try assumption; try (apply H2; assumption).
    exists d. split; [apply Hi; exact Hd|exact H6].
  Qed.

  Lemma send_disp_spec d :
    disp_ok c d ->
    exists qs sl k os, send_disp c beh bad d = Some (qs, sl, k, os) /\
      Permutation (map fst (devs d)) (concat (map rq_evs qs) ++ os) /\
      Forall (req_ok [d]) qs /\ Forall (fun e => maxEv c < esize e) os /\
      downs k = Z.of_nat (length (devs d)).
  Proof.
    intros ((kd & Hk) & Htime & Hlen & Hne).
    pose proof (q_quarter c Hc) as Hq4.
    unfold send_disp, split_all.
    destruct (split_spec (S (length (map fst (devs d)))) (map fst (devs d)) ltac:(lia)) as (subs & os & E & P1 & P2 & P3).
    rewrite E. pose proof (send_subs_spec (dtime d) subs) as Hs.
    destruct (send_subs c beh bad (dtime d) subs) as [[qs sl] k]. destruct Hs as (S1 & S2 & S3).
    exists qs, sl, (cadd k (oversize_counters (length os))), os.
    split; [reflexivity|]. split; [rewrite S1; exact P1|]. split; [|split; [exact P3|]].
    - rewrite Forall_forall in *. intros q Hq. destruct (S2 q Hq) as (B1 & B2 & B3 & B4).
      assert (Hin : In (rq_evs q) subs) by (rewrite <- S1; apply in_map; exact Hq).
      destruct (P2 _ Hin) as (O1 & O2 & O3).
      assert (Hsubin : forall e, In e (rq_evs q) -> In e (map fst (devs d))).
      { intros e He. apply (Permutation_in e (Permutation_sym P1)). apply in_or_app. left.
        apply in_concat. exists (rq_evs q). split; assumption. }
      assert (Hst : forall e, In e (rq_evs q) -> exists t, In (e, t) (devs d)).
      { intros e He. specialize (Hsubin e He). apply in_map_iff in Hsubin. destruct Hsubin as ([e' t] & Ee & Hi).
        cbn in Ee. subst e'. exists t. exact Hi. }
      unfold req_ok. split; [exact O1|]. split; [|split; [|split; [|split; [exact B4|]]]].
      + intros e He. rewrite Forall_forall in O3. split; [|apply O3; exact He].
        destruct (Hst e He) as (t & Hi). pose proof (Hk _ Hi) as Hke. cbn [fst] in Hke. rewrite Hke, B2.
        destruct (rq_evs q) as [|x l] eqn:Er; [exfalso; apply O1; reflexivity|]. cbn [first_dest].
        destruct (Hst x (or_introl eq_refl)) as (tx & Hix). pose proof (Hk _ Hix) as Hkx. cbn [fst] in Hkx.
        symmetry. exact Hkx.
      + rewrite B3. apply body_size_le. unfold sub_ok. auto.
      + assert (Hl : (length (rq_evs q) <= length (concat subs))%nat) by (apply In_concat_length; exact Hin).
        pose proof (Permutation_length P1) as Hpl. rewrite map_length, app_length in Hpl. lia.
      + exists d. split; [left; reflexivity|]. split; [exact B1|]. intros e He. destruct (Hst e He) as (t & Hi).
        exists t. split; [exact Hi|]. destruct (Htime _ Hi) as (Ha & Hb). cbn [snd] in Ha, Hb. rewrite B1. lia.
    - rewrite downs_cadd, S3. unfold oversize_counters. cbn [downs].
      pose proof (Permutation_length P1) as Hpl. rewrite map_length, app_length in Hpl. lia.
  Qed.

  Lemma send_all_spec ds :
    Forall (disp_ok c) ds ->
    exists qs sl k os, send_all c beh bad ds = Some (qs, sl, k, os) /\
      Permutation (map fst (dev ds)) (concat (map rq_evs qs) ++ os) /\
      Forall (req_ok ds) qs /\ Forall (fun e => maxEv c < esize e) os /\
      downs k = Z.of_nat (length (dev ds)).
  Proof.
    induction ds as [|d r IH]; intros Hall.
    - exists [], [], czero, []. cbn. repeat split; constructor.
    - inversion Hall as [|? ? Hd Hr]; subst. destruct (IH Hr) as (q2 & s2 & k2 & o2 & E2 & P2 & R2 & O2 & D2).
      destruct (send_disp_spec d Hd) as (q1 & s1 & k1 & o1 & E1 & P1 & R1 & O1 & D1).
      cbn [send_all]. rewrite E1, E2. exists (q1 ++ q2), (s1 ++ s2), (cadd k1 k2), (o1 ++ o2).
      split; [reflexivity|]. split; [|split; [|split]].
      + rewrite dev_cons, map_app, map_app, concat_app. rewrite P1, P2.
        rewrite <- !app_assoc. apply Permutation_app_head. rewrite !app_assoc. apply Permutation_app_tail.
        apply Permutation_app_comm.
      + apply Forall_app. split.
        * eapply Forall_impl; [|exact R1]. intros q. apply req_ok_mono. intros x [<-|[]]. left. reflexivity.
        * eapply Forall_impl; [|exact R2]. intros q. apply req_ok_mono. intros x Hx. right. exact Hx.
      + apply Forall_app. split; assumption.
      + rewrite downs_cadd, D1, D2, dev_cons, app_length. lia.
  Qed.

  (* ---------------------------------------------------------------- the whole run *)
  Theorem run_spec t0 ops :
    ops_ok ops = true ->
    exists r ds, run c beh bad t0 ops = Some r /\
      (* exactly once *)
      Permutation (enqueued ops) (concat (map rq_evs (r_reqs r)) ++ r_over r ++ map fst (r_pending r)) /\
      (* every stamp is the enqueue instant *)
      (forall et, In et (dev ds) -> In et (stamps t0 ops)) /\
      (* requests *)
      Forall (req_ok ds) (r_reqs r) /\
      Forall (fun e => maxEv c < esize e) (r_over r) /\
      (* gauge *)
      r_ups r - downs (r_cnt r) = Z.of_nat (length (r_pending r)).
  Proof.
    intros Hok. unfold run.
    pose proof (trun_spec c Hc ops (tinit c t0) (inv_init c Hc t0) Hok) as Ht.
    destruct (trun c (tinit c t0) ops) as [[s ds] ys]. destruct Ht as (T1 & T2 & T3).
    cbn [tinit pend now] in T3. unfold pev at 2 in T3. cbn [pending_events map concat app] in T3.
    destruct (send_all_spec ds T2) as (qs & sl & k & os & E & P & R & O & D). rewrite E.
    eexists. exists ds. split; [reflexivity|]. cbn [r_reqs r_over r_pending r_cnt r_ups].
    split; [|split; [|split; [exact R|split; [exact O|]]]].
    - rewrite <- (stamps_fst t0 ops). rewrite <- T3. rewrite map_app. unfold pev. rewrite P.
      rewrite (Permutation_app_comm (map fst (pending_events (pend s)))). rewrite <- !app_assoc. apply Permutation_refl.
    - intros et Hin. apply (Permutation_in et T3). apply in_or_app. right. exact Hin.
    - rewrite D. pose proof (Permutation_length T3) as Hl. rewrite app_length in Hl. unfold pev in Hl.
      rewrite <- (stamps_fst t0 ops), map_length. lia.
  Qed.

  Theorem run_stop_spec t0 ops :
    ops_ok ops = true ->
    exists r, run c beh bad t0 (ops ++ [Stop]) = Some r /\ r_pending r = [] /\
      Permutation (enqueued ops) (concat (map rq_evs (r_reqs r)) ++ r_over r) /\
      r_ups r - downs (r_cnt r) = 0.
  Proof.
    intros Hok.
    assert (Hok' : ops_ok (ops ++ [Stop]) = true).
    { unfold ops_ok in *. rewrite forallb_app, Hok. reflexivity. }
    destruct (run_spec t0 (ops ++ [Stop]) Hok') as (r & ds & E & P & _ & _ & _ & G).
    exists r. split; [exact E|].
    assert (Hp : r_pending r = []).
    { unfold run in E. pose proof (trun_stop_empty c ops (tinit c t0)) as Hs.
      destruct (trun c (tinit c t0) (ops ++ [Stop])) as [[s ds'] ys].
      destruct (send_all c beh bad ds') as [[[[q sl] k] os]|]; [|discriminate].
      injection E as <-. cbn [r_pending]. rewrite Hs. reflexivity. }
    split; [exact Hp|]. rewrite Hp in P, G. cbn [map length] in P, G. rewrite !app_nil_r in P.
    assert (Een : enqueued (ops ++ [Stop]) = enqueued ops).
    { unfold enqueued. rewrite flat_map_app. cbn. rewrite app_nil_r. reflexivity. }
    rewrite Een in P. split; [exact P|exact G].
  Qed.
End Sending.

(* the generated constants satisfy what the theorems need *)
Lemma gen_cfg_ok mb b : 1 <= mb -> 4 <= b -> cfg_ok (gen_cfg mb b) = true.
Proof.
  intros Hm Hb. unfold cfg_ok.
  assert (Hk : consts_ok (gen_cfg mb b) = true) by (vm_compute; reflexivity).
  rewrite Hk. cbn [gen_cfg maxBatch tdiv bt andb].
  assert (Hd : Refinery.Gen.GenC26.ticker_divisor = 4) by (vm_compute; reflexivity).
  rewrite Hd. apply andb_true_iff. split; apply Z.leb_le; assumption.
Qed.

Lemma gen_shape_holds : gen_shape_ok = true.
Proof. vm_compute. reflexivity. Qed.

(* ------------------------------------------------------------------ statements for Props/C26.v *)
Lemma c26_run (mb b : Z) (beh : N -> list resp) (bad : N -> bool) (t0 : Z) (ops : list top) :
  1 <= mb -> 4 <= b -> ops_ok ops = true ->
  let c := gen_cfg mb b in
  exists r ds, run c beh bad t0 ops = Some r /\
    Permutation (enqueued ops) (concat (map rq_evs (r_reqs r)) ++ r_over r ++ map fst (r_pending r)) /\
    (forall et, In et (dev ds) -> In et (stamps t0 ops)) /\
    Forall (req_ok c ds) (r_reqs r) /\
    Forall (fun e => maxEv c < esize e) (r_over r) /\
    r_ups r - downs (r_cnt r) = Z.of_nat (length (r_pending r)).
Proof. intros Hm Hb Hok c. exact (run_spec c (gen_cfg_ok mb b Hm Hb) beh bad t0 ops Hok). Qed.

Lemma c26_stop (mb b : Z) (beh : N -> list resp) (bad : N -> bool) (t0 : Z) (ops : list top) :
  1 <= mb -> 4 <= b -> ops_ok ops = true ->
  exists r, run (gen_cfg mb b) beh bad t0 (ops ++ [Stop]) = Some r /\ r_pending r = [] /\
    Permutation (enqueued ops) (concat (map rq_evs (r_reqs r)) ++ r_over r) /\
    r_ups r - downs (r_cnt r) = 0.
Proof. intros Hm Hb Hok. exact (run_stop_spec (gen_cfg mb b) (gen_cfg_ok mb b Hm Hb) beh bad t0 ops Hok). Qed.

Lemma c26_documented_constants :
  maxBody (gen_cfg 1 4) = 5000000 /\ maxEv (gen_cfg 1 4) = 1000000 /\ ntries (gen_cfg 1 4) = 2%nat /\
  retryLim (gen_cfg 1 4) = 60 * 1000000000 /\ tdiv (gen_cfg 1 4) = 4 /\ gen_shape_ok = true.
Proof. vm_compute. repeat split; reflexivity. Qed.

(* the retry loop on its own: any server behaviour stream, at most ntries attempts, and a second
   attempt only after a timeout or a 429/503 whose Retry-After sleep is in (0, retryLim) *)
Lemma c26_retry_bound c rs : (fst (fst (tries c (ntries c) rs)) <= N.of_nat (ntries c))%N.
Proof. apply tries_le. Qed.

Lemma c26_retry_only_when_asked c rs r0 rest :
  rs = r0 :: rest -> (1 < fst (fst (tries c 2 rs)))%N ->
  r0 = RTimeout \/ exists code sl sts, r0 = RHttp code sl sts /\ (code = 429 \/ code = 503) /\ 0 < sl < retryLim c.
Proof.
  intros -> H. cbn [tries tl] in H. destruct r0 as [| |code sl sts]; [left; reflexivity|cbn in H; lia|].
  right. exists code, sl, sts. split; [reflexivity|].
  destruct (retryable_status code && (0 <? sl) && (sl <? retryLim c)) eqn:E; [|cbn in H; lia].
  rewrite !andb_true_iff in E. destruct E as [[E1 E2] E3]. unfold retryable_status in E1.
  rewrite orb_true_iff, !Z.eqb_eq in E1. rewrite Z.ltb_lt in E2, E3. split; [exact E1|lia].
Qed.
