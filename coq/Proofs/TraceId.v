(* Proofs about the trace-ID / root extraction model (C21). *)
From Refinery Require Import Lib.Base Model.TraceId.
Local Open Scope string_scope.
Local Open Scope list_scope.

(* ------------------------------------------------------------------ string-keyed lists *)
Definition sval (v : val) : string := match v with VStr x => x | _ => "" end.

Lemma str_at_sval k fs : str_at k fs = match slookup k fs with Some v => sval v | None => "" end.
Proof. unfold str_at, sval. destruct (slookup k fs) as [[]|]; reflexivity. Qed.

Lemma slookup_app {V} k (a b : list (string * V)) :
  slookup k (a ++ b) = match slookup k a with Some v => Some v | None => slookup k b end.
Proof.
  induction a as [|[k' v] r IH]; cbn [app slookup]; [reflexivity|].
  destruct (String.eqb k' k); [reflexivity|exact IH].
Qed.

Lemma slookup_snoc {V} n (fs : list (string * V)) k v :
  slookup k fs = None ->
  slookup n (fs ++ [(k, v)]) = if String.eqb k n then Some v else slookup n fs.
Proof.
  intros Hk. rewrite slookup_app. cbn [slookup].
  destruct (String.eqb k n) eqn:E.
  - apply String.eqb_eq in E. subst n. rewrite Hk. reflexivity.
  - destruct (slookup n fs); reflexivity.
Qed.

Lemma str_at_snoc n fs k v :
  slookup k fs = None ->
  str_at n (fs ++ [(k, v)]) = if String.eqb k n then sval v else str_at n fs.
Proof.
  intros Hk. rewrite !str_at_sval, (slookup_snoc n fs k v Hk).
  destruct (String.eqb k n); reflexivity.
Qed.

Lemma str_at_snoc_other n fs k v :
  slookup k fs = None -> String.eqb k n = false -> str_at n (fs ++ [(k, v)]) = str_at n fs.
Proof. intros Hk Hn. rewrite (str_at_snoc n fs k v Hk), Hn. reflexivity. Qed.

Lemma str_at_snoc_empty n fs k v :
  slookup k fs = None -> sval v = "" -> str_at n (fs ++ [(k, v)]) = str_at n fs.
Proof.
  intros Hk Hv. rewrite (str_at_snoc n fs k v Hk).
  destruct (String.eqb k n) eqn:E; [|reflexivity].
  apply String.eqb_eq in E. subst n. rewrite Hv, str_at_sval, Hk. reflexivity.
Qed.

Lemma smem_false_neq k names n : smem k names = false -> In n names -> String.eqb k n = false.
Proof.
  unfold smem. intros Hm Hin.
  destruct (String.eqb k n) eqn:E; [|reflexivity].
  apply String.eqb_eq in E. subst n.
  assert (existsb (fun x => String.eqb x k) names = true); [|congruence].
  apply existsb_exists. exists k. split; [exact Hin|apply String.eqb_refl].
Qed.

Lemma smem_true_in k names : smem k names = true -> In k names.
Proof.
  unfold smem. intros H. apply existsb_exists in H. destruct H as (x & Hin & E).
  apply String.eqb_eq in E. subst x. exact Hin.
Qed.

Lemma sindex_from_ge i k l idx : sindex_from i k l = Some idx -> (i <= idx)%nat.
Proof.
  revert i. induction l as [|x r IH]; intros i H; cbn [sindex_from] in H; [discriminate|].
  destruct (String.eqb x k); [injection H as <-; lia|]. specialize (IH _ H). lia.
Qed.

Lemma sindex_none_not_in k l i : sindex_from i k l = None -> smem k l = false.
Proof.
  revert i. induction l as [|x r IH]; intros i H; cbn [sindex_from] in H; [reflexivity|].
  unfold smem. cbn [existsb]. destruct (String.eqb x k); [discriminate|]. cbn [orb]. exact (IH _ H).
Qed.

Lemma sindex_some_in k l i idx : sindex_from i k l = Some idx -> In k l.
Proof.
  revert i. induction l as [|x r IH]; intros i H; cbn [sindex_from] in H; [discriminate|].
  destruct (String.eqb x k) eqn:E; [apply String.eqb_eq in E; left; exact E|right; exact (IH _ H)].
Qed.

(* ------------------------------------------------------------------ the best configured trace-ID field *)
Fixpoint best_from (i : nat) (names : list string) (fs : list field) : string * nat :=
  match names with
  | [] => ("", i)
  | n :: r => if is_empty (str_at n fs) then best_from (S i) r fs else (str_at n fs, i)
  end.
Definition best (c : idcfg) (fs : list field) : string * nat := best_from 0 (trace_names c) fs.

Lemma best_from_ge i names fs : (i <= snd (best_from i names fs))%nat.
Proof.
  revert i. induction names as [|n r IH]; intros i; cbn [best_from snd]; [lia|].
  destruct (is_empty (str_at n fs)); [specialize (IH (S i)); lia|cbn [snd]; lia].
Qed.

Lemma best_from_first i names fs :
  fst (best_from i names fs) = first_nonempty (map (fun n => str_at n fs) names).
Proof.
  revert i. induction names as [|n r IH]; intros i; cbn [best_from map first_nonempty fst]; [reflexivity|].
  destruct (is_empty (str_at n fs)); [apply IH|reflexivity].
Qed.

Lemma best_from_nil i names : best_from i names [] = ("", (i + length names)%nat).
Proof.
  revert i. induction names as [|n r IH]; intros i; cbn [best_from length]; [f_equal; lia|].
  change (str_at n []) with "". cbn [is_empty String.eqb]. rewrite IH. f_equal. lia.
Qed.

(* adding a field whose value is a non-empty string *)
Lemma best_from_update names : forall i fs k x,
  slookup k fs = None -> is_empty x = false ->
  best_from i names (fs ++ [(k, VStr x)]) =
  match sindex_from i k names with
  | Some idx => if (idx <? snd (best_from i names fs))%nat then (x, idx) else best_from i names fs
  | None => best_from i names fs
  end.
Proof.
  induction names as [|n r IH]; intros i fs k x Hk Hx; cbn [best_from sindex_from]; [reflexivity|].
  rewrite (str_at_snoc n fs k (VStr x) Hk). rewrite (String.eqb_sym n k).
  destruct (String.eqb k n) eqn:E.
  - apply String.eqb_eq in E. subst n. cbn [sval]. rewrite Hx.
    assert (Hs : str_at k fs = "") by (rewrite str_at_sval, Hk; reflexivity).
    rewrite Hs. cbn [is_empty String.eqb].
    pose proof (best_from_ge (S i) r fs) as Hge.
    assert (Hlt : (i <? snd (best_from (S i) r fs))%nat = true) by (apply Nat.ltb_lt; lia).
    rewrite Hlt. reflexivity.
  - destruct (is_empty (str_at n fs)) eqn:En.
    + apply IH; assumption.
    + cbn [snd]. destruct (sindex_from (S i) k r) as [idx|] eqn:Ei; [|reflexivity].
      apply sindex_from_ge in Ei.
      assert (Hlt : (idx <? i)%nat = false) by (apply Nat.ltb_ge; lia). rewrite Hlt. reflexivity.
Qed.

(* adding a field that does not change any string value *)
Lemma best_from_same names : forall i fs fs',
  (forall n, In n names -> str_at n fs' = str_at n fs) -> best_from i names fs' = best_from i names fs.
Proof.
  induction names as [|n r IH]; intros i fs fs' H; cbn [best_from]; [reflexivity|].
  rewrite (H n (or_introl eq_refl)). rewrite (IH (S i) fs fs'); [reflexivity|].
  intros m Hm. apply H. right. exact Hm.
Qed.

Lemma forallb_same (names : list string) fs fs' :
  (forall n, In n names -> str_at n fs' = str_at n fs) ->
  forallb (fun n => is_empty (str_at n fs')) names = forallb (fun n => is_empty (str_at n fs)) names.
Proof.
  induction names as [|n r IH]; intros H; cbn [forallb]; [reflexivity|].
  rewrite (H n (or_introl eq_refl)), IH; [reflexivity|]. intros m Hm. apply H. right. exact Hm.
Qed.

Lemma forallb_hit (names : list string) fs k :
  In k names -> is_empty (str_at k fs) = false ->
  forallb (fun n => is_empty (str_at n fs)) names = false.
Proof.
  intros Hin He. destruct (forallb (fun n => is_empty (str_at n fs)) names) eqn:F; [|reflexivity].
  rewrite forallb_forall in F. rewrite (F k Hin) in He. discriminate.
Qed.

(* ------------------------------------------------------------------ hypotheses, unpacked *)
Record cfg_facts (c : idcfg) : Prop := {
  cf_trace_free : forall n, In n (trace_names c) -> slookup n (metas c) = None;
  cf_parent_free : forall n, In n (parent_names c) -> slookup n (metas c) = None;
  cf_disjoint : forall n, In n (trace_names c) -> smem n (parent_names c) = false;
  cf_tid : slookup (k_trace_id c) (metas c) = Some MString;
  cf_sig : slookup (k_signal c) (metas c) = Some MString;
  cf_root : slookup (k_root c) (metas c) = Some MBool;
  cf_tid_sig : String.eqb (k_trace_id c) (k_signal c) = false;
  cf_prefix : forall k m, slookup k (metas c) = Some m -> String.prefix (meta_prefix c) k = true
}.

Lemma slookup_some_in {V} k (m : list (string * V)) v : slookup k m = Some v -> In (k, v) m.
Proof.
  induction m as [|[k' v'] r IH]; cbn [slookup]; [discriminate|].
  destruct (String.eqb k' k) eqn:E; [|intros H; right; exact (IH H)].
  apply String.eqb_eq in E. subst k'. intros H. injection H as ->. left. reflexivity.
Qed.

Lemma cfg_facts_of c : cfg_ok c = true -> table_ok c = true -> cfg_facts c.
Proof.
  unfold cfg_ok, table_ok. intros Hc Ht.
  apply andb_true_iff in Hc. destruct Hc as [Hfree Hdis].
  apply andb_true_iff in Ht. destruct Ht as [Ht Hpre]. apply andb_true_iff in Ht. destruct Ht as [Hk Hne].
  rewrite forallb_forall in Hfree, Hdis, Hpre.
  assert (Hf : forall n, In n (trace_names c ++ parent_names c) -> slookup n (metas c) = None).
  { intros n Hin. specialize (Hfree n Hin). destruct (slookup n (metas c)); [discriminate|reflexivity]. }
  destruct (slookup (k_trace_id c) (metas c)) as [[]|] eqn:E1; try discriminate.
  destruct (slookup (k_signal c) (metas c)) as [[]|] eqn:E2; try discriminate.
  destruct (slookup (k_root c) (metas c)) as [[]|] eqn:E3; try discriminate.
  constructor; try assumption; try reflexivity.
  - intros n Hin. apply Hf. apply in_or_app. left. exact Hin.
  - intros n Hin. apply Hf. apply in_or_app. right. exact Hin.
  - intros n Hin. specialize (Hdis n Hin). apply negb_true_iff in Hdis. exact Hdis.
  - apply negb_true_iff in Hne. exact Hne.
  - intros k m Hl. apply slookup_some_in in Hl. exact (Hpre (k, m) Hl).
Qed.

(* what the hypotheses on the event give for one field f = (k, v) met after the prefix [pre] *)
Record field_facts (c : idcfg) (pre : list field) (k : string) (v : val) : Prop := {
  ff_fresh : slookup k pre = None;
  ff_not_root : String.eqb k (k_root c) = false;
  ff_no_bin : match slookup k (metas c), v with Some MString, VBin _ => False | _, _ => True end
}.

Lemma nodup_keys_app_fresh pre k v suf :
  nodup_keys (pre ++ (k, v) :: suf) = true -> slookup k pre = None.
Proof.
  induction pre as [|[k' v'] r IH]; cbn [app nodup_keys slookup]; [reflexivity|].
  intros H. apply andb_true_iff in H. destruct H as [Hn Hr].
  destruct (String.eqb k' k) eqn:E; [|exact (IH Hr)].
  apply String.eqb_eq in E. subst k'. apply negb_true_iff in Hn.
  assert (existsb (fun f => String.eqb (fst f) k) (r ++ (k, v) :: suf) = true); [|congruence].
  apply existsb_exists. exists (k, v). split; [apply in_or_app; right; left; reflexivity|apply String.eqb_refl].
Qed.

Lemma slookup_none_not_in {V} k (m : list (string * V)) v : slookup k m = None -> ~ In (k, v) m.
Proof.
  induction m as [|[k' v'] r IH]; cbn [slookup]; [intros _ []|].
  destruct (String.eqb k' k) eqn:E; [discriminate|].
  intros H [Heq|Hin]; [injection Heq as -> _; rewrite String.eqb_refl in E; discriminate|exact (IH H Hin)].
Qed.

Lemma field_facts_of c pre k v suf :
  ev_ok c (pre ++ (k, v) :: suf) = true -> field_facts c pre k v.
Proof.
  unfold ev_ok. intros H. apply andb_true_iff in H. destruct H as [H Hbin].
  apply andb_true_iff in H. destruct H as [Hnd Hroot].
  constructor.
  - exact (nodup_keys_app_fresh pre k v suf Hnd).
  - destruct (String.eqb k (k_root c)) eqn:E; [|reflexivity].
    apply String.eqb_eq in E. subst k.
    destruct (slookup (k_root c) (pre ++ (k_root c, v) :: suf)) eqn:L; [discriminate|].
    exfalso. apply (slookup_none_not_in _ _ v L). apply in_or_app. right. left. reflexivity.
  - rewrite forallb_forall in Hbin.
    specialize (Hbin (k, v)). cbn [fst snd] in Hbin.
    assert (Hin : In (k, v) (pre ++ (k, v) :: suf)) by (apply in_or_app; right; left; reflexivity).
    specialize (Hbin Hin). destruct (slookup k (metas c)) as [[]|]; try exact I.
    destruct v; try exact I. discriminate.
Qed.

(* ------------------------------------------------------------------ invariants of the two scans *)
Definition parents_empty (c : idcfg) (fs : list field) : bool :=
  forallb (fun n => is_empty (str_at n fs)) (parent_names c).

Record invB (c : idcfg) (pre : list field) (s : st) : Prop := {
  ib_err : s_err s = false;
  ib_tid : s_tid s = str_at (k_trace_id c) pre;
  ib_sig : s_sig s = str_at (k_signal c) pre;
  ib_root : s_root s = Some (parents_empty c pre);
  ib_best : is_empty (s_tid s) = true -> (s_ftid s, s_fidx s) = best c pre
}.

Record invM (c : idcfg) (pre : list field) (s : st) : Prop := {
  im_err : s_err s = false;
  im_tid : s_tid s = str_at (k_trace_id c) pre;
  im_sig : s_sig s = str_at (k_signal c) pre;
  im_root : s_root s = Some (parents_empty c pre);
  im_best : (s_ftid s, s_fidx s) = best c pre
}.

Lemma inv_init_B c : invB c [] (init c).
Proof.
  constructor; try reflexivity.
  - unfold parents_empty. cbn [init s_root]. f_equal. symmetry. apply forallb_forall. intros n _. reflexivity.
  - intros _. unfold best. rewrite best_from_nil. reflexivity.
Qed.

Lemma inv_init_M c : invM c [] (init c).
Proof.
  constructor; try reflexivity.
  - unfold parents_empty. cbn [init s_root]. f_equal. symmetry. apply forallb_forall. intros n _. reflexivity.
  - unfold best. rewrite best_from_nil. reflexivity.
Qed.

(* a field that changes no string value the scans look at *)
Definition unchanged (c : idcfg) (pre pre' : list field) : Prop :=
  str_at (k_trace_id c) pre' = str_at (k_trace_id c) pre /\
  str_at (k_signal c) pre' = str_at (k_signal c) pre /\
  (forall n, In n (trace_names c) -> str_at n pre' = str_at n pre) /\
  (forall n, In n (parent_names c) -> str_at n pre' = str_at n pre).

Lemma invB_unchanged c pre pre' s : invB c pre s -> unchanged c pre pre' -> invB c pre' s.
Proof.
  intros [He Ht Hs Hr Hb] (U1 & U2 & U3 & U4). constructor.
  - exact He.
  - rewrite U1. exact Ht.
  - rewrite U2. exact Hs.
  - rewrite Hr. f_equal. unfold parents_empty. symmetry. apply forallb_same. exact U4.
  - intros E. rewrite (Hb E). unfold best. symmetry. apply best_from_same. exact U3.
Qed.

Lemma invM_unchanged c pre pre' s : invM c pre s -> unchanged c pre pre' -> invM c pre' s.
Proof.
  intros [He Ht Hs Hr Hb] (U1 & U2 & U3 & U4). constructor.
  - exact He.
  - rewrite U1. exact Ht.
  - rewrite U2. exact Hs.
  - rewrite Hr. f_equal. unfold parents_empty. symmetry. apply forallb_same. exact U4.
  - rewrite Hb. unfold best. symmetry. apply best_from_same. exact U3.
Qed.

Lemma unchanged_empty c pre k v :
  slookup k pre = None -> sval v = "" -> unchanged c pre (pre ++ [(k, v)]).
Proof.
  intros Hk Hv. repeat split; intros; apply str_at_snoc_empty; assumption.
Qed.

Lemma eqb_false_of_lookup c k n m :
  slookup k (metas c) = Some m -> slookup n (metas c) = None -> String.eqb k n = false.
Proof.
  intros Hk Hn. destruct (String.eqb k n) eqn:E; [|reflexivity].
  apply String.eqb_eq in E. subst n. congruence.
Qed.

(* a reserved name other than meta.trace_id / meta.signal_type changes nothing *)
Lemma unchanged_reserved c pre k v m :
  cfg_facts c -> slookup k pre = None -> slookup k (metas c) = Some m ->
  String.eqb k (k_trace_id c) = false -> String.eqb k (k_signal c) = false ->
  unchanged c pre (pre ++ [(k, v)]).
Proof.
  intros F Hk Hm N1 N2. repeat split.
  - apply str_at_snoc_other; assumption.
  - apply str_at_snoc_other; assumption.
  - intros n Hin. apply str_at_snoc_other; [exact Hk|].
    exact (eqb_false_of_lookup c k n m Hm (cf_trace_free c F n Hin)).
  - intros n Hin. apply str_at_snoc_other; [exact Hk|].
    exact (eqb_false_of_lookup c k n m Hm (cf_parent_free c F n Hin)).
Qed.

(* a name that is neither reserved nor configured changes nothing *)
Lemma unchanged_plain c pre k v :
  cfg_facts c -> slookup k pre = None -> slookup k (metas c) = None ->
  smem k (trace_names c) = false -> smem k (parent_names c) = false ->
  unchanged c pre (pre ++ [(k, v)]).
Proof.
  intros F Hk Hm N1 N2. repeat split.
  - apply str_at_snoc_other; [exact Hk|]. rewrite String.eqb_sym.
    exact (eqb_false_of_lookup c _ k _ (cf_tid c F) Hm).
  - apply str_at_snoc_other; [exact Hk|]. rewrite String.eqb_sym.
    exact (eqb_false_of_lookup c _ k _ (cf_sig c F) Hm).
  - intros n Hin. apply str_at_snoc_other; [exact Hk|]. exact (smem_false_neq k _ n N1 Hin).
  - intros n Hin. apply str_at_snoc_other; [exact Hk|]. exact (smem_false_neq k _ n N2 Hin).
Qed.

Lemma str_at_fresh k pre : slookup k pre = None -> str_at k pre = "".
Proof. intros H. rewrite str_at_sval, H. reflexivity. Qed.

(* meta.trace_id = a string *)
Lemma invB_set_tid c pre s x :
  cfg_facts c -> invB c pre s -> slookup (k_trace_id c) pre = None ->
  invB c (pre ++ [(k_trace_id c, VStr x)]) (set_tid x s).
Proof.
  intros F [He Ht Hs Hr Hb] Hk.
  assert (Hold : is_empty (s_tid s) = true) by (rewrite Ht, (str_at_fresh _ _ Hk); reflexivity).
  pose proof (unchanged_reserved c pre (k_trace_id c) (VStr x) MString F Hk (cf_tid c F)) as U.
  constructor; cbn [set_tid s_err s_tid s_sig s_root s_ftid s_fidx].
  - exact He.
  - rewrite (str_at_snoc _ pre _ _ Hk), String.eqb_refl. reflexivity.
  - rewrite Hs. symmetry. apply str_at_snoc_other; [exact Hk|exact (cf_tid_sig c F)].
  - rewrite Hr. f_equal. unfold parents_empty. symmetry. apply forallb_same. intros n Hin.
    apply str_at_snoc_other; [exact Hk|]. exact (eqb_false_of_lookup c _ n _ (cf_tid c F) (cf_parent_free c F n Hin)).
  - intros _. rewrite (Hb Hold). unfold best. symmetry. apply best_from_same. intros n Hin.
    apply str_at_snoc_other; [exact Hk|]. exact (eqb_false_of_lookup c _ n _ (cf_tid c F) (cf_trace_free c F n Hin)).
Qed.

Lemma invM_set_tid c pre s x :
  cfg_facts c -> invM c pre s -> slookup (k_trace_id c) pre = None ->
  invM c (pre ++ [(k_trace_id c, VStr x)]) (set_tid x s).
Proof.
  intros F [He Ht Hs Hr Hb] Hk.
  constructor; cbn [set_tid s_err s_tid s_sig s_root s_ftid s_fidx].
  - exact He.
  - rewrite (str_at_snoc _ pre _ _ Hk), String.eqb_refl. reflexivity.
  - rewrite Hs. symmetry. apply str_at_snoc_other; [exact Hk|exact (cf_tid_sig c F)].
  - rewrite Hr. f_equal. unfold parents_empty. symmetry. apply forallb_same. intros n Hin.
    apply str_at_snoc_other; [exact Hk|]. exact (eqb_false_of_lookup c _ n _ (cf_tid c F) (cf_parent_free c F n Hin)).
  - rewrite Hb. unfold best. symmetry. apply best_from_same. intros n Hin.
    apply str_at_snoc_other; [exact Hk|]. exact (eqb_false_of_lookup c _ n _ (cf_tid c F) (cf_trace_free c F n Hin)).
Qed.

(* meta.signal_type = a string *)
Lemma invB_set_sig c pre s x :
  cfg_facts c -> invB c pre s -> slookup (k_signal c) pre = None ->
  invB c (pre ++ [(k_signal c, VStr x)]) (set_sig x s).
Proof.
  intros F [He Ht Hs Hr Hb] Hk.
  assert (Hne : String.eqb (k_signal c) (k_trace_id c) = false) by (rewrite String.eqb_sym; exact (cf_tid_sig c F)).
  constructor; cbn [set_sig s_err s_tid s_sig s_root s_ftid s_fidx].
  - exact He.
  - rewrite Ht. symmetry. apply str_at_snoc_other; [exact Hk|exact Hne].
  - rewrite (str_at_snoc _ pre _ _ Hk), String.eqb_refl. reflexivity.
  - rewrite Hr. f_equal. unfold parents_empty. symmetry. apply forallb_same. intros n Hin.
    apply str_at_snoc_other; [exact Hk|]. exact (eqb_false_of_lookup c _ n _ (cf_sig c F) (cf_parent_free c F n Hin)).
  - intros E. rewrite (Hb E). unfold best. symmetry. apply best_from_same. intros n Hin.
    apply str_at_snoc_other; [exact Hk|]. exact (eqb_false_of_lookup c _ n _ (cf_sig c F) (cf_trace_free c F n Hin)).
Qed.

Lemma invM_set_sig c pre s x :
  cfg_facts c -> invM c pre s -> slookup (k_signal c) pre = None ->
  invM c (pre ++ [(k_signal c, VStr x)]) (set_sig x s).
Proof.
  intros F [He Ht Hs Hr Hb] Hk.
  assert (Hne : String.eqb (k_signal c) (k_trace_id c) = false) by (rewrite String.eqb_sym; exact (cf_tid_sig c F)).
  constructor; cbn [set_sig s_err s_tid s_sig s_root s_ftid s_fidx].
  - exact He.
  - rewrite Ht. symmetry. apply str_at_snoc_other; [exact Hk|exact Hne].
  - rewrite (str_at_snoc _ pre _ _ Hk), String.eqb_refl. reflexivity.
  - rewrite Hr. f_equal. unfold parents_empty. symmetry. apply forallb_same. intros n Hin.
    apply str_at_snoc_other; [exact Hk|]. exact (eqb_false_of_lookup c _ n _ (cf_sig c F) (cf_parent_free c F n Hin)).
  - rewrite Hb. unfold best. symmetry. apply best_from_same. intros n Hin.
    apply str_at_snoc_other; [exact Hk|]. exact (eqb_false_of_lookup c _ n _ (cf_sig c F) (cf_trace_free c F n Hin)).
Qed.

(* ------------------------------------------------------------------ a configured trace-ID field *)
Lemma plain_not_tid c k : cfg_facts c -> slookup k (metas c) = None -> String.eqb k (k_trace_id c) = false.
Proof. intros F H. rewrite String.eqb_sym. exact (eqb_false_of_lookup c _ k _ (cf_tid c F) H). Qed.
Lemma plain_not_sig c k : cfg_facts c -> slookup k (metas c) = None -> String.eqb k (k_signal c) = false.
Proof. intros F H. rewrite String.eqb_sym. exact (eqb_false_of_lookup c _ k _ (cf_sig c F) H). Qed.

Lemma best_update c pre k x idx :
  slookup k pre = None -> is_empty x = false -> sindex k (trace_names c) = Some idx ->
  best c (pre ++ [(k, VStr x)]) = if (idx <? snd (best c pre))%nat then (x, idx) else best c pre.
Proof.
  intros Hk Hx Hi. unfold best. rewrite (best_from_update _ 0 pre k x Hk Hx).
  unfold sindex in Hi. rewrite Hi. reflexivity.
Qed.

Lemma invB_trace_field c pre s k x idx :
  cfg_facts c -> invB c pre s -> slookup k pre = None -> slookup k (metas c) = None ->
  sindex k (trace_names c) = Some idx ->
  invB c (pre ++ [(k, VStr x)])
       (if is_empty (s_tid s) && (idx <? s_fidx s)%nat
        then (if is_empty x then s else set_ftid x idx s)
        else parent_arm c k (VStr x) s).
Proof.
  intros F I Hk Hm Hi.
  assert (Hin : In k (trace_names c)) by exact (sindex_some_in _ _ _ _ Hi).
  assert (Hnp : smem k (parent_names c) = false) by exact (cf_disjoint c F k Hin).
  assert (Hpa : parent_arm c k (VStr x) s = s) by (unfold parent_arm; rewrite Hnp; reflexivity).
  rewrite Hpa.
  destruct (is_empty x) eqn:Ex.
  - (* empty string: nothing changes *)
    assert (Hsame : (if is_empty (s_tid s) && (idx <? s_fidx s)%nat then s else s) = s)
      by (destruct (is_empty (s_tid s) && (idx <? s_fidx s)%nat); reflexivity).
    rewrite Hsame. apply (invB_unchanged c pre); [exact I|].
    apply unchanged_empty; [exact Hk|]. cbn [sval]. apply String.eqb_eq. exact Ex.
  - destruct I as [He Ht Hs Hr Hb].
    assert (U1 : str_at (k_trace_id c) (pre ++ [(k, VStr x)]) = str_at (k_trace_id c) pre)
      by (apply str_at_snoc_other; [exact Hk|exact (plain_not_tid c k F Hm)]).
    assert (U2 : str_at (k_signal c) (pre ++ [(k, VStr x)]) = str_at (k_signal c) pre)
      by (apply str_at_snoc_other; [exact Hk|exact (plain_not_sig c k F Hm)]).
    assert (U4 : parents_empty c (pre ++ [(k, VStr x)]) = parents_empty c pre).
    { unfold parents_empty. apply forallb_same. intros n Hn.
      apply str_at_snoc_other; [exact Hk|exact (smem_false_neq k _ n Hnp Hn)]. }
    pose proof (best_update c pre k x idx Hk Ex Hi) as Hbu.
    destruct (is_empty (s_tid s)) eqn:Et; cbn [andb].
    + specialize (Hb eq_refl). assert (Hsnd : snd (best c pre) = s_fidx s) by (rewrite <- Hb; reflexivity).
      rewrite Hsnd in Hbu.
      destruct (idx <? s_fidx s)%nat.
      * constructor; cbn [set_ftid s_err s_tid s_sig s_root s_ftid s_fidx];
          [exact He|rewrite U1; exact Ht|rewrite U2; exact Hs|rewrite U4; exact Hr|].
        intros _. symmetry. exact Hbu.
      * constructor; [exact He|rewrite U1; exact Ht|rewrite U2; exact Hs|rewrite U4; exact Hr|].
        intros _. rewrite Hb. symmetry. exact Hbu.
    + constructor; [exact He|rewrite U1; exact Ht|rewrite U2; exact Hs|rewrite U4; exact Hr|].
      intros E. rewrite Et in E. discriminate.
Qed.

Lemma invM_trace_field c pre s k x idx :
  cfg_facts c -> invM c pre s -> slookup k pre = None -> slookup k (metas c) = None ->
  sindex k (trace_names c) = Some idx ->
  invM c (pre ++ [(k, VStr x)])
       (if negb (is_empty x) && (idx <? s_fidx s)%nat then set_ftid x idx s else s).
Proof.
  intros F I Hk Hm Hi.
  assert (Hin : In k (trace_names c)) by exact (sindex_some_in _ _ _ _ Hi).
  assert (Hnp : smem k (parent_names c) = false) by exact (cf_disjoint c F k Hin).
  destruct (is_empty x) eqn:Ex; cbn [negb andb].
  - apply (invM_unchanged c pre); [exact I|].
    apply unchanged_empty; [exact Hk|]. cbn [sval]. apply String.eqb_eq. exact Ex.
  - destruct I as [He Ht Hs Hr Hb].
    assert (U1 : str_at (k_trace_id c) (pre ++ [(k, VStr x)]) = str_at (k_trace_id c) pre)
      by (apply str_at_snoc_other; [exact Hk|exact (plain_not_tid c k F Hm)]).
    assert (U2 : str_at (k_signal c) (pre ++ [(k, VStr x)]) = str_at (k_signal c) pre)
      by (apply str_at_snoc_other; [exact Hk|exact (plain_not_sig c k F Hm)]).
    assert (U4 : parents_empty c (pre ++ [(k, VStr x)]) = parents_empty c pre).
    { unfold parents_empty. apply forallb_same. intros n Hn.
      apply str_at_snoc_other; [exact Hk|exact (smem_false_neq k _ n Hnp Hn)]. }
    pose proof (best_update c pre k x idx Hk Ex Hi) as Hbu.
    assert (Hsnd : snd (best c pre) = s_fidx s) by (rewrite <- Hb; reflexivity).
    rewrite Hsnd in Hbu.
    destruct (idx <? s_fidx s)%nat.
    + constructor; cbn [set_ftid s_err s_tid s_sig s_root s_ftid s_fidx];
        [exact He|rewrite U1; exact Ht|rewrite U2; exact Hs|rewrite U4; exact Hr|].
      symmetry. exact Hbu.
    + constructor; [exact He|rewrite U1; exact Ht|rewrite U2; exact Hs|rewrite U4; exact Hr|].
      rewrite Hb. symmetry. exact Hbu.
Qed.

(* ------------------------------------------------------------------ a name that is not a configured trace-ID field *)
Lemma invB_parent_arm c pre s k v :
  cfg_facts c -> invB c pre s -> slookup k pre = None -> slookup k (metas c) = None ->
  smem k (trace_names c) = false ->
  invB c (pre ++ [(k, v)]) (parent_arm c k v s).
Proof.
  intros F I Hk Hm Hnt. unfold parent_arm.
  destruct (smem k (parent_names c)) eqn:Hp.
  - assert (Hin : In k (parent_names c)) by exact (smem_true_in _ _ Hp).
    assert (Hcase : (exists x, v = VStr x /\ is_empty x = false) \/ sval v = "").
    { destruct v as [x| | | | | |]; try (right; reflexivity).
      destruct (is_empty x) eqn:Ex; [right; cbn [sval]; apply String.eqb_eq; exact Ex|left; eauto]. }
    destruct Hcase as [(x & -> & Ex)|Hv].
    + rewrite Ex. destruct I as [He Ht Hs Hr Hb].
      constructor; cbn [set_root s_err s_tid s_sig s_root s_ftid s_fidx].
      * exact He.
      * rewrite Ht. symmetry. apply str_at_snoc_other; [exact Hk|exact (plain_not_tid c k F Hm)].
      * rewrite Hs. symmetry. apply str_at_snoc_other; [exact Hk|exact (plain_not_sig c k F Hm)].
      * f_equal. symmetry. unfold parents_empty. apply (forallb_hit _ _ k Hin).
        assert (Hx : str_at k (pre ++ [(k, VStr x)]) = x)
          by (rewrite (str_at_snoc k pre k (VStr x) Hk), String.eqb_refl; reflexivity).
        exact (eq_trans (f_equal is_empty Hx) Ex).
      * intros E. rewrite (Hb E). unfold best. symmetry. apply best_from_same. intros n Hn.
        apply str_at_snoc_other; [exact Hk|exact (smem_false_neq k _ n Hnt Hn)].
    + assert (Hst : match v with VStr x => if is_empty x then s else set_root (Some false) s | _ => s end = s).
      { destruct v as [x| | | | | |]; try reflexivity. cbn [sval] in Hv. subst x. reflexivity. }
      rewrite Hst. apply (invB_unchanged c pre); [exact I|]. apply unchanged_empty; assumption.
  - apply (invB_unchanged c pre); [exact I|]. apply unchanged_plain; assumption.
Qed.

Lemma invM_parent_arm c pre s k v :
  cfg_facts c -> invM c pre s -> slookup k pre = None -> slookup k (metas c) = None ->
  smem k (trace_names c) = false ->
  invM c (pre ++ [(k, v)]) (parent_arm c k v s).
Proof.
  intros F I Hk Hm Hnt. unfold parent_arm.
  destruct (smem k (parent_names c)) eqn:Hp.
  - assert (Hin : In k (parent_names c)) by exact (smem_true_in _ _ Hp).
    assert (Hcase : (exists x, v = VStr x /\ is_empty x = false) \/ sval v = "").
    { destruct v as [x| | | | | |]; try (right; reflexivity).
      destruct (is_empty x) eqn:Ex; [right; cbn [sval]; apply String.eqb_eq; exact Ex|left; eauto]. }
    destruct Hcase as [(x & -> & Ex)|Hv].
    + rewrite Ex. destruct I as [He Ht Hs Hr Hb].
      constructor; cbn [set_root s_err s_tid s_sig s_root s_ftid s_fidx].
      * exact He.
      * rewrite Ht. symmetry. apply str_at_snoc_other; [exact Hk|exact (plain_not_tid c k F Hm)].
      * rewrite Hs. symmetry. apply str_at_snoc_other; [exact Hk|exact (plain_not_sig c k F Hm)].
      * f_equal. symmetry. unfold parents_empty. apply (forallb_hit _ _ k Hin).
        assert (Hx : str_at k (pre ++ [(k, VStr x)]) = x)
          by (rewrite (str_at_snoc k pre k (VStr x) Hk), String.eqb_refl; reflexivity).
        exact (eq_trans (f_equal is_empty Hx) Ex).
      * rewrite Hb. unfold best. symmetry. apply best_from_same. intros n Hn.
        apply str_at_snoc_other; [exact Hk|exact (smem_false_neq k _ n Hnt Hn)].
    + assert (Hst : match v with VStr x => if is_empty x then s else set_root (Some false) s | _ => s end = s).
      { destruct v as [x| | | | | |]; try reflexivity. cbn [sval] in Hv. subst x. reflexivity. }
      rewrite Hst. apply (invM_unchanged c pre); [exact I|]. apply unchanged_empty; assumption.
  - apply (invM_unchanged c pre); [exact I|]. apply unchanged_plain; assumption.
Qed.

(* ------------------------------------------------------------------ one step of each scan keeps its invariant *)
Lemma reserved_not_configured c k m :
  cfg_facts c -> slookup k (metas c) = Some m ->
  sindex k (trace_names c) = None /\ smem k (parent_names c) = false.
Proof.
  intros F Hm. split.
  - destruct (sindex k (trace_names c)) as [idx|] eqn:E; [|reflexivity].
    pose proof (cf_trace_free c F k (sindex_some_in _ _ _ _ E)). congruence.
  - destruct (smem k (parent_names c)) eqn:E; [|reflexivity].
    pose proof (cf_parent_free c F k (smem_true_in _ _ E)). congruence.
Qed.

Lemma kind_neq c k m :
  cfg_facts c -> slookup k (metas c) = Some m -> m <> MString ->
  String.eqb k (k_trace_id c) = false /\ String.eqb k (k_signal c) = false.
Proof.
  intros F Hm Hne. split.
  - destruct (String.eqb k (k_trace_id c)) eqn:E; [|reflexivity].
    apply String.eqb_eq in E. subst k. rewrite (cf_tid c F) in Hm. congruence.
  - destruct (String.eqb k (k_signal c)) eqn:E; [|reflexivity].
    apply String.eqb_eq in E. subst k. rewrite (cf_sig c F) in Hm. congruence.
Qed.

(* a reserved name of kind bool / int: whatever the value, the state does not change *)
Lemma invB_reserved_other c pre s k v m :
  cfg_facts c -> invB c pre s -> slookup k pre = None -> slookup k (metas c) = Some m -> m <> MString ->
  invB c (pre ++ [(k, v)]) s.
Proof.
  intros F I Hk Hm Hne. destruct (kind_neq c k m F Hm Hne) as [N1 N2].
  apply (invB_unchanged c pre); [exact I|]. exact (unchanged_reserved c pre k v m F Hk Hm N1 N2).
Qed.
Lemma invM_reserved_other c pre s k v m :
  cfg_facts c -> invM c pre s -> slookup k pre = None -> slookup k (metas c) = Some m -> m <> MString ->
  invM c (pre ++ [(k, v)]) s.
Proof.
  intros F I Hk Hm Hne. destruct (kind_neq c k m F Hm Hne) as [N1 N2].
  apply (invM_unchanged c pre); [exact I|]. exact (unchanged_reserved c pre k v m F Hk Hm N1 N2).
Qed.

Lemma invB_meta_string c pre s k x :
  cfg_facts c -> invB c pre s -> slookup k pre = None -> slookup k (metas c) = Some MString ->
  invB c (pre ++ [(k, VStr x)]) (set_meta_string c k x s).
Proof.
  intros F I Hk Hm. unfold set_meta_string.
  destruct (String.eqb k (k_trace_id c)) eqn:E1.
  - apply String.eqb_eq in E1. subst k. apply invB_set_tid; assumption.
  - destruct (String.eqb k (k_signal c)) eqn:E2.
    + apply String.eqb_eq in E2. subst k. apply invB_set_sig; assumption.
    + apply (invB_unchanged c pre); [exact I|]. exact (unchanged_reserved c pre k _ MString F Hk Hm E1 E2).
Qed.
Lemma invM_meta_string c pre s k x :
  cfg_facts c -> invM c pre s -> slookup k pre = None -> slookup k (metas c) = Some MString ->
  invM c (pre ++ [(k, VStr x)]) (set_meta_string c k x s).
Proof.
  intros F I Hk Hm. unfold set_meta_string.
  destruct (String.eqb k (k_trace_id c)) eqn:E1.
  - apply String.eqb_eq in E1. subst k. apply invM_set_tid; assumption.
  - destruct (String.eqb k (k_signal c)) eqn:E2.
    + apply String.eqb_eq in E2. subst k. apply invM_set_sig; assumption.
    + apply (invM_unchanged c pre); [exact I|]. exact (unchanged_reserved c pre k _ MString F Hk Hm E1 E2).
Qed.

Lemma step_bytes_inv c pre s k v :
  cfg_facts c -> invB c pre s -> field_facts c pre k v ->
  invB c (pre ++ [(k, v)]) (step_bytes c s (k, v)).
Proof.
  intros F I [Hk Hnr Hnb]. unfold step_bytes.
  destruct (slookup k (metas c)) as [m|] eqn:Hm.
  - rewrite (cf_prefix c F k m Hm).
    destruct (reserved_not_configured c k m F Hm) as [Hns Hnp].
    assert (Hpa : forall w, parent_arm c k w s = s) by (intros w; unfold parent_arm; rewrite Hnp; reflexivity).
    destruct m.
    + (* string kind *)
      destruct v as [x|x| | |b| |]; cbn [sval].
      * apply invB_meta_string; assumption.
      * destruct Hnb.
      * apply (invB_unchanged c pre); [exact I|]. apply unchanged_empty; [exact Hk|reflexivity].
      * apply (invB_unchanged c pre); [exact I|]. apply unchanged_empty; [exact Hk|reflexivity].
      * apply (invB_unchanged c pre); [exact I|]. apply unchanged_empty; [exact Hk|reflexivity].
      * apply (invB_unchanged c pre); [exact I|]. apply unchanged_empty; [exact Hk|reflexivity].
      * apply (invB_unchanged c pre); [exact I|]. apply unchanged_empty; [exact Hk|reflexivity].
    + (* bool kind *)
      assert (Hs : invB c (pre ++ [(k, v)]) s) by (apply (invB_reserved_other c pre s k v MBool); try assumption; discriminate).
      destruct v as [x|x| | |b| |]; try exact Hs.
      * rewrite Hns, Hpa. exact Hs.
      * unfold set_meta_bool. rewrite Hnr. exact Hs.
    + (* int kind *)
      assert (Hs : invB c (pre ++ [(k, v)]) s) by (apply (invB_reserved_other c pre s k v MInt); try assumption; discriminate).
      destruct v as [x|x| | |b| |]; try exact Hs.
      rewrite Hns, Hpa. exact Hs.
  - assert (Hmeta : (if String.prefix (meta_prefix c) k
                     then match @None mkind, v with
                          | Some MString, VStr x => Some (set_meta_string c k x s)
                          | Some MString, VBin _ => Some (set_err s)
                          | Some MBool, VBool b => Some (set_meta_bool c k b s)
                          | Some MInt, VInt => Some s
                          | _, _ => None
                          end
                     else None) = None).
    { destruct (String.prefix (meta_prefix c) k); [|reflexivity]. destruct v; reflexivity. }
    rewrite Hmeta.
    destruct v as [x|x| | |b| |];
      try (apply (invB_unchanged c pre); [exact I|]; apply unchanged_empty; [exact Hk|reflexivity]).
    destruct (sindex k (trace_names c)) as [idx|] eqn:Hi.
    + apply invB_trace_field; assumption.
    + apply invB_parent_arm; try assumption. exact (sindex_none_not_in _ _ _ Hi).
Qed.

Lemma step_map_inv c pre s k v :
  cfg_facts c -> invM c pre s -> field_facts c pre k v ->
  invM c (pre ++ [(k, v)]) (step_map c s (k, v)).
Proof.
  intros F I [Hk Hnr Hnb]. unfold step_map.
  destruct (slookup k (metas c)) as [m|] eqn:Hm.
  - destruct m.
    + destruct v as [x|x| | |b| |];
        try (apply (invM_unchanged c pre); [exact I|]; apply unchanged_empty; [exact Hk|reflexivity]).
      apply invM_meta_string; assumption.
    + assert (Hs : invM c (pre ++ [(k, v)]) s) by (apply (invM_reserved_other c pre s k v MBool); try assumption; discriminate).
      destruct v as [x|x| | |b| |]; try exact Hs.
      unfold set_meta_bool. rewrite Hnr. exact Hs.
    + apply (invM_reserved_other c pre s k v MInt); try assumption. discriminate.
  - destruct (sindex k (trace_names c)) as [idx|] eqn:Hi.
    + destruct v as [x|x| | |b| |];
        try (apply (invM_unchanged c pre); [exact I|]; apply unchanged_empty; [exact Hk|reflexivity]).
      apply invM_trace_field; assumption.
    + apply invM_parent_arm; try assumption. exact (sindex_none_not_in _ _ _ Hi).
Qed.

(* ------------------------------------------------------------------ the whole scans *)
Lemma run_bytes_inv c : cfg_facts c -> forall suf pre s,
  invB c pre s -> ev_ok c (pre ++ suf) = true -> invB c (pre ++ suf) (fold_left (step_bytes c) suf s).
Proof.
  intros F. induction suf as [|[k v] r IH]; intros pre s I E.
  - rewrite app_nil_r. exact I.
  - cbn [fold_left].
    assert (Eq : pre ++ (k, v) :: r = (pre ++ [(k, v)]) ++ r) by (rewrite <- app_assoc; reflexivity).
    rewrite Eq. apply IH.
    + apply step_bytes_inv; [exact F|exact I|exact (field_facts_of c pre k v r E)].
    + rewrite <- Eq. exact E.
Qed.

Lemma run_map_inv c : cfg_facts c -> forall suf pre s,
  invM c pre s -> ev_ok c (pre ++ suf) = true -> invM c (pre ++ suf) (fold_left (step_map c) suf s).
Proof.
  intros F. induction suf as [|[k v] r IH]; intros pre s I E.
  - rewrite app_nil_r. exact I.
  - cbn [fold_left].
    assert (Eq : pre ++ (k, v) :: r = (pre ++ [(k, v)]) ++ r) by (rewrite <- app_assoc; reflexivity).
    rewrite Eq. apply IH.
    + apply step_map_inv; [exact F|exact I|exact (field_facts_of c pre k v r E)].
    + rewrite <- Eq. exact E.
Qed.

Lemma outcome_of_spec c fs s :
  s_err s = false -> s_tid s = str_at (k_trace_id c) fs -> s_sig s = str_at (k_signal c) fs ->
  s_root s = Some (parents_empty c fs) ->
  (is_empty (s_tid s) = true -> s_ftid s = fst (best c fs)) ->
  outcome_of c s = spec_outcome c fs.
Proof.
  intros He Ht Hs Hr Hb. unfold outcome_of, spec_outcome. rewrite He.
  assert (Htid : final_tid s = spec_tid c fs).
  { unfold final_tid, spec_tid. rewrite <- Ht.
    destruct (is_empty (s_tid s)) eqn:E; [|reflexivity].
    rewrite (Hb eq_refl). unfold best. apply best_from_first. }
  rewrite Htid. destruct (is_empty (spec_tid c fs)) eqn:E; [reflexivity|].
  f_equal. unfold final_root, spec_root. rewrite E, Hr, Hs. unfold parents_empty. cbn [negb andb].
  destruct (String.eqb (str_at (k_signal c) fs) (log_value c));
    destruct (forallb (fun n => is_empty (str_at n fs)) (parent_names c)); reflexivity.
Qed.

Theorem bytes_path_spec : forall c fs,
  cfg_ok c = true -> table_ok c = true -> ev_ok c fs = true ->
  outcome_bytes c fs = spec_outcome c fs.
Proof.
  intros c fs Hc Ht He. pose proof (cfg_facts_of c Hc Ht) as F.
  pose proof (run_bytes_inv c F fs [] (init c) (inv_init_B c) He) as [I1 I2 I3 I4 I5].
  cbn [app] in *. unfold outcome_bytes, run_bytes.
  apply outcome_of_spec; try assumption. intros E. rewrite <- (I5 E). reflexivity.
Qed.

Theorem map_path_spec : forall c fs,
  cfg_ok c = true -> table_ok c = true -> ev_ok c fs = true ->
  outcome_map c fs = spec_outcome c fs.
Proof.
  intros c fs Hc Ht He. pose proof (cfg_facts_of c Hc Ht) as F.
  pose proof (run_map_inv c F fs [] (init c) (inv_init_M c) He) as [I1 I2 I3 I4 I5].
  cbn [app] in *. unfold outcome_map, run_map.
  apply outcome_of_spec; try assumption. intros _. rewrite <- I5. reflexivity.
Qed.

(* ------------------------------------------------------------------ independence of order, typing and encoding *)
Lemma spec_ext c fs fs' :
  (forall k, str_at k fs = str_at k fs') -> spec_outcome c fs = spec_outcome c fs'.
Proof.
  intros H.
  assert (Ht : spec_tid c fs = spec_tid c fs').
  { unfold spec_tid. rewrite (H (k_trace_id c)).
    rewrite (map_ext (fun n => str_at n fs) (fun n => str_at n fs') H). reflexivity. }
  unfold spec_outcome, spec_root. rewrite Ht, (H (k_signal c)).
  replace (forallb (fun n => is_empty (str_at n fs)) (parent_names c))
    with (forallb (fun n => is_empty (str_at n fs')) (parent_names c)); [reflexivity|].
  apply forallb_same. intros n _. symmetry. apply H.
Qed.

(* Every ingestion path computes the same outcome for two events that hold the same strings under
   the same names, whatever the order of the fields and whatever the types of the other values. *)
Theorem paths_agree : forall c fs fs',
  cfg_ok c = true -> table_ok c = true -> ev_ok c fs = true -> ev_ok c fs' = true ->
  (forall k, str_at k fs = str_at k fs') ->
  outcome_bytes c fs = outcome_bytes c fs' /\
  outcome_map c fs = outcome_map c fs' /\
  outcome_bytes c fs = outcome_map c fs'.
Proof.
  intros c fs fs' Hc Ht E E' H.
  rewrite (bytes_path_spec c fs Hc Ht E), (bytes_path_spec c fs' Hc Ht E'),
          (map_path_spec c fs Hc Ht E), (map_path_spec c fs' Hc Ht E').
  rewrite (spec_ext c fs fs' H). repeat split; reflexivity.
Qed.

(* reordering: a permutation of an event with unique keys is an event with the same lookups *)
Lemma nodup_keys_NoDup (fs : list field) : nodup_keys fs = true <-> NoDup (map fst fs).
Proof.
  induction fs as [|[k v] r IH]; cbn [nodup_keys map fst]; [split; [constructor|reflexivity]|].
  rewrite andb_true_iff, IH, negb_true_iff. split.
  - intros [Hn Hr]. constructor; [|exact Hr]. intros Hin. apply in_map_iff in Hin.
    destruct Hin as ([k' v'] & Hk & Hin). cbn in Hk. subst k'.
    assert (existsb (fun f : string * val => String.eqb (fst f) k) r = true); [|congruence].
    apply existsb_exists. exists (k, v'). split; [exact Hin|apply String.eqb_refl].
  - intros Hnd. inversion Hnd as [|? ? Hn Hr]; subst. split; [|exact Hr].
    destruct (existsb (fun f : string * val => String.eqb (fst f) k) r) eqn:E; [|reflexivity].
    apply existsb_exists in E. destruct E as ([k' v'] & Hin & Hk). cbn in Hk. apply String.eqb_eq in Hk. subst k'.
    exfalso. apply Hn. apply in_map_iff. exists (k, v'). split; [reflexivity|exact Hin].
Qed.

Lemma slookup_in_nodup (fs : list field) k v :
  NoDup (map fst fs) -> In (k, v) fs -> slookup k fs = Some v.
Proof.
  induction fs as [|[k' v'] r IH]; cbn [map fst slookup]; intros Hnd Hin; [destruct Hin|].
  inversion Hnd as [|? ? Hn Hr]; subst. destruct Hin as [Heq|Hin].
  - injection Heq as -> ->. rewrite String.eqb_refl. reflexivity.
  - destruct (String.eqb k' k) eqn:E; [|exact (IH Hr Hin)].
    apply String.eqb_eq in E. subst k'. exfalso. apply Hn. apply in_map_iff. exists (k, v). split; [reflexivity|exact Hin].
Qed.

Lemma perm_same_lookup (fs fs' : list field) :
  Permutation.Permutation fs fs' -> NoDup (map fst fs) -> forall k, slookup k fs = slookup k fs'.
Proof.
  intros P Hnd k.
  assert (Hnd' : NoDup (map fst fs')) by exact (Permutation.Permutation_NoDup (Permutation.Permutation_map fst P) Hnd).
  destruct (slookup k fs) as [v|] eqn:L.
  - symmetry. apply slookup_in_nodup; [exact Hnd'|]. apply (Permutation.Permutation_in _ P). exact (slookup_some_in _ _ _ L).
  - destruct (slookup k fs') as [v'|] eqn:L'; [|reflexivity].
    exfalso. apply (slookup_none_not_in k fs v' L).
    apply (Permutation.Permutation_in _ (Permutation.Permutation_sym P)). exact (slookup_some_in _ _ _ L').
Qed.

Lemma ev_ok_perm c (fs fs' : list field) :
  Permutation.Permutation fs fs' -> ev_ok c fs = true -> ev_ok c fs' = true.
Proof.
  intros P H. unfold ev_ok in *.
  apply andb_true_iff in H. destruct H as [H Hb]. apply andb_true_iff in H. destruct H as [Hn Hr].
  assert (Hnd : NoDup (map fst fs)) by (apply nodup_keys_NoDup; exact Hn).
  repeat (apply andb_true_iff; split).
  - apply nodup_keys_NoDup. exact (Permutation.Permutation_NoDup (Permutation.Permutation_map fst P) Hnd).
  - rewrite <- (perm_same_lookup fs fs' P Hnd). exact Hr.
  - rewrite forallb_forall in *. intros f Hin. apply Hb.
    exact (Permutation.Permutation_in _ (Permutation.Permutation_sym P) Hin).
Qed.

Theorem order_independent : forall c fs fs',
  cfg_ok c = true -> table_ok c = true -> ev_ok c fs = true -> Permutation.Permutation fs fs' ->
  outcome_bytes c fs' = outcome_bytes c fs /\ outcome_map c fs' = outcome_map c fs /\
  outcome_map c fs' = outcome_bytes c fs.
Proof.
  intros c fs fs' Hc Ht E P.
  pose proof (ev_ok_perm c fs fs' P E) as E'.
  assert (Hnd : NoDup (map fst fs)).
  { apply nodup_keys_NoDup. unfold ev_ok in E. apply andb_true_iff in E. destruct E as [E _].
    apply andb_true_iff in E. destruct E as [E _]. exact E. }
  assert (H : forall k, str_at k fs = str_at k fs').
  { intros k. unfold str_at. rewrite (perm_same_lookup fs fs' P Hnd k). reflexivity. }
  destruct (paths_agree c fs fs' Hc Ht E E' H) as (A & B & C).
  repeat split; congruence.
Qed.

(* ------------------------------------------------------------------ the loosely decoded /1/events msgpack path *)
Lemma slookup_loosen k fs : slookup k (loosen fs) = option_map loosen_val (slookup k fs).
Proof.
  induction fs as [|[k' v] r IH]; cbn [loosen map slookup fst snd option_map]; [reflexivity|].
  destruct (String.eqb k' k); [reflexivity|exact IH].
Qed.

Lemma smem_in k names : In k names -> smem k names = true.
Proof. intros H. unfold smem. apply existsb_exists. exists k. split; [exact H|apply String.eqb_refl]. Qed.

Definition relevant (c : idcfg) (n : string) : Prop :=
  n = k_trace_id c \/ n = k_signal c \/ In n (trace_names c) \/ In n (parent_names c).

Lemma str_at_loosen c fs n :
  no_bin_ids c fs = true -> relevant c n -> str_at n (loosen fs) = str_at n fs.
Proof.
  intros Hb Hr. unfold str_at. rewrite slookup_loosen.
  destruct (slookup n fs) as [v|] eqn:L; [|reflexivity].
  destruct v as [x|x| | |b| |]; try reflexivity.
  exfalso. unfold no_bin_ids in Hb. rewrite forallb_forall in Hb.
  specialize (Hb (n, VBin x) (slookup_some_in _ _ _ L)). cbn [fst snd] in Hb.
  apply negb_true_iff in Hb. repeat (apply orb_false_iff in Hb; destruct Hb as [Hb ?]).
  destruct Hr as [->|[->|[Hin|Hin]]].
  - rewrite String.eqb_refl in *. discriminate.
  - rewrite String.eqb_refl in *. discriminate.
  - rewrite (smem_in _ _ Hin) in Hb. discriminate.
  - rewrite (smem_in _ _ Hin) in *. discriminate.
Qed.

Lemma spec_loosen c fs : no_bin_ids c fs = true -> spec_outcome c (loosen fs) = spec_outcome c fs.
Proof.
  intros Hb.
  assert (R1 := str_at_loosen c fs (k_trace_id c) Hb (or_introl eq_refl)).
  assert (R2 := str_at_loosen c fs (k_signal c) Hb (or_intror (or_introl eq_refl))).
  assert (Ht : spec_tid c (loosen fs) = spec_tid c fs).
  { unfold spec_tid. rewrite R1.
    rewrite (map_ext_in (fun n => str_at n (loosen fs)) (fun n => str_at n fs) (trace_names c)); [reflexivity|].
    intros n Hin. apply (str_at_loosen c fs n Hb). right. right. left. exact Hin. }
  unfold spec_outcome, spec_root. rewrite Ht, R2.
  replace (forallb (fun n => is_empty (str_at n (loosen fs))) (parent_names c))
    with (forallb (fun n => is_empty (str_at n fs)) (parent_names c)); [reflexivity|].
  symmetry. apply forallb_same. intros n Hin. apply (str_at_loosen c fs n Hb). right. right. right. exact Hin.
Qed.

Lemma nodup_keys_loosen fs : nodup_keys (loosen fs) = nodup_keys fs.
Proof.
  induction fs as [|[k v] r IH]; cbn [loosen map nodup_keys fst snd]; [reflexivity|].
  change (map (fun f : string * val => (fst f, loosen_val (snd f))) r) with (loosen r). rewrite IH. f_equal. f_equal.
  clear IH. induction r as [|[k' v'] r' IH']; cbn [loosen map existsb fst snd]; [reflexivity|].
  change (map (fun f : string * val => (fst f, loosen_val (snd f))) r') with (loosen r'). rewrite IH'. reflexivity.
Qed.

Lemma ev_ok_loosen c fs : ev_ok c fs = true -> ev_ok c (loosen fs) = true.
Proof.
  unfold ev_ok. intros H. apply andb_true_iff in H. destruct H as [H _].
  apply andb_true_iff in H. destruct H as [Hn Hr].
  repeat (apply andb_true_iff; split).
  - rewrite nodup_keys_loosen. exact Hn.
  - rewrite slookup_loosen. destruct (slookup (k_root c) fs); [discriminate|reflexivity].
  - apply forallb_forall. intros [k v] Hin. unfold loosen in Hin. apply in_map_iff in Hin.
    destruct Hin as ([k' v'] & Heq & _). cbn [fst snd] in Heq. injection Heq as <- <-. cbn [fst snd].
    destruct (slookup k' (metas c)) as [[]|]; try reflexivity. destruct v'; reflexivity.
Qed.

Theorem loose_path_partial : forall c fs,
  cfg_ok c = true -> table_ok c = true -> ev_ok c fs = true -> no_bin_ids c fs = true ->
  outcome_loose c fs = spec_outcome c fs.
Proof.
  intros c fs Hc Ht E Hb. unfold outcome_loose.
  rewrite (map_path_spec c (loosen fs) Hc Ht (ev_ok_loosen c fs E)). exact (spec_loosen c fs Hb).
Qed.

(* the faithful model of the loosely decoded path violates the statement: a binary value in a
   configured trace-ID field becomes the trace ID there, while the batch paths (and the
   specification, which asks for a string) see no trace ID *)
Theorem loose_bin_refuted :
  exists c fs, cfg_ok c = true /\ table_ok c = true /\ ev_ok c fs = true /\
               outcome_bytes c fs = spec_outcome c fs /\
               outcome_loose c fs <> spec_outcome c fs.
Proof.
  exists (std_cfg ["trace.trace_id"] ["trace.parent_id"]), [("trace.trace_id", VBin "a")].
  vm_compute. repeat split; try reflexivity. discriminate.
Qed.

(* ------------------------------------------------------------------ the specification, clause by clause *)
Lemma first_nonempty_some l : is_empty (first_nonempty l) = false <-> exists x, In x l /\ is_empty x = false.
Proof.
  induction l as [|x r IH]; cbn [first_nonempty].
  - split; [discriminate|intros (x & [] & _)].
  - destruct (is_empty x) eqn:E.
    + rewrite IH. split; intros (y & Hin & Hy); exists y; (split; [|exact Hy]).
      * right. exact Hin.
      * destruct Hin as [->|Hin]; [congruence|exact Hin].
    + split; [intros _; exists x; split; [left; reflexivity|exact E]|intros _; exact E].
Qed.

Theorem spec_membership : forall c fs,
  is_empty (spec_tid c fs) = false <->
  (is_empty (str_at (k_trace_id c) fs) = false \/
   exists n, In n (trace_names c) /\ is_empty (str_at n fs) = false).
Proof.
  intros c fs. unfold spec_tid. destruct (is_empty (str_at (k_trace_id c) fs)) eqn:E.
  - rewrite first_nonempty_some. split.
    + intros (x & Hin & Hx). right. apply in_map_iff in Hin. destruct Hin as (n & <- & Hn). eauto.
    + intros [H|(n & Hn & Hx)]; [discriminate|]. exists (str_at n fs). split; [|exact Hx].
      apply in_map_iff. eauto.
  - split; [intros _; left; reflexivity|intros _; exact E].
Qed.

Theorem spec_meta_precedence : forall c fs,
  is_empty (str_at (k_trace_id c) fs) = false -> spec_tid c fs = str_at (k_trace_id c) fs.
Proof. intros c fs E. unfold spec_tid. rewrite E. reflexivity. Qed.

Lemma first_nonempty_nth (f : string -> string) names : forall i n,
  nth_error names i = Some n -> is_empty (f n) = false ->
  (forall j m, (j < i)%nat -> nth_error names j = Some m -> is_empty (f m) = true) ->
  first_nonempty (map f names) = f n.
Proof.
  induction names as [|x r IH]; intros i n Hn He Hlt; [destruct i; discriminate|].
  cbn [map first_nonempty]. destruct i as [|i'].
  - cbn [nth_error] in Hn. injection Hn as ->. rewrite He. reflexivity.
  - rewrite (Hlt 0%nat x (Nat.lt_0_succ _) eq_refl).
    apply (IH i' n); [exact Hn|exact He|]. intros j m Hj Hm. apply (Hlt (S j) m); [lia|exact Hm].
Qed.

Theorem spec_first_configured : forall c fs i n,
  is_empty (str_at (k_trace_id c) fs) = true ->
  nth_error (trace_names c) i = Some n -> is_empty (str_at n fs) = false ->
  (forall j m, (j < i)%nat -> nth_error (trace_names c) j = Some m -> is_empty (str_at m fs) = true) ->
  spec_tid c fs = str_at n fs.
Proof.
  intros c fs i n E Hn He Hlt. unfold spec_tid. rewrite E.
  exact (first_nonempty_nth (fun n => str_at n fs) (trace_names c) i n Hn He Hlt).
Qed.

Theorem spec_root_iff : forall c fs,
  spec_root c fs = true <->
  (is_empty (spec_tid c fs) = false /\
   (forall n, In n (parent_names c) -> is_empty (str_at n fs) = true) /\
   String.eqb (str_at (k_signal c) fs) (log_value c) = false).
Proof.
  intros c fs. unfold spec_root. rewrite !andb_true_iff, !negb_true_iff, forallb_forall. tauto.
Qed.
