(* C36, transmission part of the shutdown sequence (model: Model/Transmit.v of family txcfg):
   the retry rule applies to the batches of the shutdown flush exactly as to any other batch. *)
From Refinery Require Import Lib.Base Model.Transmit Proofs.Transmit.

(* a first attempt answered 429/503 with a Retry-After sleep in (0, retryLim), or timing out, is
   followed by a second attempt — whatever dispatched the batch (full, stale, or Stop's flush) *)
Lemma tries2_retries_http c code sl sts rest :
  retryable_status code = true -> 0 < sl < retryLim c ->
  fst (fst (tries c 2 (RHttp code sl sts :: rest))) = 2%N /\
  exists more, snd (fst (tries c 2 (RHttp code sl sts :: rest))) = sl :: more.
Proof.
  intros Hr [H0 H1]. cbn [tries tl]. rewrite Hr.
  assert (E1 : (0 <? sl) = true) by (apply Z.ltb_lt; exact H0).
  assert (E2 : (sl <? retryLim c) = true) by (apply Z.ltb_lt; exact H1).
  rewrite E1, E2. cbn [andb].
  destruct rest as [|r1 rest']; cbn [hd tl].
  - cbn. split; [reflexivity|eexists; reflexivity].
  - destruct r1 as [| |code1 sl1 sts1]; cbn [fst snd].
    + split; [reflexivity|eexists; reflexivity].
    + split; [reflexivity|eexists; reflexivity].
    + destruct (retryable_status code1 && (0 <? sl1) && (sl1 <? retryLim c)); cbn [fst snd];
        (split; [reflexivity|eexists; reflexivity]).
Qed.

Lemma tries2_retries_timeout c rest : fst (fst (tries c 2 (RTimeout :: rest))) = 2%N.
Proof.
  cbn [tries tl]. destruct rest as [|r1 rest']; cbn [hd tl]; [reflexivity|].
  destruct r1 as [| |code1 sl1 sts1]; cbn [fst]; try reflexivity.
  destruct (retryable_status code1 && (0 <? sl1) && (sl1 <? retryLim c)); reflexivity.
Qed.

(* the retry bound the Go source has today (generated constant) *)
Lemma flush_ntries mb b : ntries (gen_cfg mb b) = 2%nat.
Proof. vm_compute. reflexivity. Qed.
