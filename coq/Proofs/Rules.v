(* Proofs about the rules-sampler model: the control flow of the Go code (loops with early exits,
   match counters, per-operator closures) refines the documented semantics of Model/RulesSpec.v. *)
From Refinery Require Import Lib.Base Model.Values Model.Rules Model.RulesSpec Gen.GenC08.
Local Open Scope string_scope.
Local Open Scope Z_scope.

(* ---------- comparisons ---------- *)
Lemma ascii_compare_refl a : Ascii.compare a a = Eq.
Proof. unfold Ascii.compare. apply N.compare_refl. Qed.

Lemma string_compare_refl s : String.compare s s = Eq.
Proof.
  induction s as [|a r IH]; cbn [String.compare]; [reflexivity|].
  rewrite ascii_compare_refl. exact IH.
Qed.

Lemma string_eqb_compare a b :
  String.eqb a b = match String.compare a b with Eq => true | _ => false end.
Proof.
  destruct (String.eqb a b) eqn:E.
  - apply String.eqb_eq in E. subst. rewrite string_compare_refl. reflexivity.
  - destruct (String.compare a b) eqn:C; [|reflexivity|reflexivity].
    apply String.compare_eq_iff in C. subst. rewrite String.eqb_refl in E. discriminate.
Qed.

Lemma z_eqb_compare a b : Z.eqb a b = match Z.compare a b with Eq => true | _ => false end.
Proof.
  destruct (Z.eqb_spec a b) as [->|Hne].
  - rewrite Z.compare_refl. reflexivity.
  - destruct (Z.compare_spec a b); congruence.
Qed.

Lemma dy_cmp_antisym a b : dy_cmp a b = CompOpp (dy_cmp b a).
Proof.
  destruct a as [m1 e1], b as [m2 e2]. unfold dy_cmp. cbv zeta.
  rewrite (Z.min_comm e2 e1). apply Z.compare_antisym.
Qed.

Lemma bool_eqb_compare a b : Bool.eqb a b = match Bool.compare a b with Eq => true | _ => false end.
Proof. destruct a, b; reflexivity. Qed.

Lemma filter_some_map_map {A B C} (f : A -> option B) (g : B -> C) (l : list A) :
  filter_some (map (fun x => option_map g (f x)) l) = map g (filter_some (map f l)).
Proof.
  induction l as [|x r IH]; cbn [map filter_some]; [reflexivity|].
  destruct (f x); cbn [option_map filter_some map]; rewrite IH; reflexivity.
Qed.

Lemma filter_some_map_some {A B} (f : A -> B) (l : list A) :
  filter_some (map (fun x => Some (f x)) l) = map f l.
Proof. induction l as [|x r IH]; cbn [map filter_some]; [reflexivity|]. rewrite IH. reflexivity. Qed.

Lemma existsb_map {A B} (f : A -> B) (p : B -> bool) (l : list A) :
  existsb p (map f l) = existsb (fun x => p (f x)) l.
Proof. induction l as [|x r IH]; cbn [map existsb]; [reflexivity|]. rewrite IH. reflexivity. Qed.

Lemma existsb_ext_eq {A} (p q : A -> bool) (l : list A) :
  (forall x, p x = q x) -> existsb p l = existsb q l.
Proof. intros H. induction l as [|x r IH]; cbn [existsb]; [reflexivity|]. rewrite H, IH. reflexivity. Qed.

Section RulesProofs.
  Variable fmtv : dy -> string.
  Variable parsef : string -> option dy.
  Variable rx : string -> option (string -> bool).

  Notation cmatch := (cmatch fmtv parsef rx).
  Notation doc_match := (doc_match fmtv parsef rx).
  Notation doc_present := (doc_present fmtv parsef rx).
  Notation cond_wf := (cond_wf fmtv parsef rx).

  (* ---------- one arm family at a time: closure = uniform documented comparison ---------- *)
  Lemma arm_string_doc o cv ov : is_cmp_op o = true ->
    exists f, arm_string fmtv o cv = Some f /\
      f ov = match ov with
             | Some v => cmp_holds o (String.compare (sval_str fmtv v) cv)
             | None => false end.
  Proof.
    intros Ho. destruct o; try discriminate Ho; eexists; (split; [reflexivity|]);
      destruct ov as [v|]; cbn [present vnil andb]; try reflexivity;
      unfold String.ltb, String.leb; rewrite ?string_eqb_compare;
      try rewrite (String.compare_antisym (sval_str fmtv v) cv);
      destruct (String.compare _ _); reflexivity.
  Qed.

  Lemma arm_int_doc o cv ov : is_cmp_op o = true ->
    exists f, arm_int o cv = Some f /\
      f ov = match ov with
             | Some v => match sval_int v with
                         | Some n => cmp_holds o (Z.compare n cv) | None => false end
             | None => false end.
  Proof.
    intros Ho. destruct o; try discriminate Ho; eexists; (split; [reflexivity|]);
      unfold with_int; destruct ov as [v|]; cbn [present vnil sval_int andb]; try reflexivity;
      destruct (sval_int v) as [n|]; try reflexivity; cbn [andb];
      unfold Z.ltb, Z.leb; rewrite ?z_eqb_compare;
      try rewrite (Z.compare_antisym cv n);
      destruct (Z.compare _ _); reflexivity.
  Qed.

  Lemma arm_float_doc o cv ov : is_cmp_op o = true ->
    exists f, arm_float parsef o cv = Some f /\
      f ov = match ov with
             | Some v => match sval_float parsef v with
                         | Some n => cmp_holds o (dy_cmp n cv) | None => false end
             | None => false end.
  Proof.
    intros Ho. destruct o; try discriminate Ho; eexists; (split; [reflexivity|]);
      unfold with_float; destruct ov as [v|]; cbn [present vnil sval_float andb]; try reflexivity;
      destruct (sval_float parsef v) as [n|]; try reflexivity; cbn [andb];
      unfold dy_ltb, dy_leb, dy_eqb;
      try rewrite (dy_cmp_antisym cv n);
      destruct (dy_cmp _ _); reflexivity.
  Qed.

  Lemma coerce_cv_int v : coerce_cv fmtv parsef DInt v = option_map TInt (cval_int v).
  Proof. destruct v; reflexivity. Qed.
  Lemma coerce_cv_float v : coerce_cv fmtv parsef DFloat v = option_map TFloat (cval_float parsef v).
  Proof. destruct v; reflexivity. Qed.

  (* = != > >= < <= *)
  Lemma compare_doc c ov :
    cond_wf c = true -> is_cmp_op (c_op c) = true ->
    match set_compare fmtv parsef c with
    | Some f => f ov
    | None => cond_untyped c ov
    end =
    match ov with
    | Some v => doc_compare fmtv parsef (c_op c) (c_dt c) (c_val c) v
    | None => false
    end.
  Proof.
    intros Hwf Ho. unfold RulesSpec.cond_wf in Hwf. apply andb_true_iff in Hwf. destruct Hwf as [_ Hwf].
    unfold set_compare, doc_compare. destruct (c_dt c) eqn:Ed.
    - (* no datatype: conditionMatchesValue *)
      unfold cond_untyped. destruct ov as [v|].
      + destruct (c_op c); try discriminate Ho;
          destruct (compare_untyped v (c_val c)) as [[]|]; reflexivity.
      + destruct (c_op c); try discriminate Ho; reflexivity.
    - (* string *)
      destruct (arm_string_doc (c_op c) (cval_str fmtv (c_val c)) ov Ho) as [f [Hf Hv]].
      rewrite Hf, Hv. destruct ov as [v|]; reflexivity.
    - (* int *)
      rewrite coerce_cv_int.
      destruct (cval_int (c_val c)) as [n|] eqn:En.
      + destruct (arm_int_doc (c_op c) n ov Ho) as [f [Hf Hv]]. rewrite Hf, Hv.
        destruct ov as [v|]; [|reflexivity]. cbn [coerce_s option_map].
        destruct (sval_int v); reflexivity.
      + destruct (c_op c); try discriminate Ho; discriminate Hwf.
    - (* float *)
      rewrite coerce_cv_float.
      destruct (cval_float parsef (c_val c)) as [n|] eqn:En.
      + destruct (arm_float_doc (c_op c) n ov Ho) as [f [Hf Hv]]. rewrite Hf, Hv.
        destruct ov as [v|]; [|reflexivity]. cbn [coerce_s option_map].
        destruct (sval_float parsef v); reflexivity.
      + destruct (c_op c); try discriminate Ho; discriminate Hwf.
    - (* bool: only = and != are documented *)
      destruct (c_op c); try discriminate Ho; try discriminate Hwf;
        cbn [arm_bool]; destruct ov as [v|]; cbn [present vnil andb coerce_s]; try reflexivity;
        (replace (coerce_cv fmtv parsef DBool (c_val c)) with (Some (TBool (cval_bool fmtv (c_val c))))
          by (destruct (c_val c); reflexivity));
        cbn [tv_cmp]; rewrite bool_eqb_compare; destruct (Bool.compare _ _); reflexivity.
    - destruct (c_op c); try discriminate Ho; discriminate Hwf.
  Qed.

  (* in / not-in *)
  Lemma in_matches_doc dt items ov :
    match dt with DBool | DBad => False | _ => True end ->
    exists m, in_matches fmtv parsef dt items = Some m /\
      m ov = match ov with
             | Some v =>
                 match coerce_s fmtv parsef (in_dt dt) v with
                 | Some a => existsb (tv_eqb a)
                               (filter_some (map (coerce_c fmtv parsef (in_dt dt)) items))
                 | None => false
                 end
             | None => false
             end.
  Proof.
    intros Hdt. destruct dt; try contradiction; cbn [in_matches in_dt]; eexists; (split; [reflexivity|]).
    - (* none = string *)
      destruct ov as [v|]; cbn [present vnil andb coerce_s]; [|reflexivity].
      unfold str_mem.
      change (coerce_c fmtv parsef DString) with (fun x => Some (TStr (cscalar_str fmtv x))).
      rewrite (filter_some_map_some (fun x => TStr (cscalar_str fmtv x))), !existsb_map.
      apply existsb_ext_eq. intros x. unfold tv_eqb. cbn [tv_cmp].
      rewrite string_eqb_compare. destruct (String.compare _ _); reflexivity.
    - destruct ov as [v|]; cbn [present vnil andb coerce_s]; [|reflexivity].
      unfold str_mem.
      change (coerce_c fmtv parsef DString) with (fun x => Some (TStr (cscalar_str fmtv x))).
      rewrite (filter_some_map_some (fun x => TStr (cscalar_str fmtv x))), !existsb_map.
      apply existsb_ext_eq. intros x. unfold tv_eqb. cbn [tv_cmp].
      rewrite string_eqb_compare. destruct (String.compare _ _); reflexivity.
    - (* int *)
      destruct ov as [v|]; cbn [vnil coerce_s sval_int]; [|reflexivity].
      destruct (sval_int v) as [i|]; cbn [option_map]; [|reflexivity].
      change (coerce_c fmtv parsef DInt) with (fun x => option_map TInt (cscalar_int x)).
      rewrite (filter_some_map_map cscalar_int TInt), existsb_map.
      apply existsb_ext_eq. intros x. unfold tv_eqb. cbn [tv_cmp].
      rewrite z_eqb_compare. destruct (Z.compare _ _); reflexivity.
    - (* float *)
      destruct ov as [v|]; cbn [vnil coerce_s sval_float]; [|reflexivity].
      destruct (sval_float parsef v) as [i|]; cbn [option_map]; [|reflexivity].
      change (coerce_c fmtv parsef DFloat) with (fun x => option_map TFloat (cscalar_float parsef x)).
      rewrite (filter_some_map_map (cscalar_float parsef) TFloat), existsb_map.
      apply existsb_ext_eq. intros x. unfold tv_eqb, dy_eqb. cbn [tv_cmp].
      destruct (dy_cmp _ _); reflexivity.
  Qed.

  (* ---------- every operator: what the Go code computes is the documented meaning ---------- *)
  Lemma wf_no_conflict c : cond_wf c = true -> init_conflict c = false.
  Proof.
    unfold RulesSpec.cond_wf. intros H. apply andb_true_iff in H. destruct H as [H _].
    destruct (init_conflict c); [discriminate H|reflexivity].
  Qed.

  Lemma cmatch_doc c ov : cond_wf c = true -> cmatch c ov = doc_match c ov.
  Proof.
    intros Hwf. pose proof (wf_no_conflict c Hwf) as Hnc.
    unfold Rules.cmatch, matcher. rewrite Hnc.
    unfold RulesSpec.doc_match, RulesSpec.doc_present.
    destruct (c_op c) eqn:Eo.
    1-6: (* comparisons *)
      (pose proof (compare_doc c ov Hwf) as Hc; rewrite Eo in Hc; specialize (Hc eq_refl);
       rewrite Hc; destruct ov; reflexivity).
    - (* starts-with *)
      unfold set_stringop. rewrite Eo. destruct ov; reflexivity.
    - unfold set_stringop. rewrite Eo. destruct ov; reflexivity.
    - unfold set_stringop. rewrite Eo. destruct ov; reflexivity.
    - (* exists *) destruct ov; reflexivity.
    - (* not-exists *) destruct ov; reflexivity.
    - (* has-root-span: Matches nil, untyped switch has no arm *)
      unfold cond_untyped. rewrite Eo. destruct ov; reflexivity.
    - (* matches *)
      unfold set_regex. unfold RulesSpec.cond_wf in Hwf. rewrite Eo in Hwf.
      apply andb_true_iff in Hwf. destruct Hwf as [_ Hwf].
      destruct (rx (cval_str fmtv (c_val c))) as [f|]; [|discriminate Hwf].
      destruct ov; reflexivity.
    - (* in *)
      unfold set_in, doc_in. unfold RulesSpec.cond_wf in Hwf. rewrite Eo in Hwf.
      apply andb_true_iff in Hwf. destruct Hwf as [_ Hwf].
      apply andb_true_iff in Hwf. destruct Hwf as [Hit Hdt].
      destruct (in_items (c_val c)) as [items|]; [|discriminate Hit].
      destruct (in_matches_doc (c_dt c) items ov) as [m [Hm Hv]].
      { destruct (c_dt c); try discriminate Hdt; exact I. }
      rewrite Hm, Eo, Hv. destruct ov as [v|]; [|reflexivity].
      destruct (coerce_s fmtv parsef (in_dt (c_dt c)) v); reflexivity.
    - (* not-in *)
      unfold set_in, doc_in. unfold RulesSpec.cond_wf in Hwf. rewrite Eo in Hwf.
      apply andb_true_iff in Hwf. destruct Hwf as [_ Hwf].
      apply andb_true_iff in Hwf. destruct Hwf as [Hit Hdt].
      destruct (in_items (c_val c)) as [items|]; [|discriminate Hit].
      destruct (in_matches_doc (c_dt c) items ov) as [m [Hm Hv]].
      { destruct (c_dt c); try discriminate Hdt; exact I. }
      rewrite Hm, Eo, Hv. destruct ov as [v|]; [|reflexivity].
      cbn [present andb].
      destruct (coerce_s fmtv parsef (in_dt (c_dt c)) v); reflexivity.
    - (* unknown operator: excluded *)
      unfold RulesSpec.cond_wf in Hwf. rewrite Eo in Hwf.
      apply andb_true_iff in Hwf. destruct Hwf as [_ Hwf]. discriminate Hwf.
  Qed.

  (* A condition evaluated on an ABSENT field matches only under not-exists — for EVERY
     condition, well-formed or not (Init errors, unknown operators and datatypes included). *)
  Lemma cmatch_absent c : cmatch c None = true -> c_op c = OpNotExists.
  Proof.
    unfold Rules.cmatch, matcher.
    destruct (init_conflict c).
    { unfold cond_untyped. destruct (c_op c); intros H; try discriminate H; reflexivity. }
    destruct (c_op c) eqn:Eo; try reflexivity.
    1-6: (unfold set_compare;
          destruct (c_dt c); try destruct (cval_int (c_val c)); try destruct (cval_float parsef (c_val c));
          first [ (cbv beta iota delta [arm_string arm_int arm_float arm_bool with_int with_float
                                         present vnil sval_int sval_float andb];
                   intros H; discriminate H)
                | (unfold cond_untyped; rewrite Eo; intros H; discriminate H) ]).
    1-3: (unfold set_stringop; rewrite Eo; cbn [present andb]; intros H; discriminate H).
    - cbn [present]. intros H; discriminate H.
    - unfold cond_untyped. rewrite Eo. intros H; discriminate H.
    - unfold set_regex. destruct (rx _); [cbn [present andb]|unfold cond_untyped; rewrite Eo];
        intros H; discriminate H.
    - unfold set_in. destruct (in_items (c_val c)) as [items|];
        [|unfold cond_untyped; rewrite Eo; intros H; discriminate H].
      destruct (c_dt c); cbn [in_matches]; rewrite ?Eo; cbn [present andb vnil sval_int sval_float];
        try (intros H; discriminate H); unfold cond_untyped; rewrite Eo; intros H; discriminate H.
    - unfold set_in. destruct (in_items (c_val c)) as [items|];
        [|unfold cond_untyped; rewrite Eo; intros H; discriminate H].
      destruct (c_dt c); cbn [in_matches]; rewrite ?Eo; cbn [present andb vnil sval_int sval_float];
        try (intros H; discriminate H); unfold cond_untyped; rewrite Eo; intros H; discriminate H.
    - unfold cond_untyped. rewrite Eo. intros H; discriminate H.
  Qed.

  (* ---------- extractValueFromSpan ---------- *)
  Lemma extract_loop_first t sp fs cor :
    fst (extract_loop t sp fs cor) = first_present t sp fs.
  Proof.
    revert cor. induction fs as [|f r IH]; intros cor; cbn [extract_loop first_present]; [reflexivity|].
    unfold field_on. destruct (strip_root f) as [f'|].
    - destruct (t_root t) as [rt|]; [|apply IH].
      destruct (sget f' rt); [reflexivity|apply IH].
    - destruct (sget f sp); [reflexivity|apply IH].
  Qed.

  (* checkedOnlyRoot = true means the result does not depend on the span *)
  Lemma extract_loop_cor t sp fs cor :
    snd (extract_loop t sp fs cor) = true ->
    cor = true /\ forall sp', extract_loop t sp' fs cor = extract_loop t sp fs cor.
  Proof.
    revert cor. induction fs as [|f r IH]; intros cor; cbn [extract_loop].
    - cbn [snd]. discriminate.
    - destruct (strip_root f) as [f'|].
      + destruct (t_root t) as [rt|]; [|apply IH].
        destruct (sget f' rt); [|apply IH].
        cbn [snd]. intros ->. split; [reflexivity|]. intros sp'. reflexivity.
      + destruct (sget f sp).
        * cbn [snd]. discriminate.
        * intros H. apply IH in H. destruct H as [H _]. discriminate H.
  Qed.

  Lemma extract_value t sp c : fst (extract t sp c) = cond_value t sp c.
  Proof.
    unfold extract, cond_value. destruct (is_virtual c); [reflexivity|apply extract_loop_first].
  Qed.

  Lemma extract_cor t sp c :
    snd (extract t sp c) = true -> forall sp', extract t sp' c = extract t sp c.
  Proof.
    unfold extract. destruct (is_virtual c); [reflexivity|].
    intros H sp'. apply extract_loop_cor in H. destruct H as [_ H]. apply H.
  Qed.

  (* ---------- ruleMatchesTrace ---------- *)
  Definition cvm (t : trace) (c : cond) (sp : span) : bool := cmatch c (cond_value t sp c).

  Lemma cond_span_loop_exists t c spans :
    cond_span_loop fmtv parsef rx t c spans = existsb (cvm t c) spans.
  Proof.
    induction spans as [|sp r IH]; cbn [cond_span_loop existsb]; [reflexivity|].
    unfold cvm at 1. rewrite <- extract_value.
    destruct (extract t sp c) as [ov cor] eqn:E. cbn [fst].
    destruct (cmatch c ov) eqn:M; [reflexivity|]. cbn [orb].
    destruct cor; [|exact IH].
    (* early break: every other span yields the same value, so none matches *)
    symmetry. apply not_true_is_false. intros Hex. apply existsb_exists in Hex.
    destruct Hex as [sp' [_ Hm]]. unfold cvm in Hm. rewrite <- extract_value in Hm.
    rewrite (extract_cor t sp c) in Hm; [|rewrite E; reflexivity].
    rewrite E in Hm. cbn [fst] in Hm. congruence.
  Qed.

  Definition cond_on_trace_m (t : trace) (c : cond) : bool :=
    if is_hasroot c then Bool.eqb (has_root t) (cval_bool fmtv (c_val c))
    else existsb (cvm t c) (t_spans t).

  Lemma trace_conds_count t conds :
    match trace_conds fmtv parsef rx t conds with
    | Some k => (k <= length conds)%nat /\
                (k = length conds <-> forallb (cond_on_trace_m t) conds = true)
    | None => forallb (cond_on_trace_m t) conds = false
    end.
  Proof.
    induction conds as [|c r IH]; cbn [trace_conds forallb length].
    - split; [lia|]. split; reflexivity.
    - unfold cond_on_trace_m at 1 3. destruct (is_hasroot c).
      + destruct (Bool.eqb (has_root t) (cval_bool fmtv (c_val c))); [|reflexivity].
        destruct (trace_conds fmtv parsef rx t r) as [k|]; cbn [option_map andb].
        * destruct IH as [Hle Hiff]. split; [lia|]. rewrite <- Hiff. split; lia.
        * exact IH.
      + rewrite cond_span_loop_exists.
        destruct (trace_conds fmtv parsef rx t r) as [k|]; cbn [option_map].
        * destruct IH as [Hle Hiff]. destruct (existsb (cvm t c) (t_spans t)); cbn [andb].
          -- split; [lia|]. rewrite <- Hiff. split; lia.
          -- split; [lia|]. split; [lia|discriminate].
        * rewrite IH. apply andb_false_r.
  Qed.

  Lemma rule_matches_trace_forall t conds :
    rule_matches_trace fmtv parsef rx t conds = forallb (cond_on_trace_m t) conds.
  Proof.
    unfold rule_matches_trace. destruct conds as [|c r]; [reflexivity|].
    pose proof (trace_conds_count t (c :: r)) as H.
    destruct (trace_conds fmtv parsef rx t (c :: r)) as [k|]; [|symmetry; exact H].
    destruct H as [_ Hiff].
    destruct (Nat.eqb_spec k (length (c :: r))) as [He|Hne].
    - symmetry. apply Hiff. exact He.
    - symmetry. apply not_true_is_false. intros Hf. apply Hiff in Hf. contradiction.
  Qed.

  (* ---------- ruleMatchesSpanInTrace ---------- *)
  Definition all_on_span (t : trace) (conds : list cond) (sp : span) : bool :=
    forallb (fun c => cvm t c sp) conds.

  Lemma span_conds_spec t sp conds :
    match span_conds fmtv parsef rx t sp conds with
    | CAll => all_on_span t conds sp = true
    | CFail => all_on_span t conds sp = false
    | CAbort => forall sp', all_on_span t conds sp' = false
    end.
  Proof.
    induction conds as [|c r IH]; cbn [span_conds]; [reflexivity|].
    destruct (extract t sp c) as [ov cor] eqn:E.
    assert (Hv : cvm t c sp = cmatch c ov).
    { unfold cvm. rewrite <- extract_value, E. reflexivity. }
    destruct (cmatch c ov) eqn:M.
    - destruct (span_conds fmtv parsef rx t sp r); unfold all_on_span in *; cbn [forallb].
      + rewrite Hv. exact IH.
      + rewrite Hv. exact IH.
      + intros sp'. rewrite IH. apply andb_false_r.
    - destruct cor.
      + intros sp'. unfold all_on_span. cbn [forallb].
        replace (cvm t c sp') with false; [reflexivity|].
        unfold cvm. rewrite <- extract_value.
        rewrite (extract_cor t sp c); [|rewrite E; reflexivity]. rewrite E. cbn [fst]. congruence.
      + unfold all_on_span. cbn [forallb]. rewrite Hv. reflexivity.
  Qed.

  Lemma span_loop_exists t conds spans :
    (forall sp, In sp spans -> In sp (t_spans t)) ->
    span_loop fmtv parsef rx t conds spans = existsb (all_on_span t conds) spans.
  Proof.
    induction spans as [|sp r IH]; intros Hsub; cbn [span_loop existsb]; [reflexivity|].
    pose proof (span_conds_spec t sp conds) as H.
    destruct (span_conds fmtv parsef rx t sp conds).
    - rewrite H. reflexivity.
    - rewrite H. cbn [orb]. apply IH. intros x Hx. apply Hsub. right. exact Hx.
    - rewrite H. cbn [orb]. symmetry. apply not_true_is_false. intros Hex.
      apply existsb_exists in Hex. destruct Hex as [sp' [_ Hm]]. rewrite H in Hm. discriminate.
  Qed.

  Lemma rule_matches_span_exists t conds :
    rule_matches_span fmtv parsef rx t conds =
    is_nil conds || existsb (all_on_span t conds) (t_spans t).
  Proof.
    unfold rule_matches_span. destruct conds as [|c r]; [reflexivity|].
    cbn [is_nil orb]. apply span_loop_exists. auto.
  Qed.

  (* ---------- rule level ---------- *)
  Variable ds : nat -> option outcome.
  Variable draw : nat -> Z.

  Notation spec_rule_matches := (spec_rule_matches fmtv).
  Notation run_rules := (run_rules fmtv parsef rx ds draw).
  Notation rule_wf := (rule_wf fmtv parsef rx ds).
  Notation rules_wf := (rules_wf fmtv parsef rx ds).

  Lemma forallb_ext_in {A} (p q : A -> bool) (l : list A) :
    (forall x, In x l -> p x = q x) -> forallb p l = forallb q l.
  Proof.
    induction l as [|x r IH]; intros H; cbn [forallb]; [reflexivity|].
    rewrite (H x (or_introl eq_refl)), IH; [reflexivity|]. intros y Hy. apply H. right. exact Hy.
  Qed.

  (* Structural refinement, for EVERY rule with a valid scope (no well-formedness needed):
     the two scope loops with their early exits and the match counter compute the
     exists-span / forall-condition formulation, with the Go matcher [cmatch] at the leaves. *)
  Lemma rule_matched_structural t r :
    scope_of (r_scope r) <> ScInvalid ->
    rule_matched fmtv parsef rx t r = (spec_rule_matches cmatch t r, spec_prefix r).
  Proof.
    intros Hsc. unfold rule_matched, RulesSpec.spec_rule_matches, spec_prefix.
    destruct (scope_of (r_scope r)); [| |contradiction].
    - rewrite rule_matches_span_exists. reflexivity.
    - rewrite rule_matches_trace_forall. reflexivity.
  Qed.

  Lemma spec_rule_matches_ext (cm1 cm2 : cond -> option sval -> bool) t r :
    (forall c ov, In c (r_conds r) -> cm1 c ov = cm2 c ov) ->
    spec_rule_matches cm1 t r = spec_rule_matches cm2 t r.
  Proof.
    intros H. unfold RulesSpec.spec_rule_matches. destruct (scope_of (r_scope r)); [| |reflexivity].
    - f_equal. apply existsb_ext_eq. intros sp. apply forallb_ext_in. intros c Hc. apply H. exact Hc.
    - apply forallb_ext_in. intros c Hc. unfold cond_on_trace.
      destruct (is_hasroot c); [reflexivity|]. apply existsb_ext_eq. intros sp. apply H. exact Hc.
  Qed.

  Lemma rule_matched_doc t r i :
    rule_wf i r = true ->
    rule_matched fmtv parsef rx t r = (spec_rule_matches doc_match t r, spec_prefix r).
  Proof.
    intros Hwf. unfold RulesSpec.rule_wf in Hwf.
    repeat (apply andb_true_iff in Hwf; destruct Hwf as [Hwf ?]).
    rewrite rule_matched_structural.
    - f_equal. apply spec_rule_matches_ext. intros c ov Hc. apply cmatch_doc.
      rewrite forallb_forall in H2. apply H2. exact Hc.
    - intros E. rewrite E in Hwf. discriminate Hwf.
  Qed.

  Lemma apply_rule_doc i r :
    rule_wf i r = true ->
    apply_rule ds draw i r (spec_prefix r) = spec_apply ds draw i r.
  Proof.
    intros Hwf. unfold RulesSpec.rule_wf in Hwf.
    repeat (apply andb_true_iff in Hwf; destruct Hwf as [Hwf ?]).
    unfold apply_rule, spec_apply. destruct (r_sampler r).
    - destruct (ds i); [reflexivity|discriminate H1].
    - apply Z.leb_le in H0. apply Z.ltb_lt in H.
      rewrite Z.mod_small by (split; [exact H0|]; lia).
      destruct (r_drop r); cbn [negb andb orb] in *; [reflexivity|].
      apply Z.leb_le in H1. replace (0 <? r_rate r) with true by (symmetry; apply Z.ltb_lt; lia).
      reflexivity.
  Qed.

  (* THE REFINEMENT: on every configuration the documentation gives a meaning to, and every trace,
     the Go control flow returns the documented outcome. *)
  Lemma run_rules_refines t rules : forall i,
    rules_wf i rules = true ->
    run_rules t i rules =
    match spec_first fmtv doc_match t i rules with
    | Some (j, r) => spec_apply ds draw j r
    | None => default_outcome
    end.
  Proof.
    induction rules as [|r rest IH]; intros i Hwf; cbn [Rules.run_rules spec_first]; [reflexivity|].
    cbn [RulesSpec.rules_wf] in Hwf. apply andb_true_iff in Hwf. destruct Hwf as [Hr Hrest].
    rewrite (rule_matched_doc t r i Hr).
    destruct (spec_rule_matches doc_match t r).
    - apply apply_rule_doc. exact Hr.
    - apply IH. exact Hrest.
  Qed.

  Theorem rules_refines_spec t rules :
    rules_wf O rules = true ->
    run_rules t O rules = spec_outcome fmtv ds draw doc_match t rules.
  Proof. intros H. unfold spec_outcome. apply run_rules_refines. exact H. Qed.

  (* ---------- the specification in quantifier form ---------- *)
  Section SpecShape.
    Variable cm : cond -> option sval -> bool.

    Lemma spec_trace_scope_iff t r :
      scope_of (r_scope r) = ScTrace ->
      (spec_rule_matches cm t r = true <->
       forall c, In c (r_conds r) ->
         if is_hasroot c then has_root t = cval_bool fmtv (c_val c)
         else exists sp, In sp (t_spans t) /\ cm c (cond_value t sp c) = true).
    Proof.
      intros Hs. unfold RulesSpec.spec_rule_matches. rewrite Hs. rewrite forallb_forall.
      split; intros H c Hc; specialize (H c Hc); unfold cond_on_trace in *;
        destruct (is_hasroot c).
      - apply eqb_prop. exact H.
      - apply existsb_exists in H. exact H.
      - rewrite H. apply eqb_reflx.
      - apply existsb_exists. exact H.
    Qed.

    Lemma spec_span_scope_iff t r :
      scope_of (r_scope r) = ScSpan ->
      (spec_rule_matches cm t r = true <->
       r_conds r = [] \/
       exists sp, In sp (t_spans t) /\
                  forall c, In c (r_conds r) -> cm c (cond_value t sp c) = true).
    Proof.
      intros Hs. unfold RulesSpec.spec_rule_matches. rewrite Hs. rewrite orb_true_iff.
      split; intros [H|H].
      - left. destruct (r_conds r); [reflexivity|discriminate H].
      - right. apply existsb_exists in H. destruct H as [sp [Hin Hall]]. exists sp.
        split; [exact Hin|]. rewrite forallb_forall in Hall. exact Hall.
      - left. rewrite H. reflexivity.
      - right. destruct H as [sp [Hin Hall]]. apply existsb_exists. exists sp.
        split; [exact Hin|]. apply forallb_forall. exact Hall.
    Qed.

    (* first rule in configuration order *)
    Lemma spec_first_iff t rules : forall i0 i r,
      spec_first fmtv cm t i0 rules = Some (i, r) <->
      exists k, i = (i0 + k)%nat /\ nth_error rules k = Some r /\
                spec_rule_matches cm t r = true /\
                forall j r', (j < k)%nat -> nth_error rules j = Some r' ->
                             spec_rule_matches cm t r' = false.
    Proof.
      induction rules as [|r0 rest IH]; intros i0 i r; cbn [spec_first].
      - split; [discriminate|]. intros [k [_ [Hn _]]]. destruct k; discriminate Hn.
      - destruct (spec_rule_matches cm t r0) eqn:M.
        + split.
          * intros [= <- <-]. exists O. repeat split; [lia|exact M|]. intros j r' Hj. lia.
          * intros [k [Hi [Hn [Hm Hlt]]]]. destruct k as [|k].
            -- cbn in Hn. injection Hn as <-. f_equal. f_equal. lia.
            -- specialize (Hlt O r0 ltac:(lia) eq_refl). congruence.
        + rewrite IH. split.
          * intros [k [Hi [Hn [Hm Hlt]]]]. exists (S k). repeat split; [lia|exact Hn|exact Hm|].
            intros j r' Hj Hnj. destruct j as [|j]; [cbn in Hnj; injection Hnj as <-; exact M|].
            apply (Hlt j r'); [lia|exact Hnj].
          * intros [k [Hi [Hn [Hm Hlt]]]]. destruct k as [|k].
            -- cbn in Hn. injection Hn as <-. congruence.
            -- exists k. repeat split; [lia|exact Hn|exact Hm|].
               intros j r' Hj Hnj. apply (Hlt (S j) r'); [lia|exact Hnj].
    Qed.

    Lemma spec_first_none t rules : forall i0,
      spec_first fmtv cm t i0 rules = None <->
      forall r, In r rules -> spec_rule_matches cm t r = false.
    Proof.
      induction rules as [|r0 rest IH]; intros i0; cbn [spec_first].
      - split; [intros _ r []|reflexivity].
      - destruct (spec_rule_matches cm t r0) eqn:M.
        + split; [discriminate|]. intros H. specialize (H r0 (or_introl eq_refl)). congruence.
        + rewrite IH. split.
          * intros H r [<-|Hr]; [exact M|apply H; exact Hr].
          * intros H r Hr. apply H. right. exact Hr.
    Qed.
  End SpecShape.

  (* documented outcomes of the applied rule *)
  Lemma spec_apply_drop i r :
    r_sampler r = false -> r_drop r = true -> o_keep (spec_apply ds draw i r) = false.
  Proof. intros Hs Hd. unfold spec_apply. rewrite Hs, Hd. reflexivity. Qed.

  Lemma spec_apply_rate i r :
    r_sampler r = false -> r_drop r = false ->
    o_rate (spec_apply ds draw i r) = r_rate r /\
    (o_keep (spec_apply ds draw i r) = true <-> draw i = 0).
  Proof.
    intros Hs Hd. unfold spec_apply. rewrite Hs, Hd. cbn [o_rate o_keep].
    split; [reflexivity|apply Z.eqb_eq].
  Qed.

  Lemma spec_apply_delegates i r d :
    r_sampler r = true -> ds i = Some d ->
    o_rate (spec_apply ds draw i r) = o_rate d /\ o_keep (spec_apply ds draw i r) = o_keep d /\
    o_key (spec_apply ds draw i r) = o_key d.
  Proof. intros Hs Hd. unfold spec_apply. rewrite Hs, Hd. repeat split. Qed.

  Lemma spec_default cm t rules :
    (forall r, In r rules -> spec_rule_matches cm t r = false) ->
    spec_outcome fmtv ds draw cm t rules = default_outcome /\
    o_rate default_outcome = 1 /\ o_keep default_outcome = true.
  Proof.
    intros H. unfold spec_outcome. apply (spec_first_none cm t rules O) in H. rewrite H.
    repeat split.
  Qed.

  (* A rule with a condition (other than not-exists / has-root-span) on a field that is absent
     from every span never matches — in the MODEL OF THE GO CODE, for every condition, whether or
     not configuration validation would accept it. *)
  Lemma absent_field_rule_no_match t r c :
    scope_of (r_scope r) <> ScInvalid ->
    In c (r_conds r) -> is_hasroot c = false -> c_op c <> OpNotExists ->
    (forall sp, In sp (t_spans t) -> cond_value t sp c = None) ->
    fst (rule_matched fmtv parsef rx t r) = false.
  Proof.
    intros Hsc Hc Hh Hop Habs. rewrite (rule_matched_structural t r Hsc). cbn [fst].
    assert (Hno : forall sp, In sp (t_spans t) -> cmatch c (cond_value t sp c) = false).
    { intros sp Hsp. rewrite (Habs sp Hsp). apply not_true_is_false. intros Hm.
      apply cmatch_absent in Hm. contradiction. }
    unfold RulesSpec.spec_rule_matches. destruct (scope_of (r_scope r)); [| |reflexivity].
    - destruct (r_conds r) as [|c0 cs] eqn:Ec; [destruct Hc|]. cbn [is_nil orb].
      apply not_true_is_false. intros Hex. apply existsb_exists in Hex.
      destruct Hex as [sp [Hsp Hall]]. rewrite forallb_forall in Hall.
      specialize (Hall c Hc). rewrite (Hno sp Hsp) in Hall. discriminate.
    - apply not_true_is_false. intros Hall. rewrite forallb_forall in Hall.
      specialize (Hall c Hc). unfold cond_on_trace in Hall. rewrite Hh in Hall.
      apply existsb_exists in Hall. destruct Hall as [sp [Hsp Hm]].
      rewrite (Hno sp Hsp) in Hm. discriminate.
  Qed.
End RulesProofs.

(* ---------- tie to the source: the text of every Matches closure / untyped arm that the model
   transcribes.  A source edit of any arm makes this fail to compile (and with it Props/C08). ---------- *)
Definition expected_compare_arms : list string :=
  let hd := "r.Matches = func(spanValue any, exists bool) bool { " in
  let s o sym := "case " ++ o ++ ": " ++ hd ++ "return exists && convertToString(spanValue) " ++ sym ++ " conditionValue } return nil" in
  let n f o sym := "case " ++ o ++ ": " ++ hd ++ "if n, ok := " ++ f ++ "(spanValue); exists && ok { return n " ++ sym ++ " conditionValue } return false } return nil" in
  let b o sym := "case " ++ o ++ ": " ++ hd ++ "if n := TryConvertToBool(spanValue); exists { return n " ++ sym ++ " conditionValue } return false } return nil" in
  let ops := [("NEQ", "!="); ("EQ", "=="); ("GT", ">"); ("GTE", ">="); ("LT", "<"); ("LTE", "<=")] in
  (map (fun p => s (fst p) (snd p)) ops ++
   map (fun p => n "tryConvertToInt" (fst p) (snd p)) ops ++
   map (fun p => n "tryConvertToFloat" (fst p) (snd p)) ops ++
   [b "NEQ" "!="; b "EQ" "=="])%list.

Definition expected_stringop_arms : list string :=
  let hd := ": r.Matches = func(spanValue any, exists bool) bool { return exists && " in
  ["case StartsWith" ++ hd ++ "strings.HasPrefix(convertToString(spanValue), conditionValue) }";
   "case Contains" ++ hd ++ "strings.Contains(convertToString(spanValue), conditionValue) }";
   "case DoesNotContain" ++ hd ++ "!strings.Contains(convertToString(spanValue), conditionValue) }"].

Definition expected_in_arms : list string :=
  ["matches = func(spanValue any, exists bool) bool { s := convertToString(spanValue) return exists && values.Contains(s) } case";
   "matches = func(spanValue any, exists bool) bool { i, ok := tryConvertToInt(spanValue) return ok && values.Contains(i) } case";
   "matches = func(spanValue any, exists bool) bool { f, ok := tryConvertToFloat(spanValue) return ok && values.Contains(f) } case";
   "case NotIn: r.Matches = func(spanValue any, exists bool) bool { return exists && !matches(spanValue, exists) }"].

Definition expected_regex_arm : list string :=
  ["r.Matches = func(spanValue any, exists bool) bool { s := convertToString(spanValue) return exists && regex.MatchString(s) }"].

Definition expected_untyped_arms : list string :=
  let c o e := "case config." ++ o ++ ": if comparison, ok := compare(value, condition.Value); ok { match = " ++ e ++ " } " in
  ["case config.Exists: match = exists";
   c "NEQ" "comparison != equal"; c "EQ" "comparison == equal"; c "GT" "comparison == more";
   c "GTE" "comparison == more || comparison == equal"; c "LT" "comparison == less";
   c "LTE" "comparison == less || comparison == equal";
   "case config.NotExists: match = !exists"].

Definition expected_set_matches_cases : list (list string) :=
  [["Exists"]; ["NotExists"]; ["NEQ"; "EQ"; "GT"; "LT"; "LTE"; "GTE"];
   ["StartsWith"; "Contains"; "DoesNotContain"]; ["In"; "NotIn"]; ["MatchesRegexp"];
   ["HasRootSpan"]; ["default"]].

Definition expected_datatypes : list string :=
  ["case ""string"":"; "case ""int"":"; "case ""float"":"; "case ""bool"":"; "case """":"; "default:"].

Definition strs_eqb := list_eqb String.eqb.

Definition gen_tables_ok : bool :=
  strs_eqb compare_arms expected_compare_arms &&
  strs_eqb stringop_arms expected_stringop_arms &&
  strs_eqb in_arms expected_in_arms &&
  strs_eqb regex_arm expected_regex_arm &&
  strs_eqb untyped_arms expected_untyped_arms &&
  list_eqb strs_eqb set_matches_cases expected_set_matches_cases &&
  strs_eqb compare_datatypes expected_datatypes &&
  String.eqb rate_keep_text
    "rate = uint(rule.SampleRate) keep = !rule.Drop && rule.SampleRate > 0 && rand.Intn(rule.SampleRate) == 0 reason += rule.Name" &&
  (* the 15 operator names are pairwise distinct, so op_of_string is a faithful parser *)
  let ops := [op_EQ; op_NEQ; op_GT; op_LT; op_GTE; op_LTE; op_StartsWith; op_Contains;
              op_DoesNotContain; op_Exists; op_NotExists; op_HasRootSpan; op_MatchesRegexp;
              op_In; op_NotIn] in
  list_eqb (fun (a : op) b => match a, b with
     | OpEq, OpEq | OpNe, OpNe | OpGt, OpGt | OpLt, OpLt | OpGe, OpGe | OpLe, OpLe
     | OpStartsWith, OpStartsWith | OpContains, OpContains | OpNotContains, OpNotContains
     | OpExists, OpExists | OpNotExists, OpNotExists | OpHasRoot, OpHasRoot
     | OpMatches, OpMatches | OpIn, OpIn | OpNotIn, OpNotIn => true | _, _ => false end)
    (map op_of_string ops)
    [OpEq; OpNe; OpGt; OpLt; OpGe; OpLe; OpStartsWith; OpContains; OpNotContains; OpExists;
     OpNotExists; OpHasRoot; OpMatches; OpIn; OpNotIn] &&
  String.eqb num_descendants (computed_prefix ++ "NUM_DESCENDANTS") &&
  String.eqb compare_float_int_text
    "switch { case f != f: return equal case f >= 1<<63: return more case f < -(1 << 63): return less } whole := math.Trunc(f) switch n := int64(whole); { case n < i: return less case n > i: return more } switch { case f < whole: return less case f > whole: return more } return equal" &&
  strs_eqb compare_float_arms
    ["case float64: switch bt := b.(type) { case int: return compareFloatToInt(at, int64(bt)), true case int64: return compareFloatToInt(at, bt), true"] &&
  String.eqb convert_to_string_text
    "if f, ok := v.(float64); ok && f == math.Trunc(f) && math.Abs(f) < 1<<63 { return strconv.FormatInt(int64(f), 10) } return fmt.Sprintf(""%v"", v)".


Lemma gen_tables_hold : gen_tables_ok = true.
Proof. vm_compute. reflexivity. Qed.
