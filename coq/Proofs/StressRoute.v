(* Proofs about Model/StressRoute.v. *)
From Refinery Require Import Lib.Base Model.StressRoute.
From Coq Require Import Sorting.Permutation.

(* ---------- batches: grouping is a permutation, every batch has one key ---------- *)
Lemma partition_perm {A} (f : A -> bool) (l : list A) :
  Permutation l (fst (partition f l) ++ snd (partition f l)).
Proof.
  induction l as [|x r IH]; cbn [partition]; [constructor|].
  destruct (partition f r) as [a b]. cbn [fst snd] in *.
  destruct (f x); cbn [fst snd app].
  - constructor. exact IH.
  - eapply Permutation_trans; [apply perm_skip; exact IH|]. apply Permutation_middle.
Qed.

Lemma partition_snd_length {A} (f : A -> bool) (l : list A) : (length (snd (partition f l)) <= length l)%nat.
Proof.
  induction l as [|x r IH]; cbn [partition]; [constructor|].
  destruct (partition f r) as [a b]. cbn [fst snd] in *. destruct (f x); cbn [snd length]; lia.
Qed.

Lemma partition_fst_forall {A} (f : A -> bool) (l : list A) : Forall (fun x => f x = true) (fst (partition f l)).
Proof.
  induction l as [|x r IH]; cbn [partition]; [constructor|].
  destruct (partition f r) as [a b]. cbn [fst snd] in *. destruct (f x) eqn:E; cbn [fst]; [constructor; assumption|assumption].
Qed.

Lemma groups_perm {A} : forall fuel (q : list (bkey * A)),
  (length q <= fuel)%nat -> Permutation (concat (groups fuel q)) q.
Proof.
  induction fuel as [|f IH]; intros q Hl.
  - destruct q; [constructor|cbn in Hl; lia].
  - destruct q as [|[k x] r]; cbn [groups]; [constructor|].
    pose proof (partition_perm (fun e : bkey * A => bkey_eqb (fst e) k) r) as P.
    pose proof (partition_snd_length (fun e : bkey * A => bkey_eqb (fst e) k) r) as L.
    destruct (partition (fun e : bkey * A => bkey_eqb (fst e) k) r) as [same other]. cbn [fst snd] in *.
    cbn [concat app]. constructor.
    eapply Permutation_trans; [|apply Permutation_sym; exact P].
    apply Permutation_app_head. apply IH. cbn [length] in Hl. lia.
Qed.

Lemma bkey_eqb_eq a b : bkey_eqb a b = true -> a = b.
Proof.
  destruct a as [[h k] d], b as [[h' k'] d']. cbn [bkey_eqb].
  rewrite !andb_true_iff, !N.eqb_eq. intros [[-> ->] ->]. reflexivity.
Qed.

Lemma groups_keyed {A} : forall fuel (q : list (bkey * A)) g,
  In g (groups fuel q) -> exists k x rest, g = (k, x) :: rest /\ Forall (fun e => fst e = k) rest.
Proof.
  induction fuel as [|f IH]; intros q g Hin; [destruct Hin|].
  destruct q as [|[k x] r]; cbn [groups] in Hin; [destruct Hin|].
  pose proof (partition_fst_forall (fun e : bkey * A => bkey_eqb (fst e) k) r) as F.
  destruct (partition (fun e : bkey * A => bkey_eqb (fst e) k) r) as [same other]. cbn [fst] in F.
  destruct Hin as [<-|Hin]; [|eapply IH; exact Hin].
  exists k, x, same. split; [reflexivity|].
  eapply Forall_impl; [|exact F]. intros e He. cbn beta in He. apply bkey_eqb_eq in He. exact He.
Qed.

Lemma partition_map_snd {A B} (g : A -> B) (k : bkey) (l : list (bkey * A)) :
  partition (fun e : bkey * B => bkey_eqb (fst e) k) (map (fun e => (fst e, g (snd e))) l) =
  (map (fun e => (fst e, g (snd e))) (fst (partition (fun e : bkey * A => bkey_eqb (fst e) k) l)),
   map (fun e => (fst e, g (snd e))) (snd (partition (fun e : bkey * A => bkey_eqb (fst e) k) l))).
Proof.
  induction l as [|[k' x] r IH]; cbn [map partition fst snd]; [reflexivity|].
  rewrite IH. destruct (partition (fun e : bkey * A => bkey_eqb (fst e) k) r) as [a b]. cbn [fst snd].
  destruct (bkey_eqb k' k); reflexivity.
Qed.

Lemma groups_map_snd {A B} (g : A -> B) : forall fuel (q : list (bkey * A)),
  groups fuel (map (fun e => (fst e, g (snd e))) q) = map (map (fun e => (fst e, g (snd e)))) (groups fuel q).
Proof.
  induction fuel as [|f IH]; intros q; [reflexivity|].
  destruct q as [|[k x] r]; cbn [groups map fst snd]; [reflexivity|].
  rewrite partition_map_snd.
  destruct (partition (fun e : bkey * A => bkey_eqb (fst e) k) r) as [same other]. cbn [fst snd map].
  rewrite IH. reflexivity.
Qed.

Section Proofs.
  Variable own : N -> N.
  Variable keep_rule : N -> bool.

  Notation vstep := (vstep own keep_rule).
  Notation vrun := (vrun own keep_rule).
  Notation hstep := (hstep own keep_rule false).
  Notation hrun := (hrun own keep_rule false).
  Notation fate_of := (fate_of own keep_rule).
  Notation spec_up := (spec_up own keep_rule).
  Notation spec_pr := (spec_pr own keep_rule).
  Notation spec_ev := (spec_ev own keep_rule).

  (* ================= refinement: the heap machine with a copied probe = the value machine ================= *)
  Definition vals (hp : amap pay) (q : list (bkey * N)) : list (bkey * pay) :=
    map (fun e => (fst e, deref hp (snd e))) q.
  Definition below (n : N) (q : list (bkey * N)) : Prop := Forall (fun e => (snd e < n)%N) q.

  Definition R (h : hstate) (v : vstate) : Prop :=
    h_st h = v_st v /\ h_dec h = v_dec v /\
    vals (h_hp h) (h_up h) = v_up v /\ vals (h_hp h) (h_pr h) = v_pr v /\
    below (h_nxt h) (h_up h) /\ below (h_nxt h) (h_pr h) /\ h_buf h = v_buf v.

  Lemma deref_aset_eq hp r p : deref (aset r p hp) r = p.
  Proof. unfold deref. rewrite alookup_aset_eq. reflexivity. Qed.
  Lemma deref_aset_neq hp r r' p : r' <> r -> deref (aset r p hp) r' = deref hp r'.
  Proof. intros Hne. unfold deref. rewrite alookup_aset_neq by exact Hne. reflexivity. Qed.
  Lemma deref_upd_eq hp r f : deref (upd hp r f) r = f (deref hp r).
  Proof. unfold upd. apply deref_aset_eq. Qed.
  Lemma deref_upd_neq hp r r' f : r' <> r -> deref (upd hp r f) r' = deref hp r'.
  Proof. intros Hne. unfold upd. apply deref_aset_neq. exact Hne. Qed.

  Lemma vals_aset hp q n r p : below n q -> (n <= r)%N -> vals (aset r p hp) q = vals hp q.
  Proof.
    intros B Hle. unfold vals. apply map_ext_in. intros e He.
    unfold below in B. rewrite Forall_forall in B. specialize (B e He).
    rewrite deref_aset_neq by lia. reflexivity.
  Qed.
  Lemma vals_upd hp q n r f : below n q -> (n <= r)%N -> vals (upd hp r f) q = vals hp q.
  Proof. intros B Hle. unfold upd. eapply vals_aset; eassumption. Qed.
  Lemma vals_app hp a b : vals hp (a ++ b) = vals hp a ++ vals hp b.
  Proof. unfold vals. apply map_app. Qed.
  Lemma below_mono n m q : below n q -> (n <= m)%N -> below m q.
  Proof. unfold below. intros B Hle. eapply Forall_impl; [|exact B]. intros e He. cbn beta in *. lia. Qed.
  Lemma below_snoc n q k r : below n q -> (r < n)%N -> below n (q ++ [(k, r)]).
  Proof. unfold below. intros B Hr. apply Forall_app. split; [exact B|]. constructor; [exact Hr|constructor]. Qed.

  Lemma hpost_vals hp u g : hpost hp u g = vpost u (vals hp g).
  Proof.
    destruct g as [|[k r] g']; [reflexivity|].
    unfold hpost, vals. cbn [map vpost fst snd]. rewrite map_map. cbn [snd]. reflexivity.
  Qed.

  Lemma flush_posts hp u q :
    map (hpost hp u) (groups (length q) q) = map (vpost u) (groups (length (vals hp q)) (vals hp q)).
  Proof.
    unfold vals at 1. rewrite map_length. unfold vals. rewrite groups_map_snd, map_map.
    apply map_ext. intros g. apply hpost_vals.
  Qed.

  Ltac splitR := unfold R; cbn [h_st h_dec h_up h_pr h_hp h_nxt h_buf v_st v_dec v_up v_pr v_buf]; repeat split.

  Lemma hstep_refines h v o :
    R h v -> R (fst (hstep h o)) (fst (vstep v o)) /\ snd (hstep h o) = snd (vstep v o).
  Proof.
    intros (Est & Edec & Eup & Epr & Bup & Bpr & Ebuf).
    destruct o as [sid tid key ds|b| | |psid ptid pkey pds].
    - (* Arr *)
      cbn [StressRoute.hstep StressRoute.vstep]. rewrite <- Est, <- Edec, <- Ebuf.
      set (r := h_nxt h). set (p0 := mkPay sid tid key ds 0 false false false).
      assert (Hr : (h_nxt h <= r)%N) by (unfold r; lia).
      assert (Hr1 : (h_nxt h <= r + 1)%N) by (unfold r; lia).
      destruct (h_st h) eqn:ST.
      + (* stressed *)
        set (d := match alookup tid (h_dec h) with Some d => d | None => keep_rule tid end).
        destruct d eqn:ED.
        * (* keep *)
          assert (D1 : deref (upd (aset r p0 (h_hp h)) r set_stressed) r = set_stressed p0)
            by (rewrite deref_upd_eq, deref_aset_eq; reflexivity).
          destruct (N.eqb (own tid) 0) eqn:OW; cbn [fst snd].
          -- split; [|reflexivity]. splitR; try reflexivity.
             ++ rewrite vals_app, <- Eup.
                rewrite (vals_upd _ _ _ _ _ Bup Hr1), (vals_aset _ _ _ _ _ Bup Hr1), (vals_upd _ _ _ _ _ Bup Hr), (vals_aset _ _ _ _ _ Bup Hr).
                f_equal. unfold vals. cbn [map fst snd].
                rewrite D1.
                rewrite deref_upd_neq by lia. rewrite deref_aset_neq by lia. rewrite D1. reflexivity.
             ++ rewrite <- Epr.
                rewrite (vals_upd _ _ _ _ _ Bpr Hr1), (vals_aset _ _ _ _ _ Bpr Hr1), (vals_upd _ _ _ _ _ Bpr Hr), (vals_aset _ _ _ _ _ Bpr Hr).
                reflexivity.
             ++ apply below_snoc; [eapply below_mono; [exact Bup|lia]|unfold r; lia].
             ++ eapply below_mono; [exact Bpr|unfold r; lia].
          -- split; [|reflexivity]. splitR; try reflexivity.
             ++ rewrite vals_app, <- Eup.
                rewrite (vals_upd _ _ _ _ _ Bup Hr1), (vals_upd _ _ _ _ _ Bup Hr1), (vals_aset _ _ _ _ _ Bup Hr1), (vals_upd _ _ _ _ _ Bup Hr), (vals_aset _ _ _ _ _ Bup Hr).
                f_equal. unfold vals. cbn [map fst snd].
                rewrite D1.
                rewrite !deref_upd_neq by lia. rewrite deref_aset_neq by lia. rewrite D1. reflexivity.
             ++ rewrite vals_app, <- Epr.
                rewrite (vals_upd _ _ _ _ _ Bpr Hr1), (vals_upd _ _ _ _ _ Bpr Hr1), (vals_aset _ _ _ _ _ Bpr Hr1), (vals_upd _ _ _ _ _ Bpr Hr), (vals_aset _ _ _ _ _ Bpr Hr).
                f_equal. unfold vals. cbn [map fst snd].
                rewrite D1, !deref_upd_eq, deref_aset_eq. reflexivity.
             ++ apply below_snoc; [eapply below_mono; [exact Bup|lia]|unfold r; lia].
             ++ apply below_snoc; [eapply below_mono; [exact Bpr|unfold r; lia]|unfold r; lia].
        * (* drop *)
          cbn [fst snd]. split; [|reflexivity]. splitR; try reflexivity.
          -- rewrite <- Eup. apply (vals_aset _ _ _ _ _ Bup Hr).
          -- rewrite <- Epr. apply (vals_aset _ _ _ _ _ Bpr Hr).
          -- eapply below_mono; [exact Bup|unfold r; lia].
          -- eapply below_mono; [exact Bpr|unfold r; lia].
      + (* not stressed *)
        destruct (N.eqb (own tid) 0) eqn:OW.
        * destruct (mem_N tid (h_buf h)) eqn:MB.
          { cbn [fst snd]. split; [|reflexivity]. splitR; try (symmetry; assumption); try reflexivity; try assumption.
             ++ rewrite <- Eup. apply (vals_aset _ _ _ _ _ Bup Hr).
             ++ rewrite <- Epr. apply (vals_aset _ _ _ _ _ Bpr Hr).
             ++ eapply below_mono; [exact Bup|unfold r; lia].
             ++ eapply below_mono; [exact Bpr|unfold r; lia]. }
          destruct (alookup tid (h_dec h)) as [[|]|] eqn:DEC; cbn [fst snd].
          -- split; [|reflexivity]. splitR; try (symmetry; assumption); try reflexivity; try assumption.
             ++ rewrite vals_app, <- Eup.
                rewrite (vals_upd _ _ _ _ _ Bup Hr), (vals_aset _ _ _ _ _ Bup Hr).
                f_equal. unfold vals. cbn [map fst snd]. rewrite deref_upd_eq, deref_aset_eq. reflexivity.
             ++ rewrite <- Epr. rewrite (vals_upd _ _ _ _ _ Bpr Hr), (vals_aset _ _ _ _ _ Bpr Hr). reflexivity.
             ++ apply below_snoc; [eapply below_mono; [exact Bup|lia]|unfold r; lia].
             ++ eapply below_mono; [exact Bpr|unfold r; lia].
          -- split; [|reflexivity]. splitR; try (symmetry; assumption); try reflexivity; try assumption.
             ++ rewrite <- Eup. apply (vals_aset _ _ _ _ _ Bup Hr).
             ++ rewrite <- Epr. apply (vals_aset _ _ _ _ _ Bpr Hr).
             ++ eapply below_mono; [exact Bup|unfold r; lia].
             ++ eapply below_mono; [exact Bpr|unfold r; lia].
          -- split; [|reflexivity]. splitR; try (symmetry; assumption); try reflexivity; try assumption.
             ++ rewrite <- Eup. apply (vals_aset _ _ _ _ _ Bup Hr).
             ++ rewrite <- Epr. apply (vals_aset _ _ _ _ _ Bpr Hr).
             ++ eapply below_mono; [exact Bup|unfold r; lia].
             ++ eapply below_mono; [exact Bpr|unfold r; lia].
        * cbn [fst snd]. split; [|reflexivity]. splitR; try reflexivity.
          -- rewrite <- Eup. rewrite (vals_upd _ _ _ _ _ Bup Hr), (vals_aset _ _ _ _ _ Bup Hr). reflexivity.
          -- rewrite vals_app, <- Epr.
             rewrite (vals_upd _ _ _ _ _ Bpr Hr), (vals_aset _ _ _ _ _ Bpr Hr).
             f_equal. unfold vals. cbn [map fst snd]. rewrite deref_upd_eq, deref_aset_eq. reflexivity.
          -- eapply below_mono; [exact Bup|unfold r; lia].
          -- apply below_snoc; [eapply below_mono; [exact Bpr|lia]|unfold r; lia].
    - (* Stress *)
      cbn [StressRoute.hstep StressRoute.vstep fst snd]. split; [|reflexivity]. splitR; assumption || reflexivity.
    - (* FlushUp *)
      cbn [StressRoute.hstep StressRoute.vstep fst snd]. split.
      + splitR; try assumption; try reflexivity. constructor.
      + rewrite <- Eup. apply flush_posts.
    - (* FlushPeer *)
      cbn [StressRoute.hstep StressRoute.vstep fst snd]. split.
      + splitR; try assumption; try reflexivity. constructor.
      + rewrite <- Epr. apply flush_posts.
    - (* Probe *)
      cbn [StressRoute.hstep StressRoute.vstep fst snd]. split; [|reflexivity]. splitR; assumption.
  Qed.

  Lemma R_init : R (hinit) (vinit).
  Proof. unfold R, hinit, vinit, vals, below. cbn. repeat split; constructor. Qed.

  Lemma hrun_refines : forall ops h v, R h v -> snd (hrun h ops) = snd (vrun v ops).
  Proof.
    induction ops as [|o r IH]; intros h v HR; [reflexivity|].
    cbn [StressRoute.hrun StressRoute.vrun].
    destruct (hstep_refines h v o HR) as [HR1 Eo].
    destruct (hstep h o) as [h1 o1]. destruct (vstep v o) as [v1 o1']. cbn [fst snd] in *. subst o1'.
    specialize (IH h1 v1 HR1).
    destruct (hrun h1 r) as [h2 o2]. destruct (vrun v1 r) as [v2 o2']. cbn [snd] in *. subst o2'. reflexivity.
  Qed.

  Lemma copy_refines_values ops : snd (hrun hinit ops) = snd (vrun vinit ops).
  Proof. apply hrun_refines. apply R_init. Qed.

  (* ================= properties of the value machine ================= *)
  Definition Rel (v : vstate) (st : bool) (seen buf : list N) : Prop :=
    v_st v = st /\ v_buf v = buf /\
    forall tid, alookup tid (v_dec v) = if mem_N tid seen then Some (keep_rule tid) else None.

  Lemma posted_vpost u u' g : posted u' (vpost u g) = if Bool.eqb u u' then map snd g else [].
  Proof. destruct g as [|[k p] g']; cbn [vpost posted map]; destruct (Bool.eqb u u'); reflexivity. Qed.

  Lemma all_posted_flush u u' (q : list (bkey * pay)) :
    Permutation (all_posted u' (map (vpost u) (groups (length q) q))) (if Bool.eqb u u' then map snd q else []).
  Proof.
    unfold all_posted. rewrite flat_map_concat_map, map_map.
    destruct (Bool.eqb u u') eqn:E.
    - erewrite map_ext; [|intros g; rewrite posted_vpost, E; reflexivity].
      rewrite <- concat_map. apply Permutation_map. apply groups_perm. constructor.
    - erewrite map_ext; [|intros g; rewrite posted_vpost, E; reflexivity].
      induction (groups (length q) q) as [|g gs IH]; cbn [map concat app]; [constructor|exact IH].
  Qed.

  Lemma all_posted_app u a b : all_posted u (a ++ b) = all_posted u a ++ all_posted u b.
  Proof. unfold all_posted. apply flat_map_app. Qed.

  Lemma events_app a b : events (a ++ b) = events a ++ events b.
  Proof. unfold events. apply filter_app. Qed.

  Lemma events_posts u (gs : list (list (bkey * pay))) : events (map (vpost u) gs) = [].
  Proof.
    induction gs as [|g r IH]; [reflexivity|]. cbn [map]. unfold events in *. cbn [filter].
    destruct g as [|[k p] g']; cbn [vpost is_post negb]; exact IH.
  Qed.

  (* one step against the specification *)
  Definition seen_after (st : bool) (seen : list N) (o : op) : list N :=
    match o with Arr _ tid _ _ => if st then tid :: seen else seen | _ => seen end.
  Definition st_after (st : bool) (o : op) : bool := match o with Stress b => b | _ => st end.
  Definition bf_after (st : bool) (seen buf : list N) (o : op) : list N :=
    match o with Arr _ tid _ _ => buf_after own st seen buf tid | _ => buf end.
  Definition step_up (st : bool) (seen buf : list N) (o : op) : list pay :=
    match o with Arr sid tid key ds => expect_up (fate_of st seen buf tid) sid tid key ds | _ => [] end.
  Definition step_pr (st : bool) (seen buf : list N) (o : op) : list pay :=
    match o with Arr sid tid key ds => expect_pr own (fate_of st seen buf tid) sid tid key ds | _ => [] end.
  Definition step_ev (st : bool) (seen buf : list N) (o : op) : list out :=
    match o with Arr sid tid key ds => expect_ev (fate_of st seen buf tid) sid | _ => [] end.

  Lemma spec_up_cons st seen buf o r : spec_up st seen buf (o :: r) =
    step_up st seen buf o ++ spec_up (st_after st o) (seen_after st seen o) (bf_after st seen buf o) r.
  Proof. destruct o; reflexivity. Qed.
  Lemma spec_pr_cons st seen buf o r : spec_pr st seen buf (o :: r) =
    step_pr st seen buf o ++ spec_pr (st_after st o) (seen_after st seen o) (bf_after st seen buf o) r.
  Proof. destruct o; reflexivity. Qed.
  Lemma spec_ev_cons st seen buf o r : spec_ev st seen buf (o :: r) =
    step_ev st seen buf o ++ spec_ev (st_after st o) (seen_after st seen o) (bf_after st seen buf o) r.
  Proof. destruct o; reflexivity. Qed.

  Lemma Rel_record v seen buf tid :
    Rel v true seen buf ->
    forall t, alookup t (match alookup tid (v_dec v) with
                         | Some _ => v_dec v
                         | None => aset tid (match alookup tid (v_dec v) with Some d => d | None => keep_rule tid end) (v_dec v)
                         end) =
              if mem_N t (tid :: seen) then Some (keep_rule t) else None.
  Proof.
    intros [_ [_ Hd]] t. cbn [mem_N].
    pose proof (Hd tid) as Ht.
    destruct (N.eqb t tid) eqn:E.
    - apply N.eqb_eq in E. subst t. cbn [orb].
      destruct (alookup tid (v_dec v)) as [d|] eqn:L.
      + rewrite L. destruct (mem_N tid seen); [exact Ht|discriminate].
      + rewrite alookup_aset_eq. reflexivity.
    - apply N.eqb_neq in E. cbn [orb].
      destruct (alookup tid (v_dec v)) as [d|] eqn:L; [apply Hd|].
      rewrite alookup_aset_neq by exact E. apply Hd.
  Qed.

  Lemma Rel_decision v seen buf tid :
    Rel v true seen buf -> match alookup tid (v_dec v) with Some d => d | None => keep_rule tid end = keep_rule tid.
  Proof.
    intros [_ [_ Hd]]. rewrite (Hd tid). destruct (mem_N tid seen); reflexivity.
  Qed.

  Lemma vstep_spec v st seen buf o :
    Rel v st seen buf ->
    let v1 := fst (vstep v o) in let o1 := snd (vstep v o) in
    Rel v1 (st_after st o) (seen_after st seen o) (bf_after st seen buf o) /\
    Permutation (all_posted true o1 ++ map snd (v_up v1)) (map snd (v_up v) ++ step_up st seen buf o) /\
    Permutation (all_posted false o1 ++ map snd (v_pr v1)) (map snd (v_pr v) ++ step_pr st seen buf o) /\
    events o1 = step_ev st seen buf o.
  Proof.
    intros HR. pose proof HR as [Est [Ebuf Hd]]. cbv zeta.
    destruct o as [sid tid key ds|b| | |psid ptid pkey pds].
    - cbn [StressRoute.vstep st_after seen_after bf_after step_up step_pr step_ev]. unfold StressRoute.fate_of, StressRoute.buf_after.
      rewrite Est, Ebuf. destruct st.
      + (* stressed *)
        assert (HR' : Rel v true seen buf) by exact HR.
        rewrite (Rel_decision v seen buf tid HR').
        pose proof (Rel_record v seen buf tid HR') as Hrec. rewrite (Rel_decision v seen buf tid HR') in Hrec.
        destruct (keep_rule tid) eqn:K.
        * destruct (N.eqb (own tid) 0) eqn:OW; cbn [fst snd v_st v_dec v_up v_pr v_buf all_posted flat_map app expect_up expect_pr expect_ev events filter].
          -- rewrite OW. unfold Rel. cbn [v_st v_dec v_buf]. repeat split; try assumption; try reflexivity.
             ++ rewrite map_app. cbn [map snd]. apply Permutation_refl.
             ++ rewrite app_nil_r. apply Permutation_refl.
          -- rewrite OW. unfold Rel. cbn [v_st v_dec v_buf]. repeat split; try assumption; try reflexivity.
             ++ rewrite map_app. cbn [map snd]. apply Permutation_refl.
             ++ rewrite map_app. cbn [map snd]. apply Permutation_refl.
        * cbn [fst snd v_st v_dec v_up v_pr v_buf all_posted flat_map posted app expect_up expect_pr expect_ev events filter is_post negb].
          unfold Rel. cbn [v_st v_dec v_buf].
          repeat split; try assumption; try reflexivity; rewrite app_nil_r; apply Permutation_refl.
      + (* not stressed *)
        destruct (N.eqb (own tid) 0) eqn:OW.
        * destruct (mem_N tid buf) eqn:MB.
          { cbn [fst snd v_st v_dec v_up v_pr v_buf all_posted flat_map posted app expect_up expect_pr expect_ev events filter is_post negb].
            repeat split; try assumption; try reflexivity; rewrite app_nil_r; apply Permutation_refl. }
          rewrite (Hd tid). destruct (mem_N tid seen) eqn:M.
          -- destruct (keep_rule tid) eqn:K; cbn [fst snd v_st v_dec v_up v_pr v_buf all_posted flat_map posted app expect_up expect_pr expect_ev events filter is_post negb].
             ++ unfold Rel. cbn [v_st v_dec v_buf]. repeat split; try assumption; try reflexivity.
                ** rewrite map_app. cbn [map snd]. apply Permutation_refl.
                ** rewrite app_nil_r. apply Permutation_refl.
             ++ repeat split; try assumption; try reflexivity; rewrite app_nil_r; apply Permutation_refl.
          -- cbn [fst snd v_st v_dec v_up v_pr v_buf all_posted flat_map posted app expect_up expect_pr expect_ev events filter is_post negb].
             unfold Rel. cbn [v_st v_dec v_buf].
             repeat split; try assumption; try reflexivity; try (rewrite Ebuf; reflexivity); rewrite app_nil_r; apply Permutation_refl.
        * cbn [fst snd v_st v_dec v_up v_pr v_buf all_posted flat_map posted app expect_up expect_pr expect_ev events filter is_post negb].
          unfold Rel. cbn [v_st v_dec v_buf].
          repeat split; try assumption; try reflexivity.
          -- rewrite app_nil_r. apply Permutation_refl.
          -- rewrite map_app. cbn [map snd]. apply Permutation_refl.
    - cbn [StressRoute.vstep st_after seen_after bf_after step_up step_pr step_ev fst snd v_st v_dec v_up v_pr v_buf all_posted flat_map app events filter].
      unfold Rel. cbn [v_st v_dec v_buf].
      repeat split; try assumption; try reflexivity; rewrite app_nil_r; apply Permutation_refl.
    - cbn [StressRoute.vstep st_after seen_after bf_after step_up step_pr step_ev fst snd v_st v_dec v_up v_pr v_buf map].
      unfold Rel. cbn [v_st v_dec v_buf].
      repeat split; try assumption.
      + rewrite !app_nil_r. apply (all_posted_flush true true).
      + cbn [app]. rewrite app_nil_r. eapply Permutation_trans; [apply Permutation_app_tail; apply (all_posted_flush true false)|]. apply Permutation_refl.
      + apply events_posts.
    - cbn [StressRoute.vstep st_after seen_after bf_after step_up step_pr step_ev fst snd v_st v_dec v_up v_pr v_buf map].
      unfold Rel. cbn [v_st v_dec v_buf].
      repeat split; try assumption.
      + cbn [app]. rewrite app_nil_r. eapply Permutation_trans; [apply Permutation_app_tail; apply (all_posted_flush false true)|]. apply Permutation_refl.
      + rewrite !app_nil_r. apply (all_posted_flush false false).
      + apply events_posts.
    - cbn [StressRoute.vstep st_after seen_after bf_after step_up step_pr step_ev fst snd all_posted flat_map app events filter].
      repeat split; try assumption; try reflexivity; rewrite app_nil_r; apply Permutation_refl.
  Qed.

  Lemma vrun_spec : forall ops v st seen buf,
    Rel v st seen buf ->
    let v' := fst (vrun v ops) in let outs := snd (vrun v ops) in
    Permutation (all_posted true outs ++ map snd (v_up v')) (map snd (v_up v) ++ spec_up st seen buf ops) /\
    Permutation (all_posted false outs ++ map snd (v_pr v')) (map snd (v_pr v) ++ spec_pr st seen buf ops) /\
    events outs = spec_ev st seen buf ops.
  Proof.
    induction ops as [|o r IH]; intros v st seen buf HR; cbv zeta.
    - cbn [StressRoute.vrun fst snd all_posted flat_map app StressRoute.spec_up StressRoute.spec_pr StressRoute.spec_ev events filter].
      rewrite !app_nil_r. repeat split; apply Permutation_refl.
    - cbn [StressRoute.vrun].
      pose proof (vstep_spec v st seen buf o HR) as S. cbv zeta in S.
      destruct (vstep v o) as [v1 o1]. cbn [fst snd] in S. destruct S as (HR1 & Pu & Pp & Ev).
      specialize (IH v1 _ _ _ HR1). cbv zeta in IH.
      destruct (vrun v1 r) as [v2 o2]. cbn [fst snd] in *. destruct IH as (Pu2 & Pp2 & Ev2).
      rewrite spec_up_cons, spec_pr_cons, spec_ev_cons, !all_posted_app, events_app.
      split; [|split].
      + rewrite <- app_assoc.
        eapply Permutation_trans; [apply Permutation_app_head; exact Pu2|].
        rewrite !app_assoc. apply Permutation_app_tail. exact Pu.
      + rewrite <- app_assoc.
        eapply Permutation_trans; [apply Permutation_app_head; exact Pp2|].
        rewrite !app_assoc. apply Permutation_app_tail. exact Pp.
      + rewrite Ev, Ev2. reflexivity.
  Qed.

  Lemma Rel_init : Rel vinit false [] [].
  Proof. repeat split; reflexivity. Qed.

  (* spec functions ignore flushes *)
  Lemma spec_up_flush st seen buf ops : spec_up st seen buf (ops ++ [FlushUp; FlushPeer]) = spec_up st seen buf ops.
  Proof.
    revert st seen buf. induction ops as [|o r IH]; intros st seen buf; [reflexivity|].
    rewrite <- app_comm_cons, !spec_up_cons, IH. reflexivity.
  Qed.
  Lemma spec_pr_flush st seen buf ops : spec_pr st seen buf (ops ++ [FlushUp; FlushPeer]) = spec_pr st seen buf ops.
  Proof.
    revert st seen buf. induction ops as [|o r IH]; intros st seen buf; [reflexivity|].
    rewrite <- app_comm_cons, !spec_pr_cons, IH. reflexivity.
  Qed.
  Lemma spec_ev_flush st seen buf ops : spec_ev st seen buf (ops ++ [FlushUp; FlushPeer]) = spec_ev st seen buf ops.
  Proof.
    revert st seen buf. induction ops as [|o r IH]; intros st seen buf; [reflexivity|].
    rewrite <- app_comm_cons, !spec_ev_cons, IH. reflexivity.
  Qed.

  Lemma vrun_app : forall a b v, vrun v (a ++ b) =
    let '(v1, o1) := vrun v a in let '(v2, o2) := vrun v1 b in (v2, o1 ++ o2).
  Proof.
    induction a as [|o r IH]; intros b v.
    - cbn [app StressRoute.vrun]. destruct (vrun v b). reflexivity.
    - cbn [app StressRoute.vrun]. destruct (vstep v o) as [v1 o1]. rewrite IH.
      destruct (vrun v1 r) as [v2 o2]. destruct (vrun v2 b) as [v3 o3]. rewrite app_assoc. reflexivity.
  Qed.

  Lemma final_queues_empty v ops :
    v_up (fst (vrun v (ops ++ [FlushUp; FlushPeer]))) = [] /\ v_pr (fst (vrun v (ops ++ [FlushUp; FlushPeer]))) = [].
  Proof.
    rewrite vrun_app. destruct (vrun v ops) as [v1 o1]. cbn [StressRoute.vrun StressRoute.vstep fst v_up v_pr]. split; reflexivity.
  Qed.

  (* ----- the delivered multisets, from the initial state, after the final dispatch ----- *)
  Theorem delivered_exactly ops :
    let outs := snd (hrun hinit (ops ++ [FlushUp; FlushPeer])) in
    Permutation (all_posted true outs) (spec_up false [] [] ops) /\
    Permutation (all_posted false outs) (spec_pr false [] [] ops) /\
    events outs = spec_ev false [] [] ops.
  Proof.
    cbv zeta. rewrite copy_refines_values.
    pose proof (vrun_spec (ops ++ [FlushUp; FlushPeer]) vinit false [] [] Rel_init) as S. cbv zeta in S.
    destruct (final_queues_empty vinit ops) as [Eu Ep].
    rewrite Eu, Ep, spec_up_flush, spec_pr_flush, spec_ev_flush in S.
    cbn [map vinit v_up v_pr app] in S. rewrite !app_nil_r in S. exact S.
  Qed.

  (* ----- every upstream request is addressed to Honeycomb and carries only intact, non-probe events ----- *)
  Definition intact (e : bkey * pay) : Prop :=
    fst e = key_of (snd e) /\ p_probe (snd e) = false /\ p_host (snd e) = 0%N.

  Definition post_ok (o : out) : Prop :=
    match o with
    | Post true h k d evs => h = 0%N /\ Forall (fun p => p_probe p = false /\ p_host p = 0%N /\ p_key p = k /\ p_ds p = d) evs
    | _ => True
    end.

  Lemma vpost_ok g : (exists k x rest, g = (k, x) :: rest /\ Forall (fun e => fst e = k) rest) ->
    Forall intact g -> post_ok (vpost true g).
  Proof.
    intros (k & x & rest & -> & Fk) Fi. cbn [vpost post_ok].
    inversion Fi as [|? ? [Kx [Px Hx]] Fr]; subst. cbn [fst snd] in *.
    split; [exact Hx|].
    assert (Kk : k = (0%N, p_key x, p_ds x)) by (rewrite Kx; unfold key_of; rewrite Hx; reflexivity).
    cbn [map snd]. constructor.
    - repeat split; assumption.
    - rewrite Forall_forall in *. intros p Hp. apply in_map_iff in Hp. destruct Hp as [e [<- He]].
      specialize (Fk e He). specialize (Fr e He). destruct Fr as [Ke [Pe Hoste]].
      rewrite Ke in Fk. unfold key_of in Fk. rewrite Kk in Fk. injection Fk as _ E2 E3.
      repeat split; assumption.
  Qed.

  Lemma vstep_intact v o : Forall intact (v_up v) ->
    Forall intact (v_up (fst (vstep v o))) /\ Forall post_ok (snd (vstep v o)).
  Proof.
    intros F. destruct o as [sid tid key ds|b| | |psid ptid pkey pds]; cbn [StressRoute.vstep].
    - destruct (v_st v).
      + destruct (match alookup tid (v_dec v) with Some d => d | None => keep_rule tid end).
        * destruct (N.eqb (own tid) 0); cbn [fst snd v_up]; (split; [|constructor]);
            (apply Forall_app; split; [exact F|constructor; [|constructor]]); repeat split; reflexivity.
        * cbn [fst snd v_up]. split; [exact F|constructor; [exact I|constructor]].
      + destruct (N.eqb (own tid) 0).
        * destruct (mem_N tid (v_buf v)); [cbn [fst snd v_up]; split; [exact F|constructor; [exact I|constructor]]|].
          destruct (alookup tid (v_dec v)) as [[|]|]; cbn [fst snd v_up].
          -- split; [|constructor]. apply Forall_app; split; [exact F|constructor; [|constructor]]. repeat split; reflexivity.
          -- split; [exact F|constructor; [exact I|constructor]].
          -- split; [exact F|constructor; [exact I|constructor]].
        * cbn [fst snd v_up]. split; [exact F|constructor].
    - cbn [fst snd v_up]. split; [exact F|constructor].
    - cbn [fst snd v_up]. split; [constructor|].
      rewrite Forall_forall. intros o Ho. apply in_map_iff in Ho. destruct Ho as [g [<- Hg]].
      apply vpost_ok; [eapply groups_keyed; exact Hg|].
      rewrite Forall_forall in *. intros e He. apply F.
      eapply Permutation_in; [apply (groups_perm (length (v_up v)) (v_up v)); constructor|].
      apply in_concat. exists g. split; assumption.
    - cbn [fst snd v_up]. split; [exact F|].
      rewrite Forall_forall. intros o Ho. apply in_map_iff in Ho. destruct Ho as [g [<- Hg]].
      destruct g as [|[k p] g']; exact I.
    - cbn [fst snd]. split; [exact F|constructor].
  Qed.

  Lemma vrun_intact : forall ops v, Forall intact (v_up v) -> Forall post_ok (snd (vrun v ops)).
  Proof.
    induction ops as [|o r IH]; intros v F; cbn [StressRoute.vrun]; [constructor|].
    destruct (vstep_intact v o F) as [F1 P1]. destruct (vstep v o) as [v1 o1]. cbn [fst snd] in *.
    specialize (IH v1 F1). destruct (vrun v1 r) as [v2 o2]. cbn [snd] in *. apply Forall_app. split; assumption.
  Qed.

  Theorem upstream_posts_intact ops o : In o (snd (hrun hinit ops)) -> post_ok o.
  Proof.
    rewrite copy_refines_values. intros Hin.
    pose proof (vrun_intact ops vinit (Forall_nil _)) as F. rewrite Forall_forall in F. apply F. exact Hin.
  Qed.

  (* ----- the specification lists every span at most once ----- *)
  Fixpoint arr_sids (ops : list op) : list N :=
    match ops with [] => [] | Arr sid _ _ _ :: r => sid :: arr_sids r | _ :: r => arr_sids r end.

  Lemma spec_up_sids_sub : forall ops st seen buf x, In x (map p_sid (spec_up st seen buf ops)) -> In x (arr_sids ops).
  Proof.
    induction ops as [|o r IH]; intros st seen buf x Hin; [destruct Hin|].
    rewrite spec_up_cons, map_app in Hin. apply in_app_or in Hin.
    destruct o as [sid tid key ds|b| | |psid ptid pkey pds]; cbn [arr_sids step_up] in *.
    - destruct Hin as [Hin|Hin]; [|right; eapply IH; exact Hin].
      destruct (fate_of st seen buf tid); cbn in Hin; try destruct Hin as [<-|[]]; try contradiction; left; reflexivity.
    - destruct Hin as [[]|Hin]. eapply IH; exact Hin.
    - destruct Hin as [[]|Hin]. eapply IH; exact Hin.
    - destruct Hin as [[]|Hin]. eapply IH; exact Hin.
    - destruct Hin as [[]|Hin]. eapply IH; exact Hin.
  Qed.

  Theorem spec_up_nodup : forall ops st seen buf, NoDup (arr_sids ops) -> NoDup (map p_sid (spec_up st seen buf ops)).
  Proof.
    induction ops as [|o r IH]; intros st seen buf ND; [constructor|].
    rewrite spec_up_cons, map_app.
    destruct o as [sid tid key ds|b| | |psid ptid pkey pds]; cbn [arr_sids step_up] in *; try (cbn [map app]; apply IH; exact ND).
    inversion ND as [|? ? Hnot ND']; subst.
    destruct (fate_of st seen buf tid); cbn [expect_up map app]; try (apply IH; exact ND').
    - constructor; [|apply IH; exact ND']. intros Hin. apply Hnot. eapply spec_up_sids_sub. exact Hin.
    - constructor; [|apply IH; exact ND']. intros Hin. apply Hnot. eapply spec_up_sids_sub. exact Hin.
  Qed.
End Proofs.

(* ================= the aliasing variant violates the property ================= *)
Definition wit_own (tid : N) : N := if N.eqb tid 1 then 1%N else 0%N.   (* trace 1 belongs to peer 1, the rest are ours *)
Definition wit_rule (tid : N) : bool := true.
Definition wit_ops : list op := [Stress true; Arr 10 1 7 3; Arr 11 2 7 3; FlushUp; FlushPeer].

Lemma alias_refuted :
  snd (hrun wit_own wit_rule true hinit wit_ops) =
    [ Post true 1 7 3 [ mkPay 10 1 7 3 1 true true false; mkPay 11 2 7 3 0 true true false ];
      Post false 1 7 3 [ mkPay 10 1 7 3 1 true true false ] ] /\
  snd (hrun wit_own wit_rule false hinit wit_ops) =
    [ Post true 0 7 3 [ mkPay 10 1 7 3 0 false true false; mkPay 11 2 7 3 0 false true false ];
      Post false 1 7 3 [ mkPay 10 1 7 3 1 true true false ] ].
Proof. vm_compute. split; reflexivity. Qed.

(* ---------- the source constructs the model mirrors are present (regenerated from the repo) ---------- *)
From Refinery Require Import Gen.GenC16.
Lemma source_shape_c16 :
  probe_is_copy && probe_marked_in_process_event && probe_discarded_on_receipt && forward_overwrites_apihost &&
  rule_is_hash_le_bound && rate_le_1_keeps_all && bound_is_max_div_rate && kept_span_marked_stressed &&
  stress_decision_recorded && batch_destination_read_at_send_time && batch_key_computed_at_enqueue = true.
Proof. reflexivity. Qed.
