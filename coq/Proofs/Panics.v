(* Proofs for Model/Panics.v and the disposition table of the regenerated inventory. *)
From Refinery Require Import Lib.Base Model.Panics Gen.GenC28 Model.PanicFacts.
From Coq Require Import ZifyN ZifyNat ZifyBool.

Definition queue_sizes_validated_nonnegative : bool := queue_peer_nonneg && queue_incoming_nonneg.
Definition rates_clamped : bool := rate_clamped_0 && rate_clamped_1 && rate_clamped_2 && rate_clamped_3 && rate_clamped_4.

(* ---------- GetKeyFields never panics once the loop skips empty names ---------- *)
Lemma head_of_nonempty s : s <> EmptyString -> exists a, head_of s = Some a.
Proof. destruct s as [|a r]; [congruence|]. intros _. exists a. reflexivity. Qed.

Lemma kf_loop_guarded rp cp : rp <> EmptyString -> cp <> EmptyString ->
  forall fields root nonroot, kf_loop rp cp true fields root nonroot <> None.
Proof.
  intros Hrp Hcp. destruct (head_of_nonempty rp Hrp) as [rc Erc]. destruct (head_of_nonempty cp Hcp) as [cc Ecc].
  induction fields as [|f r IH]; intros root nonroot; cbn [kf_loop]; [discriminate|].
  cbn [andb]. destruct (String.eqb f EmptyString) eqn:E; [apply IH|].
  apply String.eqb_neq in E. destruct (head_of_nonempty f E) as [a Ea]. rewrite Ea, Erc, Ecc.
  destruct (Ascii.eqb a rc && String.prefix rp f); [apply IH|].
  destruct (Ascii.eqb a cc && String.prefix cp f); apply IH.
Qed.

Lemma key_fields_guarded rp cp : rp <> EmptyString -> cp <> EmptyString ->
  forall fields, key_fields rp cp true fields <> None.
Proof.
  intros Hrp Hcp fields. unfold key_fields. destruct fields as [|f r]; [discriminate|].
  pose proof (kf_loop_guarded rp cp Hrp Hcp (f :: r) [] []) as H.
  destruct (kf_loop rp cp true (f :: r) [] []) as [[root nonroot]|]; [|congruence].
  destruct root, nonroot; discriminate.
Qed.

Lemma key_fields_gen_safe : forall fields, key_fields root_prefix computed_prefix key_fields_skips_empty fields <> None.
Proof. apply key_fields_guarded; discriminate. Qed.

(* the pinned tree: an empty name panics *)
Lemma key_fields_unguarded_refuted : key_fields "root." "?." false ["a"; ""]%string = None.
Proof. reflexivity. Qed.

(* ---------- DeterministicSampler.Start never divides by zero with the guard ---------- *)
Lemma det_upper_bound_guarded rate : det_upper_bound true rate <> None.
Proof.
  unfold det_upper_bound. destruct (max_u32 <? rate mod two64); [discriminate|].
  destruct (1 <? rate); discriminate.
Qed.

Lemma det_upper_bound_gen_safe rate : det_upper_bound det_start_guards_rate rate <> None.
Proof. apply det_upper_bound_guarded. Qed.

Lemma det_decide_gen_safe rate v : det_decide det_start_guards_rate rate v <> None.
Proof.
  unfold det_decide. pose proof (det_upper_bound_gen_safe rate) as H.
  destruct (det_upper_bound det_start_guards_rate rate); [|congruence]. destruct (rate <=? 1); discriminate.
Qed.

(* the guard does not change the bound for the rates the old code handled *)
Lemma det_upper_bound_same rate : 1 < rate <= max_u32 -> det_upper_bound true rate = det_upper_bound false rate.
Proof.
  intros [H1 H2]. unfold det_upper_bound, max_u32, two64, two32 in *.
  rewrite (Z.mod_small rate 18446744073709551616) by lia.
  rewrite (Z.mod_small rate 4294967296) by lia.
  destruct (4294967295 <? rate) eqn:E1; [lia|].
  destruct (1 <? rate) eqn:E2; [|lia].
  destruct (rate =? 0) eqn:E3; [lia|reflexivity].
Qed.

(* the pinned tree: every multiple of 2^32 (validation only asks for >= 1) divides by zero *)
Lemma det_upper_bound_unguarded_refuted : forall k, det_upper_bound false (k * two32) = None.
Proof.
  intros k. unfold det_upper_bound. rewrite Z.mod_mul by (unfold two32; lia). reflexivity.
Qed.

(* ---------- guard arithmetic of the remaining index / slice sites (lengths and indices as Z) ---------- *)
(* a[lo:hi] needs 0 <= lo <= hi <= len ; a[i] needs 0 <= i < len *)
Definition slice_ok (len lo hi : Z) : Prop := 0 <= lo <= hi /\ hi <= len.
Definition index_ok (len i : Z) : Prop := 0 <= i < len.

(* IsLegacyAPIKey: inside `case 64` *)
Lemma legacy_key_64 len : len = 64 ->
  slice_ok len 0 2 /\ slice_ok len 3 6 /\ index_ok len 2 /\ (forall i, 6 <= i < len -> index_ok len i).
Proof. intros ->. unfold slice_ok, index_ok. repeat split; lia. Qed.
(* inside `case 32`: for i := 0; i < keyLen; i++ *)
Lemma legacy_key_32 len : len = 32 -> forall i, 0 <= i < len -> index_ok len i.
Proof. intros -> i H. exact H. Qed.
(* getEventTime: inside `len(etHeader) > 10` *)
Lemma event_time_slices len : 10 < len -> slice_ok len 0 10 /\ slice_ok len 10 len.
Proof. unfold slice_ok. lia. Qed.
(* DeterministicSampler.GetSampleRate: sum is a [20]byte *)
Lemma sha1_prefix : slice_ok 20 0 4.
Proof. unfold slice_ok. lia. Qed.
(* unmarshalStressReliefMessage: len(msg) >= 2 and separatorIdx = IndexRune(...) <> -1 *)
Lemma stress_message_slices len sep : 2 <= len -> 0 <= sep < len -> slice_ok len 0 sep /\ slice_ok len (sep + 1) len.
Proof. unfold slice_ok. lia. Qed.
(* peerCommand.unmarshal: len(msg) >= 2, idx = Index(msg, ",") <> -1, and the action byte msg[0] is 'R' or 'U'
   (so idx >= 1); msgData = msg[1:] has length len - 1 *)
Lemma peer_command_slices len idx : 2 <= len -> 1 <= idx < len ->
  slice_ok len 0 1 /\ slice_ok len 1 len /\ slice_ok (len - 1) 0 (idx - 1) /\ slice_ok (len - 1) idx (len - 1).
Proof. unfold slice_ok. lia. Qed.
(* hash % n and x / n with n = number of workers = max(..., 1) *)
Lemma worker_index n h : 1 <= n -> 0 <= h -> index_ok n (h mod n).
Proof. intros Hn Hh. unfold index_ok. apply Z.mod_pos_bound. lia. Qed.

(* ---------- the disposition of every inventoried site ---------- *)
Local Open Scope string_scope.
Definition dispositions : list (site * list (list string) * disp) := [
  (("CollectionConfig.GetIncomingQueueSizePerWorker", "div", "(c.IncomingQueueSize + numWorkers - 1) / numWorkers"), [], DCallerGuard "numWorkers = GetWorkerCount() = max(num, 1)");
  (("CollectionConfig.GetPeerQueueSizePerWorker", "div", "(c.PeerQueueSize + numWorkers - 1) / numWorkers"), [], DCallerGuard "numWorkers = GetWorkerCount() = max(num, 1)");
  (("GetKeyFields", "index", "_[0]"), [["field != """""]], DFixed "key_fields_gen_safe");
  (("GetKeyFields", "slice", "_[len(RootPrefix):]"), [["strings.HasPrefix(field, RootPrefix)"]], DProved "key_fields_gen_safe (under strings.HasPrefix(field, RootPrefix))");
  (("IsLegacyAPIKey", "index", "_[2]"), [["keyLen in [64]"]], DProved "legacy_key_64");
  (("IsLegacyAPIKey", "index", "_[i]"), [["i < keyLen"]], DProved "legacy_key_32 / legacy_key_64");
  (("IsLegacyAPIKey", "slice", "_[3:6]"), [["keyLen in [64]"]], DProved "legacy_key_64");
  (("IsLegacyAPIKey", "slice", "_[:2]"), [["keyLen in [64]"]], DProved "legacy_key_64");
  (("MemorySize.MarshalText", "fdiv", "float64(m) / float64(size)"), [], DFloat);
  (("Metadata.Validate", "exit", "panic"), [], DMetadata "unknown pattern / validation type named in the embedded configMeta.yaml");
  (("NewCmdEnvOptions", "exit", "os.Exit"), [], DStartup "--help");
  (("NewConfig", "exit", "os.Exit"), [], DStartup "--WriteConfig / --WriteRules dump-and-exit modes");
  (("SampleCacheConfig.GetDroppedSizePerWorker", "div", "(s.DroppedSize + s.WorkerCount - 1) / max(s.WorkerCount, 1)"), [], DCallerGuard "max(_, 1) on the same line");
  (("SampleCacheConfig.GetKeptSizePerWorker", "div", "(s.KeptSize + s.WorkerCount - 1) / max(s.WorkerCount, 1)"), [], DCallerGuard "max(_, 1) on the same line");
  (("Validation.GetArgAsStringSlice", "exit", "panic"), [], DMetadata "validation argument of the embedded metadata has the wrong shape");
  (("asFloat", "fdiv", "float64(f) / float64(time.Millisecond)"), [], DFloat);
  (("mustFloat", "exit", "panic"), [], DMetadata "only applied to validation.Arg of the embedded metadata");
  (("validateDatatype", "exit", "panic"), [], DMetadata "unknown data type named in the embedded metadata");
  (("DeterministicSampler.GetSampleRate", "slice", "_[:4]"), [], DProved "sha1_prefix");
  (("DeterministicSampler.Start", "div", "math.MaxUint32 / uint32(d.sampleRate)"), [["d.sampleRate > 1"]; ["uint64(d.sampleRate) <= math.MaxUint32"]], DFixed "det_upper_bound_gen_safe");
  (("DynamicSampler.GetSampleRate", "intn", "rand.Intn(int(rate))"), [], DFixed "sampler_draw_gen_safe");
  (("EMADynamicSampler.GetSampleRate", "intn", "rand.Intn(int(rate))"), [], DFixed "sampler_draw_gen_safe");
  (("EMAThroughputSampler.GetSampleRate", "intn", "rand.Intn(int(rate))"), [], DFixed "sampler_draw_gen_safe");
  (("RulesBasedSampler.GetSampleRate", "intn", "rand.Intn(rule.SampleRate)"), [["rule.SampleRate > 0"]], DProved "rules_draw_gen_safe (guard `rule.SampleRate > 0` extracted as rules_draw_guarded)");
  (("SamplerFactory.GetDownstreamSampler", "exit", "os.Exit"), [], DStartup "unknown sampler type: the Go type switch over the config structs is exhaustive for parsed rules");
  (("SamplerFactory.createSamplerIn", "exit", "os.Exit"), [], DStartup "unknown sampler type: the Go type switch over the config structs is exhaustive for parsed rules");
  (("SamplerFactory.updatePeerCounts", "div", "cfg / s.peerCount"), [], DCallerGuard "peerCount starts at 1 and is only overwritten by len(peers) > 0");
  (("TotalThroughputSampler.GetSampleRate", "intn", "rand.Intn(int(rate))"), [], DFixed "sampler_draw_gen_safe");
  (("WindowedThroughputSampler.GetSampleRate", "intn", "rand.Intn(int(rate))"), [], DFixed "sampler_draw_gen_safe");
  (("createDynForEMAThroughputSampler", "div", "c.GoalThroughputPerSec / clusterSize"), [], DConstant "clusterSize := 1 two lines above");
  (("createDynForTotalThroughputSampler", "div", "c.GoalThroughputPerSec / clusterSize"), [], DConstant "clusterSize := 1 two lines above");
  (("createDynForWindowedThroughputSampler", "fdiv", "float64(c.GoalThroughputPerSec) / float64(clusterSize)"), [], DFloat);
  (("extractValueFromSpan", "rootspan", "assign trace.RootSpan"), [["trace.RootSpan != nil"]], DProved "extract_value_gen_safe (assignment only under the nil test; else-branch `continue` extracted as root_field_skipped_without_root)");
  (("traceKey.build", "rootspan", "deref trace.RootSpan"), [["trace.RootSpan != nil"]], DCallerGuard "guard trace.RootSpan != nil required (extracted path condition)");
  (("Router.panic", "exit", "panic"), [], DIntended);
  (("Router.readBodyToBuffer", "assert", "httpBodyBufferPool.Get().(*bytes.Buffer)"), [], DPool "httpBodyBufferPool.New returns *bytes.Buffer and only those are Put back");
  (("Router.readZstdBody", "assert", "httpBodyBufferPool.Get().(*bytes.Buffer)"), [], DPool "httpBodyBufferPool.New returns *bytes.Buffer and only those are Put back");
  (("Router.requestLogger", "fdiv", "float64(time.Since(arrivalTime)) / float64(time.Millisecond)"), [], DFloat);
  (("batchedEvents.unmarshalBatchedEventFromFastJSON", "assert", "bytesPool.Get().(*[]byte)"), [], DPool "bytesPool.New returns *[]byte");
  (("customTraceExportHandler", "assert", "srv.(*TraceServer)"), [], DPool "registered only with a *TraceServer in registerCustomTraceService");
  (("getEventTime", "slice", "_[10:]"), [["len(etHeader) > 10"]], DProved "event_time_slices");
  (("getEventTime", "slice", "_[:10]"), [["len(etHeader) > 10"]], DProved "event_time_slices");
  (("randStringBytes", "div", "rand.Int63() % int64(len(letterBytes))"), [], DConstant "letterBytes is a non-empty constant");
  (("Span.CacheImpact", "div", "cacheImpactFactor * time.Since(sp.ArrivalTime) / traceTimeout"), [], DCallerGuard "sendTracesEarly replaces a zero TraceTimeout by 60s; validation demands >= 1s");
  (("DeterministicSharder.WhichShard", "index", "_[bestix]"), [], DProved "Proofs.Shard.owner_in_lp (peer list non-empty: loadPeerList refuses an empty list; Start fails if self is not in it)");
  (("DeterministicSharder.loadPeerList", "div", "partitionCount / len(peerList)"), [], DCallerGuard "len(peerList) == 0 returns an error a few lines above");
  (("GetSharderImplementation", "exit", "os.Exit"), [], DStartup "sharder type is a hard-coded string");
  (("InMemCollector.checkAlloc", "div", "int(totalToRemove) / len(i.workers)"), [], DCallerGuard "len(workers) = GetWorkerCount() >= 1 (worker_index)");
  (("InMemCollector.getWorkerIDForTrace", "div", "hash % uint64(len(i.workers))"), [], DProved "worker_index");
  (("StressRelief.UpdateFromConfig", "div", "math.MaxUint64 / s.sampleRate"), [], DCallerGuard "sampleRate == 0 is replaced by 1 two lines above");
  (("StressRelief.clusterStressLevel", "fdiv", "total / float64(availablePeers)"), [], DFloat);
  (("StressRelief.ratio", "div", "numerator / denominator"), [], DFloat);
  (("unmarshalStressReliefMessage", "index", "_[0]"), [], DConstant "non-empty constant string");
  (("unmarshalStressReliefMessage", "slice", "_[:separatorIdx]"), [["separatorIdx != -1"]], DProved "stress_message_slices");
  (("unmarshalStressReliefMessage", "slice", "_[separatorIdx + 1:]"), [["separatorIdx != -1"]; ["len(msg) >= 2"]], DProved "stress_message_slices");
  (("RedisPubsubPeers.Ready", "intn", "rand.Int63n(int64(refreshCacheInterval / 5))"), [], DConstant "refreshCacheInterval is the constant 3s");
  (("peerCommand.unmarshal", "slice", "_[1:]"), [["len(msg) >= 2"]; ["idx != -1"]; ["p.action in [Register, Unregister]"; "!(p.action != Register && p.action != Unregister)"]], DProved "peer_command_slices");
  (("peerCommand.unmarshal", "slice", "_[:1]"), [["len(msg) >= 2"]; ["idx != -1"]], DProved "peer_command_slices");
  (("peerCommand.unmarshal", "slice", "_[:idx - 1]"), [["len(msg) >= 2"]; ["idx != -1"]; ["p.action in [Register, Unregister]"; "!(p.action != Register && p.action != Unregister)"]], DProved "peer_command_slices");
  (("peerCommand.unmarshal", "slice", "_[idx:]"), [["len(msg) >= 2"]; ["idx != -1"]; ["p.action in [Register, Unregister]"; "!(p.action != Register && p.action != Unregister)"]], DProved "peer_command_slices");
  (("DefaultTransmission.processResponses", "assert", "metadata[""api_host""].(string)"), [], DPool "metadata map attached by DefaultTransmission.EnqueueEvent itself with exactly these types");
  (("DefaultTransmission.processResponses", "assert", "metadata[""dataset""].(string)"), [], DPool "metadata map attached by DefaultTransmission.EnqueueEvent itself with exactly these types");
  (("DefaultTransmission.processResponses", "assert", "metadata[""enqueued_at""].(int64)"), [], DPool "metadata map attached by DefaultTransmission.EnqueueEvent itself with exactly these types");
  (("DefaultTransmission.processResponses", "assert", "metadata[""environment""].(string)"), [], DPool "metadata map attached by DefaultTransmission.EnqueueEvent itself with exactly these types");
  (("DefaultTransmission.processResponses", "assert", "r.Metadata.(map[string]any)"), [], DPool "metadata map attached by DefaultTransmission.EnqueueEvent itself with exactly these types");
  (("DirectTransmission.sendBatch", "assert", "batchBufferPool.Get().(*[]byte)"), [], DPool "batchBufferPool.New returns *[]byte");
  (("DirectTransmission.sendBatch", "assert", "readerPool.Get().(*bytes.Reader)"), [], DPool "readerPool.New returns *bytes.Reader");
  (("init", "exit", "panic"), [], DStartup "zstd encoder built from constant options at package init");
  (("peerCommand.unmarshal", "slice", "_[1:idx]"), [["len(msg) >= 2"]; ["idx != -1"]; ["p.action in [Register, Unregister]"; "!(p.action != Register && p.action != Unregister)"]], DProved "peer_command_slices");
  (("peerCommand.unmarshal", "slice", "_[idx + 1:]"), [["len(msg) >= 2"]; ["idx != -1"]; ["p.action in [Register, Unregister]"; "!(p.action != Register && p.action != Unregister)"]], DProved "peer_command_slices")
].

Definition gsite := (string * string * string * list string)%type.
Definition all_sites : list gsite :=
  sites_config ++ sites_sample ++ sites_route ++ sites_types ++ sites_sharder ++ sites_collect ++ sites_peer ++ sites_transmit.
Definition mem_str (a : string) (l : list string) : bool := existsb (String.eqb a) l.
(* a site is covered when some disposition has its (function, kind, shape) AND every guard the disposition relies on
   (one of the listed textual alternatives each) is among the path conditions the translator collected for the site *)
Definition covered (s : gsite) : bool :=
  let '(f, k, sh, gs) := s in
  existsb (fun d => let '(key, req, _) := d in
                    site_eqb (f, k, sh) key && forallb (fun alts => existsb (fun a => mem_str a gs) alts) req) dispositions.
(* every site the translator finds in the source has a disposition; a new site is an undischarged obligation *)
Lemma inventory_covered : forallb covered all_sites = true.
Proof. vm_compute. reflexivity. Qed.
(* the two sites that were reachable from accepted configurations are guarded in the source now *)
Lemma fixes_present : key_fields_skips_empty && det_start_guards_rate && det_rate_le_1_keeps && http_has_panic_catcher &&
  validation_rejects_negative_durations && rates_clamped && batch_ticker_clamped && (ema_throughput_interval_bounded && duration_bounds_keep_fraction) && rules_draw_guarded &&
  queue_sizes_validated_nonnegative && root_field_skipped_without_root && event_time_slices_guarded = true.
Proof. vm_compute. reflexivity. Qed.

Local Close Scope string_scope.
Local Open Scope Z_scope.
(* ---------- negative durations (fixed in validation) ---------- *)
Lemma ticker_safe_when_accepted d default : 0 < default -> duration_accepted true d = true -> new_ticker d default <> None.
Proof.
  unfold duration_accepted, new_ticker. intros Hd Ha. apply Z.leb_le in Ha.
  destruct (d =? 0) eqn:E; [destruct (default <=? 0) eqn:E2; [lia|discriminate]|].
  destruct (d <=? 0) eqn:E2; [lia|discriminate].
Qed.
Lemma ticker_refuted_before_fix : duration_accepted false (-1000000000) = true /\ new_ticker (-1000000000) 30000000000 = None.
Proof. split; reflexivity. Qed.

(* ---------- EMAThroughputSampler: known findings ---------- *)
Lemma ema_interval_partial d : d = 0 \/ 1000000 <= d -> ema_throughput_first_decision d <> None.
Proof.
  unfold ema_throughput_first_decision. intros [->|H]; [discriminate|].
  destruct (d =? 0); [discriminate|]. destruct (d <? 1000000) eqn:E; [lia|discriminate].
Qed.
Lemma sampler_draw_clamped r : - 9223372036854775808 <= r < 9223372036854775808 -> sampler_draw true r <> None.
Proof.
  unfold sampler_draw, two64. intros [H0 H1].
  assert (Hm : 1 <= Z.max r 1 < 9223372036854775808) by lia.
  rewrite Z.mod_small by lia.
  destruct (Z.max r 1 <? 1) eqn:E1; [lia|].
  destruct (9223372036854775808 <=? Z.max r 1) eqn:E2; [lia|].
  destruct (Z.max r 1 <=? 0) eqn:E3; [lia|discriminate].
Qed.
Lemma sampler_draw_gen_safe r : - 9223372036854775808 <= r < 9223372036854775808 -> sampler_draw rates_clamped r <> None.
Proof. apply sampler_draw_clamped. Qed.
Lemma sampler_draw_unclamped_refuted : sampler_draw false (-1) = None.
Proof. reflexivity. Qed.

(* ---------- DirectTransmission batch ticker (fixed) ---------- *)
Lemma batch_ticker_clamped_safe d : batch_ticker true d <> None.
Proof.
  unfold batch_ticker. assert (1 <= Z.quot (Z.max d 4) 4) by (apply Z.quot_le_lower_bound; lia).
  destruct (Z.quot (Z.max d 4) 4 <=? 0) eqn:E; [lia|discriminate].
Qed.
Lemma batch_ticker_gen_safe d : batch_ticker batch_ticker_clamped d <> None.
Proof. apply batch_ticker_clamped_safe. Qed.
Lemma batch_ticker_refuted : exists d, duration_accepted true d = true /\ d <> 0 /\ batch_ticker false d = None.
Proof. exists 3. split; [reflexivity|]. split; [discriminate|reflexivity]. Qed.

(* ---------- EMAThroughputSampler interval: the bound is in the validation metadata now ---------- *)
Definition ema_bound_present : bool := ema_throughput_interval_bounded && duration_bounds_keep_fraction.
Lemma ema_interval_bounded_safe d : ema_interval_accepted true d = true -> ema_throughput_first_decision d <> None.
Proof.
  unfold ema_interval_accepted. intros H. apply ema_interval_partial.
  apply orb_true_iff in H. destruct H as [H|H]; [left; apply Z.eqb_eq; exact H|right; apply Z.leb_le; exact H].
Qed.
Lemma ema_interval_gen_safe d : ema_interval_accepted ema_bound_present d = true -> ema_throughput_first_decision d <> None.
Proof. apply ema_interval_bounded_safe. Qed.
Lemma ema_interval_refuted_before_fix : exists d, ema_interval_accepted false d = true /\ ema_throughput_first_decision d = None.
Proof. exists 1. split; reflexivity. Qed.

(* ---------- RulesBasedSampler static-rate draw ---------- *)
Lemma rules_draw_strict_safe drop rate : rules_draw true drop rate <> None.
Proof.
  unfold rules_draw. destruct drop; [discriminate|].
  destruct (0 <? rate) eqn:E; [|discriminate]. apply Z.ltb_lt in E.
  destruct (rate <=? 0) eqn:E2; [lia|discriminate].
Qed.
Lemma rules_draw_gen_safe drop rate : rules_draw rules_draw_guarded drop rate <> None.
Proof. apply rules_draw_strict_safe. Qed.
Lemma rules_draw_weak_guard_refuted : rules_draw false false (-1) = None.
Proof. reflexivity. Qed.

(* ---------- collector queue sizes ---------- *)
Lemma worker_queue_safe size workers : 1 <= workers -> queue_size_accepted true size = true -> worker_queue size workers <> None.
Proof.
  unfold queue_size_accepted, worker_queue. intros Hw Hs. apply Z.leb_le in Hs.
  assert (0 <= Z.quot (size + workers - 1) workers) by (apply Z.quot_pos; lia).
  destruct (Z.quot (size + workers - 1) workers <? 0) eqn:E; [lia|discriminate].
Qed.
Lemma worker_queue_gen_safe size workers :
  1 <= workers -> queue_size_accepted queue_sizes_validated_nonnegative size = true -> worker_queue size workers <> None.
Proof. apply worker_queue_safe. Qed.
Lemma worker_queue_refuted_before_fix : queue_size_accepted false (-1) = true /\ worker_queue (-1) 1 = None.
Proof. split; reflexivity. Qed.

(* ---------- extractValueFromSpan: the span variable is never nil ---------- *)
Lemma xv_loop_not_nil has_root : forall fields cur, cur <> SNil -> fst (xv_loop true has_root fields cur) <> SNil.
Proof.
  induction fields as [|[rp present] r IH]; intros cur Hc; cbn [xv_loop]; [exact Hc|].
  destruct rp.
  - destruct has_root.
    + destruct present; [cbn; discriminate|apply IH; discriminate].
    + apply IH. discriminate.
  - destruct present; [cbn; discriminate|apply IH; discriminate].
Qed.
Lemma extract_value_safe has_root nested fields : extract_value true has_root nested fields <> None.
Proof.
  unfold extract_value. pose proof (xv_loop_not_nil has_root fields SOrig) as H.
  destruct (xv_loop true has_root fields SOrig) as [cur found]. cbn [fst] in H.
  destruct found; [discriminate|]. destruct nested; [|discriminate].
  destruct cur; try discriminate. exfalso. apply H; [discriminate|reflexivity].
Qed.
Lemma extract_value_gen_safe has_root nested fields : extract_value root_field_skipped_without_root has_root nested fields <> None.
Proof. apply extract_value_safe. Qed.
Lemma extract_value_flattened_refuted : extract_value false false true [(true, false)] = None.
Proof. reflexivity. Qed.

(* ---------- getEventTime ---------- *)
Lemma event_time_slice_safe len : event_time_slice true len <> None.
Proof.
  unfold event_time_slice. destruct (len =? 10); [discriminate|].
  destruct (10 <? len) eqn:E; [|discriminate]. apply Z.ltb_lt in E. destruct (len <? 10) eqn:E2; [lia|discriminate].
Qed.
Lemma event_time_slice_gen_safe len : event_time_slice event_time_slices_guarded len <> None.
Proof. apply event_time_slice_safe. Qed.
Lemma event_time_slice_plain_else_refuted : event_time_slice false 1 = None.
Proof. reflexivity. Qed.
