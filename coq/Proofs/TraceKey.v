(* Proofs about Model/TraceKey.v (C11). *)
From Refinery Require Import Lib.Base Model.TraceKey.
From Refinery Require Gen.GenC11.
From Coq Require Import ZifyN ZifyNat ZifyBool Permutation Sorted.

(* ---------- uncapped distinct collection ---------- *)
Lemma scan_u_In xs : forall seen y, In y (scan_u xs seen) <-> In y seen \/ In y xs.
Proof.
  induction xs as [|x r IH]; intros seen y; cbn [scan_u In]; [tauto|].
  destruct (mem_str x seen) eqn:M.
  - rewrite IH. apply mem_str_In in M. split; [tauto|].
    intros [H|[H|H]]; [tauto|subst; tauto|tauto].
  - rewrite IH. cbn [In]. split; [intros [[H|H]|H]; auto|intros [H|[H|H]]; auto].
Qed.

Lemma scan_u_NoDup xs : forall seen, NoDup seen -> NoDup (scan_u xs seen).
Proof.
  induction xs as [|x r IH]; intros seen H; cbn [scan_u]; [exact H|].
  destruct (mem_str x seen) eqn:M; [apply IH; exact H|].
  apply IH. constructor; [|exact H]. intros Hin. apply mem_str_In in Hin. congruence.
Qed.

Lemma scan_u_len xs : forall seen, (length seen <= length (scan_u xs seen))%nat.
Proof.
  induction xs as [|x r IH]; intros seen; cbn [scan_u]; [lia|].
  destruct (mem_str x seen); [apply IH|]. specialize (IH (x :: seen)). cbn [length] in IH. lia.
Qed.

(* below the cap the capped scan is the uncapped one *)
Lemma scan_nocap xs : forall seen cnt,
  (cnt + N.of_nat (length (scan_u xs seen) - length seen) < MAXK)%N ->
  scan xs seen cnt = (scan_u xs seen, (cnt + N.of_nat (length (scan_u xs seen) - length seen))%N, false).
Proof.
  induction xs as [|x r IH]; intros seen cnt H; cbn [scan scan_u] in *.
  - rewrite Nat.sub_diag. cbn. rewrite N.add_0_r. reflexivity.
  - destruct (MAXK <=? cnt)%N eqn:E; [apply N.leb_le in E; lia|].
    destruct (mem_str x seen) eqn:M; [apply IH; exact H|].
    pose proof (scan_u_len r (x :: seen)) as L. cbn [length] in L.
    destruct (MAXK <=? cnt + 1)%N eqn:E2; [apply N.leb_le in E2; lia|].
    rewrite IH by (cbn [length]; lia). cbn [length]. f_equal. f_equal. lia.
Qed.

Lemma collect_nocap t fs : forall cnt,
  (cnt + total_distinct fs t < MAXK)%N ->
  collect fs t cnt = map (fun f => scan_u (vals f t) []) fs.
Proof.
  induction fs as [|f r IH]; intros cnt H; cbn [collect map total_distinct fold_right] in *; [reflexivity|].
  fold (total_distinct r t) in H. unfold ndistinct in H.
  rewrite scan_nocap by (cbn [length]; rewrite Nat.sub_0_r; lia).
  cbn [length]. rewrite Nat.sub_0_r. f_equal. apply IH. lia.
Qed.

(* sorted distinct values of a field: what the key is made of *)
Definition canon (f : str) (t : trace) : list str := ssort (scan_u (vals f t) []).

Lemma canon_In f t x : In x (canon f t) <-> In x (vals f t).
Proof. unfold canon. rewrite ssort_In, scan_u_In. cbn [In]. tauto. Qed.

Lemma canon_NoDup f t : NoDup (canon f t).
Proof.
  unfold canon. eapply Permutation_NoDup; [apply Permutation_sym, ssort_perm|].
  apply scan_u_NoDup. constructor.
Qed.

Lemma same_set_perm f t t' :
  (forall x, In x (vals f t) <-> In x (vals f t')) ->
  Permutation (scan_u (vals f t) []) (scan_u (vals f t') []).
Proof.
  intros H. apply NoDup_Permutation; try (apply scan_u_NoDup; constructor).
  intros x. rewrite !scan_u_In. cbn [In]. specialize (H x). tauto.
Qed.

Lemma canon_ext f t t' :
  (forall x, In x (vals f t) <-> In x (vals f t')) -> canon f t = canon f t'.
Proof. intros H. apply ssort_perm_eq, same_set_perm, H. Qed.

Lemma ndistinct_ext f t t' :
  (forall x, In x (vals f t) <-> In x (vals f t')) -> ndistinct (vals f t) = ndistinct (vals f t').
Proof. intros H. unfold ndistinct. apply Permutation_length, same_set_perm, H. Qed.

Lemma total_distinct_ext fs t t' :
  (forall f, In f fs -> forall x, In x (vals f t) <-> In x (vals f t')) ->
  total_distinct fs t = total_distinct fs t'.
Proof.
  induction fs as [|f r IH]; intros H; cbn [total_distinct fold_right]; [reflexivity|].
  fold (total_distinct r t) (total_distinct r t').
  rewrite (ndistinct_ext f t t') by (apply H; left; reflexivity).
  rewrite IH; [reflexivity|]. intros g Hg. apply H. right. exact Hg.
Qed.

(* emit_field only looks at the sorted list *)
Lemma emit_field_canon ip f t :
  emit_field ip (scan_u (vals f t) []) =
  match canon f t with
  | [] => ([], 0%N)
  | w => let o := dedup_prev ip w in (enc o ++ [COMMA], N.of_nat (length o))
  end.
Proof. reflexivity. Qed.

(* ---------- the key is determined by value sets, root view and (optionally) span count ---------- *)
Definition same_sets (fs : list str) (t t' : trace) : Prop :=
  forall f, In f fs -> forall x, In x (vals f t) <-> In x (vals f t').

Lemma build_gen_nocap ip fields uselen t :
  (total_distinct (fst (prepare fields)) t < MAXK)%N ->
  build_gen ip fields uselen t =
  let nf := fst (prepare fields) in let rf := snd (prepare fields) in
  let blocks := map (fun f => emit_field ip (scan_u (vals f t) [])) nf in
  (concat (map fst blocks) ++ fst (root_part rf t) ++ fst (len_part uselen t),
   (fold_right N.add 0%N (map snd blocks) + snd (root_part rf t) + snd (len_part uselen t))%N).
Proof.
  intros H. unfold build_gen. destruct (prepare fields) as [nf rf]. cbn [fst snd] in *.
  rewrite collect_nocap by lia.
  rewrite (map_map (fun f => scan_u (vals f t) []) (emit_field ip)). reflexivity.
Qed.

Lemma root_part_view rfs t t' : root_view rfs t = root_view rfs t' -> root_part rfs t = root_part rfs t'.
Proof.
  unfold root_view, root_part. destruct (t_root t) as [rs|], (t_root t') as [rs'|]; try discriminate; [|reflexivity].
  intros [= H]. induction rfs as [|f r IH]; cbn [fold_right map] in *; [reflexivity|].
  injection H as H1 H2. rewrite (IH H2).
  destruct (sp_get f rs) as [v|], (sp_get f rs') as [v'|]; cbn [option_map] in H1; try discriminate; [|reflexivity].
  injection H1 as ->. reflexivity.
Qed.

Theorem build_determined ip fields uselen t t' :
  let nf := fst (prepare fields) in let rf := snd (prepare fields) in
  (total_distinct nf t < MAXK)%N ->
  same_sets nf t t' ->
  root_view rf t = root_view rf t' ->
  (uselen = true -> length (t_spans t) = length (t_spans t')) ->
  build_gen ip fields uselen t = build_gen ip fields uselen t'.
Proof.
  intros nf rf Hcap Hsets Hroot Hlen.
  assert (total_distinct nf t' < MAXK)%N as Hcap'
    by (rewrite <- (total_distinct_ext nf t t') by exact Hsets; exact Hcap).
  rewrite !build_gen_nocap by assumption. fold nf rf. cbv zeta.
  rewrite (root_part_view rf t t' Hroot).
  assert (len_part uselen t = len_part uselen t') as ->.
  { unfold len_part. destruct uselen; [rewrite Hlen by reflexivity|]; reflexivity. }
  assert (map (fun f => emit_field ip (scan_u (vals f t) [])) nf =
          map (fun f => emit_field ip (scan_u (vals f t') [])) nf) as ->; [|reflexivity].
  apply map_ext_in. intros f Hf. rewrite !emit_field_canon.
  rewrite (canon_ext f t t') by (apply Hsets; exact Hf). reflexivity.
Qed.

(* permutation of the spans *)
Lemma vals_perm f t t' : Permutation (t_spans t) (t_spans t') -> forall x, In x (vals f t) <-> In x (vals f t').
Proof.
  intros P x. unfold vals. rewrite !in_flat_map.
  split; intros [s [Hs Hx]]; exists s; (split; [|exact Hx]).
  - eapply Permutation_in; [exact P|exact Hs].
  - eapply Permutation_in; [apply Permutation_sym; exact P|exact Hs].
Qed.

Theorem build_perm ip fields uselen t t' :
  (total_distinct (fst (prepare fields)) t < MAXK)%N ->
  Permutation (t_spans t) (t_spans t') -> t_root t = t_root t' ->
  build_gen ip fields uselen t = build_gen ip fields uselen t'.
Proof.
  intros Hcap P R. apply build_determined; [exact Hcap| | |].
  - intros f _. apply vals_perm. exact P.
  - unfold root_view. rewrite R. reflexivity.
  - intros _. apply Permutation_length. exact P.
Qed.

(* duplicating spans: any span list with the same set of spans *)
Theorem build_dup ip fields t t' :
  (total_distinct (fst (prepare fields)) t < MAXK)%N ->
  (forall s, In s (t_spans t) <-> In s (t_spans t')) -> t_root t = t_root t' ->
  build_gen ip fields false t = build_gen ip fields false t'.
Proof.
  intros Hcap S R. apply build_determined; [exact Hcap| | |discriminate].
  - intros f _ x. unfold vals. rewrite !in_flat_map.
    split; intros [s [Hs Hx]]; exists s; (split; [apply S; exact Hs|exact Hx]).
  - unfold root_view. rewrite R. reflexivity.
Qed.

(* ---------- separation ---------- *)
Lemma dedup_prev_nodup_some l : forall p, NoDup (p :: l) -> dedup_prev (Some p) l = l.
Proof.
  induction l as [|x r IH]; intros p H; cbn [dedup_prev]; [reflexivity|].
  inversion H as [|? ? Hp Hr]; subst.
  destruct (str_eqb x p) eqn:E; [apply str_eqb_eq in E; subst; exfalso; apply Hp; left; reflexivity|].
  cbn [app]. f_equal. apply IH. exact Hr.
Qed.

Lemma dedup_prev_nodup_none l : NoDup l -> dedup_prev None l = l.
Proof.
  destruct l as [|x r]; intros H; cbn [dedup_prev]; [reflexivity|].
  cbn [app]. f_equal. apply dedup_prev_nodup_some. exact H.
Qed.

Definition dfree (s : str) : Prop := ~ In BUL s /\ ~ In COMMA s.

Lemma delim_free_dfree s : delim_free s = true <-> dfree s.
Proof.
  unfold delim_free, dfree. rewrite forallb_forall. split.
  - intros H. split; intros Hin; specialize (H _ Hin); rewrite N.eqb_refl in H;
      [discriminate|rewrite andb_false_r in H; discriminate].
  - intros [H1 H2] c Hc. apply andb_true_iff. split; apply negb_true_iff, N.eqb_neq; intros ->; auto.
Qed.

(* a delimiter-free prefix followed by the delimiter parses uniquely *)
Lemma split_unique (d : N) v : forall v' X X',
  ~ In d v -> ~ In d v' -> v ++ d :: X = v' ++ d :: X' -> v = v' /\ X = X'.
Proof.
  induction v as [|c v IH]; intros [|c' v'] X X' H1 H2 E; cbn [app] in E.
  - injection E as ->. split; reflexivity.
  - injection E as E1 _. subst. exfalso. apply H2. left. reflexivity.
  - injection E as E1 _. subst. exfalso. apply H1. left. reflexivity.
  - injection E as -> E. destruct (IH v' X X') as [-> ->]; [| |exact E|split; reflexivity].
    + intros Hin. apply H1. right. exact Hin.
    + intros Hin. apply H2. right. exact Hin.
Qed.

Lemma enc_cons v l : enc (v :: l) = v ++ BUL :: enc l.
Proof. unfold enc. cbn [flat_map]. rewrite <- app_assoc. reflexivity. Qed.

Lemma BUL_COMMA : BUL <> COMMA.
Proof. discriminate. Qed.

(* one block "v1•v2•…vk•," followed by anything parses uniquely *)
Lemma block_unique l : forall l' X X',
  Forall dfree l -> Forall dfree l' ->
  enc l ++ COMMA :: X = enc l' ++ COMMA :: X' -> l = l' /\ X = X'.
Proof.
  induction l as [|v l IH]; intros [|v' l'] X X' F F' E.
  - cbn in E. injection E as ->. split; reflexivity.
  - rewrite enc_cons in E. cbn [enc flat_map app] in E.
    inversion F' as [|? ? [Hb Hc] _]; subst.
    destruct v' as [|c v']; cbn [app] in E; injection E as E1 _.
    + exfalso. apply BUL_COMMA. congruence.
    + subst. exfalso. apply Hc. left. reflexivity.
  - rewrite enc_cons in E. cbn [enc flat_map app] in E.
    inversion F as [|? ? [Hb Hc] _]; subst.
    destruct v as [|c v]; cbn [app] in E; injection E as E1 _.
    + exfalso. apply BUL_COMMA. congruence.
    + subst. exfalso. apply Hc. left. reflexivity.
  - rewrite !enc_cons in E. rewrite <- !app_assoc in E. cbn [app] in E.
    inversion F as [|? ? [Hb Hc] Fr]; inversion F' as [|? ? [Hb' Hc'] Fr']; subst.
    destruct (split_unique BUL v v' _ _ Hb Hb' E) as [-> E2].
    destruct (IH l' X X' Fr Fr' E2) as [-> ->]. split; reflexivity.
Qed.

(* hypotheses of the separation statement, for one trace *)
Definition all_present (fs : list str) (t : trace) : Prop := forall f, In f fs -> vals f t <> [].
Definition all_dfree (fs : list str) (t : trace) : Prop :=
  forall f, In f fs -> forall x, In x (vals f t) -> dfree x.

Lemma canon_nonempty f t : vals f t <> [] -> canon f t <> [].
Proof.
  intros H E. destruct (vals f t) as [|x r] eqn:V; [congruence|].
  assert (In x (canon f t)) as Hin by (apply canon_In; rewrite V; left; reflexivity).
  rewrite E in Hin. destruct Hin.
Qed.

Lemma emit_block f t :
  vals f t <> [] ->
  fst (emit_field None (scan_u (vals f t) [])) = enc (canon f t) ++ [COMMA].
Proof.
  intros H. rewrite emit_field_canon. pose proof (canon_nonempty f t H) as Hne.
  destruct (canon f t) as [|w ws] eqn:C; [congruence|].
  cbv zeta. cbn [fst]. rewrite dedup_prev_nodup_none; [reflexivity|].
  rewrite <- C. apply canon_NoDup.
Qed.

Lemma blocks_unique t t' fs : forall X X',
  all_present fs t -> all_present fs t' -> all_dfree fs t -> all_dfree fs t' ->
  concat (map fst (map (fun f => emit_field None (scan_u (vals f t) [])) fs)) ++ X =
  concat (map fst (map (fun f => emit_field None (scan_u (vals f t') [])) fs)) ++ X' ->
  (forall f, In f fs -> canon f t = canon f t') /\ X = X'.
Proof.
  induction fs as [|f r IH]; intros X X' P P' D D' E; cbn [map concat app] in E.
  - split; [intros f []|exact E].
  - rewrite !emit_block in E by (first [apply P|apply P']; left; reflexivity).
    rewrite <- !app_assoc in E. cbn [app] in E.
    apply block_unique in E.
    + destruct E as [E1 E2]. apply IH in E2.
      * destruct E2 as [E2 E3]. split; [|exact E3].
        intros g [<-|Hg]; [exact E1|apply E2; exact Hg].
      * intros g Hg. apply P. right. exact Hg.
      * intros g Hg. apply P'. right. exact Hg.
      * intros g Hg. apply D. right. exact Hg.
      * intros g Hg. apply D'. right. exact Hg.
    + apply Forall_forall. intros x Hx. apply canon_In in Hx. eapply D; [left; reflexivity|exact Hx].
    + apply Forall_forall. intros x Hx. apply canon_In in Hx. eapply D'; [left; reflexivity|exact Hx].
Qed.

(* Separation on the code with the first value always written (prev = None):
   equal keys force equal value sets for every non-root field *)
Theorem build_separates fields uselen uselen' t t' :
  let nf := fst (prepare fields) in
  (total_distinct nf t < MAXK)%N -> (total_distinct nf t' < MAXK)%N ->
  all_present nf t -> all_present nf t' -> all_dfree nf t -> all_dfree nf t' ->
  fst (build_gen None fields uselen t) = fst (build_gen None fields uselen' t') ->
  same_sets nf t t'.
Proof.
  intros nf C C' P P' D D' E.
  rewrite !build_gen_nocap in E by assumption. fold nf in E. cbv zeta in E. cbn [fst] in E.
  apply blocks_unique in E; try assumption.
  destruct E as [E _]. intros f Hf x. rewrite <- !canon_In. rewrite (E f Hf). tauto.
Qed.

(* ---------- separation for root.-prefixed fields ---------- *)
Fixpoint root_str (rfs : list str) (rs : span) : str :=
  match rfs with
  | [] => []
  | f :: r => match sp_get f rs with
              | Some v => render_root v ++ [COMMA] ++ root_str r rs
              | None => root_str r rs
              end
  end.

Lemma root_part_str rfs t rs : t_root t = Some rs -> fst (root_part rfs t) = root_str rfs rs.
Proof.
  intros Hr. unfold root_part. rewrite Hr.
  induction rfs as [|f r IH]; cbn [fold_right root_str]; [reflexivity|].
  destruct (sp_get f rs) as [v|]; [|exact IH]. cbn [fst]. f_equal. f_equal. exact IH.
Qed.

(* every root field present in the root span, its rendered value free of ',' *)
Definition root_ok (rfs : list str) (rs : span) : Prop :=
  forall f, In f rfs -> exists v, sp_get f rs = Some v /\ ~ In COMMA (render_root v).

Lemma root_unique rs rs' rfs : forall Y Y',
  root_ok rfs rs -> root_ok rfs rs' ->
  root_str rfs rs ++ Y = root_str rfs rs' ++ Y' ->
  (forall f, In f rfs -> option_map render_root (sp_get f rs) = option_map render_root (sp_get f rs')) /\ Y = Y'.
Proof.
  induction rfs as [|f r IH]; intros Y Y' H H' E; cbn [root_str] in E.
  - split; [intros f []|exact E].
  - destruct (H f (or_introl eq_refl)) as [v [Hv Hc]]. destruct (H' f (or_introl eq_refl)) as [v' [Hv' Hc']].
    rewrite Hv, Hv' in E. rewrite <- !app_assoc in E. cbn [app] in E.
    destruct (split_unique COMMA _ _ _ _ Hc Hc' E) as [Ev E2].
    destruct (IH Y Y') as [IH1 IH2].
    + intros g Hg. apply H. right. exact Hg.
    + intros g Hg. apply H'. right. exact Hg.
    + exact E2.
    + split; [|exact IH2]. intros g [<-|Hg]; [rewrite Hv, Hv'; cbn [option_map]; rewrite Ev; reflexivity|apply IH1; exact Hg].
Qed.

(* equal keys force equal root values as well (all root fields present in both root spans,
   values free of ','), whatever UseTraceLength is on each side *)
Theorem build_separates_root fields uselen uselen' t t' rs rs' :
  let nf := fst (prepare fields) in let rf := snd (prepare fields) in
  (total_distinct nf t < MAXK)%N -> (total_distinct nf t' < MAXK)%N ->
  all_present nf t -> all_present nf t' -> all_dfree nf t -> all_dfree nf t' ->
  t_root t = Some rs -> t_root t' = Some rs' -> root_ok rf rs -> root_ok rf rs' ->
  fst (build_gen None fields uselen t) = fst (build_gen None fields uselen' t') ->
  forall f, In f rf -> option_map render_root (sp_get f rs) = option_map render_root (sp_get f rs').
Proof.
  intros nf rf C C' P P' D D' R R' K K' E.
  rewrite !build_gen_nocap in E by assumption. fold nf rf in E. cbv zeta in E. cbn [fst] in E.
  apply blocks_unique in E; try assumption. destruct E as [_ E].
  rewrite (root_part_str rf t rs R), (root_part_str rf t' rs' R') in E.
  apply root_unique in E; try assumption. apply E.
Qed.

(* the source has the fix: build = build_gen None *)
Lemma init_prev_fixed : init_prev = None.
Proof. reflexivity. Qed.

(* ---------- the legacy behaviour (prevStr starts as "") collides ---------- *)
Definition legacy_t1 : trace := {| t_spans := [[(u "f", VStr [])]; [(u "f", VStr (u "a"))]]; t_root := None |}.
Definition legacy_t2 : trace := {| t_spans := [[(u "f", VStr (u "a"))]]; t_root := None |}.

Lemma legacy_collision :
  fst (build_gen (Some []) [u "f"] false legacy_t1) = fst (build_gen (Some []) [u "f"] false legacy_t2) /\
  In [] (vals (u "f") legacy_t1) /\ ~ In [] (vals (u "f") legacy_t2) /\
  fst (build_gen None [u "f"] false legacy_t1) <> fst (build_gen None [u "f"] false legacy_t2).
Proof.
  split; [vm_compute; reflexivity|]. split; [vm_compute; auto|]. split.
  - vm_compute. intros [H|[]]. discriminate.
  - vm_compute. discriminate.
Qed.

(* ---------- sampler: rate floor and keep ---------- *)
Lemma rate_floor_ge_1 d : 1 <= rate_floor d.
Proof.
  unfold rate_floor. destruct (d mod 18446744073709551616 <? 1) eqn:E; [lia|apply Z.ltb_ge in E; exact E].
Qed.

Lemma rate_floor_id d : 1 <= d < 18446744073709551616 -> rate_floor d = d.
Proof.
  intros H. unfold rate_floor. rewrite Z.mod_small by lia.
  destruct (d <? 1) eqn:E; [apply Z.ltb_lt in E; lia|reflexivity].
Qed.

(* exactly one of the rate possible draws keeps *)
Lemma keep_one_in_rate d :
  forall draw, 0 <= draw < rate_floor d -> (keep_of draw = true <-> draw = 0).
Proof. intros draw _. unfold keep_of. apply Z.eqb_eq. Qed.

Lemma keep_count (r : N) : (1 <= r)%N ->
  N.peano_rect (fun _ => N) 0%N (fun k acc => if keep_of (Z.of_N k) then (acc + 1)%N else acc) r = 1%N.
Proof.
  induction r as [|r IH] using N.peano_ind; intros H; [lia|].
  rewrite N.peano_rect_succ.
  destruct (N.eq_dec r 0) as [->|Hr].
  - reflexivity.
  - rewrite IH by lia. unfold keep_of. destruct (Z.of_N r =? 0) eqn:E; [apply Z.eqb_eq in E; lia|reflexivity].
Qed.

(* ---------- what the translator must have found ---------- *)
Lemma gen_c11_ok :
  GenC11.key_delims = [GenC11.gen_bs [226; 128; 162]%N; ","%string] /\
  GenC11.root_prefix = "root."%string /\
  GenC11.cap_breaks_outer = true /\ GenC11.cap_counts_before_store = true /\
  GenC11.cap_is_max_key_length = true /\
  GenC11.first_value_always_written = true /\
  GenC11.root_uses_same_rendering = true /\ GenC11.float_whole_as_int = true /\
  GenC11.add_uses_append_value = true /\ GenC11.len_is_span_count = true /\
  GenC11.fields_sorted = true /\ GenC11.values_sorted = true /\
  GenC11.shape_dynamic = true /\ GenC11.shape_emadynamic = true /\ GenC11.shape_emathroughput = true /\
  GenC11.shape_windowedthroughput = true /\ GenC11.shape_totalthroughput = true.
Proof. repeat split; reflexivity. Qed.

(* ---------- separation for the code as it is (needs the first value to be always written) ---------- *)
Theorem build_separates_fixed fields uselen uselen' t t' :
  let nf := fst (prepare fields) in
  (total_distinct nf t < MAXK)%N -> (total_distinct nf t' < MAXK)%N ->
  all_present nf t -> all_present nf t' -> all_dfree nf t -> all_dfree nf t' ->
  fst (build fields uselen t) = fst (build fields uselen' t') ->
  same_sets nf t t'.
Proof. unfold build. rewrite init_prev_fixed. apply build_separates. Qed.

(* contrapositive, as the property states it: different value sets => different keys *)
Corollary build_distinct_sets_distinct_keys fields uselen t t' f x :
  let nf := fst (prepare fields) in
  (total_distinct nf t < MAXK)%N -> (total_distinct nf t' < MAXK)%N ->
  all_present nf t -> all_present nf t' -> all_dfree nf t -> all_dfree nf t' ->
  In f nf -> In x (vals f t) -> ~ In x (vals f t') ->
  fst (build fields uselen t) <> fst (build fields uselen t').
Proof.
  intros nf C C' P P' D D' Hf Hx Hnx E.
  apply Hnx. eapply (build_separates_fixed fields uselen uselen t t'); eassumption.
Qed.

Theorem build_separates_root_fixed fields uselen uselen' t t' rs rs' :
  let nf := fst (prepare fields) in let rf := snd (prepare fields) in
  (total_distinct nf t < MAXK)%N -> (total_distinct nf t' < MAXK)%N ->
  all_present nf t -> all_present nf t' -> all_dfree nf t -> all_dfree nf t' ->
  t_root t = Some rs -> t_root t' = Some rs' -> root_ok rf rs -> root_ok rf rs' ->
  fst (build fields uselen t) = fst (build fields uselen' t') ->
  forall f, In f rf -> option_map render_root (sp_get f rs) = option_map render_root (sp_get f rs').
Proof. unfold build. rewrite init_prev_fixed. apply build_separates_root. Qed.

