(* Liveness under arbitrary interleaved traffic (C02 "eventually decided", C03 "at the next tick"):
   a buffered trace whose deadline d has passed is decided after at most ceil((ahead+1)/m) further send
   ticks, whatever else happens in between (span arrivals, ejections, reloads, forgotten decisions),
   where ahead = number of other buffered traces with deadline <= d and m = the smallest
   MaxExpiredTraces in force.  New or re-timed traces can never get ahead of it: every deadline set
   after instant d is later than d. *)
From Refinery Require Import Lib.Base Model.Collector Gen.GenC01 Proofs.CollectorAbs Proofs.CollectorRef Proofs.CollectorTime.

Lemma fallbacks_positive : 0 < trace_timeout_fallback /\ 0 < send_delay_fallback.
Proof. vm_compute. split; reflexivity. Qed.

(* ---------- counting through aset / aremove ---------- *)
Definition b2n (b : bool) : nat := if b then 1%nat else 0%nat.

Lemma aremove_absent {V} k (b : amap V) : alookup k b = None -> aremove k b = b.
Proof.
  induction b as [|[k0 v0] r IH]; cbn [alookup aremove]; [reflexivity|].
  destruct (N.eqb k k0); [discriminate|]. intros H. f_equal. apply IH; exact H.
Qed.

Lemma count_split {V} (p : N * V -> bool) k v0 (b : amap V) :
  NoDup (akeys b) -> alookup k b = Some v0 ->
  length (filter p b) = (length (filter p (aremove k b)) + b2n (p (k, v0)))%nat.
Proof.
  induction b as [|[k1 v1] r IH]; cbn [akeys map fst alookup aremove filter]; intros Hnd Hl; [discriminate|].
  inversion Hnd as [|? ? Hn Hr]; subst. destruct (N.eqb k k1) eqn:E.
  - apply N.eqb_eq in E. subst k1. injection Hl as <-.
    assert (Hnone : alookup k r = None).
    { destruct (alookup k r) eqn:L; [|reflexivity]. exfalso. apply Hn. apply In_akeys_alookup. congruence. }
    rewrite (aremove_absent k r Hnone). destruct (p (k, v1)); cbn [length b2n]; lia.
  - cbn [filter]. specialize (IH Hr Hl). destruct (p (k1, v1)); cbn [length]; lia.
Qed.

Lemma count_aremove_le {V} (p : N * V -> bool) k (b : amap V) :
  (length (filter p (aremove k b)) <= length (filter p b))%nat.
Proof.
  induction b as [|[k1 v1] r IH]; cbn [aremove filter]; [lia|].
  destruct (N.eqb k k1); cbn [filter]; destruct (p (k1, v1)); cbn [length]; lia.
Qed.

Lemma count_remove_all_le {V} (p : N * V -> bool) ks : forall (b : amap V),
  (length (filter p (remove_all ks b)) <= length (filter p b))%nat.
Proof.
  induction ks as [|k r IH]; intros b; cbn [remove_all fold_left]; [lia|].
  change (fold_left (fun m t0 => aremove t0 m) r (aremove k b)) with (remove_all r (aremove k b)).
  pose proof (IH (aremove k b)). pose proof (count_aremove_le p k b). lia.
Qed.

Lemma count_remove_all_exact {V} (p : N * V -> bool) ks : forall (b : amap V),
  NoDup (akeys b) -> NoDup ks ->
  (forall k, In k ks -> exists v, alookup k b = Some v /\ p (k, v) = true) ->
  (length (filter p (remove_all ks b)) + length ks = length (filter p b))%nat.
Proof.
  induction ks as [|k r IH]; intros b Hnd Hks Hall; cbn [remove_all fold_left length]; [lia|].
  change (fold_left (fun m t0 => aremove t0 m) r (aremove k b)) with (remove_all r (aremove k b)).
  inversion Hks as [|? ? Hn Hr]; subst.
  destruct (Hall k (or_introl eq_refl)) as [v [Hl Hp]].
  rewrite (count_split p k v b Hnd Hl), Hp. cbn [b2n].
  rewrite <- (IH (aremove k b)); [lia|apply NoDup_akeys_aremove; exact Hnd|exact Hr|].
  intros k' Hk'. destruct (Hall k' (or_intror Hk')) as [v' [Hl' Hp']]. exists v'. split; [|exact Hp'].
  rewrite alookup_aremove_neq; [exact Hl'|]. intros ->. contradiction.
Qed.

Section Live.
  Variable sampler : N -> list span -> bool.
  Variable dry : bool.
  Notation step := (step sampler dry).
  Notation step_total := (step_total sampler dry).
  Notation run := (run sampler dry).

  Variable t : N.       (* the trace we follow *)
  Variable d : Z.       (* its deadline *)

  Definition pahead (kv : N * trace) : bool := (t_sendby (snd kv) <=? d) && negb (N.eqb (fst kv) t).
  Definition ahead (b : amap trace) : nat := length (filter pahead b).
  Definition waiting (w : wstate) : Prop := exists tr, alookup t (w_buf w) = Some tr /\ t_sendby tr = d.
  Definition cfg_nonneg (c : cfg) : Prop := 0 <= c_tt c /\ 0 <= c_sd c.
  Definition me_ok (m : Z) (c : cfg) : Prop := c_me c <= 0 \/ m <= c_me c.

  (* ops that happen after instant d *)
  Definition op_after (m : Z) (o : op) : Prop :=
    match o with
    | OSpan now _ => d < now
    | OTick now _ => d <= now
    | OReload c => cfg_nonneg c /\ me_ok m c
    | _ => True
    end.

  Lemma eff_nonneg c : cfg_nonneg c -> 0 <= eff_tt c /\ 0 <= eff_sd c.
  Proof.
    intros [H1 H2]. destruct fallbacks_positive as [F1 F2]. unfold eff_tt, eff_sd.
    destruct (c_tt c =? 0), (c_sd c =? 0); lia.
  Qed.

  (* a deadline written at an instant after d is after d *)
  Lemma add_span_after c now tr s :
    cfg_nonneg c -> d < now ->
    t_sendby (add_span c now tr s) = t_sendby tr \/ d < t_sendby (add_span c now tr s).
  Proof.
    intros Hc Hnow. destruct (eff_nonneg c Hc) as [_ Hsd]. unfold add_span. cbn [t_sendby].
    destruct ((s_root s || over_limit c (Z.of_nat (length (s :: t_spans tr)))) &&
              (now + (if over_limit c (Z.of_nat (length (s :: t_spans tr))) then 0 else eff_sd c) <? t_sendby tr));
      [right|left; reflexivity].
    destruct (over_limit c (Z.of_nat (length (s :: t_spans tr)))); lia.
  Qed.

  Lemma pahead_add_span c now k tr s :
    cfg_nonneg c -> d < now -> pahead (k, add_span c now tr s) = true -> pahead (k, tr) = true.
  Proof.
    intros Hc Hnow. unfold pahead. cbn [fst snd]. rewrite !andb_true_iff. intros [H1 H2]. split; [|exact H2].
    apply Z.leb_le in H1. apply Z.leb_le. destruct (add_span_after c now tr s Hc Hnow) as [E|E]; lia.
  Qed.

  Lemma pahead_new c now k s : cfg_nonneg c -> d < now -> pahead (k, add_span c now (new_trace c now) s) = false.
  Proof.
    intros Hc Hnow. destruct (eff_nonneg c Hc) as [Htt _]. unfold pahead. cbn [fst snd].
    apply andb_false_iff. left. apply Z.leb_gt.
    destruct (add_span_after c now (new_trace c now) s Hc Hnow) as [E|E]; [rewrite E; cbn [new_trace t_sendby]; lia|exact E].
  Qed.

  (* one step: either t is decided (leaves the buffer), or it keeps waiting with the same deadline and
     nobody got ahead; a tick that does not decide it removes exactly MaxExpiredTraces traces ahead of it *)
  Lemma step_progress m w o w' e :
    NoDup (akeys (w_buf w)) -> cfg_nonneg (w_cfg w) -> me_ok m (w_cfg w) -> waiting w -> op_after m o ->
    step w o = Some (w', e) ->
    NoDup (akeys (w_buf w')) /\ cfg_nonneg (w_cfg w') /\ me_ok m (w_cfg w') /\
    (alookup t (w_buf w') = None \/
     (waiting w' /\
      match o with
      | OTick _ _ => 0 < c_me (w_cfg w) /\ Z.of_nat (ahead (w_buf w')) + c_me (w_cfg w) = Z.of_nat (ahead (w_buf w))
      | _ => (ahead (w_buf w') <= ahead (w_buf w))%nat
      end)).
  Proof.
    intros Hnd Hc Hm [tr [Hl Hd]] Hop Hs.
    split; [eapply step_nodup; [exact Hnd|exact Hs]|].
    destruct o as [now s|now ch|bytes ch|c|t0]; cbn [Collector.step op_after] in *.
    - (* span *)
      injection Hs as E. assert (Hw : w' = fst (Collector.step_span dry w now s)) by (rewrite E; reflexivity).
      subst w'. clear E. unfold Collector.step_span.
      destruct (alookup (s_tid s) (w_buf w)) as [tr0|] eqn:L0; unfold set_buf; cbn [fst w_buf w_cfg].
      + split; [exact Hc|]. split; [exact Hm|]. right. split.
        * unfold waiting. cbn [w_buf]. destruct (N.eq_dec t (s_tid s)) as [E|E].
          -- rewrite <- E in L0. assert (tr0 = tr) by congruence. subst tr0.
             exists (add_span (w_cfg w) now tr s). split; [rewrite <- E; apply alookup_aset_eq|].
             destruct (add_span_after (w_cfg w) now tr s Hc Hop) as [E1|E1]; [congruence|].
             pose proof (sendby_never_raised (w_cfg w) now tr s). lia.
          -- exists tr. split; [rewrite alookup_aset_neq by exact E; exact Hl|exact Hd].
        * unfold ahead, aset. cbn [filter]. rewrite (count_split pahead (s_tid s) tr0 (w_buf w) Hnd L0).
          destruct (pahead (s_tid s, add_span (w_cfg w) now tr0 s)) eqn:P; cbn [length]; [|lia].
          rewrite (pahead_add_span _ _ _ _ _ Hc Hop P). cbn [b2n]. lia.
      + destruct (alookup (s_tid s) (w_dec w)); unfold set_buf; cbn [fst w_buf w_cfg].
        * split; [exact Hc|]. split; [exact Hm|]. right. split; [exists tr; split; assumption|lia].
        * split; [exact Hc|]. split; [exact Hm|]. right. split.
          -- unfold waiting. cbn [w_buf]. exists tr. split; [|exact Hd].
             rewrite alookup_aset_neq; [exact Hl|]. intros E. rewrite E in Hl. congruence.
          -- unfold ahead, aset. cbn [filter]. rewrite (pahead_new _ _ _ _ Hc Hop).
             rewrite (aremove_absent _ _ L0). lia.
    - (* tick *)
      destruct (tick_spec _ _ _ _ _ _ _ Hs) as [Hb [Htaken [Hmax Hstop]]].
      destruct (step_tick_inv _ _ _ _ _ _ _ Hs) as [l [T [_ [Hcfg _]]]].
      rewrite Hcfg. split; [exact Hc|]. split; [exact Hm|].
      destruct (in_dec N.eq_dec t ch) as [Hin|Hnin].
      + left. rewrite Hb. destruct (alookup t (remove_all ch (w_buf w))) as [x|] eqn:L; [|reflexivity].
        apply alookup_In in L. apply In_remove_all in L. destruct L as [_ L]. contradiction.
      + right. assert (Hl' : alookup t (w_buf w') = Some tr) by (rewrite Hb, alookup_remove_all_notin by exact Hnin; exact Hl).
        split; [exists tr; split; assumption|].
        assert (Hrem : In (t, tr) (w_buf w')) by (apply alookup_In; exact Hl').
        destruct Hstop as [[Hpos Hfull]|Hnone]; [|specialize (Hnone _ Hrem); cbn in Hnone; lia].
        split; [exact Hpos|]. specialize (Hmax Hpos).
        assert (Hcount : (ahead (w_buf w') + length ch = ahead (w_buf w))%nat).
        { unfold ahead. rewrite Hb. apply count_remove_all_exact; [exact Hnd|eapply take_loop_nodup; exact T|].
          intros k Hk. destruct (Htaken k Hk) as [trk [Ha [_ Hc']]]. exists trk. split; [exact Ha|].
          specialize (Hc' _ Hrem). cbn in Hc'. unfold pahead. cbn [fst snd]. apply andb_true_iff. split.
          - apply Z.leb_le. lia.
          - apply negb_true_iff. apply N.eqb_neq. intros ->. contradiction. }
        lia.
    - (* eject *)
      destruct (eject_spec _ _ _ _ _ _ _ Hs) as [l [_ [Hb [_ [_ [_ [_ Hun]]]]]]].
      destruct (step_eject_inv _ _ _ _ _ _ _ Hs) as [l' [_ [_ [Hcfg _]]]].
      rewrite Hcfg. split; [exact Hc|]. split; [exact Hm|].
      destruct (in_dec N.eq_dec t ch) as [Hin|Hnin].
      + left. rewrite Hb. destruct (alookup t (remove_all ch (w_buf w))) as [x|] eqn:L; [|reflexivity].
        apply alookup_In in L. apply In_remove_all in L. destruct L as [_ L]. contradiction.
      + right. split; [exists tr; split; [rewrite (Hun t Hnin); exact Hl|exact Hd]|].
        unfold ahead. rewrite Hb. apply count_remove_all_le.
    - injection Hs as <- _. cbn [w_buf w_cfg]. destruct Hop as [Hc' Hm']. split; [exact Hc'|]. split; [exact Hm'|].
      right. split; [exists tr; split; assumption|lia].
    - injection Hs as <- _. cbn [w_buf w_cfg]. split; [exact Hc|]. split; [exact Hm|].
      right. split; [exists tr; split; assumption|lia].
  Qed.

  Fixpoint all_valid (w : wstate) (ops : list op) : Prop :=
    match ops with
    | [] => True
    | o :: r => step w o <> None /\ all_valid (fst (step_total w o)) r
    end.
  Definition is_tick (o : op) : bool := match o with OTick _ _ => true | _ => false end.
  Definition n_ticks (ops : list op) : Z := Z.of_nat (length (filter is_tick ops)).

  Theorem due_trace_decided_interleaved m : forall ops w,
    0 < m ->
    NoDup (akeys (w_buf w)) -> cfg_nonneg (w_cfg w) -> me_ok m (w_cfg w) -> waiting w ->
    Forall (op_after m) ops -> all_valid w ops ->
    Z.of_nat (ahead (w_buf w)) < m * n_ticks ops ->
    exists k, alookup t (w_buf (fst (run w (firstn k ops)))) = None.
  Proof.
    induction ops as [|o r IH]; intros w Hm Hnd Hc Hme Hw Hops Hval Hlt.
    - unfold n_ticks in Hlt. cbn in Hlt. lia.
    - inversion Hops as [|? ? Ho Hr]; subst. destruct Hval as [Hv Hval].
      destruct (step w o) as [[w1 e]|] eqn:Hstep; [|congruence].
      assert (Hst : step_total w o = (w1, e)) by (unfold Collector.step_total; rewrite Hstep; reflexivity).
      rewrite Hst in Hval. cbn [fst] in Hval.
      destruct (step_progress m w o w1 e Hnd Hc Hme Hw Ho Hstep) as [Hnd1 [Hc1 [Hme1 Hcase]]].
      destruct Hcase as [Hgone|[Hw1 Hmeasure]].
      + exists 1%nat. cbn [firstn]. rewrite run_cons, Hst. cbn [fst]. exact Hgone.
      + assert (Hlt1 : Z.of_nat (ahead (w_buf w1)) < m * n_ticks r).
        { unfold n_ticks in *. cbn [filter] in Hlt. destruct o as [now s|now ch|bytes ch|c|t0]; cbn [is_tick] in Hlt;
            try (cbn [length] in Hlt; lia).
          destruct Hmeasure as [Hpos Heq]. cbn [length] in Hlt.
          destruct Hme as [Hz|Hge]; [lia|]. nia. }
        destruct (IH w1 Hm Hnd1 Hc1 Hme1 Hw1 Hr Hval Hlt1) as [k Hk].
        exists (S k). cbn [firstn]. rewrite run_cons, Hst. cbn [fst]. exact Hk.
  Qed.
End Live.
