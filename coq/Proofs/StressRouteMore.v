(* C16, deepening: the contents of the specification lists. Together with
   [delivered_exactly] (what arrives = the specification lists, as multisets) these give: everything Honeycomb
   receives is intact (no probe, host Honeycomb, marked stressed or late), and the owning peer receives only probes
   (which it discards on receipt) and plain, unmarked forwards. *)
From Refinery Require Import Lib.Base Model.StressRoute.

Section More.
  Variable own : N -> N.
  Variable keep_rule : N -> bool.

  Definition up_shape (p : pay) : Prop :=
    p_probe p = false /\ p_host p = 0%N /\ (p_stressed p = true /\ p_late p = false \/ p_stressed p = false /\ p_late p = true).
  Definition pr_shape (p : pay) : Prop :=
    p_host p <> 0%N /\ p_host p = own (p_tid p) /\
    (p_probe p = true /\ p_stressed p = true \/ p_probe p = false /\ p_stressed p = false /\ p_late p = false).

  Lemma spec_up_shape : forall ops st seen buf, Forall up_shape (spec_up own keep_rule st seen buf ops).
  Proof.
    induction ops as [|o r IH]; intros st seen buf; [constructor|].
    destruct o as [sid tid key ds|b| | |psid ptid pkey pds]; cbn [spec_up]; try apply IH.
    apply Forall_app. split; [|apply IH].
    destruct (fate_of own keep_rule st seen buf tid); cbn [expect_up]; try constructor; try constructor;
      unfold up_shape; cbn; repeat split; auto.
  Qed.

  Lemma spec_pr_shape : forall ops st seen buf, Forall pr_shape (spec_pr own keep_rule st seen buf ops).
  Proof.
    induction ops as [|o r IH]; intros st seen buf; [constructor|].
    destruct o as [sid tid key ds|b| | |psid ptid pkey pds]; cbn [spec_pr]; try apply IH.
    apply Forall_app. split; [|apply IH].
    unfold fate_of. destruct st.
    - destruct (keep_rule tid); cbn [expect_pr]; [|constructor].
      destruct (N.eqb (own tid) 0) eqn:E; [constructor|]. apply N.eqb_neq in E.
      constructor; [|constructor]. unfold pr_shape. cbn. repeat split; auto.
    - destruct (N.eqb (own tid) 0) eqn:E.
      + destruct (mem_N tid buf); [constructor|]. destruct (mem_N tid seen); [destruct (keep_rule tid)|]; constructor.
      + apply N.eqb_neq in E. cbn [expect_pr]. constructor; [|constructor]. unfold pr_shape. cbn. repeat split; auto.
  Qed.

  (* the owner's collector (which discards probes on receipt) only ever gets plain forwards of unstressed times *)
  Lemma owner_collects_only_forwards ops st seen buf p :
    In p (spec_pr own keep_rule st seen buf ops) -> p_probe p = false -> p_stressed p = false /\ p_late p = false.
  Proof.
    intros Hin Hp. pose proof (spec_pr_shape ops st seen buf) as F. rewrite Forall_forall in F.
    destruct (F p Hin) as (_ & _ & [[Hpr _]|[_ [Hs Hl]]]); [congruence|split; assumption].
  Qed.
End More.
