(* Metrics store: every cell is a fold of the operations addressed to it; Get reads what was recorded. *)
From Refinery Require Import Lib.Base Model.Metrics.
From Coq Require Import ZifyN ZifyBool.

Definition slot_ok (sl : N) : Prop := (sl < 4)%N.

Lemma key_inj sl n sl' n' : slot_ok sl -> slot_ok sl' -> key sl n = key sl' n' -> sl = sl' /\ n = n'.
Proof. unfold slot_ok, key. lia. Qed.

Lemma target_slot_ok o sl n : target o = Some (sl, n) -> slot_ok sl.
Proof.
  unfold slot_ok. destruct o as [n0 k|n0|n0 c|n0 x|n0|n0|n0 x|n0|n0]; cbn [target]; try discriminate;
    try (intros [= <- <-]; cbv; reflexivity).
  destruct k; cbn [slot_of]; try discriminate; intros [= <- <-]; cbv; reflexivity.
Qed.

(* an operation only changes the cell it is addressed to, and always leaves that cell defined *)
Lemma eff_target reset o sl n v : target o = Some (sl, n) -> exists x, eff reset sl n o v = Some x.
Proof.
  destruct o as [n0 k|n0|n0 c|n0 x|n0|n0|n0 x|n0|n0]; cbn [target eff]; try discriminate.
  - destruct k; cbn [slot_of]; try discriminate; intros [= <- <-]; rewrite N.eqb_refl; cbn;
      destruct reset; [eauto|destruct v; eauto|eauto|destruct v; eauto|eauto|destruct v; eauto].
  - intros [= <- <-]. rewrite !N.eqb_refl. cbn. eauto.
  - intros [= <- <-]. rewrite !N.eqb_refl. cbn. eauto.
  - intros [= <- <-]. rewrite !N.eqb_refl. cbn. eauto.
  - intros [= <- <-]. rewrite !N.eqb_refl. cbn. eauto.
  - intros [= <- <-]. rewrite !N.eqb_refl. cbn. eauto.
  - intros [= <- <-]. rewrite !N.eqb_refl. cbn. eauto.
Qed.

Lemma eff_other reset o sl n v :
  (forall sl' n', target o = Some (sl', n') -> ~ (sl' = sl /\ n' = n)) -> eff reset sl n o v = v.
Proof.
  intros H. destruct o as [n0 k|n0|n0 c|n0 x|n0|n0|n0 x|n0|n0]; cbn [eff target] in *; try reflexivity.
  - destruct (N.eqb n0 n && option_eqb N.eqb (slot_of k) (Some sl)) eqn:E; [|reflexivity].
    apply andb_true_iff in E. destruct E as [E1 E2]. apply N.eqb_eq in E1. exfalso.
    destruct (slot_of k) as [s0|] eqn:Es; cbn [option_eqb] in E2; [|discriminate].
    apply N.eqb_eq in E2. apply (H s0 n0 eq_refl). split; congruence.
  - destruct (N.eqb n0 n && N.eqb sl s_counter) eqn:E; [|reflexivity].
    apply andb_true_iff in E. destruct E as [E1 E2]. apply N.eqb_eq in E1, E2. exfalso. apply (H _ _ eq_refl). split; congruence.
  - destruct (N.eqb n0 n && N.eqb sl s_counter) eqn:E; [|reflexivity].
    apply andb_true_iff in E. destruct E as [E1 E2]. apply N.eqb_eq in E1, E2. exfalso. apply (H _ _ eq_refl). split; congruence.
  - destruct (N.eqb n0 n && N.eqb sl s_gauge) eqn:E; [|reflexivity].
    apply andb_true_iff in E. destruct E as [E1 E2]. apply N.eqb_eq in E1, E2. exfalso. apply (H _ _ eq_refl). split; congruence.
  - destruct (N.eqb n0 n && N.eqb sl s_updown) eqn:E; [|reflexivity].
    apply andb_true_iff in E. destruct E as [E1 E2]. apply N.eqb_eq in E1, E2. exfalso. apply (H _ _ eq_refl). split; congruence.
  - destruct (N.eqb n0 n && N.eqb sl s_updown) eqn:E; [|reflexivity].
    apply andb_true_iff in E. destruct E as [E1 E2]. apply N.eqb_eq in E1, E2. exfalso. apply (H _ _ eq_refl). split; congruence.
  - destruct (N.eqb n0 n && N.eqb sl s_store) eqn:E; [|reflexivity].
    apply andb_true_iff in E. destruct E as [E1 E2]. apply N.eqb_eq in E1, E2. exfalso. apply (H _ _ eq_refl). split; congruence.
Qed.

Lemma cell_step reset s o sl n :
  slot_ok sl -> getc (fst (mstep reset s o)) sl n = eff reset sl n o (getc s sl n).
Proof.
  intros Hsl. destruct (target o) as [[sl' n']|] eqn:Et.
  - assert (Hstep : fst (mstep reset s o) =
                    {| cells := match eff reset sl' n' o (getc s sl' n') with
                                | Some v => aset (key sl' n') v (cells s) | None => cells s end;
                       types := match o with MReg n0 k => aset n0 k (types s) | _ => types s end |}).
    { destruct o as [n0 k|n0|n0 c|n0 x|n0|n0|n0 x|n0|n0]; cbn [mstep target fst] in *; try discriminate;
        try (injection Et as <- <-; reflexivity).
      destruct k; cbn [slot_of] in *; try discriminate; injection Et as <- <-; reflexivity. }
    rewrite Hstep. unfold getc at 1. cbn [cells].
    destruct (eff_target reset o sl' n' (getc s sl' n') Et) as [x Hx]. rewrite Hx.
    pose proof (target_slot_ok o sl' n' Et) as Hsl'.
    destruct (N.eq_dec (key sl n) (key sl' n')) as [Ek|Ek].
    + destruct (key_inj sl n sl' n' Hsl Hsl' Ek) as [-> ->]. rewrite alookup_aset_eq. symmetry. exact Hx.
    + rewrite alookup_aset_neq by exact Ek. symmetry. apply eff_other.
      intros s0 n0 E [-> ->]. rewrite Et in E. injection E as -> ->. apply Ek. reflexivity.
  - assert (Hc : cells (fst (mstep reset s o)) = cells s).
    { destruct o as [n0 k|n0|n0 c|n0 x|n0|n0|n0 x|n0|n0]; cbn [mstep target fst cells] in *; try discriminate; try reflexivity.
      destruct k; cbn [slot_of] in *; try discriminate; reflexivity. }
    unfold getc at 1. rewrite Hc. symmetry. apply eff_other. intros s0 n0 E. rewrite Et in E. discriminate.
Qed.

Lemma mrun_cons_fst reset s o r : fst (mrun reset s (o :: r)) = fst (mrun reset (fst (mstep reset s o)) r).
Proof.
  cbn [mrun]. destruct (mstep reset s o) as [s1 out]. cbn [fst]. destruct (mrun reset s1 r) as [s2 outs]. reflexivity.
Qed.

(* every cell is the fold of the operations over its initial content *)
Theorem cell_run reset ops : forall s sl n,
  slot_ok sl -> getc (fst (mrun reset s ops)) sl n = fold_left (fun v o => eff reset sl n o v) ops (getc s sl n).
Proof.
  induction ops as [|o r IH]; intros s sl n Hsl; [reflexivity|].
  rewrite mrun_cons_fst, IH by exact Hsl. cbn [fold_left]. rewrite cell_step by exact Hsl. reflexivity.
Qed.

Lemma types_step reset s o n :
  alookup n (types (fst (mstep reset s o))) =
  match o with MReg n0 k => if N.eqb n n0 then Some k else alookup n (types s) | _ => alookup n (types s) end.
Proof.
  destruct o as [n0 k|n0|n0 c|n0 x|n0|n0|n0 x|n0|n0]; cbn [mstep fst types]; try reflexivity.
  destruct (N.eqb n n0) eqn:E.
  - apply N.eqb_eq in E. subst. apply alookup_aset_eq.
  - apply N.eqb_neq in E. apply alookup_aset_neq. exact E.
Qed.

(* ---------- folds under a consistent use of the name ---------- *)
Lemma w64_idem a : w64 (w64 a) = w64 a.
Proof. unfold w64. apply Z.mod_mod. lia. Qed.
Lemma w64_add_l a b : w64 (w64 a + b) = w64 (a + b).
Proof. unfold w64. apply Zplus_mod_idemp_l. Qed.
Lemma w64_add_r a b : w64 (a + w64 b) = w64 (a + b).
Proof. unfold w64. apply Zplus_mod_idemp_r. Qed.

Definition reg_or_used (name : N) (ops : list mop) : bool := existsb (touches name) ops.

(* simpler: track the cell as "Some (w64 total)" once it exists *)
Lemma counter_fold name ops : forall t,
  forallb (uses_as KCounter name) ops = true ->
  fold_left (fun v o => eff false s_counter name o v) ops (Some (w64 t)) = Some (w64 (t + csum name ops)).
Proof.
  induction ops as [|o r IH]; intros t H; cbn [fold_left csum]; [rewrite Z.add_0_r; reflexivity|].
  cbn [forallb] in H. apply andb_true_iff in H. destruct H as [Ho Hr].
  destruct o as [n0 k|n0|n0 c|n0 x|n0|n0|n0 x|n0|n0]; cbn [eff uses_as] in *;
    try (rewrite IH by exact Hr; reflexivity).
  - destruct (N.eqb n0 name && option_eqb N.eqb (slot_of k) (Some s_counter)); cbn; rewrite IH by exact Hr; reflexivity.
  - destruct (N.eqb n0 name) eqn:E; cbn [andb negb orb] in *.
    + change (N.eqb s_counter s_counter) with true. cbn [cur0]. rewrite w64_add_l, IH by exact Hr. do 2 f_equal; try lia.
    + rewrite IH by exact Hr. do 2 f_equal; try lia.
  - destruct (N.eqb n0 name) eqn:E; cbn [andb negb orb] in *.
    + change (N.eqb s_counter s_counter) with true. cbn [cur0]. rewrite w64_add_r, w64_add_l, IH by exact Hr. do 2 f_equal; try lia.
    + rewrite IH by exact Hr. do 2 f_equal; try lia.
  - change (N.eqb s_counter s_gauge) with false; rewrite andb_false_r; rewrite IH by exact Hr; reflexivity.
  - change (N.eqb s_counter s_updown) with false; rewrite andb_false_r; rewrite IH by exact Hr; reflexivity.
  - change (N.eqb s_counter s_updown) with false; rewrite andb_false_r; rewrite IH by exact Hr; reflexivity.
  - change (N.eqb s_counter s_store) with false; rewrite andb_false_r; rewrite IH by exact Hr; reflexivity.
Qed.

(* from an absent cell: absent until the first registration or use, then Some (w64 (sum)) *)
Lemma counter_fold_none name ops :
  forallb (uses_as KCounter name) ops = true ->
  fold_left (fun v o => eff false s_counter name o v) ops None =
  if reg_or_used name ops then Some (w64 (csum name ops)) else None.
Proof.
  induction ops as [|o r IH]; intros H; [reflexivity|].
  cbn [forallb] in H. apply andb_true_iff in H. destruct H as [Ho Hr].
  unfold reg_or_used in *. cbn [fold_left existsb csum].
  assert (Hw0 : Some 0 = Some (w64 0)) by reflexivity.
  destruct o as [n0 k|n0|n0 c|n0 x|n0|n0|n0 x|n0|n0]; cbn [eff uses_as touches target] in *.
  - destruct (N.eqb n0 name) eqn:E; cbn [negb orb andb] in *.
    + destruct k; try discriminate. cbn [slot_of option_eqb touches target]. rewrite ?E. change (N.eqb s_counter s_counter) with true.
      change (N.eqb s_counter s_store) with false. cbn [andb negb orb]. rewrite Hw0, counter_fold by exact Hr. reflexivity.
    + destruct k; cbn [slot_of touches target]; rewrite ?E; cbn [andb orb]; apply IH; exact Hr.
  - destruct (N.eqb n0 name) eqn:E; cbn [negb orb andb] in *.
    + change (N.eqb s_counter s_counter) with true. change (N.eqb s_counter s_store) with false. cbn [andb negb orb cur0].
      rewrite counter_fold by exact Hr. do 2 f_equal; try lia.
    + rewrite IH by exact Hr. destruct (existsb _ r); [do 2 f_equal; try lia|reflexivity].
  - destruct (N.eqb n0 name) eqn:E; cbn [negb orb andb] in *.
    + change (N.eqb s_counter s_counter) with true. change (N.eqb s_counter s_store) with false. cbn [andb negb orb cur0].
      rewrite w64_add_r, counter_fold by exact Hr. do 2 f_equal; try lia.
    + rewrite IH by exact Hr. destruct (existsb _ r); [do 2 f_equal; try lia|reflexivity].
  - destruct (N.eqb n0 name) eqn:E; cbn [negb orb andb] in *; [discriminate|]. apply IH; exact Hr.
  - destruct (N.eqb n0 name) eqn:E; cbn [negb orb andb] in *; [discriminate|]. apply IH; exact Hr.
  - destruct (N.eqb n0 name) eqn:E; cbn [negb orb andb] in *; [discriminate|]. apply IH; exact Hr.
  - destruct (N.eqb n0 name) eqn:E; cbn [negb orb andb] in *; [discriminate|]. apply IH; exact Hr.
  - apply IH; exact Hr.
  - apply IH; exact Hr.
Qed.

(* the cells of the other kinds, and the store of that name, are never created *)
Lemma other_fold reset k name sl ops :
  slot_of k <> Some sl -> sl <> s_store \/ True ->
  forallb (uses_as k name) ops = true ->
  (sl = s_counter \/ sl = s_gauge \/ sl = s_updown \/ sl = s_store) ->
  match k with KHist => False | _ => True end ->
  fold_left (fun v o => eff reset sl name o v) ops None = None.
Proof.
  intros Hk _ H Hsl Hkk. induction ops as [|o r IH]; [reflexivity|].
  cbn [forallb] in H. apply andb_true_iff in H. destruct H as [Ho Hr]. cbn [fold_left].
  replace (eff reset sl name o None) with (@None Z); [apply IH; exact Hr|]. symmetry.
  destruct o as [n0 k0|n0|n0 c|n0 x|n0|n0|n0 x|n0|n0]; cbn [eff uses_as] in *; try reflexivity;
    destruct (N.eqb n0 name) eqn:E; cbn [andb negb orb] in *; try reflexivity.
  - destruct k, k0; try discriminate; cbn [slot_of option_eqb] in *;
      destruct Hsl as [->|[->|[->| ->]]]; try reflexivity; exfalso; apply Hk; reflexivity.
  - destruct k; try discriminate. destruct Hsl as [->|[->|[->| ->]]]; try reflexivity. exfalso. apply Hk. reflexivity.
  - destruct k; try discriminate. destruct Hsl as [->|[->|[->| ->]]]; try reflexivity. exfalso. apply Hk. reflexivity.
  - destruct k; try discriminate. destruct Hsl as [->|[->|[->| ->]]]; try reflexivity. exfalso. apply Hk. reflexivity.
  - destruct k; try discriminate. destruct Hsl as [->|[->|[->| ->]]]; try reflexivity. exfalso. apply Hk. reflexivity.
  - destruct k; try discriminate. destruct Hsl as [->|[->|[->| ->]]]; try reflexivity. exfalso. apply Hk. reflexivity.
  - discriminate.
Qed.

Lemma types_run reset k name ops : forall s,
  forallb (uses_as k name) ops = true ->
  (alookup name (types s) = None \/ alookup name (types s) = Some k) ->
  (alookup name (types (fst (mrun reset s ops))) = None \/ alookup name (types (fst (mrun reset s ops))) = Some k).
Proof.
  induction ops as [|o r IH]; intros s H Hs; [exact Hs|].
  cbn [forallb] in H. apply andb_true_iff in H. destruct H as [Ho Hr].
  rewrite mrun_cons_fst. apply IH; [exact Hr|]. rewrite types_step.
  destruct o as [n0 k0|n0|n0 c|n0 x|n0|n0|n0 x|n0|n0]; try exact Hs.
  cbn [uses_as] in Ho. rewrite (N.eqb_sym name n0). destruct (N.eqb n0 name); [|exact Hs].
  cbn [negb orb] in Ho. right. destruct k, k0; try discriminate; reflexivity.
Qed.

(* registered implies the cell exists (after the fix and before it alike) *)
Lemma registered_cell reset name k sl ops : forall s,
  slot_of k = Some sl -> slot_ok sl ->
  (alookup name (types s) = Some k -> getc s sl name <> None) ->
  forallb (uses_as k name) ops = true ->
  alookup name (types (fst (mrun reset s ops))) = Some k -> getc (fst (mrun reset s ops)) sl name <> None.
Proof.
  intros s Hk Hsl. revert s. induction ops as [|o r IH]; intros s Hs H Ht; [apply Hs; exact Ht|].
  cbn [forallb] in H. apply andb_true_iff in H. destruct H as [Ho Hr].
  rewrite mrun_cons_fst in *. apply IH; [|exact Hr|exact Ht].
  rewrite types_step, cell_step by exact Hsl. intros Hty.
  destruct o as [n0 k0|n0|n0 c|n0 x|n0|n0|n0 x|n0|n0]; cbn [eff];
    try (specialize (Hs Hty); destruct (_ && _); [discriminate|exact Hs]); try (apply Hs; exact Hty).
  destruct (N.eqb name n0) eqn:E.
  - injection Hty as ->. apply N.eqb_eq in E. subst n0. rewrite N.eqb_refl, Hk. cbn [option_eqb]. rewrite N.eqb_refl.
    cbn [andb]. destruct reset; [discriminate|destruct (getc s sl name); discriminate].
  - specialize (Hs Hty). destruct (N.eqb n0 name && _); [destruct reset; [discriminate|destruct (getc s sl name); [discriminate|contradiction]]|exact Hs].
Qed.

(* ---------- Get returns what was recorded ---------- *)
Theorem get_counter name ops :
  forallb (uses_as KCounter name) ops = true ->
  mget (fst (mrun false minit ops)) name =
  if reg_or_used name ops then Some (w64 (csum name ops)) else None.
Proof.
  intros H. set (s := fst (mrun false minit ops)).
  assert (Hc : getc s s_counter name = if reg_or_used name ops then Some (w64 (csum name ops)) else None).
  { subst s. rewrite cell_run by (cbv; reflexivity). apply counter_fold_none. exact H. }
  assert (Hn : forall sl, sl = s_gauge \/ sl = s_updown \/ sl = s_store -> getc s sl name = None).
  { intros sl Hsl. subst s. rewrite cell_run by (destruct Hsl as [->|[->| ->]]; cbv; reflexivity).
    apply (other_fold false KCounter); [destruct Hsl as [->|[->| ->]]; discriminate|right; exact I|exact H|tauto|exact I]. }
  pose proof (types_run false KCounter name ops minit H (or_introl eq_refl)) as Ht. fold s in Ht.
  unfold mget. rewrite (Hn s_store) by tauto.
  destruct Ht as [Ht|Ht]; rewrite Ht.
  - rewrite Hc, (Hn s_gauge), (Hn s_updown) by tauto. destruct (reg_or_used name ops); reflexivity.
  - exact Hc.
Qed.

(* a counter never decreases and is the plain sum while it stays below 2^64 *)
Lemma csum_app name a b : csum name (a ++ b) = csum name a + csum name b.
Proof.
  induction a as [|o r IH]; cbn [app csum]; [reflexivity|].
  destruct o; try exact IH; rewrite IH; lia.
Qed.
Lemma csum_nonneg name ops : forallb (uses_as KCounter name) ops = true -> 0 <= csum name ops.
Proof.
  induction ops as [|o r IH]; intros H; cbn [csum]; [lia|].
  cbn [forallb] in H. apply andb_true_iff in H. destruct H as [Ho Hr]. specialize (IH Hr).
  destruct o as [n0 k|n0|n0 c|n0 x|n0|n0|n0 x|n0|n0]; try exact IH.
  - destruct (N.eqb n0 name); lia.
  - cbn [uses_as] in Ho. destruct (N.eqb n0 name); cbn [negb orb] in Ho; [|lia].
    apply andb_true_iff in Ho. destruct Ho as [_ Hc]. apply Z.leb_le in Hc. lia.
Qed.
Theorem counter_monotone name a b :
  forallb (uses_as KCounter name) (a ++ b) = true -> csum name a <= csum name (a ++ b).
Proof.
  intros H. rewrite csum_app. rewrite forallb_app in H. apply andb_true_iff in H. destruct H as [_ Hb].
  pose proof (csum_nonneg name b Hb). lia.
Qed.
Lemma w64_small v : 0 <= v < 18446744073709551616 -> w64 v = v.
Proof. intros H. unfold w64. apply Z.mod_small. exact H. Qed.

(* gauges: the last value set (0 if only registered); updowns: ups minus downs *)
Lemma lastset_acc sl name ops : forall acc,
  lastset sl name ops acc = match lastset sl name ops None with Some x => Some x | None => acc end.
Proof.
  induction ops as [|o r IH]; intros acc; [reflexivity|]. destruct o; cbn [lastset]; try apply IH.
  - destruct (N.eqb name0 name && N.eqb sl s_gauge); [rewrite (IH (Some v)); destruct (lastset sl name r None); reflexivity|apply IH].
  - destruct (N.eqb name0 name && N.eqb sl s_store); [rewrite (IH (Some v)); destruct (lastset sl name r None); reflexivity|apply IH].
Qed.

Lemma gauge_fold name ops : forall v,
  forallb (uses_as KGauge name) ops = true ->
  fold_left (fun v o => eff false s_gauge name o v) ops v =
  match lastset s_gauge name ops None with
  | Some x => Some x
  | None => if reg_or_used name ops then Some (cur0 v) else v
  end.
Proof.
  induction ops as [|o r IH]; intros v H; [reflexivity|].
  cbn [forallb] in H. apply andb_true_iff in H. destruct H as [Ho Hr].
  unfold reg_or_used in *. cbn [fold_left existsb lastset].
  destruct o as [n0 k|n0|n0 c|n0 x|n0|n0|n0 x|n0|n0]; cbn [eff uses_as touches target] in *.
  - destruct (N.eqb n0 name) eqn:E; cbn [negb orb andb] in *.
    + destruct k; try discriminate. cbn [slot_of option_eqb touches target]. rewrite ?E. change (N.eqb s_gauge s_gauge) with true.
      change (N.eqb s_gauge s_store) with false. cbn [andb negb orb]. rewrite IH by exact Hr.
      destruct (lastset s_gauge name r None); [reflexivity|]. destruct v; destruct (existsb _ r); reflexivity.
    + destruct k; cbn [slot_of touches target]; rewrite ?E; cbn [andb orb]; apply IH; exact Hr.
  - destruct (N.eqb n0 name) eqn:E; cbn [negb orb andb] in *; [discriminate|]. apply IH; exact Hr.
  - destruct (N.eqb n0 name) eqn:E; cbn [negb orb andb] in *; [discriminate|]. apply IH; exact Hr.
  - destruct (N.eqb n0 name) eqn:E; cbn [negb orb andb] in *.
    + change (N.eqb s_gauge s_gauge) with true. change (N.eqb s_gauge s_store) with false. cbn [andb negb orb].
      rewrite IH by exact Hr. rewrite (lastset_acc s_gauge name r (Some x)).
      destruct (lastset s_gauge name r None); [reflexivity|]. destruct (existsb _ r); reflexivity.
    + apply IH; exact Hr.
  - destruct (N.eqb n0 name) eqn:E; cbn [negb orb andb] in *; [discriminate|]. apply IH; exact Hr.
  - destruct (N.eqb n0 name) eqn:E; cbn [negb orb andb] in *; [discriminate|]. apply IH; exact Hr.
  - destruct (N.eqb n0 name) eqn:E; cbn [negb orb andb] in *; [discriminate|]. apply IH; exact Hr.
  - apply IH; exact Hr.
  - apply IH; exact Hr.
Qed.

Theorem get_gauge name ops :
  forallb (uses_as KGauge name) ops = true ->
  mget (fst (mrun false minit ops)) name =
  match lastset s_gauge name ops None with
  | Some x => Some x
  | None => if reg_or_used name ops then Some 0 else None
  end.
Proof.
  intros H. set (s := fst (mrun false minit ops)).
  assert (Hc : getc s s_gauge name = match lastset s_gauge name ops None with
                                     | Some x => Some x | None => if reg_or_used name ops then Some 0 else None end).
  { subst s. rewrite cell_run by (cbv; reflexivity). rewrite gauge_fold by exact H. reflexivity. }
  assert (Hn : forall sl, sl = s_counter \/ sl = s_updown \/ sl = s_store -> getc s sl name = None).
  { intros sl Hsl. subst s. rewrite cell_run by (destruct Hsl as [->|[->| ->]]; cbv; reflexivity).
    apply (other_fold false KGauge); [destruct Hsl as [->|[->| ->]]; discriminate|right; exact I|exact H|tauto|exact I]. }
  pose proof (types_run false KGauge name ops minit H (or_introl eq_refl)) as Ht. fold s in Ht.
  unfold mget. rewrite (Hn s_store) by tauto.
  destruct Ht as [Ht|Ht]; rewrite Ht.
  - rewrite (Hn s_counter), Hc by tauto. destruct (lastset s_gauge name ops None); [reflexivity|].
    destruct (reg_or_used name ops); [reflexivity|apply Hn; tauto].
  - exact Hc.
Qed.

Lemma updown_fold name ops : forall t,
  forallb (uses_as KUpDown name) ops = true ->
  fold_left (fun v o => eff false s_updown name o v) ops (Some t) = Some (t + udsum name ops).
Proof.
  induction ops as [|o r IH]; intros t H; cbn [fold_left udsum]; [rewrite Z.add_0_r; reflexivity|].
  cbn [forallb] in H. apply andb_true_iff in H. destruct H as [Ho Hr].
  destruct o as [n0 k|n0|n0 c|n0 x|n0|n0|n0 x|n0|n0]; cbn [eff uses_as] in *;
    try (rewrite IH by exact Hr; reflexivity).
  - destruct (N.eqb n0 name && option_eqb N.eqb (slot_of k) (Some s_updown)); cbn; rewrite IH by exact Hr; reflexivity.
  - change (N.eqb s_updown s_counter) with false; rewrite andb_false_r; rewrite IH by exact Hr; reflexivity.
  - change (N.eqb s_updown s_counter) with false; rewrite andb_false_r; rewrite IH by exact Hr; reflexivity.
  - change (N.eqb s_updown s_gauge) with false; rewrite andb_false_r; rewrite IH by exact Hr; reflexivity.
  - destruct (N.eqb n0 name) eqn:E; cbn [andb].
    + change (N.eqb s_updown s_updown) with true. cbn [cur0]. rewrite IH by exact Hr. f_equal; try lia.
    + rewrite IH by exact Hr. f_equal; try lia.
  - destruct (N.eqb n0 name) eqn:E; cbn [andb].
    + change (N.eqb s_updown s_updown) with true. cbn [cur0]. rewrite IH by exact Hr. f_equal; try lia.
    + rewrite IH by exact Hr. f_equal; try lia.
  - change (N.eqb s_updown s_store) with false; rewrite andb_false_r; rewrite IH by exact Hr; reflexivity.
Qed.

Lemma updown_fold_none name ops :
  forallb (uses_as KUpDown name) ops = true ->
  fold_left (fun v o => eff false s_updown name o v) ops None =
  if reg_or_used name ops then Some (udsum name ops) else None.
Proof.
  induction ops as [|o r IH]; intros H; [reflexivity|].
  cbn [forallb] in H. apply andb_true_iff in H. destruct H as [Ho Hr].
  unfold reg_or_used in *. cbn [fold_left existsb udsum].
  destruct o as [n0 k|n0|n0 c|n0 x|n0|n0|n0 x|n0|n0]; cbn [eff uses_as touches target] in *.
  - destruct (N.eqb n0 name) eqn:E; cbn [negb orb andb] in *.
    + destruct k; try discriminate. cbn [slot_of option_eqb touches target]. rewrite ?E. change (N.eqb s_updown s_updown) with true.
      change (N.eqb s_updown s_store) with false. cbn [andb negb orb]. rewrite updown_fold by exact Hr. reflexivity.
    + destruct k; cbn [slot_of touches target]; rewrite ?E; cbn [andb orb]; apply IH; exact Hr.
  - destruct (N.eqb n0 name) eqn:E; cbn [negb orb andb] in *; [discriminate|]. apply IH; exact Hr.
  - destruct (N.eqb n0 name) eqn:E; cbn [negb orb andb] in *; [discriminate|]. apply IH; exact Hr.
  - destruct (N.eqb n0 name) eqn:E; cbn [negb orb andb] in *; [discriminate|]. apply IH; exact Hr.
  - destruct (N.eqb n0 name) eqn:E; cbn [negb orb andb] in *.
    + change (N.eqb s_updown s_updown) with true. change (N.eqb s_updown s_store) with false. cbn [andb negb orb cur0].
      rewrite updown_fold by exact Hr. f_equal; try lia.
    + rewrite IH by exact Hr. destruct (existsb _ r); [f_equal; try lia|reflexivity].
  - destruct (N.eqb n0 name) eqn:E; cbn [negb orb andb] in *.
    + change (N.eqb s_updown s_updown) with true. change (N.eqb s_updown s_store) with false. cbn [andb negb orb cur0].
      rewrite updown_fold by exact Hr. f_equal; try lia.
    + rewrite IH by exact Hr. destruct (existsb _ r); [f_equal; try lia|reflexivity].
  - destruct (N.eqb n0 name) eqn:E; cbn [negb orb andb] in *; [discriminate|]. apply IH; exact Hr.
  - apply IH; exact Hr.
  - apply IH; exact Hr.
Qed.

Theorem get_updown name ops :
  forallb (uses_as KUpDown name) ops = true ->
  mget (fst (mrun false minit ops)) name =
  if reg_or_used name ops then Some (udsum name ops) else None.
Proof.
  intros H. set (s := fst (mrun false minit ops)).
  assert (Hc : getc s s_updown name = if reg_or_used name ops then Some (udsum name ops) else None).
  { subst s. rewrite cell_run by (cbv; reflexivity). apply updown_fold_none. exact H. }
  assert (Hn : forall sl, sl = s_counter \/ sl = s_gauge \/ sl = s_store -> getc s sl name = None).
  { intros sl Hsl. subst s. rewrite cell_run by (destruct Hsl as [->|[->| ->]]; cbv; reflexivity).
    apply (other_fold false KUpDown); [destruct Hsl as [->|[->| ->]]; discriminate|right; exact I|exact H|tauto|exact I]. }
  pose proof (types_run false KUpDown name ops minit H (or_introl eq_refl)) as Ht. fold s in Ht.
  unfold mget. rewrite (Hn s_store) by tauto.
  destruct Ht as [Ht|Ht]; rewrite Ht.
  - rewrite (Hn s_counter), (Hn s_gauge), Hc by tauto. reflexivity.
  - exact Hc.
Qed.

(* the pinned code: registering again resets the counter *)
Lemma reregister_refuted :
  snd (mrun true minit [MReg 1 KCounter; MInc 1; MInc 1; MGet 1; MReg 1 KCounter; MGet 1; MInc 1; MGet 1]%N) =
    [Some 2; Some 0; Some 1].
Proof. vm_compute. reflexivity. Qed.

(* ---------- interleavings of atomic operations ---------- *)
(* Any interleaving of the threads' operation lists is a permutation of their concatenation; the
   final counter does not depend on which one happened. (Each operation is taken as one atomic step:
   see the assumptions of C33.) *)
From Coq Require Import Sorting.Permutation.

Lemma csum_perm name a b : Permutation a b -> csum name a = csum name b.
Proof.
  induction 1 as [|x l l' _ IH|x y l|l l' l'' _ IH1 _ IH2]; [reflexivity| | |congruence].
  - destruct x; cbn [csum]; rewrite ?IH; reflexivity.
  - destruct x, y; cbn [csum]; lia.
Qed.
Lemma udsum_perm name a b : Permutation a b -> udsum name a = udsum name b.
Proof.
  induction 1 as [|x l l' _ IH|x y l|l l' l'' _ IH1 _ IH2]; [reflexivity| | |congruence].
  - destruct x; cbn [udsum]; rewrite ?IH; reflexivity.
  - destruct x, y; cbn [udsum]; lia.
Qed.
Lemma forallb_perm {A} (f : A -> bool) a b : Permutation a b -> forallb f a = forallb f b.
Proof.
  induction 1 as [|x l l' _ IH|x y l|l l' l'' _ IH1 _ IH2]; [reflexivity| | |congruence]; cbn [forallb].
  - rewrite IH. reflexivity.
  - destruct (f x), (f y); reflexivity.
Qed.
Lemma existsb_perm {A} (f : A -> bool) a b : Permutation a b -> existsb f a = existsb f b.
Proof.
  induction 1 as [|x l l' _ IH|x y l|l l' l'' _ IH1 _ IH2]; [reflexivity| | |congruence]; cbn [existsb].
  - rewrite IH. reflexivity.
  - destruct (f x), (f y); reflexivity.
Qed.

Theorem interleaved_counter name (threads : list (list mop)) ops :
  Permutation (concat threads) ops ->
  forallb (uses_as KCounter name) (concat threads) = true ->
  mget (fst (mrun false minit ops)) name =
  if reg_or_used name (concat threads) then Some (w64 (csum name (concat threads))) else None.
Proof.
  intros Hp H. rewrite get_counter by (rewrite <- (forallb_perm _ _ _ Hp); exact H).
  unfold reg_or_used. rewrite <- (existsb_perm _ _ _ Hp), <- (csum_perm name _ _ Hp). reflexivity.
Qed.

Theorem interleaved_updown name (threads : list (list mop)) ops :
  Permutation (concat threads) ops ->
  forallb (uses_as KUpDown name) (concat threads) = true ->
  mget (fst (mrun false minit ops)) name =
  if reg_or_used name (concat threads) then Some (udsum name (concat threads)) else None.
Proof.
  intros Hp H. rewrite get_updown by (rewrite <- (forallb_perm _ _ _ Hp); exact H).
  unfold reg_or_used. rewrite <- (existsb_perm _ _ _ Hp), <- (udsum_perm name _ _ Hp). reflexivity.
Qed.
