(* C17, deepening: what WhichShard computes. With the strict comparison of the source, the scan returns the
   partition with the greatest trace hash (the FIRST such partition in the list order), or the initial index 0
   when every trace hash is 0. *)
From Refinery Require Import Lib.Base Model.Shard.

Section Max.
  Variable H : string -> N -> N.
  Variable tid : string.
  Definition hval (p : part) : N := H tid (uhash p).

  Lemma scan_strict_spec : forall hs b mx,
    (scan H true tid hs b mx = b /\ Forall (fun p => (hval p <= mx)%N) hs) \/
    (exists p, In p hs /\ scan H true tid hs b mx = pix p /\ (mx < hval p)%N /\
               Forall (fun q => (hval q <= hval p)%N) hs).
  Proof.
    induction hs as [|p r IH]; intros b mx; cbn [scan].
    - left. split; [reflexivity|constructor].
    - unfold better. fold (hval p). destruct (N.ltb mx (hval p)) eqn:E.
      + apply N.ltb_lt in E. destruct (IH (pix p) (hval p)) as [[Eq F]|[q [Hq [Eq [Lt F]]]]].
        * right. exists p. split; [left; reflexivity|]. split; [exact Eq|]. split; [exact E|].
          constructor; [lia|exact F].
        * right. exists q. split; [right; exact Hq|]. split; [exact Eq|]. split; [lia|].
          constructor; [lia|exact F].
      + apply N.ltb_ge in E. destruct (IH b mx) as [[Eq F]|[q [Hq [Eq [Lt F]]]]].
        * left. split; [exact Eq|]. constructor; [exact E|exact F].
        * right. exists q. split; [right; exact Hq|]. split; [exact Eq|]. split; [exact Lt|].
          constructor; [lia|exact F].
  Qed.

  (* WhichShard: the owner is peers[0] when all trace hashes are 0, else the address of a partition whose trace
     hash is positive and maximal over ALL partitions *)
  Lemma owner_is_argmax lp hs :
    (owner H true lp hs tid = nth 0 lp EmptyString /\ Forall (fun p => hval p = 0%N) hs) \/
    (exists p, In p hs /\ owner H true lp hs tid = nth (pix p) lp EmptyString /\ (0 < hval p)%N /\
               Forall (fun q => (hval q <= hval p)%N) hs).
  Proof.
    unfold owner. destruct (scan_strict_spec hs 0%nat 0%N) as [[Eq F]|[p [Hp [Eq [Lt F]]]]].
    - left. rewrite Eq. split; [reflexivity|]. eapply Forall_impl; [|exact F]. intros q Hq. cbn beta in Hq. lia.
    - right. exists p. rewrite Eq. repeat split; assumption.
  Qed.
End Max.
