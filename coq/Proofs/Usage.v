(* Usage tracker: sent + pending = growth, for every history of readings, reports and send outcomes. *)
From Refinery Require Import Lib.Base Model.Usage.

Lemma tot_aset k v m k' : tot (aset k v m) k' = if N.eqb k' k then v else tot m k'.
Proof.
  unfold tot. destruct (N.eqb k' k) eqn:E.
  - apply N.eqb_eq in E. subst. rewrite alookup_aset_eq. reflexivity.
  - apply N.eqb_neq in E. rewrite alookup_aset_neq by exact E. reflexivity.
Qed.

Lemma tot_nil k : tot [] k = 0.
Proof. reflexivity. Qed.

Lemma tot_addv k v m k' : tot (addv k v m) k' = tot m k' + (if N.eqb k k' then v else 0).
Proof.
  unfold addv. rewrite tot_aset. rewrite (N.eqb_sym k k').
  destruct (N.eqb k' k) eqn:E; [apply N.eqb_eq in E; subst; reflexivity|lia].
Qed.

Lemma tot_merge extra m k : tot (merge extra m) k = tot m k + psum extra k.
Proof.
  induction extra as [|[k' v] r IH]; [cbn; lia|].
  cbn [merge fold_right fst snd]. fold (merge r m). rewrite tot_addv, IH.
  unfold psum. cbn [fold_right fst snd]. lia.
Qed.

Lemma psum_app a b k : psum (a ++ b) k = psum a k + psum b k.
Proof. induction a as [|x r IH]; cbn [app psum fold_right]; [reflexivity|]. fold (psum (r ++ b) k) (psum r k). lia. Qed.

Lemma psum_notin m k : ~ In k (akeys m) -> psum m k = 0.
Proof.
  induction m as [|[k' v] r IH]; cbn [psum fold_right akeys map fst snd In]; intros H; [reflexivity|].
  fold (psum r k). destruct (N.eqb k' k) eqn:E.
  - apply N.eqb_eq in E. exfalso. apply H. left. exact E.
  - rewrite IH; [reflexivity|]. intros Hin. apply H. right. exact Hin.
Qed.

Lemma psum_tot m k : NoDup (akeys m) -> psum m k = tot m k.
Proof.
  induction m as [|[k' v] r IH]; cbn [psum fold_right akeys map fst snd]; intros H; [reflexivity|].
  fold (psum r k). inversion H as [|? ? Hn Hr]; subst. unfold tot. cbn [alookup]. rewrite (N.eqb_sym k k').
  destruct (N.eqb k' k) eqn:E.
  - apply N.eqb_eq in E. subst k'. rewrite (psum_notin r k Hn). lia.
  - rewrite (IH Hr). unfold tot. lia.
Qed.

Lemma NoDup_addv k v m : NoDup (akeys m) -> NoDup (akeys (addv k v m)).
Proof. apply NoDup_akeys_aset. Qed.
Lemma NoDup_merge extra m : NoDup (akeys m) -> NoDup (akeys (merge extra m)).
Proof. induction extra as [|x r IH]; intros H; cbn [merge fold_right]; [exact H|]. apply NoDup_addv, IH, H. Qed.

Lemma urun_cons_fst s o r : fst (urun s (o :: r)) = fst (urun (fst (ustep s o)) r).
Proof.
  unfold urun, ustep. cbn [urun_gen]. destruct (ustep_gen true s o) as [s1 out]. cbn [fst snd].
  destruct (urun_gen true s1 r) as [s2 outs]. reflexivity.
Qed.
Lemma urun_cons_snd s o r : snd (urun s (o :: r)) = snd (ustep s o) :: snd (urun (fst (ustep s o)) r).
Proof.
  unfold urun, ustep. cbn [urun_gen]. destruct (ustep_gen true s o) as [s1 out]. cbn [fst snd].
  destruct (urun_gen true s1 r) as [s2 outs]. reflexivity.
Qed.
Lemma lastUsage_report s r1 r2 : lastUsage (fst (ustep s (UReport r1 r2))) = lastUsage s.
Proof.
  cbn [ustep ustep_gen]. unfold ureport_gen. destruct (is_nil (cur s) && is_nil (lastp s)); [reflexivity|].
  destruct (existsb _ _); [reflexivity|]. destruct r1; [|destruct r2|]; reflexivity.
Qed.

(* ---------- the accounting invariant ---------- *)
Definition wfs (s : ustate) : Prop := NoDup (akeys (cur s)) /\ NoDup (akeys (lastp s)).
(* what has been added to the counter of k and has not yet left in a sent report, minus the growth: constant 0 *)
Definition Q (s : ustate) (k : N) : Z := pending s k - tot (lastUsage s) k.

Lemma step_accounting s o k :
  wfs s -> wfs (fst (ustep s o)) /\ sent_of [snd (ustep s o)] k + Q (fst (ustep s o)) k = Q s k.
Proof.
  intros [Hc Hl]. destruct o as [sig data|r1 r2]; cbn [ustep ustep_gen].
  - unfold uadd. destruct (data =? 0) eqn:E; cbn [fst snd sent_of fold_right].
    + split; [split; assumption|lia].
    + split; [split; cbn [cur lastp]; [apply NoDup_addv; exact Hc|exact Hl]|].
      unfold Q, pending. cbn [cur lastp lastUsage]. rewrite tot_addv, tot_aset. rewrite (N.eqb_sym k sig).
      destruct (N.eqb sig k) eqn:E2; [apply N.eqb_eq in E2; subst; lia|lia].
  - unfold ureport_gen.
    destruct (is_nil (cur s) && is_nil (lastp s)); cbn [fst snd sent_of fold_right]; [split; [split; assumption|lia]|].
    destruct (existsb _ (cur s ++ lastp s)); cbn [fst snd sent_of fold_right]; [split; [split; assumption|lia]|].
    set (s1 := {| lastUsage := lastUsage s; cur := []; lastp := merge (lastp s) (cur s) |}).
    assert (Hw1 : wfs s1) by (split; cbn [cur lastp s1]; [constructor|apply NoDup_merge; exact Hc]).
    assert (Hq1 : Q s1 k = Q s k).
    { unfold Q, pending. cbn [cur lastp lastUsage s1]. rewrite tot_merge, (psum_tot _ _ Hl), tot_nil. lia. }
    assert (Hs : psum (cur s ++ lastp s) k + Q (complete s1) k = Q s k).
    { rewrite <- Hq1. unfold Q, pending. cbn [complete cur lastp lastUsage s1].
      rewrite psum_app, (psum_tot _ _ Hc), (psum_tot _ _ Hl), tot_merge, (psum_tot _ _ Hl), !tot_nil. lia. }
    assert (Hwc : wfs (complete s1)) by (split; cbn [complete cur lastp s1]; constructor).
    destruct r1; [|destruct r2|]; cbn [fst snd sent_of fold_right];
      (split; [assumption|]); lia.
Qed.

Lemma run_accounting ops : forall s k,
  wfs s -> wfs (fst (urun s ops)) /\ sent_of (snd (urun s ops)) k + Q (fst (urun s ops)) k = Q s k.
Proof.
  induction ops as [|o r IH]; intros s k Hw.
  - cbn. split; [exact Hw|lia].
  - rewrite urun_cons_fst, urun_cons_snd.
    destruct (step_accounting s o k Hw) as [Hw1 H1]. destruct (IH _ k Hw1) as [Hw2 H2].
    split; [exact Hw2|]. cbn [sent_of fold_right] in *. fold (sent_of (snd (urun (fst (ustep s o)) r)) k). lia.
Qed.

(* the usage carried by successfully sent reports plus what is still waiting = the counter's growth *)
Theorem accounting ops k :
  let '(s, outs) := urun uinit ops in
  sent_of outs k + pending s k = tot (lastUsage s) k.
Proof.
  pose proof (run_accounting ops uinit k (conj (NoDup_nil _) (NoDup_nil _))) as [_ H].
  destruct (urun uinit ops) as [s outs]. cbn [fst snd] in H. unfold Q in H.
  unfold pending in *. cbn [uinit cur lastp lastUsage] in H. rewrite !tot_nil in H. lia.
Qed.

(* ... and the growth is the latest nonzero reading *)
Lemma growth_run ops : forall s k,
  tot (lastUsage (fst (urun s ops))) k = last_reading ops k (tot (lastUsage s) k).
Proof.
  induction ops as [|o r IH]; intros s k; [reflexivity|].
  rewrite urun_cons_fst, IH. destruct o as [sig data|r1 r2]; cbn [last_reading].
  - cbn [ustep ustep_gen fst]. unfold uadd. destruct (data =? 0) eqn:E; cbn [negb]; [rewrite andb_false_r; reflexivity|].
    cbn [lastUsage]. rewrite tot_aset, andb_true_r, (N.eqb_sym k sig). destruct (N.eqb sig k); reflexivity.
  - rewrite lastUsage_report. reflexivity.
Qed.

Theorem growth_is_last_reading ops k :
  tot (lastUsage (fst (urun uinit ops))) k = last_reading ops k 0.
Proof. apply growth_run. Qed.

(* after a report that was sent nothing is waiting: everything recorded so far has been delivered *)
Theorem flushed_after_sent ops r1 r2 p n k :
  snd (ustep (fst (urun uinit ops)) (UReport r1 r2)) = OReport p n true ->
  let s := fst (ustep (fst (urun uinit ops)) (UReport r1 r2)) in
  pending s k = 0.
Proof.
  cbn [ustep ustep_gen]. unfold ureport_gen.
  destruct (is_nil _ && is_nil _); [discriminate|]. destruct (existsb _ _); [discriminate|].
  destruct r1; [|destruct r2|]; cbn [fst snd]; try discriminate; intros _; reflexivity.
Qed.

(* ---------- no negative usage ---------- *)
Definition payload_nonneg (o : uout) : Prop :=
  match o with OReport p _ _ => Forall (fun kv => 0 <= snd kv) p | _ => True end.

Lemma existsb_neg_false (l : list (N * Z)) :
  existsb (fun kv => snd kv <? 0) l = false -> Forall (fun kv => 0 <= snd kv) l.
Proof.
  induction l as [|x r IH]; cbn [existsb]; intros H; [constructor|].
  apply orb_false_iff in H. destruct H as [H1 H2]. constructor; [apply Z.ltb_ge; exact H1|apply IH; exact H2].
Qed.

Theorem no_negative_usage ops : forall s, Forall payload_nonneg (snd (urun s ops)).
Proof.
  induction ops as [|o r IH]; intros s; [constructor|].
  rewrite urun_cons_snd. constructor; [|apply IH].
  destruct o as [sig data|r1 r2]; cbn [ustep ustep_gen]; [exact I|].
  unfold ureport_gen. destruct (is_nil _ && is_nil _); [exact I|].
  destruct (existsb _ (cur s ++ lastp s)) eqn:Ex; [exact I|].
  apply existsb_neg_false in Ex. destruct r1; [|destruct r2|]; exact Ex.
Qed.

(* ---------- with counters that never decrease a report is never refused ---------- *)
Definition nonneg (m : amap Z) : Prop := Forall (fun kv => 0 <= snd kv) m.

Lemma nonneg_tot m k : nonneg m -> 0 <= tot m k.
Proof.
  unfold tot. intros H. destruct (alookup k m) as [v|] eqn:L; [|lia].
  apply alookup_In in L. unfold nonneg in H. rewrite Forall_forall in H. apply (H (k, v) L).
Qed.
Lemma nonneg_aremove k m : nonneg m -> nonneg (aremove k m).
Proof.
  unfold nonneg. induction m as [|[k' v] r IH]; intros H; cbn [aremove]; [constructor|].
  inversion H as [|? ? Hh Hr]; subst. destruct (N.eqb k k'); [apply IH; exact Hr|constructor; [exact Hh|apply IH; exact Hr]].
Qed.
Lemma nonneg_addv k v m : 0 <= v -> nonneg m -> nonneg (addv k v m).
Proof.
  intros Hv H. unfold addv, aset. constructor; [cbn [snd]; pose proof (nonneg_tot m k H); lia|apply nonneg_aremove; exact H].
Qed.
Lemma nonneg_merge extra m : nonneg extra -> nonneg m -> nonneg (merge extra m).
Proof.
  induction extra as [|[k v] r IH]; intros He Hm; cbn [merge fold_right]; [exact Hm|].
  inversion He as [|? ? Hh Hr]; subst. apply nonneg_addv; [exact Hh|apply IH; assumption].
Qed.
Lemma nonneg_no_neg l : nonneg l -> existsb (fun kv : N * Z => snd kv <? 0) l = false.
Proof.
  induction l as [|x r IH]; intros H; cbn [existsb]; [reflexivity|].
  inversion H as [|? ? Hh Hr]; subst. apply orb_false_iff. split; [apply Z.ltb_ge; exact Hh|apply IH; exact Hr].
Qed.

Definition MI (s : ustate) (lastr : amap Z) : Prop :=
  nonneg (cur s) /\ nonneg (lastp s) /\ forall k, tot (lastUsage s) k = tot lastr k.

Lemma MI_step s lastr o :
  MI s lastr ->
  match o with
  | UAdd sig data => tot lastr sig <= data -> 0 <= data ->
                     MI (fst (ustep s o)) (if data =? 0 then lastr else aset sig data lastr)
  | UReport _ _ => MI (fst (ustep s o)) lastr
  end /\ (match o with UAdd _ _ => True | _ => snd (ustep s o) <> OError end).
Proof.
  intros (Hc & Hl & Hu). destruct o as [sig data|r1 r2]; cbn [ustep ustep_gen fst snd].
  - split; [|exact I]. intros H1 H2. unfold uadd. destruct (data =? 0); [repeat split; assumption|].
    repeat split; cbn [cur lastp lastUsage]; [|exact Hl|].
    + apply nonneg_addv; [rewrite Hu; lia|exact Hc].
    + intros k. rewrite !tot_aset. destruct (N.eqb k sig); [reflexivity|apply Hu].
  - unfold ureport_gen.
    assert (Hnn : existsb (fun kv : N * Z => snd kv <? 0) (cur s ++ lastp s) = false).
    { apply nonneg_no_neg. unfold nonneg. apply Forall_app. split; assumption. }
    destruct (is_nil (cur s) && is_nil (lastp s)); [split; [repeat split; assumption|discriminate]|].
    rewrite Hnn.
    assert (HI1 : MI {| lastUsage := lastUsage s; cur := []; lastp := merge (lastp s) (cur s) |} lastr).
    { repeat split; cbn [cur lastp lastUsage]; [constructor|apply nonneg_merge; assumption|exact Hu]. }
    assert (HI2 : MI (complete {| lastUsage := lastUsage s; cur := []; lastp := merge (lastp s) (cur s) |}) lastr).
    { repeat split; cbn [complete cur lastp lastUsage]; [constructor|constructor|exact Hu]. }
    destruct r1; [|destruct r2|]; cbn [fst snd]; (split; [assumption|discriminate]).
Qed.

Theorem monotone_never_refused ops : forall s lastr,
  MI s lastr -> monotone ops lastr = true ->
  ~ In OError (snd (urun s ops)) /\ forall k, 0 <= pending (fst (urun s ops)) k.
Proof.
  induction ops as [|o r IH]; intros s lastr HI Hm.
  - cbn [urun urun_gen fst snd]. split; [intros []|]. intros k. unfold pending. destruct HI as (Hc & Hl & _).
    pose proof (nonneg_tot (cur s) k Hc). pose proof (nonneg_tot (lastp s) k Hl). lia.
  - rewrite urun_cons_fst, urun_cons_snd. destruct (MI_step s lastr o HI) as [Hst Hne].
    destruct o as [sig data|r1 r2]; cbn [monotone] in Hm.
    + apply andb_true_iff in Hm. destruct Hm as [Hm Hr]. apply andb_true_iff in Hm. destruct Hm as [H1 H2].
      apply Z.leb_le in H1, H2. destruct (IH _ _ (Hst H1 H2) Hr) as [A B].
      split; [intros [E|E]; [discriminate|exact (A E)]|exact B].
    + destruct (IH _ _ Hst Hm) as [A B].
      split; [intros [E|E]; [exact (Hne E)|exact (A E)]|exact B].
Qed.

(* ---------- the pinned code loses usage ---------- *)
(* growth 45; the first two reports fail, the third is sent: it carries 35 and nothing is pending *)
Lemma usage_loss_refuted_orig :
  let ops := [UAdd 1 10; UReport RErr ROk; UAdd 1 25; UReport RErr ROk; UAdd 1 45; UReport ROk ROk]%N in
  let '(s, outs) := urun_gen false uinit ops in
  sent_of outs 1%N = 35 /\ pending s 1%N = 0 /\ tot (lastUsage s) 1%N = 45.
Proof. vm_compute. repeat split; reflexivity. Qed.
