(* C15: the float expression of clusterStressLevel agrees with the integer model on the range the
   property speaks about.  Go:  uint(math.Sqrt(total / float64(availablePeers)))  with total the exact
   float64 sum of integer squares.  IEEE binary64 division and square root are Coq's primitive floats
   (kernel primitives, bit-exact); uint(f) = k  <->  float(k) <= f < float(k+1)  for these small values. *)
From Refinery Require Import Lib.Base.
From Coq Require Import Uint63 PrimFloat ZifyN.

Definition fl (x : N) : float := PrimFloat.of_uint63 (Uint63.of_Z (Z.of_N x)).
(* the float the Go code truncates *)
Definition float_rms (total n : N) : float := PrimFloat.sqrt (PrimFloat.div (fl total) (fl n)).
(* truncation of float_rms to uint equals the integer model N.sqrt (total / n) *)
Definition rms_agrees (total n : N) : bool :=
  let k := N.sqrt (total / n) in
  let f := float_rms total n in
  (PrimFloat.leb (fl k) f && PrimFloat.ltb f (fl (k + 1)))%bool.

Definition nrange (k : N) : list N := N.recursion [] (fun i acc => i :: acc) k.
Lemma In_nrange k : forall i, In i (nrange k) <-> (i < k)%N.
Proof.
  unfold nrange. induction k as [|k IH] using N.peano_ind; intros i.
  - rewrite N.recursion_0. cbn. lia.
  - assert (Hs : N.recursion [] (fun i acc => i :: acc) (N.succ k) = k :: N.recursion [] (fun i acc => i :: acc) k).
    { apply (N.recursion_succ (A:=list N) eq); [reflexivity|]. intros x y -> a b ->. reflexivity. }
    rewrite Hs. cbn [In]. rewrite IH. lia.
Qed.

(* up to maxn reports (own + peers) with levels up to maxl *)
Definition sweep (maxn maxl : N) : bool :=
  forallb (fun n => forallb (fun t => rms_agrees t (n + 1)) (nrange ((n + 1) * maxl * maxl + 1))) (nrange maxn).

Lemma sweep_sound maxn maxl : sweep maxn maxl = true ->
  forall n t, (1 <= n <= maxn)%N -> (t <= n * maxl * maxl)%N -> rms_agrees t n = true.
Proof.
  unfold sweep. rewrite forallb_forall. intros H n t Hn Ht.
  specialize (H (n - 1)%N). rewrite In_nrange in H. specialize (H ltac:(lia)).
  rewrite forallb_forall in H. replace (n - 1 + 1)%N with n in H by lia.
  apply H. apply In_nrange. lia.
Qed.

(* levels 0..100 (the property's range), up to 4 reports: exhaustive over every possible total *)
Theorem float_rms_agrees_100 :
  forall n t, (1 <= n <= 4)%N -> (t <= n * 100 * 100)%N -> rms_agrees t n = true.
Proof. apply sweep_sound. vm_compute. reflexivity. Qed.
