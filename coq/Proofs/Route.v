(* Proofs about Model/Route.v: processEvent realises a decision table whose rows are exclusive and
   total; every non-probe event is handed to exactly one sink (the stress path counts as the sink
   when it decides), probes to none; what is forwarded to the owner differs from what was received
   only in APIHost; a probe marker emitted under stress is discarded by whoever receives it. *)
From Refinery Require Import Lib.Base Lib.SMap_route2 Gen.GenC20 Model.Payload Proofs.Payload Model.Route.

(* ---------- the model equals the table ---------- *)
Theorem route_realises_table nd e p : realises nd e p (table (facts_of nd p)) (route nd e p).
Proof.
  unfold route, table, facts_of; cbn [f_probe f_traced f_stress f_kept f_remote f_full].
  destruct (is_probe p); cbn [realises]; [reflexivity|].
  destruct (is_empty_str (meta_str meta_trace_id p)); cbn [negb realises]; [reflexivity|].
  destruct (n_stressed nd && n_processed nd).
  - destruct (n_kept nd); cbn [realises]; [|reflexivity].
    destruct (n_owner nd (meta_str meta_trace_id p)); reflexivity.
  - destruct (n_owner nd (meta_str meta_trace_id p)); cbn [realises app]; [reflexivity|].
    destruct (n_full nd); reflexivity.
Qed.

(* ---------- marshalled probe flag ---------- *)
Lemma marshal_meta_lookup_in tbl m k :
  NoDup (skeys tbl) -> In k (skeys tbl) ->
  slookup k (marshal_meta tbl m) =
  match slookup k m with Some v => if meta_emits v then Some v else None | None => None end.
Proof.
  unfold marshal_meta. induction tbl as [|[n t] r IH]; cbn [skeys map fst flat_map]; intros Hnd Hin; [destruct Hin|].
  inversion Hnd as [|? ? Hn Hr]; subst. rewrite slookup_app.
  destruct (string_dec n k) as [->|Hne].
  - cbn [fst]. destruct (slookup k m) as [v|].
    + destruct (meta_emits v).
      * cbn [slookup]. rewrite String.eqb_refl. reflexivity.
      * cbn [slookup]. apply slookup_None_notin. intros H. apply marshal_meta_keys in H. contradiction.
    + cbn [slookup]. apply slookup_None_notin. intros H. apply marshal_meta_keys in H. contradiction.
  - destruct Hin as [Heq|Hin]; [contradiction|]. cbn [fst].
    assert (Hkn : String.eqb k n = false) by (apply String.eqb_neq; congruence).
    destruct (slookup n m) as [v|]; [destruct (meta_emits v)|]; cbn [slookup]; try rewrite Hkn;
      apply IH; assumption.
Qed.

Lemma probe_reserved : reserved meta_refinery_probe = true.
Proof. vm_compute. reflexivity. Qed.

Lemma probe_in_table : In meta_refinery_probe (skeys metadata_fields).
Proof. apply shas_true. exact probe_reserved. Qed.

Lemma marshal_lookup_reserved p k :
  reserved k = true -> slookup k (marshal p) = slookup k (marshal_meta metadata_fields (p_meta p)).
Proof.
  intros Hr. rewrite marshal_split, !slookup_app, memo_part_lookup, raw_part_lookup, Hr, andb_false_r.
  destruct (slookup k (marshal_meta metadata_fields (p_meta p))); reflexivity.
Qed.

Lemma probe_marshal p : is_probe_data (marshal p) = is_probe p.
Proof.
  unfold is_probe_data, is_probe.
  rewrite (marshal_lookup_reserved p _ probe_reserved).
  rewrite (marshal_meta_lookup_in _ _ _ table_keys_NoDup probe_in_table).
  destruct (slookup meta_refinery_probe (p_meta p)) as [v|]; [|reflexivity].
  destruct v; cbn [meta_emits]; try reflexivity.
  - destruct (negb (z =? 0)); reflexivity.
  - destruct (negb (is_empty_str s)); reflexivity.
Qed.

Lemma is_probe_set_probe p : is_probe (set_probe p) = true.
Proof. unfold is_probe, set_probe; cbn [p_meta with_meta]. rewrite slookup_sset_eq. reflexivity. Qed.

(* ---------- exactly one handling ---------- *)
Lemma handlings_emit_nonprobe s e p l :
  is_probe p = false -> handlings (emit s e p :: l) = S (handlings l).
Proof.
  intros H. unfold handlings; cbn [filter emit m_data]. rewrite probe_marshal, H. reflexivity.
Qed.

Lemma handlings_emit_probe s e p l :
  is_probe p = true -> handlings (emit s e p :: l) = handlings l.
Proof.
  intros H. unfold handlings; cbn [filter emit m_data]. rewrite probe_marshal, H. reflexivity.
Qed.

Theorem route_exactly_once nd e p :
  match route nd e p with
  | Done l => if is_probe p then l = [] else handlings l = 1%nat
  | Refused => is_probe p = false /\ n_full nd = true /\ n_owner nd (meta_str meta_trace_id p) = None
  | Rejected => False
  end.
Proof.
  unfold route. destruct (is_probe p) eqn:Hp; [reflexivity|].
  destruct (is_empty_str (meta_str meta_trace_id p)).
  { rewrite handlings_emit_nonprobe by exact Hp. reflexivity. }
  destruct (n_stressed nd && n_processed nd).
  - destruct (n_kept nd).
    + destruct (n_owner nd (meta_str meta_trace_id p)); cbn [app].
      * rewrite handlings_emit_nonprobe by exact Hp.
        rewrite handlings_emit_probe by apply is_probe_set_probe. reflexivity.
      * rewrite handlings_emit_nonprobe by exact Hp. reflexivity.
    + rewrite handlings_emit_nonprobe by exact Hp. reflexivity.
  - destruct (n_owner nd (meta_str meta_trace_id p)) eqn:Ho; cbn [app].
    + rewrite handlings_emit_nonprobe by exact Hp. reflexivity.
    + destruct (n_full nd) eqn:Hf; [auto|].
      rewrite handlings_emit_nonprobe by exact Hp. reflexivity.
Qed.

(* ---------- which sink ---------- *)
Definition sinks (o : outcome) : list sink := match o with Done l => map m_sink l | _ => [] end.

Theorem untraced_goes_upstream_only nd e p :
  is_probe p = false -> meta_str meta_trace_id p = EmptyString ->
  route nd e p = Done [emit SUpstream e p].
Proof. intros Hp Ht. unfold route. rewrite Hp, Ht. reflexivity. Qed.

Theorem probes_reach_no_sink nd e p : is_probe p = true -> route nd e p = Done [].
Proof. intros Hp. unfold route. rewrite Hp. reflexivity. Qed.

Theorem owned_goes_to_collector nd e p :
  is_probe p = false -> meta_str meta_trace_id p <> EmptyString ->
  n_stressed nd && n_processed nd = false -> n_owner nd (meta_str meta_trace_id p) = None -> n_full nd = false ->
  route nd e p = Done [emit (if n_incoming nd then SCollector else SCollectorPeer) e p].
Proof.
  intros Hp Ht Hs Ho Hf. unfold route. rewrite Hp, Hs, Ho, Hf.
  destruct (meta_str meta_trace_id p); [contradiction|reflexivity].
Qed.

Theorem remote_goes_to_owner_unchanged nd e p addr :
  is_probe p = false -> meta_str meta_trace_id p <> EmptyString ->
  n_stressed nd && n_processed nd = false -> n_owner nd (meta_str meta_trace_id p) = Some addr ->
  exists m, route nd e p = Done [m] /\ m_sink m = SPeer /\
            v_apihost (m_env m) = addr /\
            v_apikey (m_env m) = v_apikey e /\ v_dataset (m_env m) = v_dataset e /\
            v_rate (m_env m) = v_rate e /\ v_sec (m_env m) = v_sec e /\ v_nsec (m_env m) = v_nsec e /\
            m_data m = marshal p.
Proof.
  intros Hp Ht Hs Ho. exists (emit SPeer (with_host e addr) p). unfold route. rewrite Hp, Hs, Ho.
  destruct (meta_str meta_trace_id p); [contradiction|]. cbn. repeat split; reflexivity.
Qed.

(* ---------- end to end: fields of a span forwarded to its owner ---------- *)
Section EndToEnd.
  Variable widen : N -> N.

  Theorem peer_forward_keeps_fields nd pa c ua e fs m :
    NoDup (skeys fs) ->
    process widen nd pa c ua e fs = Done [m] -> m_sink m = SPeer ->
    v_apikey (m_env m) = v_apikey e /\ v_dataset (m_env m) = v_dataset e /\
    v_rate (m_env m) = v_rate e /\ v_sec (m_env m) = v_sec e /\ v_nsec (m_env m) = v_nsec e /\
    NoDup (skeys (m_data m)) /\
    (forall k, reserved k = false ->
        option_map (canon widen) (slookup k (m_data m)) =
        option_map (fun v => canon widen (path_spec pa v)) (slookup k fs)) /\
    (forall k, In k (skeys (m_data m)) -> reserved k = true \/ In k (skeys fs)).
  Proof.
    intros Hnd Hpr Hs. unfold process in Hpr.
    destruct (ingest widen pa c ua fs) as [p|] eqn:Ei; [|discriminate].
    pose proof (route_realises_table nd e p) as Ht. rewrite Hpr in Ht.
    assert (Hnp : is_probe p = false).
    { destruct (is_probe p) eqn:Hp; [|reflexivity]. rewrite (probes_reach_no_sink nd e p Hp) in Hpr. discriminate. }
    assert (Hfw : forward widen pa c ua fs [] = Some (marshal p)).
    { unfold forward. rewrite Ei, Hnp. reflexivity. }
    destruct (forward_preserves widen pa c ua fs [] (marshal p) Hnd Hfw) as (H1 & H2 & H3 & _).
    assert (Hm : m = emit SPeer (with_host e (v_apihost (m_env m))) p).
    { destruct (table (facts_of nd p)) as [| | |a| |[a|]|]; cbn [realises] in Ht; try discriminate;
        injection Ht as ->; cbn [emit m_sink] in Hs; try discriminate;
        try (destruct (n_incoming nd); discriminate).
      cbn. reflexivity. }
    rewrite Hm. cbn [emit m_env m_data with_host v_apikey v_dataset v_rate v_sec v_nsec].
    repeat split; try reflexivity; try exact H1.
    - intros k Hr. apply H2; [exact Hr|]. intros [].
    - intros k Hin. destruct (H3 k Hin) as [H|[H|[]]]; [left|right]; exact H.
  Qed.
End EndToEnd.

(* ---------- a probe marker is discarded by its receiver ---------- *)
Definition probe_on (p : payload) : Prop := slookup meta_refinery_probe (p_meta p) = Some (VBool true).

Lemma probe_ne_trace : meta_refinery_probe <> meta_trace_id. Proof. vm_compute. discriminate. Qed.
Lemma probe_ne_root : meta_refinery_probe <> meta_refinery_root. Proof. vm_compute. discriminate. Qed.
Lemma probe_ne_ua : meta_refinery_probe <> meta_incoming_user_agent. Proof. vm_compute. discriminate. Qed.
Lemma probe_prefix : sprefix "meta." meta_refinery_probe = true. Proof. vm_compute. reflexivity. Qed.
Lemma probe_type : meta_type meta_refinery_probe = Some MBool. Proof. vm_compute. reflexivity. Qed.

Lemma probe_on_meta_assign t k v p : k <> meta_refinery_probe -> probe_on p -> probe_on (meta_assign t k v p).
Proof.
  intros Hne H. unfold probe_on in *. destruct t, v; cbn [meta_assign with_meta p_meta]; try exact H;
    rewrite slookup_sset_neq by congruence; exact H.
Qed.

Lemma probe_on_pset k v p : k <> meta_refinery_probe -> probe_on p -> probe_on (pset k v p).
Proof.
  intros Hne H. unfold pset. destruct (slookup k metadata_fields) as [t|]; [|exact H].
  destruct (mtype_of t); [apply probe_on_meta_assign; assumption|exact H].
Qed.

Lemma extract_step_probe c keys p n k v p' n' :
  extract_step c keys (p, n) (k, v) = Some (p', n') ->
  (k = meta_refinery_probe /\ v = VBool true) \/ (k <> meta_refinery_probe /\ probe_on p) ->
  probe_on p'.
Proof.
  intros Hs Hc. unfold extract_step in Hs.
  destruct Hc as [[-> ->]|[Hne Hon]].
  - rewrite probe_prefix, probe_type in Hs. cbn [wire_type_ok meta_unmarshal] in Hs.
    injection Hs as <- <-. unfold probe_on; cbn [with_meta p_meta]. apply slookup_sset_eq.
  - set (am := if sprefix "meta." k then
                 match meta_type k with Some t => if wire_type_ok t v then Some t else None | None => None end
               else None) in Hs.
    destruct am as [t|].
    + destruct (meta_unmarshal t v) as [mv|]; [|discriminate]. injection Hs as <- <-.
      unfold probe_on in *; cbn [with_meta p_meta]. rewrite slookup_sset_neq by congruence. exact Hon.
    + set (tp := match v with
                 | VStr s => if smem k (trace_names c) && is_empty_str (meta_str meta_trace_id p)
                             then Some (with_meta p (sset meta_trace_id (VStr s) (p_meta p)))
                             else if smem k (parent_names c)
                             then Some (if is_empty_str s then p else root_false p) else None
                 | _ => None end) in Hs.
      assert (Htp : forall q, tp = Some q -> probe_on q).
      { subst tp. intros q. destruct v; try discriminate.
        destruct (smem k (trace_names c) && is_empty_str (meta_str meta_trace_id p)).
        - intros [= <-]. unfold probe_on in *; cbn [with_meta p_meta].
          rewrite slookup_sset_neq by exact probe_ne_trace. exact Hon.
        - destruct (smem k (parent_names c)); [|discriminate]. intros [= <-].
          destruct (is_empty_str s); [exact Hon|]. unfold probe_on, root_false in *; cbn [with_meta p_meta].
          rewrite slookup_sset_neq by exact probe_ne_root. exact Hon. }
      destruct tp as [q|].
      * injection Hs as <- <-. apply Htp. reflexivity.
      * destruct ((n <? length keys)%nat && smem k keys && negb (shas k (p_memo p))).
        -- injection Hs as <- <-. apply probe_on_pset; assumption.
        -- injection Hs as <- <-. exact Hon.
Qed.

Lemma extract_loop_probe c keys l : forall p n p' n',
  NoDup (skeys l) ->
  extract_loop c keys (p, n) l = Some (p', n') ->
  (probe_on p /\ ~ In meta_refinery_probe (skeys l)) \/ In (meta_refinery_probe, VBool true) l ->
  probe_on p'.
Proof.
  induction l as [|[k v] r IH]; intros p n p' n' Hnd Hl Hc; cbn [extract_loop] in Hl.
  - injection Hl as <- <-. destruct Hc as [[H _]|[]]. exact H.
  - cbn [skeys map fst] in Hnd. inversion Hnd as [|? ? Hn Hr]; subst.
    destruct (extract_step c keys (p, n) (k, v)) as [[p1 n1]|] eqn:E; [|discriminate].
    apply (IH p1 n1 p' n' Hr Hl).
    destruct Hc as [[Hon Hni]|Hin].
    + left. cbn [skeys map fst In] in Hni. split.
      * apply (extract_step_probe c keys p n k v p1 n1 E). right. split; [|exact Hon].
        intros ->. apply Hni. left. reflexivity.
      * intros H. apply Hni. right. exact H.
    + destruct Hin as [Heq|Hin].
      * injection Heq as -> ->. left. split; [|exact Hn].
        apply (extract_step_probe c keys p n _ _ p1 n1 E). left. split; reflexivity.
      * right. exact Hin.
Qed.

Lemma extract_probe c keys fs p0 p' :
  NoDup (skeys fs) -> In (meta_refinery_probe, VBool true) fs ->
  extract c keys fs p0 = Some p' -> is_probe p' = true.
Proof.
  intros Hnd Hin. unfold extract.
  destruct (extract_loop c keys (root_default p0, 0%nat) fs) as [[p1 n1]|] eqn:E; [|discriminate].
  pose proof (extract_loop_probe c keys fs (root_default p0) 0%nat p1 n1 Hnd E (or_intror Hin)) as Hon.
  intros [= <-]. unfold is_probe.
  set (p2 := if (n1 <? length keys)%nat then add_missing keys p1 else p1).
  assert (H2 : p_meta p2 = p_meta p1) by (subst p2; destruct (n1 <? length keys)%nat; reflexivity).
  unfold log_unsets_root. destruct (String.eqb (meta_str meta_signal_type p2) "log"); cbn [with_meta p_meta].
  - rewrite slookup_sremove_neq by exact probe_ne_root. rewrite H2. unfold probe_on in Hon. rewrite Hon. reflexivity.
  - rewrite H2. unfold probe_on in Hon. rewrite Hon. reflexivity.
Qed.

Lemma add_ua_probe ua p : is_probe (add_ua ua p) = is_probe p.
Proof.
  unfold add_ua. destruct (negb (is_empty_str ua) && is_empty_str (meta_str meta_incoming_user_agent p)); [|reflexivity].
  unfold is_probe; cbn [with_meta p_meta]. rewrite slookup_sset_neq by exact probe_ne_ua. reflexivity.
Qed.

Section ProbeHop.
  Variable widen : N -> N.

  (* whatever a node forwards with the probe flag set is discarded by the node that receives it on
     the msgpack batch endpoint (the only way peers talk), in any state of that node *)
  Theorem probe_marker_is_discarded p nd' c' ua' e' :
    NoDup (skeys (p_raw p)) -> NoDup (skeys (p_memo p)) ->
    match process widen nd' PBatchMsgp c' ua' e' (marshal (set_probe p)) with
    | Done l => l = []
    | Rejected => True
    | Refused => False
    end.
  Proof.
    intros Hr Hm. unfold process, ingest.
    assert (Hin : In (meta_refinery_probe, VBool true) (marshal (set_probe p))).
    { apply slookup_In. rewrite (marshal_lookup_reserved _ _ probe_reserved).
      rewrite (marshal_meta_lookup_in _ _ _ table_keys_NoDup probe_in_table).
      unfold set_probe; cbn [with_meta p_meta]. rewrite slookup_sset_eq. reflexivity. }
    assert (Hnd : NoDup (skeys (marshal (set_probe p)))) by (apply marshal_NoDup; assumption).
    destruct (marshal (set_probe p)) as [|f0 fr] eqn:Em; [exact I|]. rewrite <- Em in *.
    destruct (extract c' (key_fields c') (marshal (set_probe p)) _) as [p'|] eqn:Ex; [|exact I].
    pose proof (extract_probe c' (key_fields c') _ _ p' Hnd Hin Ex) as Hp.
    rewrite (probes_reach_no_sink nd' e' (add_ua ua' p')); [reflexivity|].
    rewrite add_ua_probe. exact Hp.
  Qed.
End ProbeHop.
