(* Proofs about Model/SamplerSel.v (C14). *)
From Refinery Require Import Lib.Base Model.TraceKey Proofs.TraceKey Model.SamplerSel.
From Refinery Require Gen.GenC14.

(* ---------- what the translator must have found ---------- *)
Lemma gen_c14_ok :
  GenC14.legacy_switch = [["32"]; ["64"]; ["default"]]%string /\
  GenC14.legacy_classic_is_32_lower_hex = true /\ GenC14.legacy_ingest_is_64_hcxic = true /\
  GenC14.sampler_key_shape = true /\ GenC14.lookup_config_shape = true /\
  GenC14.lookup_fields_shape = true /\ GenC14.ingest_shape = true /\ GenC14.decide_shape = true /\
  GenC14.memoize_before_decision = true /\ GenC14.trace_takes_first_span_destination = true /\
  GenC14.factory_uses_lookup = true /\ GenC14.key_fields_shape = true /\
  GenC14.root_prefix = "root."%string /\ GenC14.computed_prefix = "?."%string /\
  GenC14.sampler_choice_order =
    [["v.DeterministicSampler != nil"]; ["v.RulesBasedSampler != nil"]; ["v.DynamicSampler != nil"];
     ["v.EMADynamicSampler != nil"]; ["v.EMAThroughputSampler != nil"];
     ["v.WindowedThroughputSampler != nil"]; ["v.TotalThroughputSampler != nil"]; ["default"]]%string.
Proof. repeat split; reflexivity. Qed.

(* ---------- key classification ---------- *)
(* classic configuration key: 32 lower-case hex digits *)
Definition classic_config_key (k : str) : Prop :=
  length k = 32%nat /\ forallb is_hex_lower k = true.
(* classic ingest key: "hc" [a-z] "ic_" followed by 58 of [0-9a-z] *)
Definition classic_ingest_key (k : str) : Prop :=
  exists x rest, k = [104; 99; x; 105; 99; 95]%N ++ rest /\ length rest = 58%nat /\
                 is_lower x = true /\ forallb is_alnum_lower rest = true.

Lemma is_legacy_spec k : is_legacy k = true <-> classic_config_key k \/ classic_ingest_key k.
Proof.
  unfold is_legacy, classic_config_key, classic_ingest_key. split.
  - destruct (length k =? 32)%nat eqn:E32.
    + apply Nat.eqb_eq in E32. intros H. left. split; assumption.
    + destruct (length k =? 64)%nat eqn:E64; [|discriminate].
      apply Nat.eqb_eq in E64.
      destruct k as [|h [|c [|x [|i [|c2 [|us rest]]]]]]; try discriminate.
      intros H. repeat (apply andb_true_iff in H; destruct H as [H ?]).
      repeat match goal with Hq : (_ =? _)%N = true |- _ => apply N.eqb_eq in Hq end.
      subst. right. exists x, rest. cbn [app]. cbn [length] in E64.
      repeat split; try assumption; try reflexivity. lia.
  - intros [[L F]|[x [rest [-> [L [X F]]]]]].
    + rewrite L. cbn. exact F.
    + rewrite app_length, L. cbn [length Nat.add Nat.eqb app].
      rewrite X, F. reflexivity.
Qed.

Lemma is_legacy_false_other_lengths k :
  length k <> 32%nat -> length k <> 64%nat -> is_legacy k = false.
Proof.
  intros H1 H2. unfold is_legacy.
  destruct (length k =? 32)%nat eqn:E1; [apply Nat.eqb_eq in E1; contradiction|].
  destruct (length k =? 64)%nat eqn:E2; [apply Nat.eqb_eq in E2; contradiction|]. reflexivity.
Qed.

(* ---------- sampler key ---------- *)
Lemma sampler_key_env prefix key env dataset :
  is_legacy key = false -> sampler_key prefix key env dataset = env.
Proof. unfold sampler_key. intros ->. reflexivity. Qed.

Lemma sampler_key_classic_noprefix key env dataset :
  is_legacy key = true -> sampler_key [] key env dataset = dataset.
Proof. unfold sampler_key. intros ->. reflexivity. Qed.

Lemma sampler_key_classic_prefix prefix key env dataset :
  is_legacy key = true -> prefix <> [] ->
  sampler_key prefix key env dataset = prefix ++ [DOT] ++ dataset.
Proof. unfold sampler_key. intros -> H. destruct prefix; [contradiction|reflexivity]. Qed.

(* ---------- lookup ---------- *)
Lemma lookup_exact r name d : rfind name r = Some d -> lookup r name = Some d.
Proof. unfold lookup. intros ->. reflexivity. Qed.

Lemma lookup_default r name : rfind name r = None -> lookup r name = rfind DEFAULT r.
Proof. unfold lookup. intros ->. reflexivity. Qed.

Lemma rfind_In name r d : rfind name r = Some d -> In (name, d) r.
Proof.
  induction r as [|[n e] rest IH]; cbn [rfind]; [discriminate|].
  destruct (str_eqb name n) eqn:E.
  - apply str_eqb_eq in E. subst. intros [= ->]. left. reflexivity.
  - intros H. right. apply IH. exact H.
Qed.

(* the selected definition is one the rules file names, under that name or under __default__ *)
Lemma lookup_from_rules r name d :
  lookup r name = Some d -> In (name, d) r \/ (rfind name r = None /\ In (DEFAULT, d) r).
Proof.
  unfold lookup. destruct (rfind name r) as [e|] eqn:F.
  - intros [= <-]. left. apply rfind_In. exact F.
  - intros H. right. split; [reflexivity|apply rfind_In; exact H].
Qed.

(* ---------- selection by destination ---------- *)
Lemma decide_env prefix r first later :
  is_legacy (d_key first) = false ->
  decide_sampler prefix r first later =
  match rfind (d_env first) r with Some d => Some d | None => rfind DEFAULT r end.
Proof.
  intros H. unfold decide_sampler, trace_dest, lookup. rewrite sampler_key_env by exact H. reflexivity.
Qed.

Lemma decide_classic prefix r first later :
  is_legacy (d_key first) = true ->
  let name := match prefix with [] => d_dataset first | _ => prefix ++ [DOT] ++ d_dataset first end in
  decide_sampler prefix r first later =
  match rfind name r with Some d => Some d | None => rfind DEFAULT r end.
Proof.
  intros H name. unfold decide_sampler, trace_dest, lookup, sampler_key. rewrite H. reflexivity.
Qed.

(* ---------- ingestion and decision agree ---------- *)
Lemma ingest_decide_agree prefix r first later :
  ingest_fields prefix r first = fst (sampler_reads (decide_sampler prefix r first later)).
Proof. reflexivity. Qed.

Lemma compact_In x l : In x (compact l) <-> In x l.
Proof.
  induction l as [|a r IH]; [reflexivity|].
  cbn [compact]. destruct r as [|b r'].
  - reflexivity.
  - destruct (str_eqb a b) eqn:E.
    + apply str_eqb_eq in E. subst b. rewrite IH. cbn [In]. tauto.
    + cbn [In] in *. rewrite IH. tauto.
Qed.

(* every non-root field the sampler reads (on any span) is among the extracted ones *)
Lemma nonroot_extracted fields f :
  In f (snd (get_key_fields fields)) -> In f (fst (get_key_fields fields)).
Proof.
  unfold get_key_fields.
  set (rootf := map _ _). set (nonroot := filter _ _).
  destruct rootf as [|a ra]; destruct nonroot as [|b rb]; cbn [fst snd]; intros H.
  - exact H.
  - exact H.
  - destruct H.
  - apply compact_In. apply in_or_app. right. exact H.
Qed.

(* every root.-prefixed field of the definition is extracted under its bare name *)
Lemma root_extracted fields f :
  In f fields -> has_prefix ROOTP14 f = true ->
  In (skipn (length ROOTP14) f) (fst (get_key_fields fields)).
Proof.
  intros Hin Hp. unfold get_key_fields.
  assert (In (skipn (length ROOTP14) f)
             (map (fun g => skipn (length ROOTP14) g) (filter (has_prefix ROOTP14) fields))) as Hr.
  { apply in_map. apply filter_In. split; assumption. }
  set (rootf := map _ _) in *. set (nonroot := filter _ _).
  destruct rootf as [|a ra]; [destruct Hr|].
  destruct nonroot as [|b rb]; cbn [fst]; apply compact_In; apply in_or_app; left; exact Hr.
Qed.

(* every plain field of the definition is extracted *)
Lemma plain_extracted fields f :
  In f fields -> has_prefix ROOTP14 f = false -> has_prefix COMPP f = false ->
  In f (fst (get_key_fields fields)).
Proof.
  intros Hin H1 H2. apply nonroot_extracted. unfold get_key_fields.
  assert (In f (filter (fun g => negb (has_prefix ROOTP14 g) && negb (has_prefix COMPP g)) fields)) as Hn.
  { apply filter_In. split; [exact Hin|]. rewrite H1, H2. reflexivity. }
  set (rootf := map _ _). set (nonroot := filter _ _) in *.
  destruct rootf as [|a ra]; destruct nonroot as [|b rb]; cbn [snd]; try exact Hn; destruct Hn.
Qed.

(* the whole statement: whatever the selected sampler reads was extracted at ingestion of the
   trace's first event *)
Lemma reads_available prefix r first later f :
  let s := decide_sampler prefix r first later in
  In f (fst (sampler_reads s)) \/ In f (snd (sampler_reads s)) ->
  In f (ingest_fields prefix r first).
Proof.
  intros s [H|H].
  - rewrite (ingest_decide_agree prefix r first later). exact H.
  - rewrite (ingest_decide_agree prefix r first later). apply nonroot_extracted. exact H.
Qed.
