(* Stress relief: the level (lazy expiry = age filter on latest reports; integer RMS facts; bound)
   and the switch (Recalc's mode switch = a function of the observable trace). *)
From Refinery Require Import Lib.Base Model.Stress.
From Refinery Require Proofs.TTL.
From Coq Require Import ZifyN ZifyBool.

(* ---------- generic list facts ---------- *)
Lemma filter_aset {V} (f : N * V -> bool) k v (m : amap V) :
  filter f (aset k v m) = (if f (k, v) then [(k, v)] else []) ++ aremove k (filter f m).
Proof.
  unfold aset. cbn [filter]. rewrite Proofs.TTL.filter_aremove. destruct (f (k, v)); reflexivity.
Qed.

Lemma filter_idem {A} (f : A -> bool) (l : list A) : filter f (filter f l) = filter f l.
Proof. apply Proofs.TTL.filter_filter_impl. auto. Qed.

Lemma recent_mono PT nw nw' kv : nw <= nw' -> recent PT nw' kv = true -> recent PT nw kv = true.
Proof.
  unfold recent. intros Hle. rewrite !negb_true_iff, !Z.ltb_ge. lia.
Qed.

(* ---------- A. lazy deletion refines "latest report of each key, filtered by age on use" ---------- *)
Definition RL (PT : Z) (s : sstate) (sp : lspec) : Prop :=
  now s = l_now sp /\
  filter (recent PT (now s)) (levels s) = filter (recent PT (now s)) (reports sp).

Lemma RL_init PT t0 c : RL PT (sinit t0 c) (linit t0).
Proof. split; reflexivity. Qed.

Definition proj (o : option srec) : option (N * N) :=
  match o with Some q => Some (r_cluster q, r_level q) | None => None end.

Lemma lstep_refines PT s sp o :
  op_ok o = true -> RL PT s sp ->
  proj (snd (sstep PT s o)) = snd (lstep PT sp o) /\ RL PT (fst (sstep PT s o)) (fst (lstep PT sp o)).
Proof.
  intros Hop [Hnow Hf]. destruct o as [local|k lvl|d|c]; cbn [sstep lstep].
  - (* Recalc *)
    destruct (switch (cfg s) (now s) _ (stressed s) (stayOn s)) as [on' st'] eqn:Esw.
    cbn [fst snd proj r_cluster r_level].
    assert (E : filter (recent PT (now s)) (aset 0%N (local, now s) (levels s)) =
                filter (recent PT (l_now sp)) (aset 0%N (local, l_now sp) (reports sp))).
    { rewrite <- Hnow. rewrite !filter_aset, Hf. reflexivity. }
    split.
    + rewrite E. reflexivity.
    + split; cbn [now levels l_now reports]; [exact Hnow|].
      rewrite filter_idem. rewrite E, Hnow. reflexivity.
  - (* Peer *)
    cbn [fst snd proj]. split; [reflexivity|]. split; cbn [now levels l_now reports]; [exact Hnow|].
    rewrite <- Hnow. rewrite !filter_aset, Hf. reflexivity.
  - (* Adv *)
    cbn [op_ok] in Hop. apply Z.leb_le in Hop.
    cbn [fst snd proj]. split; [reflexivity|]. split; cbn [now levels l_now reports]; [lia|].
    rewrite <- (Proofs.TTL.filter_filter_impl (recent PT (now s)) (recent PT (now s + d)) (levels s))
      by (intros x; apply recent_mono; lia).
    rewrite <- (Proofs.TTL.filter_filter_impl (recent PT (now s)) (recent PT (now s + d)) (reports sp))
      by (intros x; apply recent_mono; lia).
    rewrite Hf. reflexivity.
  - (* Config *)
    cbn [fst snd proj]. split; [reflexivity|]. split; assumption.
Qed.

Lemma lrun_refines PT ops : forall s sp,
  ops_ok ops = true -> RL PT s sp ->
  map (fun q => (r_cluster q, r_level q)) (srun PT s ops) = lrun PT sp ops.
Proof.
  induction ops as [|o r IH]; intros s sp Hok HR; cbn [srun lrun map]; [reflexivity|].
  cbn [ops_ok forallb] in Hok. apply andb_true_iff in Hok. destruct Hok as [Ho Hr].
  destruct (lstep_refines PT s sp o Ho HR) as [Hout HR'].
  destruct (sstep PT s o) as [s' out] eqn:E1. destruct (lstep PT sp o) as [sp' out'] eqn:E2.
  cbn [fst snd] in *. destruct out as [q|]; cbn [proj] in Hout; subst out'; cbn [map].
  - f_equal. apply IH; assumption.
  - apply IH; assumption.
Qed.

Theorem level_refines_reports PT t0 c ops :
  ops_ok ops = true ->
  map (fun q => (r_cluster q, r_level q)) (srun PT (sinit t0 c) ops) = lrun PT (linit t0) ops.
Proof. intros H. apply lrun_refines; [exact H|apply RL_init]. Qed.

(* ---------- B. the integer RMS ---------- *)
Lemma count1_pos m : (1 <= count1 m)%N.
Proof. destruct m; cbn [count1 length]; lia. Qed.

(* rms m is the integer part of sqrt(sum of squares / count): c^2 * n <= total < (c+1)^2 * n *)
Theorem rms_floor m :
  let nz := filter nonzero m in let c := rms m in
  (c * c * count1 nz <= sumsq nz /\ sumsq nz < (c + 1) * (c + 1) * count1 nz)%N.
Proof.
  intros nz c. subst c. unfold rms. fold nz.
  set (a := sumsq nz). set (n := count1 nz).
  assert (Hn : (1 <= n)%N) by apply count1_pos.
  pose proof (N.sqrt_spec (a / n) (N.le_0_l _)) as [H1 H2].
  set (c := N.sqrt (a / n)) in *.
  assert (Hd : (n * (a / n) <= a /\ a < n * (a / n + 1))%N).
  { pose proof (N.div_mod a n ltac:(lia)) as Hdm. pose proof (N.mod_lt a n ltac:(lia)) as Hm. nia. }
  rewrite <- N.add_1_r in H2. split; nia.
Qed.

Definition levels_le (B : N) (m : amap (N * Z)) : Prop := Forall (fun kv => (fst (snd kv) <= B)%N) m.

Lemma sumsq_le B m : levels_le B m -> (sumsq m <= B * B * N.of_nat (length m))%N.
Proof.
  induction m as [|kv r IH]; intros H; cbn [sumsq fold_right length]; [lia|].
  inversion H as [|? ? Hh Hr]; subst. specialize (IH Hr). fold (sumsq r).
  rewrite Nat2N.inj_succ. nia.
Qed.

Theorem rms_le B m : levels_le B m -> (rms m <= B)%N.
Proof.
  intros H. unfold rms. set (nz := filter nonzero m).
  assert (Hnz : levels_le B nz).
  { unfold levels_le in *. rewrite Forall_forall in *. intros x Hx. apply H. apply filter_In in Hx. tauto. }
  pose proof (sumsq_le B nz Hnz) as Hs. pose proof (count1_pos nz) as Hc.
  assert (Hq : (sumsq nz / count1 nz <= B * B)%N).
  { destruct nz as [|x r] eqn:E.
    - cbn [sumsq fold_right count1]. cbn. lia.
    - change (count1 (x :: r)) with (N.of_nat (length (x :: r))).
      apply N.div_le_upper_bound; [cbn [length]; lia|]. lia. }
  apply N.sqrt_le_mono in Hq. rewrite N.sqrt_square in Hq. exact Hq.
Qed.

(* ---------- C. the level stays within the bound of the reports, over all histories ---------- *)
Lemma levels_le_aremove B k m : levels_le B m -> levels_le B (aremove k m).
Proof.
  unfold levels_le. induction m as [|[k' v] r IH]; intros H; cbn [aremove]; [constructor|].
  inversion H as [|? ? Hh Hr]; subst. destruct (N.eqb k k'); [apply IH; exact Hr|].
  constructor; [exact Hh|apply IH; exact Hr].
Qed.
Lemma levels_le_aset B k l t m : (l <= B)%N -> levels_le B m -> levels_le B (aset k (l, t) m).
Proof. intros Hl H. unfold aset. constructor; [exact Hl|apply levels_le_aremove; exact H]. Qed.
Lemma levels_le_filter B f m : levels_le B m -> levels_le B (filter f m).
Proof.
  unfold levels_le. rewrite !Forall_forall. intros H x Hx. apply H. apply filter_In in Hx. tauto.
Qed.

Lemma bounded_run PT B ops : forall s,
  forallb (op_le B) ops = true -> levels_le B (levels s) ->
  Forall (fun q => (r_cluster q <= B /\ r_level q <= B /\ r_local q <= r_level q /\ r_cluster q <= r_level q)%N)
         (srun PT s ops).
Proof.
  induction ops as [|o r IH]; intros s Hops Hl; cbn [srun]; [constructor|].
  cbn [forallb] in Hops. apply andb_true_iff in Hops. destruct Hops as [Ho Hr].
  destruct o as [local|k lvl|d|c]; cbn [sstep op_le] in *.
  - apply N.leb_le in Ho.
    destruct (switch (cfg s) (now s) _ (stressed s) (stayOn s)) as [on' st'] eqn:Esw.
    set (kept := filter (recent PT (now s)) (aset 0%N (local, now s) (levels s))) in *.
    assert (Hk : levels_le B kept) by (apply levels_le_filter, levels_le_aset; assumption).
    pose proof (rms_le B kept Hk) as Hrms.
    constructor.
    + cbn [r_cluster r_level r_local]. lia.
    + apply IH; [exact Hr|exact Hk].
  - apply N.leb_le in Ho. apply IH; [exact Hr|]. cbn [levels]. apply levels_le_aset; assumption.
  - apply IH; [exact Hr|exact Hl].
  - apply IH; [exact Hr|exact Hl].
Qed.

Theorem level_bounded PT B t0 c ops :
  forallb (op_le B) ops = true ->
  Forall (fun q => (r_cluster q <= B /\ r_level q <= B /\ r_local q <= r_level q /\ r_cluster q <= r_level q)%N)
         (srun PT (sinit t0 c) ops).
Proof. intros H. apply bounded_run; [exact H|constructor]. Qed.

(* ---------- D. the switch is a function of the observable trace ---------- *)
Definition deadline (q : srec) : Z := r_t q + c_mind (r_cfg q).
Definition IS (s : sstate) (past : list srec) : Prop :=
  stressed s = on_of past /\ stayOn s = option_map deadline (last_above past).

Lemma after_hold st past nw :
  st = option_map deadline (last_above past) -> after nw st = hold_over past nw.
Proof. intros ->. unfold after, hold_over, deadline. destruct (last_above past); reflexivity. Qed.

Lemma switch_spec c nw lvl on st past :
  on = on_of past -> st = option_map deadline (last_above past) ->
  fst (switch c nw lvl on st) = expected_on past c nw lvl.
Proof.
  intros Hon Hst. unfold switch, expected_on. destruct (c_mode c); cbn [fst]; try reflexivity.
  rewrite <- Hon.
  destruct (c_deact c <=? lvl)%N eqn:Ed.
  - assert (El : (lvl <? c_deact c)%N = false) by (apply N.ltb_ge; apply N.leb_le in Ed; exact Ed).
    rewrite El, !andb_false_r. cbn [andb negb]. rewrite andb_true_r. reflexivity.
  - assert (El : (lvl <? c_deact c)%N = true) by (apply N.ltb_lt; apply N.leb_gt in Ed; exact Ed).
    rewrite El, andb_false_r, andb_true_r. cbn [andb].
    rewrite (after_hold st past nw Hst).
    destruct (on || (c_act c <=? lvl)%N), (hold_over past nw); reflexivity.
Qed.

Lemma switch_inv c nw local cl lvl on st past :
  on = on_of past -> st = option_map deadline (last_above past) ->
  let q := {| r_t := nw; r_cfg := c; r_local := local; r_cluster := cl; r_level := lvl;
              r_on := fst (switch c nw lvl on st) |} in
  snd (switch c nw lvl on st) = option_map deadline (last_above (q :: past)).
Proof.
  intros Hon Hst q. unfold last_above. cbn [find]. fold (last_above past).
  unfold held, is_monitor. subst q. cbn [r_cfg r_on r_level].
  unfold switch. destruct (c_mode c); cbn [fst snd andb]; try exact Hst.
  destruct (c_deact c <=? lvl)%N eqn:Ed.
  - assert (El : (lvl <? c_deact c)%N = false) by (apply N.ltb_ge; apply N.leb_le in Ed; exact Ed).
    rewrite El, !andb_false_r, !andb_true_r. cbn [andb].
    destruct (on || (c_act c <=? lvl)%N); cbn [option_map]; [reflexivity|exact Hst].
  - rewrite !andb_false_r. exact Hst.
Qed.

Lemma trace_run PT ops : forall s past, IS s past -> trace_ok past (srun PT s ops) = true.
Proof.
  induction ops as [|o r IH]; intros s past [Hon Hst]; cbn [srun]; [reflexivity|].
  destruct o as [local|k lvl|d|c]; cbn [sstep].
  - set (kept := filter (recent PT (now s)) (aset 0%N (local, now s) (levels s))).
    set (lvl := N.max (rms kept) local).
    pose proof (switch_spec (cfg s) (now s) lvl (stressed s) (stayOn s) past Hon Hst) as Hs.
    pose proof (switch_inv (cfg s) (now s) local (rms kept) lvl (stressed s) (stayOn s) past Hon Hst) as Hi.
    destruct (switch (cfg s) (now s) lvl (stressed s) (stayOn s)) as [on' st'] eqn:Esw.
    cbn [fst snd] in Hs, Hi. cbn [trace_ok r_on r_cfg r_t r_level].
    rewrite <- Hs, Bool.eqb_reflx. cbn [andb].
    apply IH. split; cbn [stressed stayOn]; [reflexivity|exact Hi].
  - apply IH. split; assumption.
  - apply IH. split; assumption.
  - apply IH. split; assumption.
Qed.

Lemma trace_ok_app past pre : forall q post,
  trace_ok past (pre ++ q :: post) = true ->
  r_on q = expected_on (rev pre ++ past) (r_cfg q) (r_t q) (r_level q).
Proof.
  revert past. induction pre as [|p r IH]; intros past q post H; cbn [app trace_ok rev] in *.
  - apply andb_true_iff in H. destruct H as [H _]. apply Bool.eqb_prop in H. exact H.
  - apply andb_true_iff in H. destruct H as [_ H]. rewrite <- app_assoc. cbn [app]. apply (IH _ _ _ H).
Qed.

Theorem switch_follows_trace PT t0 c0 ops pre q post :
  srun PT (sinit t0 c0) ops = pre ++ q :: post ->
  r_on q = expected_on (rev pre) (r_cfg q) (r_t q) (r_level q).
Proof.
  intros E. pose proof (trace_run PT ops (sinit t0 c0) [] (conj eq_refl eq_refl)) as H.
  rewrite E in H. apply trace_ok_app in H. rewrite app_nil_r in H. exact H.
Qed.

(* ---------- E. what expected_on says, clause by clause ---------- *)
Lemma exp_never past c nw lvl : c_mode c = MNever -> expected_on past c nw lvl = false.
Proof. intros E. unfold expected_on. rewrite E. reflexivity. Qed.
Lemma exp_always past c nw lvl : c_mode c = MAlways -> expected_on past c nw lvl = true.
Proof. intros E. unfold expected_on. rewrite E. reflexivity. Qed.

Lemma exp_monitor_on past c nw lvl :
  c_mode c = MMonitor -> (c_deact c <= c_act c)%N -> (c_act c <= lvl)%N -> expected_on past c nw lvl = true.
Proof.
  intros E Hda Hal. unfold expected_on. rewrite E.
  assert (E1 : (c_act c <=? lvl)%N = true) by (apply N.leb_le; exact Hal).
  assert (E2 : (lvl <? c_deact c)%N = false) by (apply N.ltb_ge; lia).
  rewrite E1, E2, orb_true_r. reflexivity.
Qed.

Lemma exp_on_only_if past c nw lvl :
  c_mode c = MMonitor -> on_of past = false -> expected_on past c nw lvl = true -> (c_act c <= lvl)%N.
Proof.
  intros E Hoff H. unfold expected_on in H. rewrite E, Hoff in H. cbn [orb] in H.
  apply andb_true_iff in H. destruct H as [H _]. apply N.leb_le. exact H.
Qed.

Lemma exp_off_only_if past c nw lvl :
  c_mode c = MMonitor -> on_of past = true -> expected_on past c nw lvl = false ->
  (lvl < c_deact c)%N /\
  match last_above past with
  | Some q => r_t q + c_mind (r_cfg q) < nw      (* more than the minimum duration since it was last at or above *)
  | None => True
  end.
Proof.
  intros E Hon H. unfold expected_on in H. rewrite E, Hon in H. cbn [orb andb] in H.
  apply negb_false_iff, andb_true_iff in H. destruct H as [H1 H2].
  split; [apply N.ltb_lt; exact H1|].
  unfold hold_over in H2. destruct (last_above past); [apply Z.ltb_lt; exact H2|exact I].
Qed.

Lemma exp_stays_on past c nw lvl :
  c_mode c = MMonitor -> on_of past = true ->
  ((c_deact c <= lvl)%N \/ exists q, last_above past = Some q /\ nw <= r_t q + c_mind (r_cfg q)) ->
  expected_on past c nw lvl = true.
Proof.
  intros E Hon H. unfold expected_on. rewrite E, Hon. cbn [orb andb].
  apply negb_true_iff, andb_false_iff. destruct H as [H|(q & Hq & Hle)].
  - left. apply N.ltb_ge. exact H.
  - right. unfold hold_over. rewrite Hq. apply Z.ltb_ge. exact Hle.
Qed.

(* last_above is the newest element of the past that was held: nothing newer qualifies *)
Lemma last_above_spec past q :
  last_above past = Some q ->
  exists newer older, past = newer ++ q :: older /\ held q = true /\ forallb (fun x => negb (held x)) newer = true.
Proof.
  unfold last_above. induction past as [|x r IH]; cbn [find]; [discriminate|].
  destruct (held x) eqn:Hx.
  - intros [= <-]. exists [], r. repeat split; [exact Hx].
  - intros H. destruct (IH H) as (nw & ol & -> & Hq & Hn). exists (x :: nw), ol.
    repeat split; [exact Hq|]. cbn [forallb]. rewrite Hx. exact Hn.
Qed.

(* the documented side condition matters: with DeactivationLevel above ActivationLevel a level in
   between switches relief on and off again within one recalculation *)
Lemma inverted_thresholds_example :
  let c := {| c_mode := MMonitor; c_act := 50; c_deact := 80; c_mind := 10 |} in
  srun 10 (sinit 0 c) [SRecalc 60] =
    [{| r_t := 0; r_cfg := c; r_local := 60; r_cluster := 60; r_level := 60; r_on := false |}]%N.
Proof. vm_compute. reflexivity. Qed.

(* ---------- F. the clauses on actual runs ---------- *)
Section OnRuns.
  Variables (PT t0 : Z) (c0 : scfg) (ops : list sop) (pre : list srec) (q : srec) (post : list srec).
  Hypothesis Hrun : srun PT (sinit t0 c0) ops = pre ++ q :: post.
  Let past := rev pre.       (* the recalculations before q, newest first *)

  Lemma Hq : r_on q = expected_on past (r_cfg q) (r_t q) (r_level q).
  Proof. exact (switch_follows_trace PT t0 c0 ops pre q post Hrun). Qed.

  Theorem run_never : c_mode (r_cfg q) = MNever -> r_on q = false.
  Proof. intros E. rewrite Hq. apply exp_never. exact E. Qed.
  Theorem run_always : c_mode (r_cfg q) = MAlways -> r_on q = true.
  Proof. intros E. rewrite Hq. apply exp_always. exact E. Qed.
  Theorem run_monitor_on :
    c_mode (r_cfg q) = MMonitor -> (c_deact (r_cfg q) <= c_act (r_cfg q))%N ->
    (c_act (r_cfg q) <= r_level q)%N -> r_on q = true.
  Proof. intros E H1 H2. rewrite Hq. apply exp_monitor_on; assumption. Qed.
  Theorem run_on_only_if :
    c_mode (r_cfg q) = MMonitor -> on_of past = false -> r_on q = true -> (c_act (r_cfg q) <= r_level q)%N.
  Proof. intros E H1 H2. rewrite Hq in H2. exact (exp_on_only_if _ _ _ _ E H1 H2). Qed.
  Theorem run_off_only_if :
    c_mode (r_cfg q) = MMonitor -> on_of past = true -> r_on q = false ->
    (r_level q < c_deact (r_cfg q))%N /\
    match last_above past with
    | Some p => r_t p + c_mind (r_cfg p) < r_t q
    | None => True
    end.
  Proof. intros E H1 H2. rewrite Hq in H2. exact (exp_off_only_if _ _ _ _ E H1 H2). Qed.
  Theorem run_stays_on :
    c_mode (r_cfg q) = MMonitor -> on_of past = true ->
    ((c_deact (r_cfg q) <= r_level q)%N \/
     exists p, last_above past = Some p /\ r_t q <= r_t p + c_mind (r_cfg p)) ->
    r_on q = true.
  Proof. intros E H1 H2. rewrite Hq. apply exp_stays_on; assumption. Qed.
End OnRuns.

(* the level a recalculation acts on, spelled out on the specification of the reports *)
Lemma lstep_recalc PT sp local :
  snd (lstep PT sp (SRecalc local)) =
    let rs := filter (recent PT (l_now sp)) (aset 0%N (local, l_now sp) (reports sp)) in
    Some (rms rs, N.max (rms rs) local).
Proof. reflexivity. Qed.
