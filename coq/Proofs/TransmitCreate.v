(* With the re-check under the write lock at most one batch is ever created for a key, it is the stored one,
   and every goroutine appends to it. *)
From Refinery Require Import Lib.Base Model.TransmitCreate.

Lemma cupd_length {A} t (x : A) l : length (cupd t x l) = length l.
Proof. revert t. induction l as [|y r IH]; intros [|t]; cbn; try reflexivity. rewrite IH. reflexivity. Qed.
Lemma nth_cupd_eq {A} t (x d : A) l : (t < length l)%nat -> nth t (cupd t x l) d = x.
Proof. revert t. induction l as [|y r IH]; intros [|t] H; cbn in *; try lia; try reflexivity. apply IH. lia. Qed.
Lemma nth_cupd_neq {A} t t' (x d : A) l : t <> t' -> nth t' (cupd t x l) d = nth t' l d.
Proof.
  revert t t'. induction l as [|y r IH]; intros [|t] [|t'] H; cbn; try reflexivity; try congruence. apply IH. congruence.
Qed.

(* at most one batch exists, it is the stored one, and nobody holds a reference to another one *)
Definition cinv (s : cstate) : Prop :=
  (slot s = None /\ made s = [] /\ forall t e b, nth t (goers s) CDone <> CGot e b) \/
  (slot s = Some O /\ length (made s) = 1%nat /\ forall t e b, nth t (goers s) CDone = CGot e b -> b = O).

Lemma cstep_inv s t : cinv s -> cinv (cstep true s t).
Proof.
  intros I. unfold cstep. destruct (nth t (goers s) CDone) as [e|e|e b|] eqn:Ep; [| | |exact I].
  - (* Start: read-locked lookup *)
    destruct I as [(Hs & Hm & Hg)|(Hs & Hm & Hg)]; rewrite Hs; unfold cinv; cbn [slot made goers].
    + left. split; [reflexivity|]. split; [exact Hm|]. intros t' e' b' H.
      destruct (Nat.eq_dec t t') as [<-|Hn].
      * destruct (Nat.lt_ge_cases t (length (goers s))) as [Hl|Hl].
        -- rewrite nth_cupd_eq in H by exact Hl. discriminate.
        -- rewrite nth_overflow in Ep by exact Hl. discriminate.
      * rewrite nth_cupd_neq in H by exact Hn. exact (Hg t' e' b' H).
    + right. split; [reflexivity|]. split; [exact Hm|]. intros t' e' b' H.
      destruct (Nat.eq_dec t t') as [<-|Hn].
      * destruct (Nat.lt_ge_cases t (length (goers s))) as [Hl|Hl].
        -- rewrite nth_cupd_eq in H by exact Hl. injection H as _ <-. reflexivity.
        -- rewrite nth_overflow in Ep by exact Hl. discriminate.
      * rewrite nth_cupd_neq in H by exact Hn. exact (Hg t' e' b' H).
  - (* Missed: look again under the write lock *)
    destruct I as [(Hs & Hm & Hg)|(Hs & Hm & Hg)]; rewrite Hs; unfold cinv; cbn [slot made goers].
    + right. rewrite Hm. cbn [length app]. split; [reflexivity|]. split; [reflexivity|]. intros t' e' b' H.
      destruct (Nat.eq_dec t t') as [<-|Hn].
      * destruct (Nat.lt_ge_cases t (length (goers s))) as [Hl|Hl].
        -- rewrite nth_cupd_eq in H by exact Hl. injection H as _ <-. reflexivity.
        -- rewrite nth_overflow in Ep by exact Hl. discriminate.
      * rewrite nth_cupd_neq in H by exact Hn. exfalso. exact (Hg t' e' b' H).
    + right. split; [reflexivity|]. split; [exact Hm|]. intros t' e' b' H.
      destruct (Nat.eq_dec t t') as [<-|Hn].
      * destruct (Nat.lt_ge_cases t (length (goers s))) as [Hl|Hl].
        -- rewrite nth_cupd_eq in H by exact Hl. injection H as _ <-. reflexivity.
        -- rewrite nth_overflow in Ep by exact Hl. discriminate.
      * rewrite nth_cupd_neq in H by exact Hn. exact (Hg t' e' b' H).
  - (* Got: append under the batch mutex *)
    destruct I as [(Hs & Hm & Hg)|(Hs & Hm & Hg)]; unfold cinv; cbn [slot made goers].
    + exfalso. exact (Hg t e b Ep).
    + right. split; [exact Hs|]. split; [unfold add_to; rewrite cupd_length; exact Hm|]. intros t' e' b' H.
      destruct (Nat.eq_dec t t') as [<-|Hn].
      * destruct (Nat.lt_ge_cases t (length (goers s))) as [Hl|Hl].
        -- rewrite nth_cupd_eq in H by exact Hl. discriminate.
        -- rewrite nth_overflow in Ep by exact Hl. discriminate.
      * rewrite nth_cupd_neq in H by exact Hn. exact (Hg t' e' b' H).
Qed.

Lemma crun_inv sched : forall s, cinv s -> cinv (crun true s sched).
Proof. induction sched as [|t r IH]; intros s I; [exact I|]. cbn [crun fold_left]. apply IH. apply cstep_inv. exact I. Qed.

Lemma cinit_inv evs : cinv (cinit evs).
Proof.
  left. split; [reflexivity|]. split; [reflexivity|]. intros t e b H. cbn [cinit goers] in H.
  destruct (Nat.lt_ge_cases t (length (map CStart evs))) as [Hl|Hl].
  - rewrite (nth_indep _ CDone (CStart 0%N) Hl) in H. rewrite map_nth in H. discriminate.
  - rewrite nth_overflow in H by exact Hl. discriminate.
Qed.

(* no batch is ever orphaned: every batch that was created is the one the map holds *)
Theorem no_orphan_batch evs sched :
  let s := crun true (cinit evs) sched in
  (length (made s) <= 1)%nat /\ concat (made s) = reachable s.
Proof.
  intros s. pose proof (crun_inv sched _ (cinit_inv evs)) as I. fold s in I.
  destruct I as [(Hs & Hm & _)|(Hs & Hm & _)]; unfold reachable; rewrite Hs.
  - rewrite Hm. cbn. split; [lia|reflexivity].
  - destruct (made s) as [|b0 [|b1 r]]; cbn in Hm; try lia. cbn. split; [lia|]. apply app_nil_r.
Qed.
