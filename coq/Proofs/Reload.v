(* Proofs about the reload model: sequential characterisation, and the invariant of the step-wise
   interleaving of any number of reloaders under the reload mutex. *)
From Refinery Require Import Lib.Base Model.Reload.

Local Open Scope Z_scope.

(* ------------------------------------------------------------------ sequential *)
Lemma reload_seq_spec v cur src :
  let '(c', a) := reload_seq v cur src in
  (a = true <-> exists c, src = Readable c /\ acceptable v c = true /\ chash c <> chash cur) /\
  (a = true -> src = Readable c') /\ (a = false -> c' = cur).
Proof.
  unfold reload_seq. destruct src as [|c].
  - split; [|split]; try discriminate; try reflexivity. split; [discriminate|]. intros (c & H & _). discriminate.
  - destruct (applies v cur (Readable c)) eqn:E; unfold applies in E.
    + apply andb_true_iff in E. destruct E as [E1 E2]. apply negb_true_iff, N.eqb_neq in E2.
      split; [|split]; try reflexivity; try discriminate. split; [|reflexivity]. intros _. exists c. auto.
    + split; [|split]; try reflexivity; try discriminate. split; [discriminate|].
      intros (c1 & H1 & H2 & H3). injection H1 as <-. rewrite H2 in E. cbn in E.
      apply negb_false_iff, N.eqb_eq in E. contradiction.
Qed.

(* ------------------------------------------------------------------ list plumbing *)
Lemma upd_length {A} t (x : A) l : length (upd t x l) = length l.
Proof. revert t. induction l as [|y r IH]; intros [|t]; cbn; try reflexivity. rewrite IH. reflexivity. Qed.

Lemma nth_upd_eq {A} t (x d : A) l : (t < length l)%nat -> nth t (upd t x l) d = x.
Proof. revert t. induction l as [|y r IH]; intros [|t] H; cbn in *; try lia; try reflexivity. apply IH. lia. Qed.

Lemma nth_upd_neq {A} t t' (x d : A) l : t <> t' -> nth t' (upd t x l) d = nth t' l d.
Proof.
  revert t t'. induction l as [|y r IH]; intros [|t] [|t'] H; cbn; try reflexivity; try congruence.
  apply IH. congruence.
Qed.

Fixpoint sumf {A} (f : A -> Z) (l : list A) : Z := match l with [] => 0 | x :: r => f x + sumf f r end.

Lemma sumf_upd {A} (f : A -> Z) t x d l :
  (t < length l)%nat -> sumf f (upd t x l) = sumf f l - f (nth t l d) + f x.
Proof.
  revert t. induction l as [|y r IH]; intros [|t] H; cbn in *; try lia. rewrite IH by lia. lia.
Qed.

Lemma sumf_zero {A} (f : A -> Z) l : (forall x, In x l -> f x = 0) -> sumf f l = 0.
Proof.
  induction l as [|y r IH]; intros H; [reflexivity|]. cbn. rewrite (H y (or_introl eq_refl)), IH; [reflexivity|].
  intros x Hx. apply H. right. exact Hx.
Qed.

Fixpoint cntb {A} (f : A -> bool) (l : list A) : Z :=
  match l with [] => 0 | x :: r => (if f x then 1 else 0) + cntb f r end.

Lemma cntb_nonneg {A} (f : A -> bool) l : 0 <= cntb f l.
Proof. induction l as [|x r IH]; cbn; [lia|]. destruct (f x); lia. Qed.

Lemma cntb_notin cb l : ~ In cb l -> cntb (N.eqb cb) l = 0.
Proof.
  induction l as [|x r IH]; intros H; [reflexivity|]. cbn. destruct (N.eqb cb x) eqn:E.
  - apply N.eqb_eq in E. subst. exfalso. apply H. left. reflexivity.
  - rewrite IH; [reflexivity|]. intros Hi. apply H. right. exact Hi.
Qed.

Lemma cntb_nodup cb l : NoDup l -> In cb l -> cntb (N.eqb cb) l = 1.
Proof.
  induction l as [|x r IH]; intros Hnd Hin; [destruct Hin|]. inversion Hnd as [|? ? Hn Hr]; subst. cbn.
  destruct (N.eqb cb x) eqn:E.
  - apply N.eqb_eq in E. subst. rewrite cntb_notin by exact Hn. reflexivity.
  - apply N.eqb_neq in E. destruct Hin as [->|Hin]; [congruence|]. rewrite IH by assumption. reflexivity.
Qed.

(* adjacent elements differ *)
Fixpoint distinct_adj (l : list N) : Prop :=
  match l with
  | x :: ((y :: _) as r) => x <> y /\ distinct_adj r
  | _ => True
  end.

(* ------------------------------------------------------------------ the interleaving invariant *)
Definition holds (p : pc) : bool :=
  match p with Locked | Loaded _ | Writing _ _ | Unlocking _ _ => true | _ => false end.

Section Interleaving.
  Variable v : variant.
  Hypothesis Hlock : v_lock v = true.
  Variable cbs : list N.
  Hypothesis Hcbs : NoDup cbs.
  Variable c0 : content.

  (* notifications of change h still owed to listener cb by a reloader in state p *)
  Definition owe (cb h : N) (p : pc) : Z :=
    match p with
    | Unlocking _ (Some c) => if N.eqb (chash c) h then 1 else 0
    | Notifying c rest => if N.eqb (chash c) h then cntb (N.eqb cb) rest else 0
    | _ => 0
    end.
  Definition noted (cb h : N) (l : list (N * N)) : Z := cntb (fun x => N.eqb cb (fst x) && N.eqb (snd x) h) l.
  Definition times_applied (h : N) (l : list content) : Z := cntb (fun c => N.eqb (chash c) h) l.

  Definition pcat (s : sys) (t : nat) : pc := nth t (threads s) Idle.

  Record inv (s : sys) : Prop := {
    i_lock : forall t, (t < length (threads s))%nat -> holds (pcat s t) = true -> lock s = Some t;
    i_cur : cur s = hd c0 (applied s);
    i_acc : Forall (fun c => acceptable v c = true) (applied s);
    i_dist : distinct_adj (map chash (applied s ++ [c0]));
    i_writing : forall t src c, (t < length (threads s))%nat -> pcat s t = Writing src c ->
                  src = Readable c /\ acceptable v c = true /\ chash c <> chash (cur s);
    i_unlocking : forall t c n, (t < length (threads s))%nat -> pcat s t = Unlocking (Readable c) n ->
                  acceptable v c = true -> chash (cur s) = chash c;
    i_notes : forall cb h, In cb cbs ->
                  noted cb h (notes s) + sumf (owe cb h) (threads s) = times_applied h (applied s)
  }.

  Lemma inv_init n : inv (sinit n c0).
  Proof.
    constructor; unfold pcat, sinit; cbn [threads lock cur applied notes].
    - intros t _ H. rewrite nth_repeat in H. discriminate.
    - reflexivity.
    - constructor.
    - cbn. exact I.
    - intros t src c _ H. rewrite nth_repeat in H. discriminate.
    - intros t c n' _ H. rewrite nth_repeat in H. discriminate.
    - intros cb h _. cbn. apply sumf_zero. intros x Hx. apply repeat_spec in Hx. subst. reflexivity.
  Qed.

  (* a step of t that changes only t's pc, to a pc that owes what the old one owed, keeps inv, provided
     the lock / writing / unlocking clauses are re-established for t *)
  Lemma inv_set_pc s t p :
    inv s -> (t < length (threads s))%nat ->
    (holds p = true -> lock s = Some t) ->
    (forall src c, p = Writing src c -> src = Readable c /\ acceptable v c = true /\ chash c <> chash (cur s)) ->
    (forall c n, p = Unlocking (Readable c) n -> acceptable v c = true -> chash (cur s) = chash c) ->
    (forall cb h, owe cb h p = owe cb h (pcat s t)) ->
    inv (set_pc s t p).
  Proof.
    intros I Ht Hl Hw Hu Ho. destruct I as [I1 I2 I3 I4 I5 I6 I7].
    constructor; unfold set_pc, pcat in *; cbn [threads lock cur applied notes] in *.
    - intros t' Ht' Hh. rewrite upd_length in Ht'. destruct (Nat.eq_dec t t') as [<-|Hne].
      + rewrite nth_upd_eq in Hh by exact Ht. apply Hl. exact Hh.
      + rewrite nth_upd_neq in Hh by exact Hne. apply I1; assumption.
    - exact I2.
    - exact I3.
    - exact I4.
    - intros t' src c Ht' Hp. rewrite upd_length in Ht'. destruct (Nat.eq_dec t t') as [<-|Hne].
      + rewrite nth_upd_eq in Hp by exact Ht. apply Hw. exact Hp.
      + rewrite nth_upd_neq in Hp by exact Hne. apply (I5 t'); assumption.
    - intros t' c n Ht' Hp Ha. rewrite upd_length in Ht'. destruct (Nat.eq_dec t t') as [<-|Hne].
      + rewrite nth_upd_eq in Hp by exact Ht. apply (Hu c n); assumption.
      + rewrite nth_upd_neq in Hp by exact Hne. apply (I6 t' c n); assumption.
    - intros cb h Hin. rewrite (sumf_upd _ t p Idle) by exact Ht. rewrite Ho. specialize (I7 cb h Hin). lia.
  Qed.

  Lemma holder_unique s t t' :
    inv s -> (t < length (threads s))%nat -> (t' < length (threads s))%nat ->
    holds (pcat s t) = true -> holds (pcat s t') = true -> t = t'.
  Proof.
    intros I Ht Ht' H1 H2. pose proof (i_lock s I t Ht H1) as E1. pose proof (i_lock s I t' Ht' H2) as E2.
    rewrite E1 in E2. injection E2 as ->. reflexivity.
  Qed.

  Lemma step_inv s t : inv s -> inv (step v cbs s t).
  Proof.
    intros I. unfold step. destruct (Nat.ltb t (length (threads s))) eqn:Elt; [|exact I].
    apply Nat.ltb_lt in Elt. destruct (nth t (threads s) Idle) as [| | |src|src c|src n|c rest] eqn:Ep.
    - exact I.
    - (* Ready: acquire *)
      rewrite Hlock. destruct (lock s) as [t0|] eqn:El; [exact I|].
      destruct I as [I1 I2 I3 I4 I5 I6 I7].
      constructor; unfold pcat in *; cbn [threads lock cur applied notes] in *.
      + intros t' Ht' Hh. rewrite upd_length in Ht'. destruct (Nat.eq_dec t t') as [<-|Hne]; [reflexivity|].
        rewrite nth_upd_neq in Hh by exact Hne. rewrite (I1 t' Ht' Hh) in El. discriminate.
      + exact I2.
      + exact I3.
      + exact I4.
      + intros t' src c Ht' Hp. rewrite upd_length in Ht'. destruct (Nat.eq_dec t t') as [<-|Hne].
        * rewrite nth_upd_eq in Hp by exact Elt. discriminate.
        * rewrite nth_upd_neq in Hp by exact Hne. apply (I5 t'); assumption.
      + intros t' c n Ht' Hp Ha. rewrite upd_length in Ht'. destruct (Nat.eq_dec t t') as [<-|Hne].
        * rewrite nth_upd_eq in Hp by exact Elt. discriminate.
        * rewrite nth_upd_neq in Hp by exact Hne. apply (I6 t' c n); assumption.
      + intros cb h Hin. rewrite (sumf_upd _ t Locked Idle) by exact Elt. rewrite Ep. cbn [owe]. specialize (I7 cb h Hin). lia.
    - (* Locked: load *)
      assert (Hl : lock s = Some t) by (apply (i_lock s I t Elt); unfold pcat; rewrite Ep; reflexivity).
      apply inv_set_pc; try assumption.
      + intros _. exact Hl.
      + intros src c H. discriminate.
      + intros c n H. discriminate.
      + intros cb h. unfold pcat. rewrite Ep. reflexivity.
    - (* Loaded: verdict and hash comparison *)
      assert (Hl : lock s = Some t) by (apply (i_lock s I t Elt); unfold pcat; rewrite Ep; reflexivity).
      destruct src as [|c].
      + apply inv_set_pc; try assumption.
        * intros _. exact Hl.
        * intros src c H. discriminate.
        * intros c n H. discriminate.
        * intros cb h. unfold pcat. rewrite Ep. reflexivity.
      + destruct (applies v (cur s) (Readable c)) eqn:Ea; unfold applies in Ea.
        * apply andb_true_iff in Ea. destruct Ea as [Ea1 Ea2]. apply negb_true_iff, N.eqb_neq in Ea2.
          apply inv_set_pc; try assumption.
          -- intros _. exact Hl.
          -- intros src c1 H. injection H as <- <-. auto.
          -- intros c1 n H. discriminate.
          -- intros cb h. unfold pcat. rewrite Ep. reflexivity.
        * apply inv_set_pc; try assumption.
          -- intros _. exact Hl.
          -- intros src c1 H. discriminate.
          -- intros c1 n H Hacc. injection H as <- _. rewrite Hacc in Ea. cbn in Ea.
             apply negb_false_iff, N.eqb_eq in Ea. symmetry. exact Ea.
          -- intros cb h. unfold pcat. rewrite Ep. reflexivity.
    - (* Writing: store *)
      assert (Hh : holds (pcat s t) = true) by (unfold pcat; rewrite Ep; reflexivity).
      pose proof (i_writing s I t src c Elt Ep) as (Hsrc & Hacc & Hne).
      pose proof I as [I1 I2 I3 I4 I5 I6 I7].
      constructor; unfold pcat in *; cbn [threads lock cur applied notes] in *.
      + intros t' Ht' Hh'. rewrite upd_length in Ht'. destruct (Nat.eq_dec t t') as [<-|Hnt].
        * apply I1; assumption.
        * rewrite nth_upd_neq in Hh' by exact Hnt. apply I1; assumption.
      + reflexivity.
      + constructor; assumption.
      + cbn [app map]. rewrite I2 in Hne. destruct (applied s) as [|a r]; cbn [hd app map distinct_adj] in *; split; assumption.
      + intros t' src' c' Ht' Hp. rewrite upd_length in Ht'. destruct (Nat.eq_dec t t') as [<-|Hnt].
        * rewrite nth_upd_eq in Hp by exact Elt. discriminate.
        * rewrite nth_upd_neq in Hp by exact Hnt. exfalso. apply Hnt.
          apply (holder_unique s t t' I Elt Ht' Hh). unfold pcat. rewrite Hp. reflexivity.
      + intros t' c' n Ht' Hp Ha. rewrite upd_length in Ht'. destruct (Nat.eq_dec t t') as [<-|Hnt].
        * rewrite nth_upd_eq in Hp by exact Elt. injection Hp as E1 _. rewrite Hsrc in E1. injection E1 as ->. reflexivity.
        * rewrite nth_upd_neq in Hp by exact Hnt. exfalso. apply Hnt.
          apply (holder_unique s t t' I Elt Ht' Hh). unfold pcat. rewrite Hp. reflexivity.
      + intros cb h Hin. rewrite (sumf_upd _ t _ Idle) by exact Elt. rewrite Ep. cbn [owe].
        unfold times_applied. cbn [cntb]. specialize (I7 cb h Hin). unfold times_applied in I7.
        destruct (N.eqb (chash c) h); lia.
    - (* Unlocking: release, start notifying *)
      rewrite Hlock. pose proof I as [I1 I2 I3 I4 I5 I6 I7].
      assert (Hh : holds (pcat s t) = true) by (unfold pcat; rewrite Ep; reflexivity).
      constructor; unfold pcat in *; cbn [threads lock cur applied notes] in *.
      + intros t' Ht' Hh'. rewrite upd_length in Ht'. destruct (Nat.eq_dec t t') as [<-|Hnt].
        * rewrite nth_upd_eq in Hh' by exact Elt. destruct n; discriminate.
        * rewrite nth_upd_neq in Hh' by exact Hnt. exfalso. apply Hnt. apply (holder_unique s t t' I Elt Ht' Hh Hh').
      + exact I2.
      + exact I3.
      + exact I4.
      + intros t' src' c' Ht' Hp. rewrite upd_length in Ht'. destruct (Nat.eq_dec t t') as [<-|Hnt].
        * rewrite nth_upd_eq in Hp by exact Elt. destruct n; discriminate.
        * rewrite nth_upd_neq in Hp by exact Hnt. apply (I5 t'); assumption.
      + intros t' c' n' Ht' Hp Ha. rewrite upd_length in Ht'. destruct (Nat.eq_dec t t') as [<-|Hnt].
        * rewrite nth_upd_eq in Hp by exact Elt. destruct n; discriminate.
        * rewrite nth_upd_neq in Hp by exact Hnt. apply (I6 t' c' n'); assumption.
      + intros cb h Hin. rewrite (sumf_upd _ t _ Idle) by exact Elt. rewrite Ep. specialize (I7 cb h Hin).
        destruct n as [c|]; cbn [owe].
        * rewrite (cntb_nodup cb cbs Hcbs Hin). destruct (N.eqb (chash c) h); lia.
        * lia.
    - (* Notifying *)
      destruct rest as [|cb0 r].
      + apply inv_set_pc; try assumption.
        * discriminate.
        * intros src c1 H. discriminate.
        * intros c1 n H. discriminate.
        * intros cb h. unfold pcat. rewrite Ep. cbn [owe cntb]. destruct (N.eqb (chash c) h); reflexivity.
      + pose proof I as [I1 I2 I3 I4 I5 I6 I7].
        constructor; unfold pcat in *; cbn [threads lock cur applied notes] in *.
        * intros t' Ht' Hh'. rewrite upd_length in Ht'. destruct (Nat.eq_dec t t') as [<-|Hnt].
          -- rewrite nth_upd_eq in Hh' by exact Elt. discriminate.
          -- rewrite nth_upd_neq in Hh' by exact Hnt. apply I1; assumption.
        * exact I2.
        * exact I3.
        * exact I4.
        * intros t' src' c' Ht' Hp. rewrite upd_length in Ht'. destruct (Nat.eq_dec t t') as [<-|Hnt].
          -- rewrite nth_upd_eq in Hp by exact Elt. discriminate.
          -- rewrite nth_upd_neq in Hp by exact Hnt. apply (I5 t'); assumption.
        * intros t' c' n' Ht' Hp Ha. rewrite upd_length in Ht'. destruct (Nat.eq_dec t t') as [<-|Hnt].
          -- rewrite nth_upd_eq in Hp by exact Elt. discriminate.
          -- rewrite nth_upd_neq in Hp by exact Hnt. apply (I6 t' c' n'); assumption.
        * intros cb h Hin. rewrite (sumf_upd _ t _ Idle) by exact Elt. rewrite Ep. specialize (I7 cb h Hin).
          unfold noted in *. cbn [owe cntb fst snd]. rewrite (N.eqb_sym (chash c) h).
          destruct (N.eqb cb cb0), (N.eqb h (chash c)); cbn [andb]; lia.
  Qed.

  Lemma sstep_inv s o : inv s -> inv (sstep v cbs s o).
  Proof.
    intros I. destruct o as [src|t|t]; cbn [sstep].
    - destruct I as [I1 I2 I3 I4 I5 I6 I7]. constructor; unfold pcat in *; cbn [threads lock cur applied notes] in *; assumption.
    - destruct (nth t (threads s) Locked) eqn:Ep; try exact I.
      destruct (Nat.lt_ge_cases t (length (threads s))) as [Hlt|Hge].
      + apply inv_set_pc; try assumption; try discriminate.
        intros cb h. unfold pcat. rewrite (nth_indep _ Idle Locked Hlt), Ep. reflexivity.
      + rewrite nth_overflow in Ep by exact Hge. discriminate.
    - apply step_inv. exact I.
  Qed.

  Lemma srun_inv ops : forall s, inv s -> inv (srun v cbs s ops).
  Proof.
    induction ops as [|o r IH]; intros s I; [exact I|]. cbn [srun fold_left]. apply IH. apply sstep_inv. exact I.
  Qed.

  Lemma quiescent_owes_nothing s cb h : quiescent s = true -> sumf (owe cb h) (threads s) = 0.
  Proof.
    unfold quiescent. intros H. apply sumf_zero. intros p Hp. rewrite forallb_forall in H. specialize (H p Hp).
    destruct p; try discriminate. reflexivity.
  Qed.

  Theorem interleaving_spec n ops :
    let s := srun v cbs (sinit n c0) ops in
    Forall (fun c => cacc c = true) (applied s) /\
    cur s = hd c0 (applied s) /\
    distinct_adj (map chash (applied s ++ [c0])) /\
    (forall t c k, nth t (threads s) Idle = Unlocking (Readable c) k -> acceptable v c = true -> chash (cur s) = chash c) /\
    (quiescent s = true -> forall cb h, In cb cbs -> noted cb h (notes s) = times_applied h (applied s)).
  Proof.
    intros s. pose proof (srun_inv ops _ (inv_init n)) as I. fold s in I.
    split; [|split; [|split; [|split]]].
    - eapply Forall_impl; [|exact (i_acc s I)]. intros c H. unfold acceptable in H. apply andb_true_iff in H. tauto.
    - exact (i_cur s I).
    - exact (i_dist s I).
    - intros t c k Hp Ha. destruct (Nat.lt_ge_cases t (length (threads s))) as [Hlt|Hge].
      + apply (i_unlocking s I t c k Hlt Hp Ha).
      + rewrite nth_overflow in Hp by exact Hge. discriminate.
    - intros Hq cb h Hin. pose proof (i_notes s I cb h Hin) as H. rewrite (quiescent_owes_nothing s cb h Hq) in H. lia.
  Qed.
End Interleaving.

(* ------------------------------------------------------------------ statements for Props/C27.v *)
Lemma gen_variant_fixed : gen_variant = fixed.
Proof. vm_compute. reflexivity. Qed.

Lemma acceptable_fixed c : acceptable fixed c = cacc c.
Proof. unfold acceptable, fixed. cbn. apply andb_true_r. Qed.

Lemma c27_sequential cur src :
  let '(c', a) := reload_seq gen_variant cur src in
  (a = true <-> exists c, src = Readable c /\ cacc c = true /\ chash c <> chash cur) /\
  (a = true -> src = Readable c') /\ (a = false -> c' = cur).
Proof.
  rewrite gen_variant_fixed. pose proof (reload_seq_spec fixed cur src) as H.
  destruct (reload_seq fixed cur src) as [c' a]. destruct H as (H1 & H2 & H3). split; [|split; assumption].
  rewrite H1. split; intros (c & E1 & E2 & E3); exists c; rewrite acceptable_fixed in *; auto.
Qed.

Lemma c27_interleaved (n : nat) (c0 : content) (cbs : list N) (ops : list sop) :
  NoDup cbs ->
  let s := srun gen_variant cbs (sinit n c0) ops in
  Forall (fun c => cacc c = true) (applied s) /\
  cur s = hd c0 (applied s) /\
  distinct_adj (map chash (applied s ++ [c0])) /\
  (forall t c k, nth t (threads s) Idle = Unlocking (Readable c) k -> cacc c = true -> chash (cur s) = chash c) /\
  (quiescent s = true -> forall cb h, In cb cbs -> noted cb h (notes s) = times_applied h (applied s)).
Proof.
  intros Hnd. rewrite gen_variant_fixed.
  pose proof (interleaving_spec fixed eq_refl cbs Hnd c0 n ops) as (H1 & H2 & H3 & H4 & H5).
  split; [exact H1|]. split; [exact H2|]. split; [exact H3|]. split; [|exact H5].
  intros t c k Hp Ha. apply (H4 t c k Hp). rewrite acceptable_fixed. exact Ha.
Qed.
