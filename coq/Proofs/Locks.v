(* C35 — soundness of the lockset / happens-before discipline. *)
From Refinery Require Import Lib.Base Model.Locks.
Local Open Scope nat_scope.

(* ------------------------------------------------------------------ small helpers *)
Lemma at_inj tr i a b : at_ tr i a -> at_ tr i b -> a = b.
Proof. unfold at_. intros H1 H2. rewrite H1 in H2. injection H2 as ->. reflexivity. Qed.

Lemma ev_eq_dec (a b : ev) : {a = b} + {a <> b}.
Proof.
  decide equality; try apply N.eq_dec; try apply string_dec; try apply Bool.bool_dec;
    try apply Nat.eq_dec.
Qed.

Lemma at_dec tr i e : {at_ tr i e} + {~ at_ tr i e}.
Proof.
  unfold at_. destruct (nth_error tr i) as [x|].
  - destruct (ev_eq_dec x e) as [->|Hne]; [left; reflexivity|right; intros [= H]; contradiction].
  - right. discriminate.
Qed.

(* in a finite open interval either no step is the event e, or some step is *)
Lemma range_split tr e a b :
  (forall r, a < r < b -> ~ at_ tr r e) \/ (exists r, a < r < b /\ at_ tr r e).
Proof.
  induction b as [|b IH].
  - left. intros r Hr. lia.
  - destruct IH as [Hnone|[r [Hr Hat]]].
    + destruct (at_dec tr b e) as [Hb|Hb].
      * destruct (Nat.lt_ge_cases a b) as [Hab|Hab].
        -- right. exists b. split; [lia|exact Hb].
        -- left. intros r Hr. lia.
      * left. intros r Hr. destruct (Nat.eq_dec r b) as [->|Hne]; [exact Hb|].
        apply Hnone. lia.
    + right. exists r. split; [lia|exact Hat].
Qed.

Lemma holds_mono tr i j t o m x :
  holds tr j t o m x -> forall a, a < i -> i <= j -> at_ tr a (Acq t o m x) ->
  (forall r, a < r < j -> ~ at_ tr r (Rel t o m x)) -> holds tr i t o m x.
Proof.
  intros _ a Hai Hij Hacq Hno. exists a. split; [exact Hai|]. split; [exact Hacq|].
  intros r Hr. apply Hno. lia.
Qed.

Lemma sw_rel_acq t o m x t' x' : (x = true \/ x' = true) -> sw (Rel t o m x) (Acq t' o m x') = true.
Proof.
  intros H. unfold sw. rewrite N.eqb_refl, String.eqb_refl.
  destruct x; [reflexivity|]. destruct x'; [reflexivity|]. destruct H; discriminate.
Qed.

(* ------------------------------------------------------------------ the lock lemma *)
(* Two steps of different goroutines that both hold the same lock, one of them exclusively, are
   ordered by happens-before: the earlier holder must have released before the later one acquired. *)
Lemma common_lock_hb tr i j ei ej o m x x' :
  wf_locks tr -> i < j -> at_ tr i ei -> at_ tr j ej -> thr ei <> thr ej ->
  (forall t o' m' x'', ei <> Rel t o' m' x'') ->
  holds tr i (thr ei) o m x -> holds tr j (thr ej) o m x' -> (x = true \/ x' = true) ->
  hb tr i j.
Proof.
  intros Hwf Hij Hi Hj Hne HnotRel [a [Hai [Hacqa Hnoa]]] [a' [Haj [Hacqa' Hnoa']]] Hx.
  set (t := thr ei) in *. set (t' := thr ej) in *.
  assert (Hexcl : ~ (x = false /\ x' = false)).
  { intros [-> ->]. destruct Hx; discriminate. }
  destruct (Nat.lt_trichotomy a' i) as [Hlt|[Heq|Hgt]].
  - (* t' acquired before step i and still holds at j: both hold at i; look at the later acquire *)
    exfalso.
    destruct (Nat.lt_trichotomy a a') as [Haa|[Haa|Haa]].
    + (* t acquired first; at a' (t' acquires) t still holds *)
      assert (Hh : holds tr a' t o m x).
      { exists a. split; [exact Haa|]. split; [exact Hacqa|]. intros r Hr. apply Hnoa. lia. }
      destruct (Hwf _ _ _ _ _ _ _ Hacqa' Hh) as [E1 E2]. apply Hexcl. split; assumption.
    + subst a'. pose proof (at_inj _ _ _ _ Hacqa Hacqa') as E. injection E as E1 E2. contradiction.
    + assert (Hh : holds tr a t' o m x').
      { exists a'. split; [exact Haa|]. split; [exact Hacqa'|]. intros r Hr. apply Hnoa'. lia. }
      destruct (Hwf _ _ _ _ _ _ _ Hacqa Hh) as [E1 E2]. apply Hexcl. split; assumption.
  - (* step i itself would be t''s acquire: but step i belongs to t *)
    exfalso. subst a'. pose proof (at_inj _ _ _ _ Hi Hacqa') as E. subst ei. cbn in t. contradiction Hne.
    reflexivity.
  - (* t' acquires after step i: t must have released in between *)
    destruct (range_split tr (Rel t o m x) a a') as [Hnone|[r [Hr Hrel]]].
    + exfalso.
      assert (Hh : holds tr a' t o m x).
      { exists a. split; [lia|]. split; [exact Hacqa|exact Hnone]. }
      destruct (Hwf _ _ _ _ _ _ _ Hacqa' Hh) as [E1 E2]. apply Hexcl. split; assumption.
    + assert (Hir : i < r).
      { destruct (Nat.lt_trichotomy r i) as [H|[H|H]]; [|subst r|exact H].
        - exfalso. apply (Hnoa r); [lia|exact Hrel].
        - exfalso. pose proof (at_inj _ _ _ _ Hi Hrel) as E. exact (HnotRel _ _ _ _ E). }
      apply hb_trans with r.
      { apply hb_po with ei (Rel t o m x); [exact Hir|exact Hi|exact Hrel|reflexivity]. }
      apply hb_trans with a'.
      { apply hb_sw with (Rel t o m x) (Acq t' o m x'); [lia|exact Hrel|exact Hacqa'|].
        apply sw_rel_acq. exact Hx. }
      apply hb_po with (Acq t' o m x') ej; [exact Haj|exact Hacqa'|exact Hj|reflexivity].
Qed.

(* ------------------------------------------------------------------ level 1: dynamic soundness *)
Section Level1.
  Variable tbl : list site.

  Lemma lock_covered_hb tr i j :
    wf_locks tr -> conflict tbl tr i j -> lock_covered tr i j -> hb tr i j.
  Proof.
    intros Hwf [t [t' [o [s [s' [a [b [Hij [Hi [Hj [Hne _]]]]]]]]]]]
           [u [u' [o2 [s2 [s2' [m [x [x' [Hi2 [Hj2 [Hh1 [Hh2 Hx]]]]]]]]]]]].
    pose proof (at_inj _ _ _ _ Hi Hi2) as E1. injection E1 as <- <- <-.
    pose proof (at_inj _ _ _ _ Hj Hj2) as E2. injection E2 as <- <-.
    apply (common_lock_hb tr i j (Acc t o s) (Acc t' o s') o m x x'); auto.
    intros; discriminate.
  Qed.

  Lemma edge_covered_hb tr i j : edge_covered tr i j -> hb tr i j.
  Proof.
    intros [p [q [k [a [b [Hi [Hj [Hip [Hpq [Hqj [Hp Hq]]]]]]]]]]].
    apply hb_trans with p.
    { apply hb_po with a (Post (thr a) k); auto. }
    apply hb_trans with q.
    { apply hb_sw with (Post (thr a) k) (Await (thr b) k); auto. cbn. apply N.eqb_refl. }
    apply hb_po with (Await (thr b) k) b; auto.
  Qed.

  (* Generic soundness: in every well-formed interleaving, if every pair of conflicting accesses
     shares a lock (one side exclusive) or is bracketed by a listed synchronisation edge, then
     every pair of conflicting accesses is ordered by happens-before: there is no data race.
     (Pairs of atomic accesses are not conflicts by definition.) *)
  Theorem lockset_sound tr :
    wf_locks tr ->
    (forall i j, conflict tbl tr i j -> lock_covered tr i j \/ edge_covered tr i j) ->
    race_free tbl tr.
  Proof.
    intros Hwf Hcov i j Hc. destruct (Hcov i j Hc) as [H|H].
    - apply lock_covered_hb; assumption.
    - apply edge_covered_hb; assumption.
  Qed.

  Corollary lockset_sound_no_race tr :
    wf_locks tr ->
    (forall i j, conflict tbl tr i j -> lock_covered tr i j \/ edge_covered tr i j) ->
    forall i j, ~ race tbl tr i j.
  Proof. intros Hwf Hcov i j [Hc Hn]. apply Hn. apply (lockset_sound tr Hwf Hcov i j Hc). Qed.
End Level1.

(* ------------------------------------------------------------------ level 2: table soundness *)
Lemma common_lock_spec a b :
  common_lock a b = true ->
  exists m x x', In (m, x) (s_locks a) /\ In (m, x') (s_locks b) /\ (x = true \/ x' = true).
Proof.
  unfold common_lock. intros H. apply existsb_exists in H. destruct H as [[m x] [Hin H]].
  apply existsb_exists in H. destruct H as [[m' x'] [Hin' H]].
  apply andb_true_iff in H. destruct H as [Hm Hx]. apply String.eqb_eq in Hm. subst m'.
  exists m, x, x'. split; [exact Hin|]. split; [exact Hin'|].
  apply orb_true_iff in Hx. exact Hx.
Qed.

Lemma same_single_spec singleton a b :
  same_single singleton a b = true ->
  exists r, s_roles a = [r] /\ s_roles b = [r] /\ singleton (s_struct a) r = true.
Proof.
  unfold same_single. destruct (s_roles a) as [|r [|? ?]]; try discriminate.
  destruct (s_roles b) as [|r' [|? ?]]; try discriminate.
  intros H. apply andb_true_iff in H. destruct H as [Hr Hs]. apply String.eqb_eq in Hr. subst r'.
  exists r. auto.
Qed.

Lemma same_loc_struct a b : same_loc a b = true -> s_struct a = s_struct b.
Proof. unfold same_loc. intros H. apply andb_true_iff in H. destruct H as [H _]. apply String.eqb_eq. exact H. Qed.

Lemma same_loc_sym a b : same_loc a b = same_loc b a.
Proof. unfold same_loc. rewrite (String.eqb_sym (s_struct a)), (String.eqb_sym (s_field a)). reflexivity. Qed.

Section Level2.
  Variable tbl : list site.
  Variable singleton : string -> string -> bool.
  Variable owner : obj -> string -> string -> tid.
  Variable pown : obj -> N -> tid.
  Variable gate : obj -> N -> N.

  (* an early-phase access and an access of a later phase by another goroutine: the early one is
     first in the run and happens-before the late one *)
  Lemma gate_order tr i j t t' o s s' a b :
    wf_edges tr -> conforms tbl singleton owner pown gate tr ->
    at_ tr i (Acc t o s) -> at_ tr j (Acc t' o s') -> t <> t' ->
    site_at tbl s = Some a -> site_at tbl s' = Some b ->
    s_run a = false -> (s_phase a < s_phase b)%N ->
    i < j /\ hb tr i j.
  Proof.
    intros Hwe Hcf Hi Hj Hne Ha Hb Hlt2 Hlt.
    destruct (cf_early _ _ _ _ _ _ Hcf i t o s a Hi Ha Hlt2) as [Ht Hposts].
    assert (Hne' : t' <> pown o (s_phase a)) by (intros E; apply Hne; congruence).
    destruct (cf_late _ _ _ _ _ _ Hcf j t' o s' b (s_phase a) Hj Hb Hlt Hne') as [q [Hqj Hq]].
    destruct (Hwe q t' _ Hq) as [p [tp [Hpq Hp]]].
    destruct (Hposts p tp Hp) as [-> Hip].
    split; [lia|].
    apply hb_trans with p.
    { apply hb_po with (Acc t o s) (Post t (gate o (s_phase a))); auto. }
    apply hb_trans with q.
    { apply hb_sw with (Post t (gate o (s_phase a))) (Await t' (gate o (s_phase a))); auto.
      cbn. apply N.eqb_refl. }
    apply hb_po with (Await t' (gate o (s_phase a))) (Acc t' o s'); auto.
  Qed.

  (* THE TABLE THEOREM.  If the boolean discipline check accepts the access table, then every
     well-formed run of any program the table describes is free of data races. *)
  Theorem table_sound :
    well_protected singleton tbl = true ->
    forall tr, wf_locks tr -> wf_edges tr -> conforms tbl singleton owner pown gate tr ->
    race_free tbl tr.
  Proof.
    intros Hwp tr Hwl Hwe Hcf i j Hc.
    pose proof Hc as [t [t' [o [s [s' [a [b [Hij [Hi [Hj [Hne [Ha [Hb [Hloc Hk]]]]]]]]]]]]]].
    assert (Hpo : pair_ok singleton a b = true).
    { unfold well_protected in Hwp. rewrite forallb_forall in Hwp.
      specialize (Hwp a (nth_error_In _ _ Ha)). rewrite forallb_forall in Hwp.
      exact (Hwp b (nth_error_In _ _ Hb)). }
    unfold pair_ok in Hpo. rewrite Hloc, Hk in Hpo. cbn [negb orb] in Hpo.
    apply orb_true_iff in Hpo. destruct Hpo as [Hpo|Hsingle].
    apply orb_true_iff in Hpo. destruct Hpo as [Hpo|Hlock].
    apply orb_true_iff in Hpo. destruct Hpo as [Hpo|Hfba].
    apply orb_true_iff in Hpo. destruct Hpo as [Hpo|Hfab].
    apply orb_true_iff in Hpo. destruct Hpo as [Hab|Hba].
    - (* a is an early site that comes before b *)
      unfold early_before in Hab. apply andb_true_iff in Hab. destruct Hab as [Hra Hord].
      apply negb_true_iff in Hra. apply orb_true_iff in Hord. destruct Hord as [Hlt|Hsame].
      + apply N.ltb_lt in Hlt. apply (gate_order tr i j t t' o s s' a b); assumption.
      + exfalso. apply andb_true_iff in Hsame. destruct Hsame as [Hrb Heq].
        apply negb_true_iff in Hrb. apply N.eqb_eq in Heq.
        destruct (cf_early _ _ _ _ _ _ Hcf i t o s a Hi Ha Hra) as [Et _].
        destruct (cf_early _ _ _ _ _ _ Hcf j t' o s' b Hj Hb Hrb) as [Et' _].
        apply Hne. rewrite Et, Et', Heq. reflexivity.
    - (* b is an early site that would have to come before a: impossible since i < j *)
      exfalso.
      unfold early_before in Hba. apply andb_true_iff in Hba. destruct Hba as [Hrb Hord].
      apply negb_true_iff in Hrb. apply orb_true_iff in Hord. destruct Hord as [Hlt|Hsame].
      + apply N.ltb_lt in Hlt.
        destruct (gate_order tr j i t' t o s' s b a Hwe Hcf Hj Hi (not_eq_sym Hne) Hb Ha Hrb Hlt) as [Hji _].
        lia.
      + apply andb_true_iff in Hsame. destruct Hsame as [Hra Heq].
        apply negb_true_iff in Hra. apply N.eqb_eq in Heq.
        destruct (cf_early _ _ _ _ _ _ Hcf i t o s a Hi Ha Hra) as [Et _].
        destruct (cf_early _ _ _ _ _ _ Hcf j t' o s' b Hj Hb Hrb) as [Et' _].
        apply Hne. rewrite Et, Et', Heq. reflexivity.
    - (* listed edge a -> final b *)
      apply edge_covered_hb. exact (cf_final _ _ _ _ _ _ Hcf i j t t' o s s' a b Hi Hj Hne Ha Hb Hloc Hfab).
    - (* listed edge b -> final a would put j before i *)
      exfalso. rewrite same_loc_sym in Hloc.
      pose proof (cf_final _ _ _ _ _ _ Hcf j i t' t o s' s b a Hj Hi (not_eq_sym Hne) Hb Ha Hloc Hfba) as He.
      destruct He as [p [q [k [ea [eb [_ [_ [H1 [H2 [H3 _]]]]]]]]]]. lia.
    - (* a common lock, exclusive on one side *)
      destruct (common_lock_spec a b Hlock) as [m [x [x' [Hma [Hmb Hx]]]]].
      pose proof (cf_locks _ _ _ _ _ _ Hcf i t o s a m x Hi Ha Hma) as Hh1.
      pose proof (cf_locks _ _ _ _ _ _ Hcf j t' o s' b m x' Hj Hb Hmb) as Hh2.
      apply (common_lock_hb tr i j (Acc t o s) (Acc t' o s') o m x x'); auto.
      intros; discriminate.
    - (* same singleton role: the same goroutine, so no conflict at all *)
      exfalso. destruct (same_single_spec singleton a b Hsingle) as [r [Hra [Hrb Hs]]].
      pose proof (cf_single _ _ _ _ _ _ Hcf i t o s a r Hi Ha Hra Hs) as Et.
      assert (Hs' : singleton (s_struct b) r = true) by (rewrite <- (same_loc_struct a b Hloc); exact Hs).
      pose proof (cf_single _ _ _ _ _ _ Hcf j t' o s' b r Hj Hb Hrb Hs') as Et'.
      apply Hne. rewrite Et, Et', (same_loc_struct a b Hloc). reflexivity.
  Qed.

  Corollary table_sound_no_race :
    well_protected singleton tbl = true ->
    forall tr, wf_locks tr -> wf_edges tr -> conforms tbl singleton owner pown gate tr ->
    forall i j, ~ race tbl tr i j.
  Proof. intros Hwp tr H1 H2 H3 i j [Hc Hn]. apply Hn. exact (table_sound Hwp tr H1 H2 H3 i j Hc). Qed.
End Level2.

(* the check and its diagnostic list agree *)
Lemma bad_pairs_aux singleton inner outer :
  forallb (fun a => forallb (pair_ok singleton a) inner) outer = true <->
  flat_map (fun a => map (fun b => (a, b)) (filter (fun b => negb (pair_ok singleton a b)) inner)) outer = [].
Proof.
  induction outer as [|a r IH]; cbn [forallb flat_map]; [split; reflexivity|].
  rewrite andb_true_iff, IH. clear IH.
  assert (H : forallb (pair_ok singleton a) inner = true <->
              map (fun b => (a, b)) (filter (fun b => negb (pair_ok singleton a b)) inner) = []).
  { induction inner as [|b q IHq]; cbn [forallb filter map]; [split; reflexivity|].
    destruct (pair_ok singleton a b); cbn [negb andb map].
    - exact IHq.
    - split; discriminate. }
  rewrite H. split.
  - intros [-> ->]. reflexivity.
  - intros E. apply app_eq_nil in E. exact E.
Qed.

Lemma well_protected_bad_pairs singleton tbl :
  well_protected singleton tbl = true <-> bad_pairs singleton tbl = [].
Proof. apply bad_pairs_aux. Qed.
