(* Proofs about decoration (C06) on the forwarding model. *)
From Coq Require Import ZifyN ZifyBool.
From Refinery Require Import Lib.Base Gen.GenC04 Model.Rates Model.Decorate Proofs.Rates.

Section Oracles.
Variable dec : N -> N * bool * string.
Variable sdec : N -> N * bool * string.
Notation step := (step dec sdec).
Notation run := (run dec sdec).
Notation decide_all := (decide_all dec).
Notation decide_one := (decide_one dec).
Notation d_reason := Proofs.Rates.d_reason.
Notation d_keep := Proofs.Rates.d_keep.

(* ---- the configuration in force ---- *)
Lemma decide_all_frame l : forall s s1 o1,
  Rates.decide_all dec s l = (s1, o1) -> cf s1 = cf s /\ host_cur s1 = host_cur s.
Proof.
  induction l as [|[tid tr] rest IH]; intros s s1 o1; cbn [Rates.decide_all].
  - intros [= <- _]. split; reflexivity.
  - pose proof (decide_one_frame dec s tid tr) as (Hc & Hh & _).
    destruct (decide_one s tid tr) as [sa oa]. cbn [fst] in Hc, Hh.
    destruct (Rates.decide_all dec sa rest) as [sb ob] eqn:Eb. intros [= <- _].
    destruct (IH sa sb ob Eb) as [H1 H2]. split; congruence.
Qed.

Lemma step_cfg s o :
  cf (fst (step s o)) = match o with Reload c => c | _ => cf s end /\
  host_cur (fst (step s o)) = match o with Reload c => c_hostmeta c | _ => host_cur s end.
Proof.
  destruct o as [sp|sp| |c]; cbn [Rates.step].
  - destruct (alookup (s_tid sp) (buf s)); [split; reflexivity|].
    unfold check_span. destruct (mem_N (s_tid sp) (dropped s)); [split; reflexivity|].
    destruct (alookup (s_tid sp) (kept s)); split; reflexivity.
  - unfold check_span. destruct (mem_N (s_tid sp) (dropped s)); [split; reflexivity|].
    destruct (alookup (s_tid sp) (kept s)); [split; reflexivity|].
    destruct (sdec (s_tid sp)) as [[rate keep] reason]. destruct keep; split; reflexivity.
  - destruct (decide_all s (buf s)) as [s1 o1] eqn:E. cbn [fst cf host_cur].
    apply (decide_all_frame _ _ _ _ E).
  - replace host_reloaded with true by reflexivity. split; reflexivity.
Qed.

Theorem config_in_force c0 ops :
  cf (fst (run (init c0) ops)) = last_cfg c0 ops /\
  host_cur (fst (run (init c0) ops)) = c_hostmeta (last_cfg c0 ops).
Proof.
  assert (H : forall ops s, host_cur s = c_hostmeta (cf s) ->
              cf (fst (run s ops)) = last_cfg (cf s) ops /\ host_cur (fst (run s ops)) = c_hostmeta (last_cfg (cf s) ops)).
  { clear ops. induction ops as [|o r IH]; intros s Hs; cbn [Rates.run last_cfg]; [split; [reflexivity|exact Hs]|].
    destruct (step_cfg s o) as [Hc Hh]. destruct (step s o) as [s1 o1]. cbn [fst] in Hc, Hh.
    assert (Hs1 : host_cur s1 = c_hostmeta (cf s1)) by (destruct o; rewrite Hc, Hh; auto).
    specialize (IH s1 Hs1). destruct (run s1 r) as [s2 o2]. cbn [fst] in *.
    destruct o; rewrite Hc in IH; exact IH. }
  apply (H ops (init c0)). reflexivity.
Qed.

(* ---- attributes, host metadata, reason, on every forwarded span ---- *)
Definition deco_ok (s : st) (x : out) : Prop := o_attrs x = c_attrs (cf s) /\ o_host x = host_cur s.

Lemma decide_all_deco l : forall s x,
  In x (snd (decide_all s l)) ->
  deco_ok s x /\ o_stressed x = false /\
  exists tid tr sp, In (tid, tr) l /\ In sp (t_spans tr) /\ o_sid x = s_id sp /\
    o_reason x = (if c_reason (cf s) then d_reason (dec tid) else EmptyString) /\
    counts_of x = root_counts (cf s) (s_root sp) (n_desc (t_spans tr)) (n_sev (t_spans tr)) (n_link (t_spans tr)) (n_span (t_spans tr)).
Proof.
  induction l as [|[tid tr] rest IH]; intros s x; cbn [Rates.decide_all]; [intros []|].
  pose proof (decide_one_frame dec s tid tr) as (Hc & Hh & _).
  destruct (decide_one s tid tr) as [s1 o1] eqn:E1. cbn [fst] in Hc, Hh.
  destruct (decide_all s1 rest) as [s2 o2] eqn:E2. cbn [snd]. intros Hin. apply in_app_or in Hin.
  destruct Hin as [Hin|Hin].
  - unfold Rates.decide_one in E1. unfold Proofs.Rates.d_reason. destruct (dec tid) as [[rate keep] reason] eqn:D.
    destruct (negb keep && negb (c_dry (cf s))); injection E1 as <- <-; [destruct Hin|].
    apply in_map_iff in Hin. destruct Hin as [sp [<- Hsp]]. unfold fwd_ontime, deco_ok, host_on, counts_of.
    destruct (merge _ _ _) as [[[sr fin] orig] dr].
    destruct (root_counts _ _ _ _ _ _) as [[[sc ec] sev] lk] eqn:Er.
    cbn [o_attrs o_host o_stressed o_sid o_reason o_spancount o_eventcount o_sevcount o_linkcount snd].
    repeat split. exists tid, tr, sp. split; [left; reflexivity|].
    repeat split; auto; first [rewrite D; reflexivity | symmetry; exact Er].
  - specialize (IH s1 x). rewrite E2 in IH. cbn [snd] in IH. destruct (IH Hin) as ([Ha Hho] & Hst & tid' & tr' & sp & Hl & Hsp & Hsid & Hr & Hcn).
    unfold deco_ok. rewrite <- Hc, <- Hh. repeat split; auto.
    exists tid', tr', sp. split; [right; exact Hl|]. repeat split; auto.
Qed.

(* C06, on every forwarded span: the additional attributes and the host metadata of the configuration in
   force; the decision reason iff AddRuleReasonToTrace *)
Theorem forwarded_decoration s o x :
  In x (snd (step s o)) ->
  let s' := match o with Decide => s | _ => fst (step s o) end in
  o_attrs x = c_attrs (cf s) /\ o_host x = host_cur s /\
  (c_reason (cf s) = false -> o_reason x = EmptyString).
Proof.
  intros Hin s'. destruct o as [sp|sp| |c]; cbn [Rates.step] in Hin.
  - destruct (alookup (s_tid sp) (buf s)); [destruct Hin|].
    unfold check_span in Hin. destruct (mem_N (s_tid sp) (dropped s)).
    + cbn [snd fwd_late] in Hin. destruct (c_dry (cf s)); [|destruct Hin]. destruct Hin as [<-|[]].
      cbn [o_attrs o_host o_reason]. unfold late_reason, host_on. repeat split. intros ->. reflexivity.
    + destruct (alookup (s_tid sp) (kept s)) as [r|]; [|destruct Hin].
      cbn [snd fwd_late cf] in Hin. destruct (merge _ _ _) as [[[sr fin] orig] dr].
      destruct (root_counts _ _ _ _ _ _) as [[[sc ec] sev] lk]. destruct Hin as [<-|[]].
      cbn [o_attrs o_host o_reason]. unfold late_reason, host_on. cbn [cf host_cur]. repeat split. intros ->. reflexivity.
  - unfold check_span in Hin. destruct (mem_N (s_tid sp) (dropped s)); [destruct Hin|].
    destruct (alookup (s_tid sp) (kept s)) as [r|].
    + destruct Hin as [<-|[]]. unfold fwd_stress, host_on. cbn [cf host_cur]. destruct (merge _ _ _) as [[[sr fin] orig] dr].
      cbn [o_attrs o_host o_reason]. repeat split. intros ->. reflexivity.
    + destruct (sdec (s_tid sp)) as [[rate keep] reason]. destruct keep; [|destruct Hin].
      destruct Hin as [<-|[]]. unfold fwd_stress, host_on. destruct (merge _ _ _) as [[[sr fin] orig] dr].
      cbn [o_attrs o_host o_reason]. repeat split. intros ->. reflexivity.
  - destruct (decide_all s (buf s)) as [s1 o1] eqn:E. cbn [snd] in Hin.
    pose proof (decide_all_deco (buf s) s x) as H. rewrite E in H. cbn [snd] in H.
    destruct (H Hin) as ([Ha Hh] & _ & tid & tr & sp & _ & _ & _ & Hr & _).
    repeat split; auto. intros Hf. rewrite Hr, Hf. reflexivity.
  - destruct Hin.
Qed.

(* on-time spans: the sampler's reason; root spans: the counts of the trace as buffered when decided *)
Theorem ontime_reason_and_counts s x :
  In x (snd (step s Decide)) ->
  o_stressed x = false /\
  exists tid tr sp, In (tid, tr) (buf s) /\ In sp (t_spans tr) /\ o_sid x = s_id sp /\
    o_reason x = (if c_reason (cf s) then d_reason (dec tid) else EmptyString) /\
    counts_of x = (if s_root sp then expected_root (cf s) (cnt4 (t_spans tr)) else (0, 0, 0, 0)%N).
Proof.
  cbn [Rates.step]. destruct (decide_all s (buf s)) as [s1 o1] eqn:E. cbn [snd]. intros Hin.
  pose proof (decide_all_deco (buf s) s x) as H. rewrite E in H. cbn [snd] in H.
  destruct (H Hin) as (_ & Hst & tid & tr & sp & Hl & Hsp & Hsid & Hr & Hc).
  split; [exact Hst|]. exists tid, tr, sp. repeat split; auto.
Qed.

(* the decision record starts with the counts of the buffered trace ... *)
Theorem record_counts_at_decision s tid tr :
  d_keep (dec tid) = true ->
  exists r, alookup tid (kept (fst (decide_one s tid tr))) = Some r /\ rec4 r = cnt4 (t_spans tr) /\
            r_reason r = d_reason (dec tid).
Proof.
  unfold Rates.decide_one, Proofs.Rates.d_keep, Proofs.Rates.d_reason. destruct (dec tid) as [[rate keep] reason]. cbn [fst snd].
  intros ->. cbn [negb andb fst kept]. eexists. rewrite alookup_aset_eq. split; [reflexivity|]. split; reflexivity.
Qed.

(* ... every late span of a kept trace is counted into it exactly once, by its annotation type, and a late
   root carries the counts including itself; its reason is the recorded one marked as late *)
Theorem late_span_counted s sp x :
  In x (snd (step s (Span sp))) -> mem_N (s_tid sp) (dropped s) = false ->
  exists r, alookup (s_tid sp) (kept s) = Some r /\
    alookup (s_tid sp) (kept (fst (step s (Span sp)))) = Some (rec_count (s_ann sp) r) /\
    o_reason x = late_reason (cf s) (r_reason r) /\
    counts_of x = (if s_root sp then expected_root (cf s) (rec4 (rec_count (s_ann sp) r)) else (0, 0, 0, 0)%N).
Proof.
  cbn [Rates.step]. destruct (alookup (s_tid sp) (buf s)); [intros []|].
  unfold check_span. intros Hin Hd. rewrite Hd in *.
  destruct (alookup (s_tid sp) (kept s)) as [r|] eqn:L; [|destruct Hin].
  exists r. split; [reflexivity|]. cbn [fst snd kept fwd_late cf] in *. rewrite alookup_aset_eq. split; [reflexivity|].
  destruct (merge _ _ _) as [[[sr fin] orig] dr].
  destruct (root_counts _ _ _ _ _ _) as [[[sc ec] sev] lk] eqn:Er. destruct Hin as [<-|[]].
  unfold counts_of. cbn [o_reason o_spancount o_eventcount o_sevcount o_linkcount r_reason rec_count].
  split; [reflexivity|]. rewrite <- Er. reflexivity.
Qed.

End Oracles.

Lemma rec_count_adds_one a r :
  r_desc (rec_count a r) = (r_desc r + 1)%N /\
  (r_sev (rec_count a r) + r_link (rec_count a r) + r_span (rec_count a r) = r_sev r + r_link r + r_span r + 1)%N.
Proof.
  unfold rec_count. cbn [r_desc r_sev r_link r_span]. split; [reflexivity|].
  destruct (N.eqb a 1) eqn:E1; destruct (N.eqb a 2) eqn:E2; cbn [orb]; try lia.
Qed.

