(* The detailed worker model (Model/Collector.v: step / run / sys_run) refines the abstract machine:
   a span op is one ASpan, a tick / an ejection is the finite sequence of ADecide steps for the traces
   it takes, a reload is a stutter, a forgotten decision is AForget.  The theorems of
   Proofs/CollectorAbs.v are then transported to one worker and to the product of workers. *)
From Refinery Require Import Lib.Base Model.Collector Proofs.CollectorAbs Gen.GenC01.

(* What licenses [decide_one] (decision recorded, trace removed, and — if kept or dry run — ALL its spans
   handed to the transmission, in one atomic model step): facts re-read from the Go source on every run.
   Between makeDecision's Record and the transmission nothing can drop the trace:
   - every call of makeDecision in the tick and in the ejection (counted by calls, whatever the control
     structure around them: if-chain, switch, one shared block) is followed, on the non-error path, by
     straight-line statements and `send` of what was decided; the error path only `continue`s;
   - `send` returns early only for an already-sent trace or a dropped one (2 returns), and hands the trace
     over with a plain blocking channel send — no select / default that could discard it when the queue is full;
   - `sendTraces` ranges over the queue until it is CLOSED — no select on a done channel that could abandon
     queued traces.
   If any of these stops holding, this lemma (hence the refinement proof and every collector theorem) no longer
   compiles and the check searches for a concrete loss. *)
Definition send_path_lossless : bool :=
  md_records_decision &&
  negb (Nat.eqb (length tick_decide_calls) 0) && Nat.eqb (length tick_decide_then_send_sites) (length tick_decide_calls) &&
  negb (Nat.eqb (length eject_decide_calls) 0) && Nat.eqb (length eject_decide_then_send_sites) (length eject_decide_calls) &&
  send_ends_with_plain_channel_send && negb send_has_select_or_default &&
  Nat.eqb (length send_returns) 2 && send_return_if_already_sent && send_return_if_dropped_and_not_dry &&
  sendtraces_ranges_over_queue_until_closed && negb sendtraces_has_select_or_done.
Lemma send_path_lossless_holds : send_path_lossless = true.
Proof. vm_compute. reflexivity. Qed.

Section Ref.
  Variable sampler : N -> list span -> bool.
  Variable dry : bool.
  Notation step_span := (step_span dry).
  Notation decide_one := (decide_one sampler dry).
  Notation decide_list := (decide_list sampler dry).
  Notation step := (step sampler dry).
  Notation step_total := (step_total sampler dry).
  Notation run := (run sampler dry).
  Notation sys_step := (sys_step sampler dry).
  Notation sys_run := (sys_run sampler dry).
  Notation astep := (astep dry).
  Notation arun := (arun dry).
  Notation fwb k := (k || dry).

  Definition sids (tr : trace) : list N := map s_id (t_spans tr).
  Definition abuf (b : amap trace) : amap (list N) := map (fun kv => (fst kv, sids (snd kv))) b.
  Definition proj (e : ev) : N * N := (fst (fst e), snd (fst e)).

  Definition absw (w : wstate) (x : ast) : Prop := a_buf x = abuf (w_buf w) /\ a_dec x = w_dec w.

  Lemma abuf_lookup t b : alookup t (abuf b) = option_map sids (alookup t b).
  Proof.
    induction b as [|[k v] r IH]; cbn [abuf map alookup fst snd option_map]; [reflexivity|].
    destruct (N.eqb t k); [reflexivity|exact IH].
  Qed.
  Lemma abuf_aremove t b : abuf (aremove t b) = aremove t (abuf b).
  Proof.
    induction b as [|[k v] r IH]; cbn [abuf map aremove fst snd]; [reflexivity|].
    destruct (N.eqb t k); [exact IH|]. cbn [map fst snd]. f_equal. exact IH.
  Qed.
  Lemma abuf_aset t tr b : abuf (aset t tr b) = aset t (sids tr) (abuf b).
  Proof. unfold aset. cbn [abuf map fst snd]. f_equal. apply abuf_aremove. Qed.

  Lemma sids_add_span c now tr s : sids (add_span c now tr s) = s_id s :: sids tr.
  Proof. reflexivity. Qed.

  (* traces taken one after the other from a shrinking buffer *)
  Fixpoint coherent (buf : amap trace) (l : list (N * trace)) : Prop :=
    match l with
    | [] => True
    | (t, tr) :: r => alookup t buf = Some tr /\ coherent (aremove t buf) r
    end.

  Definition dec_aops (ver : N) (l : list (N * trace)) : list aop :=
    map (fun kv => ADecide (fst kv) (sampler ver (rev (t_spans (snd kv))))) l.

  Lemma take_loop_coherent ch : forall buf now max taken l,
    take_loop buf now max taken ch = Some l -> coherent buf l.
  Proof.
    induction ch as [|t rest IH]; intros buf now max taken l; cbn [take_loop].
    - destruct (negb (is_empty buf) && ((max <=? 0) || (taken <? max))).
      + destruct (none_expired buf now); intros [= <-]; exact I.
      + intros [= <-]; exact I.
    - destruct (negb (is_empty buf) && ((max <=? 0) || (taken <? max))); [|discriminate].
      destruct (alookup t buf) as [tr|] eqn:L; [|discriminate].
      destruct (is_min_deadline buf (t_sendby tr) && negb (now <? t_sendby tr)); [|discriminate].
      destruct (take_loop (aremove t buf) now max (taken + 1) rest) as [l'|] eqn:R; [|discriminate].
      cbn [option_map]. intros [= <-]. cbn [coherent]. split; [exact L|]. eapply IH; exact R.
  Qed.

  Lemma eject_loop_coherent ch : forall buf tt bytes total l,
    eject_loop buf tt bytes total ch = Some l -> coherent buf l.
  Proof.
    induction ch as [|t rest IH]; intros buf tt bytes total l; cbn [eject_loop].
    - destruct (is_empty buf); [intros [= <-]; exact I|discriminate].
    - destruct (alookup t buf) as [tr|] eqn:L; [|discriminate].
      destruct (is_max_impact tt buf (trace_impact tt tr)); [|discriminate].
      destruct (bytes <? total + data_size tr).
      + destruct (is_empty rest); [|discriminate]. intros [= <-]. cbn [coherent]. split; [exact L|exact I].
      + destruct (eject_loop (aremove t buf) tt bytes (total + data_size tr) rest) as [l'|] eqn:R; [|discriminate].
        cbn [option_map]. intros [= <-]. cbn [coherent]. split; [exact L|]. eapply IH; exact R.
  Qed.

  Lemma map_proj_fwd t r (spans : list span) :
    rev (map proj (map (fun s => (t, s_id s, r)) (rev spans))) = map (pair t) (map s_id spans).
  Proof.
    rewrite map_map. cbn [proj fst snd]. rewrite map_rev, rev_involutive, map_map. reflexivity.
  Qed.

  Lemma decide_list_refines rf l : forall w x,
    coherent (w_buf w) l -> absw w x ->
    absw (fst (decide_list w rf l)) (arun x (dec_aops (c_ver (w_cfg w)) l)) /\
    a_out (arun x (dec_aops (c_ver (w_cfg w)) l)) = rev (map proj (snd (decide_list w rf l))) ++ a_out x /\
    a_acc (arun x (dec_aops (c_ver (w_cfg w)) l)) = a_acc x /\
    w_cfg (fst (decide_list w rf l)) = w_cfg w.
  Proof.
    induction l as [|[t tr] r IH]; intros w x Hc [Hb Hd].
    - cbn. repeat split; assumption.
    - destruct Hc as [Hl Hc]. cbn [decide_list dec_aops map fst snd Collector.arun fold_left].
      set (keep := sampler (c_ver (w_cfg w)) (rev (t_spans tr))).
      set (w1 := fst (decide_one w (rf tr) t tr)).
      assert (Hw1 : decide_one w (rf tr) t tr =
                    (w1, if fw dry keep then map (fun s => (t, s_id s, rf tr)) (rev (t_spans tr)) else [])) by reflexivity.
      rewrite Hw1.
      assert (Hx1 : astep x (ADecide t keep) =
                    {| a_buf := aremove t (a_buf x); a_dec := aset t keep (a_dec x);
                       a_out := (if keep || dry then map (pair t) (sids tr) else []) ++ a_out x;
                       a_acc := a_acc x; a_fgt := a_fgt x; a_hist := (t, keep) :: a_hist x |}).
      { cbn [Collector.astep]. rewrite Hb, abuf_lookup, Hl. reflexivity. }
      assert (Habs1 : absw w1 (astep x (ADecide t keep))).
      { rewrite Hx1. split; cbn [a_buf a_dec w1 fst Collector.decide_one w_buf w_dec].
        - rewrite Hb. symmetry. apply abuf_aremove.
        - rewrite Hd. reflexivity. }
      assert (Hcfg1 : w_cfg w1 = w_cfg w) by reflexivity.
      assert (Hc1 : coherent (w_buf w1) r) by exact Hc.
      specialize (IH w1 (astep x (ADecide t keep)) Hc1 Habs1).
      rewrite Hcfg1 in IH. fold keep.
      change (fold_left astep (dec_aops (c_ver (w_cfg w)) r) (astep x (ADecide t keep)))
        with (arun (astep x (ADecide t keep)) (dec_aops (c_ver (w_cfg w)) r)).
      destruct (decide_list w1 rf r) as [w2 e2] eqn:E2. cbn [fst snd] in *.
      destruct IH as [IA [IO [IC IG]]]. split; [exact IA|]. split; [|split; [transitivity (a_acc (astep x (ADecide t keep))); [exact IC|rewrite Hx1; reflexivity]|exact IG]].
      transitivity (rev (map proj e2) ++ a_out (astep x (ADecide t keep))); [exact IO|].
      rewrite Hx1. cbn [a_out]. rewrite map_app, rev_app_distr, <- app_assoc. f_equal. f_equal.
      unfold fw. destruct (keep || dry); [|reflexivity]. symmetry. apply map_proj_fwd.
  Qed.

  (* abstract ops performed by one detailed op in state w *)
  Definition trans (w : wstate) (o : op) : list aop :=
    match o with
    | OSpan now s => [ASpan (s_tid s) (s_id s)]
    | OTick now ch =>
        match take_loop (w_buf w) now (c_me (w_cfg w)) 0 ch with
        | Some l => dec_aops (c_ver (w_cfg w)) l | None => [] end
    | OEject bytes ch =>
        match eject_loop (w_buf w) (eject_tt (w_cfg w)) bytes 0 ch with
        | Some l => dec_aops (c_ver (w_cfg w)) l | None => [] end
    | OReload _ => []
    | OForget t => [AForget t]
    end.

  Lemma step_refines w o x :
    absw w x ->
    absw (fst (step_total w o)) (arun x (trans w o)) /\
    a_out (arun x (trans w o)) = rev (map proj (snd (step_total w o))) ++ a_out x.
  Proof.
    pose proof send_path_lossless_holds as Hsource.
    intros [Hb Hd]. destruct o as [now s|now ch|bytes ch|c|t]; unfold Collector.step_total; cbn [Collector.step trans].
    - (* span *)
      cbn [Collector.arun fold_left Collector.astep]. unfold Collector.step_span.
      rewrite Hb, abuf_lookup, Hd.
      destruct (alookup (s_tid s) (w_buf w)) as [tr|] eqn:L; cbn [option_map fst snd].
      + split; [|reflexivity]. split; cbn [a_buf a_dec set_buf w_buf w_dec]; [|first [exact Hd|reflexivity]].
        rewrite abuf_aset, sids_add_span. reflexivity.
      + destruct (alookup (s_tid s) (w_dec w)) as [k|] eqn:D; cbn [fst snd].
        * split; [split; cbn [a_buf a_dec]; [first [exact Hb|reflexivity]|first [exact Hd|reflexivity]]|].
          cbn [a_out]. unfold fw. destruct (k || dry); reflexivity.
        * split; [|reflexivity]. split; cbn [a_buf a_dec set_buf w_buf w_dec]; [|first [exact Hd|reflexivity]].
          rewrite abuf_aset, sids_add_span. reflexivity.
    - (* tick *)
      unfold step_tick. destruct (take_loop (w_buf w) now (c_me (w_cfg w)) 0 ch) as [l|] eqn:T.
      + pose proof (decide_list_refines (tick_reason (w_cfg w)) l w x (take_loop_coherent _ _ _ _ _ _ T) (conj Hb Hd)) as H.
        destruct H as [HA [HO _]]. split; assumption.
      + cbn. split; [split; assumption|reflexivity].
    - (* eject *)
      unfold step_eject. destruct (eject_loop (w_buf w) (eject_tt (w_cfg w)) bytes 0 ch) as [l|] eqn:T.
      + pose proof (decide_list_refines (fun _ => R_eject) l w x (eject_loop_coherent _ _ _ _ _ _ T) (conj Hb Hd)) as H.
        destruct H as [HA [HO _]]. split; assumption.
      + cbn. split; [split; assumption|reflexivity].
    - cbn. split; [split; assumption|reflexivity].
    - cbn [Collector.arun fold_left Collector.astep fst snd map rev app]. split; [|reflexivity].
      split; cbn [a_buf a_dec w_buf w_dec]; [exact Hb|rewrite Hd; reflexivity].
  Qed.

  Fixpoint atrans (w : wstate) (ops : list op) : list aop :=
    match ops with
    | [] => []
    | o :: r => trans w o ++ atrans (fst (step_total w o)) r
    end.

  Lemma run_cons w o r :
    run w (o :: r) = (fst (run (fst (step_total w o)) r),
                      snd (step_total w o) :: snd (run (fst (step_total w o)) r)).
  Proof.
    cbn [Collector.run]. destruct (step_total w o) as [w1 e]. cbn [fst snd].
    destruct (Collector.run sampler dry w1 r) as [w2 es]. reflexivity.
  Qed.

  Lemma run_refines ops : forall w x,
    absw w x ->
    absw (fst (run w ops)) (arun x (atrans w ops)) /\
    a_out (arun x (atrans w ops)) = rev (map proj (concat (snd (run w ops)))) ++ a_out x.
  Proof.
    induction ops as [|o r IH]; intros w x Ha.
    - cbn. split; [exact Ha|reflexivity].
    - rewrite run_cons. cbn [fst snd atrans concat]. rewrite arun_app.
      destruct (step_refines w o x Ha) as [Ha1 Ho1].
      destruct (IH _ _ Ha1) as [Ha2 Ho2]. split; [exact Ha2|].
      rewrite Ho2, Ho1, map_app, rev_app_distr, app_assoc. reflexivity.
  Qed.

  (* which abstract ops a detailed history contains *)
  Lemma dec_aops_only_decide ver l a : In a (dec_aops ver l) -> exists t k, a = ADecide t k.
  Proof. unfold dec_aops. rewrite in_map_iff. intros [kv [<- _]]. eauto. Qed.

  Lemma trans_span w o t s : In (ASpan t s) (trans w o) <-> exists now sp, o = OSpan now sp /\ s_tid sp = t /\ s_id sp = s.
  Proof.
    destruct o as [now sp|now ch|bytes ch|c|t0]; cbn [trans].
    - split.
      + intros [H|[]]. injection H as <- <-. eauto.
      + intros [now' [sp' [H [<- <-]]]]. injection H as _ <-. left; reflexivity.
    - split.
      + destruct (take_loop _ _ _ _ _); [|intros []]. intros H. apply dec_aops_only_decide in H. destruct H as [? [? H]]. discriminate.
      + intros [? [? [H _]]]. discriminate.
    - split.
      + destruct (eject_loop _ _ _ _ _); [|intros []]. intros H. apply dec_aops_only_decide in H. destruct H as [? [? H]]. discriminate.
      + intros [? [? [H _]]]. discriminate.
    - split; [intros []|intros [? [? [H _]]]; discriminate].
    - split; [intros [H|[]]; discriminate|intros [? [? [H _]]]; discriminate].
  Qed.

  Lemma trans_forget w o t : In (AForget t) (trans w o) <-> o = OForget t.
  Proof.
    destruct o as [now sp|now ch|bytes ch|c|t0]; cbn [trans].
    - split; [intros [H|[]]; discriminate|discriminate].
    - split; [|discriminate]. destruct (take_loop _ _ _ _ _); [|intros []].
      intros H. apply dec_aops_only_decide in H. destruct H as [? [? H]]. discriminate.
    - split; [|discriminate]. destruct (eject_loop _ _ _ _ _); [|intros []].
      intros H. apply dec_aops_only_decide in H. destruct H as [? [? H]]. discriminate.
    - split; [intros []|discriminate].
    - split; [intros [H|[]]; congruence|intros [= ->]; left; reflexivity].
  Qed.

  Definition accepted_by (ops : list op) (t s : N) : Prop :=
    exists now sp, In (OSpan now sp) ops /\ s_tid sp = t /\ s_id sp = s.

  Lemma atrans_span ops : forall w t s, In (ASpan t s) (atrans w ops) <-> accepted_by ops t s.
  Proof.
    induction ops as [|o r IH]; intros w t s; cbn [atrans].
    - split; [intros []|intros [? [? [[] _]]]].
    - rewrite in_app_iff, trans_span, IH. unfold accepted_by. split.
      + intros [[now [sp [-> [H1 H2]]]]|[now [sp [Hin [H1 H2]]]]].
        * exists now, sp. split; [left; reflexivity|split; assumption].
        * exists now, sp. split; [right; exact Hin|split; assumption].
      + intros [now [sp [[->|Hin] [H1 H2]]]].
        * left. exists now, sp. repeat split; assumption.
        * right. exists now, sp. repeat split; assumption.
  Qed.

  Lemma atrans_forget ops : forall w t, In (AForget t) (atrans w ops) <-> In (OForget t) ops.
  Proof.
    induction ops as [|o r IH]; intros w t; cbn [atrans In]; [tauto|].
    rewrite in_app_iff, trans_forget, IH. split; (intros [H|H]; [left|right]; congruence).
  Qed.

  (* unique span ids in the detailed history -> unique accepted pairs in the abstract one *)
  Definition span_keys (ops : list op) : list (N * N) :=
    flat_map (fun o => match o with OSpan _ sp => [(s_tid sp, s_id sp)] | _ => [] end) ops.

  Lemma accepted_trans_nonspan w o : (forall now sp, o <> OSpan now sp) -> accepted (trans w o) = [].
  Proof.
    intros H. destruct o as [now sp|now ch|bytes ch|c|t0]; cbn [trans].
    - exfalso. eapply H; reflexivity.
    - destruct (take_loop _ _ _ _ _) as [l|]; [|reflexivity]. induction l as [|kv r IH]; [reflexivity|exact IH].
    - destruct (eject_loop _ _ _ _ _) as [l|]; [|reflexivity]. induction l as [|kv r IH]; [reflexivity|exact IH].
    - reflexivity.
    - reflexivity.
  Qed.

  Lemma accepted_app l1 l2 : accepted (l1 ++ l2) = accepted l1 ++ accepted l2.
  Proof. unfold accepted. apply flat_map_app. Qed.

  Lemma accepted_atrans ops : forall w, accepted (atrans w ops) = span_keys ops.
  Proof.
    induction ops as [|o r IH]; intros w; cbn [atrans span_keys flat_map]; [reflexivity|].
    rewrite accepted_app, IH. f_equal.
    destruct o as [now sp|now ch|bytes ch|c|t0]; try (apply accepted_trans_nonspan; intros; discriminate).
    reflexivity.
  Qed.

  Definition forwarded (es : list (list ev)) (t s : N) : Prop := exists r, In (t, s, r) (concat es).

  Lemma forwarded_proj es t s : forwarded es t s <-> In (t, s) (rev (map proj (concat es))).
  Proof.
    unfold forwarded. rewrite <- in_rev, in_map_iff. split.
    - intros [r H]. exists (t, s, r). split; [reflexivity|exact H].
    - intros [[[t' s'] r] [H Hin]]. cbn in H. injection H as -> ->. exists r. exact Hin.
  Qed.

  Lemma absw_init c : absw (winit c) ainit.
  Proof. split; reflexivity. Qed.

  (* ---------- one worker ---------- *)
  Theorem worker_all_or_none c ops t :
    ~ In (OForget t) ops ->
    match alookup t (w_dec (fst (run (winit c) ops))) with
    | Some k => if fwb k then (forall s, accepted_by ops t s <-> forwarded (snd (run (winit c) ops)) t s)
                else (forall s, ~ forwarded (snd (run (winit c) ops)) t s)
    | None => forall s, ~ forwarded (snd (run (winit c) ops)) t s
    end.
  Proof.
    intros Hnf. destruct (run_refines ops (winit c) ainit (absw_init c)) as [[_ Hd] Ho].
    cbn [a_out ainit] in Ho. rewrite app_nil_r in Ho.
    pose proof (abs_all_or_none dry (atrans (winit c) ops) t) as H. cbn zeta in H.
    rewrite atrans_forget in H. specialize (H Hnf). rewrite Hd, Ho in H.
    destruct (alookup t (w_dec (fst (run (winit c) ops)))) as [k|].
    - destruct (k || dry).
      + intros s. rewrite forwarded_proj, <- atrans_span. apply H.
      + intros s. rewrite forwarded_proj. apply H.
    - intros s. rewrite forwarded_proj. apply H.
  Qed.

  Theorem worker_decision_final c ops1 ops2 t k :
    alookup t (w_dec (fst (run (winit c) ops1))) = Some k -> ~ In (OForget t) ops2 ->
    alookup t (w_dec (fst (run (winit c) (ops1 ++ ops2)))) = Some k.
  Proof.
    intros Hd Hn.
    destruct (run_refines ops1 (winit c) ainit (absw_init c)) as [[_ Hd1] _].
    destruct (run_refines (ops1 ++ ops2) (winit c) ainit (absw_init c)) as [[_ Hd2] _].
    rewrite <- Hd2. rewrite <- Hd1 in Hd.
    assert (E : forall l1 l2 w, atrans w (l1 ++ l2) = atrans w l1 ++ atrans (fst (run w l1)) l2).
    { induction l1 as [|o r IH]; intros l2 w; [reflexivity|].
      rewrite run_cons. cbn [app atrans fst]. rewrite IH, app_assoc. reflexivity. }
    rewrite E. apply abs_decision_final; [exact Hd|]. rewrite atrans_forget. exact Hn.
  Qed.

  Theorem worker_exactly_once c ops :
    NoDup (span_keys ops) ->
    NoDup (map proj (concat (snd (run (winit c) ops)))) /\
    (forall t s, forwarded (snd (run (winit c) ops)) t s -> accepted_by ops t s).
  Proof.
    intros Hnd. destruct (run_refines ops (winit c) ainit (absw_init c)) as [_ Ho].
    cbn [a_out ainit] in Ho. rewrite app_nil_r in Ho.
    pose proof (abs_exactly_once dry (atrans (winit c) ops)) as H. cbn zeta in H.
    rewrite accepted_atrans in H. destruct (H Hnd) as [H1 [H2 _]]. rewrite Ho in H1, H2. split.
    - apply NoDup_rev in H1. rewrite rev_involutive in H1. exact H1.
    - intros t s Hf. rewrite <- atrans_span. apply H2. apply forwarded_proj. exact Hf.
  Qed.

  (* each accepted span of a never-forgotten trace is buffered (undecided), or forwarded
     (decided keep / dry run), or dropped together with its trace — never lost, never both *)
  Theorem worker_no_span_lost c ops t s :
    ~ In (OForget t) ops -> accepted_by ops t s ->
    match alookup t (w_dec (fst (run (winit c) ops))) with
    | None => exists tr, alookup t (w_buf (fst (run (winit c) ops))) = Some tr /\ In s (sids tr)
    | Some k => alookup t (w_buf (fst (run (winit c) ops))) = None /\
                (forwarded (snd (run (winit c) ops)) t s <-> fwb k = true)
    end.
  Proof.
    intros Hnf Hacc. destruct (run_refines ops (winit c) ainit (absw_init c)) as [[Hb Hd] Ho].
    cbn [a_out ainit] in Ho. rewrite app_nil_r in Ho.
    pose proof (abs_no_span_lost dry (atrans (winit c) ops) t s) as H. cbn zeta in H.
    rewrite atrans_forget, atrans_span in H. specialize (H Hnf Hacc). rewrite Hd, Hb, Ho in H.
    destruct (alookup t (w_dec (fst (run (winit c) ops)))) as [k|].
    - rewrite abuf_lookup in H. destruct H as [H1 H2]. split.
      + destruct (alookup t (w_buf (fst (run (winit c) ops)))); [discriminate|reflexivity].
      + rewrite forwarded_proj. exact H2.
    - destruct H as [ss [H1 H2]]. rewrite abuf_lookup in H1.
      destruct (alookup t (w_buf (fst (run (winit c) ops)))) as [tr|]; [|discriminate].
      injection H1 as <-. exists tr. split; [reflexivity|exact H2].
  Qed.

  (* the abstract history of decisions: at most one decision per never-forgotten trace *)
  Theorem worker_single_decision c ops t :
    ~ In (OForget t) ops ->
    occ t (a_hist (arun ainit (atrans (winit c) ops))) =
    match alookup t (w_dec (fst (run (winit c) ops))) with Some k => [(t, k)] | None => [] end.
  Proof.
    intros Hnf. destruct (run_refines ops (winit c) ainit (absw_init c)) as [[_ Hd] _].
    rewrite <- Hd. apply abs_single_decision. rewrite atrans_forget. exact Hnf.
  Qed.

  (* ---------- the product of workers: worker count and routing are irrelevant ---------- *)
  Definition pops (i : nat) (ops : list sop) : list op :=
    map sop_op (filter (fun so => Nat.eqb (sop_w so) i) ops).
  (* events emitted by the ops addressed to worker i *)
  Fixpoint evs_at (i : nat) (ops : list sop) (es : list (list ev)) : list (list ev) :=
    match ops, es with
    | so :: r, e :: er => if Nat.eqb (sop_w so) i then e :: evs_at i r er else evs_at i r er
    | _, _ => []
    end.

  Lemma nth_error_upd_eq {A} (l : list A) : forall i x y, nth_error l i = Some y -> nth_error (upd i x l) i = Some x.
  Proof.
    induction l as [|a r IH]; intros [|i] x y; cbn; try discriminate; [reflexivity|]. apply IH.
  Qed.
  Lemma nth_error_upd_neq {A} (l : list A) : forall i j x, i <> j -> nth_error (upd j x l) i = nth_error l i.
  Proof.
    induction l as [|a r IH]; intros [|i] [|j] x Hne; cbn; try reflexivity; try congruence.
    apply IH. congruence.
  Qed.

  Lemma sys_run_cons ws so r :
    sys_run ws (so :: r) = (fst (sys_run (fst (sys_step ws so)) r),
                            snd (sys_step ws so) :: snd (sys_run (fst (sys_step ws so)) r)).
  Proof.
    cbn [Collector.sys_run]. destruct (sys_step ws so) as [ws1 e]. cbn [fst snd].
    destruct (Collector.sys_run sampler dry ws1 r) as [ws2 es]. reflexivity.
  Qed.

  Theorem sys_run_proj ops : forall ws i w,
    nth_error ws i = Some w ->
    nth_error (fst (sys_run ws ops)) i = Some (fst (run w (pops i ops))) /\
    evs_at i ops (snd (sys_run ws ops)) = snd (run w (pops i ops)).
  Proof.
    induction ops as [|so r IH]; intros ws i w Hw.
    - cbn. split; [exact Hw|reflexivity].
    - rewrite sys_run_cons. cbn [fst snd evs_at]. unfold pops. cbn [filter].
      unfold Collector.sys_step.
      destruct (nth_error ws (sop_w so)) as [w0|] eqn:E0.
      + destruct (step_total w0 (sop_op so)) as [w1 e] eqn:S. cbn [fst snd].
        destruct (Nat.eqb (sop_w so) i) eqn:Ei.
        * apply Nat.eqb_eq in Ei. subst i. assert (w0 = w) by congruence. subst w0.
          cbn [map]. fold (pops (sop_w so) r). rewrite run_cons, S. cbn [fst snd].
          destruct (IH (upd (sop_w so) w1 ws) (sop_w so) w1 (nth_error_upd_eq _ _ _ _ E0)) as [H1 H2].
          split; [exact H1|]. f_equal. exact H2.
        * apply Nat.eqb_neq in Ei. fold (pops i r). apply IH.
          rewrite nth_error_upd_neq; [exact Hw|congruence].
      + cbn [fst snd]. destruct (Nat.eqb (sop_w so) i) eqn:Ei.
        * apply Nat.eqb_eq in Ei. congruence.
        * fold (pops i r). apply IH. exact Hw.
  Qed.

  (* every event of the system run was emitted by some existing worker *)
  Lemma sys_event_origin ops : forall ws e,
    In e (concat (snd (sys_run ws ops))) ->
    exists i w, nth_error ws i = Some w /\ In e (concat (evs_at i ops (snd (sys_run ws ops)))).
  Proof.
    induction ops as [|so r IH]; intros ws e; [intros []|].
    rewrite sys_run_cons. cbn [fst snd concat evs_at]. intros Hin. apply in_app_or in Hin.
    unfold Collector.sys_step in *.
    destruct (nth_error ws (sop_w so)) as [w0|] eqn:E0.
    - destruct (step_total w0 (sop_op so)) as [w1 e1] eqn:S. cbn [fst snd] in *.
      destruct Hin as [Hin|Hin].
      + exists (sop_w so), w0. split; [exact E0|]. rewrite Nat.eqb_refl. cbn [concat]. apply in_or_app. left; exact Hin.
      + destruct (IH _ _ Hin) as [i [w [Hw He]]].
        destruct (Nat.eq_dec i (sop_w so)) as [->|Hne].
        * exists (sop_w so), w0. split; [exact E0|]. rewrite Nat.eqb_refl. cbn [concat]. apply in_or_app. right; exact He.
        * exists i, w. rewrite nth_error_upd_neq in Hw by exact Hne. split; [exact Hw|].
          destruct (Nat.eqb (sop_w so) i) eqn:Ei; [apply Nat.eqb_eq in Ei; congruence|exact He].
    - cbn [fst snd] in *. destruct Hin as [[]|Hin]. destruct (IH _ _ Hin) as [i [w [Hw He]]].
      exists i, w. split; [exact Hw|].
      destruct (Nat.eqb (sop_w so) i) eqn:Ei; [apply Nat.eqb_eq in Ei; congruence|exact He].
  Qed.

  (* routing: every span / forget op of trace t is addressed to worker wk t *)
  Definition op_trace (o : op) : option N :=
    match o with OSpan _ sp => Some (s_tid sp) | OForget t => Some t | _ => None end.
  Definition routed (wk : N -> nat) (ops : list sop) : Prop :=
    forall so t, In so ops -> op_trace (sop_op so) = Some t -> sop_w so = wk t.

  Definition sys_accepted (ops : list sop) (t s : N) : Prop := accepted_by (map sop_op ops) t s.
  Definition sys_forgot (ops : list sop) (t : N) : Prop := exists i, In (SOp i (OForget t)) ops.

  Lemma pops_in i ops o : In o (pops i ops) <-> In (SOp i o) ops.
  Proof.
    unfold pops. rewrite in_map_iff. split.
    - intros [[j o'] [<- Hin]]. apply filter_In in Hin. destruct Hin as [Hin Hj]. cbn in Hj.
      apply Nat.eqb_eq in Hj. subst. exact Hin.
    - intros Hin. exists (SOp i o). split; [reflexivity|]. apply filter_In. split; [exact Hin|]. cbn. apply Nat.eqb_refl.
  Qed.

  Lemma evs_at_sub i ops : forall (l : list (list ev)) e, In e (concat (evs_at i ops l)) -> In e (concat l).
  Proof.
    induction ops as [|so r IH]; intros [|e0 l] e; cbn [evs_at concat]; try (intros []).
    destruct (Nat.eqb (sop_w so) i); cbn [concat]; intros H; apply in_or_app.
    - apply in_app_or in H. destruct H as [H|H]; [left; exact H|right; apply IH; exact H].
    - right. apply IH; exact H.
  Qed.

  Theorem sys_all_or_none n c wk ops t :
    routed wk ops -> (wk t < n)%nat -> ~ sys_forgot ops t ->
    let ws := fst (sys_run (repeat (winit c) n) ops) in
    let es := snd (sys_run (repeat (winit c) n) ops) in
    exists w, nth_error ws (wk t) = Some w /\
    match alookup t (w_dec w) with
    | Some k => if fwb k then (forall s, sys_accepted ops t s <-> forwarded es t s)
                else (forall s, ~ forwarded es t s)
    | None => forall s, ~ forwarded es t s
    end.
  Proof.
    intros Hr Hlt Hnf ws es.
    assert (Hnth : forall i, (i < n)%nat -> nth_error (repeat (winit c) n) i = Some (winit c)).
    { intros i Hi. rewrite nth_error_repeat; [reflexivity|exact Hi]. }
    assert (Hnone : forall i w, nth_error (repeat (winit c) n) i = Some w -> w = winit c).
    { intros i w H. apply nth_error_In in H. apply repeat_spec in H. exact H. }
    destruct (sys_run_proj ops (repeat (winit c) n) (wk t) (winit c) (Hnth _ Hlt)) as [Hw He].
    fold ws in Hw. fold es in He.
    exists (fst (run (winit c) (pops (wk t) ops))). split; [exact Hw|].
    assert (Hnf' : ~ In (OForget t) (pops (wk t) ops)).
    { rewrite pops_in. intros F. apply Hnf. exists (wk t). exact F. }
    pose proof (worker_all_or_none c (pops (wk t) ops) t Hnf') as H.
    (* events for t come only from worker wk t *)
    assert (Hfw : forall s, forwarded es t s <-> forwarded (snd (run (winit c) (pops (wk t) ops))) t s).
    { intros s. unfold forwarded. split.
      - intros [r Hin]. unfold es in Hin. apply sys_event_origin in Hin.
        destruct Hin as [i [w [Hwi Hin]]]. pose proof (Hnone _ _ Hwi). subst w.
        destruct (sys_run_proj ops _ i _ Hwi) as [_ Hei]. rewrite Hei in Hin.
        (* worker i forwarded (t,s): so it accepted a span of t: so i = wk t *)
        assert (Hacc : accepted_by (pops i ops) t s).
        { destruct (run_refines (pops i ops) (winit c) ainit (absw_init c)) as [_ Ho].
          cbn [a_out ainit] in Ho. rewrite app_nil_r in Ho.
          pose proof (arun_inv dry (atrans (winit c) (pops i ops)) ainit (ainit_inv dry)) as Inv.
          assert (Hout : In (t, s) (a_out (arun ainit (atrans (winit c) (pops i ops))))).
          { rewrite Ho. apply forwarded_proj. exists r. exact Hin. }
          apply (inv_out_acc dry _ Inv) in Hout. rewrite acc_arun in Hout. destruct Hout as [[]|Hout].
          apply atrans_span in Hout. exact Hout. }
        destruct Hacc as [now [sp [Hsp [Ht Hs]]]]. apply pops_in in Hsp.
        assert (i = wk t) by (apply (Hr _ t Hsp); cbn; congruence). subst i.
        exists r. exact Hin.
      - intros [r Hin]. exists r. rewrite <- He in Hin. exact (evs_at_sub _ _ _ _ Hin). }
    assert (Hacc : forall s, sys_accepted ops t s <-> accepted_by (pops (wk t) ops) t s).
    { intros s. unfold sys_accepted, accepted_by. split.
      - intros [now [sp [Hin [Ht Hs]]]]. apply in_map_iff in Hin. destruct Hin as [[i o] [Ho Hin]]. cbn in Ho. subst o.
        exists now, sp. split; [|split; assumption]. apply pops_in.
        assert (i = wk t) by (apply (Hr _ t Hin); cbn; congruence). subst i. exact Hin.
      - intros [now [sp [Hin [Ht Hs]]]]. apply pops_in in Hin. exists now, sp. split; [|split; assumption].
        apply in_map_iff. exists (SOp (wk t) (OSpan now sp)). split; [reflexivity|exact Hin]. }
    destruct (alookup t (w_dec (fst (run (winit c) (pops (wk t) ops))))) as [k|].
    - destruct (k || dry).
      + intros s. rewrite Hacc, Hfw. apply H.
      + intros s. rewrite Hfw. apply H.
    - intros s. rewrite Hfw. apply H.
  Qed.
End Ref.
