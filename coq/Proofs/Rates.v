(* Proofs about the forwarding model (Model/Rates.v): sample rates (C04). *)
From Coq Require Import ZifyN ZifyBool.
From Refinery Require Import Lib.Base Gen.GenC04 Model.Rates.

(* ---- finite facts read from the source ---- *)
Lemma store_rate_id : forall r, store_rate r = r.
Proof. intros r. unfold store_rate. replace kept_rate_is_uint32 with false by reflexivity. reflexivity. Qed.

Definition floors_ok : bool :=
  floor_dynamic && floor_ema_dynamic && floor_ema_throughput && floor_total_throughput &&
  floor_windowed_throughput && floor_deterministic && rules_keep_needs_positive_rate && floor_stress &&
  merge_floors_client_rate && merge_shape_as_modelled.
Lemma floors_ok_true : floors_ok = true.
Proof. vm_compute. reflexivity. Qed.

Lemma late_reason_texts : late_reason_fmt = ("%s" ++ late_suffix)%string /\ late_reason_plain = late_only.
Proof. vm_compute. split; reflexivity. Qed.

Lemma host_option_reloadable : host_reloaded && host_follows_option = true.
Proof. vm_compute. reflexivity. Qed.

(* ---- arithmetic of mergeTraceAndSpanSampleRates ---- *)
Definition maxone (n : N) : N := if (n <? 1)%N then 1%N else n.

Definition rate_ok (o : out) (sp : span) (R : N) : Prop :=
  o_rate o = mul64 (maxone (s_rate sp)) R /\ o_final o = to_i64 (o_rate o) /\ o_orig o = s_rate sp.

Lemma merge_nodry client R :
  merge client R false = (mul64 (maxone client) R, to_i64 (mul64 (maxone client) R), client, None).
Proof. reflexivity. Qed.

Lemma merge_dry client R :
  merge client R true = (maxone client, 0, client, Some (mul64 (maxone client) R)).
Proof. reflexivity. Qed.

(* no wrap-around inside the property's ranges *)
Lemma rate_exact o sp R :
  (s_rate sp < 2147483648)%N -> (1 <= R < two32)%N -> rate_ok o sp R ->
  o_rate o = (maxone (s_rate sp) * R)%N /\ o_final o = Z.of_N (o_rate o) /\ (1 <= o_rate o)%N /\
  o_orig o = s_rate sp.
Proof.
  intros Hc [HR1 HR2] (Hr & Hf & Ho). unfold two32 in *.
  assert (Hm : (1 <= maxone (s_rate sp) < 2147483648)%N).
  { unfold maxone. destruct (N.ltb_spec (s_rate sp) 1); lia. }
  assert (Hp : (maxone (s_rate sp) * R < two63)%N).
  { unfold two63. nia. }
  assert (Hmul : mul64 (maxone (s_rate sp)) R = (maxone (s_rate sp) * R)%N).
  { unfold mul64. apply N.mod_small. unfold two63, two64 in *. lia. }
  rewrite Hmul in Hr. repeat split.
  - exact Hr.
  - rewrite Hf, Hr. unfold to_i64. destruct (N.ltb_spec (maxone (s_rate sp) * R) two63); [reflexivity|lia].
  - rewrite Hr. nia.
  - exact Ho.
Qed.

Section Oracles.
Variable dec : N -> N * bool * string.
Variable sdec : N -> N * bool * string.
Notation step := (step dec sdec).
Notation run := (run dec sdec).
Notation decide_all := (decide_all dec).
Notation decide_one := (decide_one dec).

Definition d_rate (d : N * bool * string) : N := fst (fst d).
Definition d_keep (d : N * bool * string) : bool := snd (fst d).
Definition d_reason (d : N * bool * string) : string := snd d.

(* R is the rate of a keep decision made for the trace: by the trace sampler or by stress relief *)
Definition from_decision (tid R : N) : Prop :=
  (R = d_rate (dec tid) /\ d_keep (dec tid) = true) \/ (R = d_rate (sdec tid) /\ d_keep (sdec tid) = true).

Definition inv (s : st) : Prop :=
  (forall tid r, alookup tid (kept s) = Some r -> from_decision tid (r_rate r)) /\
  (forall tid tr, In (tid, tr) (buf s) -> Forall (fun sp => s_tid sp = tid) (t_spans tr)).

Lemma inv_init c : inv (init c).
Proof. split; [intros tid r; cbn; discriminate|intros tid tr []]. Qed.

(* ---- check_span ---- *)
Lemma check_span_kept s sp s1 r :
  inv s -> check_span s sp = (s1, FKept r) ->
  from_decision (s_tid sp) (r_rate r) /\ inv s1 /\ cf s1 = cf s /\ host_cur s1 = host_cur s /\ buf s1 = buf s.
Proof.
  intros [Hk Hb] H. unfold check_span in H.
  destruct (mem_N (s_tid sp) (dropped s)); [discriminate|].
  destruct (alookup (s_tid sp) (kept s)) as [r0|] eqn:L; [|discriminate].
  injection H as <- <-. cbn [r_rate rec_count cf host_cur buf kept].
  split; [apply (Hk _ _ L)|]. split; [|repeat split].
  split; [|exact Hb].
  intros tid r. cbn [kept]. destruct (N.eq_dec tid (s_tid sp)) as [->|Hne].
  - rewrite alookup_aset_eq. intros [= <-]. cbn [r_rate rec_count]. apply (Hk _ _ L).
  - rewrite alookup_aset_neq by exact Hne. apply Hk.
Qed.

Lemma check_span_other s sp s1 f :
  check_span s sp = (s1, f) -> (f = FNone \/ f = FDropped) -> s1 = s.
Proof.
  unfold check_span. destruct (mem_N (s_tid sp) (dropped s)); [intros [= <- _]; reflexivity|].
  destruct (alookup (s_tid sp) (kept s)); [intros [= _ <-] [H|H]; discriminate|intros [= <- _]; reflexivity].
Qed.

(* ---- decide ---- *)
Lemma decide_one_frame s tid tr :
  let s1 := fst (decide_one s tid tr) in cf s1 = cf s /\ host_cur s1 = host_cur s /\ buf s1 = buf s.
Proof.
  unfold Rates.decide_one. destruct (dec tid) as [[rate keep] reason].
  destruct keep; destruct (c_dry (cf s)); cbn; repeat split.
Qed.

Lemma decide_one_kept s tid tr :
  (forall t r, alookup t (kept s) = Some r -> from_decision t (r_rate r)) ->
  (forall t r, alookup t (kept (fst (decide_one s tid tr))) = Some r -> from_decision t (r_rate r)).
Proof.
  intros Hk. unfold Rates.decide_one. destruct (dec tid) as [[rate keep] reason] eqn:D.
  assert (Hcase : forall t r,
    alookup t (kept (if keep then
      {| buf := buf s; kept := aset tid {| r_rate := store_rate rate; r_reason := reason; r_desc := n_desc (t_spans tr);
           r_sev := n_sev (t_spans tr); r_link := n_link (t_spans tr); r_span := n_span (t_spans tr) |} (kept s);
         dropped := dropped s; cf := cf s; host_cur := host_cur s |}
      else {| buf := buf s; kept := kept s; dropped := tid :: dropped s; cf := cf s; host_cur := host_cur s |})) = Some r ->
    from_decision t (r_rate r)).
  { intros t r. destruct keep; cbn [kept]; [|apply Hk].
    destruct (N.eq_dec t tid) as [->|Hne].
    - rewrite alookup_aset_eq. intros [= <-]. cbn [r_rate]. rewrite store_rate_id.
      left. unfold d_rate, d_keep. rewrite D. split; reflexivity.
    - rewrite alookup_aset_neq by exact Hne. apply Hk. }
  destruct (negb keep && negb (c_dry (cf s))); cbn [fst]; exact Hcase.
Qed.

Lemma decide_one_outs s tid tr o :
  c_dry (cf s) = false -> In o (snd (decide_one s tid tr)) ->
  d_keep (dec tid) = true /\ exists sp, In sp (t_spans tr) /\ o_sid o = s_id sp /\ rate_ok o sp (d_rate (dec tid)).
Proof.
  intros Hdry. unfold Rates.decide_one, d_keep, d_rate. destruct (dec tid) as [[rate keep] reason]. cbn [fst snd].
  rewrite Hdry. destruct keep; cbn [negb andb snd]; [|intros []].
  intros Hin. split; [reflexivity|]. apply in_map_iff in Hin. destruct Hin as [sp [<- Hsp]].
  exists sp. split; [exact Hsp|]. unfold fwd_ontime. rewrite Hdry, merge_nodry.
  destruct (root_counts _ _ _ _ _ _) as [[[sc ec] sev] lk]. cbn [o_sid o_rate o_final o_orig].
  repeat split.
Qed.

Lemma decide_all_props l : forall s,
  (forall t r, alookup t (kept s) = Some r -> from_decision t (r_rate r)) ->
  let s2 := fst (decide_all s l) in
  (forall t r, alookup t (kept s2) = Some r -> from_decision t (r_rate r)) /\
  cf s2 = cf s /\ host_cur s2 = host_cur s /\ buf s2 = buf s /\
  (c_dry (cf s) = false -> forall o, In o (snd (decide_all s l)) ->
     exists tid tr sp, In (tid, tr) l /\ In sp (t_spans tr) /\ d_keep (dec tid) = true /\
                       o_sid o = s_id sp /\ rate_ok o sp (d_rate (dec tid))).
Proof.
  induction l as [|[tid tr] rest IH]; intros s Hk; cbn [Rates.decide_all].
  - cbn. repeat split; auto. intros _ o [].
  - destruct (decide_one s tid tr) as [s1 o1] eqn:E1.
    pose proof (decide_one_frame s tid tr) as Hf. pose proof (decide_one_kept s tid tr Hk) as Hk1.
    pose proof (decide_one_outs s tid tr) as Ho1.
    rewrite E1 in Hf, Hk1, Ho1. cbn [fst snd] in Hf, Hk1, Ho1. destruct Hf as (Hcf & Hh & Hb).
    specialize (IH s1 Hk1). destruct (decide_all s1 rest) as [s2 o2] eqn:E2. cbn [fst snd] in IH |- *.
    destruct IH as (Hk2 & Hcf2 & Hh2 & Hb2 & Ho2).
    repeat split; try congruence; [exact Hk2|].
    intros Hdry o Hin. apply in_app_or in Hin. destruct Hin as [Hin|Hin].
    + destruct (Ho1 o Hdry Hin) as [Hkeep [sp (Hsp & Hsid & Hr)]].
      exists tid, tr, sp. split; [left; reflexivity|]. split; [exact Hsp|]. split; [exact Hkeep|]. split; [exact Hsid|exact Hr].
    + rewrite Hcf in Ho2. destruct (Ho2 Hdry o Hin) as (t & tr' & sp & Hl & Hsp & Hkeep & Hsid & Hr).
      exists t, tr', sp. split; [right; exact Hl|]. split; [exact Hsp|]. split; [exact Hkeep|]. split; [exact Hsid|exact Hr].
Qed.

(* ---- one step ---- *)
Lemma In_aset_buf {V} k (v : V) m k' v' : In (k', v') (aset k v m) -> (k' = k /\ v' = v) \/ In (k', v') m.
Proof.
  unfold aset. intros [H|H]; [left; injection H as <- <-; split; reflexivity|right].
  induction m as [|[k2 v2] r IH]; cbn [aremove] in H; [destruct H|].
  destruct (N.eqb k k2); [right; apply IH; exact H|].
  destruct H as [H|H]; [left; exact H|right; apply IH; exact H].
Qed.

Lemma step_inv s o : inv s -> inv (fst (step s o)).
Proof.
  intros Hinv. pose proof Hinv as [Hk Hb]. destruct o as [sp|sp| |c]; cbn [Rates.step].
  - destruct (alookup (s_tid sp) (buf s)) as [tr|] eqn:L.
    + cbn [fst]. split; [exact Hk|]. cbn [buf]. intros tid tr' Hin. apply In_aset_buf in Hin.
      destruct Hin as [[-> ->]|Hin]; [|apply Hb; exact Hin].
      cbn [t_spans]. apply Forall_app. split; [apply Hb; apply alookup_In; exact L|].
      constructor; [reflexivity|constructor].
    + destruct (check_span s sp) as [s1 f] eqn:E. destruct f as [| |r].
      * cbn [fst]. split; [exact Hk|]. cbn [buf]. intros tid tr' Hin. apply In_aset_buf in Hin.
        destruct Hin as [[-> ->]|Hin]; [|apply Hb; exact Hin].
        cbn [t_spans]. constructor; [reflexivity|constructor].
      * cbn [fst]. rewrite (check_span_other s sp s1 FDropped E (or_intror eq_refl)). exact Hinv.
      * cbn [fst]. apply (check_span_kept s sp s1 r Hinv E).
  - destruct (check_span s sp) as [s1 f] eqn:E. destruct f as [| |r].
    + destruct (sdec (s_tid sp)) as [[rate keep] reason] eqn:D. destruct keep; cbn [fst].
      * split; [|exact Hb]. intros tid r. cbn [kept]. destruct (N.eq_dec tid (s_tid sp)) as [->|Hne].
        -- rewrite alookup_aset_eq. intros [= <-]. cbn [r_rate]. rewrite store_rate_id.
           right. unfold d_rate, d_keep. rewrite D. split; reflexivity.
        -- rewrite alookup_aset_neq by exact Hne. apply Hk.
      * exact Hinv.
    + cbn [fst]. rewrite (check_span_other s sp s1 FDropped E (or_intror eq_refl)). exact Hinv.
    + cbn [fst]. apply (check_span_kept s sp s1 r Hinv E).
  - pose proof (decide_all_props (buf s) s Hk) as H.
    destruct (decide_all s (buf s)) as [s1 o1]. cbn [fst snd] in H |- *.
    destruct H as (Hk1 & _). split; [exact Hk1|]. intros tid tr [].
  - exact Hinv.
Qed.

Lemma run_inv ops : forall s, inv s -> inv (fst (run s ops)).
Proof.
  induction ops as [|o r IH]; intros s H; cbn [Rates.run]; [exact H|].
  pose proof (step_inv s o H) as H1. destruct (step s o) as [s1 o1]. cbn [fst] in H1.
  specialize (IH s1 H1). destruct (run s1 r) as [s2 o2]. exact IH.
Qed.

(* where the span of an output comes from *)
Definition source (s : st) (o : op) (sp : span) : Prop :=
  match o with
  | Span sp' | Stress sp' => sp = sp'
  | Decide => exists tid tr, In (tid, tr) (buf s) /\ In sp (t_spans tr) /\ s_tid sp = tid
  | Reload _ => False
  end.

(* C04, general form: outside dry run every forwarded span carries client-rate (floored at 1) times the
   rate of a keep decision made for its trace, the product as final_sample_rate, the client rate as
   original_sample_rate *)
Theorem forwarded_rates s o out_ :
  inv s -> c_dry (cf s) = false -> In out_ (snd (step s o)) ->
  exists sp R, source s o sp /\ o_sid out_ = s_id sp /\ from_decision (s_tid sp) R /\ rate_ok out_ sp R.
Proof.
  intros Hinv Hdry Hin. pose proof Hinv as [Hk Hb]. destruct o as [sp|sp| |c]; cbn [Rates.step] in Hin.
  - destruct (alookup (s_tid sp) (buf s)) as [tr|]; [destruct Hin|].
    destruct (check_span s sp) as [s1 f] eqn:E. destruct f as [| |r]; [destruct Hin| |].
    + rewrite (check_span_other s sp s1 FDropped E (or_intror eq_refl)) in Hin.
      cbn [snd fwd_late] in Hin. rewrite Hdry in Hin. destruct Hin.
    + destruct (check_span_kept s sp s1 r Hinv E) as (Hfrom & _ & Hcf & _).
      cbn [snd fwd_late] in Hin. rewrite Hcf, Hdry, merge_nodry in Hin.
      destruct (root_counts _ _ _ _ _ _) as [[[sc ec] sev] lk]. destruct Hin as [<-|[]].
      exists sp, (r_rate r). cbn [o_sid o_rate o_final o_orig]. repeat split. exact Hfrom.
  - destruct (check_span s sp) as [s1 f] eqn:E. destruct f as [| |r].
    + destruct (sdec (s_tid sp)) as [[rate keep] reason] eqn:D. destruct keep; [|destruct Hin].
      destruct Hin as [<-|[]]. exists sp, rate. unfold fwd_stress. rewrite Hdry, merge_nodry.
      cbn [o_sid o_rate o_final o_orig]. repeat split. right. unfold d_rate, d_keep. rewrite D. split; reflexivity.
    + destruct Hin.
    + destruct (check_span_kept s sp s1 r Hinv E) as (Hfrom & _ & Hcf & _).
      destruct Hin as [<-|[]]. exists sp, (r_rate r). unfold fwd_stress. rewrite Hcf, Hdry, merge_nodry.
      cbn [o_sid o_rate o_final o_orig]. repeat split. exact Hfrom.
  - pose proof (decide_all_props (buf s) s Hk) as H.
    destruct (decide_all s (buf s)) as [s1 o1]. cbn [fst snd] in H, Hin.
    destruct H as (_ & _ & _ & _ & Ho). destruct (Ho Hdry out_ Hin) as (tid & tr & sp & Hl & Hsp & Hkeep & Hsid & Hr).
    pose proof (Hb tid tr Hl) as Hall. rewrite Forall_forall in Hall. pose proof (Hall sp Hsp) as Htid.
    exists sp, (d_rate (dec tid)). split; [exists tid, tr; auto|]. split; [exact Hsid|]. split; [|exact Hr].
    rewrite Htid. left. split; [reflexivity|exact Hkeep].
  - destruct Hin.
Qed.

(* on-time spans use the trace sampler's rate *)
Theorem ontime_uses_sampler_rate s out_ :
  inv s -> c_dry (cf s) = false -> In out_ (snd (step s Decide)) ->
  exists tid tr sp, In (tid, tr) (buf s) /\ In sp (t_spans tr) /\ o_sid out_ = s_id sp /\
                    d_keep (dec tid) = true /\ rate_ok out_ sp (d_rate (dec tid)).
Proof.
  intros [Hk Hb] Hdry Hin. cbn [Rates.step] in Hin.
  pose proof (decide_all_props (buf s) s Hk) as H.
  destruct (decide_all s (buf s)) as [s1 o1]. cbn [fst snd] in H, Hin.
  destruct H as (_ & _ & _ & _ & Ho). destruct (Ho Hdry out_ Hin) as (tid & tr & sp & Hl & Hsp & Hkeep & Hsid & Hr).
  exists tid, tr, sp. repeat split; auto; apply Hr.
Qed.

(* late spans use the rate recorded with the decision *)
Theorem late_uses_recorded_rate s sp out_ :
  inv s -> c_dry (cf s) = false -> In out_ (snd (step s (Span sp))) ->
  exists r, alookup (s_tid sp) (kept s) = Some r /\ mem_N (s_tid sp) (dropped s) = false /\
            o_sid out_ = s_id sp /\ rate_ok out_ sp (r_rate r).
Proof.
  intros Hinv Hdry Hin. cbn [Rates.step] in Hin.
  destruct (alookup (s_tid sp) (buf s)) as [tr|]; [destruct Hin|].
  unfold check_span in Hin. destruct (mem_N (s_tid sp) (dropped s)) eqn:Hd.
  - cbn [snd fwd_late] in Hin. rewrite Hdry in Hin. destruct Hin.
  - destruct (alookup (s_tid sp) (kept s)) as [r|] eqn:L; [|destruct Hin].
    cbn [snd fwd_late cf] in Hin. rewrite Hdry, merge_nodry in Hin.
    destruct (root_counts _ _ _ _ _ _) as [[[sc ec] sev] lk]. destruct Hin as [<-|[]].
    exists r. cbn [o_sid o_rate o_final o_orig r_rate rec_count]. repeat split.
Qed.

(* the first stress-relief span of a trace uses the stress-relief rate, later ones the recorded rate *)
Theorem stress_uses_stress_rate s sp out_ :
  inv s -> c_dry (cf s) = false -> In out_ (snd (step s (Stress sp))) ->
  o_sid out_ = s_id sp /\ o_stressed out_ = true /\
  ((alookup (s_tid sp) (kept s) = None /\ d_keep (sdec (s_tid sp)) = true /\ rate_ok out_ sp (d_rate (sdec (s_tid sp)))) \/
   (exists r, alookup (s_tid sp) (kept s) = Some r /\ rate_ok out_ sp (r_rate r))).
Proof.
  intros Hinv Hdry Hin. cbn [Rates.step] in Hin. unfold check_span in Hin.
  destruct (mem_N (s_tid sp) (dropped s)); [destruct Hin|].
  destruct (alookup (s_tid sp) (kept s)) as [r|] eqn:L.
  - destruct Hin as [<-|[]]. unfold fwd_stress. cbn [cf]. rewrite Hdry, merge_nodry.
    cbn [o_sid o_stressed o_rate o_final o_orig]. repeat split. right. exists r. repeat split.
  - destruct (sdec (s_tid sp)) as [[rate keep] reason] eqn:D. destruct keep; [|destruct Hin].
    destruct Hin as [<-|[]]. unfold fwd_stress. rewrite Hdry, merge_nodry.
    cbn [o_sid o_stressed o_rate o_final o_orig]. repeat split. left. unfold d_keep, d_rate. cbn. repeat split.
Qed.

Theorem reachable_inv c ops : inv (fst (run (init c) ops)).
Proof. apply run_inv. apply inv_init. Qed.

End Oracles.
