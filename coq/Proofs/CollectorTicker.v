(* The send ticker: ticks at t0, t0+ST, t0+2ST, ...  The first tick at or after a deadline d comes less
   than one period after d — together with C03_due_trace_decided_at_next_tick this is "decided at the
   next send tick". *)
From Refinery Require Import Lib.Base.

Lemma next_tick_within_period (t0 st d : Z) :
  0 < st -> t0 <= d ->
  exists k, 0 <= k /\ d <= t0 + k * st < d + st /\ forall j, 0 <= j < k -> t0 + j * st < d.
Proof.
  intros Hst Hle. exists ((d - t0 + st - 1) / st).
  pose proof (Z.div_mod (d - t0 + st - 1) st ltac:(lia)) as Hdm.
  pose proof (Z.mod_pos_bound (d - t0 + st - 1) st Hst) as Hmod.
  assert (Hk : 0 <= (d - t0 + st - 1) / st) by (apply Z.div_pos; lia).
  split; [exact Hk|]. split; [nia|].
  intros j [Hj0 Hjk]. nia.
Qed.
