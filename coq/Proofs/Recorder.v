(* With the snapshot taken under the mutex the store follows the sampler's counter for every
   interleaving; with the snapshot taken before the mutex it can run backwards. *)
From Refinery Require Import Lib.Base Model.Recorder.

Definition RI (s0 : Z) (c : rconf) : Prop :=
  pend c = [] /\ store c = last c - s0 /\ last c <= latest c /\ latest c <= src c /\
  Forall (fun d => 0 <= d) (deltas c) /\
  match active c with
  | Some (_, Some v) => v = latest c
  | _ => last c = latest c
  end.

Lemma RI_init s0 : RI s0 (rinit s0).
Proof. unfold RI, rinit. cbn. repeat split; try lia. constructor. Qed.

Lemma RI_step s0 c e : RI s0 c -> RI s0 (rstep false c e).
Proof.
  intros (Hp & Hs & H1 & H2 & Hd & Ha). destruct e as [i|d]; cbn [rstep].
  - destruct (active c) as [[j [v|]]|] eqn:Eact.
    + destruct (N.eqb i j); [|unfold RI; rewrite Eact; repeat split; assumption].
      unfold RI, apply_release. cbn [pend store last latest src deltas active]. subst v.
      repeat split; try assumption; try lia. constructor; [lia|exact Hd].
    + destruct (N.eqb i j); [|unfold RI; rewrite Eact; repeat split; assumption].
      unfold RI. cbn [pend store last latest src deltas active]. repeat split; try assumption; lia.
    + unfold RI. cbn [pend store last latest src deltas active]. repeat split; assumption.
  - unfold RI. cbn [pend store last latest src deltas active]. repeat split; try assumption; lia.
Qed.

Lemma RI_run s0 evs : forall c, RI s0 c -> RI s0 (rrun false c evs).
Proof.
  unfold rrun. induction evs as [|e r IH]; intros c H; cbn [fold_left]; [exact H|].
  apply IH, RI_step, H.
Qed.

(* for every interleaving of any number of goroutines and any growth of the sampler's counter:
   the store is (last applied snapshot - value at registration), every Count() argument is >= 0
   (the counter never decreases), and it never runs ahead of the sampler *)
Theorem recorder_follows_source s0 evs :
  let c := rrun false (rinit s0) evs in
  store c = last c - s0 /\ Forall (fun d => 0 <= d) (deltas c) /\ last c <= latest c /\ latest c <= src c.
Proof.
  cbn zeta. destruct (RI_run s0 evs (rinit s0) (RI_init s0)) as (_ & Hs & H1 & H2 & Hd & _). tauto.
Qed.

(* whenever nobody is inside RecordMetrics the store shows exactly the latest snapshot taken *)
Theorem recorder_store_is_latest_snapshot s0 evs :
  let c := rrun false (rinit s0) evs in
  quiescent c = true -> store c = latest c - s0.
Proof.
  cbn zeta. destruct (RI_run s0 evs (rinit s0) (RI_init s0)) as (_ & Hs & _ & _ & _ & Ha).
  unfold quiescent. destruct (active (rrun false (rinit s0) evs)); [discriminate|]. intros _. lia.
Qed.

(* snapshot before the mutex: A snapshots 5, the sampler grows to 7, B snapshots 7 and applies it,
   then A applies its stale 5: Count(name, -2), the counter goes from 7 to 5 and stays behind *)
Lemma snapshot_before_lock_refuted :
  exists evs,
    let c := rrun true (rinit 0) evs in
    quiescent c = true /\ store c <> latest c - 0 /\ In (-2) (deltas c) /\
    store (rrun true (rinit 0) (firstn 6 evs)) = 7 /\ store c = 5.
Proof.
  exists [RGrow 5; RStep 1; RGrow 2; RStep 2; RStep 2; RStep 2; RStep 1; RStep 1]%N.
  vm_compute. repeat split; try reflexivity; try discriminate. left. reflexivity.
Qed.
