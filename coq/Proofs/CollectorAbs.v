(* Invariants of the abstract collector machine (Model/Collector.v, [astep]).
   Everything the properties C01 / C02 say about "all or none", "exactly once", "never for a
   dropped trace", "single decision" is proved here once, for the tiny machine; the detailed worker
   model refines it (Proofs/CollectorRef.v). *)
From Refinery Require Import Lib.Base Model.Collector.

Section Abs.
  Variable dry : bool.
  Notation fwb k := (k || dry).
  Notation astep := (astep dry).
  Notation arun := (arun dry).

  Definition nf (x : ast) (t : N) : Prop := ~ In t (a_fgt x).
  Definition occ (t : N) (h : list (N * bool)) : list (N * bool) :=
    filter (fun p => N.eqb (fst p) t) h.

  Record AInv (x : ast) : Prop := {
    inv_buf_undec : forall t, alookup t (a_buf x) <> None -> alookup t (a_dec x) = None;
    inv_out_acc : forall t s, In (t, s) (a_out x) -> In (t, s) (a_acc x);
    inv_out_dec : forall t s, nf x t -> In (t, s) (a_out x) ->
                  exists k, alookup t (a_dec x) = Some k /\ fwb k = true;
    inv_dec_out : forall t s k, nf x t -> alookup t (a_dec x) = Some k -> fwb k = true ->
                  In (t, s) (a_acc x) -> In (t, s) (a_out x);
    inv_undec_buf : forall t s, nf x t -> alookup t (a_dec x) = None -> In (t, s) (a_acc x) ->
                    exists ss, alookup t (a_buf x) = Some ss /\ In s ss;
    inv_buf_acc : forall t ss s, alookup t (a_buf x) = Some ss -> In s ss -> In (t, s) (a_acc x);
    inv_hist : forall t, nf x t ->
               occ t (a_hist x) = match alookup t (a_dec x) with Some k => [(t, k)] | None => [] end
  }.

  Lemma ainit_inv : AInv ainit.
  Proof.
    constructor; cbn; intros; try contradiction; try congruence; try reflexivity.
  Qed.

  Lemma in_if_nil {A} (c : bool) (l : list A) (a : A) : In a (if c then l else []) -> c = true /\ In a l.
  Proof. destruct c; cbn; intros H; [split; [reflexivity|exact H]|contradiction]. Qed.

  Lemma pair_in_map (t t' s : N) (ss : list N) : In (t', s) (map (pair t) ss) <-> t' = t /\ In s ss.
  Proof.
    rewrite in_map_iff. split.
    - intros [y [Hy Hin]]. injection Hy as -> ->. split; [reflexivity|exact Hin].
    - intros [-> Hin]. exists s. split; [reflexivity|exact Hin].
  Qed.

  (* lookups after aset / aremove, by cases on key equality *)
  Lemma lk_aset {V} (t t0 : N) (v : V) (m : amap V) :
    alookup t (aset t0 v m) = if N.eqb t t0 then Some v else alookup t m.
  Proof.
    destruct (N.eqb t t0) eqn:E.
    - apply N.eqb_eq in E. subst. apply alookup_aset_eq.
    - apply N.eqb_neq in E. apply alookup_aset_neq. exact E.
  Qed.
  Lemma lk_aremove {V} (t t0 : N) (m : amap V) :
    alookup t (aremove t0 m) = if N.eqb t t0 then None else alookup t m.
  Proof.
    destruct (N.eqb t t0) eqn:E.
    - apply N.eqb_eq in E. subst. apply alookup_aremove_eq.
    - apply N.eqb_neq in E. apply alookup_aremove_neq. exact E.
  Qed.

  Ltac eqcases t t0 E := destruct (N.eqb t t0) eqn:E;
    [apply N.eqb_eq in E; subst | pose proof E as E'; apply N.eqb_neq in E'].

  Lemma astep_inv x o : AInv x -> AInv (astep x o).
  Proof.
    intros I. destruct I as [I1 I2 I3 I4 I5 I6 I7].
    destruct o as [t0 s0 | t0 keep | t0]; cbn [Collector.astep].
    - (* ASpan *)
      destruct (alookup t0 (a_buf x)) as [ss0|] eqn:B0.
      + (* buffered: add *)
        assert (D0 : alookup t0 (a_dec x) = None) by (apply I1; congruence).
        constructor; cbn [a_buf a_dec a_out a_acc a_fgt a_hist]; unfold nf; cbn [a_fgt].
        * intros t H. rewrite lk_aset in H. eqcases t t0 E; [exact D0|apply I1; exact H].
        * intros t s H. right. apply I2; exact H.
        * exact I3.
        * intros t s k Hn Hd Hf [Heq|Hin].
          -- injection Heq as <- <-. congruence.
          -- apply (I4 t s k); assumption.
        * intros t s Hn Hd [Heq|Hin].
          -- injection Heq as <- <-. exists (s0 :: ss0). rewrite lk_aset, N.eqb_refl. split; [reflexivity|left; reflexivity].
          -- destruct (I5 t s Hn Hd Hin) as [ss [Hb Hs]]. rewrite lk_aset. eqcases t t0 E.
             ++ exists (s0 :: ss0). split; [reflexivity|]. right. congruence.
             ++ exists ss. split; assumption.
        * intros t ss s Hb Hs. rewrite lk_aset in Hb. eqcases t t0 E.
          -- injection Hb as <-. destruct Hs as [->|Hs]; [left; reflexivity|right; apply (I6 t0 ss0); assumption].
          -- right. apply (I6 t ss); assumption.
        * exact I7.
      + destruct (alookup t0 (a_dec x)) as [k0|] eqn:D0.
        * (* late span *)
          constructor; cbn [a_buf a_dec a_out a_acc a_fgt a_hist]; unfold nf; cbn [a_fgt].
          -- exact I1.
          -- intros t s H. apply in_app_or in H. destruct H as [H|H].
             ++ apply in_if_nil in H. destruct H as [_ [H|[]]]. left. exact H.
             ++ right. apply I2; exact H.
          -- intros t s Hn H. apply in_app_or in H. destruct H as [H|H].
             ++ apply in_if_nil in H. destruct H as [Hf [H|[]]]. injection H as <- <-. exists k0. split; assumption.
             ++ apply (I3 t s); assumption.
          -- intros t s k Hn Hd Hf [Heq|Hin]; apply in_or_app.
             ++ injection Heq as <- <-. left. assert (k = k0) by congruence. subst k. rewrite Hf. left; reflexivity.
             ++ right. apply (I4 t s k); assumption.
          -- intros t s Hn Hd [Heq|Hin].
             ++ injection Heq as <- <-. congruence.
             ++ apply I5; assumption.
          -- intros t ss s Hb Hs. right. apply (I6 t ss); assumption.
          -- exact I7.
        * (* new trace *)
          constructor; cbn [a_buf a_dec a_out a_acc a_fgt a_hist]; unfold nf; cbn [a_fgt].
          -- intros t H. rewrite lk_aset in H. eqcases t t0 E; [exact D0|apply I1; exact H].
          -- intros t s H. right. apply I2; exact H.
          -- exact I3.
          -- intros t s k Hn Hd Hf [Heq|Hin].
             ++ injection Heq as <- <-. congruence.
             ++ apply (I4 t s k); assumption.
          -- intros t s Hn Hd [Heq|Hin].
             ++ injection Heq as <- <-. exists [s0]. rewrite lk_aset, N.eqb_refl. split; [reflexivity|left; reflexivity].
             ++ destruct (I5 t s Hn Hd Hin) as [ss [Hb Hs]]. rewrite lk_aset. eqcases t t0 E; [congruence|].
                exists ss. split; assumption.
          -- intros t ss s Hb Hs. rewrite lk_aset in Hb. eqcases t t0 E.
             ++ injection Hb as <-. destruct Hs as [->|[]]. left; reflexivity.
             ++ right. apply (I6 t ss); assumption.
          -- exact I7.
    - (* ADecide *)
      destruct (alookup t0 (a_buf x)) as [ss0|] eqn:B0; [|constructor; assumption].
      assert (D0 : alookup t0 (a_dec x) = None) by (apply I1; congruence).
      constructor; cbn [a_buf a_dec a_out a_acc a_fgt a_hist]; unfold nf; cbn [a_fgt].
      + intros t H. rewrite lk_aremove in H. rewrite lk_aset. eqcases t t0 E; [congruence|apply I1; exact H].
      + intros t s H. apply in_app_or in H. destruct H as [H|H].
        * apply in_if_nil in H. destruct H as [_ H]. apply pair_in_map in H. destruct H as [-> H].
          apply (I6 t0 ss0); assumption.
        * apply I2; exact H.
      + intros t s Hn H. rewrite lk_aset. apply in_app_or in H. destruct H as [H|H].
        * apply in_if_nil in H. destruct H as [Hf H]. apply pair_in_map in H. destruct H as [-> H].
          rewrite N.eqb_refl. exists keep. split; [reflexivity|exact Hf].
        * eqcases t t0 E.
          -- destruct (I3 t0 s Hn H) as [k [Hk _]]. congruence.
          -- apply (I3 t s); assumption.
      + intros t s k Hn Hd Hf Hin. rewrite lk_aset in Hd. apply in_or_app. eqcases t t0 E.
        * injection Hd as <-. left. rewrite Hf. apply pair_in_map. split; [reflexivity|].
          destruct (I5 t0 s Hn D0 Hin) as [ss [Hb Hs]]. congruence.
        * right. apply (I4 t s k); assumption.
      + intros t s Hn Hd Hin. rewrite lk_aset in Hd. rewrite lk_aremove. eqcases t t0 E; [discriminate|].
        apply I5; assumption.
      + intros t ss s Hb Hs. rewrite lk_aremove in Hb. eqcases t t0 E; [discriminate|]. apply (I6 t ss); assumption.
      + intros t Hn. rewrite lk_aset. unfold occ. cbn [filter fst]. rewrite (N.eqb_sym t0 t). eqcases t t0 E.
        * specialize (I7 t0 Hn). rewrite D0 in I7. unfold occ in I7. rewrite I7. reflexivity.
        * apply I7; exact Hn.
    - (* AForget *)
      constructor; cbn [a_buf a_dec a_out a_acc a_fgt a_hist]; unfold nf; cbn [a_fgt In].
      + intros t H. rewrite lk_aremove. eqcases t t0 E; [reflexivity|apply I1; exact H].
      + exact I2.
      + intros t s Hn H. rewrite lk_aremove. eqcases t t0 E; [exfalso; apply Hn; left; reflexivity|].
        apply (I3 t s); [intros F; apply Hn; right; exact F|exact H].
      + intros t s k Hn Hd. rewrite lk_aremove in Hd. eqcases t t0 E; [discriminate|].
        apply (I4 t s k); [intros F; apply Hn; right; exact F|exact Hd].
      + intros t s Hn Hd. rewrite lk_aremove in Hd. eqcases t t0 E; [exfalso; apply Hn; left; reflexivity|].
        apply I5; [intros F; apply Hn; right; exact F|exact Hd].
      + exact I6.
      + intros t Hn. rewrite lk_aremove. eqcases t t0 E; [exfalso; apply Hn; left; reflexivity|].
        apply I7. intros F; apply Hn; right; exact F.
  Qed.

  Lemma arun_inv ops : forall x, AInv x -> AInv (arun x ops).
  Proof.
    induction ops as [|o r IH]; intros x I; cbn; [exact I|]. apply IH. apply astep_inv. exact I.
  Qed.

  (* ---------- exactly once: NoDup of the output, given unique accepted (trace, span) pairs ---------- *)
  Definition JInv (x : ast) : Prop :=
    NoDup (a_acc x) ->
    NoDup (a_out x) /\
    forall t ss, alookup t (a_buf x) = Some ss -> NoDup ss /\ forall s, In s ss -> ~ In (t, s) (a_out x).

  Lemma NoDup_map_pair (t : N) (ss : list N) : NoDup ss -> NoDup (map (pair t) ss).
  Proof.
    induction ss as [|s r IH]; cbn; intros H; [constructor|].
    inversion H as [|? ? Hn Hr]; subst. constructor; [|apply IH; exact Hr].
    intros Hin. apply pair_in_map in Hin. tauto.
  Qed.

  Lemma NoDup_app_disj {A} (l1 l2 : list A) :
    NoDup l1 -> NoDup l2 -> (forall a, In a l1 -> ~ In a l2) -> NoDup (l1 ++ l2).
  Proof.
    induction l1 as [|a r IH]; cbn; intros H1 H2 Hd; [exact H2|].
    inversion H1 as [|? ? Hn Hr]; subst. constructor.
    - intros Hin. apply in_app_or in Hin. destruct Hin as [Hin|Hin]; [contradiction|].
      apply (Hd a); [left; reflexivity|exact Hin].
    - apply IH; [exact Hr|exact H2|]. intros b Hb. apply Hd. right; exact Hb.
  Qed.

  Lemma acc_step_cases x o :
    a_acc (astep x o) = a_acc x \/ exists p, a_acc (astep x o) = p :: a_acc x.
  Proof.
    destruct o as [t0 s0|t0 keep|t0]; cbn [Collector.astep].
    - destruct (alookup t0 (a_buf x)); [right; eexists; reflexivity|].
      destruct (alookup t0 (a_dec x)); right; eexists; reflexivity.
    - destruct (alookup t0 (a_buf x)); left; reflexivity.
    - left; reflexivity.
  Qed.

  Lemma astep_J x o : AInv x -> JInv x -> JInv (astep x o).
  Proof.
    intros I J Hnd.
    assert (Hnd0 : NoDup (a_acc x)).
    { destruct (acc_step_cases x o) as [E|[p E]]; rewrite E in Hnd; [exact Hnd|].
      inversion Hnd; assumption. }
    destruct (J Hnd0) as [Jo Jb]. destruct I as [I1 I2 I3 I4 I5 I6 I7].
    destruct o as [t0 s0|t0 keep|t0]; cbn [Collector.astep] in *.
    - destruct (alookup t0 (a_buf x)) as [ss0|] eqn:B0.
      + cbn [a_acc a_out a_buf] in *. inversion Hnd as [|? ? Hfresh _]; subst.
        split; [exact Jo|]. intros t ss Hb. rewrite lk_aset in Hb. eqcases t t0 E.
        * injection Hb as <-. destruct (Jb t0 ss0 B0) as [Hn Hout]. split.
          -- constructor; [|exact Hn]. intros Hin. apply Hfresh. apply (I6 t0 ss0); assumption.
          -- intros s [->|Hs]; [intros F; apply Hfresh; apply I2; exact F|apply Hout; exact Hs].
        * apply Jb; exact Hb.
      + destruct (alookup t0 (a_dec x)) as [k0|] eqn:D0; cbn [a_acc a_out a_buf] in *;
          inversion Hnd as [|? ? Hfresh _]; subst.
        * split.
          -- destruct (k0 || dry); cbn [app]; [|exact Jo]. constructor; [|exact Jo].
             intros F. apply Hfresh. apply I2; exact F.
          -- intros t ss Hb. destruct (Jb t ss Hb) as [Hn Hout]. split; [exact Hn|].
             intros s Hs F. apply in_app_or in F. destruct F as [F|F]; [|exact (Hout s Hs F)].
             apply in_if_nil in F. destruct F as [_ [F|[]]]. injection F as <- <-. congruence.
        * split; [exact Jo|]. intros t ss Hb. rewrite lk_aset in Hb. eqcases t t0 E.
          -- injection Hb as <-. split; [constructor; [intros []|constructor]|].
             intros s [<-|[]] F. apply Hfresh. apply I2; exact F.
          -- apply Jb; exact Hb.
    - destruct (alookup t0 (a_buf x)) as [ss0|] eqn:B0; [|split; assumption].
      cbn [a_acc a_out a_buf] in *. destruct (Jb t0 ss0 B0) as [Hn0 Hout0]. split.
      + destruct (keep || dry); cbn [app]; [|exact Jo].
        apply NoDup_app_disj; [apply NoDup_map_pair; exact Hn0|exact Jo|].
        intros [t s] Hin. apply pair_in_map in Hin. destruct Hin as [-> Hs]. apply Hout0; exact Hs.
      + intros t ss Hb. rewrite lk_aremove in Hb. eqcases t t0 E; [discriminate|].
        destruct (Jb t ss Hb) as [Hn Hout]. split; [exact Hn|].
        intros s Hs F. apply in_app_or in F. destruct F as [F|F]; [|exact (Hout s Hs F)].
        apply in_if_nil in F. destruct F as [_ F]. apply pair_in_map in F. destruct F as [F _]. contradiction.
    - cbn [a_acc a_out a_buf] in *. split; assumption.
  Qed.

  Lemma ainit_J : JInv ainit.
  Proof. intros _. split; [constructor|]. cbn. intros; discriminate. Qed.

  Lemma arun_IJ ops : forall x, AInv x -> JInv x -> AInv (arun x ops) /\ JInv (arun x ops).
  Proof.
    induction ops as [|o r IH]; intros x I J; cbn; [split; assumption|].
    apply IH; [apply astep_inv; exact I|apply astep_J; assumption].
  Qed.

  (* ---------- ghost histories are what the op list says ---------- *)
  Lemma arun_app x l1 l2 : arun x (l1 ++ l2) = arun (arun x l1) l2.
  Proof. unfold arun, Collector.arun. apply fold_left_app. Qed.

  Lemma acc_arun ops : forall x t s,
    In (t, s) (a_acc (arun x ops)) <-> In (t, s) (a_acc x) \/ In (ASpan t s) ops.
  Proof.
    induction ops as [|o r IH]; intros x t s; cbn [Collector.arun fold_left In]; [tauto|].
    change (fold_left astep r (astep x o)) with (arun (astep x o) r). rewrite IH.
    destruct o as [t0 s0|t0 keep|t0]; cbn [Collector.astep].
    - assert (E : In (t, s) (a_acc (astep x (ASpan t0 s0))) <-> (t0, s0) = (t, s) \/ In (t, s) (a_acc x)).
      { cbn [Collector.astep]. destruct (alookup t0 (a_buf x)); [cbn; tauto|].
        destruct (alookup t0 (a_dec x)); cbn; tauto. }
      cbn [Collector.astep] in E. rewrite E. split.
      + intros [[H|H]|H]; [right; left; congruence|left; exact H|right; right; exact H].
      + intros [H|[H|H]]; [left; right; exact H|left; left; congruence|right; exact H].
    - destruct (alookup t0 (a_buf x)); cbn [a_acc]; split;
        (intros [H|H]; [left; exact H|]); try (right; right; exact H);
        (destruct H as [H|H]; [discriminate|right; exact H]).
    - cbn [a_acc]. split; (intros [H|H]; [left; exact H|]); try (right; right; exact H).
      destruct H as [H|H]; [discriminate|right; exact H].
  Qed.

  Lemma fgt_arun ops : forall x t,
    In t (a_fgt (arun x ops)) <-> In t (a_fgt x) \/ In (AForget t) ops.
  Proof.
    induction ops as [|o r IH]; intros x t; cbn [Collector.arun fold_left In]; [tauto|].
    change (fold_left astep r (astep x o)) with (arun (astep x o) r). rewrite IH.
    destruct o as [t0 s0|t0 keep|t0]; cbn [Collector.astep].
    - assert (E : a_fgt (astep x (ASpan t0 s0)) = a_fgt x).
      { cbn [Collector.astep]. destruct (alookup t0 (a_buf x)); [reflexivity|].
        destruct (alookup t0 (a_dec x)); reflexivity. }
      cbn [Collector.astep] in E. rewrite E. split.
      + intros [H|H]; [left; exact H|right; right; exact H].
      + intros [H|[H|H]]; [left; exact H|discriminate|right; exact H].
    - assert (E : a_fgt (astep x (ADecide t0 keep)) = a_fgt x).
      { cbn [Collector.astep]. destruct (alookup t0 (a_buf x)); reflexivity. }
      cbn [Collector.astep] in E. rewrite E. split.
      + intros [H|H]; [left; exact H|right; right; exact H].
      + intros [H|[H|H]]; [left; exact H|discriminate|right; exact H].
    - cbn [a_fgt In]. split.
      + intros [[H|H]|H]; [right; left; congruence|left; exact H|right; right; exact H].
      + intros [H|[H|H]]; [left; right; exact H|left; left; congruence|right; exact H].
  Qed.

  (* ---------- a remembered decision never changes ---------- *)
  Lemma astep_dec_stable x o t k :
    AInv x -> alookup t (a_dec x) = Some k -> o <> AForget t -> alookup t (a_dec (astep x o)) = Some k.
  Proof.
    intros I Hd Hne. destruct o as [t0 s0|t0 keep|t0]; cbn [Collector.astep].
    - destruct (alookup t0 (a_buf x)); [exact Hd|]. destruct (alookup t0 (a_dec x)); exact Hd.
    - destruct (alookup t0 (a_buf x)) as [ss0|] eqn:B0; [|exact Hd]. cbn [a_dec]. rewrite lk_aset.
      eqcases t t0 E; [|exact Hd]. pose proof (inv_buf_undec x I t0) as H. rewrite H in Hd; congruence.
    - cbn [a_dec]. rewrite lk_aremove. eqcases t t0 E; [congruence|exact Hd].
  Qed.

  Lemma arun_dec_stable ops : forall x t k,
    AInv x -> alookup t (a_dec x) = Some k -> ~ In (AForget t) ops -> alookup t (a_dec (arun x ops)) = Some k.
  Proof.
    induction ops as [|o r IH]; intros x t k I Hd Hn; cbn; [exact Hd|].
    apply IH; [apply astep_inv; exact I| |intros F; apply Hn; right; exact F].
    apply astep_dec_stable; [exact I|exact Hd|]. intros ->. apply Hn. left; reflexivity.
  Qed.

  (* ---------- the statements, for runs from the empty machine ---------- *)
  Theorem abs_all_or_none ops t :
    let x := arun ainit ops in
    ~ In (AForget t) ops ->
    match alookup t (a_dec x) with
    | Some k => if fwb k then (forall s, In (ASpan t s) ops <-> In (t, s) (a_out x))
                else (forall s, ~ In (t, s) (a_out x))
    | None => forall s, ~ In (t, s) (a_out x)
    end.
  Proof.
    intros x Hnf. pose proof (arun_inv ops ainit ainit_inv) as I. fold x in I.
    assert (Hn : nf x t).
    { unfold nf, x. rewrite fgt_arun. cbn. tauto. }
    destruct (alookup t (a_dec x)) as [k|] eqn:Hd.
    - destruct (k || dry) eqn:Hf.
      + intros s. split.
        * intros Hin. apply (inv_dec_out x I t s k Hn Hd Hf). unfold x. rewrite acc_arun. right; exact Hin.
        * intros Hin. apply (inv_out_acc x I) in Hin. unfold x in Hin. rewrite acc_arun in Hin.
          destruct Hin as [[]|Hin]. exact Hin.
      + intros s Hin. destruct (inv_out_dec x I t s Hn Hin) as [k' [Hk' Hf']]. congruence.
    - intros s Hin. destruct (inv_out_dec x I t s Hn Hin) as [k' [Hk' _]]. congruence.
  Qed.

  Theorem abs_single_decision ops t :
    let x := arun ainit ops in
    ~ In (AForget t) ops ->
    occ t (a_hist x) = match alookup t (a_dec x) with Some k => [(t, k)] | None => [] end.
  Proof.
    intros x Hnf. apply (inv_hist x (arun_inv ops ainit ainit_inv)).
    unfold nf, x. rewrite fgt_arun. cbn. tauto.
  Qed.

  Theorem abs_decision_final ops1 ops2 t k :
    alookup t (a_dec (arun ainit ops1)) = Some k -> ~ In (AForget t) ops2 ->
    alookup t (a_dec (arun ainit (ops1 ++ ops2))) = Some k.
  Proof.
    intros Hd Hn. rewrite arun_app. apply arun_dec_stable; [apply arun_inv; exact ainit_inv|exact Hd|exact Hn].
  Qed.

  Definition accepted (ops : list aop) : list (N * N) :=
    flat_map (fun o => match o with ASpan t s => [(t, s)] | _ => [] end) ops.

  Lemma acc_is_accepted ops : forall x, a_acc (arun x ops) = rev (accepted ops) ++ a_acc x.
  Proof.
    induction ops as [|o r IH]; intros x; cbn [Collector.arun fold_left accepted flat_map rev app]; [reflexivity|].
    change (fold_left astep r (astep x o)) with (arun (astep x o) r). rewrite IH.
    change (flat_map (fun o0 => match o0 with ASpan t s => [(t, s)] | _ => [] end) r) with (accepted r).
    rewrite rev_app_distr, <- app_assoc. f_equal.
    destruct o as [t0 s0|t0 keep|t0]; cbn [Collector.astep rev app].
    - destruct (alookup t0 (a_buf x)); [reflexivity|]. destruct (alookup t0 (a_dec x)); reflexivity.
    - destruct (alookup t0 (a_buf x)); reflexivity.
    - reflexivity.
  Qed.

  Theorem abs_exactly_once ops :
    let x := arun ainit ops in
    NoDup (accepted ops) ->
    NoDup (a_out x) /\ (forall t s, In (t, s) (a_out x) -> In (ASpan t s) ops) /\
    (forall t ss s, alookup t (a_buf x) = Some ss -> In s ss -> ~ In (t, s) (a_out x)).
  Proof.
    intros x Hnd. destruct (arun_IJ ops ainit ainit_inv ainit_J) as [I J]. fold x in I, J.
    assert (Hacc : NoDup (a_acc x)).
    { unfold x. rewrite acc_is_accepted. cbn [a_acc ainit]. rewrite app_nil_r. apply NoDup_rev. exact Hnd. }
    destruct (J Hacc) as [Jo Jb]. split; [exact Jo|]. split.
    - intros t s Hin. apply (inv_out_acc x I) in Hin. unfold x in Hin. rewrite acc_arun in Hin.
      destruct Hin as [[]|Hin]. exact Hin.
    - intros t ss s Hb Hs. destruct (Jb t ss Hb) as [_ H]. apply H; exact Hs.
  Qed.

  (* an accepted span of a never-forgotten trace is, at every moment, in exactly one place:
     still buffered (undecided), or forwarded (decided keep / dry run), or dropped with its trace *)
  Theorem abs_no_span_lost ops t s :
    let x := arun ainit ops in
    ~ In (AForget t) ops -> In (ASpan t s) ops ->
    match alookup t (a_dec x) with
    | None => exists ss, alookup t (a_buf x) = Some ss /\ In s ss
    | Some k => alookup t (a_buf x) = None /\ (In (t, s) (a_out x) <-> fwb k = true)
    end.
  Proof.
    intros x Hnf Hin. pose proof (arun_inv ops ainit ainit_inv) as I. fold x in I.
    assert (Hn : nf x t) by (unfold nf, x; rewrite fgt_arun; cbn; tauto).
    assert (Ha : In (t, s) (a_acc x)) by (unfold x; rewrite acc_arun; right; exact Hin).
    destruct (alookup t (a_dec x)) as [k|] eqn:Hd.
    - split.
      + destruct (alookup t (a_buf x)) eqn:Hb; [|reflexivity].
        pose proof (inv_buf_undec x I t) as H. rewrite Hb in H. rewrite H in Hd; congruence.
      + split.
        * intros Ho. destruct (inv_out_dec x I t s Hn Ho) as [k' [Hk' Hf']]. congruence.
        * intros Hf. apply (inv_dec_out x I t s k); assumption.
    - apply (inv_undec_buf x I); assumption.
  Qed.
End Abs.
