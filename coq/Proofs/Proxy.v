(* Proofs about Model/Proxy.v (C37). *)
From Refinery Require Import Lib.Base Gen.GenC37 Model.Proxy.

Lemma source_ok_true : source_ok = true.
Proof. vm_compute. reflexivity. Qed.

Lemma hlookup_hset_same n v h : hlookup n (hset n v h) = Some v.
Proof.
  induction h as [|[k w] r IH]; cbn.
  - rewrite String.eqb_refl. reflexivity.
  - destruct (String.eqb n k) eqn:E; cbn; rewrite E; [reflexivity | exact IH].
Qed.

Lemma hlookup_hset_other n m v h : m <> n -> hlookup m (hset n v h) = hlookup m h.
Proof.
  intros Hne. induction h as [|[k w] r IH]; cbn.
  - destruct (String.eqb m n) eqn:E; [apply String.eqb_eq in E; contradiction | reflexivity].
  - destruct (String.eqb n k) eqn:E; cbn.
    + apply String.eqb_eq in E. subst k.
      destruct (String.eqb m n) eqn:E2; [apply String.eqb_eq in E2; contradiction | reflexivity].
    + destruct (String.eqb m k); [reflexivity | exact IH].
Qed.

Lemma hlookup_join_all n h : hlookup n (join_all h) = option_map (fun vs => [joinc vs]) (hlookup n h).
Proof.
  induction h as [|[k w] r IH]; cbn; [reflexivity|].
  destruct (String.eqb n k); [reflexivity | exact IH].
Qed.

Lemma names_hset_in n v h : In n (names h) -> names (hset n v h) = names h.
Proof.
  induction h as [|[k w] r IH]; cbn; [contradiction|].
  destruct (String.eqb n k) eqn:E; cbn; [reflexivity|].
  intros [H|H]; [subst; rewrite String.eqb_refl in E; discriminate | f_equal; apply IH, H].
Qed.

Lemma names_hset_notin n v h : ~ In n (names h) -> names (hset n v h) = names h ++ [n].
Proof.
  induction h as [|[k w] r IH]; cbn; [reflexivity|].
  intros H. destruct (String.eqb n k) eqn:E.
  - apply String.eqb_eq in E. subst. exfalso. apply H. left; reflexivity.
  - cbn. f_equal. apply IH. intros Hin. apply H. right; exact Hin.
Qed.

(* ---- request side ------------------------------------------------------------------------------------------ *)
Theorem relay_same_method_target_body p r :
  q_method (relay_req p r) = q_method r /\ q_target (relay_req p r) = q_target r /\ q_body (relay_req p r) = q_body r.
Proof. repeat split; reflexivity. Qed.

(* every header other than X-Forwarded-For arrives with its value list joined by ",", and nothing else arrives *)
Theorem relay_req_headers p r n : n <> xff ->
  hlookup n (q_hdrs (relay_req p r)) = option_map (fun vs => [joinc vs]) (hlookup n (q_hdrs r)).
Proof.
  intros Hne. cbn [relay_req q_hdrs]. rewrite (hlookup_hset_other xff n _ _ Hne). apply hlookup_join_all.
Qed.

Theorem relay_req_xff p r : hlookup xff (q_hdrs (relay_req p r)) = Some [forwarded_for p r].
Proof. cbn [relay_req q_hdrs]. apply hlookup_hset_same. Qed.

Lemma concat_single sep s : String.concat sep [s] = s.
Proof. reflexivity. Qed.

(* with all client values kept: the client's X-Forwarded-For chain, extended by the peer address *)
Theorem forwarded_for_all p r : pp_xff_all p = true ->
  forwarded_for p r =
  match hlookup xff (q_hdrs r) with
  | Some vs => if String.eqb (joincs vs) "" then q_remote r else (joincs vs ++ ", " ++ q_remote r)%string
  | None => q_remote r
  end.
Proof.
  intros H. unfold forwarded_for. rewrite H. destruct (hlookup xff (q_hdrs r)); reflexivity.
Qed.

(* ---- response side ----------------------------------------------------------------------------------------- *)
Theorem relay_same_status_body p u : s_status (relay_resp p u) = s_status u /\ s_body (relay_resp p u) = s_body u.
Proof. split; reflexivity. Qed.

Lemma set_all_lookup_notin src : forall dst n, ~ In n (names src) -> hlookup n (set_all src dst) = hlookup n dst.
Proof.
  induction src as [|[k v] r IH]; intros dst n Hn; cbn; [reflexivity|].
  unfold set_all in *. cbn. rewrite IH.
  - apply hlookup_hset_other. intros E. apply Hn. left. cbn. symmetry. exact E.
  - intros Hin. apply Hn. right. exact Hin.
Qed.

Lemma set_all_lookup_in src : forall dst n v, NoDup (names src) -> hlookup n src = Some v ->
  hlookup n (set_all src dst) = Some v.
Proof.
  induction src as [|[k w] r IH]; intros dst n v Hnd Hl; cbn in Hl; [discriminate|].
  inversion Hnd as [|? ? Hnotin Hnd']; subst. unfold set_all in *. cbn.
  destruct (String.eqb n k) eqn:E.
  - apply String.eqb_eq in E. subst k. inversion Hl; subst.
    pose proof (set_all_lookup_notin r (hset n v dst) n Hnotin) as H. unfold set_all in H. rewrite H.
    apply hlookup_hset_same.
  - apply IH; assumption.
Qed.

Lemma names_join_all h : names (join_all h) = names h.
Proof. unfold names, join_all. rewrite map_map. reflexivity. Qed.

(* every header the upstream sent reaches the client with its value list joined by "," ... *)
Theorem relay_resp_headers_kept p u n vs : NoDup (names (s_hdrs u)) ->
  hlookup n (s_hdrs u) = Some vs -> hlookup n (s_hdrs (relay_resp p u)) = Some [joinc vs].
Proof.
  intros Hnd Hl. cbn [relay_resp s_hdrs]. apply set_all_lookup_in.
  - rewrite names_join_all. exact Hnd.
  - rewrite hlookup_join_all, Hl. reflexivity.
Qed.

(* ... and a name the upstream did not send shows up exactly when the middleware presets it (PARTIAL:
   "returned unchanged" fails for those names) *)
Theorem relay_resp_headers_others p u n :
  hlookup n (s_hdrs u) = None -> hlookup n (s_hdrs (relay_resp p u)) = hlookup n (pp_defaults p).
Proof.
  intros Hl. cbn [relay_resp s_hdrs]. apply set_all_lookup_notin.
  rewrite names_join_all. intros Hin. clear p.
  induction (s_hdrs u) as [|[k w] r IH]; cbn in *; [contradiction|].
  destruct (String.eqb n k) eqn:E; [discriminate|].
  destruct Hin as [H|H]; [subst; rewrite String.eqb_refl in E; discriminate | apply IH; assumption].
Qed.

(* the working tree presets two headers, so an upstream answer without them is not returned unchanged *)
Lemma resp_headers_unchanged_refuted :
  exists u n, hlookup n (s_hdrs u) = None /\ hlookup n (s_hdrs (relay_resp gen_pparams u)) <> None.
Proof.
  exists {| s_status := 200; s_hdrs := [("X-Upstream"%string, ["1"%string])]; s_body := ""%string |}.
  exists "Access-Control-Allow-Origin"%string. split; [reflexivity|]. vm_compute. discriminate.
Qed.

(* the pinned tree kept only the first X-Forwarded-For value of the client *)
Lemma pinned_xff_refuted :
  let r := {| q_method := "GET"; q_target := "/1/markers/ds"; q_body := "";
              q_hdrs := [(xff, ["10.0.0.1"; "10.0.0.2"])]; q_remote := "192.0.2.1:1234" |}%string in
  forwarded_for pinned_pparams r = "10.0.0.1, 192.0.2.1:1234"%string.
Proof. vm_compute. reflexivity. Qed.
