(* Proofs about the converter model. *)
From Refinery Require Import Lib.Base Gen.GenC38 Model.Convert.
Local Open Scope string_scope.

(* ------------------------------------------------------------------ config *)
Lemma slookup_app_none {V} k (a b : list (string * V)) : slookup k a = None -> slookup k (a ++ b) = slookup k b.
Proof.
  induction a as [|[k' v] r IH]; cbn; [reflexivity|]. destruct (String.eqb k k'); [discriminate|exact IH].
Qed.

Lemma slookup_app_some {V} k (a b : list (string * V)) v : slookup k a = Some v -> slookup k (a ++ b) = Some v.
Proof.
  induction a as [|[k' v'] r IH]; cbn; [discriminate|]. destruct (String.eqb k k'); [auto|exact IH].
Qed.

Lemma convert_cfg_notin tbl c p : ~ In p (map snd tbl) -> slookup p (convert_cfg tbl c) = None.
Proof.
  induction tbl as [|[k q] r IH]; intros H; [reflexivity|]. cbn [convert_cfg flat_map fst snd].
  assert (Hq : String.eqb p q = false).
  { apply String.eqb_neq. intros ->. apply H. left. reflexivity. }
  assert (Hr : slookup p (convert_cfg r c) = None) by (apply IH; intros Hi; apply H; right; exact Hi).
  destruct (slookup k c) as [v|]; cbn [app slookup]; [rewrite Hq|]; exact Hr.
Qed.

(* a v1 setting named by the table is found at its v2 location with the same value; an absent one is absent *)
Lemma convert_cfg_preserves tbl c k p :
  NoDup (map snd tbl) -> In (k, p) tbl -> slookup p (convert_cfg tbl c) = slookup k c.
Proof.
  induction tbl as [|[k' q] r IH]; intros Hnd Hin; [destruct Hin|].
  cbn [map snd] in Hnd. inversion Hnd as [|? ? Hn Hr]; subst.
  cbn [convert_cfg flat_map fst snd]. destruct Hin as [E|Hin].
  - injection E as -> ->. destruct (slookup k c) as [v|] eqn:L; cbn [app slookup].
    + rewrite String.eqb_refl. reflexivity.
    + apply convert_cfg_notin. exact Hn.
  - assert (Hpq : String.eqb p q = false).
    { apply String.eqb_neq. intros ->. apply Hn. apply in_map_iff. exists (k, q). split; [reflexivity|exact Hin]. }
    destruct (slookup k' c) as [v|]; cbn [app slookup]; [rewrite Hpq|]; apply IH; assumption.
Qed.

Fixpoint nodup_strings (l : list string) : bool :=
  match l with [] => true | x :: r => negb (existsb (String.eqb x) r) && nodup_strings r end.
Lemma nodup_strings_ok l : nodup_strings l = true -> NoDup l.
Proof.
  induction l as [|x r IH]; intros H; [constructor|]. cbn in H. apply andb_true_iff in H. destruct H as [H1 H2].
  constructor; [|apply IH; exact H2]. intros Hin. apply negb_true_iff in H1.
  assert (existsb (String.eqb x) r = true) by (apply existsb_exists; exists x; split; [exact Hin|apply String.eqb_refl]).
  congruence.
Qed.

Lemma gen_table_v2_paths_distinct : NoDup (map snd gen_table).
Proof. apply nodup_strings_ok. vm_compute. reflexivity. Qed.

Lemma gen_shape : gen_shape_ok = true.
Proof. vm_compute. reflexivity. Qed.

(* ------------------------------------------------------------------ rules *)
Lemma find_conv_other name s l :
  se_name s <> name ->
  find_section name (conv_section (se_name s) s :: l) = find_section name l.
Proof.
  intros H. unfold find_section. cbn [find conv_section se_name].
  destruct (String.eqb (se_name s) name) eqn:E; [apply String.eqb_eq in E; contradiction|reflexivity].
Qed.

Lemma find_in_converted ds : forall s,
  NoDup (map se_name ds) -> In s ds -> has_sampler s = true ->
  find_section (se_name s) (map (fun x => conv_section (se_name x) x) (filter has_sampler ds)) = Some (conv_section (se_name s) s).
Proof.
  induction ds as [|d r IH]; intros s Hnd Hin Hs; [destruct Hin|].
  cbn [map] in Hnd. inversion Hnd as [|? ? Hn Hr]; subst. cbn [filter]. destruct Hin as [->|Hin].
  - rewrite Hs. cbn [map]. unfold find_section. cbn [find conv_section se_name]. rewrite String.eqb_refl. reflexivity.
  - assert (Hne : se_name d <> se_name s).
    { intros E. apply Hn. rewrite E. apply in_map. exact Hin. }
    destruct (has_sampler d); [cbn [map]; rewrite find_conv_other by exact Hne|]; apply IH; assumption.
Qed.

Lemma find_skipped ds : forall name,
  (forall s, In s ds -> se_name s = name -> has_sampler s = false) ->
  find_section name (map (fun x => conv_section (se_name x) x) (filter has_sampler ds)) = None.
Proof.
  induction ds as [|d r IH]; intros name H; [reflexivity|]. cbn [filter].
  destruct (has_sampler d) eqn:Ed.
  - cbn [map]. unfold find_section. cbn [find conv_section se_name].
    destruct (String.eqb (se_name d) name) eqn:E.
    + apply String.eqb_eq in E. rewrite (H d (or_introl eq_refl) E) in Ed. discriminate.
    + apply IH. intros s Hs. apply H. right. exact Hs.
  - apply IH. intros s Hs. apply H. right. exact Hs.
Qed.

Lemma convert_rules_spec dflt ds :
  NoDup (map se_name ds) -> ~ In "__default__" (map se_name ds) ->
  find_section "__default__" (convert_rules dflt ds) = Some (conv_section "__default__" dflt) /\
  (forall s, In s ds -> has_sampler s = true ->
     find_section (se_name s) (convert_rules dflt ds) = Some (conv_section (se_name s) s)) /\
  (forall s, In s ds -> has_sampler s = false -> find_section (se_name s) (convert_rules dflt ds) = None).
Proof.
  intros Hnd Hd. unfold convert_rules. split; [|split].
  - unfold find_section. cbn [find conv_section se_name]. reflexivity.
  - intros s Hin Hs. unfold find_section at 1. cbn [find conv_section se_name].
    destruct (String.eqb "__default__" (se_name s)) eqn:E.
    + apply String.eqb_eq in E. exfalso. apply Hd. rewrite E. apply in_map. exact Hin.
    + apply find_in_converted; assumption.
  - intros s Hin Hs. unfold find_section at 1. cbn [find conv_section se_name].
    destruct (String.eqb "__default__" (se_name s)) eqn:E.
    + apply String.eqb_eq in E. exfalso. apply Hd. rewrite E. apply in_map. exact Hin.
    + apply find_skipped. intros s' Hin' En.
      destruct (has_sampler s') eqn:Es'; [|reflexivity]. exfalso.
      (* two sections with the same name are the same section *)
      assert (s' = s).
      { clear -Hnd Hin Hin' En. induction ds as [|d r IH]; [destruct Hin|].
        cbn [map] in Hnd. inversion Hnd as [|? ? Hn Hr]; subst.
        destruct Hin as [->|Hin], Hin' as [->|Hin']; try reflexivity.
        - exfalso. apply Hn. rewrite <- En. apply in_map. exact Hin'.
        - exfalso. apply Hn. rewrite En. apply in_map. exact Hin.
        - apply IH; assumption. }
      subst s'. congruence.
Qed.

(* what conversion does to one section: type kept (DeterministicSampler when there is no Sampler key), field list
   kept, every parameter kept except the two that change unit *)
Lemma conv_section_spec name s :
  se_type (conv_section name s) = (if String.eqb (se_type s) "" then "DeterministicSampler" else se_type s) /\
  se_fields (conv_section name s) = se_fields s /\
  se_rules (conv_section name s) = map conv_rule (se_rules s) /\
  (forall k v, In (k, v) (se_params s) -> k <> "ClearFrequencySec" -> k <> "AdjustmentInterval" ->
     In (k, v) (se_params (conv_section name s))) /\
  (forall v, In ("ClearFrequencySec", v) (se_params s) -> In ("ClearFrequency", (v * second)%Z) (se_params (conv_section name s))) /\
  (forall v, In ("AdjustmentInterval", v) (se_params s) -> In ("AdjustmentInterval", (v * second)%Z) (se_params (conv_section name s))).
Proof.
  split; [reflexivity|]. split; [reflexivity|]. split; [reflexivity|]. cbn [conv_section se_params]. split; [|split].
  - intros k v Hin H1 H2. apply in_map_iff. exists (k, v). split; [|exact Hin]. unfold conv_param. cbn [fst snd].
    apply String.eqb_neq in H1, H2. rewrite H1, H2. reflexivity.
  - intros v Hin. apply in_map_iff. exists ("ClearFrequencySec", v). split; [reflexivity|exact Hin].
  - intros v Hin. apply in_map_iff. exists ("AdjustmentInterval", v). split; [reflexivity|exact Hin].
Qed.

(* ------------------------------------------------------------------ one setting: written value and loaded value *)
Lemma loaded_cases s :
  loaded s = si_v1 s \/
  (emits s = true /\ zero_text (si_v1 s) = true /\ si_ptr s = false /\ loaded s = si_sdefault s) \/
  (emits s = false /\ loaded s = si_sdefault s).
Proof.
  unfold loaded. destruct (emits s) eqn:E.
  - destruct (zero_text (si_v1 s)) eqn:Z; [|left; reflexivity].
    destruct (si_ptr s) eqn:P; cbn [negb andb]; [left; reflexivity|]. right. left. auto.
  - right. right. auto.
Qed.

(* a value that is written and is not a zero value is the effective v2 value *)
Lemma written_nonzero_kept s : emits s = true -> zero_text (si_v1 s) = false -> loaded s = si_v1 s.
Proof. intros E Z. unfold loaded. rewrite E, Z. reflexivity. Qed.

(* an explicit false / zero of a setting whose v2 field can hold it (pointer type, e.g. *DefaultTrue) is kept by a
   nondefault setting whenever it differs from the documented default *)
Lemma explicit_zero_kept s :
  si_vt s = "nondefault" -> si_text s <> si_mdefault s -> si_ptr s = true -> loaded s = si_v1 s.
Proof.
  intros Hv Hd Hp. unfold loaded, emits. rewrite Hv. rewrite (String.eqb_refl "nondefault").
  apply String.eqb_neq in Hd. rewrite Hd. cbn [negb]. rewrite Hp. cbn [negb]. rewrite andb_false_r. reflexivity.
Qed.

(* a nondefault setting is left out only when the v1 value prints like the documented default *)
Lemma nondefault_left_out s : si_vt s = "nondefault" -> emits s = false -> si_text s = si_mdefault s.
Proof.
  intros Hv E. unfold emits in E. rewrite Hv in E. rewrite (String.eqb_refl "nondefault") in E.
  apply negb_false_iff, String.eqb_eq in E. exact E.
Qed.

(* the key fix-ups on any parameter list, used for top-level samplers and for samplers nested in rules alike *)
Lemma conv_params_spec (l : list (string * Z)) :
  (forall k v, In (k, v) l -> k <> "ClearFrequencySec" -> k <> "AdjustmentInterval" -> In (k, v) (map conv_param l)) /\
  (forall v, In ("ClearFrequencySec", v) l -> In ("ClearFrequency", (v * second)%Z) (map conv_param l)) /\
  (forall v, In ("AdjustmentInterval", v) l -> In ("AdjustmentInterval", (v * second)%Z) (map conv_param l)).
Proof.
  split; [|split].
  - intros k v Hin H1 H2. apply in_map_iff. exists (k, v). split; [|exact Hin]. unfold conv_param. cbn [fst snd].
    apply String.eqb_neq in H1, H2. rewrite H1, H2. reflexivity.
  - intros v Hin. apply in_map_iff. exists ("ClearFrequencySec", v). split; [reflexivity|exact Hin].
  - intros v Hin. apply in_map_iff. exists ("AdjustmentInterval", v). split; [reflexivity|exact Hin].
Qed.

Lemma conv_rule_spec r :
  ru_text (conv_rule r) = ru_text r /\ ru_sub_type (conv_rule r) = ru_sub_type r /\
  (forall k v, In (k, v) (ru_sub_params r) -> k <> "ClearFrequencySec" -> k <> "AdjustmentInterval" ->
     In (k, v) (ru_sub_params (conv_rule r))) /\
  (forall v, In ("ClearFrequencySec", v) (ru_sub_params r) -> In ("ClearFrequency", (v * second)%Z) (ru_sub_params (conv_rule r))) /\
  (forall v, In ("AdjustmentInterval", v) (ru_sub_params r) -> In ("AdjustmentInterval", (v * second)%Z) (ru_sub_params (conv_rule r))).
Proof. split; [reflexivity|]. split; [reflexivity|]. exact (conv_params_spec (ru_sub_params r)). Qed.
