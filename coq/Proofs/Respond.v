(* Proofs about Model/Respond.v (C23). *)
From Refinery Require Import Lib.Base Gen.GenC23 Model.Respond.

(* ---- small list facts --------------------------------------------------------------------------- *)
Lemma list_eqb_refl {A} (eqb : A -> A -> bool) :
  (forall x, eqb x x = true) -> forall l, list_eqb eqb l l = true.
Proof.
  intros Hr l. induction l as [|x l IH]; cbn; [reflexivity|]. rewrite Hr, IH. reflexivity.
Qed.

Lemma doc_eqb_refl d : doc_eqb d d = true.
Proof. destruct d; cbn; try reflexivity. apply list_eqb_refl. apply N.eqb_refl. Qed.

(* ---- projections of a trace ----------------------------------------------------------------------- *)
Lemma hdrs_app a b : hdrs_of (a ++ b) = hdrs_of a ++ hdrs_of b.
Proof. unfold hdrs_of. apply flat_map_app. Qed.
Lemma docs_app a b : docs_of (a ++ b) = docs_of a ++ docs_of b.
Proof. unfold docs_of. apply flat_map_app. Qed.
Lemma adds_app a b : adds_of (a ++ b) = adds_of a ++ adds_of b.
Proof. unfold adds_of. apply flat_map_app. Qed.
Lemma ups_app a b : ups_of (a ++ b) = ups_of a ++ ups_of b.
Proof. unfold ups_of. apply flat_map_app. Qed.
Lemma peers_app a b : peers_of (a ++ b) = peers_of a ++ peers_of b.
Proof. unfold peers_of. apply flat_map_app. Qed.

(* a trace fragment that does not touch the response writer *)
Definition quiet_act (a : action) : bool := match a with AHdr _ | ADoc _ => false | _ => true end.
Definition quiet (tr : list action) : Prop := forallb quiet_act tr = true.

Lemma quiet_app a b : quiet a -> quiet b -> quiet (a ++ b).
Proof. unfold quiet. intros Ha Hb. rewrite forallb_app, Ha, Hb. reflexivity. Qed.

Lemma quiet_first_status a k : quiet a -> first_status (a ++ k) = first_status k.
Proof.
  unfold quiet. induction a as [|x a IH]; cbn; [reflexivity|].
  intros H. apply andb_true_iff in H as [Hx Ha]. destruct x; cbn in Hx; try discriminate; apply IH, Ha.
Qed.
Lemma quiet_implicit a k : quiet a -> implicit_status (a ++ k) = implicit_status k.
Proof.
  unfold quiet. induction a as [|x a IH]; cbn; [reflexivity|].
  intros H. apply andb_true_iff in H as [Hx Ha]. destruct x; cbn in Hx; try discriminate; apply IH, Ha.
Qed.
Lemma quiet_hdrs a : quiet a -> hdrs_of a = [].
Proof.
  unfold quiet. induction a as [|x a IH]; cbn; [reflexivity|].
  intros H. apply andb_true_iff in H as [Hx Ha]. destruct x; cbn in Hx; try discriminate; cbn; apply IH, Ha.
Qed.
Lemma quiet_docs a : quiet a -> docs_of a = [].
Proof.
  unfold quiet. induction a as [|x a IH]; cbn; [reflexivity|].
  intros H. apply andb_true_iff in H as [Hx Ha]. destruct x; cbn in Hx; try discriminate; cbn; apply IH, Ha.
Qed.

(* ---- one event, the loop --------------------------------------------------------------------------- *)
Lemma process_event_quiet id c a acts o a' :
  process_event id c a = (acts, o, a') -> quiet acts.
Proof.
  unfold process_event. destruct c; try (intros H; inversion H; reflexivity).
  destruct (next_admit a) as [b r]. intros H; inversion H; reflexivity.
Qed.

Lemma event_loop_quiet evs : forall a acts outs, event_loop evs a = (acts, outs) -> quiet acts.
Proof.
  induction evs as [|[id c] evs IH]; intros a acts outs H; cbn in H.
  - inversion H. reflexivity.
  - destruct (process_event id c a) as [[acts1 o] a'] eqn:Hp.
    destruct (event_loop evs a') as [ar outs'] eqn:Hl. inversion H; subst.
    apply quiet_app; [eapply process_event_quiet; eauto | eapply IH; eauto].
Qed.

(* the loop hands every event to the right component exactly once, in order *)
Lemma event_loop_replay evs : forall a acts outs,
  event_loop evs a = (acts, outs) ->
  replay evs (adds_of acts) (ups_of acts) (peers_of acts) = Some outs.
Proof.
  induction evs as [|[id c] evs IH]; intros a acts outs H; cbn in H.
  - inversion H. reflexivity.
  - destruct (process_event id c a) as [[acts1 o] a'] eqn:Hp.
    destruct (event_loop evs a') as [ar outs'] eqn:Hl. inversion H; subst. clear H.
    specialize (IH _ _ _ Hl). rewrite adds_app, ups_app, peers_app.
    unfold process_event in Hp. destruct c.
    + inversion Hp; subst. cbn. rewrite IH. reflexivity.
    + inversion Hp; subst. cbn. rewrite IH. reflexivity.
    + inversion Hp; subst. cbn. rewrite N.eqb_refl, IH. reflexivity.
    + inversion Hp; subst. cbn. rewrite N.eqb_refl, IH. reflexivity.
    + destruct (next_admit a) as [b r]. inversion Hp; subst. cbn. rewrite N.eqb_refl, IH. reflexivity.
Qed.

Lemma event_loop_length evs : forall a acts outs, event_loop evs a = (acts, outs) -> length outs = length evs.
Proof.
  induction evs as [|[id c] evs IH]; intros a acts outs H; cbn in H.
  - inversion H. reflexivity.
  - destruct (process_event id c a) as [[acts1 o] a'] eqn:Hp.
    destruct (event_loop evs a') as [ar outs'] eqn:Hl. inversion H; subst. cbn. f_equal. eapply IH; eauto.
Qed.

(* the admission answers are consumed in order: the k-th span offered to the collector gets the k-th answer *)
Fixpoint answers (n : nat) (a : list bool) : list bool :=
  match n with O => [] | S n' => fst (next_admit a) :: answers n' (snd (next_admit a)) end.

Lemma event_loop_answers evs : forall a acts outs,
  event_loop evs a = (acts, outs) ->
  map snd (adds_of acts) = answers (length (adds_of acts)) a.
Proof.
  induction evs as [|[id c] evs IH]; intros a acts outs H; cbn in H.
  - inversion H. reflexivity.
  - destruct (process_event id c a) as [[acts1 o] a'] eqn:Hp.
    destruct (event_loop evs a') as [ar outs'] eqn:Hl. inversion H; subst. clear H.
    specialize (IH _ _ _ Hl). rewrite adds_app.
    unfold process_event in Hp. destruct c; try (inversion Hp; subst; cbn; exact IH).
    destruct (next_admit a) as [b r] eqn:Hn. inversion Hp; subst. cbn. rewrite Hn. cbn. f_equal. exact IH.
Qed.

(* ---- the statuses of the property text ----------------------------------------------------------------- *)
Lemma std_status_accepted o : std_status o = 202%N <-> accepted o.
Proof. unfold accepted. destruct o; cbn; split; intros H; try discriminate; try reflexivity; auto;
       destruct H as [H|[H|[H|H]]]; discriminate. Qed.
Lemma std_status_refused o : std_status o = 429%N <-> o = ORefused.
Proof. destruct o; cbn; split; intros H; try discriminate; reflexivity. Qed.
Lemma std_status_invalid o : std_status o = 400%N <-> o = OInvalid.
Proof. destruct o; cbn; split; intros H; try discriminate; reflexivity. Qed.

(* ---- the shape of every handler's trace ---------------------------------------------------------------- *)
Inductive shape (r : request) : list action -> Prop :=
| sh_report c : is_err_code c = true -> is_v1 (r_ep r) = true -> shape r (report c)
| sh_hdr c : is_error (r_ep r) c = true -> is_v1 (r_ep r) = false -> shape r [AHdr c]
| sh_event acts o a' :
    r_ep r = EpEvent ->
    process_event (fst (first_event r)) (snd (first_event r)) (r_admit r) = (acts, o, a') ->
    snd (first_event r) <> EvEmpty -> o <> ORefused -> shape r acts
| sh_event_refused acts a' c :
    r_ep r = EpEvent -> is_err_code c = true ->
    process_event (fst (first_event r)) (snd (first_event r)) (r_admit r) = (acts, ORefused, a') ->
    shape r (acts ++ report c)
| sh_batch acts outs :
    r_ep r = EpBatch -> event_loop (r_events r) (r_admit r) = (acts, outs) ->
    shape r (acts ++ [ADoc (DList (map std_status outs))])
| sh_otlp acts outs :
    is_v1 (r_ep r) = false -> event_loop (r_events r) (r_admit r) = (acts, outs) ->
    shape r (acts ++ [AHdr (if is_grpc (r_ep r) then 0 else 200)%N]).

Record params_facts (p : params) : Prop := {
  pf_auth : is_err_code (p_auth p) = true;
  pf_e_body : is_err_code (p_e_body p) = true;
  pf_e_req : is_err_code (p_e_req p) = true;
  pf_e_proc : is_err_code (p_e_proc p) = true;
  pf_b_body : is_err_code (p_b_body p) = true;
  pf_b_ds : is_err_code (fst (p_b_ds p)) = true;
  pf_b_ds_ret : snd (p_b_ds p) = true;
  pf_b_env : is_err_code (fst (p_b_env p)) = true;
  pf_b_env_ret : snd (p_b_env p) = true;
  pf_b_parse : is_err_code (p_b_parse p) = true;
  pf_item_ok : p_item_ok p = 202%N;
  pf_item_full : p_item_full p = 429%N;
  pf_item_bad : p_item_bad p = 400%N;
  pf_env_map : p_env_map p = true;
  pf_env_msgp : p_env_msgp p = true;
  pf_ot_auth : is_err_code (p_ot_auth p) = true;
  pf_ot_other : is_err_code (p_ot_other p) = true;
  pf_ol_auth : is_err_code (p_ol_auth p) = true;
  pf_ol_translate : is_err_code (p_ol_translate p) = true;
  pf_ol_process : is_err_code (p_ol_process p) = true
}.

Lemma params_ok_facts p : params_ok p = true -> params_facts p.
Proof.
  unfold params_ok. intros H.
  repeat (apply andb_true_iff in H; destruct H as [H ?]).
  constructor; try assumption; apply N.eqb_eq; assumption.
Qed.

Record ext_facts (x : ext) : Prop := {
  xf_ctype : is_err_code (x_ctype x) = true;
  xf_parse : is_err_code (x_parse x) = true;
  xf_unauth : (x_grpc_unauth x =? 0)%N = false;
  xf_internal : (x_grpc_internal x =? 0)%N = false
}.
Lemma ext_ok_facts x : ext_ok x = true -> ext_facts x.
Proof.
  unfold ext_ok. intros H. repeat (apply andb_true_iff in H; destruct H as [H ?]).
  constructor; try assumption; apply negb_true_iff; assumption.
Qed.

Lemma item_status_std p : params_facts p -> forall outs, map (item_status p) outs = map std_status outs.
Proof.
  intros F outs. apply map_ext. intros o. unfold item_status, std_status.
  destruct o; first [apply (pf_item_ok _ F) | apply (pf_item_full _ F) | apply (pf_item_bad _ F)].
Qed.

Lemma shape_batch p r : params_facts p -> r_ep r = EpBatch -> shape r (h_batch p r).
Proof.
  intros F E. unfold h_batch.
  assert (V : is_v1 (r_ep r) = true) by (rewrite E; reflexivity).
  destruct (f_body (r_f r)); [apply sh_report; [apply (pf_b_body _ F) | exact V]|].
  destruct (f_dataset (r_f r)).
  { rewrite (pf_b_ds_ret _ F), app_nil_r. apply sh_report; [apply (pf_b_ds _ F) | exact V]. }
  destruct (env_fails r).
  { rewrite (pf_b_env_ret _ F), app_nil_r. apply sh_report; [apply (pf_b_env _ F) | exact V]. }
  destruct (f_parse (r_f r)); [apply sh_report; [apply (pf_b_parse _ F) | exact V]|].
  destruct (event_loop (r_events r) (r_admit r)) as [acts outs] eqn:Hl.
  rewrite (item_status_std _ F). apply sh_batch; assumption.
Qed.

Lemma shape_event p r : params_facts p -> r_ep r = EpEvent -> shape r (h_event p r).
Proof.
  intros F E. unfold h_event.
  assert (V : is_v1 (r_ep r) = true) by (rewrite E; reflexivity).
  destruct (f_body (r_f r)); [apply sh_report; [apply (pf_e_body _ F) | exact V]|].
  destruct (f_dataset (r_f r) || env_fails r || f_parse (r_f r)); [apply sh_report; [apply (pf_e_req _ F) | exact V]|].
  destruct (first_event r) as [id c] eqn:Hf.
  destruct c; try (apply sh_report; [apply (pf_e_req _ F) | exact V]).
  - (* probe *) eapply sh_event with (o := OProbe); rewrite ?Hf; cbn; try reflexivity; try discriminate; exact E.
  - eapply sh_event with (o := OUp); rewrite ?Hf; cbn; try reflexivity; try discriminate; exact E.
  - eapply sh_event with (o := OPeer); rewrite ?Hf; cbn; try reflexivity; try discriminate; exact E.
  - cbn. destruct (next_admit (r_admit r)) as [b a'] eqn:Hn. destruct b.
    + rewrite app_nil_r. eapply sh_event with (o := OAdded); rewrite ?Hf; cbn; rewrite ?Hn; try reflexivity; try discriminate; exact E.
    + eapply sh_event_refused; [exact E | apply (pf_e_proc _ F) |]. rewrite Hf. cbn. rewrite Hn. reflexivity.
Qed.

Lemma shape_otlp_process (prop : bool) r errc :
  prop = true -> is_v1 (r_ep r) = false -> is_error (r_ep r) errc = true ->
  forall acts failed, otlp_process prop r = (acts, failed) ->
  shape r (acts ++ [AHdr (if failed then errc else if is_grpc (r_ep r) then 0 else 200)%N]).
Proof.
  intros Hp V He acts failed. unfold otlp_process. destruct (env_fails r).
  - intros H; inversion H; subst. cbn. apply sh_hdr; assumption.
  - destruct (event_loop (r_events r) (r_admit r)) as [a outs] eqn:Hl. cbn. intros H; inversion H; subst.
    eapply sh_otlp; eassumption.
Qed.

Theorem handle_shape p r :
  params_ok p = true -> ext_ok (r_ext r) = true -> shape r (handle p r).
Proof.
  intros Hp Hx. pose proof (params_ok_facts _ Hp) as F. pose proof (ext_ok_facts _ Hx) as X.
  unfold handle. destruct (r_ep r) eqn:E.
  - unfold with_auth. destruct (negb (r_direct r) && f_auth (r_f r)).
    + apply sh_report; [apply (pf_auth _ F) | rewrite E; reflexivity].
    + apply shape_event; assumption.
  - unfold with_auth. destruct (negb (r_direct r) && f_auth (r_f r)).
    + apply sh_report; [apply (pf_auth _ F) | rewrite E; reflexivity].
    + apply shape_batch; assumption.
  - unfold h_otlp_trace_http.
    destruct (f_ctype (r_f r)); [apply sh_hdr; rewrite E; [apply (xf_ctype _ X) | reflexivity]|].
    destruct (f_auth (r_f r)); [apply sh_hdr; rewrite E; [apply (pf_ot_auth _ F) | reflexivity]|].
    destruct (f_body (r_f r) || f_parse (r_f r)); [apply sh_hdr; rewrite E; [apply (xf_parse _ X) | reflexivity]|].
    destruct (otlp_process (p_env_msgp p) r) as [acts failed] eqn:Ho.
    pose proof (shape_otlp_process (p_env_msgp p) r (p_ot_other p) (pf_env_msgp _ F)) as S.
    rewrite E in S. cbn in S. specialize (S eq_refl (pf_ot_other _ F) _ _ Ho). exact S.
  - unfold h_otlp_logs_http.
    destruct (f_ctype (r_f r)); [apply sh_hdr; rewrite E; [apply (xf_ctype _ X) | reflexivity]|].
    destruct (f_auth (r_f r)); [apply sh_hdr; rewrite E; [apply (pf_ol_auth _ F) | reflexivity]|].
    destruct (f_body (r_f r) || f_parse (r_f r)); [apply sh_hdr; rewrite E; [apply (pf_ol_translate _ F) | reflexivity]|].
    destruct (otlp_process (p_env_map p) r) as [acts failed] eqn:Ho.
    pose proof (shape_otlp_process (p_env_map p) r (p_ol_process p) (pf_env_map _ F)) as S.
    rewrite E in S. cbn in S. specialize (S eq_refl (pf_ol_process _ F) _ _ Ho). exact S.
  - unfold h_otlp_grpc.
    assert (Ei : is_error EpOtlpTraceGrpc (x_grpc_internal (r_ext r)) = true)
      by (unfold is_error; cbn; rewrite (xf_internal _ X); reflexivity).
    assert (Eu : is_error EpOtlpTraceGrpc (x_grpc_unauth (r_ext r)) = true)
      by (unfold is_error; cbn; rewrite (xf_unauth _ X); reflexivity).
    destruct (p_grpc_trace_auth_first p && f_auth (r_f r)); [apply sh_hdr; rewrite E; [exact Eu | reflexivity]|].
    destruct (f_parse (r_f r)); [apply sh_hdr; rewrite E; [exact Ei | reflexivity]|].
    destruct (f_auth (r_f r)); [apply sh_hdr; rewrite E; [exact Eu | reflexivity]|].
    destruct (otlp_process (p_env_msgp p) r) as [acts failed] eqn:Ho.
    pose proof (shape_otlp_process (p_env_msgp p) r (x_grpc_internal (r_ext r)) (pf_env_msgp _ F)) as S.
    rewrite E in S. cbn in S. specialize (S eq_refl Ei _ _ Ho). exact S.
  - unfold h_otlp_grpc.
    assert (Ei : is_error EpOtlpLogsGrpc (x_grpc_internal (r_ext r)) = true)
      by (unfold is_error; cbn; rewrite (xf_internal _ X); reflexivity).
    assert (Eu : is_error EpOtlpLogsGrpc (x_grpc_unauth (r_ext r)) = true)
      by (unfold is_error; cbn; rewrite (xf_unauth _ X); reflexivity).
    cbn [andb].
    destruct (f_parse (r_f r)); [apply sh_hdr; rewrite E; [exact Ei | reflexivity]|].
    destruct (f_auth (r_f r)); [apply sh_hdr; rewrite E; [exact Eu | reflexivity]|].
    destruct (otlp_process (p_env_map p) r) as [acts failed] eqn:Ho.
    pose proof (shape_otlp_process (p_env_map p) r (x_grpc_internal (r_ext r)) (pf_env_map _ F)) as S.
    rewrite E in S. cbn in S. specialize (S eq_refl Ei _ _ Ho). exact S.
Qed.

(* ---- from the shape of the trace to what is observed --------------------------------------------------- *)
(* Either the request as a whole was refused (error status, nothing forwarded or buffered, exactly one
   status write, and on /1/ exactly one error document), or it was answered with success, every event was
   handed to the right component exactly once in order, the status was set at most once, and a batch
   answer is exactly the list of the prescribed item statuses. *)
Definition obs_ok (r : request) (o : obs) : Prop :=
  (is_error (r_ep r) (ob_status o) = true /\ effects o = [] /\ ob_hdr_calls o = 1%N /\
   ob_docs o = if is_v1 (r_ep r) then [DErr] else [])
  \/
  (is_error (r_ep r) (ob_status o) = false /\
   exists outs, replay (req_events r) (ob_adds o) (ob_up o) (ob_peer o) = Some outs /\
                length outs = length (req_events r) /\
                (ob_hdr_calls o <= 1)%N /\
                ob_docs o = match r_ep r with EpBatch => [DList (map std_status outs)] | _ => [] end).

Lemma is_error_v1 e c : is_v1 e = true -> is_error e c = is_err_code c.
Proof. destruct e; cbn; intros H; try discriminate; reflexivity. Qed.

Lemma observe_quiet_app acts k : quiet acts ->
  observe (acts ++ k) =
  {| ob_status := ob_status (observe k); ob_hdr_calls := ob_hdr_calls (observe k); ob_docs := ob_docs (observe k);
     ob_adds := adds_of acts ++ adds_of k; ob_up := ups_of acts ++ ups_of k; ob_peer := peers_of acts ++ peers_of k |}.
Proof.
  intros Q. unfold observe. cbn.
  rewrite (quiet_first_status _ _ Q), (quiet_implicit _ _ Q), hdrs_app, docs_app, adds_app, ups_app, peers_app.
  rewrite (quiet_hdrs _ Q), (quiet_docs _ Q). reflexivity.
Qed.

Lemma process_event_replay id c a acts o a' :
  process_event id c a = (acts, o, a') ->
  replay [(id, c)] (adds_of acts) (ups_of acts) (peers_of acts) = Some [o].
Proof.
  unfold process_event. destruct c; try (intros H; inversion H; subst; cbn; rewrite ?N.eqb_refl; reflexivity).
  destruct (next_admit a) as [b r]. intros H; inversion H; subst. cbn. rewrite N.eqb_refl. reflexivity.
Qed.

Lemma process_event_refused id c a acts a' :
  process_event id c a = (acts, ORefused, a') -> acts = [AAdd id false].
Proof.
  unfold process_event. destruct c; try (intros H; inversion H; fail).
  destruct (next_admit a) as [b r]. destruct b; intros H; inversion H; reflexivity.
Qed.

Lemma shape_obs_ok r tr : shape r tr -> obs_ok r (observe tr).
Proof.
  intros S. destruct S as [c Hc V | c Hc V | acts o a' E Hp Hne Ho | acts a' c E Hc Hp | acts outs E Hl | acts outs V Hl].
  - (* report *) left. cbn. rewrite (is_error_v1 _ _ V), V. repeat split; assumption.
  - (* a bare status *) left. cbn. rewrite V. repeat split; assumption.
  - (* single event, processed *) right.
    pose proof (process_event_quiet _ _ _ _ _ _ Hp) as Q.
    rewrite <- (app_nil_r acts), (observe_quiet_app _ _ Q). cbn. rewrite !app_nil_r. rewrite E. cbn.
    split; [reflexivity|]. exists [o]. unfold req_events. rewrite E.
    destruct (first_event r) as [id c]. cbn [fst snd] in Hp.
    rewrite (process_event_replay _ _ _ _ _ _ Hp). repeat split; try reflexivity; try discriminate.
  - (* single event, queue full *) left.
    pose proof (process_event_quiet _ _ _ _ _ _ Hp) as Q.
    rewrite (observe_quiet_app _ _ Q). cbn. rewrite E. cbn.
    rewrite (process_event_refused _ _ _ _ _ Hp). cbn. repeat split; try reflexivity. exact Hc.
  - (* batch answered *) right.
    pose proof (event_loop_quiet _ _ _ _ Hl) as Q.
    rewrite (observe_quiet_app _ _ Q). cbn. rewrite !app_nil_r. rewrite E. cbn.
    split; [reflexivity|]. exists outs. unfold req_events. rewrite E.
    rewrite (event_loop_replay _ _ _ _ Hl), (event_loop_length _ _ _ _ Hl). repeat split; try reflexivity; try discriminate.
  - (* OTLP answered *) right.
    pose proof (event_loop_quiet _ _ _ _ Hl) as Q.
    rewrite (observe_quiet_app _ _ Q). cbn. rewrite !app_nil_r.
    assert (Hst : is_error (r_ep r) (if is_grpc (r_ep r) then 0 else 200)%N = false)
      by (destruct (r_ep r); cbn in V |- *; try discriminate; reflexivity).
    split; [exact Hst|]. exists outs.
    assert (Hre : req_events r = r_events r) by (unfold req_events; destruct (r_ep r); cbn in V; try discriminate; reflexivity).
    rewrite Hre, (event_loop_replay _ _ _ _ Hl), (event_loop_length _ _ _ _ Hl).
    repeat split; try reflexivity; try discriminate.
    destruct (r_ep r); cbn in V; try discriminate; reflexivity.
Qed.

Theorem handle_obs_ok p r :
  params_ok p = true -> ext_ok (r_ext r) = true -> obs_ok r (observe (handle p r)).
Proof. intros Hp Hx. apply shape_obs_ok, handle_shape; assumption. Qed.

(* ---- the four clauses of the property --------------------------------------------------------------------- *)
Theorem error_status_no_effects p r :
  params_ok p = true -> ext_ok (r_ext r) = true ->
  let o := observe (handle p r) in
  is_error (r_ep r) (ob_status o) = true -> effects o = [].
Proof.
  intros Hp Hx o He. destruct (handle_obs_ok p r Hp Hx) as [[_ [H _]] | [H _]]; [exact H|].
  fold o in H. rewrite H in He. discriminate.
Qed.

Theorem success_all_processed p r :
  params_ok p = true -> ext_ok (r_ext r) = true ->
  let o := observe (handle p r) in
  is_error (r_ep r) (ob_status o) = false ->
  exists outs, replay (req_events r) (ob_adds o) (ob_up o) (ob_peer o) = Some outs /\
               length outs = length (req_events r).
Proof.
  intros Hp Hx o He. destruct (handle_obs_ok p r Hp Hx) as [[H _] | [_ [outs [H1 [H2 _]]]]].
  - fold o in H. rewrite H in He. discriminate.
  - exists outs. split; assumption.
Qed.

Theorem batch_item_statuses p r :
  params_ok p = true -> ext_ok (r_ext r) = true -> r_ep r = EpBatch ->
  let o := observe (handle p r) in
  is_error EpBatch (ob_status o) = false ->
  exists outs, replay (r_events r) (ob_adds o) (ob_up o) (ob_peer o) = Some outs /\
               length outs = length (r_events r) /\
               ob_docs o = [DList (map std_status outs)].
Proof.
  intros Hp Hx E o He. destruct (handle_obs_ok p r Hp Hx) as [[H _] | [_ [outs [H1 [H2 [_ H4]]]]]].
  - fold o in H. rewrite E, He in H. discriminate.
  - exists outs. unfold req_events in H1, H2. rewrite E in H1, H2, H4. repeat split; assumption.
Qed.

Theorem exactly_one_status p r :
  params_ok p = true -> ext_ok (r_ext r) = true ->
  let o := observe (handle p r) in
  (ob_hdr_calls o <= 1)%N /\ (length (ob_docs o) <= 1)%nat /\
  (is_v1 (r_ep r) = true -> is_error (r_ep r) (ob_status o) = true -> ob_docs o = [DErr] /\ ob_hdr_calls o = 1%N).
Proof.
  intros Hp Hx o. destruct (handle_obs_ok p r Hp Hx) as [[H1 [_ [H3 H4]]] | [H1 [outs [_ [_ [H3 H4]]]]]]; fold o in H1, H3, H4.
  - rewrite H3, H4. split; [lia|]. split; [destruct (is_v1 (r_ep r)); cbn; lia|].
    intros V _. rewrite V. split; reflexivity.
  - split; [exact H3|]. rewrite H4. split; [destruct (r_ep r); cbn; lia|].
    intros _ He. rewrite He in H1. discriminate.
Qed.

(* the boolean monitor never fires on the model's own observation *)
Theorem monitor_accepts_model p r :
  params_ok p = true -> ext_ok (r_ext r) = true -> check_obs r (observe (handle p r)) = [].
Proof.
  intros Hp Hx. unfold check_obs.
  destruct (handle_obs_ok p r Hp Hx) as [[H1 [H2 [H3 H4]]] | [H1 [outs [H2 [_ [H3 H4]]]]]].
  - rewrite H1, H2, H3, H4. cbn. destruct (is_v1 (r_ep r)); reflexivity.
  - apply N.leb_le in H3. rewrite H1, H2, H3, H4. cbn [andb negb app].
    destruct (r_ep r); cbn; try reflexivity.
    rewrite (list_eqb_refl N.eqb N.eqb_refl). reflexivity.
Qed.

(* ---- instantiation to the working tree's parameters ------------------------------------------------------ *)
Lemma gen_params_ok : params_ok gen_params = true.
Proof. vm_compute. reflexivity. Qed.

(* ---- the pinned tree (before the fix) violates the property ------------------------------------------------ *)
Definition ext_std : ext := {| x_ctype := 415; x_parse := 400; x_grpc_unauth := 16; x_grpc_internal := 13 |}%N.
Definition no_faults : faults :=
  {| f_auth := false; f_body := false; f_dataset := false; f_env := false; f_parse := false; f_ctype := false |}.
Definition env_fault : faults :=
  {| f_auth := false; f_body := false; f_dataset := false; f_env := true; f_parse := false; f_ctype := false |}.
Definition witness_batch : request :=
  {| r_ep := EpBatch; r_direct := false; r_legacy := false; r_f := env_fault;
     r_events := [(1%N, EvMine); (2%N, EvPeer); (3%N, EvNonTrace)]; r_admit := []; r_ext := ext_std |}.
Definition witness_otlp : request :=
  {| r_ep := EpOtlpTraceHttp; r_direct := false; r_legacy := false; r_f := env_fault;
     r_events := [(1%N, EvMine)]; r_admit := []; r_ext := ext_std |}.

Lemma pinned_batch_refuted :
  let o := observe (handle pinned_params witness_batch) in
  is_error EpBatch (ob_status o) = true /\ effects o = [1; 3; 2]%N /\ length (ob_docs o) = 2%nat.
Proof. vm_compute. repeat split; reflexivity. Qed.

Lemma pinned_otlp_refuted :
  let o := observe (handle pinned_params witness_otlp) in
  is_error EpOtlpTraceHttp (ob_status o) = false /\
  replay (r_events witness_otlp) (ob_adds o) (ob_up o) (ob_peer o) = None /\ effects o = [].
Proof. vm_compute. repeat split; reflexivity. Qed.

(* ---- the theorems of Props/C23.v: the working tree's parameters ---------------------------------------------- *)
Definition tree_obs (r : request) : obs := observe (handle gen_params r).

Lemma tree_error_status_no_effects : forall r, ext_ok (r_ext r) = true ->
  is_error (r_ep r) (ob_status (tree_obs r)) = true -> effects (tree_obs r) = [].
Proof. intros r Hx. exact (error_status_no_effects gen_params r gen_params_ok Hx). Qed.

Lemma tree_success_all_processed : forall r, ext_ok (r_ext r) = true ->
  is_error (r_ep r) (ob_status (tree_obs r)) = false ->
  exists outs, replay (req_events r) (ob_adds (tree_obs r)) (ob_up (tree_obs r)) (ob_peer (tree_obs r)) = Some outs /\
               length outs = length (req_events r).
Proof. intros r Hx. exact (success_all_processed gen_params r gen_params_ok Hx). Qed.

Lemma tree_batch_item_statuses : forall r, ext_ok (r_ext r) = true -> r_ep r = EpBatch ->
  is_error EpBatch (ob_status (tree_obs r)) = false ->
  exists outs, replay (r_events r) (ob_adds (tree_obs r)) (ob_up (tree_obs r)) (ob_peer (tree_obs r)) = Some outs /\
               length outs = length (r_events r) /\
               ob_docs (tree_obs r) = [DList (map std_status outs)].
Proof. intros r Hx E. exact (batch_item_statuses gen_params r gen_params_ok Hx E). Qed.

Lemma tree_exactly_one_status : forall r, ext_ok (r_ext r) = true ->
  (ob_hdr_calls (tree_obs r) <= 1)%N /\ (length (ob_docs (tree_obs r)) <= 1)%nat /\
  (is_v1 (r_ep r) = true -> is_error (r_ep r) (ob_status (tree_obs r)) = true ->
   ob_docs (tree_obs r) = [DErr] /\ ob_hdr_calls (tree_obs r) = 1%N).
Proof. intros r Hx. exact (exactly_one_status gen_params r gen_params_ok Hx). Qed.

Lemma tree_monitor_accepts_model : forall r, ext_ok (r_ext r) = true -> check_obs r (tree_obs r) = [].
Proof. intros r Hx. exact (monitor_accepts_model gen_params r gen_params_ok Hx). Qed.

Lemma tree_answers_in_order : forall evs a acts outs, event_loop evs a = (acts, outs) ->
  map snd (adds_of acts) = answers (length (adds_of acts)) a.
Proof. exact event_loop_answers. Qed.
