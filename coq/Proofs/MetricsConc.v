(* No increment is lost, whatever the interleaving of the atomic steps. *)
From Refinery Require Import Lib.Base Model.MetricsConc.

Lemma tstep_conserves c t :
  cval (fst (tstep false c t)) + outstanding_t (snd (tstep false c t)) = cval c + outstanding_t t.
Proof.
  unfold tstep, outstanding_t at 2. destruct (t_pc t) as [|n|n|n] eqn:Epc.
  - destruct (t_todo t) as [|[n| |] r] eqn:Etd; unfold outstanding_t; cbn [fst snd t_pc t_todo];
      rewrite ?Epc, ?Etd; cbn [pend todo_sum].
    + lia.
    + destruct c; cbn [pend cval]; lia.
    + destruct c; cbn [present cval]; lia.
    + lia.
  - unfold outstanding_t. cbn [fst snd t_pc t_todo pend cval]. lia.
  - unfold outstanding_t. cbn [fst snd t_pc t_todo pend]. destruct c; cbn [present cval]; lia.
  - unfold outstanding_t. cbn [fst snd t_pc t_todo pend cval]. lia.
Qed.

Lemma outstanding_cons t r : outstanding (t :: r) = outstanding_t t + outstanding r.
Proof. reflexivity. Qed.

Lemma step_nth_conserves ts : forall c i,
  cval (fst (step_nth false c ts i)) + outstanding (snd (step_nth false c ts i)) = cval c + outstanding ts.
Proof.
  induction ts as [|t r IH]; intros c i; cbn [step_nth]; [destruct i; reflexivity|].
  destruct i as [|j].
  - pose proof (tstep_conserves c t) as H. destruct (tstep false c t) as [c' t'].
    cbn [fst snd] in *. rewrite !outstanding_cons. lia.
  - specialize (IH c j). destruct (step_nth false c r j) as [c' r'].
    cbn [fst snd] in *. rewrite !outstanding_cons. lia.
Qed.

Lemma run_conserves sched : forall cf,
  cval (cell (run false cf sched)) + outstanding (threads (run false cf sched)) = cval (cell cf) + outstanding (threads cf).
Proof.
  induction sched as [|i r IH]; intros cf; cbn [run]; [reflexivity|].
  pose proof (step_nth_conserves (threads cf) (cell cf) i) as H.
  destruct (step_nth false (cell cf) (threads cf) i) as [c' ts']. cbn [fst snd] in H.
  rewrite IH. cbn [cell threads]. exact H.
Qed.

Lemma outstanding_start progs : outstanding (threads (start progs)) = total progs.
Proof.
  unfold start. cbn [threads]. induction progs as [|p r IH]; [reflexivity|].
  cbn [map]. rewrite outstanding_cons, IH. unfold outstanding_t. cbn [t_pc t_todo pend].
  change (total (p :: r)) with (todo_sum p + total r). lia.
Qed.

Lemma finished_outstanding cf : finished cf = true -> outstanding (threads cf) = 0.
Proof.
  unfold finished. induction (threads cf) as [|t r IH]; [reflexivity|]. cbn [forallb].
  intros H. apply andb_true_iff in H. destruct H as [Ht Hr]. rewrite outstanding_cons, (IH Hr).
  unfold outstanding_t. destruct (t_pc t); try discriminate. destruct (t_todo t); [cbn; lia|discriminate].
Qed.

(* at every point of every schedule: value of the cell + increments not yet applied = all increments *)
Theorem conservation progs sched :
  let cf := run false (start progs) sched in
  cval (cell cf) + outstanding (threads cf) = total progs.
Proof. cbn zeta. rewrite run_conserves, outstanding_start. reflexivity. Qed.

(* so when every goroutine is done the cell holds the sum of all increments of all goroutines *)
Theorem no_increment_lost progs sched :
  finished (run false (start progs) sched) = true ->
  cval (cell (run false (start progs) sched)) = total progs.
Proof.
  intros H. pose proof (conservation progs sched) as C. cbn zeta in C.
  rewrite (finished_outstanding _ H) in C. lia.
Qed.

(* the variant that ignores LoadOrStore's result loses an increment: both goroutines miss, the
   first publishes its pre-loaded cell, the second one's cell is dropped *)
Lemma ignore_loaded_refuted :
  exists progs sched,
    finished (run true (start progs) sched) = true /\
    cval (cell (run true (start progs) sched)) <> total progs.
Proof.
  exists [[CAdd 1]; [CAdd 1]], [0; 1; 0; 1]%nat. split; [reflexivity|]. vm_compute. discriminate.
Qed.

(* ... while single-goroutine use of the same variant is fine, which is why sequential tests pass *)
Lemma ignore_loaded_sequential_ok :
  cval (cell (run true (start [[CAdd 1; CAdd 5; CReg; CAdd 2]]) [0; 0; 0; 0; 0; 0; 0]%nat)) = 8.
Proof. reflexivity. Qed.
