(* Health: refinement of the three-map implementation model to the registration / last-report /
   tick-count specification, and the timing invariants of tick-periodic histories. *)
From Refinery Require Import Lib.Base Model.Health.

(* ---------- generic helpers on association lists ---------- *)
Lemma bool_eq_iff (a b : bool) : (a = true <-> b = true) -> a = b.
Proof. destruct a, b; intros [H1 H2]; try reflexivity; [symmetry; apply H1|apply H2]; reflexivity. Qed.

Lemma forallb_alookup {V} (f : N * V -> bool) (m : amap V) :
  NoDup (akeys m) ->
  (forallb f m = true <-> forall k v, alookup k m = Some v -> f (k, v) = true).
Proof.
  intros Hnd. rewrite forallb_forall. split.
  - intros H k v Hl. apply H. apply alookup_In. exact Hl.
  - intros H [k v] Hin. apply H. apply In_alookup_NoDup; assumption.
Qed.

Lemma alookup_mapv {V W} (g : V -> W) k (m : amap V) :
  alookup k (map (fun kv => (fst kv, g (snd kv))) m) = option_map g (alookup k m).
Proof.
  induction m as [|[k' v] r IH]; cbn [map alookup fst snd option_map]; [reflexivity|].
  destruct (N.eqb k k'); [reflexivity|exact IH].
Qed.

Lemma akeys_mapv {V W} (g : V -> W) (m : amap V) :
  akeys (map (fun kv => (fst kv, g (snd kv))) m) = akeys m.
Proof. unfold akeys. rewrite map_map. apply map_ext. intros [k v]. reflexivity. Qed.

Lemma alookup_nil_all {V} (m : amap V) : (forall k, alookup k m = None) -> m = [].
Proof.
  destruct m as [|[k v] r]; [reflexivity|]. intros H. specialize (H k).
  cbn [alookup] in H. rewrite N.eqb_refl in H. discriminate.
Qed.

Lemma mem_N_nremove k k' l :
  mem_N k' (nremove k l) = if N.eqb k' k then false else mem_N k' l.
Proof.
  unfold nremove. induction l as [|x r IH]; cbn [filter mem_N]; [destruct (N.eqb k' k); reflexivity|].
  destruct (N.eqb k x) eqn:E; cbn [negb].
  - apply N.eqb_eq in E. subst x. rewrite IH. destruct (N.eqb k' k); reflexivity.
  - cbn [mem_N]. rewrite IH. destruct (N.eqb k' k) eqn:E2; [|reflexivity].
    apply N.eqb_eq in E2. subst k'. rewrite E. reflexivity.
Qed.

Ltac amap_simpl :=
  repeat first
    [ rewrite alookup_aset_eq | rewrite alookup_aremove_eq
    | rewrite alookup_aset_neq by congruence | rewrite alookup_aremove_neq by congruence ].

(* ---------- the counter the implementation keeps, as a function of the specification ---------- *)
Definition counter (T : Z) (sb : sub) : Z :=
  match s_rep sb with
  | None => -1
  | Some (_, n, _) => if s_to sb <=? 0 then s_to sb else Z.max 0 (s_to sb - Z.of_N n * T)
  end.

Lemma counter_zero T sb : 0 <= T -> (counter T sb =? 0) = dead_sub T sb.
Proof.
  intros HT. unfold counter, dead_sub. destruct (s_rep sb) as [[[b n] r]|]; [|reflexivity].
  assert (Hn : 0 <= Z.of_N n * T) by (apply Z.mul_nonneg_nonneg; lia).
  apply bool_eq_iff. rewrite andb_true_iff, Z.eqb_eq, !Z.leb_le.
  destruct (Z.leb_spec (s_to sb) 0); lia.
Qed.

Lemma counter_pos T sb : 0 <= T -> (0 <? counter T sb) = fresh_sub T sb.
Proof.
  intros HT. unfold counter, fresh_sub. destruct (s_rep sb) as [[[b n] r]|]; [|reflexivity].
  assert (Hn : 0 <= Z.of_N n * T) by (apply Z.mul_nonneg_nonneg; lia).
  apply bool_eq_iff. rewrite !Z.ltb_lt.
  destruct (Z.leb_spec (s_to sb) 0); lia.
Qed.

Lemma counter_tick T sb : 0 <= T -> counter T (tick_sub sb) = dec T (counter T sb).
Proof.
  intros HT. unfold counter, tick_sub, dec. cbn [s_to s_rep].
  destruct (s_rep sb) as [[[b n] r]|]; [|reflexivity].
  assert (Hn : 0 <= Z.of_N n * T) by (apply Z.mul_nonneg_nonneg; lia).
  rewrite N2Z.inj_succ.
  destruct (Z.leb_spec (s_to sb) 0) as [Hle|Hgt].
  - destruct (Z.ltb_spec 0 (s_to sb)); [lia|reflexivity].
  - destruct (Z.ltb_spec 0 (Z.max 0 (s_to sb - Z.of_N n * T))); lia.
Qed.

(* what readies holds for a key *)
Definition rd_of (sp : hspec) (k : N) : option bool :=
  match alookup k (subs sp) with
  | Some sb => Some (flag_sub sb)
  | None => if mem_N k (unreg sp) then Some false else None
  end.

Record R (T : Z) (s : hstate) (sp : hspec) : Prop := {
  R_nd_to : NoDup (akeys (timeouts s));
  R_nd_tl : NoDup (akeys (timeLeft s));
  R_nd_rd : NoDup (akeys (readies s));
  R_nd_sb : NoDup (akeys (subs sp));
  R_disj : forall k, mem_N k (unreg sp) = true -> alookup k (subs sp) = None;
  R_to : forall k, alookup k (timeouts s) = option_map s_to (alookup k (subs sp));
  R_tl : forall k, alookup k (timeLeft s) = option_map (counter T) (alookup k (subs sp));
  R_rd : forall k, alookup k (readies s) = rd_of sp k }.

Lemma R_init T t0 : R T hinit (sinit T t0).
Proof. constructor; cbn; try constructor; try reflexivity; try discriminate. Qed.

Lemma alive_agree T s sp : 0 <= T -> R T s sp -> check_alive s = spec_alive T sp.
Proof.
  intros HT HR. unfold check_alive, spec_alive. apply bool_eq_iff.
  rewrite (forallb_alookup _ _ (R_nd_tl _ _ _ HR)), (forallb_alookup _ _ (R_nd_sb _ _ _ HR)).
  cbn [snd]. split.
  - intros H k sb Hl. rewrite <- (counter_zero T sb HT). apply (H k).
    rewrite (R_tl _ _ _ HR), Hl. reflexivity.
  - intros H k c Hl. rewrite (R_tl _ _ _ HR) in Hl.
    destruct (alookup k (subs sp)) as [sb|] eqn:L; cbn [option_map] in Hl; [|discriminate].
    injection Hl as <-. rewrite (counter_zero T sb HT). apply (H k). exact L.
Qed.

Lemma readies_nil_iff T s sp : R T s sp -> (readies s = [] <-> subs sp = [] /\ unreg sp = []).
Proof.
  intros HR. split.
  - intros E. assert (Hn : forall k, rd_of sp k = None).
    { intros k. rewrite <- (R_rd _ _ _ HR), E. reflexivity. }
    split.
    + apply alookup_nil_all. intros k. specialize (Hn k). unfold rd_of in Hn.
      destruct (alookup k (subs sp)); [discriminate|reflexivity].
    + destruct (unreg sp) as [|k l] eqn:U; [reflexivity|]. specialize (Hn k). unfold rd_of in Hn.
      rewrite U in Hn. cbn [mem_N] in Hn. rewrite N.eqb_refl in Hn. cbn [orb] in Hn.
      destruct (alookup k (subs sp)); discriminate.
  - intros [E1 E2]. apply alookup_nil_all. intros k. rewrite (R_rd _ _ _ HR). unfold rd_of.
    rewrite E1, E2. reflexivity.
Qed.

Lemma ready_agree T s sp : 0 <= T -> R T s sp -> check_ready s = spec_ready T sp.
Proof.
  intros HT HR. apply bool_eq_iff. unfold check_ready, spec_ready.
  pose proof (readies_nil_iff T s sp HR) as Hnil.
  destruct (readies s) as [|p rs] eqn:Erd.
  - destruct Hnil as [Hn _]. destruct (Hn eq_refl) as [E1 E2]. rewrite E1. cbn. split; discriminate.
  - rewrite <- Erd. rewrite !andb_true_iff.
    rewrite (forallb_alookup _ _ (R_nd_tl _ _ _ HR)), (forallb_alookup _ _ (R_nd_rd _ _ _ HR)),
            (forallb_alookup _ _ (R_nd_sb _ _ _ HR)).
    cbn [snd]. split.
    + intros [Hpos Hrd]. split; [split|].
      * destruct (subs sp) as [|q qs] eqn:Es; [|reflexivity]. exfalso.
        (* no registered subsystem: some key is in unreg with readies false *)
        destruct (unreg sp) as [|k l] eqn:U.
        { destruct Hnil as [_ Hn]. discriminate (Hn (conj eq_refl eq_refl)). }
        assert (Hk : alookup k (readies s) = Some false).
        { rewrite (R_rd _ _ _ HR). unfold rd_of. rewrite Es, U. cbn [alookup mem_N].
          rewrite N.eqb_refl. reflexivity. }
        specialize (Hrd k false Hk). discriminate.
      * destruct (unreg sp) as [|k l] eqn:U; [reflexivity|]. exfalso.
        assert (Hm : mem_N k (unreg sp) = true) by (rewrite U; cbn [mem_N]; rewrite N.eqb_refl; reflexivity).
        assert (Hk : alookup k (readies s) = Some false).
        { rewrite (R_rd _ _ _ HR). unfold rd_of. rewrite (R_disj _ _ _ HR k Hm), Hm. reflexivity. }
        specialize (Hrd k false Hk). discriminate.
      * intros k sb Hl. apply andb_true_iff. split.
        -- rewrite <- (counter_pos T sb HT). apply (Hpos k). rewrite (R_tl _ _ _ HR), Hl. reflexivity.
        -- apply (Hrd k). rewrite (R_rd _ _ _ HR). unfold rd_of. rewrite Hl. reflexivity.
    + intros [[_ Hu] Hall]. split.
      * intros k c Hl. rewrite (R_tl _ _ _ HR) in Hl.
        destruct (alookup k (subs sp)) as [sb|] eqn:L; cbn [option_map] in Hl; [|discriminate].
        injection Hl as <-. rewrite (counter_pos T sb HT).
        specialize (Hall k sb L). apply andb_true_iff in Hall. tauto.
      * intros k b Hl. rewrite (R_rd _ _ _ HR) in Hl. unfold rd_of in Hl.
        destruct (alookup k (subs sp)) as [sb|] eqn:L.
        -- injection Hl as <-. specialize (Hall k sb L). apply andb_true_iff in Hall. tauto.
        -- destruct (unreg sp); [cbn [mem_N] in Hl; discriminate Hl|discriminate Hu].
Qed.

Lemma step_refines T s sp o :
  0 <= T -> R T s sp ->
  snd (hstep T s o) = snd (sstep T sp o) /\ R T (fst (hstep T s o)) (fst (sstep T sp o)).
Proof.
  intros HT HR. destruct o as [k to|k|k b| |d| |]; cbn [hstep sstep].
  - (* Register *)
    split; [reflexivity|]. cbn [fst]. constructor; cbn [timeouts timeLeft readies subs unreg].
    + apply NoDup_akeys_aset, HR.
    + apply NoDup_akeys_aset, HR.
    + apply NoDup_akeys_aset, HR.
    + apply NoDup_akeys_aset, HR.
    + intros k' Hm. rewrite mem_N_nremove in Hm. destruct (N.eqb k' k) eqn:E; [discriminate|].
      apply N.eqb_neq in E. amap_simpl. apply (R_disj _ _ _ HR). exact Hm.
    + intros k'. destruct (N.eq_dec k' k) as [->|Hne]; amap_simpl; [reflexivity|apply HR].
    + intros k'. destruct (N.eq_dec k' k) as [->|Hne]; amap_simpl; [reflexivity|apply HR].
    + intros k'. unfold rd_of. cbn [subs unreg]. rewrite mem_N_nremove.
      destruct (N.eq_dec k' k) as [->|Hne]; amap_simpl; [reflexivity|].
      apply N.eqb_neq in Hne. rewrite Hne. apply N.eqb_neq in Hne. apply (R_rd _ _ _ HR).
  - (* Unregister *)
    split; [reflexivity|]. cbn [fst]. constructor; cbn [timeouts timeLeft readies subs unreg].
    + apply NoDup_akeys_aremove, HR.
    + apply NoDup_akeys_aremove, HR.
    + apply NoDup_akeys_aset, HR.
    + apply NoDup_akeys_aremove, HR.
    + intros k' Hm. cbn [mem_N] in Hm. rewrite mem_N_nremove in Hm.
      destruct (N.eq_dec k' k) as [->|Hne]; amap_simpl; [reflexivity|].
      apply N.eqb_neq in Hne. rewrite Hne in Hm. cbn [orb] in Hm. apply (R_disj _ _ _ HR). exact Hm.
    + intros k'. destruct (N.eq_dec k' k) as [->|Hne]; amap_simpl; [reflexivity|apply HR].
    + intros k'. destruct (N.eq_dec k' k) as [->|Hne]; amap_simpl; [reflexivity|apply HR].
    + intros k'. unfold rd_of. cbn [subs unreg mem_N]. rewrite mem_N_nremove.
      destruct (N.eq_dec k' k) as [->|Hne]; amap_simpl.
      * rewrite N.eqb_refl. reflexivity.
      * apply N.eqb_neq in Hne. rewrite Hne. cbn [orb]. apply (R_rd _ _ _ HR).
  - (* Ready *)
    rewrite (R_to _ _ _ HR). destruct (alookup k (subs sp)) as [sb|] eqn:L; cbn [option_map].
    2:{ split; [reflexivity|exact HR]. }
    split; [reflexivity|]. cbn [fst]. constructor; cbn [timeouts timeLeft readies subs unreg].
    + apply HR.
    + apply NoDup_akeys_aset, HR.
    + apply NoDup_akeys_aset, HR.
    + apply NoDup_akeys_aset, HR.
    + intros k' Hm. pose proof (R_disj _ _ _ HR k' Hm) as Hd.
      destruct (N.eq_dec k' k) as [->|Hne]; [congruence|]. amap_simpl. exact Hd.
    + intros k'. destruct (N.eq_dec k' k) as [->|Hne]; amap_simpl.
      * rewrite (R_to _ _ _ HR), L. reflexivity.
      * apply HR.
    + intros k'. destruct (N.eq_dec k' k) as [->|Hne]; amap_simpl; [|apply HR].
      cbn [option_map]. f_equal. unfold counter. cbn [s_to s_rep].
      destruct (Z.leb_spec (s_to sb) 0); [reflexivity|]. cbn [Z.of_N]. lia.
    + intros k'. unfold rd_of. cbn [subs unreg].
      destruct (N.eq_dec k' k) as [->|Hne]; amap_simpl; [reflexivity|].
      apply (R_rd _ _ _ HR).
  - (* Tick *)
    split; [reflexivity|]. cbn [fst]. constructor; cbn [timeouts timeLeft readies subs unreg].
    + apply HR.
    + unfold tick_all. rewrite akeys_mapv. apply HR.
    + apply HR.
    + rewrite akeys_mapv. apply HR.
    + intros k' Hm. rewrite alookup_mapv, (R_disj _ _ _ HR k' Hm). reflexivity.
    + intros k'. rewrite alookup_mapv, (R_to _ _ _ HR).
      destruct (alookup k' (subs sp)); reflexivity.
    + intros k'. unfold tick_all. rewrite !alookup_mapv, (R_tl _ _ _ HR).
      destruct (alookup k' (subs sp)) as [sb|]; cbn [option_map]; [|reflexivity].
      rewrite counter_tick by exact HT. reflexivity.
    + intros k'. unfold rd_of. cbn [subs unreg]. rewrite alookup_mapv, (R_rd _ _ _ HR). unfold rd_of.
      destruct (alookup k' (subs sp)) as [sb|]; cbn [option_map]; [|reflexivity].
      unfold flag_sub, tick_sub. cbn [s_rep]. destruct (s_rep sb) as [[[b n] r]|]; reflexivity.
  - (* Advance *)
    split; [reflexivity|]. cbn [fst]. destruct HR. constructor; assumption.
  - (* IsAlive *)
    split; [|exact HR]. cbn [snd]. f_equal. apply alive_agree; assumption.
  - (* IsReady *)
    split; [|exact HR]. cbn [snd]. f_equal. apply ready_agree; assumption.
Qed.

Lemma run_refines T ops : forall s sp,
  0 <= T -> R T s sp -> hrun T s ops = srun T sp ops /\ R T (hfinal T s ops) (sfinal T sp ops).
Proof.
  induction ops as [|o r IH]; intros s sp HT HR; cbn [hrun srun hfinal sfinal]; [split; [reflexivity|exact HR]|].
  destruct (step_refines T s sp o HT HR) as [Hout HR'].
  destruct (hstep T s o) as [s' out] eqn:E1. destruct (sstep T sp o) as [sp' out'] eqn:E2.
  cbn [fst snd] in *. subst out'. destruct (IH s' sp' HT HR') as [H1 H2].
  split; [f_equal; exact H1|exact H2].
Qed.

Theorem health_refines_spec T t0 ops :
  0 <= T -> hrun T hinit ops = srun T (sinit T t0) ops.
Proof. intros HT. apply run_refines; [exact HT|apply R_init]. Qed.

Lemma final_R T t0 ops : 0 <= T -> R T (hfinal T hinit ops) (sfinal T (sinit T t0) ops).
Proof. intros HT. apply run_refines; [exact HT|apply R_init]. Qed.

(* ---------- timing invariant of tick-periodic histories ---------- *)
Definition sub_timed (T : Z) (sp : hspec) (sb : sub) : Prop :=
  match s_rep sb with
  | Some (_, n, r) => r <= h_now sp /\ Z.of_N n * T <= h_nt sp - r /\ h_nt sp - r <= (Z.of_N n + 1) * T
  | None => True
  end.
Definition Inv (T : Z) (sp : hspec) : Prop :=
  h_now sp <= h_nt sp /\ h_nt sp <= h_now sp + T /\
  NoDup (akeys (subs sp)) /\
  forall k sb, alookup k (subs sp) = Some sb -> sub_timed T sp sb.

Lemma Inv_init T t0 : 0 <= T -> Inv T (sinit T t0).
Proof. intros HT. unfold Inv, sinit. cbn. repeat split; try lia; [constructor|discriminate]. Qed.

Lemma Inv_step T sp o : 0 <= T -> op_wf sp o = true -> Inv T sp -> Inv T (fst (sstep T sp o)).
Proof.
  intros HT Hwf (H1 & H2 & Hnd & Hs).
  destruct o as [k to|k|k b| |d| |]; cbn [sstep fst op_wf] in *.
  - unfold Inv. cbn [h_now h_nt subs]. repeat split; try assumption; [apply NoDup_akeys_aset; exact Hnd|].
    intros k' sb. destruct (N.eq_dec k' k) as [->|Hne]; amap_simpl.
    + intros [= <-]. exact I.
    + intros Hl. apply (Hs k' sb Hl).
  - unfold Inv. cbn [h_now h_nt subs]. repeat split; try assumption; [apply NoDup_akeys_aremove; exact Hnd|].
    intros k' sb. destruct (N.eq_dec k' k) as [->|Hne]; amap_simpl; [discriminate|].
    intros Hl. apply (Hs k' sb Hl).
  - destruct (alookup k (subs sp)) as [sb0|] eqn:L; cbn [fst]; [|unfold Inv; auto].
    unfold Inv. cbn [h_now h_nt subs]. repeat split; try assumption; [apply NoDup_akeys_aset; exact Hnd|].
    intros k' sb. destruct (N.eq_dec k' k) as [->|Hne]; amap_simpl.
    + intros [= <-]. unfold sub_timed. cbn [s_rep h_now h_nt Z.of_N]. lia.
    + intros Hl. apply (Hs k' sb Hl).
  - apply Z.eqb_eq in Hwf. unfold Inv. cbn [h_now h_nt subs].
    repeat split; try lia; [rewrite akeys_mapv; exact Hnd|].
    intros k' sb. rewrite alookup_mapv. destruct (alookup k' (subs sp)) as [sb0|] eqn:L; cbn [option_map]; [|discriminate].
    intros [= <-]. specialize (Hs k' sb0 L). unfold sub_timed, tick_sub in *. cbn [s_rep h_now h_nt].
    destruct (s_rep sb0) as [[[b n] r]|]; [|exact I]. rewrite N2Z.inj_succ. lia.
  - apply andb_true_iff in Hwf. destruct Hwf as [Hd Hle]. apply Z.leb_le in Hd, Hle.
    unfold Inv. cbn [h_now h_nt subs]. repeat split; try lia; [exact Hnd|].
    intros k' sb Hl. specialize (Hs k' sb Hl). unfold sub_timed in *. cbn [h_now h_nt].
    destruct (s_rep sb) as [[[b n] r]|]; [lia|exact I].
  - unfold Inv; auto.
  - unfold Inv; auto.
Qed.

Lemma Inv_run T ops : forall sp, 0 <= T -> wf_from T sp ops = true -> Inv T sp -> Inv T (sfinal T sp ops).
Proof.
  induction ops as [|o r IH]; intros sp HT Hwf HI; cbn [sfinal wf_from] in *; [exact HI|].
  apply andb_true_iff in Hwf. destruct Hwf as [Ho Hr].
  apply IH; [exact HT|exact Hr|apply Inv_step; assumption].
Qed.

(* a subsystem whose latest report is less than timeout - T old has time left *)
Lemma timed_fresh T sp k sb b n r :
  Inv T sp -> alookup k (subs sp) = Some sb -> s_rep sb = Some (b, n, r) ->
  h_now sp - r < s_to sb - T -> fresh_sub T sb = true /\ dead_sub T sb = false.
Proof.
  intros (H1 & H2 & _ & Hs) Hl Hr Hgap. specialize (Hs k sb Hl). unfold sub_timed in Hs. rewrite Hr in Hs.
  unfold fresh_sub, dead_sub. rewrite Hr. split.
  - apply Z.ltb_lt. lia.
  - apply andb_false_iff. right. apply Z.leb_gt. lia.
Qed.

(* one whose latest report is more than timeout + T old has none *)
Lemma timed_dead T sp k sb b n r :
  Inv T sp -> alookup k (subs sp) = Some sb -> s_rep sb = Some (b, n, r) ->
  0 <= s_to sb -> h_now sp - r > s_to sb + T -> dead_sub T sb = true /\ fresh_sub T sb = false.
Proof.
  intros (H1 & H2 & _ & Hs) Hl Hr Hto Hgap. specialize (Hs k sb Hl). unfold sub_timed in Hs. rewrite Hr in Hs.
  unfold fresh_sub, dead_sub. rewrite Hr. split.
  - apply andb_true_iff. split; apply Z.leb_le; lia.
  - apply Z.ltb_ge. lia.
Qed.

(* ---------- the property, on the implementation model ---------- *)
Section Final.
  Variables (T t0 : Z) (ops : list hop).
  Hypothesis HT : 0 <= T.
  Hypothesis Hwf : wf T t0 ops = true.
  Let s := hfinal T hinit ops.
  Let sp := sfinal T (sinit T t0) ops.

  Lemma final_Inv : Inv T sp.
  Proof. apply Inv_run; [exact HT|exact Hwf|apply Inv_init; exact HT]. Qed.

  Theorem never_dead_sub k sb b n r :
    alookup k (subs sp) = Some sb -> s_rep sb = Some (b, n, r) ->
    h_now sp - r < s_to sb - T ->
    exists c, alookup k (timeLeft s) = Some c /\ 0 < c.
  Proof.
    intros Hl Hr Hgap. pose proof (final_R T t0 ops HT) as HR. fold s sp in HR.
    exists (counter T sb). split; [rewrite (R_tl _ _ _ HR), Hl; reflexivity|].
    apply Z.ltb_lt. rewrite counter_pos by exact HT.
    apply (timed_fresh T sp k sb b n r final_Inv Hl Hr Hgap).
  Qed.

  Theorem never_dead :
    (forall k sb b n r, alookup k (subs sp) = Some sb -> s_rep sb = Some (b, n, r) ->
                        h_now sp - r < s_to sb - T) ->
    check_alive s = true.
  Proof.
    intros Hall. pose proof (final_R T t0 ops HT) as HR. fold s sp in HR.
    rewrite (alive_agree T s sp HT HR). unfold spec_alive.
    apply (forallb_alookup _ _ (R_nd_sb _ _ _ HR)). intros k sb Hl. cbn [snd].
    destruct (s_rep sb) as [[[b n] r]|] eqn:Hr.
    - destruct (timed_fresh T sp k sb b n r final_Inv Hl Hr (Hall k sb b n r Hl Hr)) as [_ Hd].
      rewrite Hd. reflexivity.
    - unfold dead_sub. rewrite Hr. reflexivity.
  Qed.

  Theorem dead_after k sb b n r :
    alookup k (subs sp) = Some sb -> s_rep sb = Some (b, n, r) ->
    0 <= s_to sb -> h_now sp - r > s_to sb + T ->
    alookup k (timeLeft s) = Some 0 /\ check_alive s = false /\ check_ready s = false.
  Proof.
    intros Hl Hr Hto Hgap. pose proof (final_R T t0 ops HT) as HR. fold s sp in HR.
    destruct (timed_dead T sp k sb b n r final_Inv Hl Hr Hto Hgap) as [Hd Hf].
    split; [|split].
    - rewrite (R_tl _ _ _ HR), Hl. cbn [option_map]. f_equal. apply Z.eqb_eq.
      rewrite counter_zero by exact HT. exact Hd.
    - rewrite (alive_agree T s sp HT HR). unfold spec_alive.
      destruct (forallb _ (subs sp)) eqn:F; [|reflexivity].
      apply (forallb_alookup _ _ (R_nd_sb _ _ _ HR)) with (k := k) (v := sb) in F; [|exact Hl].
      cbn [snd] in F. rewrite Hd in F. discriminate.
    - rewrite (ready_agree T s sp HT HR). unfold spec_ready.
      destruct (forallb _ (subs sp)) eqn:F; [|apply andb_false_r].
      apply (forallb_alookup _ _ (R_nd_sb _ _ _ HR)) with (k := k) (v := sb) in F; [|exact Hl].
      cbn [snd] in F. rewrite Hf in F. discriminate.
  Qed.

  (* readiness, in terms of the history-level specification state *)
  Theorem ready_iff :
    check_ready s = true <->
    (subs sp <> [] /\ unreg sp = [] /\
     forall k sb, alookup k (subs sp) = Some sb ->
       exists b n r, s_rep sb = Some (b, n, r) /\ b = true /\ Z.of_N n * T < s_to sb).
  Proof.
    pose proof (final_R T t0 ops HT) as HR. fold s sp in HR.
    rewrite (ready_agree T s sp HT HR). unfold spec_ready.
    rewrite !andb_true_iff, (forallb_alookup _ _ (R_nd_sb _ _ _ HR)). cbn [snd].
    split.
    - intros [[Hs Hu] Hall]. split; [|split].
      + destruct (subs sp); [discriminate|discriminate].
      + destruct (unreg sp); [reflexivity|discriminate].
      + intros k sb Hl. specialize (Hall k sb Hl). apply andb_true_iff in Hall.
        destruct Hall as [Hf Hb]. unfold fresh_sub, flag_sub in *.
        destruct (s_rep sb) as [[[b n] r]|]; [|discriminate].
        exists b, n, r. split; [reflexivity|]. split; [exact Hb|apply Z.ltb_lt; exact Hf].
    - intros (Hs & Hu & Hall). split; [split|].
      + destruct (subs sp); [congruence|reflexivity].
      + rewrite Hu. reflexivity.
      + intros k sb Hl. destruct (Hall k sb Hl) as (b & n & r & Hr & Hb & Hlt).
        unfold fresh_sub, flag_sub. rewrite Hr. apply andb_true_iff. split; [apply Z.ltb_lt; exact Hlt|exact Hb].
  Qed.

  (* ready as soon as every registered subsystem's latest report said ready and is recent *)
  Theorem ready_when_fresh :
    subs sp <> [] -> unreg sp = [] ->
    (forall k sb, alookup k (subs sp) = Some sb ->
       exists n r, s_rep sb = Some (true, n, r) /\ h_now sp - r < s_to sb - T) ->
    check_ready s = true.
  Proof.
    intros Hs Hu Hall. apply ready_iff. split; [exact Hs|]. split; [exact Hu|].
    intros k sb Hl. destruct (Hall k sb Hl) as (n & r & Hr & Hgap).
    exists true, n, r. split; [exact Hr|]. split; [reflexivity|].
    destruct (timed_fresh T sp k sb true n r final_Inv Hl Hr Hgap) as [Hf _].
    unfold fresh_sub in Hf. rewrite Hr in Hf. apply Z.ltb_lt. exact Hf.
  Qed.
End Final.

(* ---------- the specification state means what its field names say ---------- *)
(* ops that leave subsystem k alone *)
Definition touches (k : N) (o : hop) : bool :=
  match o with HReg k' _ | HUnreg k' | HReady k' _ => N.eqb k k' | _ => false end.
Fixpoint nticks (ops : list hop) : N :=
  match ops with [] => 0%N | HTick :: r => N.succ (nticks r) | _ :: r => nticks r end.
Fixpoint elapsed (ops : list hop) : Z :=
  match ops with [] => 0 | HAdv d :: r => d + elapsed r | _ :: r => elapsed r end.

Lemma spec_untouched_step T k o sp to b n r :
  touches k o = false ->
  alookup k (subs sp) = Some {| s_to := to; s_rep := Some (b, n, r) |} ->
  alookup k (subs (fst (sstep T sp o))) =
    Some {| s_to := to; s_rep := Some (b, (n + nticks [o])%N, r) |} /\
  h_now (fst (sstep T sp o)) = h_now sp + elapsed [o].
Proof.
  intros Ho Hl.
  destruct o as [k' to'|k'|k' b'| |d| |]; cbn [touches] in Ho; cbn [sstep fst nticks elapsed subs h_now];
    rewrite ?N.add_0_r, ?Z.add_0_r; try (split; [exact Hl|reflexivity]).
  - apply N.eqb_neq in Ho. amap_simpl. split; [exact Hl|reflexivity].
  - apply N.eqb_neq in Ho. amap_simpl. split; [exact Hl|reflexivity].
  - apply N.eqb_neq in Ho. destruct (alookup k' (subs sp)) as [sb|] eqn:L; cbn [fst subs h_now].
    + amap_simpl. split; [exact Hl|reflexivity].
    + split; [exact Hl|reflexivity].
  - rewrite alookup_mapv, Hl. cbn [option_map tick_sub s_to s_rep]. split; [|reflexivity].
    replace (n + N.succ 0)%N with (N.succ n) by lia. reflexivity.
Qed.

Lemma spec_untouched T k : forall ops sp to b n r,
  existsb (touches k) ops = false ->
  alookup k (subs sp) = Some {| s_to := to; s_rep := Some (b, n, r) |} ->
  alookup k (subs (sfinal T sp ops)) = Some {| s_to := to; s_rep := Some (b, (n + nticks ops)%N, r) |} /\
  h_now (sfinal T sp ops) = h_now sp + elapsed ops.
Proof.
  induction ops as [|o rest IH]; intros sp to b n r Hex Hl.
  - cbn [sfinal nticks elapsed]. rewrite N.add_0_r. split; [exact Hl|lia].
  - cbn [existsb] in Hex. apply orb_false_iff in Hex. destruct Hex as [Ho Hrest].
    destruct (spec_untouched_step T k o sp to b n r Ho Hl) as [A B].
    destruct (IH _ to b (n + nticks [o])%N r Hrest A) as [A' B'].
    cbn [sfinal]. split.
    + rewrite A'. replace (n + nticks [o] + nticks rest)%N with (n + nticks (o :: rest))%N; [reflexivity|].
      destruct o; cbn [nticks]; lia.
    + rewrite B', B. destruct o; cbn [elapsed]; lia.
Qed.

(* after [pre ++ HReady k b :: post] with k registered (timeout to) before the report and left
   alone in post: the specification holds exactly that report, the ticks since, and its instant. *)
Theorem spec_last_report T t0 pre post k b sb :
  alookup k (subs (sfinal T (sinit T t0) pre)) = Some sb ->
  existsb (touches k) post = false ->
  let sp := sfinal T (sinit T t0) (pre ++ HReady k b :: post) in
  alookup k (subs sp) =
    Some {| s_to := s_to sb; s_rep := Some (b, nticks post, h_now (sfinal T (sinit T t0) pre)) |} /\
  h_now sp - h_now (sfinal T (sinit T t0) pre) = elapsed post.
Proof.
  intros Hl Hpost sp.
  assert (Happ : forall ops1 ops2 sp0, sfinal T sp0 (ops1 ++ ops2) = sfinal T (sfinal T sp0 ops1) ops2).
  { induction ops1 as [|o r IH]; intros ops2 sp0; cbn [app sfinal]; [reflexivity|apply IH]. }
  subst sp. rewrite Happ. cbn [sfinal sstep]. rewrite Hl. cbn [fst].
  set (sp1 := sfinal T (sinit T t0) pre) in *.
  destruct (spec_untouched T k post
              {| h_now := h_now sp1; h_nt := h_nt sp1;
                 subs := aset k {| s_to := s_to sb; s_rep := Some (b, 0%N, h_now sp1) |} (subs sp1);
                 unreg := unreg sp1 |} (s_to sb) b 0%N (h_now sp1) Hpost) as [A B].
  { cbn [subs]. amap_simpl. reflexivity. }
  split; [rewrite A; rewrite N.add_0_l; reflexivity|rewrite B; cbn [h_now]; lia].
Qed.
