(* Proofs about Model/Determ.v (C10). *)
From Refinery Require Import Lib.Base Model.Determ.
From Refinery Require Gen.GenC10.
From Coq Require Import ZifyN ZifyBool.

(* ---------- what the translator must have found in the source ----------
   If an edit to deterministic.go / stressRelief.go changes any of these, this lemma stops
   compiling and every theorem below is undischarged. *)
Lemma gen_det_ok :
  GenC10.det_max = 4294967295 /\ GenC10.det_conv_bits = 32 /\ GenC10.det_always_le = 1 /\
  GenC10.det_start_guards_wide_rates = true /\
  GenC10.det_cmp_le = true /\ GenC10.det_hash_bytes = 4 /\
  GenC10.det_rate_from_config = true /\ GenC10.det_returns_rate = true /\
  GenC10.det_hash_of_traceid_and_salt = true /\
  GenC10.det_max = DET_MAX /\ GenC10.det_conv_bits = DET_BITS /\ GenC10.det_always_le = DET_ALWAYS /\
  GenC10.det_cmp_le = DET_LE /\ GenC10.det_hash_bytes = DET_HASH_BYTES /\ GenC10.det_salt = DET_SALT.
Proof. repeat split; reflexivity. Qed.

Lemma gen_stress_ok :
  GenC10.stress_max = 18446744073709551615 /\ GenC10.stress_zero_becomes = 1 /\
  GenC10.stress_always_le = 1 /\ GenC10.stress_cmp_le = true /\
  GenC10.stress_bound_is_quotient = true /\ GenC10.stress_hash_of_traceid_and_seed = true /\
  GenC10.stress_max = STRESS_MAX /\ GenC10.stress_zero_becomes = STRESS_ZERO /\
  GenC10.stress_always_le = STRESS_ALWAYS /\ GenC10.stress_cmp_le = STRESS_LE /\ GenC10.stress_seed = STRESS_SEED.
Proof. repeat split; reflexivity. Qed.

(* the numerator is the largest hash value: hashes are det_hash_bytes bytes wide *)
Lemma det_max_is_top : DET_MAX = det_hash_range - 1.
Proof. reflexivity. Qed.
Lemma stress_max_is_top : STRESS_MAX = stress_hash_range - 1.
Proof. reflexivity. Qed.

(* ---------- threshold arithmetic, generic ---------- *)
Lemma thr_iff MAX r h : 0 < r -> (h <=? MAX / r) = (h * r <=? MAX).
Proof.
  intros Hr. apply eq_true_iff_eq. rewrite !Z.leb_le. split; intros H.
  - pose proof (Z.mul_div_le MAX r Hr) as H1.
    assert (h * r <= MAX / r * r) as H2 by (apply Z.mul_le_mono_nonneg_r; lia). lia.
  - apply Z.div_le_lower_bound; [exact Hr|]. lia.
Qed.

Lemma spec_nested MAX m n h :
  0 <= h -> m <= n -> spec_keep MAX n h = true -> spec_keep MAX m h = true.
Proof.
  unfold spec_keep. intros Hh Hmn H.
  apply orb_true_iff in H. apply orb_true_iff.
  destruct H as [H|H].
  - left. apply Z.leb_le in H. apply Z.leb_le. lia.
  - right. apply Z.leb_le in H. apply Z.leb_le.
    assert (h * m <= h * n) by (apply Z.mul_le_mono_nonneg_l; lia). lia.
Qed.

(* ---------- counting ---------- *)
Lemma countN_succ P n :
  countN P (N.succ n) = if P (Z.of_N n) then countN P n + 1 else countN P n.
Proof. unfold countN. rewrite N.peano_rect_succ. reflexivity. Qed.

Lemma countN_ext P Q n :
  (forall k, 0 <= k < Z.of_N n -> P k = Q k) -> countN P n = countN Q n.
Proof.
  induction n as [|n IH] using N.peano_ind; intros H; [reflexivity|].
  rewrite !countN_succ. rewrite (H (Z.of_N n)) by lia.
  rewrite IH; [reflexivity|]. intros k Hk. apply H. lia.
Qed.

Lemma countN_le b n : -1 <= b -> countN (fun h => h <=? b) n = Z.min (Z.of_N n) (b + 1).
Proof.
  intros Hb. induction n as [|n IH] using N.peano_ind; [cbn; lia|].
  rewrite countN_succ, IH.
  destruct (Z.of_N n <=? b) eqn:E; [apply Z.leb_le in E|apply Z.leb_gt in E]; lia.
Qed.

(* number of hashes below a 1/rate threshold, and how close it is to range/rate *)
Lemma count_threshold MAX rate :
  0 <= MAX -> 1 <= rate ->
  let kept := countN (fun h => h <=? MAX / rate) (Z.to_N (MAX + 1)) in
  kept = MAX / rate + 1 /\ MAX + 1 <= rate * kept <= MAX + rate.
Proof.
  intros HM Hr kept. subst kept.
  assert (0 <= MAX / rate) as Hq by (apply Z.div_pos; lia).
  assert (MAX / rate <= MAX) as Hq2 by (apply Z.div_le_upper_bound; nia).
  rewrite countN_le by lia. rewrite Z2N.id by lia.
  split; [lia|].
  rewrite Z.min_r by lia.
  pose proof (Z.div_mod MAX rate ltac:(lia)) as Hdm.
  pose proof (Z.mod_pos_bound MAX rate ltac:(lia)) as Hmb.
  nia.
Qed.

(* ---------- deterministic sampler ---------- *)
Lemma det_start_in_range rate :
  1 <= rate < 4294967296 ->
  det_start rate = Some {| d_rate := rate; d_bound := 4294967295 / rate |}.
Proof.
  intros Hr. unfold det_start, det_bound, gen_bound, conv_u.
  change DET_BITS with 32. change DET_MAX with 4294967295.
  change (2 ^ 32) with 4294967296. rewrite !Z.mod_small by lia.
  destruct (4294967295 <? rate) eqn:E0; [apply Z.ltb_lt in E0; lia|].
  destruct (1 <? rate) eqn:E1.
  - destruct (rate =? 0) eqn:E; [apply Z.eqb_eq in E; lia|reflexivity].
  - apply Z.ltb_ge in E1. assert (rate = 1) as -> by lia. reflexivity.
Qed.

Lemma det_sample_in_range rate h :
  1 <= rate < 4294967296 ->
  det_sample rate h = Some (if rate <=? 1 then 1 else rate, spec_keep DET_MAX rate h).
Proof.
  intros Hr. unfold det_sample. rewrite det_start_in_range by exact Hr.
  unfold det_get, gen_get, spec_keep, thr_cmp. cbn [d_rate d_bound].
  change DET_ALWAYS with 1. change DET_LE with true.
  change DET_MAX with 4294967295.
  destruct (rate <=? 1) eqn:E; [reflexivity|].
  cbn [orb]. rewrite thr_iff by lia. reflexivity.
Qed.

Lemma det_keep_in_range rate h :
  1 <= rate < 4294967296 -> det_keep rate h = spec_keep DET_MAX rate h.
Proof. intros Hr. unfold det_keep. rewrite det_sample_in_range by exact Hr. reflexivity. Qed.

Lemma det_total_in_range rate h : 1 <= rate < 4294967296 -> det_sample rate h <> None.
Proof. intros Hr. rewrite det_sample_in_range by exact Hr. discriminate. Qed.

(* rate <= 1 (any Go int): if Start survives, everything is kept at rate 1 *)
Lemma det_le1_keeps rate h r k :
  rate <= 1 -> det_sample rate h = Some (r, k) -> r = 1 /\ k = true.
Proof.
  intros Hr. unfold det_sample. destruct (det_start rate) as [i|] eqn:S; [|discriminate].
  unfold det_start in S. destruct (det_bound _ _ rate) as [b|]; [|discriminate].
  injection S as <-. unfold det_get, gen_get. cbn [d_rate d_bound].
  change DET_ALWAYS with 1.
  destruct (rate <=? 1) eqn:E; [|apply Z.leb_gt in E; lia].
  intros [= <- <-]. split; reflexivity.
Qed.

Lemma det_one_keeps h : det_sample 1 h = Some (1, true).
Proof. rewrite det_sample_in_range by lia. reflexivity. Qed.

Lemma det_nested m n h :
  1 <= m -> m <= n -> n < 4294967296 -> 0 <= h ->
  det_keep n h = true -> det_keep m h = true.
Proof.
  intros Hm Hmn Hn Hh. rewrite !det_keep_in_range by lia. apply spec_nested; assumption.
Qed.

(* any two instances started from the same configured rate answer alike *)
Lemma det_instances_agree rate i1 i2 h :
  det_start rate = Some i1 -> det_start rate = Some i2 -> det_get i1 h = det_get i2 h.
Proof. intros H1 H2. rewrite H1 in H2. injection H2 as <-. reflexivity. Qed.

Lemma det_keep_as_bound rate h :
  1 <= rate < 4294967296 -> 0 <= h < det_hash_range ->
  det_keep rate h = (h <=? DET_MAX / rate).
Proof.
  intros Hr Hh. rewrite det_keep_in_range by exact Hr. unfold spec_keep.
  rewrite thr_iff by lia.
  destruct (rate <=? 1) eqn:E; [|reflexivity].
  apply Z.leb_le in E. assert (rate = 1) as -> by lia. cbn [orb].
  symmetry. apply Z.leb_le. change det_hash_range with 4294967296 in Hh.
  change DET_MAX with 4294967295. lia.
Qed.

Lemma det_fraction rate :
  1 <= rate < 4294967296 ->
  let kept := countN (det_keep rate) (Z.to_N det_hash_range) in
  kept = DET_MAX / rate + 1 /\
  det_hash_range <= rate * kept <= det_hash_range + rate - 1.
Proof.
  intros Hr kept. subst kept.
  rewrite (countN_ext (det_keep rate) (fun h => h <=? DET_MAX / rate)).
  2:{ intros k Hk. apply det_keep_as_bound; [exact Hr|].
      change det_hash_range with 4294967296 in *. lia. }
  pose proof (count_threshold DET_MAX rate) as H.
  change DET_MAX with 4294967295 in *. change det_hash_range with 4294967296.
  change (4294967295 + 1) with 4294967296 in H.
  specialize (H ltac:(lia) ltac:(lia)). cbv zeta in H. lia.
Qed.

(* Start never panics, for every Go int: the division only happens for 1 < rate <= 2^32-1 *)
Lemma det_start_total rate :
  -9223372036854775808 <= rate < 9223372036854775808 -> det_start rate <> None.
Proof.
  intros Hr. unfold det_start, det_bound, gen_bound, conv_u.
  change DET_BITS with 32. change DET_MAX with 4294967295.
  change (2 ^ 32) with 4294967296.
  destruct (4294967295 <? rate mod 18446744073709551616) eqn:E0; [discriminate|].
  destruct (1 <? rate) eqn:E1; [|discriminate].
  apply Z.ltb_ge in E0. apply Z.ltb_lt in E1.
  rewrite Z.mod_small in E0 by lia. rewrite Z.mod_small by lia.
  destruct (rate =? 0) eqn:E; [apply Z.eqb_eq in E; lia|discriminate].
Qed.

(* rates that do not fit in 32 bits (outside C10's range): bound 0, only hash 0 is kept *)
Lemma det_big_rate rate h :
  4294967296 <= rate < 9223372036854775808 ->
  det_sample rate h = Some (rate, h <=? 0).
Proof.
  intros Hr. unfold det_sample, det_start, det_bound.
  change DET_MAX with 4294967295. rewrite Z.mod_small by lia.
  destruct (4294967295 <? rate) eqn:E0; [|apply Z.ltb_ge in E0; lia].
  unfold det_get, gen_get, thr_cmp. cbn [d_rate d_bound].
  change DET_ALWAYS with 1. change DET_LE with true.
  destruct (rate <=? 1) eqn:E; [apply Z.leb_le in E; lia|reflexivity].
Qed.

(* ---------- stress relief ---------- *)
Lemma stress_sample_spec cfg h :
  0 <= cfg < 18446744073709551616 ->
  stress_sample cfg h = (if cfg <=? 1 then 1 else cfg, spec_keep STRESS_MAX cfg h).
Proof.
  intros Hc. unfold stress_sample, stress_update, stress_get, gen_get, spec_keep, thr_cmp.
  change STRESS_ZERO with 1. change STRESS_ALWAYS with 1.
  change STRESS_LE with true. change STRESS_MAX with 18446744073709551615.
  destruct (cfg =? 0) eqn:E0.
  - apply Z.eqb_eq in E0. subst cfg. reflexivity.
  - apply Z.eqb_neq in E0. cbn [s_rate s_bound].
    destruct (cfg <=? 1) eqn:E; [reflexivity|].
    cbn [orb]. rewrite thr_iff by lia. reflexivity.
Qed.

Lemma stress_le1_keeps cfg h : 0 <= cfg <= 1 -> stress_sample cfg h = (1, true).
Proof.
  intros Hc. rewrite stress_sample_spec by lia. unfold spec_keep.
  destruct (cfg <=? 1) eqn:E; [reflexivity|apply Z.leb_gt in E; lia].
Qed.

Lemma stress_nested m n h :
  0 <= m -> m <= n -> n < 18446744073709551616 -> 0 <= h ->
  stress_keep n h = true -> stress_keep m h = true.
Proof.
  intros Hm Hmn Hn Hh. unfold stress_keep. rewrite !stress_sample_spec by lia.
  cbn [snd]. apply spec_nested; assumption.
Qed.

Lemma stress_keep_as_bound cfg h :
  1 <= cfg < 18446744073709551616 -> 0 <= h < stress_hash_range ->
  stress_keep cfg h = (h <=? STRESS_MAX / cfg).
Proof.
  intros Hr Hh. unfold stress_keep. rewrite stress_sample_spec by lia. cbn [snd].
  unfold spec_keep. rewrite thr_iff by lia.
  destruct (cfg <=? 1) eqn:E; [|reflexivity].
  apply Z.leb_le in E. assert (cfg = 1) as -> by lia. cbn [orb].
  symmetry. apply Z.leb_le. change stress_hash_range with 18446744073709551616 in Hh.
  change STRESS_MAX with 18446744073709551615. lia.
Qed.

Lemma stress_fraction cfg :
  1 <= cfg < 18446744073709551616 ->
  let kept := countN (stress_keep cfg) (Z.to_N stress_hash_range) in
  kept = STRESS_MAX / cfg + 1 /\
  stress_hash_range <= cfg * kept <= stress_hash_range + cfg - 1.
Proof.
  intros Hr kept. subst kept.
  rewrite (countN_ext (stress_keep cfg) (fun h => h <=? STRESS_MAX / cfg)).
  2:{ intros k Hk. apply stress_keep_as_bound; [exact Hr|].
      change stress_hash_range with 18446744073709551616 in *. lia. }
  pose proof (count_threshold STRESS_MAX cfg) as H.
  change STRESS_MAX with 18446744073709551615 in *.
  change stress_hash_range with 18446744073709551616.
  change (18446744073709551615 + 1) with 18446744073709551616 in H.
  specialize (H ltac:(lia) ltac:(lia)). cbv zeta in H. lia.
Qed.
