(* Timing (C03), liveness (C02) and ejection (C07) facts about the worker model:
   the deadline formula, what a tick takes and why, what an ejection takes and why. *)
From Refinery Require Import Lib.Base Model.Collector Proofs.CollectorAbs Proofs.CollectorRef.

(* ---------- amap helpers (membership through aremove) ---------- *)
Lemma In_aremove {V} (kv : N * V) t (b : amap V) : In kv (aremove t b) <-> In kv b /\ fst kv <> t.
Proof.
  induction b as [|[k v] r IH]; cbn [aremove In]; [tauto|].
  destruct (N.eqb t k) eqn:E.
  - apply N.eqb_eq in E. subst k. rewrite IH. split.
    + intros [H1 H2]. split; [right; exact H1|exact H2].
    + intros [[H1|H1] H2]; [subst kv; cbn in H2; congruence|split; assumption].
  - apply N.eqb_neq in E. cbn [In]. rewrite IH. split.
    + intros [H|[H1 H2]]; [subst kv; cbn; split; [left; reflexivity|congruence]|split; [right; exact H1|exact H2]].
    + intros [[H1|H1] H2]; [left; exact H1|right; split; assumption].
Qed.

Definition remove_all {V} (keys : list N) (b : amap V) : amap V := fold_left (fun m t => aremove t m) keys b.

Lemma In_remove_all {V} keys : forall (b : amap V) kv, In kv (remove_all keys b) <-> In kv b /\ ~ In (fst kv) keys.
Proof.
  induction keys as [|t r IH]; intros b kv; cbn [remove_all fold_left In]; [tauto|].
  change (fold_left (fun m t0 => aremove t0 m) r (aremove t b)) with (remove_all r (aremove t b)).
  rewrite IH, In_aremove. split.
  - intros [[H1 H2] H3]. split; [exact H1|]. intros [F|F]; [congruence|contradiction].
  - intros [H1 H2]. split; [split; [exact H1|intros F; apply H2; left; congruence]|intros F; apply H2; right; exact F].
Qed.

Lemma alookup_remove_all_notin {V} keys : forall (b : amap V) t, ~ In t keys -> alookup t (remove_all keys b) = alookup t b.
Proof.
  induction keys as [|k r IH]; intros b t Hn; cbn [remove_all fold_left]; [reflexivity|].
  change (fold_left (fun m t0 => aremove t0 m) r (aremove k b)) with (remove_all r (aremove k b)).
  rewrite IH by (intros F; apply Hn; right; exact F).
  apply alookup_aremove_neq. intros ->. apply Hn. left; reflexivity.
Qed.

Lemma NoDup_remove_all {V} keys : forall (b : amap V), NoDup (akeys b) -> NoDup (akeys (remove_all keys b)).
Proof.
  induction keys as [|k r IH]; intros b H; cbn [remove_all fold_left]; [exact H|].
  apply IH. apply NoDup_akeys_aremove. exact H.
Qed.

Lemma forallb_In {A} (p : A -> bool) l : forallb p l = true <-> forall x, In x l -> p x = true.
Proof. apply forallb_forall. Qed.

Lemma length_aremove_NoDup {V} t (b : amap V) v :
  NoDup (akeys b) -> alookup t b = Some v -> S (length (aremove t b)) = length b.
Proof.
  induction b as [|[k x] r IH]; cbn [akeys map fst alookup aremove length]; intros Hnd Hl; [discriminate|].
  inversion Hnd as [|? ? Hn Hr]; subst. destruct (N.eqb t k) eqn:E.
  - apply N.eqb_eq in E. subst k. f_equal.
    assert (Hnone : alookup t r = None).
    { destruct (alookup t r) eqn:L; [|reflexivity]. exfalso. apply Hn. apply In_akeys_alookup. congruence. }
    clear - Hnone. induction r as [|[k x] r IH]; [reflexivity|]. cbn [alookup aremove] in *.
    destruct (N.eqb t k); [discriminate|]. cbn [length]. f_equal. apply IH; exact Hnone.
  - cbn [length]. f_equal. apply IH; assumption.
Qed.

Section Time.
  Variable sampler : N -> list span -> bool.
  Variable dry : bool.
  Notation decide_one := (decide_one sampler dry).
  Notation decide_list := (decide_list sampler dry).
  Notation step_tick := (step_tick sampler dry).
  Notation step_eject := (step_eject sampler dry).
  Notation step := (step sampler dry).
  Notation step_total := (step_total sampler dry).
  Notation run := (run sampler dry).

  (* ================= deadlines ================= *)
  (* candidates contributed by the arrivals of a trace that already holds k spans *)
  Fixpoint cands (c : cfg) (k : nat) (l : list (Z * span)) : list Z :=
    match l with
    | [] => []
    | (now, s) :: r =>
        (if over_limit c (Z.of_nat (S k)) then [now]
         else if s_root s then [now + eff_sd c] else []) ++ cands c (S k) r
    end.
  Definition arrive (c : cfg) (tr : trace) (a : Z * span) : trace := add_span c (fst a) tr (snd a).

  Lemma min_if (a b : Z) : (if b <? a then b else a) = Z.min a b.
  Proof.
    destruct (Z.ltb_spec b a) as [H|H]; [rewrite Z.min_r; [reflexivity|]|rewrite Z.min_l; [reflexivity|]].
    - apply Z.lt_le_incl. exact H.
    - exact H.
  Qed.

  Lemma add_span_sendby c now tr s :
    t_sendby (add_span c now tr s) =
    fold_left Z.min (cands c (length (t_spans tr)) [(now, s)]) (t_sendby tr).
  Proof.
    unfold add_span. cbn [t_sendby cands length app].
    destruct (over_limit c (Z.of_nat (S (length (t_spans tr))))) eqn:L; cbn [app fold_left orb].
    - rewrite orb_true_r. cbn [andb]. rewrite Z.add_0_r. apply min_if.
    - rewrite orb_false_r. destruct (s_root s); cbn [andb app fold_left]; [|reflexivity]. apply min_if.
  Qed.

  Lemma sendby_fold c l : forall tr,
    t_sendby (fold_left (arrive c) l tr) = fold_left Z.min (cands c (length (t_spans tr)) l) (t_sendby tr) /\
    length (t_spans (fold_left (arrive c) l tr)) = (length (t_spans tr) + length l)%nat.
  Proof.
    induction l as [|[now s] r IH]; intros tr; cbn [fold_left cands length]; [split; [reflexivity|lia]|].
    specialize (IH (arrive c tr (now, s))).
    assert (E1 : t_sendby (arrive c tr (now, s)) =
                 fold_left Z.min (cands c (length (t_spans tr)) [(now, s)]) (t_sendby tr)) by apply add_span_sendby.
    assert (E2 : length (t_spans (arrive c tr (now, s))) = S (length (t_spans tr))) by reflexivity.
    destruct IH as [H1 H2]. rewrite E2 in H1, H2. rewrite E1 in H1. split.
    - cbn [cands] in H1. rewrite app_nil_r in H1. rewrite fold_left_app. exact H1.
    - rewrite H2. lia.
  Qed.

  (* (a) the deadline formula: first arrival + TraceTimeout', lowered by every root arrival (+SendDelay')
         and by every arrival that finds the trace over SpanLimit (+0, even if it is the root) *)
  Theorem sendby_formula c first l :
    t_sendby (fold_left (arrive c) l (new_trace c first)) = fold_left Z.min (cands c 0 l) (first + eff_tt c).
  Proof. destruct (sendby_fold c l (new_trace c first)) as [H _]. exact H. Qed.

  Lemma fold_min_le l : forall d, fold_left Z.min l d <= d.
  Proof. induction l as [|x r IH]; intros d; cbn; [lia|]. specialize (IH (Z.min d x)). lia. Qed.
  Lemma fold_min_in l : forall d, fold_left Z.min l d = d \/ In (fold_left Z.min l d) l.
  Proof.
    induction l as [|x r IH]; intros d; cbn [fold_left In]; [left; reflexivity|].
    destruct (IH (Z.min d x)) as [H|H]; [|right; right; exact H].
    rewrite H. destruct (Z.min_spec d x) as [[_ E]|[_ E]]; rewrite E; [left; reflexivity|right; left; reflexivity].
  Qed.

  Theorem sendby_never_raised c now tr s : t_sendby (add_span c now tr s) <= t_sendby tr.
  Proof. rewrite add_span_sendby. apply fold_min_le. Qed.

  (* ================= decide_list bookkeeping ================= *)
  Lemma decide_list_buf rf l : forall w,
    w_buf (fst (decide_list w rf l)) = remove_all (map fst l) (w_buf w) /\
    w_cfg (fst (decide_list w rf l)) = w_cfg w.
  Proof.
    induction l as [|[t tr] r IH]; intros w; cbn [decide_list map fst remove_all fold_left]; [split; reflexivity|].
    destruct (decide_one w (rf tr) t tr) as [w1 e1] eqn:E1.
    destruct (Collector.decide_list sampler dry w1 rf r) as [w2 e2] eqn:E2. cbn [fst].
    destruct (IH w1) as [H1 H2]. rewrite E2 in H1, H2. cbn [fst] in H1, H2.
    unfold Collector.decide_one in E1. injection E1 as <- _. cbn [w_buf w_cfg] in H1, H2. split; assumption.
  Qed.

  Lemma decide_list_events rf l : forall w t s r,
    In (t, s, r) (snd (decide_list w rf l)) ->
    exists tr, In (t, tr) l /\ r = rf tr /\ In s (sids tr) /\
               fw dry (sampler (c_ver (w_cfg w)) (rev (t_spans tr))) = true.
  Proof.
    induction l as [|[t0 tr0] rest IH]; intros w t s r; cbn [decide_list snd]; [intros []|].
    destruct (decide_one w (rf tr0) t0 tr0) as [w1 e1] eqn:E1.
    destruct (Collector.decide_list sampler dry w1 rf rest) as [w2 e2] eqn:E2. cbn [snd].
    unfold Collector.decide_one in E1. injection E1 as Hw1 He1.
    intros Hin. apply in_app_or in Hin. destruct Hin as [Hin|Hin].
    - subst e1. destruct (fw dry (sampler (c_ver (w_cfg w)) (rev (t_spans tr0)))) eqn:F; [|destruct Hin].
      apply in_map_iff in Hin. destruct Hin as [sp [Heq Hsp]]. injection Heq as <- <- <-.
      exists tr0. split; [left; reflexivity|]. split; [reflexivity|]. split; [|exact F].
      unfold sids. apply in_map. apply in_rev. exact Hsp.
    - specialize (IH w1 t s r). rewrite E2 in IH. cbn [snd] in IH. destruct (IH Hin) as [tr [H1 [H2 [H3 H4]]]].
      exists tr. split; [right; exact H1|]. split; [exact H2|]. split; [exact H3|].
      subst w1. exact H4.
  Qed.

  (* ================= tick ================= *)
  Definition deadline_le (d : Z) (b : amap trace) : Prop := forall kv, In kv b -> d <= t_sendby (snd kv).

  (* what TakeExpiredTraces returns, for every way the queue may break ties *)
  Lemma take_loop_spec ch : forall buf now max taken l,
    take_loop buf now max taken ch = Some l ->
    map fst l = ch /\
    (forall t tr, In (t, tr) l -> alookup t buf = Some tr /\ t_sendby tr <= now /\
                                  deadline_le (t_sendby tr) (remove_all ch buf)) /\
    ((0 < max /\ max <= taken + Z.of_nat (length l)) \/ none_expired (remove_all ch buf) now = true) /\
    (0 < max -> taken <= max -> taken + Z.of_nat (length l) <= max).
  Proof.
    induction ch as [|t rest IH]; intros buf now max taken l; cbn [take_loop].
    - destruct (negb (is_empty buf) && ((max <=? 0) || (taken <? max))) eqn:G.
      + destruct (none_expired buf now) eqn:NE; [|discriminate]. intros [= <-].
        cbn [map remove_all fold_left length]. split; [reflexivity|]. split; [intros ? ? []|].
        split; [right; exact NE|intros; lia].
      + intros [= <-]. cbn [map remove_all fold_left length]. split; [reflexivity|]. split; [intros ? ? []|].
        split; [|intros; lia].
        apply andb_false_iff in G. destruct G as [G|G].
        * right. destruct buf; [reflexivity|discriminate].
        * apply orb_false_iff in G. destruct G as [G1 G2]. apply Z.leb_gt in G1. apply Z.ltb_ge in G2. left. lia.
    - destruct (negb (is_empty buf) && ((max <=? 0) || (taken <? max))) eqn:G; [|discriminate].
      destruct (alookup t buf) as [tr|] eqn:L; [|discriminate].
      destruct (is_min_deadline buf (t_sendby tr) && negb (now <? t_sendby tr)) eqn:M; [|discriminate].
      destruct (take_loop (aremove t buf) now max (taken + 1) rest) as [l'|] eqn:R; [|discriminate].
      cbn [option_map]. intros [= <-]. apply andb_true_iff in M. destruct M as [M1 M2].
      apply negb_true_iff in M2. apply Z.ltb_ge in M2.
      destruct (IH _ _ _ _ _ R) as [H1 [H2 [H3 H4]]]. cbn [map fst remove_all fold_left length].
      change (fold_left (fun m t0 => aremove t0 m) rest (aremove t buf)) with (remove_all rest (aremove t buf)).
      split; [f_equal; exact H1|]. split; [|split].
      + intros t1 tr1 [Heq|Hin].
        * injection Heq as <- <-. split; [exact L|]. split; [exact M2|].
          intros kv Hkv. apply In_remove_all in Hkv. destruct Hkv as [Hkv _]. apply In_aremove in Hkv.
          destruct Hkv as [Hkv _]. unfold is_min_deadline in M1. rewrite forallb_In in M1.
          specialize (M1 kv Hkv). apply Z.leb_le in M1. exact M1.
        * destruct (H2 t1 tr1 Hin) as [Ha [Hb Hc]]. split; [|split; assumption].
          destruct (N.eq_dec t1 t) as [->|Hne]; [rewrite alookup_aremove_eq in Ha; discriminate|].
          rewrite alookup_aremove_neq in Ha by exact Hne. exact Ha.
      + destruct H3 as [[Ha Hb]|H3]; [left; split; [exact Ha|lia]|right; exact H3].
      + intros Hm Ht. apply andb_true_iff in G. destruct G as [_ G]. apply orb_true_iff in G.
        destruct G as [G|G]; [apply Z.leb_le in G; lia|]. apply Z.ltb_lt in G.
        assert (taken + 1 <= max) by lia. specialize (H4 Hm H). lia.
  Qed.

  Lemma take_loop_nodup ch : forall buf now max taken l,
    take_loop buf now max taken ch = Some l -> NoDup ch.
  Proof.
    induction ch as [|t0 rest IH]; intros buf now max taken l T; [constructor|].
    cbn [take_loop] in T.
    destruct (negb (is_empty buf) && ((max <=? 0) || (taken <? max))); [|discriminate].
    destruct (alookup t0 buf) as [tr0|] eqn:L; [|discriminate].
    destruct (is_min_deadline buf (t_sendby tr0) && negb (now <? t_sendby tr0)); [|discriminate].
    destruct (take_loop (aremove t0 buf) now max (taken + 1) rest) as [l'|] eqn:R; [|discriminate].
    constructor; [|eapply IH; exact R].
    destruct (take_loop_spec _ _ _ _ _ _ R) as [H1 [H2 _]]. intros Hin. rewrite <- H1 in Hin.
    apply in_map_iff in Hin. destruct Hin as [[t' tr'] [Hf Hin]]. cbn in Hf. subst t'.
    destruct (H2 _ _ Hin) as [Ha _]. rewrite alookup_aremove_eq in Ha. discriminate.
  Qed.

  Lemma take_loop_length ch : forall buf now max taken l,
    NoDup (akeys buf) -> take_loop buf now max taken ch = Some l ->
    (length (remove_all ch buf) + length ch = length buf)%nat.
  Proof.
    induction ch as [|t0 rest IH]; intros buf now max taken l Hnd T; cbn [remove_all fold_left length]; [lia|].
    cbn [take_loop] in T.
    destruct (negb (is_empty buf) && ((max <=? 0) || (taken <? max))); [|discriminate].
    destruct (alookup t0 buf) as [tr0|] eqn:L; [|discriminate].
    destruct (is_min_deadline buf (t_sendby tr0) && negb (now <? t_sendby tr0)); [|discriminate].
    destruct (take_loop (aremove t0 buf) now max (taken + 1) rest) as [l'|] eqn:R; [|discriminate].
    change (fold_left (fun m t1 => aremove t1 m) rest (aremove t0 buf)) with (remove_all rest (aremove t0 buf)).
    pose proof (IH _ _ _ _ _ (NoDup_akeys_aremove t0 buf Hnd) R) as H1.
    pose proof (length_aremove_NoDup t0 buf tr0 Hnd L) as H2. lia.
  Qed.

  Definition tick_result (w : wstate) (now : Z) (ch : list N) (l : list (N * trace)) : Prop :=
    take_loop (w_buf w) now (c_me (w_cfg w)) 0 ch = Some l.

  Lemma step_tick_inv w now ch w' evs :
    step_tick w now ch = Some (w', evs) ->
    exists l, tick_result w now ch l /\ w_buf w' = remove_all ch (w_buf w) /\ w_cfg w' = w_cfg w /\
              evs = snd (decide_list w (tick_reason (w_cfg w)) l).
  Proof.
    unfold Collector.step_tick. destruct (take_loop (w_buf w) now (c_me (w_cfg w)) 0 ch) as [l|] eqn:T; [|discriminate].
    intros [= E]. exists l. destruct (take_loop_spec _ _ _ _ _ _ T) as [H1 _].
    destruct (decide_list_buf (tick_reason (w_cfg w)) l w) as [Hb Hc]. rewrite E in Hb, Hc. cbn [fst] in Hb, Hc.
    rewrite H1 in Hb. split; [exact T|]. split; [exact Hb|]. split; [exact Hc|rewrite E; reflexivity].
  Qed.

  (* (b) never early, (c) at most MaxExpiredTraces, earliest deadline first, nothing expired is left
         behind unless the budget is exhausted — for every tick the code can perform *)
  Theorem tick_spec w now ch w' evs :
    step_tick w now ch = Some (w', evs) ->
    w_buf w' = remove_all ch (w_buf w) /\
    (forall t, In t ch -> exists tr, alookup t (w_buf w) = Some tr /\ t_sendby tr <= now /\
                                     forall kv, In kv (w_buf w') -> t_sendby tr <= t_sendby (snd kv)) /\
    (0 < c_me (w_cfg w) -> Z.of_nat (length ch) <= c_me (w_cfg w)) /\
    ((0 < c_me (w_cfg w) /\ c_me (w_cfg w) <= Z.of_nat (length ch)) \/
     forall kv, In kv (w_buf w') -> now < t_sendby (snd kv)).
  Proof.
    intros H. destruct (step_tick_inv _ _ _ _ _ H) as [l [T [Hb [Hc He]]]].
    destruct (take_loop_spec _ _ _ _ _ _ T) as [H1 [H2 [H3 H4]]].
    assert (Hlen : length l = length ch) by (rewrite <- H1; symmetry; apply map_length).
    split; [exact Hb|]. split; [|split].
    - intros t Ht. rewrite <- H1 in Ht. apply in_map_iff in Ht. destruct Ht as [[t' tr] [Hf Hin]]. cbn in Hf. subst t'.
      destruct (H2 t tr Hin) as [Ha [Hb' Hc']]. exists tr. split; [exact Ha|]. split; [exact Hb'|].
      rewrite Hb. exact Hc'.
    - intros Hm. specialize (H4 Hm). rewrite Hlen in H4. lia.
    - destruct H3 as [[Ha Hb']|H3]; [left; rewrite Hlen in Hb'; split; [exact Ha|lia]|right].
      rewrite Hb. unfold none_expired in H3. rewrite forallb_In in H3. intros kv Hkv.
      specialize (H3 kv Hkv). apply Z.ltb_lt in H3. exact H3.
  Qed.

  (* (e) the reported send reason follows the ladder got_root > span_limit > expired *)
  Theorem tick_reason_spec w now ch w' evs t s r :
    step_tick w now ch = Some (w', evs) -> In (t, s, r) evs ->
    exists tr, alookup t (w_buf w) = Some tr /\ In s (sids tr) /\
      r = (if has_root tr then R_root
           else if (0 <? c_sl (w_cfg w)) && (c_sl (w_cfg w) <? count tr) then R_limit else R_expired).
  Proof.
    intros H Hin. destruct (step_tick_inv _ _ _ _ _ H) as [l [T [_ [_ He]]]]. subst evs.
    apply decide_list_events in Hin. destruct Hin as [tr [Hl [Hr [Hs _]]]].
    destruct (take_loop_spec _ _ _ _ _ _ T) as [_ [H2 _]]. destruct (H2 t tr Hl) as [Ha _].
    exists tr. split; [exact Ha|]. split; [exact Hs|exact Hr].
  Qed.

  (* (d) a trace past its deadline is decided by the next tick unless MaxExpiredTraces other traces
         with deadlines no later than its own are ahead of it *)
  Theorem tick_decides_due w now ch w' evs t tr :
    NoDup (akeys (w_buf w)) ->
    step_tick w now ch = Some (w', evs) ->
    alookup t (w_buf w) = Some tr -> t_sendby tr <= now ->
    (c_me (w_cfg w) <= 0 \/
     Z.of_nat (length (filter (fun kv => (t_sendby (snd kv) <=? t_sendby tr) && negb (N.eqb (fst kv) t)) (w_buf w)))
       < c_me (w_cfg w)) ->
    In t ch.
  Proof.
    intros Hnd H Hl Hdue Hahead. destruct (tick_spec _ _ _ _ _ H) as [Hb [Htaken [_ Hstop]]].
    destruct (in_dec N.eq_dec t ch) as [Hin|Hnin]; [exact Hin|exfalso].
    assert (Hrem : In (t, tr) (w_buf w')).
    { rewrite Hb. apply In_remove_all. split; [apply alookup_In; exact Hl|exact Hnin]. }
    destruct Hstop as [[Hm Hfull]|Hnone]; [|specialize (Hnone _ Hrem); cbn in Hnone; lia].
    destruct Hahead as [Hz|Hlt]; [lia|].
    (* every taken trace is in the "ahead" set, and taken traces are distinct *)
    destruct (step_tick_inv _ _ _ _ _ H) as [l [T _]].
    assert (Hnd_ch : NoDup ch) by (eapply take_loop_nodup; exact T).
    set (ahead := filter (fun kv => (t_sendby (snd kv) <=? t_sendby tr) && negb (N.eqb (fst kv) t)) (w_buf w)) in *.
    assert (Hincl : incl ch (map fst ahead)).
    { intros t1 Ht1. destruct (Htaken t1 Ht1) as [tr1 [Ha [_ Hc]]]. specialize (Hc _ Hrem). cbn in Hc.
      apply in_map_iff. exists (t1, tr1). split; [reflexivity|]. apply filter_In. split; [apply alookup_In; exact Ha|].
      cbn [fst snd]. apply andb_true_iff. split; [apply Z.leb_le; exact Hc|].
      apply negb_true_iff. apply N.eqb_neq. intros ->. contradiction. }
    pose proof (NoDup_incl_length Hnd_ch Hincl) as Hle. rewrite map_length in Hle. lia.
  Qed.

  (* liveness core (C02): a tick after every deadline removes min(MaxExpired', |buf|) traces *)
  Theorem tick_drains w now ch w' evs :
    NoDup (akeys (w_buf w)) ->
    step_tick w now ch = Some (w', evs) ->
    (forall kv, In kv (w_buf w) -> t_sendby (snd kv) <= now) ->
    NoDup (akeys (w_buf w')) /\
    (w_buf w' = [] \/ (0 < c_me (w_cfg w) /\ Z.of_nat (length (w_buf w')) = Z.of_nat (length (w_buf w)) - c_me (w_cfg w))).
  Proof.
    intros Hnd H Hall. destruct (tick_spec _ _ _ _ _ H) as [Hb [Htaken [Hmax Hstop]]].
    split; [rewrite Hb; apply NoDup_remove_all; exact Hnd|].
    destruct Hstop as [[Hm Hfull]|Hnone].
    - right. split; [exact Hm|]. specialize (Hmax Hm).
      assert (Hlen : Z.of_nat (length ch) = c_me (w_cfg w)) by lia.
      (* removing distinct present keys shortens the buffer by exactly that many *)
      destruct (step_tick_inv _ _ _ _ _ H) as [l [T _]].
      pose proof (take_loop_length _ _ _ _ _ _ Hnd T) as Hgen. rewrite Hb. lia.
    - left. destruct (w_buf w') as [|kv r] eqn:E; [reflexivity|exfalso].
      assert (Hin : In kv (kv :: r)) by (left; reflexivity).
      pose proof (Hnone _ Hin) as Hlt. rewrite Hb in Hin. apply In_remove_all in Hin. destruct Hin as [Hin _].
      specialize (Hall _ Hin). lia.
  Qed.

  (* ================= eject ================= *)
  Definition sum_sizes (l : list (N * trace)) : Z := fold_right (fun kv acc => data_size (snd kv) + acc) 0 l.

  Lemma eject_loop_spec ch : forall buf tt bytes total l,
    eject_loop buf tt bytes total ch = Some l ->
    map fst l = ch /\
    (forall t tr, In (t, tr) l -> alookup t buf = Some tr /\
        forall kv, In kv (remove_all ch buf) -> trace_impact tt (snd kv) <= trace_impact tt tr) /\
    (remove_all ch buf = [] \/ bytes < total + sum_sizes l) /\
    (total <= bytes -> l = [] \/ total + sum_sizes (removelast l) <= bytes) /\
    (buf <> [] -> l <> []).
  Proof.
    induction ch as [|t rest IH]; intros buf tt bytes total l; cbn [eject_loop].
    - destruct buf as [|kv b]; cbn [is_empty]; [|discriminate]. intros [= <-].
      cbn. split; [reflexivity|]. split; [intros ? ? []|]. split; [left; reflexivity|]. split; [intros _; left; reflexivity|congruence].
    - destruct (alookup t buf) as [tr|] eqn:L; [|discriminate].
      destruct (is_max_impact tt buf (trace_impact tt tr)) eqn:M; [|discriminate].
      unfold is_max_impact in M. rewrite forallb_In in M.
      assert (Hmax : forall rest' kv, In kv (remove_all rest' (aremove t buf)) -> trace_impact tt (snd kv) <= trace_impact tt tr).
      { intros rest' kv Hkv. apply In_remove_all in Hkv. destruct Hkv as [Hkv _]. apply In_aremove in Hkv.
        destruct Hkv as [Hkv _]. specialize (M kv Hkv). apply Z.leb_le in M. exact M. }
      cbn [remove_all fold_left].
      change (fold_left (fun m t0 => aremove t0 m) rest (aremove t buf)) with (remove_all rest (aremove t buf)).
      destruct (bytes <? total + data_size tr) eqn:B.
      + destruct rest as [|t2 rest2]; cbn [is_empty]; [|discriminate]. intros [= <-].
        apply Z.ltb_lt in B. cbn [map fst sum_sizes fold_right snd removelast].
        split; [reflexivity|]. split; [|split; [right; lia|split; [intros Ht; right; lia|congruence]]].
        intros t1 tr1 [Heq|[]]. injection Heq as <- <-. split; [exact L|]. apply (Hmax []).
      + destruct (eject_loop (aremove t buf) tt bytes (total + data_size tr) rest) as [l'|] eqn:R; [|discriminate].
        cbn [option_map]. intros [= <-]. apply Z.ltb_ge in B.
        destruct (IH _ _ _ _ _ R) as [H1 [H2 [H3 [H4 H5]]]].
        cbn [map fst sum_sizes fold_right snd]. split; [f_equal; exact H1|]. split; [|split; [|split]].
        * intros t1 tr1 [Heq|Hin].
          -- injection Heq as <- <-. split; [exact L|]. apply Hmax.
          -- destruct (H2 t1 tr1 Hin) as [Ha Hb]. split; [|exact Hb].
             destruct (N.eq_dec t1 t) as [->|Hne]; [rewrite alookup_aremove_eq in Ha; discriminate|].
             rewrite alookup_aremove_neq in Ha by exact Hne. exact Ha.
        * destruct H3 as [H3|H3]; [left; exact H3|right]. fold (sum_sizes l'). lia.
        * intros Ht. right. destruct l' as [|x l'']; [cbn; lia|].
          destruct (H4 ltac:(lia)) as [H4'|H4']; [discriminate|].
          change (removelast ((t, tr) :: x :: l'')) with ((t, tr) :: removelast (x :: l'')).
          unfold sum_sizes in *. cbn [fold_right snd]. lia.
        * congruence.
  Qed.

  Lemma step_eject_inv w bytes ch w' evs :
    step_eject w bytes ch = Some (w', evs) ->
    exists l, eject_loop (w_buf w) (eject_tt (w_cfg w)) bytes 0 ch = Some l /\
              w_buf w' = remove_all ch (w_buf w) /\ w_cfg w' = w_cfg w /\
              (w', evs) = decide_list w (fun _ => R_eject) l.
  Proof.
    unfold Collector.step_eject.
    destruct (eject_loop (w_buf w) (eject_tt (w_cfg w)) bytes 0 ch) as [l|] eqn:T; [|discriminate].
    intros [= E]. exists l. destruct (eject_loop_spec _ _ _ _ _ _ T) as [H1 _].
    destruct (decide_list_buf (fun _ => R_eject) l w) as [Hb Hc]. rewrite H1 in Hb.
    rewrite <- E. split; [reflexivity|]. rewrite E in Hb, Hc. cbn [fst] in Hb, Hc.
    split; [exact Hb|]. split; [exact Hc|reflexivity].
  Qed.

  (* C07: the ejected traces are the heaviest ones, the loop stops as soon as the released DataSize
     exceeds the share (not before, unless the buffer is empty), every ejected trace leaves the
     buffer, the others are untouched, and a non-empty buffer always gives up at least one trace *)
  Theorem eject_spec w bytes ch w' evs :
    step_eject w bytes ch = Some (w', evs) ->
    exists l, map fst l = ch /\
    w_buf w' = remove_all ch (w_buf w) /\
    (forall t tr, In (t, tr) l -> alookup t (w_buf w) = Some tr /\
        forall kv, In kv (w_buf w') ->
          trace_impact (eject_tt (w_cfg w)) (snd kv) <= trace_impact (eject_tt (w_cfg w)) tr) /\
    (w_buf w' = [] \/ bytes < sum_sizes l) /\
    (0 <= bytes -> l = [] \/ sum_sizes (removelast l) <= bytes) /\
    (w_buf w <> [] -> ch <> []) /\
    (forall t, ~ In t ch -> alookup t (w_buf w') = alookup t (w_buf w)).
  Proof.
    intros H. destruct (step_eject_inv _ _ _ _ _ H) as [l [T [Hb [Hc He]]]].
    destruct (eject_loop_spec _ _ _ _ _ _ T) as [H1 [H2 [H3 [H4 H5]]]].
    exists l. split; [exact H1|]. split; [exact Hb|]. rewrite Hb.
    split; [exact H2|]. split; [destruct H3 as [H3|H3]; [left; exact H3|right; lia]|].
    split; [intros H0; destruct (H4 H0) as [H4'|H4']; [left; exact H4'|right; lia]|]. split.
    - intros Hne Hch. apply (H5 Hne). subst ch. destruct l; [reflexivity|discriminate].
    - intros t Hn. apply alookup_remove_all_notin. exact Hn.
  Qed.

  (* an ejected trace is decided exactly as if it had timed out: same sampler call on the same spans,
     same decision record, same forwarded spans; only the reported reason differs *)
  Theorem eject_decides_like_tick w rf1 rf2 l :
    fst (decide_list w rf1 l) = fst (decide_list w rf2 l) /\
    map proj (snd (decide_list w rf1 l)) = map proj (snd (decide_list w rf2 l)).
  Proof.
    revert w. induction l as [|[t tr] r IH]; intros w; cbn [decide_list]; [split; reflexivity|].
    unfold Collector.decide_one.
    set (w1 := {| w_buf := aremove t (w_buf w); w_dec := aset t (sampler (c_ver (w_cfg w)) (rev (t_spans tr))) (w_dec w); w_cfg := w_cfg w |}).
    destruct (IH w1) as [H1 H2].
    destruct (Collector.decide_list sampler dry w1 rf1 r) as [wa ea].
    destruct (Collector.decide_list sampler dry w1 rf2 r) as [wb eb]. cbn [fst snd] in *.
    split; [exact H1|]. rewrite !map_app, H2. f_equal.
    destruct (fw dry (sampler (c_ver (w_cfg w)) (rev (t_spans tr)))); [|reflexivity].
    rewrite !map_map. reflexivity.
  Qed.

  Theorem eject_reason_spec w bytes ch w' evs t s r :
    step_eject w bytes ch = Some (w', evs) -> In (t, s, r) evs -> r = R_eject /\ In t ch.
  Proof.
    intros H Hin. destruct (step_eject_inv _ _ _ _ _ H) as [l [T [_ [_ He]]]].
    assert (E : evs = snd (decide_list w (fun _ => R_eject) l)) by (rewrite <- He; reflexivity).
    subst evs. apply decide_list_events in Hin. destruct Hin as [tr [Hl [Hr _]]]. split; [exact Hr|].
    destruct (eject_loop_spec _ _ _ _ _ _ T) as [H1 _]. rewrite <- H1. apply in_map_iff. exists (t, tr). split; [reflexivity|exact Hl].
  Qed.

  (* C03: a trace leaves the buffer only through a tick at or after its deadline, or through an ejection *)
  Theorem leaves_only_when_due w o w' evs t tr :
    step w o = Some (w', evs) -> alookup t (w_buf w) = Some tr -> alookup t (w_buf w') = None ->
    (exists now ch, o = OTick now ch /\ In t ch /\ t_sendby tr <= now) \/ (exists bytes ch, o = OEject bytes ch /\ In t ch).
  Proof.
    intros H Hl Hn. destruct o as [now s|now ch|bytes ch|c|t0]; cbn [Collector.step] in H.
    - exfalso. injection H as E. assert (Hw : w' = fst (Collector.step_span dry w now s)) by (rewrite E; reflexivity).
      subst w'. unfold Collector.step_span in Hn.
      destruct (alookup (s_tid s) (w_buf w)) eqn:L; cbn [fst set_buf w_buf] in Hn.
      + rewrite lk_aset in Hn. destruct (N.eqb t (s_tid s)); congruence.
      + destruct (alookup (s_tid s) (w_dec w)); cbn [fst set_buf w_buf] in Hn; [congruence|].
        rewrite lk_aset in Hn. destruct (N.eqb t (s_tid s)); congruence.
    - left. exists now, ch. split; [reflexivity|]. destruct (tick_spec _ _ _ _ _ H) as [Hb [Htaken _]].
      destruct (in_dec N.eq_dec t ch) as [Hin|Hnin].
      + split; [exact Hin|]. destruct (Htaken t Hin) as [tr' [Ha [Hb' _]]]. congruence.
      + rewrite Hb, alookup_remove_all_notin in Hn by exact Hnin. congruence.
    - right. exists bytes, ch. split; [reflexivity|]. destruct (eject_spec _ _ _ _ _ H) as [l [_ [Hb [_ [_ [_ [_ Hun]]]]]]].
      destruct (in_dec N.eq_dec t ch) as [Hin|Hnin]; [exact Hin|]. rewrite (Hun t Hnin) in Hn. congruence.
    - exfalso. injection H as <- _. cbn [w_buf] in Hn. congruence.
    - exfalso. injection H as <- _. cbn [w_buf] in Hn. congruence.
  Qed.

  (* ================= reachable states keep distinct buffer keys ================= *)
  Lemma step_nodup w o w' evs : NoDup (akeys (w_buf w)) -> step w o = Some (w', evs) -> NoDup (akeys (w_buf w')).
  Proof.
    intros Hnd. destruct o as [now s|now ch|bytes ch|c|t]; cbn [Collector.step].
    - intros [= E]. assert (Hw : w' = fst (Collector.step_span dry w now s)) by (rewrite E; reflexivity). subst w'.
      unfold Collector.step_span.
      destruct (alookup (s_tid s) (w_buf w)); cbn [fst set_buf w_buf]; [apply NoDup_akeys_aset; exact Hnd|].
      destruct (alookup (s_tid s) (w_dec w)); cbn [fst set_buf w_buf]; [exact Hnd|apply NoDup_akeys_aset; exact Hnd].
    - intros H. destruct (step_tick_inv _ _ _ _ _ H) as [l [_ [Hb _]]]. rewrite Hb. apply NoDup_remove_all. exact Hnd.
    - intros H. destruct (step_eject_inv _ _ _ _ _ H) as [l [_ [Hb _]]]. rewrite Hb. apply NoDup_remove_all. exact Hnd.
    - intros [= <- _]. exact Hnd.
    - intros [= <- _]. exact Hnd.
  Qed.

  Theorem run_nodup ops : forall w, NoDup (akeys (w_buf w)) -> NoDup (akeys (w_buf (fst (run w ops)))).
  Proof.
    induction ops as [|o r IH]; intros w Hnd; [exact Hnd|]. rewrite run_cons. cbn [fst]. apply IH.
    unfold Collector.step_total. destruct (step w o) as [[w1 e]|] eqn:S; cbn [fst]; [|exact Hnd].
    eapply step_nodup; [exact Hnd|exact S].
  Qed.

  (* C02 liveness: k late ticks empty a buffer of at most k * MaxExpiredTraces traces (one tick if
     MaxExpiredTraces is 0 = unlimited) *)
  Theorem late_ticks_drain : forall (ticks : list (Z * list N)) w,
    NoDup (akeys (w_buf w)) ->
    (forall nc, In nc ticks -> forall kv, In kv (w_buf w) -> t_sendby (snd kv) <= fst nc) ->
    (forall nc w0, In nc ticks -> step w0 (OTick (fst nc) (snd nc)) <> None) ->
    (c_me (w_cfg w) <= 0 -> ticks <> []) ->
    (0 < c_me (w_cfg w) -> Z.of_nat (length (w_buf w)) <= Z.of_nat (length ticks) * c_me (w_cfg w)) ->
    w_buf (fst (run w (map (fun nc => OTick (fst nc) (snd nc)) ticks))) = [].
  Proof.
    induction ticks as [|[now ch] rest IH]; intros w Hnd Hlate Hvalid Hz Hpos.
    - cbn. destruct (Z_le_gt_dec (c_me (w_cfg w)) 0) as [Hle|Hgt]; [exfalso; apply (Hz Hle); reflexivity|].
      specialize (Hpos ltac:(lia)). cbn in Hpos. destruct (w_buf w); [reflexivity|cbn in Hpos; lia].
    - cbn [map]. rewrite run_cons. cbn [fst snd]. unfold Collector.step_total.
      destruct (step w (OTick now ch)) as [[w1 e]|] eqn:S;
        [|exfalso; apply (Hvalid (now, ch) w); [left; reflexivity|exact S]].
      cbn [fst]. cbn [Collector.step] in S.
      destruct (tick_drains _ _ _ _ _ Hnd S (fun kv Hkv => Hlate (now, ch) (or_introl eq_refl) kv Hkv)) as [Hnd1 Hd].
      destruct (step_tick_inv _ _ _ _ _ S) as [l [_ [Hb [Hc _]]]].
      assert (Hsub : forall kv, In kv (w_buf w1) -> In kv (w_buf w)).
      { intros kv Hkv. rewrite Hb in Hkv. apply In_remove_all in Hkv. tauto. }
      destruct Hd as [Hempty|[Hm Hlen]].
      + (* already empty: the remaining ticks keep it empty *)
        clear - Hempty Hvalid. revert w1 Hempty. induction rest as [|[n2 c2] r2 IH2]; intros w1 Hempty; [exact Hempty|].
        cbn [map]. rewrite run_cons. cbn [fst snd]. apply IH2.
        * intros nc w0 Hin. apply Hvalid. destruct Hin as [Hin|Hin]; [left; exact Hin|right; right; exact Hin].
        * unfold Collector.step_total. destruct (step w1 (OTick n2 c2)) as [[w2 e2]|] eqn:S2; cbn [fst]; [|exact Hempty].
          cbn [Collector.step] in S2. destruct (step_tick_inv _ _ _ _ _ S2) as [l2 [_ [Hb2 _]]].
          rewrite Hb2, Hempty. clear. induction c2; [reflexivity|exact IHc2].
      + apply IH.
        * exact Hnd1.
        * intros nc Hin kv Hkv. apply (Hlate nc (or_intror Hin) kv). apply Hsub; exact Hkv.
        * intros nc w0 Hin. apply Hvalid. right; exact Hin.
        * rewrite Hc. intros Hle. lia.
        * rewrite Hc. intros _. specialize (Hpos Hm). cbn [length] in Hpos. nia.
  Qed.
End Time.

(* ================= checkAlloc arithmetic (C07) ================= *)
Lemma alloc_triggers_spec alloc maxalloc :
  alloc_triggers alloc maxalloc = true <-> maxalloc <> 0 /\ maxalloc <= alloc.
Proof.
  unfold alloc_triggers. rewrite negb_true_iff, orb_false_iff, Z.eqb_neq, Z.ltb_ge. tauto.
Qed.

Lemma alloc_share_spec alloc maxalloc n :
  0 < n -> maxalloc <= alloc ->
  0 <= alloc_share alloc maxalloc n /\
  n * alloc_share alloc maxalloc n <= alloc - maxalloc < n * (alloc_share alloc maxalloc n + 1).
Proof.
  intros Hn Hle. unfold alloc_share. rewrite Z.quot_div_nonneg by lia.
  pose proof (Z.mul_div_le (alloc - maxalloc) n Hn) as H1.
  pose proof (Z.mul_succ_div_gt (alloc - maxalloc) n Hn) as H2.
  assert (H3 : 0 <= (alloc - maxalloc) / n) by (apply Z.div_pos; lia).
  unfold Z.succ in H2. split; [exact H3|]. split; [exact H1|exact H2].
Qed.
