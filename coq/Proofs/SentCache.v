(* Proofs about the decision-cache model (Model/SentCache.v). *)
From Coq Require Import ZifyN ZifyNat ZifyBool.
From Refinery Require Import Lib.Base Gen.GenC31 Model.SentCache.

(* ------------------------------------------------------------------ *)
(* finite checks on the values read from the source                    *)
(* ------------------------------------------------------------------ *)

(* a lookup order is acceptable when no kept-LRU lookup happens before the dropped filter has been
   consulted, every kept lookup refreshes recency, and there is a kept lookup at all *)
Fixpoint order_ok (seen_dropped : bool) (l : list src) : bool :=
  match l with
  | [] => false
  | SRecent :: r => order_ok seen_dropped r
  | SDropped :: r => order_ok true r
  | SKept t :: _ => seen_dropped && t
  end.

Lemma trace_order_ok : order_ok false trace_order = true.
Proof. vm_compute. reflexivity. Qed.
Lemma span_order_ok : order_ok false span_order = true.
Proof. vm_compute. reflexivity. Qed.
(* CheckSpan consults the recent-drop set before anything else *)
Lemma span_order_recent_first : exists r, span_order = SRecent :: r.
Proof. vm_compute. eexists. reflexivity. Qed.
(* CheckTrace never touches the recent-drop set *)
Lemma trace_order_no_recent : existsb (fun s => match s with SRecent => true | _ => false end) trace_order = false.
Proof. vm_compute. reflexivity. Qed.

(* half threshold <= full threshold, full threshold >= 96 % (the sizing slack of the filter), denominators > 0 *)
Definition thresholds_ok : bool :=
  ((half_num * full_den <=? full_num * half_den) && (96 * full_den <=? 100 * full_num)
   && (0 <? full_den) && (0 <? half_den))%N.
Lemma thresholds_ok_true : thresholds_ok = true.
Proof. vm_compute. reflexivity. Qed.

Lemma sizing_formulas_as_modelled :
  kept_per_worker_is_ceil = true /\ dropped_per_worker_is_ceil = true.
Proof. vm_compute. repeat split. Qed.

Lemma add_queue_depth_pos : (0 < add_queue_depth)%N.
Proof. vm_compute. reflexivity. Qed.
Lemma recent_ttl_nonneg : 0 <= recent_drop_ttl.
Proof. vm_compute. discriminate. Qed.

(* ------------------------------------------------------------------ *)
(* association-list / LRU lemmas                                       *)
(* ------------------------------------------------------------------ *)
Fixpoint before (x : N) (l : lru) : list N :=
  match l with
  | [] => []
  | (k, _) :: r => if N.eqb x k then [] else k :: before x r
  end.

Lemma before_incl_keys x l : incl (before x l) (akeys l).
Proof.
  induction l as [|[k v] r IH]; cbn [before akeys map fst]; [intros a []|].
  destruct (N.eqb x k); [intros a []|].
  intros a [<-|Ha]; [left; reflexivity|right; apply IH; exact Ha].
Qed.

Lemma NoDup_before x l : NoDup (akeys l) -> NoDup (before x l).
Proof.
  induction l as [|[k v] r IH]; cbn [before akeys map fst]; intros H; [constructor|].
  inversion H as [|? ? Hn Hr]; subst.
  destruct (N.eqb x k); [constructor|].
  constructor; [|apply IH; exact Hr].
  intros Hin. apply Hn. apply (before_incl_keys x r). exact Hin.
Qed.

Lemma before_aremove_incl x y l : x <> y -> incl (before x (aremove y l)) (before x l).
Proof.
  intros Hne. induction l as [|[k v] r IH]; cbn [before aremove]; [intros a []|].
  destruct (N.eqb y k) eqn:Ey.
  - apply N.eqb_eq in Ey. subst k.
    destruct (N.eqb x y) eqn:Ex; [apply N.eqb_eq in Ex; contradiction|].
    intros a Ha. right. apply IH. exact Ha.
  - cbn [before]. destruct (N.eqb x k); [intros a []|].
    intros a [<-|Ha]; [left; reflexivity|right; apply IH; exact Ha].
Qed.

Lemma before_length x l r : alookup x l = Some r -> (length (before x l) < length l)%nat.
Proof.
  induction l as [|[k v] t IH]; cbn [alookup before length]; [discriminate|].
  destruct (N.eqb x k); cbn [length]; [lia|].
  intros H. apply IH in H. lia.
Qed.

Lemma akeys_lru_update y v l : akeys (lru_update y v l) = akeys l.
Proof.
  induction l as [|[k w] t IH]; cbn [lru_update akeys map fst]; [reflexivity|].
  destruct (N.eqb y k); cbn [akeys map fst]; [reflexivity|].
  f_equal. exact IH.
Qed.

Lemma length_lru_update y v l : length (lru_update y v l) = length l.
Proof.
  induction l as [|[k w] t IH]; cbn [lru_update length]; [reflexivity|].
  destruct (N.eqb y k); cbn [length]; [reflexivity|]. rewrite IH. reflexivity.
Qed.

Lemma before_lru_update x y v l : before x (lru_update y v l) = before x l.
Proof.
  induction l as [|[k w] t IH]; cbn [lru_update before]; [reflexivity|].
  destruct (N.eqb y k); cbn [before]; [reflexivity|].
  destruct (N.eqb x k); [reflexivity|]. rewrite IH. reflexivity.
Qed.

Lemma alookup_lru_update_neq x y v l : x <> y -> alookup x (lru_update y v l) = alookup x l.
Proof.
  intros Hne. induction l as [|[k w] t IH]; cbn [lru_update alookup]; [reflexivity|].
  destruct (N.eqb y k) eqn:Ey; cbn [alookup].
  - apply N.eqb_eq in Ey. subst k. destruct (N.eqb x y) eqn:Ex; [apply N.eqb_eq in Ex; contradiction|reflexivity].
  - destruct (N.eqb x k); [reflexivity|exact IH].
Qed.

Lemma alookup_lru_update_eq x v l w : alookup x l = Some w -> alookup x (lru_update x v l) = Some v.
Proof.
  induction l as [|[k u] t IH]; cbn [lru_update alookup]; [discriminate|].
  destruct (N.eqb x k) eqn:Ex; cbn [alookup]; rewrite Ex; [reflexivity|exact IH].
Qed.

Lemma In_lru_update k r y v l : In (k, r) (lru_update y v l) -> In (k, r) l \/ r = v.
Proof.
  induction l as [|[k' u] t IH]; cbn [lru_update In]; [intros []|].
  destruct (N.eqb y k'); cbn [In].
  - intros [H|H]; [right; congruence|left; right; exact H].
  - intros [H|H]; [left; left; exact H|]. destruct (IH H); [left; right; assumption|right; assumption].
Qed.

Lemma removelast_keep x l r :
  alookup x l = Some r -> (length (before x l) + 1 < length l)%nat ->
  alookup x (removelast l) = Some r /\ before x (removelast l) = before x l.
Proof.
  induction l as [|[k v] t IH]; [discriminate|].
  destruct t as [|p t'].
  - cbn [length before alookup]. destruct (N.eqb x k); cbn [length]; intros H Hl; lia.
  - change (removelast ((k, v) :: p :: t')) with ((k, v) :: removelast (p :: t')).
    remember (p :: t') as t eqn:Et.
    cbn [alookup before]. destruct (N.eqb x k) eqn:Ex.
    + intros H _. split; [exact H|reflexivity].
    + intros H Hl. cbn [length] in Hl.
      destruct (IH H) as [H1 H2]; [lia|].
      split; [exact H1|]. rewrite H2. reflexivity.
Qed.

Lemma akeys_removelast (l : lru) : akeys (removelast l) = removelast (akeys l).
Proof.
  induction l as [|[k v] t IH]; [reflexivity|].
  destruct t as [|p t']; [reflexivity|].
  change (removelast ((k, v) :: p :: t')) with ((k, v) :: removelast (p :: t')).
  remember (p :: t') as t eqn:Et.
  cbn [akeys map fst]. change (map fst (removelast t)) with (akeys (removelast t)). rewrite IH.
  subst t. destruct p. reflexivity.
Qed.

Lemma In_removelast {A} (a : A) l : In a (removelast l) -> In a l.
Proof.
  induction l as [|b t IH]; [intros []|].
  destruct t as [|p t']; [intros []|].
  change (removelast (b :: p :: t')) with (b :: removelast (p :: t')).
  intros [<-|H]; [left; reflexivity|right; apply IH; exact H].
Qed.

Lemma NoDup_removelast {A} (l : list A) : NoDup l -> NoDup (removelast l).
Proof.
  induction l as [|b t IH]; intros H; [constructor|].
  destruct t as [|p t']; [constructor|].
  change (removelast (b :: p :: t')) with (b :: removelast (p :: t')).
  inversion H as [|? ? Hn Hr]; subst. constructor; [|apply IH; exact Hr].
  intros Hin. apply Hn. apply In_removelast. exact Hin.
Qed.

Lemma length_removelast {A} (l : list A) : length (removelast l) = pred (length l).
Proof.
  induction l as [|b t IH]; [reflexivity|].
  destruct t as [|p t']; [reflexivity|].
  change (removelast (b :: p :: t')) with (b :: removelast (p :: t')).
  cbn [length] in *. rewrite IH. reflexivity.
Qed.

Lemma firstn_keep x n l r :
  alookup x l = Some r -> (length (before x l) < n)%nat ->
  alookup x (firstn n l) = Some r /\ before x (firstn n l) = before x l.
Proof.
  revert n. induction l as [|[k v] t IH]; intros n; [discriminate|].
  destruct n as [|n]; [intros _ H; lia|].
  cbn [firstn alookup before]. destruct (N.eqb x k) eqn:Ex.
  - intros H _. split; [exact H|reflexivity].
  - intros H Hl. cbn [length] in Hl. destruct (IH n H) as [H1 H2]; [lia|].
    split; [exact H1|]. rewrite H2. reflexivity.
Qed.

Lemma akeys_firstn n (l : lru) : akeys (firstn n l) = firstn n (akeys l).
Proof. unfold akeys. rewrite firstn_map. reflexivity. Qed.

Lemma In_firstn {A} n (a : A) l : In a (firstn n l) -> In a l.
Proof. revert n. induction l; intros [|n]; cbn; try tauto. intros [H|H]; [left; exact H|right; eapply IHl; exact H]. Qed.

Lemma NoDup_firstn {A} n (l : list A) : NoDup l -> NoDup (firstn n l).
Proof.
  revert n. induction l as [|b t IH]; intros n H; [rewrite firstn_nil; constructor|].
  destruct n; [constructor|]. cbn [firstn]. inversion H as [|? ? Hn Hr]; subst.
  constructor; [|apply IH; exact Hr].
  intros Hin. apply Hn. apply (In_firstn n _ _ Hin).
Qed.

Lemma In_aremove {V} (k k' : N) (v : V) m : In (k, v) (aremove k' m) -> In (k, v) m.
Proof.
  induction m as [|[k2 v2] r IH]; cbn [aremove]; [intros []|].
  destruct (N.eqb k' k2); [intros H; right; apply IH; exact H|].
  intros [H|H]; [left; exact H|right; apply IH; exact H].
Qed.

Lemma length_aremove_present {V} k (m : amap V) v :
  NoDup (akeys m) -> alookup k m = Some v -> length (aremove k m) = pred (length m).
Proof.
  induction m as [|[k2 v2] r IH]; cbn [aremove alookup akeys map fst]; [discriminate|].
  intros Hnd. inversion Hnd as [|? ? Hn Hr]; subst.
  destruct (N.eqb k k2) eqn:E.
  - apply N.eqb_eq in E. subst k2. intros _. cbn [length].
    (* k does not occur in r *)
    clear IH. assert (Hno : alookup k r = None).
    { destruct (alookup k r) eqn:L; [|reflexivity]. exfalso. apply Hn. apply In_akeys_alookup. congruence. }
    clear -Hno. induction r as [|[k3 v3] r IH]; cbn [aremove alookup length] in *; [reflexivity|].
    destruct (N.eqb k k3); [discriminate|]. cbn [length]. rewrite IH by exact Hno. reflexivity.
  - intros H. cbn [length]. rewrite (IH Hr H).
    destruct r; [discriminate|reflexivity].
Qed.

(* ------------------------------------------------------------------ *)
(* cardinalities of id sets given as lists                             *)
(* ------------------------------------------------------------------ *)
Definition card (T : list N) : N := N.of_nat (length (nodup N.eq_dec T)).

Lemma card_bound l T : NoDup l -> incl l T -> (N.of_nat (length l) <= card T)%N.
Proof.
  intros Hnd Hincl. unfold card.
  assert (H : (length l <= length (nodup N.eq_dec T))%nat).
  { apply NoDup_incl_length; [exact Hnd|]. intros a Ha. apply nodup_In. apply Hincl. exact Ha. }
  lia.
Qed.

Lemma card_mono A B : incl A B -> (card A <= card B)%N.
Proof.
  intros H. apply card_bound; [apply NoDup_nodup|].
  intros a Ha. apply nodup_In in Ha. apply H. exact Ha.
Qed.

(* ------------------------------------------------------------------ *)
(* LRU operations                                                      *)
(* ------------------------------------------------------------------ *)
Definition lru_inv (cap : N) (l : lru) : Prop := NoDup (akeys l) /\ (N.of_nat (length l) <= cap)%N.

Lemma lru_add_inv cap k v l : lru_inv cap l -> lru_inv cap (lru_add cap k v l).
Proof.
  intros [Hnd Hlen]. unfold lru_add. destruct (alookup k l) eqn:L.
  - split; [apply (NoDup_akeys_aset k v l Hnd)|].
    cbn [length]. rewrite (length_aremove_present k l k0 Hnd L).
    assert (length l <> 0)%nat by (destruct l; [discriminate|cbn; lia]). lia.
  - assert (Hnd' : NoDup (akeys ((k, v) :: l))).
    { cbn [akeys map fst]. constructor; [|exact Hnd]. intros Hin. apply In_akeys_alookup in Hin. congruence. }
    destruct (N.ltb_spec cap (N.of_nat (length ((k, v) :: l)))) as [Hlt|Hge].
    + split; [rewrite akeys_removelast; apply NoDup_removelast; exact Hnd'|].
      rewrite length_removelast. cbn [length pred]. exact Hlen.
    + split; [exact Hnd'|exact Hge].
Qed.

Lemma lru_add_head cap k v l : (0 < cap)%N -> lru_inv cap l -> exists t, lru_add cap k v l = (k, v) :: t.
Proof.
  intros Hpos [Hnd Hlen]. unfold lru_add. destruct (alookup k l) eqn:L; [eexists; reflexivity|].
  destruct (N.ltb_spec cap (N.of_nat (length ((k, v) :: l)))) as [Hlt|Hge]; [|eexists; reflexivity].
  destruct l as [|p t]; [cbn [length] in Hlt; lia|].
  change (removelast ((k, v) :: p :: t)) with ((k, v) :: removelast (p :: t)). eexists; reflexivity.
Qed.

Lemma In_lru_add cap k v l k' r : In (k', r) (lru_add cap k v l) -> In (k', r) l \/ r = v.
Proof.
  unfold lru_add. destruct (alookup k l).
  - intros [H|H]; [right; congruence|left; eapply In_aremove; exact H].
  - destruct (cap <? _)%N; intros H; [apply In_removelast in H|];
      (destruct H as [H|H]; [right; congruence|left; exact H]).
Qed.

(* retention of x when some other key y is added *)
Lemma lru_add_keep cap x y v l r T :
  lru_inv cap l -> alookup x l = Some r -> x <> y -> incl (before x l) T ->
  (card (T ++ [y]) < cap)%N ->
  alookup x (lru_add cap y v l) = Some r /\ incl (before x (lru_add cap y v l)) (T ++ [y]).
Proof.
  intros [Hnd Hlen] Hx Hne Hincl Hcard. unfold lru_add. destruct (alookup y l) eqn:L.
  - split.
    + cbn [alookup]. destruct (N.eqb x y) eqn:E; [apply N.eqb_eq in E; contradiction|].
      rewrite alookup_aremove_neq by exact Hne. exact Hx.
    + cbn [before]. destruct (N.eqb x y) eqn:E; [apply N.eqb_eq in E; contradiction|].
      intros a [<-|Ha]; [apply in_or_app; right; left; reflexivity|].
      apply in_or_app. left. apply Hincl. apply (before_aremove_incl x y l Hne). exact Ha.
  - assert (Hb : before x ((y, v) :: l) = y :: before x l).
    { cbn [before]. destruct (N.eqb x y) eqn:E; [apply N.eqb_eq in E; contradiction|reflexivity]. }
    assert (Hx' : alookup x ((y, v) :: l) = Some r).
    { cbn [alookup]. destruct (N.eqb x y) eqn:E; [apply N.eqb_eq in E; contradiction|exact Hx]. }
    assert (Hincl' : incl (before x ((y, v) :: l)) (T ++ [y])).
    { rewrite Hb. intros a [<-|Ha]; apply in_or_app; [right; left; reflexivity|left; apply Hincl; exact Ha]. }
    assert (Hnd' : NoDup (akeys ((y, v) :: l))).
    { cbn [akeys map fst]. constructor; [|exact Hnd]. intros Hin. apply In_akeys_alookup in Hin. congruence. }
    pose proof (card_bound _ _ (NoDup_before x _ Hnd') Hincl') as Hcb.
    destruct (N.ltb_spec cap (N.of_nat (length ((y, v) :: l)))) as [Hlt|Hge].
    + destruct (removelast_keep x ((y, v) :: l) r Hx') as [H1 H2]; [lia|].
      split; [exact H1|rewrite H2; exact Hincl'].
    + split; [exact Hx'|exact Hincl'].
Qed.

(* effect of a (possibly recency-refreshing) hit on key y, seen from key x *)
Lemma lru_touch_effects (t : bool) x y v l :
  NoDup (akeys l) -> alookup y l = Some v ->
  let l2 := if t then (y, v) :: aremove y l else l in
  NoDup (akeys l2) /\ length l2 = length l /\ alookup y l2 = Some v /\
  (forall k r, In (k, r) l2 -> In (k, r) l) /\
  (x <> y -> alookup x l2 = alookup x l /\ incl (before x l2) (y :: before x l)) /\
  (x = y -> incl (before x l2) (before x l)).
Proof.
  intros Hnd Hy. destruct t; cbn zeta.
  - repeat split.
    + apply (NoDup_akeys_aset y v l Hnd).
    + cbn [length]. rewrite (length_aremove_present y l v Hnd Hy).
      destruct l; [discriminate|reflexivity].
    + cbn [alookup]. rewrite N.eqb_refl. reflexivity.
    + intros k r [H|H]; [injection H as <- <-; apply alookup_In; exact Hy|eapply In_aremove; exact H].
    + cbn [alookup]. destruct (N.eqb x y) eqn:E; [apply N.eqb_eq in E; contradiction|].
      apply alookup_aremove_neq. exact H.
    + cbn [before]. destruct (N.eqb x y) eqn:E; [apply N.eqb_eq in E; contradiction|].
      intros a [<-|Ha]; [left; reflexivity|right; apply (before_aremove_incl x y l H); exact Ha].
    + intros ->. cbn [before]. rewrite N.eqb_refl. intros a [].
  - repeat split; auto.
    + intros a Ha. right. exact Ha.
    + intros _ a Ha. exact Ha.
Qed.

(* ------------------------------------------------------------------ *)
(* the cache                                                           *)
(* ------------------------------------------------------------------ *)
Section Cache.
Variable h : string -> N.
Variable slots_of : N -> N.
Notation step := (step h slots_of).
Notation run := (run h slots_of).
Notation rotations := (rotations h slots_of).
Notation chk_maintain := (chk_maintain slots_of).

Definition cache_inv (c : cache) : Prop :=
  lru_inv (kcap c) (kept c) /\
  (forall k r, In (k, r) (kept c) -> (k_reason r <= N.of_nat (length (r_data (rs c))))%N) /\
  (forall k v, alookup k (r_keys (rs c)) = Some v -> (v <= N.of_nat (length (r_data (rs c))))%N).

Definition same_decision (r r' : krec) : Prop := k_rate r' = k_rate r /\ k_reason r' = k_reason r.

Lemma krec_count_same ann r : same_decision r (krec_count ann r).
Proof. split; reflexivity. Qed.

(* what a lookup does, seen from a retained key x *)
Lemma lookup_retention x order span y c r T :
  cache_inv c -> alookup x (kept c) = Some r -> incl (before x (kept c)) T ->
  let c' := fst (lookup order span y c) in
  cache_inv c' /\ kcap c' = kcap c /\ rs c' = rs c /\ chk c' = chk c /\
  (exists r', alookup x (kept c') = Some r' /\ same_decision r r') /\
  incl (before x (kept c')) (if N.eqb y x then T else T ++ [y]).
Proof.
  intros Hinv Hx Hincl.
  assert (Hbase : cache_inv c /\ kcap c = kcap c /\ rs c = rs c /\ chk c = chk c /\
                  (exists r', alookup x (kept c) = Some r' /\ same_decision r r') /\
                  incl (before x (kept c)) (if N.eqb y x then T else T ++ [y])).
  { split; [exact Hinv|]. split; [reflexivity|]. split; [reflexivity|]. split; [reflexivity|]. split.
    - exists r. split; [exact Hx|split; reflexivity].
    - destruct (N.eqb y x); [exact Hincl|]. intros a Ha. apply in_or_app. left. apply Hincl. exact Ha. }
  assert (Hrec : forall c0, c0 = recent_add y c ->
                 cache_inv c0 /\ kcap c0 = kcap c /\ rs c0 = rs c /\ chk c0 = chk c /\
                  (exists r', alookup x (kept c0) = Some r' /\ same_decision r r') /\
                  incl (before x (kept c0)) (if N.eqb y x then T else T ++ [y])).
  { intros c0 ->. exact Hbase. }
  induction order as [|s rest IH]; cbn [lookup fst]; [exact Hbase|].
  destruct s as [| |t].
  - destruct (recent_contains y c); [apply Hrec; reflexivity|exact IH].
  - destruct (chk_check y (chk c)); [|exact IH].
    destruct span; [apply Hrec; reflexivity|exact Hbase].
  - unfold lru_get. destruct (alookup y (kept c)) as [v|] eqn:Ly; [|exact IH].
    cbn [fst]. destruct Hinv as [[Hnd Hlen] [Hreason Hkeys]].
    set (l2 := if t then (y, v) :: aremove y (kept c) else kept c).
    set (v' := match span with Some ann => krec_count ann v | None => v end).
    assert (Hsame : same_decision v v') by (unfold v'; destruct span; [apply krec_count_same|split; reflexivity]).
    destruct (lru_touch_effects t x y v (kept c) Hnd Ly) as (Hnd2 & Hlen2 & Hy2 & Hin2 & Hneq & Heq).
    fold l2 in Hnd2, Hlen2, Hy2, Hin2, Hneq, Heq.
    unfold cache_inv, lru_inv. cbn [upd_kept kept kcap rs chk].
    repeat split.
    + rewrite akeys_lru_update. exact Hnd2.
    + rewrite length_lru_update, Hlen2. exact Hlen.
    + intros k r0 Hin. apply In_lru_update in Hin. destruct Hin as [Hin| ->].
      * apply Hreason with k. apply Hin2. exact Hin.
      * destruct Hsame as [_ ->]. apply Hreason with y. apply alookup_In. exact Ly.
    + exact Hkeys.
    + destruct (N.eq_dec x y) as [->|Hne].
      * exists v'. split; [apply (alookup_lru_update_eq y v' l2 v Hy2)|].
        rewrite Ly in Hx. injection Hx as <-. exact Hsame.
      * exists r. split; [|split; reflexivity].
        rewrite alookup_lru_update_neq by exact Hne. rewrite (proj1 (Hneq Hne)). exact Hx.
    + rewrite before_lru_update. destruct (N.eqb_spec y x) as [->|Hne].
      * intros a Ha. apply Hincl. apply (Heq eq_refl). exact Ha.
      * assert (Hne' : x <> y) by congruence.
        intros a Ha. apply (proj2 (Hneq Hne')) in Ha. destruct Ha as [<-|Ha];
          apply in_or_app; [right; left; reflexivity|left; apply Hincl; exact Ha].
Qed.

Lemma fold_left_rev {A B} (g : B -> A -> B) K acc :
  fold_left g (rev K) acc = fold_right (fun k a => g a k) acc K.
Proof.
  revert acc. induction K as [|k K IH]; intros acc; cbn [rev fold_right]; [reflexivity|].
  rewrite fold_left_app. cbn [fold_left]. rewrite IH. reflexivity.
Qed.

(* Resize keeps the newest entries, in order *)
Lemma resize_fold kc (l m : lru) :
  NoDup (akeys m) -> (N.of_nat (length m) <= kc)%N ->
  (forall k v, In (k, v) m -> alookup k l = Some v) ->
  fold_right (fun k acc => match alookup k l with Some v => lru_add kc k v acc | None => acc end) [] (map fst m) = m.
Proof.
  induction m as [|[k v] t IH]; intros Hnd Hlen Hl; [reflexivity|].
  cbn [map fst fold_right]. cbn [akeys map fst] in Hnd. inversion Hnd as [|? ? Hn Hr]; subst.
  rewrite IH; [|exact Hr|cbn [length] in Hlen; lia|intros k' v' Hin; apply Hl; right; exact Hin].
  rewrite (Hl k v) by (left; reflexivity).
  unfold lru_add. destruct (alookup k t) eqn:L.
  - exfalso. apply Hn. apply In_akeys_alookup. congruence.
  - destruct (N.ltb_spec kc (N.of_nat (length ((k, v) :: t)))) as [Hlt|Hge]; [lia|reflexivity].
Qed.

Lemma resize_kept c ksz dsz wc :
  NoDup (akeys (kept c)) -> per_worker ksz wc <> 0%N ->
  kept (fst (step c (Resize ksz dsz wc))) = firstn (N.to_nat (per_worker ksz wc)) (kept c).
Proof.
  intros Hnd Hne. cbn [SentCache.step]. destruct (N.eqb_spec (per_worker ksz wc) 0) as [E|_]; [contradiction|].
  cbn [fst kept]. set (kc := per_worker ksz wc). set (l := kept c).
  assert (Hk : skipn (length (rev (map fst l)) - N.to_nat kc) (rev (map fst l)) =
               rev (map fst (firstn (N.to_nat kc) l))).
  { rewrite skipn_rev. rewrite rev_length. f_equal. rewrite firstn_map. f_equal. rewrite map_length.
    destruct (Nat.le_ge_cases (N.to_nat kc) (length l)) as [Hle|Hge].
    - replace (length l - (length l - N.to_nat kc))%nat with (N.to_nat kc) by lia. reflexivity.
    - replace (length l - (length l - N.to_nat kc))%nat with (length l) by lia.
      rewrite firstn_all. rewrite firstn_all2; [reflexivity|exact Hge]. }
  rewrite Hk. rewrite fold_left_rev.
  apply resize_fold.
  - rewrite akeys_firstn. apply NoDup_firstn. exact Hnd.
  - rewrite firstn_length. lia.
  - intros k v Hin. apply In_alookup_NoDup; [exact Hnd|]. eapply In_firstn. exact Hin.
Qed.

Lemma min_cap_le cap ops : (min_cap cap ops <= cap)%N.
Proof.
  revert cap. induction ops as [|o r IH]; intros cap; cbn [min_cap]; [lia|].
  destruct o; try apply IH.
  destruct (N.eqb (per_worker ksz wc) 0); [apply IH|lia].
Qed.

Definition reason_str (rc : reasons) (key : N) : string :=
  match reasons_get rc key with Some s => s | None => EmptyString end.

Lemma reasons_get_stable rc rc' suf key :
  r_data rc' = r_data rc ++ suf -> (key <= N.of_nat (length (r_data rc)))%N ->
  reasons_get rc' key = reasons_get rc key.
Proof.
  intros Hd Hk. unfold reasons_get. rewrite Hd. destruct (N.eqb key 0) eqn:E0; [reflexivity|].
  apply N.eqb_neq in E0. rewrite app_length.
  destruct (N.ltb_spec (N.of_nat (length (r_data rc) + length suf)) key) as [H1|H1]; [lia|].
  destruct (N.ltb_spec (N.of_nat (length (r_data rc))) key) as [H2|H2]; [lia|].
  apply nth_error_app1. lia.
Qed.

Lemma reasons_set_grows rc s :
  exists suf, r_data (fst (reasons_set h rc s)) = r_data rc ++ suf.
Proof.
  unfold reasons_set. destruct (alookup (h s) (r_keys rc)); cbn [fst r_data].
  - exists []. rewrite app_nil_r. reflexivity.
  - exists [s]. reflexivity.
Qed.

Lemma reasons_set_bound rc s :
  (forall k v, alookup k (r_keys rc) = Some v -> (v <= N.of_nat (length (r_data rc)))%N) ->
  let rc' := fst (reasons_set h rc s) in
  (forall k v, alookup k (r_keys rc') = Some v -> (v <= N.of_nat (length (r_data rc')))%N) /\
  (snd (reasons_set h rc s) <= N.of_nat (length (r_data rc')))%N.
Proof.
  intros Hk. unfold reasons_set. destruct (alookup (h s) (r_keys rc)) eqn:L; cbn [fst snd r_data r_keys].
  - split; [exact Hk|apply Hk with (h s); exact L].
  - split; [|lia]. intros k v. destruct (N.eq_dec k (h s)) as [->|Hne].
    + rewrite alookup_aset_eq. intros [= <-]. lia.
    + rewrite alookup_aset_neq by exact Hne. intros Hv. apply Hk in Hv. rewrite app_length. cbn [length]. lia.
Qed.

Lemma step_data_grows c o : exists suf, r_data (rs (fst (step c o))) = r_data (rs c) ++ suf.
Proof.
  assert (Hsame : exists suf, r_data (rs c) = r_data (rs c) ++ suf) by (exists []; rewrite app_nil_r; reflexivity).
  destruct o; cbn [SentCache.step]; try exact Hsame.
  - destruct (reasons_set h (rs c) reason) as [rs' idx] eqn:E. cbn [fst rs].
    replace rs' with (fst (reasons_set h (rs c) reason)) by (rewrite E; reflexivity). apply reasons_set_grows.
  - (* ChkSpan *)
    generalize span_order. intros order. induction order as [|s r IH]; cbn [lookup]; [exact Hsame|].
    destruct s as [| |t].
    + destruct (recent_contains id c); [exact Hsame|exact IH].
    + destruct (chk_check id (chk c)); [exact Hsame|exact IH].
    + destruct (lru_get t id (kept c)) as [[v l]|]; [exact Hsame|exact IH].
  - generalize trace_order. intros order. induction order as [|s r IH]; cbn [lookup]; [exact Hsame|].
    destruct s as [| |t].
    + destruct (recent_contains id c); [exact Hsame|exact IH].
    + destruct (chk_check id (chk c)); [exact Hsame|exact IH].
    + destruct (lru_get t id (kept c)) as [[v l]|]; [exact Hsame|exact IH].
  - destruct (N.eqb (per_worker ksz wc) 0); exact Hsame.
Qed.

Lemma run_data_grows ops c : exists suf, r_data (rs (run c ops)) = r_data (rs c) ++ suf.
Proof.
  revert c. induction ops as [|o r IH]; intros c; cbn [SentCache.run].
  - exists []. rewrite app_nil_r. reflexivity.
  - destruct (IH (fst (step c o))) as [s2 H2]. destruct (step_data_grows c o) as [s1 H1].
    exists (s1 ++ s2). rewrite H2, H1, app_assoc. reflexivity.
Qed.

(* a lookup preserves the invariant (no retained key needed) *)
Lemma lookup_inv order span y c :
  cache_inv c -> let c' := fst (lookup order span y c) in cache_inv c' /\ kcap c' = kcap c.
Proof.
  intros Hinv.
  assert (Hrec : cache_inv (recent_add y c) /\ kcap (recent_add y c) = kcap c) by (split; [exact Hinv|reflexivity]).
  induction order as [|s rest IH]; cbn [lookup fst]; [split; [exact Hinv|reflexivity]|].
  destruct s as [| |t].
  - destruct (recent_contains y c); [exact Hrec|exact IH].
  - destruct (chk_check y (chk c)); [|exact IH]. destruct span; [exact Hrec|split; [exact Hinv|reflexivity]].
  - unfold lru_get. destruct (alookup y (kept c)) as [v|] eqn:Ly; [|exact IH].
    cbn [fst]. destruct Hinv as [[Hnd Hlen] [Hreason Hkeys]].
    set (l2 := if t then (y, v) :: aremove y (kept c) else kept c).
    set (v' := match span with Some ann => krec_count ann v | None => v end).
    assert (Hsame : same_decision v v') by (unfold v'; destruct span; [apply krec_count_same|split; reflexivity]).
    destruct (lru_touch_effects t y y v (kept c) Hnd Ly) as (Hnd2 & Hlen2 & Hy2 & Hin2 & _ & _).
    fold l2 in Hnd2, Hlen2, Hy2, Hin2.
    unfold cache_inv, lru_inv. cbn [upd_kept kept kcap rs chk].
    repeat split.
    + rewrite akeys_lru_update. exact Hnd2.
    + rewrite length_lru_update, Hlen2. exact Hlen.
    + intros k r0 Hin. apply In_lru_update in Hin. destruct Hin as [Hin| ->].
      * apply Hreason with k. apply Hin2. exact Hin.
      * destruct Hsame as [_ ->]. apply Hreason with y. apply alookup_In. exact Ly.
    + exact Hkeys.
Qed.

Lemma step_inv c o : cache_inv c -> cache_inv (fst (step c o)).
Proof.
  intros Hinv. destruct o; cbn [SentCache.step]; try exact Hinv.
  - destruct Hinv as [Hlru [Hreason Hkeys]].
    pose proof (reasons_set_bound (rs c) reason Hkeys) as [Hk' Hidx].
    destruct (reasons_set_grows (rs c) reason) as [suf Hsuf].
    destruct (reasons_set h (rs c) reason) as [rs' idx] eqn:E. cbn [fst snd] in Hk', Hidx, Hsuf.
    unfold cache_inv. cbn [fst kept kcap rs]. split; [apply lru_add_inv; exact Hlru|]. split; [|exact Hk'].
    intros k r Hin. apply In_lru_add in Hin. destruct Hin as [Hin| ->].
    + apply Hreason in Hin. rewrite Hsuf, app_length. lia.
    + cbn [k_reason]. pose proof (N.mod_le idx two32). unfold two32 in *. lia.
  - apply (lookup_inv span_order (Some ann) id c Hinv).
  - apply (lookup_inv trace_order None id c Hinv).
  - destruct (N.eqb_spec (per_worker ksz wc) 0) as [E|Hne]; [exact Hinv|].
    destruct Hinv as [[Hnd Hlen] [Hreason Hkeys]].
    pose proof (resize_kept c ksz dsz wc Hnd Hne) as Hk. cbn [SentCache.step] in Hk.
    destruct (N.eqb_spec (per_worker ksz wc) 0) as [E|_]; [contradiction|]. cbn [fst kept] in Hk.
    unfold cache_inv, lru_inv. cbn [fst kept kcap rs]. rewrite Hk.
    repeat split.
    + rewrite akeys_firstn. apply NoDup_firstn. exact Hnd.
    + rewrite firstn_length. lia.
    + intros k r Hin. apply Hreason with k. eapply In_firstn. exact Hin.
    + exact Hkeys.
Qed.

Lemma run_inv ops c : cache_inv c -> cache_inv (run c ops).
Proof.
  revert c. induction ops as [|o r IH]; intros c Hinv; cbn [SentCache.run]; [exact Hinv|].
  apply IH. apply step_inv. exact Hinv.
Qed.

Lemma init_inv ksz dsz wc t0 : cache_inv (cache_init slots_of ksz dsz wc t0).
Proof.
  unfold cache_inv, lru_inv, cache_init. cbn [kept kcap rs reasons_init r_data r_keys length alookup akeys map].
  repeat split; [constructor|lia|intros k r []|discriminate].
Qed.

(* ------------------------------------------------------------------ *)
(* kept side: retention of the most recently recorded / consulted      *)
(* ------------------------------------------------------------------ *)
Lemma app_cons_assoc {A} (T : list A) y t : (T ++ [y]) ++ t = T ++ y :: t.
Proof. rewrite <- app_assoc. reflexivity. Qed.

Lemma retention x ops : forall c T r,
  cache_inv c -> alookup x (kept c) = Some r -> incl (before x (kept c)) T ->
  forallb (fun o => negb (records_kept x o)) ops = true ->
  (card (T ++ touched_others x ops) < min_cap (kcap c) ops)%N ->
  exists r', alookup x (kept (run c ops)) = Some r' /\ same_decision r r'.
Proof.
  induction ops as [|o rest IH]; intros c T r Hinv Hx Hincl Hnr Hcard; cbn [SentCache.run].
  - exists r. split; [exact Hx|split; reflexivity].
  - cbn [forallb] in Hnr. apply andb_true_iff in Hnr. destruct Hnr as [Ho Hnr].
    pose proof (step_inv c o Hinv) as Hinv'.
    assert (Hunch : kept (fst (step c o)) = kept c -> kcap (fst (step c o)) = kcap c ->
                    touched_others x (o :: rest) = touched_others x rest ->
                    min_cap (kcap c) (o :: rest) = min_cap (kcap c) rest ->
                    exists r', alookup x (kept (run (fst (step c o)) rest)) = Some r' /\ same_decision r r').
    { intros Hk Hc Ht Hm. apply (IH (fst (step c o)) T r Hinv'); [rewrite Hk; exact Hx|rewrite Hk; exact Hincl|exact Hnr|].
      rewrite Hc, <- Ht, <- Hm. exact Hcard. }
    destruct o.
    + (* RecKept *)
      cbn [records_kept] in Ho. apply negb_true_iff in Ho.
      cbn [touched_others] in Hcard. rewrite Ho in Hcard. cbn [min_cap] in Hcard. apply N.eqb_neq in Ho.
      assert (Hne : x <> id) by congruence.
      assert (Hc1 : (card (T ++ [id]) < kcap c)%N).
      { pose proof (min_cap_le (kcap c) rest). 
        pose proof (card_mono (T ++ [id]) (T ++ id :: touched_others x rest)) as Hm.
        assert (incl (T ++ [id]) (T ++ id :: touched_others x rest)).
        { intros a Ha. apply in_app_or in Ha. apply in_or_app. destruct Ha as [Ha|[<-|[]]]; [left; exact Ha|right; left; reflexivity]. }
        specialize (Hm H0). lia. }
      revert Hinv'. cbn [SentCache.step].
      destruct (reasons_set h (rs c) reason) as [rs' idx]. cbn [fst]. intros Hinv'.
      set (v := {| k_rate := store_rate rate; k_reason := (idx mod two32)%N; k_desc := desc; k_sev := sev; k_link := link; k_span := span |}) in *.
      destruct (lru_add_keep (kcap c) x id v (kept c) r T (proj1 Hinv) Hx Hne Hincl Hc1) as [Hx' Hincl'].
      apply (IH _ (T ++ [id]) r Hinv'); cbn [kept kcap]; [exact Hx'|exact Hincl'|exact Hnr|].
      rewrite app_cons_assoc. exact Hcard.
    + apply Hunch; reflexivity.
    + (* ChkSpan *)
      cbn [touched_others min_cap] in Hcard.
      destruct (lookup_retention x span_order (Some ann) id c r T Hinv Hx Hincl) as (Hi & Hc & _ & _ & [r1 [Hx1 Hs1]] & Hincl1).
      cbn [SentCache.step].
      destruct (N.eqb id x) eqn:E.
      * destruct (IH _ T r1 Hi Hx1 Hincl1 Hnr) as [r2 [Hx2 Hs2]]; [rewrite Hc; exact Hcard|].
        exists r2. split; [exact Hx2|]. destruct Hs1, Hs2. split; congruence.
      * destruct (IH _ (T ++ [id]) r1 Hi Hx1 Hincl1 Hnr) as [r2 [Hx2 Hs2]]; [rewrite Hc, app_cons_assoc; exact Hcard|].
        exists r2. split; [exact Hx2|]. destruct Hs1, Hs2. split; congruence.
    + (* ChkTrace *)
      cbn [touched_others min_cap] in Hcard.
      destruct (lookup_retention x trace_order None id c r T Hinv Hx Hincl) as (Hi & Hc & _ & _ & [r1 [Hx1 Hs1]] & Hincl1).
      cbn [SentCache.step].
      destruct (N.eqb id x) eqn:E.
      * destruct (IH _ T r1 Hi Hx1 Hincl1 Hnr) as [r2 [Hx2 Hs2]]; [rewrite Hc; exact Hcard|].
        exists r2. split; [exact Hx2|]. destruct Hs1, Hs2. split; congruence.
      * destruct (IH _ (T ++ [id]) r1 Hi Hx1 Hincl1 Hnr) as [r2 [Hx2 Hs2]]; [rewrite Hc, app_cons_assoc; exact Hcard|].
        exists r2. split; [exact Hx2|]. destruct Hs1, Hs2. split; congruence.
    + apply Hunch; reflexivity.
    + apply Hunch; reflexivity.
    + (* Resize *)
      cbn [touched_others min_cap] in Hcard.
      destruct (N.eqb_spec (per_worker ksz wc) 0) as [E|Hne].
      * apply Hunch; cbn [SentCache.step min_cap touched_others];
          destruct (N.eqb_spec (per_worker ksz wc) 0); try contradiction; reflexivity.
      * pose proof (resize_kept c ksz dsz wc (proj1 (proj1 Hinv)) Hne) as Hk.
        assert (Hkc : kcap (fst (step c (Resize ksz dsz wc))) = per_worker ksz wc).
        { cbn [SentCache.step]. destruct (N.eqb_spec (per_worker ksz wc) 0); [contradiction|reflexivity]. }
        pose proof (min_cap_le (per_worker ksz wc) rest) as Hle.
        pose proof (card_bound _ _ (NoDup_before x _ (proj1 (proj1 Hinv))) Hincl) as Hb.
        pose proof (card_mono T (T ++ touched_others x rest) (fun a Ha => in_or_app _ _ _ (or_introl Ha))) as Hm.
        destruct (firstn_keep x (N.to_nat (per_worker ksz wc)) (kept c) r Hx) as [Hx' Hb']; [lia|].
        apply (IH _ T r Hinv'); [rewrite Hk; exact Hx'|rewrite Hk, Hb'; exact Hincl|exact Hnr|].
        rewrite Hkc. lia.
    + apply Hunch; reflexivity.
Qed.

(* ------------------------------------------------------------------ *)
(* answers                                                             *)
(* ------------------------------------------------------------------ *)
Definition is_recent (s : src) : bool := match s with SRecent => true | _ => false end.

Lemma lookup_dropped_wins order span x c :
  order_ok false order = true -> chk_check x (chk c) = true -> snd (lookup order span x c) = ADropped.
Proof.
  intros Hok Hin. induction order as [|s r IH]; cbn [order_ok] in Hok; [discriminate|].
  cbn [lookup]. destruct s as [| |t].
  - destruct (recent_contains x c); [reflexivity|apply IH; exact Hok].
  - rewrite Hin. reflexivity.
  - discriminate.
Qed.

Lemma lookup_recent_wins order span x c r :
  order = SRecent :: r -> recent_contains x c = true -> snd (lookup order span x c) = ADropped.
Proof. intros -> H. cbn [lookup]. rewrite H. reflexivity. Qed.

Lemma lookup_no_kept order span x c :
  alookup x (kept c) = None ->
  match snd (lookup order span x c) with AKept _ _ _ _ _ _ => False | _ => True end.
Proof.
  intros Hn. induction order as [|s r IH]; cbn [lookup snd]; [exact I|].
  destruct s as [| |t].
  - destruct (recent_contains x c); [exact I|exact IH].
  - destruct (chk_check x (chk c)); [exact I|exact IH].
  - unfold lru_get. rewrite Hn. exact IH.
Qed.

(* a hit in the kept LRU: the answer and the new head *)
Lemma lookup_kept_hit order seen span x c r :
  order_ok seen order = true -> chk_check x (chk c) = false ->
  (existsb is_recent order = true -> recent_contains x c = false) ->
  alookup x (kept c) = Some r ->
  let v' := match span with Some ann => krec_count ann r | None => r end in
  kept (fst (lookup order span x c)) = (x, v') :: aremove x (kept c) /\
  snd (lookup order span x c) =
    AKept (k_rate r) (k_desc v') (k_sev v') (k_link v') (k_span v') (reason_str (rs c) (k_reason r)).
Proof.
  intros Hok Hnd Hrec Hx. revert seen Hok Hrec.
  induction order as [|s rest IH]; intros seen Hok Hrec; cbn [order_ok] in Hok; [discriminate|].
  cbn [lookup]. destruct s as [| |t].
  - rewrite Hrec by reflexivity. apply (IH seen Hok). intros H. apply Hrec. cbn [existsb is_recent]. reflexivity.
  - rewrite Hnd. apply (IH true Hok). intros H. apply Hrec. cbn [existsb is_recent]. exact H.
  - apply andb_true_iff in Hok. destruct Hok as [_ ->].
    unfold lru_get. rewrite Hx. cbn [fst snd upd_kept kept lru_update]. rewrite N.eqb_refl.
    split; [reflexivity|].
    unfold kept_answer, reason_str. cbn [rs upd_kept].
    destruct span; reflexivity.
Qed.

(* an answer "kept" can only come from a hit, which puts the entry at the head *)
Lemma lookup_kept_answer_inv order seen span x c rate d e l s reason :
  order_ok seen order = true ->
  snd (lookup order span x c) = AKept rate d e l s reason ->
  exists r t, kept (fst (lookup order span x c)) = (x, r) :: t /\ k_rate r = rate /\
              reason_str (rs c) (k_reason r) = reason /\ rs (fst (lookup order span x c)) = rs c /\
              kcap (fst (lookup order span x c)) = kcap c.
Proof.
  revert seen. induction order as [|sr rest IH]; intros seen Hok; cbn [order_ok] in Hok; [discriminate|].
  cbn [lookup]. destruct sr as [| |t].
  - destruct (recent_contains x c); [discriminate|apply (IH seen Hok)].
  - destruct (chk_check x (chk c)); [discriminate|apply (IH true Hok)].
  - apply andb_true_iff in Hok. destruct Hok as [_ ->].
    unfold lru_get. destruct (alookup x (kept c)) as [v|] eqn:Hx.
    + cbn [fst snd upd_kept kept lru_update rs kcap]. rewrite N.eqb_refl.
      unfold kept_answer. cbn [rs upd_kept]. intros [= <- <- <- <- <- <-].
      eexists. eexists. split; [reflexivity|].
      split; [destruct span; reflexivity|]. split; [|split; reflexivity].
      unfold reason_str. destruct span; reflexivity.
    + intros H. pose proof (lookup_no_kept rest span x c Hx) as Hn. rewrite H in Hn. destruct Hn.
Qed.

(* reasons well-formedness: an index handed out for a hash points at a string with that hash *)
Definition reasons_wf (rc : reasons) : Prop :=
  forall k v, alookup k (r_keys rc) = Some v ->
    (1 <= v)%N /\ exists s, nth_error (r_data rc) (N.to_nat (v - 1)) = Some s /\ h s = k.

Lemma reasons_set_wf rc s : reasons_wf rc -> reasons_wf (fst (reasons_set h rc s)).
Proof.
  intros Hwf. unfold reasons_set. destruct (alookup (h s) (r_keys rc)) eqn:L; cbn [fst]; [exact Hwf|].
  intros k v. cbn [r_keys r_data]. destruct (N.eq_dec k (h s)) as [->|Hne].
  - rewrite alookup_aset_eq. intros [= <-]. rewrite app_length. cbn [length]. split; [lia|].
    exists s. split; [|reflexivity].
    replace (N.to_nat (N.of_nat (length (r_data rc) + 1) - 1)) with (length (r_data rc)) by lia.
    rewrite nth_error_app2 by lia. rewrite Nat.sub_diag. reflexivity.
  - rewrite alookup_aset_neq by exact Hne. intros Hv. destruct (Hwf k v Hv) as [H1 [s' [Hs' Hh]]].
    split; [exact H1|]. exists s'. split; [|exact Hh].
    rewrite nth_error_app1; [exact Hs'|]. apply nth_error_Some. congruence.
Qed.

Lemma reasons_set_get rc s :
  reasons_wf rc ->
  (forall s', In s' (r_data rc) -> h s' = h s -> s' = s) ->
  (N.of_nat (length (r_data rc)) + 1 < two32)%N ->
  let '(rc', idx) := reasons_set h rc s in
  reasons_get rc' (idx mod two32) = Some s /\ (idx mod two32 <= N.of_nat (length (r_data rc')))%N.
Proof.
  intros Hwf Hcol Hlen. pose proof (reasons_set_wf rc s Hwf) as Hwf'.
  unfold reasons_set in *. destruct (alookup (h s) (r_keys rc)) as [v|] eqn:L; cbn [fst] in Hwf'.
  - destruct (Hwf _ _ L) as [H1 [s' [Hs' Hh]]].
    assert (Hv : (N.to_nat (v - 1) < length (r_data rc))%nat) by (apply nth_error_Some; congruence).
    rewrite N.mod_small by lia. split; [|lia].
    unfold reasons_get. destruct (N.eqb_spec v 0); [lia|].
    destruct (N.ltb_spec (N.of_nat (length (r_data rc))) v); [lia|].
    rewrite Hs'. f_equal. apply Hcol; [eapply nth_error_In; exact Hs'|exact Hh].
  - cbn [r_data]. rewrite app_length. cbn [length]. rewrite N.mod_small by lia. split; [|lia].
    unfold reasons_get. cbn [r_data]. rewrite app_length. cbn [length].
    destruct (N.eqb_spec (N.of_nat (length (r_data rc) + 1)) 0); [lia|].
    destruct (N.ltb_spec (N.of_nat (length (r_data rc) + 1)) (N.of_nat (length (r_data rc) + 1))); [lia|].
    replace (N.to_nat (N.of_nat (length (r_data rc) + 1) - 1)) with (length (r_data rc)) by lia.
    rewrite nth_error_app2 by lia. rewrite Nat.sub_diag. reflexivity.
Qed.

Lemma step_rs_wf c o : reasons_wf (rs c) -> reasons_wf (rs (fst (step c o))).
Proof.
  intros Hwf. destruct o; cbn [SentCache.step]; try exact Hwf.
  - pose proof (reasons_set_wf (rs c) reason Hwf) as H.
    destruct (reasons_set h (rs c) reason) as [rs' idx]. exact H.
  - generalize span_order. intros order. induction order as [|s r IH]; cbn [lookup]; [exact Hwf|].
    destruct s as [| |t].
    + destruct (recent_contains id c); [exact Hwf|exact IH].
    + destruct (chk_check id (chk c)); [exact Hwf|exact IH].
    + destruct (lru_get t id (kept c)) as [[v l]|]; [exact Hwf|exact IH].
  - generalize trace_order. intros order. induction order as [|s r IH]; cbn [lookup]; [exact Hwf|].
    destruct s as [| |t].
    + destruct (recent_contains id c); [exact Hwf|exact IH].
    + destruct (chk_check id (chk c)); [exact Hwf|exact IH].
    + destruct (lru_get t id (kept c)) as [[v l]|]; [exact Hwf|exact IH].
  - destruct (N.eqb (per_worker ksz wc) 0); exact Hwf.
Qed.

Lemma run_rs_wf ops c : reasons_wf (rs c) -> reasons_wf (rs (run c ops)).
Proof.
  revert c. induction ops as [|o r IH]; intros c H; cbn [SentCache.run]; [exact H|].
  apply IH. apply step_rs_wf. exact H.
Qed.

Lemma reason_str_run ops c key :
  (key <= N.of_nat (length (r_data (rs c))))%N -> reason_str (rs (run c ops)) key = reason_str (rs c) key.
Proof.
  intros Hk. destruct (run_data_grows ops c) as [suf Hs]. unfold reason_str.
  rewrite (reasons_get_stable (rs c) (rs (run c ops)) suf key Hs Hk). reflexivity.
Qed.

Lemma kept_from_head c1 x r t ops :
  cache_inv c1 -> kept c1 = (x, r) :: t ->
  forallb (fun o => negb (records_kept x o)) ops = true ->
  (card (touched_others x ops) < min_cap (kcap c1) ops)%N ->
  let c2 := run c1 ops in
  chk_check x (chk c2) = false ->
  (exists d' e' l' s', snd (step c2 (ChkTrace x)) = AKept (k_rate r) d' e' l' s' (reason_str (rs c1) (k_reason r))) /\
  (forall ann, recent_contains x c2 = false ->
     exists d' e' l' s', snd (step c2 (ChkSpan x ann)) = AKept (k_rate r) d' e' l' s' (reason_str (rs c1) (k_reason r))).
Proof.
  intros Hinv Hk Hnr Hcard c2 Hnd.
  assert (Hx : alookup x (kept c1) = Some r) by (rewrite Hk; cbn [alookup]; rewrite N.eqb_refl; reflexivity).
  assert (Hb : incl (before x (kept c1)) []) by (rewrite Hk; cbn [before]; rewrite N.eqb_refl; intros a []).
  destruct (retention x ops c1 [] r Hinv Hx Hb Hnr Hcard) as [r' [Hx' [Hrate Hreason]]].
  assert (Hkr : (k_reason r <= N.of_nat (length (r_data (rs c1))))%N).
  { apply (proj1 (proj2 Hinv)) with x. rewrite Hk. left. reflexivity. }
  pose proof (reason_str_run ops c1 (k_reason r) Hkr) as Hstr. fold c2 in Hx', Hstr.
  split.
  - destruct (lookup_kept_hit trace_order false None x c2 r' trace_order_ok Hnd) as [_ Ha]; [|exact Hx'|].
    + intros Hc. exfalso. pose proof trace_order_no_recent as Hn. unfold is_recent in Hc. rewrite Hn in Hc. discriminate.
    + cbn [SentCache.step]. rewrite Ha, Hrate, Hreason, Hstr. do 4 eexists. reflexivity.
  - intros ann Hrc.
    destruct (lookup_kept_hit span_order false (Some ann) x c2 r' span_order_ok Hnd) as [_ Ha]; [|exact Hx'|].
    + intros _. exact Hrc.
    + cbn [SentCache.step]. rewrite Ha, Hrate, Hreason, Hstr. do 4 eexists. reflexivity.
Qed.

(* C31, kept half, from a record *)
Theorem kept_recent_record c x rate reason d e l sp ops :
  cache_inv c -> reasons_wf (rs c) -> (0 < kcap c)%N ->
  (forall s', In s' (r_data (rs c)) -> h s' = h reason -> s' = reason) ->
  (N.of_nat (length (r_data (rs c))) + 1 < two32)%N ->
  forallb (fun o => negb (records_kept x o)) ops = true ->
  (card (touched_others x ops) < min_cap (kcap c) ops)%N ->
  let c2 := run (fst (step c (RecKept x rate reason d e l sp))) ops in
  chk_check x (chk c2) = false ->
  (exists d' e' l' s', snd (step c2 (ChkTrace x)) = AKept (store_rate rate) d' e' l' s' reason) /\
  (forall ann, recent_contains x c2 = false ->
     exists d' e' l' s', snd (step c2 (ChkSpan x ann)) = AKept (store_rate rate) d' e' l' s' reason).
Proof.
  intros Hinv Hwf Hpos Hcol Hlen Hnr Hcard.
  pose proof (step_inv c (RecKept x rate reason d e l sp) Hinv) as Hinv1.
  pose proof (reasons_set_get (rs c) reason Hwf Hcol Hlen) as Hget.
  revert Hinv1. cbn [SentCache.step]. destruct (reasons_set h (rs c) reason) as [rs' idx]. cbn [fst].
  destruct Hget as [Hget Hidx].
  set (v := {| k_rate := store_rate rate; k_reason := (idx mod two32)%N; k_desc := d; k_sev := e; k_link := l; k_span := sp |}).
  destruct (lru_add_head (kcap c) x v (kept c) Hpos (proj1 Hinv)) as [t Ht].
  set (c1 := {| kept := lru_add (kcap c) x v (kept c); kcap := kcap c; rs := rs'; chk := chk c; recent := recent c; now := now c |}).
  intros Hinv1 Hnd.
  pose proof (kept_from_head c1 x v t ops Hinv1 Ht Hnr Hcard Hnd) as H.
  assert (Hs : reason_str (rs c1) (k_reason v) = reason) by (unfold reason_str; cbn [rs c1 k_reason v]; rewrite Hget; reflexivity).
  rewrite Hs in H. exact H.
Qed.

(* C31, kept half, from a consultation that answered "kept" *)
Theorem kept_recent_consult c x (span : option N) rate d e l s reason ops :
  cache_inv c ->
  let o := match span with Some ann => ChkSpan x ann | None => ChkTrace x end in
  snd (step c o) = AKept rate d e l s reason ->
  forallb (fun o => negb (records_kept x o)) ops = true ->
  (card (touched_others x ops) < min_cap (kcap c) ops)%N ->
  let c2 := run (fst (step c o)) ops in
  chk_check x (chk c2) = false ->
  (exists d' e' l' s', snd (step c2 (ChkTrace x)) = AKept rate d' e' l' s' reason) /\
  (forall ann, recent_contains x c2 = false ->
     exists d' e' l' s', snd (step c2 (ChkSpan x ann)) = AKept rate d' e' l' s' reason).
Proof.
  intros Hinv o Hans Hnr Hcard.
  pose proof (step_inv c o Hinv) as Hinv1.
  assert (Hex : exists r t, kept (fst (step c o)) = (x, r) :: t /\ k_rate r = rate /\
              reason_str (rs c) (k_reason r) = reason /\ rs (fst (step c o)) = rs c /\ kcap (fst (step c o)) = kcap c).
  { unfold o in *. destruct span; cbn [SentCache.step] in *.
    - apply (lookup_kept_answer_inv span_order false (Some n) x c rate d e l s reason span_order_ok Hans).
    - apply (lookup_kept_answer_inv trace_order false None x c rate d e l s reason trace_order_ok Hans). }
  destruct Hex as (r & t & Hk & Hrate & Hstr & Hrs & Hkc).
  intros c2 Hnd. rewrite <- Hkc in Hcard.
  pose proof (kept_from_head _ x r t ops Hinv1 Hk Hnr Hcard Hnd) as H.
  rewrite Hrs, Hstr, Hrate in H. exact H.
Qed.

(* C31, resize *)
Theorem resize_newest c ksz dsz wc :
  cache_inv c -> per_worker ksz wc <> 0%N ->
  kept (fst (step c (Resize ksz dsz wc))) = firstn (N.to_nat (per_worker ksz wc)) (kept c).
Proof. intros Hinv. apply resize_kept. exact (proj1 (proj1 Hinv)). Qed.

(* ------------------------------------------------------------------ *)
(* dropped side                                                        *)
(* ------------------------------------------------------------------ *)
Definition in_cur (x : N) (c : cache) : Prop := In x (g_items (cur (chk c))).
Definition in_fut (x : N) (c : cache) : Prop := exists f, fut (chk c) = Some f /\ In x (g_items f).
Definition in_q (x : N) (c : cache) : Prop := In x (queue (chk c)).

Lemma fold_insert q : forall g,
  let g' := fold_left (fun g x => gen_insert x g) q g in
  g_items g' = rev q ++ g_items g /\ g_count g' = (g_count g + N.of_nat (length q))%N /\
  g_slots g' = g_slots g /\ g_cap g' = g_cap g.
Proof.
  induction q as [|a q IH]; intros g; cbn [fold_left rev length app].
  - repeat split. lia.
  - destruct (IH (gen_insert a g)) as (H1 & H2 & H3 & H4). cbn zeta in *.
    rewrite H1, H2, H3, H4. cbn [gen_insert g_items g_count g_slots g_cap].
    repeat split; [rewrite <- app_assoc; reflexivity|lia].
Qed.

Lemma lookup_frame order span y c :
  let c' := fst (lookup order span y c) in chk c' = chk c /\ now c' = now c.
Proof.
  induction order as [|s r IH]; cbn [lookup fst]; [split; reflexivity|].
  destruct s as [| |t].
  - destruct (recent_contains y c); [split; reflexivity|exact IH].
  - destruct (chk_check y (chk c)); [|exact IH]. destruct span; split; reflexivity.
  - destruct (lru_get t y (kept c)) as [[v l]|]; [split; reflexivity|exact IH].
Qed.

Lemma drain_cur_incl k x : In x (g_items (cur k)) -> In x (g_items (cur (chk_drain k))).
Proof.
  intros H. unfold chk_drain. cbn [cur]. destruct (fold_insert (queue k) (cur k)) as [-> _].
  apply in_or_app. right. exact H.
Qed.

Lemma drain_queue_cur k x : In x (queue k) -> In x (g_items (cur (chk_drain k))).
Proof.
  intros H. unfold chk_drain. cbn [cur]. destruct (fold_insert (queue k) (cur k)) as [-> _].
  apply in_or_app. left. apply in_rev in H. exact H.
Qed.

Lemma maintain_norot k : chk_rotates k = false ->
  cur (chk_maintain k) = cur (chk_drain k) /\
  (forall f, fut (chk_drain k) = Some f -> fut (chk_maintain k) = Some f).
Proof.
  unfold chk_rotates, chk_maintain. intros ->. cbn [cur fut]. split; [reflexivity|].
  intros f ->. reflexivity.
Qed.

Lemma maintain_rot k f : chk_rotates k = true -> fut (chk_drain k) = Some f -> cur (chk_maintain k) = f.
Proof. unfold chk_rotates, chk_maintain. intros -> ->. reflexivity. Qed.

Definition rot_of (c : cache) (o : op) : bool :=
  match o with Maintain => chk_rotates (chk c) | _ => false end.

Lemma step_in_cur x c o : in_cur x c -> rot_of c o = false -> in_cur x (fst (step c o)).
Proof.
  unfold in_cur. intros H Hr. destruct o; cbn [SentCache.step]; try exact H.
  - destruct (reasons_set h (rs c) reason). exact H.
  - cbn [fst upd_chk chk recent_add upd_recent]. unfold chk_add.
    destruct (_ <? _)%N; exact H.
  - rewrite (proj1 (lookup_frame span_order (Some ann) id c)). exact H.
  - rewrite (proj1 (lookup_frame trace_order None id c)). exact H.
  - cbn [fst upd_chk chk]. apply drain_cur_incl. exact H.
  - cbn [fst upd_chk chk]. cbn [rot_of] in Hr. rewrite (proj1 (maintain_norot _ Hr)). apply drain_cur_incl. exact H.
  - destruct (N.eqb (per_worker ksz wc) 0); exact H.
Qed.

Lemma rotations_cons c o r : rotations c (o :: r) = ((if rot_of c o then 1 else 0) + rotations (fst (step c o)) r)%nat.
Proof. destruct o; reflexivity. Qed.

Lemma run_in_cur x ops : forall c, in_cur x c -> rotations c ops = 0%nat -> in_cur x (run c ops).
Proof.
  induction ops as [|o r IH]; intros c H Hr; cbn [SentCache.run]; [exact H|].
  rewrite rotations_cons in Hr. destruct (rot_of c o) eqn:E; [lia|].
  apply IH; [apply step_in_cur; assumption|lia].
Qed.

Lemma step_in_fut x c o : in_fut x c -> rot_of c o = false -> in_fut x (fst (step c o)).
Proof.
  unfold in_fut. intros [f [Hf Hin]] Hr. destruct o; cbn [SentCache.step]; try (exists f; split; assumption).
  - destruct (reasons_set h (rs c) reason). exists f; split; assumption.
  - cbn [fst upd_chk chk recent_add upd_recent]. unfold chk_add.
    destruct (_ <? _)%N; exists f; split; assumption.
  - rewrite (proj1 (lookup_frame span_order (Some ann) id c)). exists f; split; assumption.
  - rewrite (proj1 (lookup_frame trace_order None id c)). exists f; split; assumption.
  - cbn [fst upd_chk chk]. unfold chk_drain. cbn [fut]. rewrite Hf. cbn [option_map].
    eexists. split; [reflexivity|]. destruct (fold_insert (queue (chk c)) f) as [-> _]. apply in_or_app. right. exact Hin.
  - cbn [fst upd_chk chk]. cbn [rot_of] in Hr.
    eexists. split.
    + apply (proj2 (maintain_norot _ Hr)). unfold chk_drain. cbn [fut]. rewrite Hf. reflexivity.
    + destruct (fold_insert (queue (chk c)) f) as [-> _]. apply in_or_app. right. exact Hin.
  - destruct (N.eqb (per_worker ksz wc) 0); cbn [fst chk fut]; exists f; split; assumption.
Qed.

Lemma step_rot_fut_cur x c : in_fut x c -> chk_rotates (chk c) = true -> in_cur x (fst (step c Maintain)).
Proof.
  unfold in_fut, in_cur. intros [f [Hf Hin]] Hr. cbn [SentCache.step fst upd_chk chk].
  erewrite maintain_rot; [|exact Hr|unfold chk_drain; cbn [fut]; rewrite Hf; reflexivity].
  destruct (fold_insert (queue (chk c)) f) as [-> _]. apply in_or_app. right. exact Hin.
Qed.

Lemma run_two_gen x ops : forall c,
  in_cur x c -> in_fut x c -> (rotations c ops <= 1)%nat -> in_cur x (run c ops).
Proof.
  induction ops as [|o r IH]; intros c Hc Hf Hr; cbn [SentCache.run]; [exact Hc|].
  rewrite rotations_cons in Hr. destruct (rot_of c o) eqn:E.
  - destruct o; try discriminate. cbn [rot_of] in E.
    apply run_in_cur; [apply step_rot_fut_cur; assumption|lia].
  - apply IH; [apply step_in_cur; assumption|apply step_in_fut; assumption|lia].
Qed.

Definition draining (o : op) : bool := match o with Drain | Maintain => true | _ => false end.

Lemma step_in_q x c o : in_q x c -> draining o = false -> in_q x (fst (step c o)).
Proof.
  unfold in_q. intros H Hd. destruct o; cbn [SentCache.step]; try discriminate; try exact H.
  - destruct (reasons_set h (rs c) reason). exact H.
  - cbn [fst upd_chk chk recent_add upd_recent]. unfold chk_add.
    destruct (_ <? _)%N; [cbn [queue]; apply in_or_app; left; exact H|exact H].
  - rewrite (proj1 (lookup_frame span_order (Some ann) id c)). exact H.
  - rewrite (proj1 (lookup_frame trace_order None id c)). exact H.
  - destruct (N.eqb (per_worker ksz wc) 0); exact H.
Qed.

Lemma run_in_q x ops : forall c, in_q x c -> forallb (fun o => negb (draining o)) ops = true -> in_q x (run c ops).
Proof.
  induction ops as [|o r IH]; intros c H Hd; cbn [SentCache.run]; [exact H|].
  cbn [forallb] in Hd. apply andb_true_iff in Hd. destruct Hd as [Ho Hd]. apply negb_true_iff in Ho.
  apply IH; [apply step_in_q; assumption|exact Hd].
Qed.

Lemma recdropped_in_q x c :
  (N.of_nat (length (queue (chk c))) < add_queue_depth)%N -> in_q x (fst (step c (RecDropped x))).
Proof.
  intros Hlt. unfold in_q. cbn [SentCache.step fst upd_chk chk recent_add upd_recent]. unfold chk_add.
  destruct (N.ltb_spec (N.of_nat (length (queue (chk c)))) add_queue_depth) as [_|H]; [|lia].
  cbn [queue]. apply in_or_app. right. left. reflexivity.
Qed.

Lemma drain_in_cur x c : in_q x c -> in_cur x (fst (step c Drain)).
Proof. unfold in_q, in_cur. intros H. cbn [SentCache.step fst upd_chk chk]. apply drain_queue_cur. exact H. Qed.

Lemma drain_in_fut x c : in_q x c -> fut (chk c) <> None -> in_fut x (fst (step c Drain)).
Proof.
  unfold in_q, in_fut. intros H Hf. cbn [SentCache.step fst upd_chk chk]. unfold chk_drain. cbn [fut].
  destruct (fut (chk c)) as [f|]; [|contradiction]. cbn [option_map]. eexists. split; [reflexivity|].
  destruct (fold_insert (queue (chk c)) f) as [-> _]. apply in_or_app. left. apply in_rev in H. exact H.
Qed.

Lemma in_cur_answers x c : in_cur x c ->
  snd (step c (ChkTrace x)) = ADropped /\ forall ann, snd (step c (ChkSpan x ann)) = ADropped.
Proof.
  unfold in_cur. intros H. apply mem_N_In in H. split; [|intros ann]; cbn [SentCache.step].
  - apply lookup_dropped_wins; [exact trace_order_ok|exact H].
  - apply lookup_dropped_wins; [exact span_order_ok|exact H].
Qed.

(* C31, dropped half *)
Theorem dropped_wins c x : chk_check x (chk c) = true ->
  snd (step c (ChkTrace x)) = ADropped /\ forall ann, snd (step c (ChkSpan x ann)) = ADropped.
Proof. intros H. apply in_cur_answers. apply mem_N_In. exact H. Qed.

Theorem dropped_until_rotation c x ops1 ops2 :
  (N.of_nat (length (queue (chk c))) < add_queue_depth)%N ->
  forallb (fun o => negb (draining o)) ops1 = true ->
  let c1 := run (fst (step c (RecDropped x))) ops1 in
  let c2 := fst (step c1 Drain) in
  (rotations c2 ops2 = 0%nat \/ (fut (chk c1) <> None /\ (rotations c2 ops2 <= 1)%nat)) ->
  let c3 := run c2 ops2 in
  snd (step c3 (ChkTrace x)) = ADropped /\ forall ann, snd (step c3 (ChkSpan x ann)) = ADropped.
Proof.
  intros Hq Hnd c1 c2 Hrot c3. apply in_cur_answers.
  assert (Hin : in_q x c1) by (apply run_in_q; [apply recdropped_in_q; exact Hq|exact Hnd]).
  destruct Hrot as [H0|[Hf H1]].
  - apply run_in_cur; [apply drain_in_cur; exact Hin|exact H0].
  - apply run_two_gen; [apply drain_in_cur; exact Hin|apply drain_in_fut; assumption|exact H1].
Qed.

(* a Maintain that does not rotate also drains *)
Theorem dropped_after_maintain c x : in_q x c -> chk_rotates (chk c) = false -> in_cur x (fst (step c Maintain)).
Proof.
  unfold in_q, in_cur. intros H Hr. cbn [SentCache.step fst upd_chk chk].
  rewrite (proj1 (maintain_norot _ Hr)). apply drain_queue_cur. exact H.
Qed.

(* rotation happens only when the current filter holds more than its nominal capacity *)
Lemma thresholds_facts :
  (half_num * full_den <= full_num * half_den)%N /\ (96 * full_den <= 100 * full_num)%N /\
  (0 < full_den)%N /\ (0 < half_den)%N.
Proof.
  pose proof thresholds_ok_true as H. unfold thresholds_ok in H.
  repeat (apply andb_true_iff in H; destruct H as [H ?]).
  repeat split; lia.
Qed.

Theorem rotation_only_when_filled k :
  chk_rotates k = true ->
  let g := cur (chk_drain k) in
  (100 * g_cap g <= 96 * g_slots g)%N -> (g_cap g < g_count g)%N.
Proof.
  intros H g Hs. unfold chk_rotates, load_gt in H. fold g in H.
  destruct thresholds_facts as (_ & H96 & Hfd & _).
  apply N.ltb_lt in H.
  assert (H1 : (100 * g_cap g * full_den <= 96 * g_slots g * full_den)%N) by (apply N.mul_le_mono_r; exact Hs).
  assert (H2 : (96 * full_den * g_slots g <= 100 * full_num * g_slots g)%N) by (apply N.mul_le_mono_r; exact H96).
  assert (H3 : (100 * (full_num * g_slots g) < 100 * (full_den * g_count g))%N) by (apply N.mul_lt_mono_pos_l; [lia|exact H]).
  assert (H4 : (full_den * g_cap g < full_den * g_count g)%N) by nia.
  apply N.mul_lt_mono_pos_l in H4; [exact H4|exact Hfd].
Qed.

Theorem full_implies_half k :
  chk_rotates k = true -> load_gt half_num half_den (cur (chk_drain k)) = true.
Proof.
  unfold chk_rotates, load_gt. set (g := cur (chk_drain k)). intros H.
  destruct thresholds_facts as (Hhf & _ & Hfd & Hhd).
  apply N.ltb_lt in H. apply N.ltb_lt.
  assert (H1 : (half_num * full_den * g_slots g <= full_num * half_den * g_slots g)%N) by (apply N.mul_le_mono_r; exact Hhf).
  assert (H2 : (half_den * (full_num * g_slots g) < half_den * (full_den * g_count g))%N) by (apply N.mul_lt_mono_pos_l; [exact Hhd|exact H]).
  assert (H3 : (full_den * (half_num * g_slots g) < full_den * (half_den * g_count g))%N) by nia.
  apply N.mul_lt_mono_pos_l in H3; [exact H3|exact Hfd].
Qed.

(* hence the filter installed by a rotation is never the "nil" of the Go code *)
Theorem rotation_installs_a_filter k :
  chk_rotates k = true ->
  (exists f, fut (chk_drain k) = Some f /\ cur (chk_maintain k) = f) \/
  (fut (chk_drain k) = None /\ cur (chk_maintain k) = new_gen slots_of (capa k)
   /\ load_gt half_num half_den (cur (chk_drain k)) = true).
Proof.
  intros H. pose proof (full_implies_half k H) as Hh.
  unfold chk_rotates in H. unfold chk_maintain. rewrite H, Hh.
  destruct (fut (chk_drain k)) as [f|] eqn:E; [left; exists f; split; reflexivity|right].
  repeat split.
Qed.

(* after a rotation a future generation exists again: drops recorded from then on go into both generations
   and survive the next rotation (dropped_until_rotation with its second alternative) *)
Theorem rotation_creates_a_future k :
  chk_rotates k = true -> fut (chk_maintain k) = Some (new_gen slots_of (capa k)).
Proof.
  intros H. unfold chk_rotates in H. unfold SentCache.chk_maintain. rewrite H. cbn [fut].
  replace rotation_creates_future with true by reflexivity. reflexivity.
Qed.

(* the recent-drop set makes CheckSpan answer "dropped" immediately, before any drain *)
Theorem checkspan_recent c x ann :
  snd (step (fst (step c (RecDropped x))) (ChkSpan x ann)) = ADropped.
Proof.
  destruct span_order_recent_first as [r Hr]. cbn [SentCache.step fst].
  apply (lookup_recent_wins _ _ _ _ r Hr).
  unfold recent_contains. cbn [upd_chk recent now recent_add upd_recent]. rewrite alookup_aset_eq.
  pose proof recent_ttl_nonneg. destruct (Z.ltb_spec (now c + recent_drop_ttl) (now c)); [lia|reflexivity].
Qed.

Theorem reachable_inv ksz dsz wc t0 ops :
  let c := run (cache_init slots_of ksz dsz wc t0) ops in cache_inv c /\ reasons_wf (rs c).
Proof.
  cbn zeta. split.
  - apply run_inv. apply init_inv.
  - apply run_rs_wf. intros k v. cbn. discriminate.
Qed.

End Cache.
