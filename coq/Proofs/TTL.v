(* Refinement of the lazily-cleaned TTL containers to the liveness specification. *)
From Refinery Require Import Lib.Base Model.TTL.

Lemma filter_aremove {V} (f : N * V -> bool) k (m : amap V) :
  filter f (aremove k m) = aremove k (filter f m).
Proof.
  induction m as [|[k' v] r IH]; cbn [aremove filter]; [reflexivity|].
  destruct (N.eqb k k') eqn:E.
  - destruct (f (k', v)); [cbn [aremove]; rewrite E|]; exact IH.
  - cbn [filter]. destruct (f (k', v)); [cbn [aremove]; rewrite E, IH; reflexivity|exact IH].
Qed.

Definition toexp (ttl : Z) (kv : N * (Z * N)) : N * (Z * N) :=
  (fst kv, (fst (snd kv) + ttl, snd (snd kv))).

Lemma map_toexp_aremove ttl k m : map (toexp ttl) (aremove k m) = aremove k (map (toexp ttl) m).
Proof.
  induction m as [|[k' [a v]] r IH]; cbn [aremove map]; [reflexivity|].
  unfold toexp at 2. cbn [fst snd]. destruct (N.eqb k k'); [exact IH|].
  cbn [map]. rewrite IH. reflexivity.
Qed.

Lemma keepf_toexp ttl nw kv : keepf nw (toexp ttl kv) = live ttl nw kv.
Proof.
  unfold keepf, expired, live, toexp. cbn [fst snd].
  destruct (Z.ltb_spec (fst (snd kv) + ttl) nw), (Z.leb_spec nw (fst (snd kv) + ttl)); cbn; lia || reflexivity.
Qed.

Lemma cleanup_map_toexp ttl nw m :
  cleanup nw (map (toexp ttl) m) = map (toexp ttl) (filter (live ttl nw) m).
Proof.
  unfold cleanup. induction m as [|kv r IH]; cbn [map filter]; [reflexivity|].
  rewrite keepf_toexp. destruct (live ttl nw kv); [cbn [map]; rewrite IH|]; auto.
Qed.

Lemma filter_filter_impl {A} (f g : A -> bool) (l : list A) :
  (forall x, g x = true -> f x = true) -> filter g (filter f l) = filter g l.
Proof.
  intros H. induction l as [|x r IH]; cbn [filter]; [reflexivity|].
  destruct (f x) eqn:F; cbn [filter].
  - destruct (g x); rewrite IH; reflexivity.
  - destruct (g x) eqn:G; [rewrite (H _ G) in F; discriminate|exact IH].
Qed.

Lemma cleanup_mono nw nw' m : nw <= nw' -> cleanup nw' (cleanup nw m) = cleanup nw' m.
Proof.
  intros Hle. apply filter_filter_impl. intros [k [e v]]. unfold keepf, expired. cbn [fst snd].
  destruct (Z.ltb_spec e nw'), (Z.ltb_spec e nw); cbn; intros; lia || reflexivity || discriminate.
Qed.

Lemma live_mono ttl nw nw' m :
  nw <= nw' -> filter (live ttl nw') (filter (live ttl nw) m) = filter (live ttl nw') m.
Proof.
  intros Hle. apply filter_filter_impl. intros [k [a v]]. unfold live. cbn [fst snd].
  rewrite !Z.leb_le. lia.
Qed.

Lemma akeys_map_toexp ttl m : akeys (map (toexp ttl) m) = akeys m.
Proof. unfold akeys. rewrite map_map. apply map_ext. intros [k [a v]]. reflexivity. Qed.

Lemma alookup_map_toexp ttl k m :
  alookup k (map (toexp ttl) m) = option_map (fun av => (fst av + ttl, snd av)) (alookup k m).
Proof.
  induction m as [|[k' [a v]] r IH]; cbn [map alookup option_map]; [reflexivity|].
  unfold toexp at 1. cbn [fst snd]. destruct (N.eqb k k'); [reflexivity|exact IH].
Qed.

(* the refinement relation *)
Definition R (ttl : Z) (s : tstate) (sp : tspec) : Prop :=
  now s = snow sp /\ NoDup (akeys (items s)) /\ NoDup (akeys (last sp)) /\
  cleanup (now s) (items s) = map (toexp ttl) (live_entries ttl sp).

Lemma R_init ttl t0 : R ttl (tinit t0) (sinit t0).
Proof. unfold R, tinit, sinit, live_entries. cbn. repeat split; constructor. Qed.

Lemma step_refines ttl s sp o :
  0 <= ttl -> op_ok o = true -> R ttl s sp ->
  snd (tstep ttl s o) = snd (sstep ttl sp o) /\ R ttl (fst (tstep ttl s o)) (fst (sstep ttl sp o)).
Proof.
  intros Httl Hop (Hnow & Hnd & Hnds & Hcl).
  destruct o as [k v|k|k| | | |d]; cbn [tstep sstep fst snd].
  - (* Put *)
    split; [reflexivity|]. unfold R. cbn [now items snow last].
    split; [exact Hnow|]. split; [apply NoDup_akeys_aset; exact Hnd|].
    split; [apply NoDup_akeys_aset; exact Hnds|].
    unfold live_entries, cleanup, aset in *. cbn [snow last filter].
    assert (K1 : keepf (now s) (k, (now s + ttl, v)) = true).
    { unfold keepf, expired. cbn [fst snd]. destruct (Z.ltb_spec (now s + ttl) (now s)); [lia|reflexivity]. }
    assert (K2 : live ttl (snow sp) (k, (snow sp, v)) = true).
    { unfold live. cbn [fst snd]. apply Z.leb_le. lia. }
    rewrite K1, K2. cbn [map]. rewrite !filter_aremove, map_toexp_aremove, Hcl.
    unfold toexp at 1. cbn [fst snd]. rewrite Hnow. reflexivity.
  - (* Del *)
    split; [reflexivity|]. unfold R. cbn [now items snow last].
    split; [exact Hnow|]. split; [apply NoDup_akeys_aremove; exact Hnd|].
    split; [apply NoDup_akeys_aremove; exact Hnds|].
    unfold live_entries, cleanup in *. cbn [snow last].
    rewrite !filter_aremove, map_toexp_aremove, Hcl. reflexivity.
  - (* Get *)
    split; [|unfold R; auto].
    f_equal.
    assert (E : alookup k (cleanup (now s) (items s)) =
                alookup k (map (toexp ttl) (live_entries ttl sp))) by (rewrite Hcl; reflexivity).
    unfold cleanup in E. rewrite (alookup_filter _ _ _ Hnd) in E.
    rewrite alookup_map_toexp in E.
    destruct (alookup k (items s)) as [[e v]|] eqn:L.
    + unfold keepf in E. cbn [fst snd] in E.
      destruct (expired (now s) e); cbn [negb] in E;
        destruct (alookup k (live_entries ttl sp)) as [[a v']|]; cbn [option_map fst snd] in *;
        congruence.
    + destruct (alookup k (live_entries ttl sp)); cbn [option_map] in *; congruence.
  - (* Keys *)
    split.
    + f_equal. rewrite Hcl. apply akeys_map_toexp.
    + unfold R. cbn [now items]. split; [exact Hnow|].
      split; [apply NoDup_akeys_filter; exact Hnd|]. split; [exact Hnds|].
      rewrite cleanup_mono by lia. exact Hcl.
  - (* Vals *)
    split.
    + f_equal. rewrite Hcl, map_map. apply map_ext. intros [k [a v]]. reflexivity.
    + unfold R. cbn [now items]. split; [exact Hnow|].
      split; [apply NoDup_akeys_filter; exact Hnd|]. split; [exact Hnds|].
      rewrite cleanup_mono by lia. exact Hcl.
  - (* Len *)
    split.
    + f_equal. rewrite Hcl, map_length. reflexivity.
    + unfold R. cbn [now items]. split; [exact Hnow|].
      split; [apply NoDup_akeys_filter; exact Hnd|]. split; [exact Hnds|].
      rewrite cleanup_mono by lia. exact Hcl.
  - (* Advance *)
    cbn [op_ok] in Hop. apply Z.leb_le in Hop.
    split; [reflexivity|]. unfold R. cbn [now items snow last].
    split; [lia|]. split; [exact Hnd|]. split; [exact Hnds|].
    rewrite <- (cleanup_mono (now s) (now s + d)) by lia. rewrite Hcl.
    unfold live_entries. cbn [snow last]. rewrite cleanup_map_toexp.
    rewrite Hnow. rewrite live_mono by lia. reflexivity.
Qed.

Lemma run_refines ttl ops : forall s sp,
  0 <= ttl -> ops_ok ops = true -> R ttl s sp -> trun ttl s ops = srun ttl sp ops.
Proof.
  induction ops as [|o r IH]; intros s sp Httl Hok HR; cbn [trun srun]; [reflexivity|].
  cbn [ops_ok forallb] in Hok. apply andb_true_iff in Hok. destruct Hok as [Ho Hr].
  destruct (step_refines ttl s sp o Httl Ho HR) as [Hout HR'].
  destruct (tstep ttl s o) as [s' out] eqn:E1. destruct (sstep ttl sp o) as [sp' out'] eqn:E2.
  cbn [fst snd] in *. subst out'. f_equal. apply IH; assumption.
Qed.

Theorem ttl_refines_spec ttl t0 ops :
  0 <= ttl -> ops_ok ops = true -> trun ttl (tinit t0) ops = srun ttl (sinit t0) ops.
Proof. intros. apply run_refines; auto using R_init. Qed.

(* ---- spec-level facts: every query is the same liveness predicate ---- *)
Lemma spec_present_window ttl sp k a v :
  NoDup (akeys (last sp)) ->
  alookup k (last sp) = Some (a, v) ->
  (alookup k (live_entries ttl sp) = Some (a, v) <-> snow sp <= a + ttl).
Proof.
  intros Hnd L. unfold live_entries. rewrite (alookup_filter _ _ _ Hnd), L.
  unfold live. cbn [fst snd]. destruct (Z.leb_spec (snow sp) (a + ttl)); split; intros; try lia; congruence.
Qed.

Lemma spec_queries_agree ttl sp k :
  (exists v, snd (sstep ttl sp (Get k)) = OGet (Some v)) <->
  (exists l, snd (sstep ttl sp Keys) = OKeys l /\ In k l).
Proof.
  cbn [sstep snd]. split.
  - intros [v H]. eexists; split; [reflexivity|].
    apply In_akeys_alookup. injection H as H.
    destruct (alookup k (live_entries ttl sp)); [discriminate|discriminate H].
  - intros [l [H Hin]]. injection H as <-. apply In_akeys_alookup in Hin.
    destruct (alookup k (live_entries ttl sp)) as [[a v]|]; [|congruence].
    exists v. reflexivity.
Qed.

Lemma spec_len_is_keys ttl sp :
  exists l, snd (sstep ttl sp Keys) = OKeys l /\ snd (sstep ttl sp Len) = OLen (N.of_nat (length l)).
Proof.
  cbn [sstep snd]. eexists; split; [reflexivity|]. unfold akeys. rewrite map_length. reflexivity.
Qed.

(* last-add bookkeeping of the spec: after Put at time t, the item is live exactly on [t, t+ttl]
   until the next Put/Del of that key *)
Lemma spec_put_live ttl sp k v nw :
  let sp1 := fst (sstep ttl sp (Put k v)) in
  alookup k (live_entries ttl {| snow := nw; last := last sp1 |}) =
  if nw <=? snow sp + ttl then Some (snow sp, v) else None.
Proof.
  cbn [sstep fst last]. unfold live_entries, aset. cbn [snow last filter].
  unfold live at 1. cbn [fst snd].
  destruct (nw <=? snow sp + ttl).
  - cbn [alookup]. rewrite N.eqb_refl. reflexivity.
  - rewrite filter_aremove. apply alookup_aremove_eq.
Qed.
