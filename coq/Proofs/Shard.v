(* Proofs about Model/Shard.v: permutation invariance of the owner, owner membership, single hop. *)
From Refinery Require Import Lib.Base Model.Shard.
From Coq Require Import Sorting.Sorted Sorting.Permutation.

(* ---------- generic: a sorted list is determined by its multiset ---------- *)
Lemma sorted_perm_eq {A} (R : A -> A -> Prop) (l1 : list A) : forall l2,
  StronglySorted R l1 -> StronglySorted R l2 -> Permutation l1 l2 ->
  (forall x y, In x l1 -> In y l1 -> R x y -> R y x -> x = y) ->
  l1 = l2.
Proof.
  induction l1 as [|x r1 IH]; intros l2 S1 S2 P Anti.
  - apply Permutation_nil in P. subst. reflexivity.
  - destruct l2 as [|y r2]; [apply Permutation_sym, Permutation_nil in P; discriminate|].
    apply StronglySorted_inv in S1. destruct S1 as [S1 F1].
    apply StronglySorted_inv in S2. destruct S2 as [S2 F2].
    assert (Exy : x = y).
    { assert (Hx : In x (y :: r2)) by (eapply Permutation_in; [exact P|left; reflexivity]).
      assert (Hy : In y (x :: r1)) by (eapply Permutation_in; [apply Permutation_sym; exact P|left; reflexivity]).
      destruct Hx as [Hx|Hx]; [symmetry; exact Hx|].
      destruct Hy as [Hy|Hy]; [exact Hy|].
      apply Anti; [left; reflexivity|right; exact Hy| |].
      - rewrite Forall_forall in F1. apply F1. exact Hy.
      - rewrite Forall_forall in F2. apply F2. exact Hx. }
    subst y. f_equal. apply IH; [exact S1|exact S2|eapply Permutation_cons_inv; exact P|].
    intros a b Ha Hb. apply Anti; right; assumption.
Qed.

Lemma StronglySorted_map {A B} (f : A -> B) (R : B -> B -> Prop) (l : list A) :
  StronglySorted (fun a b => R (f a) (f b)) l -> StronglySorted R (map f l).
Proof.
  induction l as [|x r IH]; intros S; cbn [map]; [constructor|].
  apply StronglySorted_inv in S. destruct S as [S F]. constructor; [apply IH; exact S|].
  rewrite Forall_forall in *. intros b Hb. apply in_map_iff in Hb. destruct Hb as [a [<- Ha]]. apply F. exact Ha.
Qed.

(* ---------- byte-lexicographic order on strings is a total order ---------- *)
Lemma ascii_compare_trans_le a b c :
  Ascii.compare a b <> Gt -> Ascii.compare b c <> Gt -> Ascii.compare a c <> Gt.
Proof.
  unfold Ascii.compare. rewrite !N.compare_gt_iff. intros H1 H2 H3. lia.
Qed.

Lemma string_leb_trans : forall a b c, String.leb a b = true -> String.leb b c = true -> String.leb a c = true.
Proof.
  unfold String.leb.
  induction a as [|x a IH]; intros b c Hab Hbc.
  - destruct c; reflexivity.
  - destruct b as [|y b]; [cbn in Hab; discriminate|].
    destruct c as [|z c]; [cbn in Hbc; discriminate|].
    cbn [String.compare] in *.
    destruct (Ascii.compare x y) eqn:Exy; try discriminate.
    + apply Ascii.compare_eq_iff in Exy. subst y.
      destruct (Ascii.compare x z) eqn:Exz; try discriminate; [|reflexivity].
      apply (IH b c); assumption.
    + destruct (Ascii.compare y z) eqn:Eyz; try discriminate.
      * apply Ascii.compare_eq_iff in Eyz. subst z. rewrite Exy. reflexivity.
      * assert (Hlt : Ascii.compare x z = Lt).
        { unfold Ascii.compare in *. rewrite N.compare_lt_iff in *. lia. }
        rewrite Hlt. reflexivity.
Qed.

Definition sle (a b : addr) : Prop := String.leb a b = true.

Lemma ins_addr_perm a l : Permutation (ins_addr a l) (a :: l).
Proof.
  induction l as [|x r IH]; cbn [ins_addr]; [apply Permutation_refl|].
  destruct (String.leb a x); [apply Permutation_refl|].
  eapply Permutation_trans; [apply perm_skip; exact IH|apply perm_swap].
Qed.

Lemma sort_addrs_perm l : Permutation (sort_addrs l) l.
Proof.
  induction l as [|x r IH]; cbn [sort_addrs fold_right]; [constructor|].
  eapply Permutation_trans; [apply ins_addr_perm|apply perm_skip; exact IH].
Qed.

Lemma ins_addr_sorted a l : StronglySorted sle l -> StronglySorted sle (ins_addr a l).
Proof.
  induction l as [|x r IH]; intros S; cbn [ins_addr].
  - constructor; [constructor|constructor].
  - destruct (String.leb a x) eqn:E.
    + constructor; [exact S|]. constructor; [exact E|].
      apply StronglySorted_inv in S. destruct S as [_ F]. rewrite Forall_forall in *.
      intros y Hy. unfold sle. eapply string_leb_trans; [exact E|apply F; exact Hy].
    + apply StronglySorted_inv in S. destruct S as [S F]. constructor; [apply IH; exact S|].
      rewrite Forall_forall in *. intros y Hy.
      apply (Permutation_in _ (ins_addr_perm a r)) in Hy. destruct Hy as [<-|Hy]; [|apply F; exact Hy].
      destruct (String.leb_total a x) as [T|T]; [congruence|exact T].
Qed.

Lemma sort_addrs_sorted l : StronglySorted sle (sort_addrs l).
Proof.
  induction l as [|x r IH]; cbn [sort_addrs fold_right]; [constructor|apply ins_addr_sorted; exact IH].
Qed.

Lemma sort_addrs_perm_invariant l1 l2 : Permutation l1 l2 -> sort_addrs l1 = sort_addrs l2.
Proof.
  intros P. apply (sorted_perm_eq sle); try apply sort_addrs_sorted.
  - eapply Permutation_trans; [apply sort_addrs_perm|].
    eapply Permutation_trans; [exact P|apply Permutation_sym, sort_addrs_perm].
  - intros x y _ _. apply String.leb_antisym.
Qed.

(* ---------- the stable insertion sort is one admissible sort.Slice ---------- *)
Lemma ins_part_perm p l : Permutation (ins_part p l) (p :: l).
Proof.
  induction l as [|x r IH]; cbn [ins_part]; [apply Permutation_refl|].
  destruct (N.leb (uhash p) (uhash x)); [apply Permutation_refl|].
  eapply Permutation_trans; [apply perm_skip; exact IH|apply perm_swap].
Qed.

Lemma sort_parts_perm l : Permutation (sort_parts l) l.
Proof.
  induction l as [|x r IH]; cbn [sort_parts fold_right]; [constructor|].
  eapply Permutation_trans; [apply ins_part_perm|apply perm_skip; exact IH].
Qed.

Lemma ins_part_sorted p l : StronglySorted le_uhash l -> StronglySorted le_uhash (ins_part p l).
Proof.
  induction l as [|x r IH]; intros S; cbn [ins_part].
  - constructor; [constructor|constructor].
  - destruct (N.leb (uhash p) (uhash x)) eqn:E.
    + apply N.leb_le in E. constructor; [exact S|]. constructor; [exact E|].
      apply StronglySorted_inv in S. destruct S as [_ F]. rewrite Forall_forall in *.
      intros y Hy. specialize (F y Hy). unfold le_uhash in *. lia.
    + apply N.leb_gt in E. apply StronglySorted_inv in S. destruct S as [S F].
      constructor; [apply IH; exact S|].
      rewrite Forall_forall in *. intros y Hy.
      apply (Permutation_in _ (ins_part_perm p r)) in Hy. destruct Hy as [<-|Hy]; [|apply F; exact Hy].
      unfold le_uhash. lia.
Qed.

Lemma sort_parts_sorted l : StronglySorted le_uhash (sort_parts l).
Proof.
  induction l as [|x r IH]; cbn [sort_parts fold_right]; [constructor|apply ins_part_sorted; exact IH].
Qed.

Section ShardProofs.
  Variable H : string -> N -> N.
  Variable salt : string.
  Variables seed0 pcount : N.
  Variable strict : bool.

  Notation partitions := (partitions H salt seed0 pcount).
  Notation hash_order := (hash_order H salt seed0 pcount).
  Notation benign := (benign H salt seed0 pcount).
  Notation scan := (scan H strict).
  Notation owner := (owner H strict).
  Notation load_peers := (load_peers true).
  Notation which_with := (which_with H salt seed0 pcount strict true).

  Lemma sort_parts_hash_order lp : hash_order lp (sort_parts (partitions lp)).
  Proof. split; [apply sort_parts_perm|apply sort_parts_sorted]. Qed.

  (* ----- T1: all nodes run the same (arbitrary) sort function: no hypothesis on hashes at all ----- *)
  Lemma owner_perm_invariant_fn (srt : list part -> list part) peers1 peers2 tid :
    Permutation peers1 peers2 -> which_with srt peers1 tid = which_with srt peers2 tid.
  Proof.
    intros P. unfold Shard.which_with, Shard.load_peers.
    rewrite (sort_addrs_perm_invariant _ _ P). reflexivity.
  Qed.

  (* ----- the scan only looks at (uhash, address) ----- *)
  Definition pview (lp : list addr) (p : part) : N * addr := (uhash p, nth (pix p) lp EmptyString).

  Fixpoint scanv (tid : string) (vs : list (N * addr)) (best : addr) (mx : N) : addr :=
    match vs with
    | [] => best
    | v :: r => let h := H tid (fst v) in
                if better strict h mx then scanv tid r (snd v) h else scanv tid r best mx
    end.

  Lemma scan_scanv lp tid hs : forall b mx,
    nth (scan tid hs b mx) lp EmptyString = scanv tid (map (pview lp) hs) (nth b lp EmptyString) mx.
  Proof.
    induction hs as [|p r IH]; intros b mx; cbn [Shard.scan scanv map]; [reflexivity|].
    cbn [pview fst snd]. destruct (better strict (H tid (uhash p)) mx); apply IH.
  Qed.

  Lemma views_equal lp hs1 hs2 :
    hash_order lp hs1 -> hash_order lp hs2 -> benign lp -> map (pview lp) hs1 = map (pview lp) hs2.
  Proof.
    intros [P1 S1] [P2 S2] B.
    apply (sorted_perm_eq (fun v w => (fst v <= fst w)%N)).
    - apply StronglySorted_map. exact S1.
    - apply StronglySorted_map. exact S2.
    - apply Permutation_map. eapply Permutation_trans; [exact P1|apply Permutation_sym; exact P2].
    - intros x y Hx Hy Lxy Lyx.
      apply in_map_iff in Hx. destruct Hx as [p [<- Hp]].
      apply in_map_iff in Hy. destruct Hy as [q [<- Hq]].
      unfold pview in *. cbn [fst] in Lxy, Lyx.
      assert (E : uhash p = uhash q) by lia.
      rewrite E. f_equal. apply B; [exact (Permutation_in _ P1 Hp)|exact (Permutation_in _ P1 Hq)|exact E].
  Qed.

  (* ----- T2: any two admissible sort.Slice results (different implementations / tie orders) ----- *)
  Lemma owner_same_view lp hs1 hs2 tid :
    hash_order lp hs1 -> hash_order lp hs2 -> benign lp -> owner lp hs1 tid = owner lp hs2 tid.
  Proof.
    intros O1 O2 B. unfold Shard.owner. rewrite !scan_scanv, (views_equal lp hs1 hs2 O1 O2 B). reflexivity.
  Qed.

  Lemma owner_perm_invariant peers1 peers2 hs1 hs2 tid :
    Permutation peers1 peers2 ->
    hash_order (load_peers peers1) hs1 -> hash_order (load_peers peers2) hs2 ->
    benign (load_peers peers1) ->
    owner (load_peers peers1) hs1 tid = owner (load_peers peers2) hs2 tid.
  Proof.
    unfold Shard.load_peers. intros P. rewrite <- (sort_addrs_perm_invariant _ _ P).
    apply owner_same_view.
  Qed.

  (* ----- T3: the owner is one of the peers ----- *)
  Lemma parts_from_pix n p : forall ps ix,
    In p (parts_from H salt seed0 ix ps n) -> (ix <= pix p < ix + length ps)%nat.
  Proof.
    induction ps as [|a r IH]; intros ix Hin; cbn [parts_from] in Hin; [destruct Hin|].
    apply in_app_or in Hin. destruct Hin as [Hin|Hin].
    - unfold hashes_for in Hin. apply in_map_iff in Hin. destruct Hin as [s [<- _]]. cbn [pix length]. lia.
    - apply IH in Hin. cbn [length]. lia.
  Qed.

  Lemma scan_result tid hs : forall b mx,
    scan tid hs b mx = b \/ exists p, In p hs /\ scan tid hs b mx = pix p.
  Proof.
    induction hs as [|p r IH]; intros b mx; cbn [Shard.scan]; [left; reflexivity|].
    destruct (better strict (H tid (uhash p)) mx).
    - destruct (IH (pix p) (H tid (uhash p))) as [E|[q [Hq E]]].
      + right. exists p. split; [left; reflexivity|exact E].
      + right. exists q. split; [right; exact Hq|exact E].
    - destruct (IH b mx) as [E|[q [Hq E]]]; [left; exact E|].
      right. exists q. split; [right; exact Hq|exact E].
  Qed.

  Lemma owner_in_lp lp hs tid :
    lp <> [] -> Permutation hs (partitions lp) -> In (owner lp hs tid) lp.
  Proof.
    intros Hne P. unfold Shard.owner. apply nth_In.
    destruct (scan_result tid hs 0%nat 0%N) as [E|[p [Hp E]]]; rewrite E.
    - destruct lp; [congruence|cbn [length]; lia].
    - apply (Permutation_in _ P) in Hp. apply parts_from_pix in Hp. lia.
  Qed.

  Lemma owner_in_peers peers hs tid :
    peers <> [] -> Permutation hs (partitions (load_peers peers)) ->
    In (owner (load_peers peers) hs tid) peers.
  Proof.
    intros Hne P. apply (Permutation_in _ (sort_addrs_perm peers)).
    apply owner_in_lp; [|exact P].
    intros E. apply Hne. apply Permutation_nil. unfold Shard.load_peers in E. rewrite <- E. apply sort_addrs_perm.
  Qed.

  (* ----- T4: single hop ----- *)
  Notation node_owner := (node_owner H strict true).
  Notation route := (route H strict true).
  Notation deliver := (deliver H strict true).

  Lemma find_node_self nodes nd :
    NoDup (map self nodes) -> In nd nodes -> find_node (self nd) nodes = Some nd.
  Proof.
    induction nodes as [|x r IH]; intros ND Hin; [destruct Hin|].
    cbn [map] in ND. inversion ND as [|? ? Hnot ND']; subst.
    cbn [find_node]. destruct Hin as [->|Hin]; [rewrite String.eqb_refl; reflexivity|].
    destruct (String.eqb (self x) (self nd)) eqn:E; [|apply IH; assumption].
    apply String.eqb_eq in E. exfalso. apply Hnot. rewrite E. apply in_map. exact Hin.
  Qed.

  Lemma deliver_S f nodes a tid :
    deliver (S f) nodes a tid =
    match find_node a nodes with
    | None => ([], None)
    | Some nd => match route nd tid with
                 | Local => ([], Some a)
                 | Forward t => let '(h, c) := deliver f nodes t tid in (t :: h, c)
                 end
    end.
  Proof. reflexivity. Qed.

  (* the core: if every node computes the same owner o and o's node exists *)
  Lemma one_hop_agree nodes o e tid fuel :
    NoDup (map self nodes) ->
    (forall nd, In nd nodes -> node_owner nd tid = o) ->
    (exists nd, In nd nodes /\ self nd = o) ->
    In e nodes ->
    deliver (S (S fuel)) nodes (self e) tid =
      (if String.eqb o (self e) then [] else [o], Some o).
  Proof.
    intros ND Agree [no [Hno Eno]] He.
    assert (Local_o : forall f, deliver (S f) nodes o tid = ([], Some o)).
    { intros f. rewrite deliver_S. rewrite <- Eno at 1. rewrite (find_node_self _ _ ND Hno).
      unfold Shard.route. rewrite (Agree _ Hno), <- Eno, String.eqb_refl. reflexivity. }
    rewrite deliver_S. rewrite (find_node_self _ _ ND He).
    unfold Shard.route. rewrite (Agree _ He).
    destruct (String.eqb o (self e)) eqn:E.
    - apply String.eqb_eq in E. rewrite <- E. reflexivity.
    - rewrite (Local_o fuel). reflexivity.
  Qed.

  Definition cluster_ok (peers : list addr) (nodes : list node) : Prop :=
    peers <> [] /\ NoDup (map self nodes) /\
    (forall nd, In nd nodes -> Permutation (view nd) peers /\ hash_order (load_peers (view nd)) (nhs nd)) /\
    (forall a, In a peers -> exists nd, In nd nodes /\ self nd = a).

  Definition canonical_owner (peers : list addr) (tid : string) : addr :=
    which_with sort_parts peers tid.

  Lemma canonical_owner_in_peers peers tid : peers <> [] -> In (canonical_owner peers tid) peers.
  Proof. intros Hne. apply owner_in_peers; [exact Hne|apply sort_parts_perm]. Qed.

  Lemma one_hop peers nodes e tid fuel :
    cluster_ok peers nodes -> benign (load_peers peers) -> In e nodes ->
    let o := canonical_owner peers tid in
    In o peers /\
    deliver (S (S fuel)) nodes (self e) tid = (if String.eqb o (self e) then [] else [o], Some o).
  Proof.
    intros (Hne & ND & Views & Cover) B He o.
    split; [apply canonical_owner_in_peers; exact Hne|].
    apply one_hop_agree; [exact ND| |apply Cover, canonical_owner_in_peers; exact Hne|exact He].
    intros nd Hnd. destruct (Views nd Hnd) as [P O]. unfold o, canonical_owner, Shard.which_with, Shard.node_owner.
    apply owner_perm_invariant; [exact P|exact O|apply sort_parts_hash_order|].
    unfold Shard.load_peers in *. rewrite (sort_addrs_perm_invariant _ _ P). exact B.
  Qed.

  (* same binary everywhere (one sort function): no hash hypothesis *)
  Definition cluster_ok_fn (srt : list part -> list part) (peers : list addr) (nodes : list node) : Prop :=
    peers <> [] /\ NoDup (map self nodes) /\ (forall l, Permutation (srt l) l) /\
    (forall nd, In nd nodes -> Permutation (view nd) peers /\ nhs nd = srt (partitions (load_peers (view nd)))) /\
    (forall a, In a peers -> exists nd, In nd nodes /\ self nd = a).

  Lemma one_hop_fn srt peers nodes e tid fuel :
    cluster_ok_fn srt peers nodes -> In e nodes ->
    let o := which_with srt peers tid in
    In o peers /\
    deliver (S (S fuel)) nodes (self e) tid = (if String.eqb o (self e) then [] else [o], Some o).
  Proof.
    intros (Hne & ND & Srt & Views & Cover) He o.
    assert (Hin : In o peers) by (apply owner_in_peers; [exact Hne|apply Srt]).
    split; [exact Hin|].
    apply one_hop_agree; [exact ND| |apply Cover; exact Hin|exact He].
    intros nd Hnd. destruct (Views nd Hnd) as [P E]. unfold Shard.node_owner. rewrite E.
    apply (owner_perm_invariant_fn srt _ _ tid P).
  Qed.

  (* no node forwards to itself: a Forward target always differs from the forwarding node *)
  Lemma never_forward_to_self nd tid a : route nd tid = Forward a -> a <> self nd.
  Proof.
    unfold Shard.route. destruct (String.eqb _ (self nd)) eqn:E; [discriminate|].
    intros [= <-]. apply String.eqb_neq. exact E.
  Qed.
End ShardProofs.

(* ---------- boolean version of [benign] (used by examples and by the harness tag) ---------- *)
Section Benign.
  Variable H : string -> N -> N.
  Variable salt : string.
  Variables seed0 pcount : N.

  Definition benign_b (lp : list addr) : bool :=
    let ps := partitions H salt seed0 pcount lp in
    forallb (fun p => forallb (fun q =>
      implb (N.eqb (uhash p) (uhash q))
            (String.eqb (nth (pix p) lp EmptyString) (nth (pix q) lp EmptyString))) ps) ps.

  Lemma benign_b_sound lp : benign_b lp = true -> benign H salt seed0 pcount lp.
  Proof.
    unfold benign_b, benign. intros B p q Hp Hq E.
    rewrite forallb_forall in B. specialize (B p Hp). rewrite forallb_forall in B. specialize (B q Hq).
    apply N.eqb_eq in E. rewrite E in B. cbn [implb] in B. apply String.eqb_eq. exact B.
  Qed.
End Benign.

(* ---------- the source constructs the model mirrors are present (regenerated from the repo) ---------- *)
From Refinery Require Import Gen.GenC17.
Lemma source_shape :
  sorts_peers && peer_order_is_string_lt && sorts_hashes_by_uhash && partition_hash_is_addr_seed &&
  ppp_is_count_div_len_plus_1 && which_returns_peers_bestix && xorb which_strict which_nonstrict &&
  route_forwards_iff_not_mine = true.
Proof. reflexivity. Qed.

(* ---------- the collision hypothesis cannot be dropped for arbitrary tie orders ---------- *)
Definition Hcoll (s : string) (seed : N) : N :=
  if String.eqb s "t" then 9%N else 5%N.

Lemma collision_matters :
  let lp := ["a"; "b"]%string in
  let hs1 := [{| uhash := 5; pix := 0 |}; {| uhash := 5; pix := 1 |}]%N in
  let hs2 := [{| uhash := 5; pix := 1 |}; {| uhash := 5; pix := 0 |}]%N in
  hash_order Hcoll "x" 1 0 lp hs1 /\ hash_order Hcoll "x" 1 0 lp hs2 /\
  owner Hcoll true lp hs1 "t" <> owner Hcoll true lp hs2 "t".
Proof.
  cbv zeta. repeat split.
  - apply Permutation_refl.
  - repeat constructor; unfold le_uhash; cbn; lia.
  - apply perm_swap.
  - repeat constructor; unfold le_uhash; cbn; lia.
  - vm_compute. discriminate.
Qed.
