(* Proofs about the timestamp model (C22), part 2: msgpack timestamps and the whole pipeline. *)
From Refinery Require Import Lib.Base Model.Timestamp Proofs.TimestampText.
Local Open Scope Z_scope.

(* ------------------------------------------------------------------ msgpack timestamp *)
Lemma shiftr34_small a : 0 <= a < 2 ^ 34 -> Z.shiftr a 34 = 0.
Proof. intros H. rewrite Z.shiftr_div_pow2 by lia. apply Z.div_small. exact H. Qed.

Lemma ts64_fields sec ns :
  0 <= sec < 2 ^ 34 -> 0 <= ns ->
  Z.shiftr (Z.lor sec (Z.shiftl ns 34)) 34 = ns /\
  Z.land (Z.lor sec (Z.shiftl ns 34)) (2 ^ 34 - 1) = sec.
Proof.
  intros Hs Hn. split.
  - rewrite Z.shiftr_lor, shiftr34_small by exact Hs. rewrite Z.shiftr_shiftl_l by lia.
    change (34 - 34) with 0. rewrite Z.shiftl_0_r. reflexivity.
  - change (2 ^ 34 - 1) with (Z.ones 34). rewrite Z.land_lor_distr_l.
    rewrite !Z.land_ones by lia. rewrite Z.mod_small by exact Hs.
    rewrite Z.shiftl_mul_pow2 by lia. rewrite Z_mod_mult. apply Z.lor_0_r.
Qed.

Lemma ts64_add sec ns :
  0 <= sec < 2 ^ 34 -> 0 <= ns ->
  Z.shiftr (sec + ns * 2 ^ 34) 34 = ns /\ Z.land (sec + ns * 2 ^ 34) (2 ^ 34 - 1) = sec.
Proof.
  intros Hs Hn. split.
  - rewrite Z.shiftr_div_pow2 by lia. rewrite Z.div_add by lia. rewrite Z.div_small by exact Hs. lia.
  - change (2 ^ 34 - 1) with (Z.ones 34). rewrite Z.land_ones by lia.
    rewrite Z_mod_plus_full. apply Z.mod_small. exact Hs.
Qed.

Lemma log2_lt a n : 0 <= a < 2 ^ n -> 0 < n -> Z.log2 a < n.
Proof.
  intros H Hn. destruct (Z.eq_dec a 0) as [->|Hne]; [rewrite Z.log2_nonpos; lia|].
  apply Z.log2_lt_pow2; lia.
Qed.

Lemma lor_lt a b n : 0 <= a < 2 ^ n -> 0 <= b < 2 ^ n -> 0 < n -> 0 <= Z.lor a b < 2 ^ n.
Proof.
  intros Ha Hb Hn. assert (H0 : 0 <= Z.lor a b) by (apply Z.lor_nonneg; lia).
  split; [exact H0|].
  destruct (Z.eq_dec (Z.lor a b) 0) as [E|E]; [rewrite E; apply Z.pow_pos_nonneg; lia|].
  apply Z.log2_lt_pow2; [lia|]. rewrite Z.log2_lor by lia.
  pose proof (log2_lt a n Ha Hn). pose proof (log2_lt b n Hb Hn). lia.
Qed.

(* AppendTimeExt followed by a standard reader gives the instant back, for every instant whose
   seconds fit int64; the encoding is always well formed. *)
Lemma mts_roundtrip sec ns :
  - 2 ^ 63 <= sec < 2 ^ 63 -> 0 <= ns < 10 ^ 9 ->
  decode_mts (encode_mts (sec, ns)) = Some (sec, ns) /\ mts_wf (encode_mts (sec, ns)) = true.
Proof.
  intros Hs Hn. unfold encode_mts.
  destruct ((ns =? 0) && (0 <? sec) && (sec <=? 2 ^ 32 - 1)) eqn:E32.
  - apply andb_true_iff in E32. destruct E32 as [E32 E3]. apply andb_true_iff in E32. destruct E32 as [E1 E2].
    apply Z.eqb_eq in E1. apply Z.ltb_lt in E2. apply Z.leb_le in E3. subst ns.
    split; [reflexivity|]. unfold mts_wf. apply andb_true_iff. split; [apply Z.leb_le|apply Z.ltb_lt]; lia.
  - destruct ((sec <? 0) || (2 ^ 34 <=? sec)) eqn:E96.
    + unfold decode_mts, mts_wf.
      assert (Hns : 999999999 <? ns = false) by (apply Z.ltb_ge; lia). rewrite Hns.
      assert (Hm : 0 <= sec mod 2 ^ 64 < 2 ^ 64) by (apply Z.mod_pos_bound; lia).
      split.
      * f_equal. f_equal.
        destruct (Z_lt_dec sec 0) as [Hneg|Hpos].
        -- assert (Em : sec mod 2 ^ 64 = sec + 2 ^ 64).
           { symmetry. apply (Zmod_unique sec (2 ^ 64) (-1)); lia. }
           rewrite Em. assert (Hlt : sec + 2 ^ 64 <? 2 ^ 63 = false) by (apply Z.ltb_ge; lia).
           rewrite Hlt. lia.
        -- rewrite Z.mod_small by lia. assert (Hlt : sec <? 2 ^ 63 = true) by (apply Z.ltb_lt; lia).
           rewrite Hlt. reflexivity.
      * repeat (apply andb_true_iff; split); try (apply Z.leb_le; lia); apply Z.ltb_lt; lia.
    + apply orb_false_iff in E96. destruct E96 as [E1 E2]. apply Z.ltb_ge in E1. apply Z.leb_gt in E2.
      destruct (ts64_fields sec ns) as [Hsh Hla]; [lia|lia|].
      unfold decode_mts. rewrite Hsh, Hla.
      assert (Hns : 999999999 <? ns = false) by (apply Z.ltb_ge; lia). rewrite Hns.
      split; [reflexivity|]. unfold mts_wf.
      assert (Hb : 0 <= Z.shiftl ns 34 < 2 ^ 64).
      { rewrite Z.shiftl_mul_pow2 by lia. change (2 ^ 64) with (2 ^ 30 * 2 ^ 34). nia. }
      pose proof (lor_lt sec (Z.shiftl ns 34) 64) as Hl.
      apply andb_true_iff. split; [apply Z.leb_le|apply Z.ltb_lt]; lia.
Qed.

(* what a client may send: any well-formed timestamp whose nanoseconds are valid *)
Lemma client_mts_decodes fmt sec ns :
  0 <= ns < 10 ^ 9 ->
  match fmt with
  | 32%N => ns = 0 /\ 0 <= sec < 2 ^ 32
  | 64%N => 0 <= sec < 2 ^ 34
  | _ => - 2 ^ 63 <= sec < 2 ^ 63
  end ->
  decode_mts (client_mts fmt (sec, ns)) = Some (sec, ns) /\ mts_wf (client_mts fmt (sec, ns)) = true.
Proof.
  intros Hn Hf. unfold client_mts. cbn [fst snd].
  assert (Hns : 999999999 <? ns = false) by (apply Z.ltb_ge; lia).
  destruct (N.eq_dec fmt 32) as [->|N32]; [|destruct (N.eq_dec fmt 64) as [->|N64]].
  - destruct Hf as [-> Hf]. split; [reflexivity|]. unfold mts_wf.
    apply andb_true_iff. split; [apply Z.leb_le|apply Z.ltb_lt]; lia.
  - destruct (ts64_add sec ns) as [Hsh Hla]; [lia|lia|].
    unfold decode_mts. rewrite Hsh, Hla, Hns. split; [reflexivity|]. unfold mts_wf.
    apply andb_true_iff. split; [apply Z.leb_le|apply Z.ltb_lt]; [nia|].
    change (2 ^ 64) with (2 ^ 30 * 2 ^ 34). nia.
  - assert (Hcl : client_mts fmt (sec, ns) = Ts96 ns (sec mod 2 ^ 64)).
    { unfold client_mts. cbn [fst snd]. destruct fmt as [|p]; [reflexivity|].
      destruct (Pos.eq_dec p 32) as [->|]; [congruence|]. destruct (Pos.eq_dec p 64) as [->|]; [congruence|].
      repeat (destruct p as [p|p|]; try reflexivity; try congruence). }
    assert (Hf' : - 2 ^ 63 <= sec < 2 ^ 63).
    { destruct fmt as [|p]; [exact Hf|]. repeat (destruct p as [p|p|]; try exact Hf; try congruence). }
    change (match fmt with 32%N => Ts32 sec | 64%N => Ts64 (sec + ns * 2 ^ 34) | _ => Ts96 ns (sec mod 2 ^ 64) end)
      with (client_mts fmt (sec, ns)). rewrite Hcl.
    unfold decode_mts, mts_wf. rewrite Hns.
    assert (Hm : 0 <= sec mod 2 ^ 64 < 2 ^ 64) by (apply Z.mod_pos_bound; lia).
    split.
    + f_equal. f_equal. destruct (Z_lt_dec sec 0) as [Hneg|Hpos].
      * assert (Em : sec mod 2 ^ 64 = sec + 2 ^ 64).
        { symmetry. apply (Zmod_unique sec (2 ^ 64) (-1)); lia. }
        rewrite Em. assert (Hlt : sec + 2 ^ 64 <? 2 ^ 63 = false) by (apply Z.ltb_ge; lia).
        rewrite Hlt. lia.
      * rewrite Z.mod_small by lia. assert (Hlt : sec <? 2 ^ 63 = true) by (apply Z.ltb_lt; lia).
        rewrite Hlt. reflexivity.
    + repeat (apply andb_true_iff; split); try (apply Z.leb_le; lia); apply Z.ltb_lt; lia.
Qed.

(* ------------------------------------------------------------------ the pipeline *)
Lemma received_of_event_time i t :
  event_time std_cfg i = Some t -> - 2 ^ 63 <= fst t < 2 ^ 63 -> 0 <= snd t < 10 ^ 9 ->
  received std_cfg i = Some t.
Proof.
  intros He Hs Hn. unfold received, forwarded. rewrite He.
  change (uses_time_ext std_cfg) with true. cbv iota. unfold api_reads.
  destruct t as [sec ns]. apply (mts_roundtrip sec ns Hs Hn).
Qed.

Lemma range_int64 sec : range_lo <= sec < range_hi -> - 2 ^ 63 <= sec < 2 ^ 63.
Proof. unfold range_lo, range_hi. lia. Qed.

Theorem received_epoch : forall k t,
  (k <= 9)%nat -> in_range t -> has_precision k t ->
  received std_cfg (InText (render_epoch k t)) = Some t.
Proof.
  intros k [sec nsec] Hk [Hs Hn] Hp. cbn [fst snd] in Hs, Hn.
  apply received_of_event_time; cbn [fst snd]; [|apply range_int64; exact Hs|exact Hn].
  unfold event_time. rewrite epoch_exact; try assumption; [reflexivity|].
  unfold range_lo, range_hi in Hs. lia.
Qed.

Theorem received_rfc : forall k off zulu t,
  (k <= 9)%nat -> -1440 < off < 1440 -> in_range t -> has_precision k t ->
  received std_cfg (InText (render_rfc k off zulu t)) = Some t.
Proof.
  intros k off zulu [sec nsec] Hk Hoff [Hs Hn] Hp. cbn [fst snd] in Hs, Hn.
  apply received_of_event_time; cbn [fst snd]; [|apply range_int64; exact Hs|exact Hn].
  unfold event_time. rewrite rfc_exact; try assumption. reflexivity.
Qed.

Theorem received_msgp : forall fmt t,
  in_range t -> (fmt = 32%N -> snd t = 0 /\ fst t < 2 ^ 32) -> (fmt = 64%N -> fst t < 2 ^ 34) ->
  received std_cfg (InMsgp (client_mts fmt t)) = Some t.
Proof.
  intros fmt [sec nsec] [Hs Hn] H32 H64. cbn [fst snd] in *.
  pose proof (range_int64 sec Hs) as Hi. unfold range_lo, range_hi in Hs.
  apply received_of_event_time; cbn [fst snd]; [|exact Hi|exact Hn].
  unfold event_time. apply (client_mts_decodes fmt sec nsec Hn).
  destruct (N.eq_dec fmt 32) as [->|N32]; [destruct (H32 eq_refl); lia|].
  destruct (N.eq_dec fmt 64) as [->|N64]; [specialize (H64 eq_refl); lia|].
  destruct fmt as [|p]; [exact Hi|]. repeat (destruct p as [p|p|]; try exact Hi; try congruence).
Qed.

Lemma land_mask_bound v : 0 <= Z.land v (2 ^ 34 - 1) < 2 ^ 34.
Proof. change (2 ^ 34 - 1) with (Z.ones 34). rewrite Z.land_ones by lia. apply Z.mod_pos_bound. lia. Qed.

(* every well-formed msgpack timestamp a client can send (any format, any int64 seconds) is
   forwarded as the same instant, or the request is rejected when its nanoseconds are invalid *)
Theorem received_any_mts : forall x,
  mts_wf x = true ->
  match decode_mts x with
  | Some t => received std_cfg (InMsgp x) = Some t
  | None => received std_cfg (InMsgp x) = None
  end.
Proof.
  intros x Hwf. destruct (decode_mts x) as [[sec ns]|] eqn:Ed.
  - apply received_of_event_time; [exact Ed| |]; cbn [fst snd]; destruct x as [s|v|n s]; cbn [decode_mts mts_wf] in *.
    + injection Ed as <- <-. apply andb_true_iff in Hwf. destruct Hwf as [H1 H2].
      apply Z.leb_le in H1. apply Z.ltb_lt in H2. lia.
    + destruct (999999999 <? Z.shiftr v 34); [discriminate|].
      pose proof (land_mask_bound v) as Hb. change (2 ^ 34 - 1) with 17179869183 in Hb.
      injection Ed as <- <-. lia.
    + destruct (999999999 <? n); [discriminate|]. injection Ed as <- <-.
      repeat (apply andb_true_iff in Hwf; destruct Hwf as [Hwf ?]).
      repeat match goal with
             | H : (_ <=? _) = true |- _ => apply Z.leb_le in H
             | H : (_ <? _) = true |- _ => apply Z.ltb_lt in H
             end.
      match goal with |- context [if ?c then _ else _] => destruct c eqn:E end;
        [apply Z.ltb_lt in E|apply Z.ltb_ge in E]; lia.
    + injection Ed as <- <-. lia.
    + destruct (999999999 <? Z.shiftr v 34) eqn:E; [discriminate|]. injection Ed as <- <-.
      apply Z.ltb_ge in E. apply andb_true_iff in Hwf. destruct Hwf as [H1 H2]. apply Z.leb_le in H1.
      split; [apply Z.shiftr_nonneg; exact H1|]. lia.
    + destruct (999999999 <? n) eqn:E; [discriminate|]. injection Ed as <- <-.
      apply Z.ltb_ge in E.
      repeat (apply andb_true_iff in Hwf; destruct Hwf as [Hwf ?]).
      apply Z.leb_le in Hwf. lia.
  - unfold received, forwarded, event_time. rewrite Ed. reflexivity.
Qed.

(* ------------------------------------------------------------------ batches: pointwise *)
Theorem batch_pointwise : forall reqs,
  Forall creq_ok reqs ->
  forward_batch std_cfg (map creq_input reqs) = map (fun r => Some (creq_instant r)) reqs.
Proof.
  intros reqs H. unfold forward_batch. rewrite map_map. apply map_ext_in. intros r Hin.
  rewrite Forall_forall in H. specialize (H r Hin). destruct H as [Hr Hk].
  destruct r as [k t|k off zulu t|f t]; cbn [creq_input creq_instant] in *.
  - destruct Hk as [Hk Hp]. apply received_epoch; assumption.
  - destruct Hk as (Hk & Ho & Hp). apply received_rfc; assumption.
  - destruct Hk as [H32 H64]. apply received_msgp; assumption.
Qed.
