(* C09: the rules outcome and the key do not depend on span order or on the numeric wire type. *)
From Coq Require Import Permutation.
From Refinery Require Import Lib.Base Model.Values Model.Rules Model.RulesSpec Model.Wire Model.KeyLite
     Proofs.Rules.
Local Open Scope string_scope.
Local Open Scope Z_scope.

(* ---------- dyadic arithmetic ---------- *)
Lemma pos_strip_spec p : forall e q e',
  pos_strip p e = (q, e') -> e <= e' /\ Zpos p = Zpos q * 2 ^ (e' - e).
Proof.
  induction p as [p IH|p IH|]; intros e q e' H; cbn [pos_strip] in H.
  - injection H as <- <-. split; [lia|]. rewrite Z.sub_diag. cbn. lia.
  - apply IH in H. destruct H as [Hle Heq]. split; [lia|].
    replace (e' - e) with (Z.succ (e' - (e + 1))) by lia.
    rewrite Z.pow_succ_r by lia. rewrite Pos2Z.inj_xO, Heq. ring.
  - injection H as <- <-. split; [lia|]. rewrite Z.sub_diag. cbn. lia.
Qed.

Lemma dy_norm_int z : exists m k, dy_norm z 0 = Dy m k /\ 0 <= k /\ z = m * 2 ^ k.
Proof.
  destruct z as [|p|p]; cbn [dy_norm].
  - exists 0, 0. repeat split; lia.
  - destruct (pos_strip p 0) as [q k] eqn:E. apply pos_strip_spec in E. destruct E as [Hk Hp].
    exists (Zpos q), k. rewrite Z.sub_0_r in Hp. repeat split; [lia|exact Hp].
  - destruct (pos_strip p 0) as [q k] eqn:E. apply pos_strip_spec in E. destruct E as [Hk Hp].
    exists (Zneg q), k. rewrite Z.sub_0_r in Hp. repeat split; [lia|].
    change (Zneg p) with (- Zpos p). change (Zneg q) with (- Zpos q). rewrite Hp. ring.
Qed.

Lemma dy_trunc_norm z : dy_trunc (dy_norm z 0) = z.
Proof.
  destruct (dy_norm_int z) as [m [k [-> [Hk Hz]]]]. cbn [dy_trunc].
  destruct (Z.leb_spec 0 k); [symmetry; exact Hz|lia].
Qed.

Lemma dy_cmp_ints m1 k1 m2 k2 :
  0 <= k1 -> 0 <= k2 -> dy_cmp (Dy m1 k1) (Dy m2 k2) = Z.compare (m1 * 2 ^ k1) (m2 * 2 ^ k2).
Proof.
  intros H1 H2. unfold dy_cmp. cbv zeta. set (e := Z.min k1 k2).
  assert (He : 0 <= e) by (unfold e; lia).
  assert (Hp : 2 ^ e > 0) by (apply Z.lt_gt; apply Z.pow_pos_nonneg; lia).
  rewrite (Zmult_compare_compat_r _ _ (2 ^ e) Hp).
  rewrite <- !Z.mul_assoc, <- !Z.pow_add_r by (unfold e; lia).
  replace (k1 - e + e) with k1 by lia. replace (k2 - e + e) with k2 by lia. reflexivity.
Qed.

Lemma dy_cmp_norm x y : dy_cmp (dy_norm x 0) (dy_norm y 0) = Z.compare x y.
Proof.
  destruct (dy_norm_int x) as [m1 [k1 [-> [H1 Hx]]]].
  destruct (dy_norm_int y) as [m2 [k2 [-> [H2 Hy]]]].
  rewrite dy_cmp_ints by assumption. rewrite <- Hx, <- Hy. reflexivity.
Qed.

Lemma dy_eqb_norm z : dy_eqb (dy_norm z 0) (Dy z 0) = true.
Proof.
  unfold dy_eqb. destruct (dy_norm_int z) as [m [k [-> [Hk Hz]]]].
  rewrite dy_cmp_ints by lia. rewrite <- Hz. rewrite Z.pow_0_r, Z.mul_1_r, Z.compare_refl. reflexivity.
Qed.

Definition small (z : Z) : Prop := Z.abs z < 2 ^ 53.

Lemma round53_small z : small z -> round53 z = dy_norm z 0.
Proof.
  unfold small, round53. intros H. cbv zeta.
  destruct (Z.ltb_spec (Z.abs z) (2 ^ 53)); [reflexivity|lia].
Qed.

(* ---------- an integer and the float64 with the same value look the same to every matcher ---------- *)
Section Obs.
  Variable fmtv : dy -> string.
  Variable parsef : string -> option dy.
  Variable rx : string -> option (string -> bool).

  Lemma str_int_float z : small z -> sval_str fmtv (SF64 (dy_norm z 0)) = sval_str fmtv (SInt z).
  Proof.
    intros H. cbn [sval_str]. unfold f64_str. rewrite dy_trunc_norm, dy_eqb_norm. cbn [andb].
    unfold small in H. destruct (Z.ltb_spec (Z.abs z) (2 ^ 63)); [reflexivity|].
    assert (2 ^ 53 < 2 ^ 63) by (apply Z.pow_lt_mono_r; lia). lia.
  Qed.

  Lemma int_int_float z : small z -> sval_int (SF64 (dy_norm z 0)) = sval_int (SInt z).
  Proof.
    intros H. cbn [sval_int]. unfold f2i. rewrite dy_trunc_norm. unfold in_int64, int_min, int_max.
    unfold small in H. assert (2 ^ 53 < 2 ^ 63) by (apply Z.pow_lt_mono_r; lia).
    destruct (Z.leb_spec (- 2 ^ 63) z); [|lia]. destruct (Z.leb_spec z (2 ^ 63 - 1)); [reflexivity|lia].
  Qed.

  Lemma float_int_float z : small z ->
    sval_float parsef (SF64 (dy_norm z 0)) = sval_float parsef (SInt z).
  Proof. intros H. cbn [sval_float]. rewrite round53_small by exact H. reflexivity. Qed.

  Lemma untyped_int_float z cv : small z ->
    compare_untyped (SF64 (dy_norm z 0)) cv = compare_untyped (SInt z) cv.
  Proof.
    intros Hz. destruct cv as [x|l]; [|reflexivity].
    destruct x; cbn [compare_untyped]; try reflexivity.
    - destruct (dy_norm_int z) as [m [k [-> [Hk Hm]]]]. rewrite dy_cmp_ints by lia.
      rewrite <- Hm, Z.pow_0_r, Z.mul_1_r. reflexivity.
    - destruct (dy_norm_int z) as [m [k [-> [Hk Hm]]]]. rewrite dy_cmp_ints by lia.
      rewrite <- Hm, Z.pow_0_r, Z.mul_1_r. reflexivity.
    - rewrite round53_small by exact Hz. reflexivity.
  Qed.

  (* a matcher sees a present value only through these four observations *)
  Lemma cmatch_obs c v1 v2 :
    sval_str fmtv v1 = sval_str fmtv v2 ->
    sval_int v1 = sval_int v2 ->
    sval_float parsef v1 = sval_float parsef v2 ->
    compare_untyped v1 (c_val c) = compare_untyped v2 (c_val c) ->
    cmatch fmtv parsef rx c (Some v1) = cmatch fmtv parsef rx c (Some v2).
  Proof.
    intros Hs Hi Hf Hc. unfold cmatch, matcher.
    destruct (init_conflict c); [unfold cond_untyped; rewrite Hc; reflexivity|].
    destruct (c_op c) eqn:Eo;
      unfold set_compare, set_stringop, set_in, set_regex;
      rewrite ?Eo;
      destruct (c_dt c); destruct (cval_int (c_val c)); destruct (cval_float parsef (c_val c));
      destruct (in_items (c_val c)); destruct (rx (cval_str fmtv (c_val c)));
      cbv beta iota zeta delta [arm_string arm_int arm_float arm_bool with_int with_float in_matches
                           sval_bool cond_untyped vnil present];
      rewrite ?Eo; rewrite ?Hs, ?Hi, ?Hf, ?Hc; reflexivity.
  Qed.
End Obs.

(* ---------- values, spans, traces that are "the same data" ---------- *)
Inductive sv_eqv : sval -> sval -> Prop :=
| sv_same v : sv_eqv v v
| sv_if z : small z -> sv_eqv (SInt z) (SF64 (dy_norm z 0))
| sv_fi z : small z -> sv_eqv (SF64 (dy_norm z 0)) (SInt z).

Definition ov_eqv (a b : option sval) : Prop :=
  match a, b with
  | Some x, Some y => sv_eqv x y
  | None, None => True
  | _, _ => False
  end.

Definition span_eqv (s1 s2 : span) : Prop :=
  Forall2 (fun a b => fst a = fst b /\ sv_eqv (snd a) (snd b)) s1 s2.
Definition ospan_eqv (a b : option span) : Prop :=
  match a, b with
  | Some x, Some y => span_eqv x y
  | None, None => True
  | _, _ => False
  end.
Definition trace_eqv (t1 t2 : trace) : Prop :=
  Forall2 span_eqv (t_spans t1) (t_spans t2) /\ ospan_eqv (t_root t1) (t_root t2).

Lemma sget_eqv f s1 s2 : span_eqv s1 s2 -> ov_eqv (sget f s1) (sget f s2).
Proof.
  induction 1 as [|[k1 v1] [k2 v2] r1 r2 [Hk Hv] _ IH]; cbn [sget]; [exact I|].
  cbn [fst snd] in Hk, Hv. subst k2. destruct (String.eqb f k1); [exact Hv|exact IH].
Qed.

Lemma existsb_Forall2 {A B} (R : A -> B -> Prop) (f : A -> bool) (g : B -> bool) l1 l2 :
  Forall2 R l1 l2 -> (forall a b, R a b -> f a = g b) -> existsb f l1 = existsb g l2.
Proof.
  intros H Hfg. induction H as [|a b r1 r2 Hab _ IH]; cbn [existsb]; [reflexivity|].
  rewrite (Hfg a b Hab), IH. reflexivity.
Qed.

Lemma forall2_length {A B} (R : A -> B -> Prop) l1 l2 : Forall2 R l1 l2 -> length l1 = length l2.
Proof. induction 1; cbn [length]; [reflexivity|]. f_equal. assumption. Qed.

Section Encoding.
  Variable fmtv : dy -> string.
  Variable parsef : string -> option dy.
  Variable rx : string -> option (string -> bool).
  Notation cmatch := (cmatch fmtv parsef rx).

  Lemma cmatch_eqv c a b : ov_eqv a b -> cmatch c a = cmatch c b.
  Proof.
    intros H. destruct a as [x|], b as [y|]; try contradiction; [|reflexivity].
    cbn in H. destruct H as [v|z Hz|z Hz]; [reflexivity| |].
    - symmetry. apply cmatch_obs.
      + apply str_int_float. exact Hz.
      + apply int_int_float. exact Hz.
      + apply float_int_float. exact Hz.
      + apply untyped_int_float; assumption.
    - apply cmatch_obs.
      + apply str_int_float. exact Hz.
      + apply int_int_float. exact Hz.
      + apply float_int_float. exact Hz.
      + apply untyped_int_float; assumption.
  Qed.

  Lemma cond_value_eqv t1 t2 s1 s2 c :
    trace_eqv t1 t2 -> span_eqv s1 s2 -> ov_eqv (cond_value t1 s1 c) (cond_value t2 s2 c).
  Proof.
    intros [Hsp Hrt] Hs. unfold cond_value. destruct (is_virtual c).
    - cbn. rewrite (forall2_length _ _ _ Hsp). apply sv_same.
    - induction (eff_fields c) as [|f r IH]; cbn [first_present]; [exact I|].
      assert (Hf : ov_eqv (field_on t1 s1 f) (field_on t2 s2 f)).
      { unfold field_on. destruct (strip_root f) as [f'|]; [|apply sget_eqv; exact Hs].
        unfold ospan_eqv in Hrt. destruct (t_root t1), (t_root t2); try contradiction; [|exact I].
        apply sget_eqv. exact Hrt. }
      destruct (field_on t1 s1 f), (field_on t2 s2 f); try contradiction; [exact Hf|exact IH].
  Qed.

  Lemma forallb_ext_in' {A} (p q : A -> bool) (l : list A) :
    (forall x, In x l -> p x = q x) -> forallb p l = forallb q l.
  Proof.
    induction l as [|x r IH]; intros H; cbn [forallb]; [reflexivity|].
    rewrite (H x (or_introl eq_refl)), IH; [reflexivity|]. intros y Hy. apply H. right. exact Hy.
  Qed.

  Lemma has_root_eqv t1 t2 : trace_eqv t1 t2 -> has_root t1 = has_root t2.
  Proof.
    intros [_ H]. unfold has_root, ospan_eqv in *. destruct (t_root t1), (t_root t2); try contradiction; reflexivity.
  Qed.

  Lemma spec_rule_matches_eqv t1 t2 r :
    trace_eqv t1 t2 ->
    spec_rule_matches fmtv cmatch t1 r = spec_rule_matches fmtv cmatch t2 r.
  Proof.
    intros Ht. pose proof Ht as [Hsp _].
    unfold spec_rule_matches. destruct (scope_of (r_scope r)); [| |reflexivity].
    - f_equal. apply (existsb_Forall2 span_eqv); [exact Hsp|]. intros s1 s2 Hs.
      apply forallb_ext_in'. intros c Hc. apply cmatch_eqv.
      apply cond_value_eqv; assumption.
    - apply forallb_ext_in'. intros c Hc. unfold cond_on_trace.
      rewrite (has_root_eqv t1 t2 Ht). destruct (is_hasroot c); [reflexivity|].
      apply (existsb_Forall2 span_eqv); [exact Hsp|]. intros s1 s2 Hs.
      apply cmatch_eqv. apply cond_value_eqv; assumption.
  Qed.

  Lemma rule_matched_eqv t1 t2 r :
    trace_eqv t1 t2 ->
    rule_matched fmtv parsef rx t1 r = rule_matched fmtv parsef rx t2 r.
  Proof.
    intros Ht. destruct (scope_of (r_scope r)) eqn:Es.
    - rewrite !rule_matched_structural by (rewrite Es; discriminate).
      rewrite (spec_rule_matches_eqv t1 t2 r Ht). reflexivity.
    - rewrite !rule_matched_structural by (rewrite Es; discriminate).
      rewrite (spec_rule_matches_eqv t1 t2 r Ht). reflexivity.
    - unfold rule_matched. rewrite Es. reflexivity.
  Qed.

  Variable ds : nat -> option outcome.
  Variable draw : nat -> Z.

  Lemma run_rules_eqv t1 t2 rules : forall i,
    trace_eqv t1 t2 ->
    run_rules fmtv parsef rx ds draw t1 i rules = run_rules fmtv parsef rx ds draw t2 i rules.
  Proof.
    induction rules as [|r rest IH]; intros i Ht; cbn [run_rules]; [reflexivity|].
    rewrite (rule_matched_eqv t1 t2 r Ht).
    destruct (rule_matched fmtv parsef rx t2 r) as [m pre]. destruct m; [reflexivity|].
    apply IH; assumption.
  Qed.

  (* ---------- span order ---------- *)
  Lemma existsb_perm {A} (f : A -> bool) l l' : Permutation l l' -> existsb f l = existsb f l'.
  Proof.
    induction 1 as [|x l l' _ IH|x y l|l l' l'' _ IH1 _ IH2]; cbn [existsb].
    - reflexivity.
    - rewrite IH. reflexivity.
    - destruct (f x), (f y); reflexivity.
    - rewrite IH1. exact IH2.
  Qed.

  Definition trace_perm (t1 t2 : trace) : Prop :=
    Permutation (t_spans t1) (t_spans t2) /\ t_root t1 = t_root t2.

  Lemma cond_value_perm t1 t2 sp c : trace_perm t1 t2 -> cond_value t1 sp c = cond_value t2 sp c.
  Proof.
    intros [Hp Hr]. unfold cond_value. rewrite (Permutation_length Hp).
    destruct (is_virtual c); [reflexivity|].
    induction (eff_fields c) as [|f r IH]; cbn [first_present]; [reflexivity|].
    unfold field_on. rewrite Hr, IH. reflexivity.
  Qed.

  Lemma rule_matched_perm (cm : cond -> option sval -> bool) t1 t2 r :
    trace_perm t1 t2 -> spec_rule_matches fmtv cm t1 r = spec_rule_matches fmtv cm t2 r.
  Proof.
    intros Ht. pose proof Ht as [Hp Hr]. unfold spec_rule_matches.
    destruct (scope_of (r_scope r)); [| |reflexivity].
    - f_equal. rewrite (existsb_perm _ _ _ Hp). apply existsb_ext_eq. intros sp.
      apply forallb_ext_in'. intros c _. rewrite (cond_value_perm t1 t2 sp c Ht). reflexivity.
    - apply forallb_ext_in'. intros c _. unfold cond_on_trace, has_root. rewrite Hr.
      destruct (is_hasroot c); [reflexivity|]. rewrite (existsb_perm _ _ _ Hp).
      apply existsb_ext_eq. intros sp. rewrite (cond_value_perm t1 t2 sp c Ht). reflexivity.
  Qed.

  Lemma run_rules_perm t1 t2 rules : forall i,
    trace_perm t1 t2 ->
    run_rules fmtv parsef rx ds draw t1 i rules = run_rules fmtv parsef rx ds draw t2 i rules.
  Proof.
    induction rules as [|r rest IH]; intros i Ht; cbn [run_rules]; [reflexivity|].
    assert (Hm : rule_matched fmtv parsef rx t1 r = rule_matched fmtv parsef rx t2 r).
    { destruct (scope_of (r_scope r)) eqn:Es.
      - rewrite !rule_matched_structural by (rewrite Es; discriminate).
        rewrite (rule_matched_perm _ t1 t2 r Ht). reflexivity.
      - rewrite !rule_matched_structural by (rewrite Es; discriminate).
        rewrite (rule_matched_perm _ t1 t2 r Ht). reflexivity.
      - unfold rule_matched. rewrite Es. reflexivity. }
    rewrite Hm. destruct (rule_matched fmtv parsef rx t2 r) as [m pre]. destruct m; [reflexivity|].
    apply IH. exact Ht.
  Qed.
End Encoding.

(* ---------- wire level: "the same field names and numerically equal values" ---------- *)
Definition wint (w : wire) : option Z := match w with WInt z | WUint z => Some z | _ => None end.
Definition wfloat (w : wire) : option dy := match w with WF32 d | WF64 d => Some d | _ => None end.

(* (p1, w1) and (p2, w2) carry the same value:
   - the same integer, signed or unsigned (unsigned only up to MaxInt64 here), through any two
     paths; if a JSON path is involved the integer must be exactly representable (|z| < 2^53);
   - the same float in 32 or 64 bits;
   - an integer |z| < 2^53 against the float with that value;
   - identical non-numeric values. *)
Definition wire_rel (p1 : path) (w1 : wire) (p2 : path) (w2 : wire) : Prop :=
  match wint w1, wint w2 with
  | Some z1, Some z2 =>
      z1 = z2 /\ z1 <= int_max /\ ((p1 = PJson \/ p2 = PJson) -> small z1)
  | Some z, None => wfloat w2 = Some (dy_norm z 0) /\ small z
  | None, Some z => wfloat w1 = Some (dy_norm z 0) /\ small z
  | None, None =>
      match wfloat w1, wfloat w2 with
      | Some d1, Some d2 => d1 = d2
      | None, None => w1 = w2
      | _, _ => False
      end
  end.

Lemma dec_int_cases p w z : wint w = Some z -> z <= int_max ->
  dec p w = SInt z \/ (p = PJson /\ dec p w = SF64 (round53 z)).
Proof.
  intros Hw Hz. destruct w; try discriminate Hw; injection Hw as ->; cbn [dec].
  - destruct p; auto.
  - unfold norm_uint. destruct (Z.leb_spec z int_max); [|lia]. destruct p; auto.
Qed.

Lemma dec_float w p d : wfloat w = Some d -> dec p w = SF64 d.
Proof. intros H. destruct w; try discriminate H; injection H as ->; reflexivity. Qed.

Lemma dec_rel p1 w1 p2 w2 : wire_rel p1 w1 p2 w2 -> sv_eqv (dec p1 w1) (dec p2 w2).
Proof.
  unfold wire_rel. destruct (wint w1) as [z1|] eqn:E1, (wint w2) as [z2|] eqn:E2.
  - intros [<- [Hmax Hj]].
    destruct (dec_int_cases p1 w1 z1 E1 Hmax) as [->|[Hp1 ->]],
             (dec_int_cases p2 w2 z1 E2 Hmax) as [->|[Hp2 ->]].
    + apply sv_same.
    + rewrite round53_small by (apply Hj; auto). apply sv_if. apply Hj. auto.
    + rewrite round53_small by (apply Hj; auto). apply sv_fi. apply Hj. auto.
    + apply sv_same.
  - intros [Hf Hs]. rewrite (dec_float w2 p2 _ Hf).
    assert (Hmax : z1 <= int_max).
    { unfold small in Hs. unfold int_max. assert (2 ^ 53 < 2 ^ 63) by (apply Z.pow_lt_mono_r; lia). lia. }
    destruct (dec_int_cases p1 w1 z1 E1 Hmax) as [->|[_ ->]].
    + apply sv_if. exact Hs.
    + rewrite round53_small by exact Hs. apply sv_same.
  - intros [Hf Hs]. rewrite (dec_float w1 p1 _ Hf).
    assert (Hmax : z2 <= int_max).
    { unfold small in Hs. unfold int_max. assert (2 ^ 53 < 2 ^ 63) by (apply Z.pow_lt_mono_r; lia). lia. }
    destruct (dec_int_cases p2 w2 z2 E2 Hmax) as [->|[_ ->]].
    + apply sv_fi. exact Hs.
    + rewrite round53_small by exact Hs. apply sv_same.
  - destruct (wfloat w1) as [d1|] eqn:F1, (wfloat w2) as [d2|] eqn:F2; try contradiction.
    + intros ->. rewrite (dec_float w1 p1 _ F1), (dec_float w2 p2 _ F2). apply sv_same.
    + intros <-. destruct w1; try discriminate E1; try discriminate F1; apply sv_same.
Qed.

Definition wspan_rel (s1 s2 : wspan) : Prop :=
  Forall2 (fun a b => fst a = fst b /\ wire_rel (w_path s1) (snd a) (w_path s2) (snd b))
          (w_fields s1) (w_fields s2).
Definition wtrace_rel (t1 t2 : wtrace) : Prop :=
  Forall2 wspan_rel (wt_spans t1) (wt_spans t2) /\
  match wt_root t1, wt_root t2 with
  | Some a, Some b => wspan_rel a b
  | None, None => True
  | _, _ => False
  end.

Lemma dec_span_rel s1 s2 : wspan_rel s1 s2 -> span_eqv (dec_span s1) (dec_span s2).
Proof.
  unfold wspan_rel, span_eqv, dec_span. intros H.
  induction H as [|a b r1 r2 [Hk Hw] _ IH]; cbn [map]; constructor; [|exact IH].
  cbn [fst snd]. split; [exact Hk|apply dec_rel; exact Hw].
Qed.

Lemma dec_trace_rel t1 t2 : wtrace_rel t1 t2 -> trace_eqv (dec_trace t1) (dec_trace t2).
Proof.
  intros [Hs Hr]. unfold trace_eqv, dec_trace. cbn [t_spans t_root]. split.
  - induction Hs as [|a b r1 r2 Hab _ IH]; cbn [map]; constructor; [apply dec_span_rel; exact Hab|exact IH].
  - unfold ospan_eqv. destruct (wt_root t1), (wt_root t2); cbn [option_map]; try contradiction;
      [apply dec_span_rel; exact Hr|exact I].
Qed.

(* msgpack signedness and float width alone: the decoded value is IDENTICAL *)
Lemma dec_unsigned_same p z : z <= int_max -> dec p (WUint z) = dec p (WInt z).
Proof.
  intros H. cbn [dec]. unfold norm_uint. destruct (Z.leb_spec z int_max); [|lia]. destruct p; reflexivity.
Qed.
Lemma dec_f32_same p d : dec p (WF32 d) = dec p (WF64 d).
Proof. reflexivity. Qed.

Theorem encoding_invariant fmtv parsef rx ds draw rules t1 t2 :
  wtrace_rel t1 t2 ->
  run_rules fmtv parsef rx ds draw (dec_trace t1) O rules =
  run_rules fmtv parsef rx ds draw (dec_trace t2) O rules.
Proof. intros Ht. apply run_rules_eqv. apply dec_trace_rel. exact Ht. Qed.

(* ---------- the key: a function of per-field SETS of texts ---------- *)
Definition slt (a b : string) : Prop := String.compare a b = Lt.

Lemma ascii_compare_eq a b : Ascii.compare a b = Eq -> a = b.
Proof.
  unfold Ascii.compare. intros H. apply N.compare_eq in H.
  rewrite <- (ascii_N_embedding a), <- (ascii_N_embedding b), H. reflexivity.
Qed.

Lemma ascii_lt_trans a b c :
  Ascii.compare a b = Lt -> Ascii.compare b c = Lt -> Ascii.compare a c = Lt.
Proof. unfold Ascii.compare. rewrite !N.compare_lt_iff. apply N.lt_trans. Qed.

Lemma slt_trans a : forall b c, slt a b -> slt b c -> slt a c.
Proof.
  unfold slt. induction a as [|x a IH]; intros [|y b] [|z c]; cbn [String.compare]; try discriminate; auto.
  destruct (Ascii.compare x y) eqn:Exy; try discriminate.
  - apply ascii_compare_eq in Exy. subst y.
    destruct (Ascii.compare x z) eqn:Exz; try discriminate; auto. apply IH.
  - intros _. destruct (Ascii.compare y z) eqn:Eyz; try discriminate.
    + apply ascii_compare_eq in Eyz. subst z. rewrite Exy. reflexivity.
    + intros _. rewrite (ascii_lt_trans x y z Exy Eyz). reflexivity.
Qed.

Lemma slt_irrefl a : ~ slt a a.
Proof. unfold slt. rewrite string_compare_refl. discriminate. Qed.

Fixpoint ssorted (l : list string) : Prop :=
  match l with
  | [] => True
  | x :: r => (forall y, In y r -> slt x y) /\ ssorted r
  end.

Lemma sinsert_In x l y : In y (sinsert x l) <-> y = x \/ In y l.
Proof.
  induction l as [|z r IH]; cbn [sinsert In]; [intuition|].
  destruct (String.compare x z) eqn:E; cbn [In].
  - apply String.compare_eq_iff in E. subst z. intuition.
  - intuition.
  - rewrite IH. intuition.
Qed.

Lemma sinsert_sorted x l : ssorted l -> ssorted (sinsert x l).
Proof.
  induction l as [|z r IH]; cbn [sinsert ssorted]; [intros _; split; [intros y []|exact I]|].
  intros [Hz Hr]. destruct (String.compare x z) eqn:E; cbn [ssorted].
  - split; assumption.
  - split; [|split; assumption]. intros y [<-|Hy]; [exact E|].
    apply (slt_trans x z y); [exact E|apply Hz; exact Hy].
  - split; [|apply IH; exact Hr]. intros y Hy. apply sinsert_In in Hy. destruct Hy as [->|Hy].
    + unfold slt. rewrite String.compare_antisym, E. reflexivity.
    + apply Hz. exact Hy.
Qed.

Lemma sset_sorted l : ssorted (sset l).
Proof. induction l as [|x r IH]; cbn [sset fold_right]; [exact I|apply sinsert_sorted; exact IH]. Qed.

Lemma sset_In l y : In y (sset l) <-> In y l.
Proof.
  induction l as [|x r IH]; cbn [sset fold_right In]; [reflexivity|].
  fold (sset r). rewrite sinsert_In, IH. intuition.
Qed.

Lemma ssorted_unique l1 : forall l2,
  ssorted l1 -> ssorted l2 -> (forall y, In y l1 <-> In y l2) -> l1 = l2.
Proof.
  induction l1 as [|x1 r1 IH]; intros [|x2 r2] H1 H2 Hin.
  - reflexivity.
  - exfalso. apply (proj2 (Hin x2)). left. reflexivity.
  - exfalso. apply (proj1 (Hin x1)). left. reflexivity.
  - destruct H1 as [Hx1 Hr1], H2 as [Hx2 Hr2].
    assert (Hx : x1 = x2).
    { destruct (proj1 (Hin x1) (or_introl eq_refl)) as [E|E1]; [symmetry; exact E|].
      destruct (proj2 (Hin x2) (or_introl eq_refl)) as [E|E2]; [exact E|].
      exfalso. apply (slt_irrefl x1). apply (slt_trans x1 x2 x1); [apply Hx1; exact E2|apply Hx2; exact E1]. }
    subst x2. f_equal. apply IH; [exact Hr1|exact Hr2|]. intros y. split; intros Hy.
    + destruct (proj1 (Hin y) (or_intror Hy)) as [E|E]; [|exact E].
      subst y. exfalso. apply (slt_irrefl x1). apply Hx1. exact Hy.
    + destruct (proj2 (Hin y) (or_intror Hy)) as [E|E]; [|exact E].
      subst y. exfalso. apply (slt_irrefl x1). apply Hx2. exact Hy.
Qed.

(* the set of texts of a field does not depend on the order (or multiplicity) of the values *)
Lemma sset_same_elements l l' : (forall y, In y l <-> In y l') -> sset l = sset l'.
Proof.
  intros H. apply ssorted_unique; [apply sset_sorted|apply sset_sorted|].
  intros y. rewrite !sset_In. apply H.
Qed.

Lemma filter_some_perm {A B} (g : A -> option B) l l' :
  Permutation l l' -> Permutation (filter_some (map g l)) (filter_some (map g l')).
Proof.
  induction 1 as [|x l l' _ IH|x y l|l l' l'' _ IH1 _ IH2]; cbn [map filter_some].
  - constructor.
  - destruct (g x); [constructor|]; exact IH.
  - destruct (g x), (g y); try apply Permutation_refl. apply perm_swap.
  - eapply Permutation_trans; eassumption.
Qed.

Section KeyProofs.
  Variable fmtf : dy -> string.
  Notation key_of := (key_of fmtf).

  Theorem key_perm fields use_len t1 t2 :
    trace_perm t1 t2 -> key_of fields use_len t1 = key_of fields use_len t2.
  Proof.
    intros [Hp Hr]. unfold KeyLite.key_of. rewrite Hr, (Permutation_length Hp). f_equal. f_equal.
    apply map_ext. intros f. unfold field_part.
    replace (sset (field_texts fmtf f (t_spans t1))) with (sset (field_texts fmtf f (t_spans t2))); [reflexivity|].
    apply sset_same_elements. intros y. unfold field_texts.
    pose proof (filter_some_perm (fun sp => option_map (key_str fmtf) (sget f sp)) _ _ Hp) as HP.
    split; intros Hy.
    - apply (Permutation_in _ (Permutation_sym HP)). exact Hy.
    - apply (Permutation_in _ HP). exact Hy.
  Qed.

  Lemma key_str_eqv a b : sv_eqv a b -> key_str fmtf a = key_str fmtf b.
  Proof.
    intros H. destruct H as [v|z Hz|z Hz]; cbn [key_str]; [reflexivity| |].
    - symmetry. apply (str_int_float fmtf z Hz).
    - apply (str_int_float fmtf z Hz).
  Qed.

  Lemma okey_str_eqv a b : ov_eqv a b ->
    option_map (key_str fmtf) a = option_map (key_str fmtf) b.
  Proof.
    intros H. destruct a, b; try contradiction; [|reflexivity].
    cbn [option_map]. f_equal. apply key_str_eqv; assumption.
  Qed.

  Theorem key_eqv fields use_len t1 t2 :
    trace_eqv t1 t2 -> key_of fields use_len t1 = key_of fields use_len t2.
  Proof.
    intros [Hs Hr].
    assert (Hfp : forall f, field_part fmtf (t_spans t1) f = field_part fmtf (t_spans t2) f).
    { intros f. unfold field_part, field_texts.
      replace (filter_some (map (fun sp => option_map (key_str fmtf) (sget f sp)) (t_spans t1)))
        with (filter_some (map (fun sp => option_map (key_str fmtf) (sget f sp)) (t_spans t2))); [reflexivity|].
      clear Hr. induction Hs as [|a b r1 r2 Hab _ IH]; cbn [map filter_some]; [reflexivity|].
      rewrite (okey_str_eqv _ _ (sget_eqv f a b Hab)).
      destruct (option_map (key_str fmtf) (sget f b)); rewrite IH; reflexivity. }
    assert (Hrp : forall f, root_part fmtf (t_root t1) f = root_part fmtf (t_root t2) f).
    { intros f. unfold root_part, ospan_eqv in *.
      destruct (t_root t1) as [a|], (t_root t2) as [b|]; try contradiction; [|reflexivity].
      pose proof (sget_eqv f a b Hr) as H. destruct (sget f a), (sget f b); try contradiction; [|reflexivity].
      rewrite (key_str_eqv _ _ H). reflexivity. }
    unfold KeyLite.key_of. rewrite (forall2_length _ _ _ Hs).
    rewrite (map_ext _ _ Hfp), (map_ext _ _ Hrp). reflexivity.
  Qed.
End KeyProofs.

Theorem key_encoding_invariant fmtf fields use_len t1 t2 :
  wtrace_rel t1 t2 ->
  key_of fmtf fields use_len (dec_trace t1) = key_of fmtf fields use_len (dec_trace t2).
Proof. intros Ht. apply key_eqv. apply dec_trace_rel. exact Ht. Qed.
