(* Proofs about Model/Query.v (C25). *)
From Refinery Require Import Lib.Base Gen.GenC25 Model.Query.

Lemma table_ok_true : table_ok = true.
Proof. vm_compute. reflexivity. Qed.

Lemma routes_guarded : forall r, In r routes -> route_guarded r = true.
Proof.
  pose proof table_ok_true as H. unfold table_ok in H.
  repeat (apply andb_true_iff in H; destruct H as [H ?]).
  apply forallb_forall. exact H.
Qed.

Lemma query_route_facts r : In r routes -> is_query_route r = true ->
  smem checker_name (rt_mws r) = true /\ rt_methods r = query_methods /\ query_methods <> [].
Proof.
  intros Hin Hq. pose proof (routes_guarded _ Hin) as G. unfold route_guarded in G. rewrite Hq in G.
  apply andb_true_iff in G. destruct G as [G Hne]. apply andb_true_iff in G. destruct G as [Hc Hm].
  split; [exact Hc|]. split.
  - clear -Hm. revert Hm. generalize (rt_methods r) as a. generalize query_methods as b.
    intros b a. revert b. induction a as [|x a IH]; intros [|y b]; cbn; intros H; try discriminate; [reflexivity|].
    apply andb_true_iff in H. destruct H as [Hx Hr]. apply String.eqb_eq in Hx. subst. f_equal. apply IH. exact Hr.
  - destruct query_methods; [discriminate | discriminate].
Qed.

Lemma nonempty_true s : nonempty s = true <-> s <> ""%string.
Proof.
  unfold nonempty. rewrite negb_true_iff. split.
  - intros H E. subst. discriminate.
  - intros H. apply String.eqb_neq. exact H.
Qed.

(* the token comparison is exact byte equality with a non-empty configured token *)
Lemma authorized_iff required hdr : authorized required hdr = true <-> required <> ""%string /\ hdr = required.
Proof.
  unfold authorized. rewrite andb_true_iff, nonempty_true, String.eqb_eq. reflexivity.
Qed.

Lemma authorized_not required hdr : hdr <> required -> authorized required hdr = false.
Proof.
  intros H. destruct (authorized required hdr) eqn:E; [|reflexivity].
  apply authorized_iff in E. destruct E as [_ E]. contradiction.
Qed.

Lemma smem_In s l : smem s l = true <-> In s l.
Proof.
  unfold smem. rewrite existsb_exists. split.
  - intros [x [Hin He]]. apply String.eqb_eq in He. subst. exact Hin.
  - intros H. exists s. split; [exact H | apply String.eqb_refl].
Qed.

(* ---- data only behind the check ------------------------------------------------------------------------ *)
Theorem data_only_when_authorized required clean m p hdr h :
  serve required clean m p hdr = QData h -> required <> ""%string /\ hdr = required.
Proof.
  unfold serve. destruct clean; cbn [negb]; [|discriminate].
  destruct (dispatch m p) as [rt|] eqn:D; [|discriminate].
  unfold dispatch in D. apply find_some in D. destruct D as [Hin _].
  destruct (smem checker_name (rt_mws rt)) eqn:C.
  - destruct (authorized required hdr) eqn:A.
    + intros _. apply authorized_iff. exact A.
    + destruct (denied_reply required hdr). discriminate.
  - destruct (smem (rt_handler rt) sensitive) eqn:S; [|discriminate].
    assert (Hq : is_query_route rt = true) by (unfold is_query_route; rewrite S; reflexivity).
    destruct (query_route_facts _ Hin Hq) as [Hc _]. rewrite Hc in C. discriminate.
Qed.

(* the verdict of the check does not depend on the method: a method the table does not list for the /query/
   sub-router never reaches a revealing handler, and a listed one gets data only when authorized (above) *)
Theorem unlisted_method_no_data required clean m p hdr h :
  ~ In m query_methods -> In h sensitive -> serve required clean m p hdr <> QData h.
Proof.
  intros Hm Hs E. unfold serve in E. destruct clean; cbn [negb] in E; [|discriminate].
  destruct (dispatch m p) as [rt|] eqn:D; [|discriminate].
  unfold dispatch in D. apply find_some in D. destruct D as [Hin Hmatch].
  assert (Hh : rt_handler rt = h).
  { destruct (smem checker_name (rt_mws rt)).
    - destruct (authorized required hdr); [inversion E; reflexivity|]. destruct (denied_reply required hdr). discriminate.
    - destruct (smem (rt_handler rt) sensitive); [inversion E; reflexivity | discriminate]. }
  assert (Hq : is_query_route rt = true).
  { unfold is_query_route. apply smem_In in Hs. rewrite Hh, Hs. reflexivity. }
  destruct (query_route_facts _ Hin Hq) as [_ [Hmeth Hne]].
  unfold route_matches in Hmatch. apply andb_true_iff in Hmatch. destruct Hmatch as [Hmm _].
  rewrite Hmeth in Hmm. destruct query_methods as [|q qs] eqn:Q; [exfalso; apply Hne; reflexivity|].
  apply smem_In in Hmm. contradiction.
Qed.

Theorem sensitive_never_unguarded required clean m p hdr h :
  serve required clean m p hdr = QOther h -> ~ In h sensitive.
Proof.
  unfold serve. destruct clean; cbn [negb]; [|discriminate].
  destruct (dispatch m p) as [rt|] eqn:D; [|discriminate].
  destruct (smem checker_name (rt_mws rt)).
  - destruct (authorized required hdr); [discriminate|]. destruct (denied_reply required hdr). discriminate.
  - destruct (smem (rt_handler rt) sensitive) eqn:S; [discriminate|].
    intros H. inversion H; subst. intros Hin. apply smem_In in Hin. rewrite Hin in S. discriminate.
Qed.

(* ---- what a refused client sees depends on the configuration only through "is a token configured" ------------ *)
Lemma denied_reply_indep r1 r2 hdr : nonempty r1 = nonempty r2 -> denied_reply r1 hdr = denied_reply r2 hdr.
Proof. unfold denied_reply. intros H. rewrite H. reflexivity. Qed.

Theorem denied_reveals_nothing r1 r2 clean m p hdr :
  nonempty r1 = nonempty r2 -> authorized r1 hdr = false -> authorized r2 hdr = false ->
  serve r1 clean m p hdr = serve r2 clean m p hdr.
Proof.
  intros Hn A1 A2. unfold serve. rewrite A1, A2, (denied_reply_indep r1 r2 hdr Hn). reflexivity.
Qed.

Theorem denied_is_the_fixed_reply required clean m p hdr st body :
  serve required clean m p hdr = QDenied st body ->
  authorized required hdr = false /\ (st, body) = denied_reply required hdr.
Proof.
  unfold serve. destruct clean; cbn [negb]; [|discriminate].
  destruct (dispatch m p) as [rt|]; [|discriminate].
  destruct (smem checker_name (rt_mws rt)).
  - destruct (authorized required hdr); [discriminate|].
    destruct (denied_reply required hdr) as [s b]. intros H; inversion H; subst. split; reflexivity.
  - destruct (smem (rt_handler rt) sensitive); discriminate.
Qed.

(* the text of the refusal: constants around the client's own token *)
Lemma denied_reply_text required hdr :
  denied_reply required hdr =
  (400%N,
   if nonempty required
   then ("{""source"":""refinery"",""error"":""unknown API key - check your credentials: token " ++
         ((hdr ++ " found in X-Honeycomb-Refinery-Query not authorized for query") ++ """}"))%string
   else "{""source"":""refinery"",""error"":""unknown API key - check your credentials: /query endpoint is not authorized for use (specify QueryAuthToken in config)""}"%string).
Proof.
  unfold denied_reply. destruct (nonempty required); [|vm_compute; reflexivity].
  unfold err_reply, sprintf2. cbn. reflexivity.
Qed.

(* ---- the documented endpoints exist and are the guarded ones -------------------------------------------------- *)
Lemma eqb_true_eq a b : String.eqb a b = true -> a = b.
Proof. apply String.eqb_eq. Qed.

Lemma endpoints_dispatch m p h :
  spec_endpoint m p = Some h ->
  exists rt, dispatch m p = Some rt /\ rt_handler rt = h /\ smem checker_name (rt_mws rt) = true.
Proof.
  unfold spec_endpoint, dispatch.
  destruct (String.eqb m "GET") eqn:Em; cbn [negb]; [|discriminate].
  apply eqb_true_eq in Em. subst m.
  destruct (segs p) as [|q [|t [|x [|y [|z r]]]]]; try discriminate.
  - (* two segments *)
    destruct (String.eqb q "query" && String.eqb t "configmetadata") eqn:E; [|discriminate].
    apply andb_true_iff in E. destruct E as [Eq Et]. apply eqb_true_eq in Eq, Et. subst.
    intros H; inversion H; subst. eexists. split; [vm_compute; reflexivity|]. split; reflexivity.
  - (* three segments *)
    destruct (String.eqb q "query" && String.eqb t "trace" && nonempty x) eqn:E.
    + apply andb_true_iff in E. destruct E as [E Ex]. apply andb_true_iff in E. destruct E as [Eq Et].
      apply eqb_true_eq in Eq, Et. subst. intros H; inversion H; subst.
      eexists. split; [cbv [routes find]; cbn; rewrite Ex; reflexivity|]. split; reflexivity.
    + destruct (String.eqb q "query" && String.eqb t "allrules" && nonempty x) eqn:E2; [|discriminate].
      apply andb_true_iff in E2. destruct E2 as [E2 Ex]. apply andb_true_iff in E2. destruct E2 as [Eq Et].
      apply eqb_true_eq in Eq, Et. subst. intros H; inversion H; subst.
      eexists. split; [cbv [routes find]; cbn; rewrite Ex; reflexivity|]. split; reflexivity.
  - (* four segments *)
    destruct (String.eqb q "query" && String.eqb t "rules" && nonempty x && nonempty y) eqn:E; [|discriminate].
    apply andb_true_iff in E. destruct E as [E Ey]. apply andb_true_iff in E. destruct E as [E Ex].
    apply andb_true_iff in E. destruct E as [Eq Et]. apply eqb_true_eq in Eq, Et. subst.
    intros H; inversion H; subst.
    eexists. split; [cbv [routes find]; cbn; rewrite Ex, Ey; reflexivity|]. split; reflexivity.
Qed.

Theorem documented_endpoints_answer required m p hdr h :
  spec_endpoint m p = Some h -> authorized required hdr = true -> serve required true m p hdr = QData h.
Proof.
  intros S A. destruct (endpoints_dispatch _ _ _ S) as [rt [D [Hh C]]].
  unfold serve. cbn [negb]. rewrite D, C, A, Hh. reflexivity.
Qed.

Theorem documented_endpoints_refuse required m p hdr h :
  spec_endpoint m p = Some h -> authorized required hdr = false ->
  serve required true m p hdr = QDenied (fst (denied_reply required hdr)) (snd (denied_reply required hdr)).
Proof.
  intros S A. destruct (endpoints_dispatch _ _ _ S) as [rt [D [Hh C]]].
  unfold serve. cbn [negb]. rewrite D, C, A. destruct (denied_reply required hdr). reflexivity.
Qed.
