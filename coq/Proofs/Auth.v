(* Proofs about Model/Auth.v (C24). *)
From Refinery Require Import Lib.Base Gen.GenC24 Model.Auth.

Lemma nonempty_empty : nonempty "" = false.
Proof. reflexivity. Qed.

Lemma nonempty_true s : nonempty s = true <-> s <> ""%string.
Proof.
  unfold nonempty. rewrite negb_true_iff. split.
  - intros H E. subst. discriminate.
  - intros H. apply String.eqb_neq. exact H.
Qed.

(* ---- GetReplaceKey is the documented table -------------------------------------------------------- *)
Ltac modes c :=
  repeat match goal with
         | |- context [String.eqb (ak_mode c) ?s] => destruct (String.eqb (ak_mode c) s)
         end.

Lemma replace_table c key kid :
  get_replace_key c key kid =
  if nonempty (doc_out c key kid) then Some (doc_out c key kid) else None.
Proof.
  unfold get_replace_key, doc_out, overwrite_with.
  destruct (nonempty (ak_send c)) eqn:Hs; cbn [negb]; [|reflexivity].
  modes c; destruct (nonempty key) eqn:Hk; destruct (listed c key kid) eqn:Hl; cbn [andb negb];
    rewrite ?nonempty_empty, ?Hs, ?Hk; reflexivity.
Qed.

Lemma doc_out_cases c key kid :
  doc_out c key kid = key \/ (doc_out c key kid = ak_send c /\ nonempty (ak_send c) = true).
Proof.
  unfold doc_out. destruct (nonempty (ak_send c)) eqn:Hs; cbn [negb]; [|left; reflexivity].
  modes c; destruct (nonempty key); destruct (listed c key kid); cbn [andb negb];
    first [left; reflexivity | right; split; reflexivity].
Qed.

(* a key the client did send is never replaced by a blank one *)
Lemma doc_out_nonblank c key kid : nonempty key = true -> nonempty (doc_out c key kid) = true.
Proof.
  intros Hk. destruct (doc_out_cases c key kid) as [E | [E Hs]]; rewrite E; assumption.
Qed.

Lemma is_accepted_spec c key kid : is_accepted c key kid = accept_spec c key kid.
Proof.
  unfold is_accepted, accept_spec, listed. destruct (ak_only_listed c); cbn [negb orb]; [|reflexivity].
  rewrite orb_assoc. reflexivity.
Qed.

(* the replaced key is always acceptable when the client's key was (ExportTraceData's second check is harmless) *)
Lemma accepted_after_replace c kid_of key :
  is_accepted c key (key_id c kid_of key) = true ->
  is_accepted c (doc_out c key (key_id c kid_of key)) (key_id c kid_of (doc_out c key (key_id c kid_of key))) = true.
Proof.
  intros Ha. destruct (doc_out_cases c key (key_id c kid_of key)) as [E | [E Hs]]; rewrite E; [exact Ha|].
  unfold is_accepted. destruct (ak_only_listed c); [|reflexivity].
  rewrite Hs, String.eqb_refl. reflexivity.
Qed.

(* ---- the scripts extracted from the working tree ------------------------------------------------------- *)
Lemma tables_ok_true : tables_ok = true.
Proof. vm_compute. reflexivity. Qed.
Lemma scripts_ok_true : scripts_ok = true.
Proof. vm_compute. reflexivity. Qed.

Definition s_v1 : list aop := [OpAccept; OpReplace true; OpAssign].
Definition s_lenient : list aop := [OpAccept; OpReplace false; OpValidate; OpAssign; OpTranslate].
Definition s_grpc_trace : list aop := [OpAccept; OpReplace true; OpAssign; OpTranslate; OpAccept].

Lemma script_eq e :
  script e = match e with
             | EV1Event | EV1Batch => s_v1
             | EOtlpTraceHttp | EOtlpLogsHttp | EGrpcLogs => s_lenient
             | EGrpcTrace => s_grpc_trace
             end.
Proof. destruct e; vm_compute; reflexivity. Qed.

(* ---- each composition refines the specification ---------------------------------------------------------- *)
Lemma run_v1 c kid_of key : run PV1 c kid_of s_v1 key key = spec c kid_of key.
Proof.
  unfold s_v1, spec. cbn [run]. rewrite replace_table, <- is_accepted_spec.
  destruct (is_accepted c key (key_id c kid_of key)); cbn [andb]; [|reflexivity].
  destruct (nonempty (doc_out c key (key_id c kid_of key))); reflexivity.
Qed.

Lemma run_lenient pr c kid_of key : pr = POtlpHttp \/ pr = PGrpcLogs ->
  run pr c kid_of s_lenient key key = spec c kid_of key.
Proof.
  intros Hpr. unfold s_lenient, spec. cbn [run]. rewrite replace_table, <- is_accepted_spec.
  destruct (is_accepted c key (key_id c kid_of key)); cbn [andb]; [|reflexivity].
  destruct (nonempty (doc_out c key (key_id c kid_of key))) eqn:Hd.
  - (* a key to use exists *)
    destruct (nonempty key) eqn:Hk.
    + rewrite Hd. destruct Hpr; subst pr; reflexivity.
    + destruct Hpr; subst pr; rewrite ?Hd; reflexivity.
  - (* GetReplaceKey failed, its error was discarded: keyToUse = "" *)
    destruct (nonempty key) eqn:Hk.
    + rewrite (doc_out_nonblank _ _ _ Hk) in Hd. discriminate.
    + destruct Hpr; subst pr; rewrite ?nonempty_empty; reflexivity.
Qed.

Lemma run_grpc_trace c kid_of key : run PGrpcTrace c kid_of s_grpc_trace key key = spec c kid_of key.
Proof.
  unfold s_grpc_trace, spec. cbn [run]. rewrite replace_table, <- is_accepted_spec.
  destruct (is_accepted c key (key_id c kid_of key)) eqn:Ha; cbn [andb]; [|reflexivity].
  destruct (nonempty (doc_out c key (key_id c kid_of key))) eqn:Hd; [|reflexivity].
  rewrite Hd, (accepted_after_replace _ _ _ Ha). reflexivity.
Qed.

Theorem enter_spec e c kid_of key : enter e c kid_of key = spec c kid_of key.
Proof.
  unfold enter. rewrite script_eq. destruct e; cbn [proto_of].
  - apply run_v1.
  - apply run_v1.
  - apply run_lenient. left; reflexivity.
  - apply run_lenient. left; reflexivity.
  - apply run_grpc_trace.
  - apply run_lenient. right; reflexivity.
Qed.

Theorem enter_uniform e1 e2 c kid_of key : enter e1 c kid_of key = enter e2 c kid_of key.
Proof. rewrite !enter_spec. reflexivity. Qed.

Theorem enter_never_blank e c kid_of key k : enter e c kid_of key = Sent k -> k <> ""%string.
Proof.
  rewrite enter_spec. unfold spec.
  destruct (accept_spec c key (key_id c kid_of key)); cbn [andb]; [|discriminate].
  destruct (nonempty (doc_out c key (key_id c kid_of key))) eqn:Hd; [|discriminate].
  intros H. inversion H; subst. apply nonempty_true. exact Hd.
Qed.

Theorem enter_accepts_iff e c kid_of key :
  (exists k, enter e c kid_of key = Sent k) <->
  (accept_spec c key (key_id c kid_of key) = true /\ doc_out c key (key_id c kid_of key) <> ""%string).
Proof.
  rewrite enter_spec. unfold spec. split.
  - intros [k H]. destruct (accept_spec c key (key_id c kid_of key)); cbn [andb] in H; [|discriminate].
    destruct (nonempty (doc_out c key (key_id c kid_of key))) eqn:Hd; [|discriminate].
    split; [reflexivity | apply nonempty_true; exact Hd].
  - intros [Ha Hd]. apply nonempty_true in Hd. rewrite Ha, Hd. eexists. reflexivity.
Qed.

Theorem enter_sends_table_key e c kid_of key k :
  enter e c kid_of key = Sent k -> k = doc_out c key (key_id c kid_of key).
Proof.
  rewrite enter_spec. unfold spec.
  destruct (accept_spec c key (key_id c kid_of key) && nonempty (doc_out c key (key_id c kid_of key))); [|discriminate].
  intros H. inversion H. reflexivity.
Qed.

(* a client key that is present is accepted exactly by the AcceptOnlyListedKeys rule (no blank-key caveat) *)
Theorem enter_accepts_nonblank e c kid_of key : key <> ""%string ->
  ((exists k, enter e c kid_of key = Sent k) <-> accept_spec c key (key_id c kid_of key) = true).
Proof.
  intros Hk. rewrite enter_accepts_iff. split; [intros [H _]; exact H|].
  intros H. split; [exact H|]. apply nonempty_true, doc_out_nonblank, nonempty_true. exact Hk.
Qed.

(* ---- the pinned tree: gRPC traces checked acceptance on the replaced key ---------------------------------- *)
Definition witness_cfg : akcfg :=
  {| ak_receive := ["listed"%string]; ak_receive_ids := []; ak_send := "sendkey"; ak_mode := "all"; ak_only_listed := true |}.

Lemma pinned_grpc_trace_refuted :
  run PGrpcTrace witness_cfg (fun _ => ""%string) pinned_grpc_trace "intruder" "intruder" = Sent "sendkey"%string /\
  spec witness_cfg (fun _ => ""%string) "intruder" = Rejected.
Proof. vm_compute. split; reflexivity. Qed.
