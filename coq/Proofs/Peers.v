(* Peers: codec round trips, the node view refines the TTL liveness specification (via Proofs/TTL.v),
   and convergence of the view for every processing order within the delay bound. *)
From Refinery Require Import Lib.Base Model.TTL Proofs.TTL Model.Peers.

(* ---------------- codec ---------------- *)
Lemma is_comma_true x : is_comma x = true <-> x = comma.
Proof. unfold is_comma. apply Ascii.eqb_eq. Qed.

Lemma split_last_none l : ~ In comma l -> split_last l = None.
Proof.
  induction l as [|x r IH]; intros H; cbn [split_last]; [reflexivity|].
  rewrite IH by (intros Hin; apply H; right; exact Hin).
  destruct (is_comma x) eqn:E; [|reflexivity].
  apply is_comma_true in E. subst x. exfalso. apply H. left. reflexivity.
Qed.

Lemma split_last_app addr id : ~ In comma id -> split_last (addr ++ comma :: id) = Some (addr, id).
Proof.
  intros H. induction addr as [|x a IH]; cbn [app split_last].
  - rewrite (split_last_none id H). unfold is_comma. rewrite Ascii.eqb_refl. reflexivity.
  - rewrite IH. reflexivity.
Qed.

Lemma split_last_inv l : forall a b, split_last l = Some (a, b) -> l = a ++ comma :: b /\ ~ In comma b.
Proof.
  induction l as [|x r IH]; intros a b H; cbn [split_last] in H; [discriminate|].
  destruct (split_last r) as [[a' b']|] eqn:E.
  - injection H as <- <-. destruct (IH a' b' eq_refl) as [-> Hn]. split; [reflexivity|exact Hn].
  - destruct (is_comma x) eqn:Ex; [|discriminate]. injection H as <- <-.
    apply is_comma_true in Ex. subst x. split; [reflexivity|].
    intros Hin. clear IH. revert E. induction r as [|y r' IHr]; [destruct Hin|].
    cbn [split_last]. destruct (split_last r') as [[? ?]|] eqn:E'; [discriminate|].
    destruct (is_comma y) eqn:Ey; [discriminate|]. intros _.
    destruct Hin as [->|Hin]; [unfold is_comma in Ey; rewrite Ascii.eqb_refl in Ey; discriminate|].
    apply IHr; [exact Hin|reflexivity].
Qed.

(* what is sent is what is received, for every address and every comma-free id *)
Theorem codec_roundtrip a addr id :
  act_ok a = true -> ~ In comma id -> unmarshal (marshal a addr id) = Some (a, addr, id).
Proof.
  intros Ha Hid. unfold unmarshal, marshal. rewrite Ha, (split_last_app addr id Hid). reflexivity.
Qed.

(* whatever decodes re-encodes to the same bytes: decoding is injective, nothing is invented *)
Theorem codec_decode_encode msg a addr id :
  unmarshal msg = Some (a, addr, id) -> marshal a addr id = msg /\ act_ok a = true /\ ~ In comma id.
Proof.
  unfold unmarshal, marshal. destruct msg as [|x rest]; [discriminate|].
  destruct (act_ok x) eqn:Ha; [|discriminate].
  destruct (split_last rest) as [[ad i]|] eqn:E; [|discriminate].
  intros [= <- <- <-]. destruct (split_last_inv rest ad i E) as [-> Hn]. repeat split; assumption.
Qed.

Definition la (s : string) : list ascii := list_ascii_of_string s.

(* the code before the fix split at the first comma: an address containing one was cut *)
Lemma codec_first_comma_refuted :
  unmarshal_first (marshal "R"%char (la "http://a,b:8081") (la "0123abcd")) =
    Some ("R"%char, la "http://a", la "b:8081,0123abcd").
Proof. vm_compute. reflexivity. Qed.

(* the wire format cannot carry an id that contains a comma (ids are 8 hex digits in production) *)
Lemma codec_id_comma_refuted :
  exists a addr id, act_ok a = true /\ unmarshal (marshal a addr id) <> Some (a, addr, id).
Proof. exists "R"%char, (la "h"), (la "1,2"). split; [reflexivity|]. vm_compute. discriminate. Qed.

(* ---------------- the node's view refines the liveness specification ---------------- *)
Lemma item_ops_ok nw items tau : items_ok nw items tau = true -> ops_ok (item_ops nw items tau) = true.
Proof.
  revert nw. induction items as [|it r IH]; intros nw H; cbn [items_ok item_ops ops_ok forallb op_ok] in *.
  - apply Z.leb_le in H. rewrite ?andb_true_r. apply Z.leb_le. lia.
  - apply andb_true_iff in H. destruct H as [H Hr]. apply andb_true_iff in H. destruct H as [H1 _].
    apply Z.leb_le in H1. apply andb_true_iff. split; [apply Z.leb_le; lia|].
    apply andb_true_iff. split; [unfold item_op; destruct (i_reg it); reflexivity|].
    apply (IH _ Hr).
Qed.

Lemma srun_item_ops ttl items tau : forall sp,
  List.last (srun ttl sp (item_ops (snow sp) items tau)) ONone =
  OVals (map (fun kv => (fst kv, snd (snd kv)))
             (live_entries ttl {| snow := tau; last := last_map (last sp) items |})).
Proof.
  induction items as [|it r IH]; intros sp; cbn [item_ops srun sstep last_map].
  - cbn [List.last snow last]. replace (snow sp + (tau - snow sp)) with tau by lia. reflexivity.
  - unfold item_op. destruct (i_reg it); cbn [srun sstep snow last];
      replace (snow sp + (i_t it - snow sp)) with (i_t it) by lia.
    + specialize (IH {| snow := i_t it; last := aset (i_id it) (i_t it, i_addr it) (last sp) |}).
      cbn [snow last] in IH.
      destruct (srun ttl _ (item_ops (i_t it) r tau)) eqn:E; [|exact IH].
      exfalso. destruct r; cbn [item_ops srun sstep] in E; discriminate.
    + specialize (IH {| snow := i_t it; last := aremove (i_id it) (last sp) |}).
      cbn [snow last] in IH.
      destruct (srun ttl _ (item_ops (i_t it) r tau)) eqn:E; [|exact IH].
      exfalso. destruct r; cbn [item_ops srun sstep] in E; discriminate.
Qed.

Theorem view_refines_spec ttl t0 items tau :
  0 <= ttl -> items_ok t0 items tau = true ->
  get_peers ttl t0 items tau =
    match spec_listing ttl items tau with [] => None | l => Some l end.
Proof.
  intros Httl Hok. unfold get_peers, spec_listing.
  rewrite (ttl_refines_spec ttl t0 _ Httl (item_ops_ok t0 items tau Hok)).
  pose proof (srun_item_ops ttl items tau (sinit t0)) as H. cbn [snow last sinit] in H. rewrite H.
  destruct (map _ _); reflexivity.
Qed.

(* ---------------- what the specification holds: the last item of every id ---------------- *)
Fixpoint last_item (id : N) (items : list item) (acc : option item) : option item :=
  match items with
  | [] => acc
  | it :: r => last_item id r (if N.eqb (i_id it) id then Some it else acc)
  end.

Lemma last_item_acc id items : forall acc,
  last_item id items acc = match last_item id items None with Some x => Some x | None => acc end.
Proof.
  induction items as [|it r IH]; intros acc; cbn [last_item]; [reflexivity|].
  destruct (N.eqb (i_id it) id).
  - rewrite (IH (Some it)). destruct (last_item id r None); reflexivity.
  - apply IH.
Qed.

Lemma last_item_in id items : forall acc it,
  last_item id items acc = Some it -> acc = Some it \/ (In it items /\ i_id it = id).
Proof.
  induction items as [|x r IH]; intros acc it H; cbn [last_item] in H; [left; exact H|].
  destruct (IH _ _ H) as [E|[Hin Hid]].
  - destruct (N.eqb (i_id x) id) eqn:Ex.
    + injection E as <-. right. split; [left; reflexivity|apply N.eqb_eq; exact Ex].
    + left. exact E.
  - right. split; [right; exact Hin|exact Hid].
Qed.

Lemma last_item_some id items it0 : In it0 items -> i_id it0 = id -> forall acc, last_item id items acc <> None.
Proof.
  induction items as [|x r IH]; intros Hin Hid acc; [destruct Hin|]. cbn [last_item].
  destruct Hin as [->|Hin].
  - rewrite Hid, N.eqb_refl. rewrite last_item_acc. destruct (last_item id r None); discriminate.
  - apply IH; assumption.
Qed.

Lemma alookup_last_map id items : forall m,
  alookup id (last_map m items) =
  match last_item id items None with
  | Some it => if i_reg it then Some (i_t it, i_addr it) else None
  | None => alookup id m
  end.
Proof.
  induction items as [|it r IH]; intros m; cbn [last_map last_item]; [reflexivity|].
  rewrite IH. rewrite (last_item_acc id r (if N.eqb (i_id it) id then Some it else None)).
  destruct (last_item id r None) as [x|]; [reflexivity|].
  destruct (N.eqb (i_id it) id) eqn:E.
  - apply N.eqb_eq in E. subst id. destruct (i_reg it).
    + apply alookup_aset_eq.
    + apply alookup_aremove_eq.
  - apply N.eqb_neq in E. destruct (i_reg it).
    + apply alookup_aset_neq. congruence.
    + apply alookup_aremove_neq. congruence.
Qed.

Lemma NoDup_last_map items : forall m, NoDup (akeys m) -> NoDup (akeys (last_map m items)).
Proof.
  induction items as [|it r IH]; intros m H; cbn [last_map]; [exact H|].
  apply IH. destruct (i_reg it); [apply NoDup_akeys_aset|apply NoDup_akeys_aremove]; exact H.
Qed.

Lemma items_ok_bounds items : forall nw tau, items_ok nw items tau = true ->
  nw <= tau /\ forall it, In it items -> nw <= i_t it /\ i_t it <= tau /\ i_p it <= i_t it.
Proof.
  induction items as [|x r IH]; intros nw tau H; cbn [items_ok] in H.
  - apply Z.leb_le in H. split; [exact H|intros it []].
  - apply andb_true_iff in H. destruct H as [H Hr]. apply andb_true_iff in H. destruct H as [H1 H2].
    apply Z.leb_le in H1, H2. destruct (IH _ _ Hr) as [Hle Hall]. split; [lia|].
    intros it [->|Hin]; [lia|]. destruct (Hall it Hin) as (A & B & C). lia.
Qed.

(* in a time-ordered list the last item of an id is the latest one *)
Lemma last_item_latest id items : forall nw tau acc it,
  items_ok nw items tau = true -> last_item id items acc = Some it ->
  forall it0, In it0 items -> i_id it0 = id -> i_t it0 <= i_t it.
Proof.
  induction items as [|x r IH]; intros nw tau acc it Hok H it0 Hin Hid; [destruct Hin|].
  cbn [items_ok] in Hok. apply andb_true_iff in Hok. destruct Hok as [Hx Hr].
  cbn [last_item] in H. destruct Hin as [->|Hin].
  - rewrite Hid, N.eqb_refl in H. destruct (last_item_in id r _ _ H) as [E|[Hin' _]].
    + injection E as <-. lia.
    + destruct (items_ok_bounds r _ _ Hr) as [_ Hall]. destruct (Hall it Hin') as (A & _). exact A.
  - exact (IH _ _ _ _ Hr H it0 Hin Hid).
Qed.

(* ---------------- convergence ---------------- *)
Lemma nonempty_in {A} (l : list A) : l <> [] -> exists x, In x l.
Proof. destruct l as [|x r]; [congruence|]. intros _. exists x. left. reflexivity. Qed.

Section Converge.
  Variables (ttl d imax T0 t0 tau : Z) (items : list item) (L : list N) (addr_of : N -> N).
  Hypothesis Hok : items_ok t0 items tau = true.              (* processed in time order; query last *)
  Hypothesis Hfit : imax + d <= ttl.                          (* refresh interval + delay fit in the TTL *)
  Hypothesis Hlate : T0 + d + ttl < tau.                      (* long enough after the last change *)
  (* every message is processed within d of being published *)
  Hypothesis Hdelay : forall it, In it items -> i_t it <= i_p it + d.
  (* live nodes: only registrations of their own address, and one published in the last d + imax
     (they publish at least every imax and what was published d ago has been processed) *)
  Hypothesis Hlive_only : forall it, In it items -> In (i_id it) L -> i_reg it = true /\ i_addr it = addr_of (i_id it).
  Hypothesis Hlive_fresh : forall id, In id L -> exists it, In it items /\ i_id it = id /\ tau - d - imax <= i_p it.
  (* everybody else published nothing after T0 (registrations and unregistrations in any order) *)
  Hypothesis Hdead : forall it, In it items -> ~ In (i_id it) L -> i_p it <= T0.

  Theorem peers_converge id a :
    In (id, a) (spec_listing ttl items tau) <-> In id L /\ a = addr_of id.
  Proof.
    unfold spec_listing, live_entries. cbn [snow last].
    pose proof (NoDup_last_map items [] ltac:(constructor)) as Hnd.
    set (m := last_map [] items) in *.
    assert (Hchar : In (id, a) (map (fun kv => (fst kv, snd (snd kv))) (filter (live ttl tau) m)) <->
                    exists t, alookup id m = Some (t, a) /\ tau <= t + ttl).
    { rewrite in_map_iff. split.
      - intros ([k [t v]] & [= -> ->] & Hin). apply filter_In in Hin. destruct Hin as [Hin Hl].
        exists t. split; [apply In_alookup_NoDup; assumption|].
        unfold live in Hl. cbn [fst snd] in Hl. apply Z.leb_le. exact Hl.
      - intros (t & Hl & Hle). exists (id, (t, a)). split; [reflexivity|]. apply filter_In.
        split; [apply alookup_In; exact Hl|]. unfold live. cbn [fst snd]. apply Z.leb_le. exact Hle. }
    rewrite Hchar. subst m. clear Hchar. split.
    - intros (t & Hl & Hle). rewrite alookup_last_map in Hl. cbn [alookup] in Hl.
      destruct (last_item id items None) as [it|] eqn:E; [|discriminate].
      destruct (i_reg it) eqn:Er; [|discriminate]. injection Hl as <- <-.
      destruct (last_item_in id items None it E) as [?|[Hin Hid]]; [discriminate|].
      destruct (in_dec N.eq_dec id L) as [HL|HnL].
      + split; [exact HL|]. subst id. apply (Hlive_only it Hin HL).
      + exfalso. subst id. pose proof (Hdead it Hin HnL). pose proof (Hdelay it Hin). lia.
    - intros [HL ->]. destruct (Hlive_fresh id HL) as (it0 & Hin0 & Hid0 & Hp0).
      destruct (last_item id items None) as [it|] eqn:E;
        [|exfalso; exact (last_item_some id items it0 Hin0 Hid0 None E)].
      destruct (last_item_in id items None it E) as [?|[Hin Hid]]; [discriminate|].
      assert (HL' : In (i_id it) L) by (rewrite Hid; exact HL).
      destruct (Hlive_only it Hin HL') as [Hr Ha].
      exists (i_t it). rewrite alookup_last_map, E, Hr, Ha, Hid. split; [reflexivity|].
      pose proof (last_item_latest id items t0 tau None it Hok E it0 Hin0 Hid0) as Hge.
      destruct (items_ok_bounds items _ _ Hok) as [_ Hall]. destruct (Hall it0 Hin0) as (_ & _ & Hpt). lia.
  Qed.

  (* the real GetPeers (executable model of the TTL map with lazy cleanup) shows exactly the live nodes *)
  Theorem get_peers_converged :
    0 <= ttl -> L <> [] ->
    exists l, get_peers ttl t0 items tau = Some l /\
              forall id a, In (id, a) l <-> In id L /\ a = addr_of id.
  Proof.
    intros Httl HL. rewrite (view_refines_spec ttl t0 items tau Httl Hok).
    destruct (spec_listing ttl items tau) as [|x l] eqn:E.
    - exfalso. destruct (nonempty_in L HL) as [id Hid].
      assert (H : In (id, addr_of id) (spec_listing ttl items tau)).
      { apply peers_converge. split; [exact Hid|reflexivity]. }
      rewrite E in H. destruct H.
    - exists (x :: l). split; [reflexivity|]. intros id a. rewrite <- E. apply peers_converge.
  Qed.
End Converge.

(* the bound of the property text: if messages take at most one refresh interval, the view has
   converged one entry timeout plus one refresh interval after the last change *)
Theorem get_peers_converged_within ttl d imax T0 t0 tau items L addr_of :
  items_ok t0 items tau = true -> imax + d <= ttl -> d <= imax -> T0 + ttl + imax < tau ->
  (forall it, In it items -> i_t it <= i_p it + d) ->
  (forall it, In it items -> In (i_id it) L -> i_reg it = true /\ i_addr it = addr_of (i_id it)) ->
  (forall id, In id L -> exists it, In it items /\ i_id it = id /\ tau - d - imax <= i_p it) ->
  (forall it, In it items -> ~ In (i_id it) L -> i_p it <= T0) ->
  0 <= ttl -> L <> [] ->
  exists l, get_peers ttl t0 items tau = Some l /\
            forall id a, In (id, a) l <-> In id L /\ a = addr_of id.
Proof.
  intros Hok Hfit Hd Hlate. apply (get_peers_converged ttl d imax T0 t0 tau items L addr_of Hok Hfit). lia.
Qed.
