(* Proofs about dry run (C05) on the forwarding model. *)
From Coq Require Import Permutation ZifyN ZifyBool.
From Refinery Require Import Lib.Base Gen.GenC04 Model.Rates Model.DryRun Proofs.Rates.

Lemma dryrun_field_name : dryrun_field = "meta.refinery.dryrun.kept"%string.
Proof. vm_compute. reflexivity. Qed.

Section Oracles.
Variable dec : N -> N * bool * string.
Variable sdec : N -> N * bool * string.
Notation step := (step dec sdec).
Notation run := (run dec sdec).
Notation decide_all := (decide_all dec).
Notation decide_one := (decide_one dec).
Notation d_keep := Proofs.Rates.d_keep.

(* without stress relief the decision store mirrors the trace sampler *)
Definition inv5 (s : st) : Prop :=
  NoDup (akeys (buf s)) /\
  (forall tid tr, In (tid, tr) (buf s) -> Forall (fun sp => s_tid sp = tid) (t_spans tr)) /\
  (forall tid, In tid (dropped s) -> d_keep (dec tid) = false) /\
  (forall tid r, alookup tid (kept s) = Some r -> d_keep (dec tid) = true).

Lemma inv5_init c : inv5 (init c).
Proof. repeat split; cbn; try constructor; try (intros; contradiction); intros; discriminate. Qed.

(* what a dry-run output must look like for span sp *)
Definition dry_ok (x : out) (sp : span) : Prop :=
  o_sid x = s_id sp /\ o_dry x = Some (d_keep (dec (s_tid sp))) /\ maxone (o_rate x) = maxone (s_rate sp) /\ o_final x = 0.

Lemma maxone_idem n : maxone (maxone n) = maxone n.
Proof. unfold maxone. destruct (N.ltb_spec n 1); [reflexivity|]. destruct (N.ltb_spec n 1); [lia|reflexivity]. Qed.

(* ---- decide ---- *)
Lemma decide_one_dry s tid tr :
  c_dry (cf s) = true -> Forall (fun sp => s_tid sp = tid) (t_spans tr) ->
  map o_sid (snd (decide_one s tid tr)) = map s_id (t_spans tr) /\
  (forall x, In x (snd (decide_one s tid tr)) -> exists sp, In sp (t_spans tr) /\ dry_ok x sp).
Proof.
  intros Hdry Htid. unfold Rates.decide_one. destruct (dec tid) as [[rate keep] reason] eqn:D.
  rewrite Hdry. replace (negb keep && negb true) with false by (destruct keep; reflexivity). cbn [snd].
  split.
  - rewrite map_map. apply map_ext. intros sp. unfold fwd_ontime. rewrite Hdry, merge_dry.
    destruct (root_counts _ _ _ _ _ _) as [[[sc ec] sev] lk]. reflexivity.
  - intros x Hin. apply in_map_iff in Hin. destruct Hin as [sp [<- Hsp]]. exists sp. split; [exact Hsp|].
    rewrite Forall_forall in Htid. pose proof (Htid sp Hsp) as Ht.
    unfold fwd_ontime. rewrite Hdry, merge_dry. destruct (root_counts _ _ _ _ _ _) as [[[sc ec] sev] lk].
    unfold dry_ok. cbn [o_sid o_dry o_rate o_final]. rewrite Ht. unfold Proofs.Rates.d_keep. rewrite D. cbn [fst snd].
    repeat split. apply maxone_idem.
Qed.

Lemma decide_one_store s tid tr :
  let s1 := fst (decide_one s tid tr) in
  (forall t, In t (dropped s1) -> In t (dropped s) \/ (t = tid /\ d_keep (dec tid) = false)) /\
  (forall t r, alookup t (kept s1) = Some r -> alookup t (kept s) = Some r \/ (t = tid /\ d_keep (dec tid) = true)).
Proof.
  unfold Rates.decide_one, Proofs.Rates.d_keep. destruct (dec tid) as [[rate keep] reason]. cbn [fst snd].
  destruct keep.
  - cbn [negb andb fst dropped kept]. split.
    + intros t H. left. exact H.
    + intros t r. destruct (N.eq_dec t tid) as [->|Hne].
      * intros _. right. split; reflexivity.
      * rewrite alookup_aset_neq by exact Hne. intros H. left. exact H.
  - destruct (c_dry (cf s)); cbn [negb andb fst dropped kept];
      (split; [intros t [<-|H]; [right; split; reflexivity|left; exact H]|intros t r H; left; exact H]).
Qed.

Lemma decide_all_dry l : forall s,
  c_dry (cf s) = true ->
  (forall tid tr, In (tid, tr) l -> Forall (fun sp => s_tid sp = tid) (t_spans tr)) ->
  (forall t, In t (dropped s) -> d_keep (dec t) = false) ->
  (forall t r, alookup t (kept s) = Some r -> d_keep (dec t) = true) ->
  let s2 := fst (decide_all s l) in
  map o_sid (snd (decide_all s l)) = flat_map (fun p => map s_id (t_spans (snd p))) l /\
  (forall x, In x (snd (decide_all s l)) -> exists tid tr sp, In (tid, tr) l /\ In sp (t_spans tr) /\ dry_ok x sp) /\
  (forall t, In t (dropped s2) -> d_keep (dec t) = false) /\
  (forall t r, alookup t (kept s2) = Some r -> d_keep (dec t) = true) /\
  cf s2 = cf s /\ host_cur s2 = host_cur s.
Proof.
  induction l as [|[tid tr] rest IH]; intros s Hdry Hl Hd Hk; cbn [Rates.decide_all].
  - cbn. split; [reflexivity|]. split; [intros y []|]. repeat split; auto.
  - pose proof (decide_one_dry s tid tr Hdry (Hl tid tr (or_introl eq_refl))) as [Hm1 Ho1].
    pose proof (decide_one_store s tid tr) as [Hd1 Hk1].
    pose proof (decide_one_frame dec s tid tr) as (Hcf & Hh & _).
    destruct (decide_one s tid tr) as [s1 o1]. cbn [fst snd] in *.
    assert (Hd1' : forall t, In t (dropped s1) -> d_keep (dec t) = false).
    { intros t Hin. destruct (Hd1 t Hin) as [H|[-> H]]; [apply Hd; exact H|exact H]. }
    assert (Hk1' : forall t r, alookup t (kept s1) = Some r -> d_keep (dec t) = true).
    { intros t r Hin. destruct (Hk1 t r Hin) as [H|[-> H]]; [apply (Hk t r); exact H|exact H]. }
    assert (Hdry1 : c_dry (cf s1) = true) by (rewrite Hcf; exact Hdry).
    specialize (IH s1 Hdry1 (fun t tr' H => Hl t tr' (or_intror H)) Hd1' Hk1').
    destruct (decide_all s1 rest) as [s2 o2]. cbn [fst snd] in *.
    destruct IH as (Hm2 & Ho2 & Hd2 & Hk2 & Hcf2 & Hh2).
    repeat split; try congruence.
    + rewrite map_app, Hm1, Hm2. reflexivity.
    + intros x Hin. apply in_app_or in Hin. destruct Hin as [Hin|Hin].
      * destruct (Ho1 x Hin) as [sp [Hsp Hok]]. exists tid, tr, sp. split; [left; reflexivity|]. split; assumption.
      * destruct (Ho2 x Hin) as (t & tr' & sp & Hin' & Hsp & Hok). exists t, tr', sp. split; [right; exact Hin'|]. split; assumption.
    + exact Hd2.
    + exact Hk2.
Qed.

(* ---- buffer bookkeeping ---- *)
Definition flat (m : amap trace) : list N := flat_map (fun p => map s_id (t_spans (snd p))) m.

Lemma aremove_absent {V} k (m : amap V) : alookup k m = None -> aremove k m = m.
Proof.
  induction m as [|[k' v] r IH]; cbn [alookup aremove]; [reflexivity|].
  destruct (N.eqb k k'); [discriminate|]. intros H. rewrite IH by exact H. reflexivity.
Qed.

Lemma flat_aremove k m tr :
  NoDup (akeys m) -> alookup k m = Some tr -> Permutation (flat m) (map s_id (t_spans tr) ++ flat (aremove k m)).
Proof.
  induction m as [|[k' v] r IH]; cbn [alookup aremove akeys map fst]; [discriminate|].
  intros Hnd. inversion Hnd as [|? ? Hn Hr]; subst. destruct (N.eqb k k') eqn:E.
  - apply N.eqb_eq in E. subst k'. intros [= ->]. unfold flat at 1. cbn [flat_map snd].
    rewrite aremove_absent; [apply Permutation_refl|].
    destruct (alookup k r) eqn:L; [|reflexivity]. exfalso. apply Hn. apply In_akeys_alookup. congruence.
  - intros H. unfold flat. cbn [flat_map snd]. fold (flat r). fold (flat (aremove k r)).
    rewrite (IH Hr H). rewrite !app_assoc. apply Permutation_app_tail. apply Permutation_app_comm.
Qed.

(* ---- one step in dry run ---- *)
Lemma step_dry s o :
  inv5 s -> c_dry (cf s) = true -> is_stress o = false ->
  let s1 := fst (step s o) in
  inv5 s1 /\
  Permutation (map o_sid (snd (step s o)) ++ buffered_sids s1)
              (buffered_sids s ++ match o with Span sp => [s_id sp] | _ => [] end) /\
  (forall x, In x (snd (step s o)) -> exists sp, source s o sp /\ dry_ok x sp) /\
  (keeps_dry o = true -> c_dry (cf s1) = true).
Proof.
  intros (Hnd & Htid & Hd & Hk) Hdry Hns. destruct o as [sp|sp| |c]; [| discriminate | |]; cbn [Rates.step].
  - (* Span *)
    destruct (alookup (s_tid sp) (buf s)) as [tr|] eqn:L.
    + cbn [fst snd]. split; [|split; [|split]].
      * split; [apply (NoDup_akeys_aset _ _ _ Hnd)|]. split; [|split; [exact Hd|exact Hk]].
        cbn [buf]. intros tid tr' Hin. apply In_aset_buf in Hin. destruct Hin as [[-> ->]|Hin]; [|apply Htid; exact Hin].
        cbn [t_spans]. apply Forall_app. split; [apply Htid; apply alookup_In; exact L|]. constructor; [reflexivity|constructor].
      * cbn [map app]. unfold buffered_sids. cbn [buf]. unfold aset. cbn [flat_map snd t_spans].
        fold (flat (aremove (s_tid sp) (buf s))). fold (flat (buf s)).
        rewrite map_app. cbn [map]. rewrite (flat_aremove _ _ _ Hnd L).
        rewrite <- !app_assoc. apply Permutation_app_head. apply Permutation_app_comm.
      * intros x [].
      * intros _; first [exact Hdry | reflexivity].
    + unfold check_span. destruct (mem_N (s_tid sp) (dropped s)) eqn:Hm.
      * (* late, dropped *)
        cbn [fst snd fwd_late]. rewrite Hdry. split; [|split; [|split]].
        -- split; [exact Hnd|]. split; [exact Htid|]. split; [exact Hd|exact Hk].
        -- cbn [map o_sid app]. unfold buffered_sids. apply Permutation_cons_append.
        -- intros x [<-|[]]. exists sp. split; [reflexivity|]. unfold dry_ok. cbn [o_sid o_dry o_rate o_final].
           apply mem_N_In in Hm. rewrite (Hd _ Hm). repeat split.
        -- intros _; first [exact Hdry | reflexivity].
      * destruct (alookup (s_tid sp) (kept s)) as [r|] eqn:Lk.
        -- (* late, kept *)
           cbn [fst snd fwd_late cf]. rewrite Hdry, merge_dry.
           destruct (root_counts _ _ _ _ _ _) as [[[sc ec] sev] lk].
           split; [|split; [|split]].
           ++ split; [exact Hnd|]. split; [exact Htid|]. split; [exact Hd|].
              cbn [kept]. intros tid r0. destruct (N.eq_dec tid (s_tid sp)) as [->|Hne].
              ** intros _. apply (Hk _ _ Lk).
              ** rewrite alookup_aset_neq by exact Hne. apply Hk.
           ++ cbn [map o_sid app]. unfold buffered_sids. cbn [buf]. apply Permutation_cons_append.
           ++ intros x [<-|[]]. exists sp. split; [reflexivity|]. unfold dry_ok. cbn [o_sid o_dry o_rate o_final].
              rewrite (Hk _ _ Lk). repeat split. apply maxone_idem.
           ++ intros _; first [exact Hdry | reflexivity].
        -- (* new trace *)
           cbn [fst snd]. split; [|split; [|split]].
           ++ split; [apply (NoDup_akeys_aset _ _ _ Hnd)|]. split; [|split; [exact Hd|exact Hk]].
              cbn [buf]. intros tid tr' Hin. apply In_aset_buf in Hin. destruct Hin as [[-> ->]|Hin]; [|apply Htid; exact Hin].
              cbn [t_spans]. constructor; [reflexivity|constructor].
           ++ cbn [map app]. unfold buffered_sids. cbn [buf]. unfold aset. rewrite (aremove_absent _ _ L).
              cbn [flat_map snd t_spans map app]. apply Permutation_cons_append.
           ++ intros x [].
           ++ intros _; first [exact Hdry | reflexivity].
  - (* Decide *)
    pose proof (decide_all_dry (buf s) s Hdry Htid Hd Hk) as H.
    destruct (decide_all s (buf s)) as [s1 o1]. cbn [fst snd] in H |- *.
    destruct H as (Hm & Ho & Hd1 & Hk1 & Hcf & _).
    split; [|split; [|split]].
    + split; [constructor|]. split; [intros tid tr []|]. split; [exact Hd1|exact Hk1].
    + unfold buffered_sids at 1. cbn [buf flat_map]. rewrite !app_nil_r. rewrite Hm. apply Permutation_refl.
    + intros x Hin. destruct (Ho x Hin) as (tid & tr & sp & Hin' & Hsp & Hok). exists sp. split; [|exact Hok].
      exists tid, tr. split; [exact Hin'|]. split; [exact Hsp|].
      pose proof (Htid tid tr Hin') as Hall. rewrite Forall_forall in Hall. apply Hall. exact Hsp.
    + intros _. cbn [cf]. rewrite Hcf. exact Hdry.
  - (* Reload *)
    cbn [fst snd map app]. split; [|split; [|split]].
    + split; [exact Hnd|]. split; [exact Htid|]. split; [exact Hd|exact Hk].
    + unfold buffered_sids. cbn [buf]. rewrite app_nil_r. apply Permutation_refl.
    + intros x [].
    + intros H. exact H.
Qed.

(* C05, global form: in a history that stays in dry run (stress relief aside), every span handed to
   processSpan is forwarded exactly once or is still buffered *)
Theorem dry_all_forwarded ops : forall s,
  inv5 s -> c_dry (cf s) = true -> dry_history ops = true ->
  Permutation (all_sids (snd (run s ops)) ++ buffered_sids (fst (run s ops))) (buffered_sids s ++ span_ids ops).
Proof.
  induction ops as [|o r IH]; intros s Hinv Hdry Hh; cbn [Rates.run].
  - cbn. rewrite app_nil_r. apply Permutation_refl.
  - cbn [dry_history forallb] in Hh. apply andb_true_iff in Hh. destruct Hh as [Ho Hr].
    apply andb_true_iff in Ho. destruct Ho as [Hkd Hns]. apply negb_true_iff in Hns.
    destruct (step_dry s o Hinv Hdry Hns) as (Hinv1 & Hperm & _ & Hdry1).
    specialize (IH (fst (step s o)) Hinv1 (Hdry1 Hkd) Hr).
    destruct (step s o) as [s1 o1]. cbn [fst snd] in *. destruct (run s1 r) as [s2 o2]. cbn [fst snd] in *.
    unfold all_sids. cbn [flat_map]. fold (all_sids o2).
    rewrite <- app_assoc. rewrite IH.
    rewrite app_assoc. rewrite Hperm.
    destruct o as [sp|sp| |c]; cbn [span_ids]; rewrite <- ?app_assoc; cbn [app]; try rewrite app_nil_r; apply Permutation_refl.
Qed.

(* every span forwarded in such a history carries the would-be decision and the client's rate *)
Theorem dry_marker_and_rate s o x :
  inv5 s -> c_dry (cf s) = true -> is_stress o = false -> In x (snd (step s o)) ->
  exists sp, source s o sp /\ dry_ok x sp.
Proof. intros Hinv Hdry Hns Hin. destruct (step_dry s o Hinv Hdry Hns) as (_ & _ & H & _). apply H. exact Hin. Qed.

Lemma run_inv5 ops : forall s, inv5 s -> c_dry (cf s) = true -> dry_history ops = true ->
  inv5 (fst (run s ops)) /\ c_dry (cf (fst (run s ops))) = true.
Proof.
  induction ops as [|o r IH]; intros s Hinv Hdry Hh; cbn [Rates.run]; [split; assumption|].
  cbn [dry_history forallb] in Hh. apply andb_true_iff in Hh. destruct Hh as [Ho Hr].
  apply andb_true_iff in Ho. destruct Ho as [Hkd Hns]. apply negb_true_iff in Hns.
  destruct (step_dry s o Hinv Hdry Hns) as (Hinv1 & _ & _ & Hdry1).
  specialize (IH (fst (step s o)) Hinv1 (Hdry1 Hkd) Hr).
  destruct (step s o) as [s1 o1]. cbn [fst] in *. destruct (run s1 r) as [s2 o2]. exact IH.
Qed.

(* ---- the invariant does not depend on DryRun being on: it is preserved by every non-stress operation,
   so the theorems above apply from any state reached by a history in which DryRun was off, then switched
   on by a reload ---- *)
Lemma decide_all_store l : forall s,
  (forall t, In t (dropped s) -> d_keep (dec t) = false) ->
  (forall t r, alookup t (kept s) = Some r -> d_keep (dec t) = true) ->
  (forall t, In t (dropped (fst (decide_all s l))) -> d_keep (dec t) = false) /\
  (forall t r, alookup t (kept (fst (decide_all s l))) = Some r -> d_keep (dec t) = true).
Proof.
  induction l as [|[tid tr] rest IH]; intros s Hd Hk; cbn [Rates.decide_all]; [split; assumption|].
  pose proof (decide_one_store s tid tr) as [Hd1 Hk1].
  destruct (decide_one s tid tr) as [s1 o1]. cbn [fst] in Hd1, Hk1.
  assert (Hd1' : forall t, In t (dropped s1) -> d_keep (dec t) = false).
  { intros t Hin. destruct (Hd1 t Hin) as [H|[-> H]]; [apply Hd; exact H|exact H]. }
  assert (Hk1' : forall t r, alookup t (kept s1) = Some r -> d_keep (dec t) = true).
  { intros t r Hin. destruct (Hk1 t r Hin) as [H|[-> H]]; [apply (Hk t r); exact H|exact H]. }
  specialize (IH s1 Hd1' Hk1'). destruct (decide_all s1 rest) as [s2 o2]. cbn [fst] in *. exact IH.
Qed.

Theorem step_inv5_any s o : inv5 s -> is_stress o = false -> inv5 (fst (step s o)).
Proof.
  intros (Hnd & Htid & Hd & Hk) Hns. destruct o as [sp|sp| |c]; [| discriminate | |]; cbn [Rates.step].
  - destruct (alookup (s_tid sp) (buf s)) as [tr|] eqn:L.
    + cbn [fst]. split; [apply (NoDup_akeys_aset _ _ _ Hnd)|]. split; [|split; [exact Hd|exact Hk]].
      cbn [buf]. intros tid tr' Hin. apply In_aset_buf in Hin. destruct Hin as [[-> ->]|Hin]; [|apply Htid; exact Hin].
      cbn [t_spans]. apply Forall_app. split; [apply Htid; apply alookup_In; exact L|]. constructor; [reflexivity|constructor].
    + unfold check_span. destruct (mem_N (s_tid sp) (dropped s)) eqn:Hm.
      * cbn [fst]. split; [exact Hnd|]. split; [exact Htid|]. split; [exact Hd|exact Hk].
      * destruct (alookup (s_tid sp) (kept s)) as [r|] eqn:Lk; cbn [fst].
        -- split; [exact Hnd|]. split; [exact Htid|]. split; [exact Hd|].
           cbn [kept]. intros tid r0. destruct (N.eq_dec tid (s_tid sp)) as [->|Hne].
           ++ intros _. apply (Hk _ _ Lk).
           ++ rewrite alookup_aset_neq by exact Hne. apply Hk.
        -- split; [apply (NoDup_akeys_aset _ _ _ Hnd)|]. split; [|split; [exact Hd|exact Hk]].
           cbn [buf]. intros tid tr' Hin. apply In_aset_buf in Hin. destruct Hin as [[-> ->]|Hin]; [|apply Htid; exact Hin].
           cbn [t_spans]. constructor; [reflexivity|constructor].
  - pose proof (decide_all_store (buf s) s Hd Hk) as [Hd1 Hk1].
    destruct (decide_all s (buf s)) as [s1 o1]. cbn [fst] in *.
    split; [constructor|]. split; [intros tid tr []|]. split; [exact Hd1|exact Hk1].
  - cbn [fst]. split; [exact Hnd|]. split; [exact Htid|]. split; [exact Hd|exact Hk].
Qed.

Theorem run_inv5_any ops : forall s,
  inv5 s -> forallb (fun o => negb (is_stress o)) ops = true -> inv5 (fst (run s ops)).
Proof.
  induction ops as [|o r IH]; intros s Hinv Hh; cbn [Rates.run]; [exact Hinv|].
  cbn [forallb] in Hh. apply andb_true_iff in Hh. destruct Hh as [Ho Hr]. apply negb_true_iff in Ho.
  pose proof (step_inv5_any s o Hinv Ho) as H1. destruct (step s o) as [s1 o1]. cbn [fst] in H1.
  specialize (IH s1 H1 Hr). destruct (run s1 r) as [s2 o2]. exact IH.
Qed.

(* stress relief ignores dry run: a stress span is forwarded iff the decision on record (or, without one,
   the stress decision) is keep; it never enters the buffer and carries no dry-run marker *)
Theorem stress_ignores_dry_run s sp :
  buf (fst (step s (Stress sp))) = buf s /\
  (forall x, In x (snd (step s (Stress sp))) -> o_sid x = s_id sp /\ o_dry x = None /\ o_stressed x = true) /\
  (snd (step s (Stress sp)) = [] <->
     mem_N (s_tid sp) (dropped s) = true \/
     (alookup (s_tid sp) (kept s) = None /\ d_keep (sdec (s_tid sp)) = false)).
Proof.
  assert (Hproj : forall s0 rate reason, o_sid (fwd_stress s0 sp rate reason) = s_id sp /\
                    o_dry (fwd_stress s0 sp rate reason) = None /\ o_stressed (fwd_stress s0 sp rate reason) = true).
  { intros s0 rate reason. unfold fwd_stress. destruct (merge _ _ _) as [[[sr fin] orig] dr]. repeat split. }
  cbn [Rates.step]. unfold check_span. destruct (mem_N (s_tid sp) (dropped s)) eqn:Hm.
  - cbn [fst snd]. split; [reflexivity|]. split; [intros x []|].
    split; [intros _; left; reflexivity|intros _; reflexivity].
  - destruct (alookup (s_tid sp) (kept s)) as [r|] eqn:L.
    + cbn [fst snd buf]. split; [reflexivity|]. split.
      * intros x [<-|[]]. apply Hproj.
      * split; [discriminate|intros [H|[H _]]; discriminate].
    + unfold Proofs.Rates.d_keep. destruct (sdec (s_tid sp)) as [[rate keep] reason]. destruct keep; cbn [fst snd buf].
      * split; [reflexivity|]. split; [intros x [<-|[]]; apply Hproj|].
        split; [discriminate|intros [H|[_ H]]; discriminate].
      * split; [reflexivity|]. split; [intros x []|].
        split; [intros _; right; split; reflexivity|intros _; reflexivity].
Qed.

End Oracles.
