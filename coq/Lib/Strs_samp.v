(* Byte / code-point strings as lists of N, with equality, lexicographic order and insertion sort,
   shared by the samp family models (C11 trace keys, C12/C13 registry keys, C14 sampler selection).
   Family library (samp): definitions and their basic lemmas; no dependency on generated files. *)
From Refinery Require Export Lib.Base.
From Coq Require Import ZifyN ZifyNat ZifyBool Permutation Sorted.

Definition str := list N.

(* printable-ASCII helper used by the generated case files *)
Definition u (s : string) : str := map N_of_ascii (list_ascii_of_string s).

(* the same with escapes: a backslash followed by a decimal code point and ';' stands for that
   code point (used by the harness for non-ASCII characters and the backslash itself) *)
Fixpoint ue_go (l : list N) (acc : option N) : str :=
  match l with
  | [] => []
  | c :: r =>
      match acc with
      | None => if (c =? 92)%N then ue_go r (Some 0%N) else c :: ue_go r None
      | Some a => if (c =? 59)%N then a :: ue_go r None else ue_go r (Some (a * 10 + (c - 48))%N)
      end
  end.
Definition ue (s : string) : str := ue_go (u s) None.

(* ---------- strings: equality, order, sorting ---------- *)
Definition str_eqb (a b : str) : bool := list_eqb N.eqb a b.

Fixpoint str_leb (a b : str) : bool :=
  match a, b with
  | [], _ => true
  | _ :: _, [] => false
  | x :: a', y :: b' => if (x <? y)%N then true else if (y <? x)%N then false else str_leb a' b'
  end.

Fixpoint sinsert (x : str) (l : list str) : list str :=
  match l with
  | [] => [x]
  | y :: r => if str_leb x y then x :: l else y :: sinsert x r
  end.
Fixpoint ssort (l : list str) : list str :=
  match l with [] => [] | x :: r => sinsert x (ssort r) end.

Fixpoint mem_str (x : str) (l : list str) : bool :=
  match l with [] => false | y :: r => str_eqb x y || mem_str x r end.

Fixpoint has_prefix (p s : str) : bool :=
  match p, s with
  | [], _ => true
  | _ :: _, [] => false
  | a :: p', b :: s' => N.eqb a b && has_prefix p' s'
  end.

(* ---------- decimal rendering ---------- *)
Fixpoint dec_digits (fuel : nat) (n : N) (acc : str) : str :=
  match fuel with
  | O => acc
  | S f => let acc' := (48 + n mod 10)%N :: acc in
           if (n / 10 =? 0)%N then acc' else dec_digits f (n / 10)%N acc'
  end.
Definition dec_N (n : N) : str := dec_digits (S (N.to_nat (N.log2 n))) n [].
Definition dec_Z (z : Z) : str :=
  if z <? 0 then 45%N :: dec_N (Z.to_N (- z)) else dec_N (Z.to_N z).

(* ---------- string equality ---------- *)
Lemma str_eqb_eq a b : str_eqb a b = true <-> a = b.
Proof.
  unfold str_eqb. revert b. induction a as [|x a IH]; destruct b as [|y b]; cbn [list_eqb];
    try (split; [discriminate|discriminate]); [split; reflexivity|].
  rewrite andb_true_iff, N.eqb_eq, IH. split; [intros [-> ->]; reflexivity|intros [= -> ->]; auto].
Qed.
Lemma str_eqb_refl a : str_eqb a a = true.
Proof. apply str_eqb_eq. reflexivity. Qed.
Lemma str_eqb_neq a b : str_eqb a b = false <-> a <> b.
Proof.
  split.
  - intros H E. apply str_eqb_eq in E. congruence.
  - intros H. destruct (str_eqb a b) eqn:E; [apply str_eqb_eq in E; contradiction|reflexivity].
Qed.

Lemma mem_str_In x l : mem_str x l = true <-> In x l.
Proof.
  induction l as [|y r IH]; cbn [mem_str In]; [split; [discriminate|intros []]|].
  rewrite orb_true_iff, IH, str_eqb_eq. split; intros [H|H]; auto.
Qed.

(* ---------- lexicographic order ---------- *)
Lemma str_leb_total a b : str_leb a b = true \/ str_leb b a = true.
Proof.
  revert b. induction a as [|x a IH]; destruct b as [|y b]; cbn [str_leb]; auto.
  destruct (x <? y)%N eqn:E1; [auto|]. destruct (y <? x)%N eqn:E2; [auto|]. apply IH.
Qed.

Lemma str_leb_antisym a b : str_leb a b = true -> str_leb b a = true -> a = b.
Proof.
  revert b. induction a as [|x a IH]; destruct b as [|y b]; cbn [str_leb]; try discriminate; auto.
  destruct (x <? y)%N eqn:E1; destruct (y <? x)%N eqn:E2; try discriminate.
  - apply N.ltb_lt in E1. apply N.ltb_lt in E2. lia.
  - apply N.ltb_ge in E1. apply N.ltb_ge in E2. intros H1 H2.
    assert (x = y) by lia. subst. f_equal. apply IH; assumption.
Qed.

Lemma str_leb_trans a b c : str_leb a b = true -> str_leb b c = true -> str_leb a c = true.
Proof.
  revert b c. induction a as [|x a IH]; intros [|y b] [|z c]; cbn [str_leb]; try discriminate; auto.
  destruct (x <? y)%N eqn:E1; destruct (y <? x)%N eqn:E2;
  destruct (y <? z)%N eqn:E3; destruct (z <? y)%N eqn:E4;
  destruct (x <? z)%N eqn:E5; destruct (z <? x)%N eqn:E6; try discriminate; auto;
  repeat match goal with
         | H : (_ <? _)%N = true |- _ => apply N.ltb_lt in H
         | H : (_ <? _)%N = false |- _ => apply N.ltb_ge in H
         end; try lia.
  apply IH.
Qed.

(* ---------- insertion sort ---------- *)
Definition sle (a b : str) : Prop := str_leb a b = true.

Lemma sinsert_perm x l : Permutation (sinsert x l) (x :: l).
Proof.
  induction l as [|y r IH]; cbn [sinsert]; [apply Permutation_refl|].
  destruct (str_leb x y); [apply Permutation_refl|].
  eapply Permutation_trans; [apply perm_skip; exact IH|apply perm_swap].
Qed.

Lemma ssort_perm l : Permutation (ssort l) l.
Proof.
  induction l as [|x r IH]; cbn [ssort]; [constructor|].
  eapply Permutation_trans; [apply sinsert_perm|apply perm_skip; exact IH].
Qed.

Lemma sinsert_sorted x l : StronglySorted sle l -> StronglySorted sle (sinsert x l).
Proof.
  induction l as [|y r IH]; cbn [sinsert]; intros H.
  - constructor; constructor.
  - inversion H as [|? ? Hr Hall]; subst.
    destruct (str_leb x y) eqn:E.
    + constructor; [exact H|]. constructor; [exact E|].
      eapply Forall_impl; [|exact Hall]. intros z Hz. eapply str_leb_trans; [exact E|exact Hz].
    + constructor; [apply IH; exact Hr|].
      assert (sle y x) as Hyx by (destruct (str_leb_total x y) as [T|T]; [congruence|exact T]).
      eapply Permutation_Forall; [apply Permutation_sym; apply sinsert_perm|].
      constructor; assumption.
Qed.

Lemma ssort_sorted l : StronglySorted sle (ssort l).
Proof. induction l as [|x r IH]; cbn [ssort]; [constructor|apply sinsert_sorted; exact IH]. Qed.

Lemma sorted_perm_eq l1 : forall l2,
  StronglySorted sle l1 -> StronglySorted sle l2 -> Permutation l1 l2 -> l1 = l2.
Proof.
  induction l1 as [|a l1 IH]; intros l2 S1 S2 P.
  - apply Permutation_nil in P. subst. reflexivity.
  - destruct l2 as [|b l2]; [apply Permutation_sym, Permutation_nil in P; discriminate|].
    inversion S1 as [|? ? S1' A1]; inversion S2 as [|? ? S2' A2]; subst.
    assert (a = b) as ->.
    { assert (In a (b :: l2)) as Ha by (eapply Permutation_in; [exact P|left; reflexivity]).
      assert (In b (a :: l1)) as Hb by (eapply Permutation_in; [apply Permutation_sym; exact P|left; reflexivity]).
      destruct Ha as [->|Ha]; [reflexivity|]. destruct Hb as [->|Hb]; [reflexivity|].
      rewrite Forall_forall in A1, A2.
      apply str_leb_antisym; [apply A1; exact Hb|apply A2; exact Ha]. }
    f_equal. apply IH; [assumption|assumption|]. eapply Permutation_cons_inv; exact P.
Qed.

Lemma ssort_perm_eq l1 l2 : Permutation l1 l2 -> ssort l1 = ssort l2.
Proof.
  intros P. apply sorted_perm_eq; [apply ssort_sorted|apply ssort_sorted|].
  eapply Permutation_trans; [apply ssort_perm|].
  eapply Permutation_trans; [exact P|apply Permutation_sym, ssort_perm].
Qed.

Lemma ssort_In x l : In x (ssort l) <-> In x l.
Proof.
  split; intros H; [eapply Permutation_in; [apply ssort_perm|exact H]|
                    eapply Permutation_in; [apply Permutation_sym, ssort_perm|exact H]].
Qed.

Lemma ssort_nil l : ssort l = [] <-> l = [].
Proof.
  split; intros H.
  - pose proof (ssort_perm l) as P. rewrite H in P. apply Permutation_nil in P. exact P.
  - subst. reflexivity.
Qed.

