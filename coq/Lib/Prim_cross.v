(* Cheap literals for generated case files (family "cross").
   Parsing a 64-bit [N] literal or a [string] literal costs coqc milliseconds (one constructor per
   bit / nine per character); primitive 63-bit integers are parsed in microseconds. The harness
   therefore prints 64-bit numbers as two 32-bit halves and strings as 7-byte chunks, both as
   [%uint63] literals, and these functions decode them inside vm_compute.
   Used ONLY by Monitor files / generated cases, never by a theorem. *)
From Coq Require Import ZArith NArith List String Ascii.
From Coq Require Export Uint63.
Import ListNotations.

Definition w64 (hi lo : int) : N := (Z.to_N (Uint63.to_Z hi) * 4294967296 + Z.to_N (Uint63.to_Z lo))%N.

(* chunk = len * 2^56 + b0 + b1*2^8 + ... (len <= 7 bytes, little endian) *)
Definition chunk_str (c : int) (rest : string) : string :=
  let z := Z.to_N (Uint63.to_Z c) in
  (fix go (k : nat) (v : N) : string :=
     match k with O => rest | S k' => String (ascii_of_N (v mod 256)) (go k' (v / 256)%N) end)
    (N.to_nat (z / 72057594037927936)) (z mod 72057594037927936)%N.
Definition pstr (cs : list int) : string := fold_right chunk_str EmptyString cs.
