(* String-keyed association lists (family route2: C20 payload model, C19 routing model). *)
From Refinery Require Import Lib.Base.

Section SMap.
  Context {V : Type}.
  Definition smap := list (string * V).

  Fixpoint slookup (k : string) (m : smap) : option V :=
    match m with
    | [] => None
    | (k', v) :: r => if String.eqb k k' then Some v else slookup k r
    end.

  Fixpoint sremove (k : string) (m : smap) : smap :=
    match m with
    | [] => []
    | (k', v) :: r => if String.eqb k k' then sremove k r else (k', v) :: sremove k r
    end.

  Definition sset (k : string) (v : V) (m : smap) : smap := (k, v) :: sremove k m.
  Definition skeys (m : smap) : list string := map fst m.
  Definition shas (k : string) (m : smap) : bool :=
    match slookup k m with Some _ => true | None => false end.

  Lemma slookup_sremove_eq k m : slookup k (sremove k m) = None.
  Proof.
    induction m as [|[k' v] r IH]; cbn [sremove slookup]; [reflexivity|].
    destruct (String.eqb k k') eqn:E; [exact IH|]. cbn [slookup]. rewrite E. exact IH.
  Qed.

  Lemma slookup_sremove_neq k k' m : k <> k' -> slookup k (sremove k' m) = slookup k m.
  Proof.
    intros Hne. induction m as [|[k2 v] r IH]; cbn [sremove slookup]; [reflexivity|].
    destruct (String.eqb k' k2) eqn:E.
    - apply String.eqb_eq in E. subst k2.
      destruct (String.eqb k k') eqn:E2; [apply String.eqb_eq in E2; contradiction|exact IH].
    - cbn [slookup]. destruct (String.eqb k k2); [reflexivity|exact IH].
  Qed.

  Lemma slookup_sset_eq k v m : slookup k (sset k v m) = Some v.
  Proof. unfold sset. cbn [slookup]. rewrite String.eqb_refl. reflexivity. Qed.

  Lemma slookup_sset_neq k k' v m : k <> k' -> slookup k (sset k' v m) = slookup k m.
  Proof.
    intros Hne. unfold sset. cbn [slookup].
    destruct (String.eqb k k') eqn:E; [apply String.eqb_eq in E; contradiction|].
    apply slookup_sremove_neq; exact Hne.
  Qed.

  Lemma In_skeys_slookup k m : In k (skeys m) <-> slookup k m <> None.
  Proof.
    induction m as [|[k' v] r IH]; cbn [skeys map slookup In fst].
    - split; [intros []|intros H; apply H; reflexivity].
    - destruct (String.eqb k k') eqn:E.
      + apply String.eqb_eq in E. subst. split; [discriminate|left; reflexivity].
      + apply String.eqb_neq in E. split.
        * intros [H|H]; [congruence|apply IH; exact H].
        * intros H. right. apply IH. exact H.
  Qed.

  Lemma slookup_None_notin k m : slookup k m = None <-> ~ In k (skeys m).
  Proof.
    rewrite In_skeys_slookup. split.
    - intros H H'. apply H'. exact H.
    - intros H. destruct (slookup k m); [exfalso; apply H; discriminate|reflexivity].
  Qed.

  Lemma skeys_sremove_notin k m : ~ In k (skeys (sremove k m)).
  Proof. rewrite In_skeys_slookup, slookup_sremove_eq. intros H; apply H; reflexivity. Qed.

  Lemma In_skeys_sremove k k' m : In k (skeys (sremove k' m)) <-> k <> k' /\ In k (skeys m).
  Proof.
    destruct (string_dec k k') as [->|Hne].
    - split; [intros H; exfalso; exact (skeys_sremove_notin _ _ H)|intros [H _]; congruence].
    - rewrite !In_skeys_slookup, slookup_sremove_neq by exact Hne. tauto.
  Qed.

  Lemma NoDup_skeys_sremove k m : NoDup (skeys m) -> NoDup (skeys (sremove k m)).
  Proof.
    induction m as [|[k' v] r IH]; cbn [skeys map sremove fst]; intros H; [constructor|].
    inversion H as [|? ? Hn Hr]; subst.
    destruct (String.eqb k k'); [apply IH; exact Hr|].
    cbn [map fst]. constructor; [|apply IH; exact Hr].
    intros Hin. apply Hn. apply (In_skeys_sremove k' k r) in Hin. tauto.
  Qed.

  Lemma NoDup_skeys_sset k v m : NoDup (skeys m) -> NoDup (skeys (sset k v m)).
  Proof.
    intros H. unfold sset. cbn [skeys map fst]. constructor.
    - apply skeys_sremove_notin.
    - apply NoDup_skeys_sremove; exact H.
  Qed.

  Lemma slookup_In k v m : slookup k m = Some v -> In (k, v) m.
  Proof.
    induction m as [|[k' v'] r IH]; cbn [slookup]; [discriminate|].
    destruct (String.eqb k k') eqn:E.
    - apply String.eqb_eq in E. intros [= ->]. left. subst. reflexivity.
    - intros H. right. apply IH. exact H.
  Qed.

  Lemma In_slookup_NoDup k v m : NoDup (skeys m) -> In (k, v) m -> slookup k m = Some v.
  Proof.
    induction m as [|[k' v'] r IH]; cbn [skeys map fst slookup]; intros Hnd Hin; [destruct Hin|].
    inversion Hnd as [|? ? Hn Hr]; subst.
    destruct Hin as [Heq|Hin].
    - injection Heq as -> ->. rewrite String.eqb_refl. reflexivity.
    - destruct (String.eqb k k') eqn:E.
      + apply String.eqb_eq in E. subst k'. exfalso. apply Hn.
        change (In k (skeys r)). apply in_map_iff. exists (k, v). split; [reflexivity|exact Hin].
      + apply IH; assumption.
  Qed.

  Lemma shas_true k m : shas k m = true <-> In k (skeys m).
  Proof.
    unfold shas. rewrite In_skeys_slookup. destruct (slookup k m); split; intros H; congruence.
  Qed.

  Lemma shas_false k m : shas k m = false <-> slookup k m = None.
  Proof. unfold shas. destruct (slookup k m); split; congruence. Qed.

  (* lookup in a filtered map whose predicate looks at the key only *)
  Lemma slookup_filter_key (f : string -> bool) k (m : smap) :
    slookup k (filter (fun kv => f (fst kv)) m) = if f k then slookup k m else None.
  Proof.
    induction m as [|[k' v'] r IH]; cbn [filter slookup fst].
    - destruct (f k); reflexivity.
    - destruct (f k') eqn:F; cbn [slookup].
      + destruct (String.eqb k k') eqn:E.
        * apply String.eqb_eq in E. subst k'. rewrite F. reflexivity.
        * exact IH.
      + destruct (String.eqb k k') eqn:E.
        * apply String.eqb_eq in E. subst k'. rewrite F in IH |- *. exact IH.
        * exact IH.
  Qed.

  Lemma NoDup_skeys_filter (f : string * V -> bool) (m : smap) :
    NoDup (skeys m) -> NoDup (skeys (filter f m)).
  Proof.
    induction m as [|[k v] r IH]; cbn [filter skeys map fst]; intros Hnd; [constructor|].
    inversion Hnd as [|? ? Hn Hr]; subst.
    destruct (f (k, v)); [|apply IH; exact Hr].
    cbn [skeys map fst]. constructor; [|apply IH; exact Hr].
    intros Hin. apply Hn. unfold skeys in *. apply in_map_iff in Hin.
    destruct Hin as [[k2 v2] [Hk Hin]]. apply filter_In in Hin. cbn in Hk. subst k2.
    apply in_map_iff. exists (k, v2). split; [reflexivity|tauto].
  Qed.

  Lemma slookup_app k (a b : smap) :
    slookup k (a ++ b) = match slookup k a with Some v => Some v | None => slookup k b end.
  Proof.
    induction a as [|[k' v'] r IH]; cbn [app slookup]; [reflexivity|].
    destruct (String.eqb k k'); [reflexivity|exact IH].
  Qed.
End SMap.
Arguments smap V : clear implicits.

Lemma slookup_map_val {V W} (g : V -> W) k (m : smap V) :
  slookup k (map (fun kv => (fst kv, g (snd kv))) m) = option_map g (slookup k m).
Proof.
  induction m as [|[k' v'] r IH]; cbn [map slookup fst snd option_map]; [reflexivity|].
  destruct (String.eqb k k'); [reflexivity|exact IH].
Qed.

Lemma skeys_map_val {V W} (g : V -> W) (m : smap V) :
  skeys (map (fun kv => (fst kv, g (snd kv))) m) = skeys m.
Proof. unfold skeys. rewrite map_map. apply map_ext. intros [k v]. reflexivity. Qed.

(* membership of a string in a list *)
Fixpoint smem (k : string) (l : list string) : bool :=
  match l with [] => false | x :: r => String.eqb k x || smem k r end.

Lemma smem_In k l : smem k l = true <-> In k l.
Proof.
  induction l as [|x r IH]; cbn [smem In]; [split; [discriminate|intros []]|].
  rewrite orb_true_iff, IH, String.eqb_eq. split; intros [H|H]; auto.
Qed.

Lemma smem_false_notin k l : smem k l = false <-> ~ In k l.
Proof. rewrite <- smem_In. destruct (smem k l); split; congruence. Qed.

(* string prefix test *)
Fixpoint sprefix (p s : string) : bool :=
  match p, s with
  | EmptyString, _ => true
  | String a p', String b s' => Ascii.eqb a b && sprefix p' s'
  | _, _ => false
  end.

(* insertion sort of string-keyed entries by key: used ONLY for canonicalisation in checkers *)
Fixpoint str_leb (a b : string) : bool :=
  match a, b with
  | EmptyString, _ => true
  | String _ _, EmptyString => false
  | String x a', String y b' =>
      let nx := N_of_ascii x in let ny := N_of_ascii y in
      if N.ltb nx ny then true else if N.ltb ny nx then false else str_leb a' b'
  end.

Section Sort.
  Context {V : Type}.
  Fixpoint sinsert (kv : string * V) (l : list (string * V)) : list (string * V) :=
    match l with
    | [] => [kv]
    | x :: r => if str_leb (fst kv) (fst x) then kv :: l else x :: sinsert kv r
    end.
  Definition ssort (l : list (string * V)) : list (string * V) := fold_right sinsert [] l.
End Sort.
