(* Shared base: association-list maps over N keys, list helpers, verdict codes. *)
From Coq Require Export String Ascii.
From Coq Require Export List ZArith NArith Arith Bool Lia.
From Coq Require Import Sorting.Mergesort Orders OrdersEx.
Export ListNotations.
Open Scope Z_scope.

(* ---------- association lists keyed by N ---------- *)
Section AMap.
  Context {V : Type}.
  Definition amap := list (N * V).

  Fixpoint alookup (k : N) (m : amap) : option V :=
    match m with
    | [] => None
    | (k', v) :: r => if N.eqb k k' then Some v else alookup k r
    end.

  Fixpoint aremove (k : N) (m : amap) : amap :=
    match m with
    | [] => []
    | (k', v) :: r => if N.eqb k k' then aremove k r else (k', v) :: aremove k r
    end.

  Definition aset (k : N) (v : V) (m : amap) : amap := (k, v) :: aremove k m.

  Definition akeys (m : amap) : list N := map fst m.

  Lemma alookup_aremove_eq k m : alookup k (aremove k m) = None.
  Proof.
    induction m as [|[k' v] r IH]; cbn [aremove alookup]; [reflexivity|].
    destruct (N.eqb k k') eqn:E; [exact IH|]. cbn [alookup]. rewrite E. exact IH.
  Qed.

  Lemma alookup_aremove_neq k k' m : k <> k' -> alookup k (aremove k' m) = alookup k m.
  Proof.
    intros Hne. induction m as [|[k2 v] r IH]; cbn [aremove alookup]; [reflexivity|].
    destruct (N.eqb k' k2) eqn:E.
    - apply N.eqb_eq in E. subst k2.
      destruct (N.eqb k k') eqn:E2; [apply N.eqb_eq in E2; contradiction|exact IH].
    - cbn [alookup]. destruct (N.eqb k k2); [reflexivity|exact IH].
  Qed.

  Lemma alookup_aset_eq k v m : alookup k (aset k v m) = Some v.
  Proof. unfold aset. cbn [alookup]. rewrite N.eqb_refl. reflexivity. Qed.

  Lemma alookup_aset_neq k k' v m : k <> k' -> alookup k (aset k' v m) = alookup k m.
  Proof.
    intros Hne. unfold aset. cbn [alookup].
    destruct (N.eqb k k') eqn:E; [apply N.eqb_eq in E; contradiction|].
    apply alookup_aremove_neq; exact Hne.
  Qed.

  Lemma In_akeys_alookup k m : In k (akeys m) <-> alookup k m <> None.
  Proof.
    induction m as [|[k' v] r IH]; cbn [akeys map alookup In fst].
    - split; [intros []|intros H; apply H; reflexivity].
    - destruct (N.eqb k k') eqn:E.
      + apply N.eqb_eq in E. subst. split; [discriminate|left; reflexivity].
      + apply N.eqb_neq in E. split.
        * intros [H|H]; [congruence|apply IH; exact H].
        * intros H. right. apply IH. exact H.
  Qed.

  Lemma akeys_aremove_notin k m : ~ In k (akeys (aremove k m)).
  Proof. rewrite In_akeys_alookup, alookup_aremove_eq. intros H; apply H; reflexivity. Qed.

  Lemma In_akeys_aremove k k' m : In k (akeys (aremove k' m)) <-> k <> k' /\ In k (akeys m).
  Proof.
    destruct (N.eq_dec k k') as [->|Hne].
    - split; [intros H; exfalso; exact (akeys_aremove_notin _ _ H)|intros [H _]; congruence].
    - rewrite !In_akeys_alookup, alookup_aremove_neq by exact Hne. tauto.
  Qed.

  Lemma NoDup_akeys_aremove k m : NoDup (akeys m) -> NoDup (akeys (aremove k m)).
  Proof.
    induction m as [|[k' v] r IH]; cbn [akeys map aremove fst]; intros H; [constructor|].
    inversion H as [|? ? Hn Hr]; subst.
    destruct (N.eqb k k'); [apply IH; exact Hr|].
    cbn [map fst]. constructor; [|apply IH; exact Hr].
    intros Hin. apply Hn. apply (In_akeys_aremove k' k r) in Hin. tauto.
  Qed.

  Lemma NoDup_akeys_aset k v m : NoDup (akeys m) -> NoDup (akeys (aset k v m)).
  Proof.
    intros H. unfold aset. cbn [akeys map fst]. constructor.
    - apply akeys_aremove_notin.
    - apply NoDup_akeys_aremove; exact H.
  Qed.

  Lemma alookup_In k v m : alookup k m = Some v -> In (k, v) m.
  Proof.
    induction m as [|[k' v'] r IH]; cbn [alookup]; [discriminate|].
    destruct (N.eqb k k') eqn:E.
    - apply N.eqb_eq in E. intros [= ->]. left. subst. reflexivity.
    - intros H. right. apply IH. exact H.
  Qed.

  Lemma In_alookup_NoDup k v m : NoDup (akeys m) -> In (k, v) m -> alookup k m = Some v.
  Proof.
    induction m as [|[k' v'] r IH]; cbn [akeys map fst alookup]; intros Hnd Hin; [destruct Hin|].
    inversion Hnd as [|? ? Hn Hr]; subst.
    destruct Hin as [Heq|Hin].
    - injection Heq as -> ->. rewrite N.eqb_refl. reflexivity.
    - destruct (N.eqb k k') eqn:E.
      + apply N.eqb_eq in E. subst k'. exfalso. apply Hn.
        change (In k (akeys r)). apply in_map_iff. exists (k, v). split; [reflexivity|exact Hin].
      + apply IH; assumption.
  Qed.
End AMap.
Arguments amap V : clear implicits.

(* filter on an amap preserves the lookup of retained keys *)
Lemma alookup_filter {V} (f : N * V -> bool) k (m : amap V) :
  NoDup (akeys m) ->
  alookup k (filter f m) =
  match alookup k m with Some v => if f (k, v) then Some v else None | None => None end.
Proof.
  induction m as [|[k' v'] r IH]; cbn [filter alookup akeys map fst]; intros Hnd; [reflexivity|].
  inversion Hnd as [|? ? Hn Hr]; subst.
  destruct (N.eqb k k') eqn:E.
  - apply N.eqb_eq in E. subst k'.
    destruct (f (k, v')) eqn:F.
    + cbn [alookup]. rewrite N.eqb_refl. reflexivity.
    + rewrite (IH Hr).
      destruct (alookup k r) eqn:L; [|reflexivity].
      exfalso. apply Hn. apply In_akeys_alookup. congruence.
  - destruct (f (k', v')); [cbn [alookup]; rewrite E|]; apply IH; exact Hr.
Qed.

Lemma NoDup_akeys_filter {V} (f : N * V -> bool) (m : amap V) :
  NoDup (akeys m) -> NoDup (akeys (filter f m)).
Proof.
  induction m as [|[k v] r IH]; cbn [filter akeys map fst]; intros Hnd; [constructor|].
  inversion Hnd as [|? ? Hn Hr]; subst.
  destruct (f (k, v)); [|apply IH; exact Hr].
  cbn [akeys map fst]. constructor; [|apply IH; exact Hr].
  intros Hin. apply Hn. unfold akeys in *. apply in_map_iff in Hin.
  destruct Hin as [[k2 v2] [Hk Hin]]. apply filter_In in Hin. cbn in Hk. subst k2.
  apply in_map_iff. exists (k, v2). split; [reflexivity|tauto].
Qed.

(* ---------- sorting used ONLY by correspondence canonicalisation ---------- *)
Module NOrderTotal <: TotalLeBool.
  Definition t := N.
  Definition leb := N.leb.
  Lemma leb_total : forall a b, leb a b = true \/ leb b a = true.
  Proof. intros a b. unfold leb. rewrite !N.leb_le. lia. Qed.
End NOrderTotal.
Module NSort := Sort NOrderTotal.
Definition nsort (l : list N) : list N := NSort.sort l.

Module ZOrderTotal <: TotalLeBool.
  Definition t := Z.
  Definition leb := Z.leb.
  Lemma leb_total : forall a b, leb a b = true \/ leb b a = true.
  Proof. intros a b. unfold leb. rewrite !Z.leb_le. lia. Qed.
End ZOrderTotal.
Module ZSort := Sort ZOrderTotal.
Definition zsort (l : list Z) : list Z := ZSort.sort l.

(* ---------- list equality helpers for checkers ---------- *)
Fixpoint list_eqb {A} (eqb : A -> A -> bool) (a b : list A) : bool :=
  match a, b with
  | [], [] => true
  | x :: a', y :: b' => eqb x y && list_eqb eqb a' b'
  | _, _ => false
  end.

Definition option_eqb {A} (eqb : A -> A -> bool) (a b : option A) : bool :=
  match a, b with
  | None, None => true
  | Some x, Some y => eqb x y
  | _, _ => false
  end.

Fixpoint mem_N (k : N) (l : list N) : bool :=
  match l with [] => false | x :: r => N.eqb k x || mem_N k r end.

Lemma mem_N_In k l : mem_N k l = true <-> In k l.
Proof.
  induction l as [|x r IH]; cbn [mem_N In]; [split; [discriminate|intros []]|].
  rewrite orb_true_iff, IH, N.eqb_eq. split; intros [H|H]; auto.
Qed.

(* bytes-to-string helper so harness can emit arbitrary bytes *)
Definition bs (l : list N) : string :=
  fold_right (fun n acc => String (ascii_of_N n) acc) EmptyString l.

(* ---------- verdict codes shared by all Monitor files ----------
   A checker maps one correspondence case to a list of codes:
     []      : model agrees with the implementation and the monitor holds
     1       : model and implementation disagree on a projected observable
     >= 10   : the property monitor is false on the implementation's observation;
               the number is the violation class (see props/Cxx.json). *)
Definition codes := list N.
Definition code_mismatch : N := 1%N.

Fixpoint index_codes_from {C} (chk : C -> codes) (i : N) (cs : list C) : list (N * codes) :=
  match cs with
  | [] => []
  | c :: r => match chk c with
              | [] => index_codes_from chk (N.succ i) r
              | l => (i, l) :: index_codes_from chk (N.succ i) r
              end
  end.
Definition check_all {C} (chk : C -> codes) (cs : list C) : list (N * codes) :=
  index_codes_from chk 0%N cs.
