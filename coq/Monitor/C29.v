(* Correspondence case and checker for C29 (settings precedence and ${VAR} expansion). *)
From Refinery Require Export Lib.Base Gen.GenC29 Model.Settings.
Local Open Scope string_scope.

Record obs_setting := {
  os_path : string;
  os_cmd : list (option sval * option sval);   (* per cmdenv tag: (flag, env var) as given *)
  os_files : list (option sval);               (* per config file *)
  os_observed : sval                           (* the value in the real main config struct *)
}.
Record case := {
  c_kind : N;                                  (* 0 precedence/expansion, 1 documented env var, 2 validated = applied *)
  c_vars : list (string * string);             (* environment variables that ${...} may refer to *)
  c_settings : list obs_setting;
  c_doc : string * string * bool;              (* setting, documented env var set alone, did the setting take its value *)
  c_choice : list string * string * bool       (* allowed values, raw text in the file, did NewConfig accept *)
}.

Definition env_of (vars : list (string * string)) (name : string) : string :=
  match find (fun kv => String.eqb (fst kv) name) vars with Some kv => snd kv | None => "" end.

Definition default_val (r : setting_row) : sval :=
  if String.eqb (row_type r) "[]string" then VList []
  else if String.eqb (row_type r) "map[string]string" then VMap []
  else VStr (row_default r).

Fixpoint map_get (k : string) (m : list (string * string)) : option string :=
  match m with [] => None | (k', v) :: r => if String.eqb k k' then Some v else map_get k r end.
Definition sval_eqb (a b : sval) : bool :=
  match a, b with
  | VStr x, VStr y => String.eqb x y
  | VList x, VList y => list_eqb String.eqb x y
  | VMap x, VMap y => Nat.eqb (length x) (length y) &&
                      forallb (fun kv => match map_get (fst kv) y with Some v => String.eqb v (snd kv) | None => false end) x
  | _, _ => false
  end.

Definition sources_of (r : setting_row) (o : obs_setting) : sources :=
  {| s_cmd := os_cmd o; s_files := os_files o; s_default := default_val r |}.

Definition model_setting (vars : list (string * string)) (o : obs_setting) : bool :=
  match find_setting settings (os_path o) with
  | None => false
  | Some r => sval_eqb (effective (env_of vars) (row_type r) (sources_of r o)) (os_observed o)
  end.

Definition model_agrees (c : case) : bool :=
  if N.eqb (c_kind c) 1 then
    let '(p, e, applied) := c_doc c in Bool.eqb (env_feeds settings cmdenv_options p e) applied
  else if N.eqb (c_kind c) 2 then
    let '(choices, raw, accepted) := c_choice c in
    let v := expand (env_of (c_vars c)) raw in
    Bool.eqb (existsb (String.eqb v) choices) accepted &&
    (negb accepted || forallb (fun o => sval_eqb (os_observed o) (VStr v)) (c_settings c))
  else forallb (model_setting (c_vars c)) (c_settings c).

(* ---------- the property monitor ---------- *)
Definition has_dollar (v : sval) : bool :=
  match v with
  | VStr s => has_substring "$" s
  | VList l => existsb (has_substring "$") l
  | VMap m => existsb (fun kv => has_substring "$" (snd kv)) m
  end.
Definition somes (l : list (option sval)) : list sval := flat_map (fun o => match o with Some v => [v] | None => [] end) l.

Definition setting_codes (vars : list (string * string)) (o : obs_setting) : codes :=
  match find_setting settings (os_path o) with
  | None => [19%N]
  | Some r =>
      let E := fun v => if type_expanded (row_type r) then expand_val (env_of vars) v else v in
      let flag1 := match os_cmd o with (Some v, _) :: _ => if is_set v then Some v else None | _ => None end in
      let cmd := first_set (map cmd_of (os_cmd o)) in
      let fl := match files_value (os_files o) with Some v => if is_set v then Some v else None | None => None end in
      let '(winner, cls) := match flag1, cmd, fl with
                            | Some v, _, _ => (v, 10%N)
                            | None, Some v, _ => (v, 11%N)
                            | None, None, Some v => (v, 12%N)
                            | None, None, None => (default_val r, 13%N)
                            end in
      if sval_eqb (E winner) (os_observed o) then [] else
      let cands := default_val r :: app (somes (map fst (os_cmd o))) (app (somes (map snd (os_cmd o))) (somes (os_files o))) in
      if negb (existsb has_dollar cands) then [cls]
      else if existsb (fun cnd => sval_eqb (E cnd) (os_observed o)) cands then [cls] else [14%N]
  end.

Definition monitor (c : case) : codes :=
  if N.eqb (c_kind c) 1 then
    let '(p, e, applied) := c_doc c in
    if applied then []
    else if String.eqb p "OTelTracing.APIKey" && String.eqb e "REFINERY_HONEYCOMB_TRACES_API_KEY" then [20%N] else [21%N]
  else if N.eqb (c_kind c) 2 then
    let '(choices, raw, accepted) := c_choice c in
    let v := expand (env_of (c_vars c)) raw in
    app (if Bool.eqb (existsb (String.eqb v) choices) accepted then [] else [16%N])
        (if accepted && negb (forallb (fun o => sval_eqb (os_observed o) (VStr v)) (c_settings c)) then [14%N] else [])
  else flat_map (setting_codes (c_vars c)) (c_settings c).

Definition check (c : case) : codes :=
  app (if model_agrees c then [] else [code_mismatch]) (monitor c).
