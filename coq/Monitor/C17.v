(* Correspondence case and checker for C17 (deterministic sharder + local/forward routing).
   Addresses and trace ids appear once as strings (c_peers / c_tids / oracle keys); every other
   observation refers to them by index (index >= length c_peers = "not one of the peers"). *)
From Refinery Require Export Lib.Base Lib.Prim_cross Model.Shard.
From Refinery Require Import Gen.GenC17.

(* one span sent through the in-process cluster *)
Record spanobs := {
  s_tid : nat;                         (* index into c_tids *)
  s_entry : nat;                       (* node whose incoming router got the span (index into c_peers) *)
  s_hops : list (nat * nat);           (* (forwarding node, ev.APIHost) of every PeerTransmission enqueue *)
  s_collectors : list nat              (* nodes whose collector received the span *)
}.

(* a history on ONE long-lived sharder: membership changes (the peer service calls its callback, loadPeerList runs)
   and lookups; [fresh] is what a sharder freshly started on the list in force answers for the same id *)
Inductive hstep :=
| HSet (l : list nat)                       (* UpdatePeers(l): l = [] is refused by loadPeerList, the old list stays *)
| HLook (tid : nat) (own fresh : nat).      (* WhichShard(c_tids[tid]) on the long-lived / on a fresh sharder *)

Record case := {
  c_peers : list addr;                 (* the peer addresses *)
  c_perms : list (list nat);           (* per sharder instance / node: the order in which it was given the peers *)
  c_selfs : list nat;                  (* GetInstanceID of each instance *)
  c_tids : list string;                (* trace ids evaluated with the model (oracle rows present) *)
  c_hash : list (string * list (N * N));  (* graph of wyhash.Hash: string -> seed -> value, as returned by the real function *)
  c_obs_peers : list (list nat);       (* d.peers of each instance *)
  c_hlists : list (list (N * nat));    (* the distinct d.hashes lists observed *)
  c_obs_hashes : list nat;             (* per instance: index into c_hlists *)
  c_obs_owner : list (list nat);       (* per instance: WhichShard(t) for t in c_tids ++ extra ids *)
  c_spans : list spanobs;
  c_hist_start : list nat;             (* the list the long-lived sharder was started with *)
  c_hist : list hstep
}.

Fixpoint slookup {V} (k : string) (m : list (string * V)) : option V :=
  match m with
  | [] => None
  | (k', v) :: r => if String.eqb k k' then Some v else slookup k r
  end.

Definition Hopt (tbl : list (string * list (N * N))) (s : string) (seed : N) : option N :=
  match slookup s tbl with Some m => alookup seed m | None => None end.
Definition Hof tbl s seed : N := match Hopt tbl s seed with Some v => v | None => 0%N end.

Section WithCase.
  Variable c : case.
  Let Hc := Hof (c_hash c).
  Definition pa (i : nat) : addr := nth i (c_peers c) EmptyString.
  Definition m_load := load_peers sorts_peers.
  Definition m_partitions := partitions Hc seed_salt peer_seed partition_count.
  Definition m_owner := owner Hc which_strict.
  Definition m_which := which Hc seed_salt peer_seed partition_count which_strict sorts_peers.
  Definition m_seeds n := seeds Hc seed_salt n peer_seed.

  Definition has s seed := match Hopt (c_hash c) s seed with Some _ => true | None => false end.

  (* every oracle query the model makes for peer list [perm] and the ids in c_tids has a row *)
  Definition oracle_complete (perm : list addr) : bool :=
    let lp := m_load perm in
    let n := ppp partition_count (length lp) in
    let ss := m_seeds n in
    forallb (has seed_salt) (removelast ss) &&
    forallb (fun a => forallb (has a) ss) lp &&
    forallb (fun t => forallb (fun p => has t (uhash p)) (m_partitions lp)) (c_tids c).

  Definition mkparts (l : list (N * nat)) : list part := map (fun x => {| uhash := fst x; pix := snd x |}) l.
  Definition hlist (i : nat) : list part := mkparts (nth i (c_hlists c) []).
  Definition enc_part (p : part) : N := (uhash p * 4294967296 + N.of_nat (pix p))%N.
  Fixpoint sorted_by_uhash (l : list part) : bool :=
    match l with
    | p :: (q :: _) as r => N.leb (uhash p) (uhash q) && sorted_by_uhash r
    | _ => true
    end.
  Definition str_list_eqb := list_eqb String.eqb.

  (* one sharder instance against the model *)
  Definition instance_agrees (permi : list nat) (opeers : list nat) (oh : nat) (oown : list nat) : bool :=
    let perm := map pa permi in
    let lp := m_load perm in
    let hs := hlist oh in
    let own := map pa (firstn (length (c_tids c)) oown) in
    oracle_complete perm &&
    str_list_eqb lp (map pa opeers) &&
    sorted_by_uhash hs &&
    list_eqb N.eqb (nsort (map enc_part hs)) (nsort (map enc_part (m_partitions lp))) &&
    str_list_eqb (map (m_owner lp hs) (c_tids c)) own &&
    str_list_eqb (map (m_which perm) (c_tids c)) own.

  Fixpoint zip4 {A B C D} (a : list A) (b : list B) (c' : list C) (d : list D) : list (A * B * C * D) :=
    match a, b, c', d with
    | x :: a', y :: b', z :: c'', w :: d' => (x, y, z, w) :: zip4 a' b' c'' d'
    | _, _, _, _ => []
    end.

  Definition same_len : bool :=
    let n := length (c_perms c) in
    Nat.eqb (length (c_selfs c)) n && Nat.eqb (length (c_obs_peers c)) n &&
    Nat.eqb (length (c_obs_hashes c)) n && Nat.eqb (length (c_obs_owner c)) n && negb (Nat.eqb n 0).

  Definition sharders_agree : bool :=
    same_len &&
    forallb (fun q => let '(perm, op, oh, oo) := q in instance_agrees perm op oh oo)
            (zip4 (c_perms c) (c_obs_peers c) (c_obs_hashes c) (c_obs_owner c)).

  (* cluster: nodes as the model sees them (real hash order of each instance) *)
  Definition m_nodes : list node :=
    map (fun q => let '(perm, sf, oh, _) := q in {| self := pa sf; view := map pa perm; nhs := hlist oh |})
        (zip4 (c_perms c) (c_selfs c) (c_obs_hashes c) (c_obs_owner c)).

  Definition pair_eqb (a b : addr * addr) : bool := String.eqb (fst a) (fst b) && String.eqb (snd a) (snd b).

  Definition span_agrees (s : spanobs) : bool :=
    let '(hops, col) := deliver Hc which_strict sorts_peers 3 m_nodes (pa (s_entry s)) (nth (s_tid s) (c_tids c) EmptyString) in
    let exp_hops := match hops with [] => [] | t :: _ => [(pa (s_entry s), t)] end in
    list_eqb pair_eqb exp_hops (map (fun h => (pa (fst h), pa (snd h))) (s_hops s)) &&
    str_list_eqb (match col with Some o => [o] | None => [] end) (map pa (s_collectors s)) &&
    Nat.leb (length hops) 1.

  (* the history against the model: every lookup equals the model's owner for the list IN FORCE *)
  Fixpoint hist_agrees (cur : list nat) (h : list hstep) : bool :=
    match h with
    | [] => true
    | HSet l :: r => hist_agrees (match l with [] => cur | _ => l end) r
    | HLook t own _ :: r =>
        String.eqb (m_which (map pa cur) (nth t (c_tids c) EmptyString)) (pa own) && hist_agrees cur r
    end.

  Definition model_agrees : bool :=
    sharders_agree && forallb span_agrees (c_spans c) && hist_agrees (c_hist_start c) (c_hist c).

  (* ---------- property monitor on the implementation's observations only ---------- *)
  Definition nat_list_eqb := list_eqb Nat.eqb.
  (* equality of owners as ADDRESSES (a duplicated address has two indices) *)
  Definition own_eqb (a b : nat) : bool := String.eqb (pa a) (pa b).

  (* 10: instances holding permutations of one list disagree on some owner *)
  Definition owners_agree : bool :=
    match c_obs_owner c with
    | [] => true
    | o1 :: r => forallb (list_eqb own_eqb o1) r
    end.
  (* 11: an owner that is not one of the peers *)
  Definition owners_in_peers : bool :=
    forallb (forallb (fun o => Nat.ltb o (length (c_peers c)))) (c_obs_owner c).
  (* 12: more than one forwarding hop *)
  Definition single_hop (s : spanobs) : bool := Nat.leb (length (s_hops s)) 1.
  (* 13: a node forwards to itself *)
  Definition no_self_forward (s : spanobs) : bool := forallb (fun h => negb (own_eqb (fst h) (snd h))) (s_hops s).
  (* 14: the span is not collected exactly once, by the owner the first instance reports *)
  Definition collected_by_owner (s : spanobs) : bool :=
    match c_obs_owner c with
    | o1 :: _ => match nth_error o1 (s_tid s) with
                 | Some o => list_eqb own_eqb [o] (s_collectors s)
                 | None => false
                 end
    | [] => false
    end.

  (* 15: after a membership change the long-lived sharder answers differently from a fresh one on the same list *)
  Definition no_stale_owner : bool :=
    forallb (fun st => match st with HLook _ own fresh => own_eqb own fresh | HSet _ => true end) (c_hist c).
  (* 11 (history): an owner outside the list in force *)
  Fixpoint hist_in_peers (cur : list nat) (h : list hstep) : bool :=
    match h with
    | [] => true
    | HSet l :: r => hist_in_peers (match l with [] => cur | _ => l end) r
    | HLook _ own _ :: r => existsb (own_eqb own) cur && hist_in_peers cur r
    end.

  Definition monitor : codes :=
    (if owners_agree then [] else [10%N]) ++
    (if owners_in_peers && hist_in_peers (c_hist_start c) (c_hist c) then [] else [11%N]) ++
    (if forallb single_hop (c_spans c) then [] else [12%N]) ++
    (if forallb no_self_forward (c_spans c) then [] else [13%N]) ++
    (if forallb collected_by_owner (c_spans c) then [] else [14%N]) ++
    (if no_stale_owner then [] else [15%N]).
End WithCase.

Definition check (c : case) : codes :=
  (if model_agrees c then [] else [code_mismatch]) ++ monitor c.
