(* C01 — one keep/drop decision per trace, applied to every span: correspondence + monitor. *)
From Refinery Require Export Monitor.CollCase_coll.

(* The monitor looks only at what the implementation did (spans handed to the transmission,
   CheckTrace answers, buffers), for every trace whose decision was never forgotten:
   10  some but not all accepted spans of the trace were forwarded (an accepted span is neither
       forwarded nor still buffered although other spans of the trace were forwarded)
   11  spans were forwarded although the remembered decision is "dropped" (dry run off)
   12  the remembered decision changed (kept <-> dropped) without having been forgotten
   13  spans were forwarded for a trace that has no decision on record
   14  spans of one trace were routed to different workers
   16  a span of a trace that already has a decision on record (not forgotten) was buffered as a NEW
       trace instead of following the decision (a second, independent decision will be made)
   15  a decision disappeared from the decision cache although it was within the retention limits
       (a dropped decision, or a kept one while the kept-decision LRU was not over capacity) *)
Definition dec_changes (its : list item) (t : N) : bool :=
  (fix go (prev : N) (l : list item) : bool :=
     match l with
     | [] => false
     | it :: r => let d := nthN (o_dec it) t 0%N in
                  ((negb (N.eqb prev 0)) && (negb (N.eqb d 0)) && negb (N.eqb prev d)) || go d r
     end) 0%N its.

Definition routed_twice (its : list item) (t : N) : bool :=
  match flat_map (fun it => match i_op it with ISpan w s => if N.eqb (s_tid s) t then [w] else [] | _ => [] end) its with
  | [] => false
  | w :: r => negb (forallb (N.eqb w) r)
  end.

Definition c01_trace (k : case) (t : N) : codes :=
  let its := k_items k in
  let acc := accepted_sids its t in
  let fwd := forwarded_sids its t in
  let buf := buffered_sids (final_bufs its) t in
  let d := final_dec its t in
  cond (negb (routed_twice its t)) 14 ++
  if was_forgot its t then [] else
    cond (is_empty fwd || forallb (fun s => mem_N s fwd || mem_N s buf) acc) 10 ++
    cond (is_empty fwd || k_dry k || negb (N.eqb d 2)) 11 ++
    cond (negb (dec_changes its t)) 12 ++
    cond (is_empty fwd || negb (N.eqb d 0)) 13.

(* for every span item: the trace had a decision after the previous item, nothing was forgotten, and
   after the span op the trace sits in a buffer again *)
Definition rebuffered (its : list item) : bool :=
  (fix go (prev : option item) (l : list item) : bool :=
     match l with
     | [] => false
     | it :: r =>
         (match prev, i_op it with
          | Some p, ISpan _ s =>
              negb (N.eqb (nthN (o_dec p) (s_tid s) 0%N) 0) &&
              negb (mem_N (s_tid s) (i_forgot p)) && negb (mem_N (s_tid s) (i_forgot it)) &&
              mem_N (s_tid s) (concat (map keys_of (o_bufs it)))
          | _, _ => false
          end) || go (Some it) r
     end) None its.

Definition check (k : case) : codes :=
  (if model_agrees k then [] else [code_mismatch]) ++
  cond (forgetting_legit k) 15 ++
  cond (negb (rebuffered (k_items k))) 16 ++
  flat_map (c01_trace k) (seqN (k_ntr k)).
