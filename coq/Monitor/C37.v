(* Correspondence case and checker for C37 (unhandled paths are proxied faithfully; partial claim). *)
From Refinery Require Export Lib.Base Model.Proxy.

Record case := {
  c_req : preq;       (* the client's request (canonical header names, each once, values in order) *)
  c_up : presp;       (* what the fake upstream answered to the first request it saw *)
  o_up_req : preq;    (* the first request the upstream saw (transport-owned headers projected away) *)
  o_up_count : N;     (* how many requests the upstream saw *)
  o_resp : presp;     (* what the client received (Date / Content-Length projected away) *)
  c_unusual_body : bool  (* the request body had no declared length (ContentLength -1 / chunked), or there was no
                            body at all, or the method is one that rarely carries a body (not POST/PUT/PATCH) *)
}.

Definition vals_eqb := list_eqb String.eqb.
Definition hdrs_eqb (a b : hdrs) : bool :=
  forallb (fun n => option_eqb vals_eqb (hlookup n a) (hlookup n b)) (names a ++ names b).

Definition smem (s : string) (l : list string) : bool := existsb (String.eqb s) l.

(* the full X-Forwarded-For chain the property asks for: everything the client sent, then the peer address *)
Definition spec_xff (r : preq) : string :=
  match hlookup xff (q_hdrs r) with
  | Some vs => if String.eqb (joincs vs) "" then q_remote r else (joincs vs ++ ", " ++ q_remote r)%string
  | None => q_remote r
  end.

Definition check (c : case) : codes :=
  let r := c_req c in let u := c_up c in let seen := o_up_req c in let got := o_resp c in
  let mreq := relay_req gen_pparams r in
  let mresp := relay_resp gen_pparams u in
  (* model vs implementation *)
  (if String.eqb (q_method mreq) (q_method seen) && String.eqb (q_target mreq) (q_target seen) &&
      String.eqb (q_body mreq) (q_body seen) && hdrs_eqb (q_hdrs mreq) (q_hdrs seen) && (o_up_count c =? 1)%N &&
      (s_status mresp =? s_status got)%N && String.eqb (s_body mresp) (s_body got) && hdrs_eqb (s_hdrs mresp) (s_hdrs got)
   then [] else [code_mismatch]) ++
  (* the property on the observation *)
  (if String.eqb (q_method r) (q_method seen) && String.eqb (q_target r) (q_target seen) &&
      (String.eqb (q_body r) (q_body seen) || c_unusual_body c) && (o_up_count c =? 1)%N then [] else [10%N]) ++
  (* body identity for bodies of unknown length / chunked bodies / bodies on unusual methods: dedicated code *)
  (if c_unusual_body c && negb (String.eqb (q_body r) (q_body seen)) then [16%N] else []) ++
  (if forallb (fun n => String.eqb n xff ||
                        option_eqb vals_eqb (option_map (fun vs => [joinc vs]) (hlookup n (q_hdrs r))) (hlookup n (q_hdrs seen)))
              (names (q_hdrs r) ++ names (q_hdrs seen)) then [] else [11%N]) ++
  (if option_eqb vals_eqb (hlookup xff (q_hdrs seen)) (Some [spec_xff r]) then [] else [15%N]) ++
  (if (s_status u =? s_status got)%N && String.eqb (s_body u) (s_body got) then [] else [12%N]) ++
  (if forallb (fun n => option_eqb vals_eqb (option_map (fun vs => [joinc vs]) (hlookup n (s_hdrs u))) (hlookup n (s_hdrs got)))
              (names (s_hdrs u)) then [] else [13%N]) ++
  (if forallb (fun n => smem n (names (s_hdrs u))) (names (s_hdrs got)) then [] else [14%N]).
