(* Checker of C05: in dry run every span is forwarded, marked with the would-be decision, rate untouched. *)
From Refinery Require Export Monitor.Coll2.

Definition code_not_once : N := 20%N.
Definition code_marker : N := 21%N.
Definition code_dry_rate : N := 22%N.
Definition code_stress_forwarding : N := 23%N.
Definition code_stale_dry_flag : N := 24%N.
Definition code_marker_while_off : N := 25%N.

Definition judge_dry (x : out) (sp : span) (keep : bool) : codes :=
  (* forwarded exactly as if DryRun were off: no marker and a final (multiplied) rate - the forwarding side
     did not see the DryRun value in force *)
  if match o_dry x with None => negb (Z.eqb (o_final x) 0) | Some _ => false end then [code_stale_dry_flag] else
  (if option_eqb Bool.eqb (o_dry x) (Some keep) then [] else [code_marker]) ++
  (if N.eqb (maxone (o_rate x)) (maxone (s_rate sp)) && Z.eqb (o_final x) 0 then [] else [code_dry_rate]).

Definition one_for (outs : list out) (sp : span) (bad : N) (k : out -> codes) : codes :=
  match outs with
  | [x] => if N.eqb (o_sid x) (s_id sp) then k x else [bad]
  | _ => [bad]
  end.

Definition judge05 (dec sdec : N -> N * bool * string) (b : book) (o : op) (outs : list out) : codes :=
  if negb (c_dry (b_cfg b)) then
    (* DryRun not in force: nothing may carry the marker *)
    flat_map (fun x => match o_dry x with Some _ => [code_marker_while_off] | None => [] end) outs
  else
  match o with
  | Span sp =>
      match span_path b sp false with
      | PLateKept _ _ _ => one_for outs sp code_not_once (fun x => judge_dry x sp true)
      | PLateDropped => one_for outs sp code_not_once (fun x => judge_dry x sp false)
      | _ => match outs with [] => [] | _ => [code_not_once] end
      end
  | Stress sp =>
      let rate_ok x := if N.eqb (maxone (o_rate x)) (maxone (s_rate sp)) then [] else [code_dry_rate] in
      match span_path b sp true with
      | PLateDropped => match outs with [] => [] | _ => [code_stress_forwarding] end
      | PLateKept _ _ _ => one_for outs sp code_stress_forwarding rate_ok
      | _ => let '(_, keep, _) := sdec (s_tid sp) in
             if keep then one_for outs sp code_stress_forwarding rate_ok
             else match outs with [] => [] | _ => [code_stress_forwarding] end
      end
  | Decide =>
      (* exactly the buffered spans, each once *)
      (if list_eqb N.eqb (sids outs) (nsort (map s_id (b_bufspans b))) then [] else [code_not_once]) ++
      flat_map (fun x => match alookup (o_sid x) (b_spans b) with
                         | Some sp => let '(_, keep, _) := dec (s_tid sp) in judge_dry x sp keep
                         | None => [code_not_once]
                         end) outs
  | Reload _ => match outs with [] => [] | _ => [code_not_once] end
  end.

Definition check (c : case) : codes :=
  (if model_agrees c then [] else [code_mismatch]) ++
  monitor_with (judge05 (oracle (c_dec c)) (oracle (c_sdec c))) (oracle (c_dec c)) (oracle (c_sdec c))
               (book_init (c_cfg c)) (c_ops c) (c_obs c).
