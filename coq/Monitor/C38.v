(* Correspondence case and checker for C38 (config converter). *)
From Refinery Require Export Lib.Base Gen.GenC38 Model.Convert.
Local Open Scope string_scope.

Record obs_cfg := {
  oc_v1key : string; oc_v2path : string; oc_vt : string; oc_v1text : string; oc_mdefault : string;
  oc_choices : list string; oc_v1 : string; oc_sdefault : string; oc_ptr : bool;
  oc_obs : string                                   (* the effective v2 value after conversion and loading *)
}.
Record obs_sampler := {
  sm_name : string; sm_type : string; sm_params : list (string * Z); sm_fields : list string; sm_rules : list rule;   (* the v1 section *)
  sm_obs_type : string; sm_obs_params : list (string * Z); sm_obs_fields : list string; sm_obs_rules : list rule    (* what the v2 loader has *)
}.
Record case := {
  c_crashed : bool;                                        (* a converter run panicked *)
  c_converted : bool;                                      (* both converter runs exited 0 *)
  c_accepted : bool;                                       (* the v2 loader accepted the converted files *)
  c_settings : list obs_cfg;
  c_samplers : list obs_sampler;
  c_nsamplers : N
}.

Definition to_in (o : obs_cfg) : setting_in :=
  {| si_vt := oc_vt o; si_text := oc_v1text o; si_mdefault := oc_mdefault o; si_choices := oc_choices o;
     si_v1 := oc_v1 o; si_sdefault := oc_sdefault o; si_ptr := oc_ptr o |}.
(* the relocation table must know the pair, otherwise the converter cannot have read the setting *)
Definition mapped (o : obs_cfg) : bool :=
  existsb (fun e => String.eqb (fst e) (oc_v1key o) && String.eqb (snd e) (oc_v2path o)) gen_table.
Definition model_value (o : obs_cfg) : string := if mapped o then loaded (to_in o) else oc_sdefault o.

Definition v1_section (o : obs_sampler) : section :=
  {| se_name := sm_name o; se_type := sm_type o; se_params := sm_params o; se_fields := sm_fields o; se_rules := sm_rules o |}.
Definition zopt_eqb (a : option Z) (b : Z) : bool := match a with Some x => Z.eqb x b | None => false end.
(* a converted rule against the loaded one: same text, same nested type, every converted parameter present *)
Definition rule_matches (want got : rule) : bool :=
  String.eqb (ru_text want) (ru_text got) && String.eqb (ru_sub_type want) (ru_sub_type got) &&
  forallb (fun p => zopt_eqb (slookup (fst p) (ru_sub_params got)) (snd p)) (ru_sub_params want).

Definition sampler_agrees (conv : list section) (o : obs_sampler) : bool :=
  if has_sampler (v1_section o) || String.eqb (sm_name o) "__default__" then
    match find_section (sm_name o) conv with
    | None => false
    | Some s => String.eqb (se_type s) (sm_obs_type o) &&
                forallb (fun p => zopt_eqb (slookup (fst p) (sm_obs_params o)) (snd p)) (se_params s) &&
                list_eqb String.eqb (se_fields s) (sm_obs_fields o) &&
                list_eqb rule_matches (se_rules s) (sm_obs_rules o)
    end
  else true.

Definition model_agrees (c : case) : bool :=
  if negb (c_converted c && c_accepted c) then false else
  forallb (fun o => String.eqb (model_value o) (oc_obs o)) (c_settings c) &&
  match c_samplers c with
  | [] => false
  | d :: ds => let conv := convert_rules (v1_section d) (map v1_section ds) in forallb (sampler_agrees conv) (c_samplers c)
  end.

(* ---------- property monitor: the effective v2 value is the v1 value ---------- *)
Definition setting_codes (o : obs_cfg) : codes :=
  if String.eqb (oc_obs o) (oc_v1 o) then [] else
  if String.eqb (oc_v1key o) "Logger" then [16%N] else
  if zero_text (oc_v1 o) then
    (* an explicit zero / false / empty: v2 can hold it in a pointer field, or when its own default is that value *)
    (if oc_ptr o || String.eqb (oc_sdefault o) (oc_v1 o) then [15%N] else [])
  else [11%N].

Definition sampler_codes (o : obs_sampler) : codes :=
  if negb (has_sampler (v1_section o) || String.eqb (sm_name o) "__default__") then [] else
  let want_type := if String.eqb (sm_type o) "" then "DeterministicSampler" else sm_type o in
  if negb (String.eqb want_type (sm_obs_type o)) then [12%N] else
  app (if forallb (fun p => zopt_eqb (slookup (fst (conv_param p)) (sm_obs_params o)) (snd (conv_param p))) (sm_params o) then [] else [13%N])
      (app (if list_eqb String.eqb (sm_fields o) (sm_obs_fields o) then [] else [14%N])
           (if list_eqb rule_matches (map conv_rule (sm_rules o)) (sm_obs_rules o) then [] else [17%N])).

Definition monitor (c : case) : codes :=
  if c_crashed c then [19%N] else
  if negb (c_converted c && c_accepted c) then [10%N] else
  app (flat_map setting_codes (c_settings c)) (flat_map sampler_codes (c_samplers c)).

Definition check (c : case) : codes :=
  app (if model_agrees c then [] else [code_mismatch]) (monitor c).
