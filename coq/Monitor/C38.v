(* Correspondence case and checker for C38 (config converter). *)
From Refinery Require Export Lib.Base Gen.GenC38 Model.Convert.
Local Open Scope string_scope.

Record obs_sampler := {
  sm_name : string; sm_type : string; sm_params : list (string * Z); sm_fields : list string;   (* the v1 section *)
  sm_obs_type : string; sm_obs_params : list (string * Z); sm_obs_fields : list string          (* what the v2 loader has *)
}.
Record case := {
  c_converted : bool;                                      (* both converter runs exited 0 *)
  c_accepted : bool;                                       (* the v2 loader accepted the converted files *)
  c_settings : list (string * string * string * string);   (* v1 key, v2 path, v1 value, effective v2 value *)
  c_samplers : list obs_sampler;
  c_nsamplers : N
}.

Definition v1_section (o : obs_sampler) : section :=
  {| se_name := sm_name o; se_type := sm_type o; se_params := sm_params o; se_fields := sm_fields o |}.
Definition zopt_eqb (a : option Z) (b : Z) : bool := match a with Some x => Z.eqb x b | None => false end.

(* the model's converted rules against the loader's view (parameters the v1 file named; defaults may be added) *)
Definition sampler_agrees (conv : list section) (o : obs_sampler) : bool :=
  if has_sampler (v1_section o) || String.eqb (sm_name o) "__default__" then
    match find_section (sm_name o) conv with
    | None => false
    | Some s => String.eqb (se_type s) (sm_obs_type o) &&
                forallb (fun p => zopt_eqb (slookup (fst p) (sm_obs_params o)) (snd p)) (se_params s) &&
                list_eqb String.eqb (se_fields s) (sm_obs_fields o)
    end
  else true.

Definition model_agrees (c : case) : bool :=
  if negb (c_converted c && c_accepted c) then false else
  let v1 := map (fun t => (fst (fst (fst t)), snd (fst t))) (c_settings c) in
  let v2 := convert_cfg gen_table v1 in
  forallb (fun t => match slookup (snd (fst (fst t))) v2 with Some v => String.eqb v (snd t) | None => false end) (c_settings c) &&
  match c_samplers c with
  | [] => false
  | d :: ds => let conv := convert_rules (v1_section d) (map v1_section ds) in forallb (sampler_agrees conv) (c_samplers c)
  end.

(* ---------- property monitor ---------- *)
Definition sampler_codes (o : obs_sampler) : codes :=
  if negb (has_sampler (v1_section o) || String.eqb (sm_name o) "__default__") then [] else
  let want_type := if String.eqb (sm_type o) "" then "DeterministicSampler" else sm_type o in
  if negb (String.eqb want_type (sm_obs_type o)) then [12%N] else
  app (if forallb (fun p => zopt_eqb (slookup (fst (conv_param p)) (sm_obs_params o)) (snd (conv_param p))) (sm_params o) then [] else [13%N])
      (if list_eqb String.eqb (sm_fields o) (sm_obs_fields o) then [] else [14%N]).

Definition monitor (c : case) : codes :=
  if negb (c_converted c && c_accepted c) then [10%N] else
  app (if forallb (fun t => String.eqb (snd (fst t)) (snd t)) (c_settings c) then [] else [11%N])
      (flat_map sampler_codes (c_samplers c)).

Definition check (c : case) : codes :=
  app (if model_agrees c then [] else [code_mismatch]) (monitor c).
