(* Correspondence case and checker for C34 (usage tracker + sendUsageReport). *)
From Refinery Require Export Lib.Base Model.Usage.

(* c_obs: for every op, what the implementation showed (report payload decoded from the OTLP JSON the
   mock OpAMP client received; ONoData / OError from the returned error) and, through the verif
   hook, the pending usage of signals 1..4 after the op *)
Record case := { c_ops : list uop; c_obs : list (uout * list Z) }.

Definition sigs : list N := [1; 2; 3; 4]%N.

(* payload as a multiset: data points sorted (Go map order is not an order) *)
Definition enc (kv : N * Z) : N := (fst kv * 4611686018427387904 + Z.to_N (snd kv))%N.
Definition canon_payload (p : list (N * Z)) : list N := nsort (map enc p).
Definition out_eqb (a b : uout) : bool :=
  match a, b with
  | ONone, ONone | ONoData, ONoData | OError, OError => true
  | OReport p n s, OReport p' n' s' =>
      list_eqb N.eqb (canon_payload p) (canon_payload p') && N.eqb n n' && Bool.eqb s s' &&
      negb (existsb (fun kv => snd kv <? 0) p')
  | _, _ => false
  end.

Fixpoint magree (s : ustate) (ops : list uop) (obs : list (uout * list Z)) : bool :=
  match ops, obs with
  | [], [] => true
  | o :: r, (x, pend) :: xs =>
      let '(s1, out) := ustep s o in
      out_eqb out x && list_eqb Z.eqb (map (pending s1) sigs) pend && magree s1 r xs
  | _, _ => false
  end.

(* monitor: sent so far + pending = growth, per signal, after every op, on the implementation's own
   observations; no negative values; nothing refused while the counters are monotone *)
Definition psums (p : list (N * Z)) : list Z := map (psum p) sigs.
Fixpoint zip_add (a b : list Z) : list Z :=
  match a, b with x :: r, y :: s => (x + y) :: zip_add r s | _, _ => [] end.

Fixpoint umon (sent growth : list Z) (mono : bool) (lastr : amap Z) (ops : list uop) (obs : list (uout * list Z)) : codes :=
  match ops, obs with
  | [], [] => []
  | o :: r, (x, pend) :: xs =>
      let growth' := match o with
                     | UAdd sig data => if data =? 0 then growth
                                        else map (fun k => if N.eqb k sig then data else nth (N.to_nat k - 1) growth 0) sigs
                     | _ => growth end in
      let mono' := match o with UAdd sig data => mono && (tot lastr sig <=? data) && (0 <=? data) | _ => mono end in
      let lastr' := match o with UAdd sig data => if data =? 0 then lastr else aset sig data lastr | _ => lastr end in
      let sent' := match x with OReport p _ true => zip_add sent (psums p) | _ => sent end in
      let tot' := zip_add sent' pend in
      (if existsb (fun ab => fst ab <? snd ab) (combine tot' growth') then [10%N] else []) ++
      (if existsb (fun ab => snd ab <? fst ab) (combine tot' growth') then [11%N] else []) ++
      (match x with OReport p _ _ => if existsb (fun kv => snd kv <? 0) p then [12%N] else [] | _ => [] end) ++
      (match x with OError => if mono' then [13%N] else [] | _ => [] end) ++
      (match x with OReport _ _ true => if forallb (Z.eqb 0) pend then [] else [14%N] | _ => [] end) ++
      umon sent' growth' mono' lastr' r xs
  | _, _ => [15%N]
  end.

Definition check (c : case) : codes :=
  (if magree uinit (c_ops c) (c_obs c) then [] else [code_mismatch]) ++
  umon [0; 0; 0; 0] [0; 0; 0; 0] true [] (c_ops c) (c_obs c).
