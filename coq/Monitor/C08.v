(* Correspondence case and checker for C08 (rules sampler). *)
From Refinery Require Export Lib.Base Model.Values Model.Rules Model.RulesSpec.
Local Open Scope string_scope.
Local Open Scope Z_scope.

Record case := {
  k_rules : list rule;
  k_trace : trace;
  k_fmt : list (dy * string);            (* fmt.Sprintf("%v", f) for every float in the case *)
  k_parse : list (string * option dy);   (* strconv.ParseFloat(s, 64) for every string in the case *)
  k_ds : list (option outcome);          (* per rule: what its downstream sampler returned *)
  k_draw : list Z;                       (* per rule: the value rand.Intn(SampleRate) returns *)
  k_obs : outcome                        (* what RulesBasedSampler.GetSampleRate returned *)
}.

(* ---- oracle tables ---- *)
Fixpoint fmt_lookup (tab : list (dy * string)) (d : dy) : string :=
  match tab with
  | [] => "?unformatted-float?"
  | (k, s) :: r => if dy_eqb k d then s else fmt_lookup r d
  end.
Fixpoint parse_lookup (tab : list (string * option dy)) (s : string) : option dy :=
  match tab with
  | [] => None
  | (k, v) :: r => if String.eqb k s then v else parse_lookup r s
  end.

(* ---- the regular-expression fragment modelled in Coq ----
   pattern ::= ['^'] literal ['$'] with literal over letters, digits, space and / - _ : ,
   (Go regexp semantics without flags: '^' and '$' anchor at the ends of the text, an unanchored
   literal matches anywhere).  Every other pattern is treated as one that does not compile; the
   driver only generates patterns of the fragment or patterns regexp.Compile rejects. *)
Definition safe_char (a : ascii) : bool :=
  let n := N_of_ascii a in
  (((48 <=? n) && (n <=? 57)) || ((65 <=? n) && (n <=? 90)) || ((97 <=? n) && (n <=? 122))
   || (n =? 32) || (n =? 47) || (n =? 45) || (n =? 95) || (n =? 58) || (n =? 44))%N.
Fixpoint all_safe (s : string) : bool :=
  match s with EmptyString => true | String a r => safe_char a && all_safe r end.
Definition rx_frag (pat : string) : option (string -> bool) :=
  let '(anch_l, p1) :=
    match pat with
    | String a r => if Ascii.eqb a "^"%char then (true, r) else (false, pat)
    | EmptyString => (false, pat)
    end in
  let n := String.length p1 in
  let '(anch_r, lit) :=
    if (1 <=? n)%nat && String.eqb (substring (n - 1) 1 p1) "$"
    then (true, substring 0 (n - 1) p1) else (false, p1) in
  if all_safe lit then
    Some (fun s =>
            match anch_l, anch_r with
            | true, true => String.eqb s lit
            | true, false => String.prefix lit s
            | false, true => str_has_suffix lit s
            | false, false => str_contains lit s
            end)
  else None.

Definition outcome_eqb (a b : outcome) : bool :=
  (o_rate a =? o_rate b) && Bool.eqb (o_keep a) (o_keep b) &&
  String.eqb (o_reason a) (o_reason b) && String.eqb (o_key a) (o_key b).

Definition k_fmtv (c : case) := fmt_lookup (k_fmt c).
Definition k_parsef (c : case) := parse_lookup (k_parse c).
Definition k_dsf (c : case) (i : nat) : option outcome := nth i (k_ds c) None.
Definition k_drawf (c : case) (i : nat) : Z := nth i (k_draw c) 1.

Definition model_outcome (c : case) : outcome :=
  run_rules (k_fmtv c) (k_parsef c) rx_frag (k_dsf c) (k_drawf c) (k_trace c) O (k_rules c).

Definition model_agrees (c : case) : bool := outcome_eqb (model_outcome c) (k_obs c).

(* ---- property monitor: the documented semantics (Model/RulesSpec.v) evaluated on the inputs,
        compared with the implementation's observed outcome ---- *)
(* the defect class "absent field matches under a value-coerced operator": the matcher that
   stringifies the missing value as "<nil>" (used ONLY to classify a violation, code 10) *)
Definition value_coerced (c : cond) : bool :=
  match c_op c with
  | OpStartsWith | OpContains | OpNotContains | OpMatches | OpIn | OpNotIn => true
  | OpEq | OpNe | OpGt | OpLt | OpGe | OpLe => match c_dt c with DString => true | _ => false end
  | _ => false
  end.
Definition lax_match fmtv parsef rx (c : cond) (ov : option sval) : bool :=
  match ov with
  | Some _ => doc_match fmtv parsef rx c ov
  | None => if value_coerced c then doc_match fmtv parsef rx c (Some SNil)
            else doc_match fmtv parsef rx c None
  end.

Definition spec_of (absent_ok : bool) (c : case) : option outcome :=
  spec_run (k_fmtv c) (k_parsef c) rx_frag (k_dsf c) (k_drawf c)
           ((if absent_ok then lax_match else doc_match) (k_fmtv c) (k_parsef c) rx_frag)
           (k_trace c) (k_rules c).

Definition check (c : case) : codes :=
  ((if model_agrees c then [] else [code_mismatch]) ++
  match spec_of false c with
  | None => []          (* configuration outside the documented domain: only the model is compared *)
  | Some want =>
      if outcome_eqb want (k_obs c) then []
      else
        (* narrow classes *)
        match spec_of true c with
        | Some lax => if outcome_eqb lax (k_obs c) then [10%N]
                      else if String.eqb (o_reason want) (o_reason (k_obs c)) then [12%N] else [11%N]
        | None => if String.eqb (o_reason want) (o_reason (k_obs c)) then [12%N] else [11%N]
        end
  end)%list.
