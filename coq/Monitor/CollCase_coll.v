(* Correspondence case shared by the collector properties (C01 C02 C03 C07 C36):
   the op list the Go driver executed on the real collector, what it observed after every op,
   the model run on the same history, and helper projections for the per-property monitors. *)
From Refinery Require Export Lib.Base Model.Collector.

(* ---------- the sampler of a case: the decision table the driver configured ---------- *)
Record rule := { r_cls : option N; r_min : option N; r_root : option bool; r_drop : bool }.

Definition rule_matches (r : rule) (spans : list span) : bool :=
  (match r_cls r with None => true | Some c => existsb (fun s => N.eqb (s_cls s) c) spans end) &&
  (match r_min r with None => true | Some n => Z.of_N n <=? Z.of_nat (length spans) end) &&
  (match r_root r with None => true | Some b => Bool.eqb (existsb s_root spans) b end).

Fixpoint eval_rules (rules : list rule) (spans : list span) : bool :=
  match rules with
  | [] => true
  | r :: rest => if rule_matches r spans then negb (r_drop r) else eval_rules rest spans
  end.

Definition table_sampler (tables : list (list rule)) (ver : N) (spans : list span) : bool :=
  eval_rules (nth (N.to_nat ver) tables []) spans.

(* ---------- case ---------- *)
Inductive iop :=
| ISpan (w : N) (s : span)
| ITick (w : N) (lf : list N)
| ITickAll (lefts : list (list N))   (* the real ticker fired on every worker at i_now *)
| IEject (w : N) (bytes : Z) (lf : list N)
| IReload (c : cfg)
| IAlloc (alloc maxalloc : Z) (lefts : list (list N))
| IStop (lefts : list (list N)).

Definition bufobs := list (N * list N * Z).   (* (trace, sorted span ids, SendBy) sorted by trace *)

Record item := {
  i_now : Z; i_op : iop; i_forgot : list N;
  o_fwd : list ev;             (* spans handed to the transmission during the op, sorted *)
  o_bufs : list bufobs;        (* per worker, after the op *)
  o_dec : list N               (* per trace number: CheckTrace after the op; 0 none, 1 kept, 2 dropped *)
}.

Record case := {
  k_workers : N; k_dry : bool; k_kept : N;
  k_stop : N;   (* 0 no stop op, 1 Stop returned nil, 2 Stop failed or hung *)
  k_leak : N;   (* goroutines alive after shutdown minus before Start *)
  k_flood_lost : N; (* flood op (more decided traces than the outgoing queue holds, upstream stalled): spans of kept traces that never reached the transmission *)
  k_cfg : cfg; k_tables : list (list rule);
  k_ntr : N; k_flush : N; k_items : list item
}.

(* ---------- small helpers ---------- *)
Fixpoint insert_by {A} (leb : A -> A -> bool) (x : A) (l : list A) : list A :=
  match l with
  | [] => [x]
  | y :: r => if leb x y then x :: l else y :: insert_by leb x r
  end.
Definition isort {A} (leb : A -> A -> bool) (l : list A) : list A := fold_right (insert_by leb) [] l.

Definition enc_ev (e : ev) : N := ((fst (fst e) * 4294967296 + snd (fst e)) * 128 + snd e)%N.
Definition sort_evs (l : list ev) : list N := nsort (map enc_ev l).

Definition seqN (n : N) : list N := map N.of_nat (seq 0 (N.to_nat n)).
Definition nthN {A} (l : list A) (i : N) (d : A) : A := nth (N.to_nat i) l d.

Definition buf_entry_eqb (a b : N * list N * Z) : bool :=
  N.eqb (fst (fst a)) (fst (fst b)) && list_eqb N.eqb (snd (fst a)) (snd (fst b)) && Z.eqb (snd a) (snd b).

(* projection of a model buffer: sorted by trace id, span ids sorted *)
Definition obs_buf (b : amap trace) : bufobs :=
  isort (fun x y => N.leb (fst (fst x)) (fst (fst y)))
        (map (fun kv => (fst kv, nsort (map s_id (t_spans (snd kv))), t_sendby (snd kv))) b).

(* owner worker of each trace: the worker its first span was routed to *)
Fixpoint owners (items : list item) (acc : amap N) : amap N :=
  match items with
  | [] => acc
  | it :: r =>
      match i_op it with
      | ISpan w s => owners r (match alookup (s_tid s) acc with Some _ => acc | None => aset (s_tid s) w acc end)
      | _ => owners r acc
      end
  end.

(* ---------- canonical oracle orders ---------- *)
Definition lookup_tr (b : amap trace) (t : N) : trace :=
  match alookup t b with Some tr => tr | None => {| t_spans := []; t_sendby := 0 |} end.

(* tick: earliest deadline first *)
Definition tick_order (b : amap trace) (lf : list N) : list N :=
  isort (fun x y => t_sendby (lookup_tr b x) <=? t_sendby (lookup_tr b y)) lf.

(* eject: heaviest first; among equal impacts the largest DataSize last (if any visiting order of
   this set is consistent with the loop, this one is) *)
Definition eject_order (tt : Z) (b : amap trace) (lf : list N) : list N :=
  isort (fun x y =>
           let ix := trace_impact tt (lookup_tr b x) in
           let iy := trace_impact tt (lookup_tr b y) in
           (iy <? ix) || ((ix =? iy) && (data_size (lookup_tr b x) <=? data_size (lookup_tr b y)))) lf.

(* ---------- running the model on a case ---------- *)
Section RunCase.
  Variable k : case.
  Definition smp := table_sampler (k_tables k).
  Definition nworkers : nat := N.to_nat (k_workers k).
  Definition workers_idx : list nat := seq 0 nworkers.

  Definition wnth (ws : list wstate) (i : nat) : wstate := nth i ws (winit (k_cfg k)).

  (* system ops of one item, computed in the model's current state (oracles canonicalised) *)
  Definition item_ops (ws : list wstate) (it : item) : list (sop) :=
    match i_op it with
    | ISpan w s => [SOp (N.to_nat w) (OSpan (i_now it) s)]
    | ITick w lf => [SOp (N.to_nat w) (OTick (i_now it) (tick_order (w_buf (wnth ws (N.to_nat w))) lf))]
    | ITickAll lefts =>
        map (fun i => SOp i (OTick (i_now it) (tick_order (w_buf (wnth ws i)) (nth i lefts [])))) workers_idx
    | IEject w bytes lf =>
        let wst := wnth ws (N.to_nat w) in
        [SOp (N.to_nat w) (OEject bytes (eject_order (eject_tt (w_cfg wst)) (w_buf wst) lf))]
    | IReload c => map (fun i => SOp i (OReload c)) workers_idx
    | IAlloc alloc maxalloc lefts =>
        if alloc_triggers alloc maxalloc then
          map (fun i => let wst := wnth ws i in
                        SOp i (OEject (alloc_share alloc maxalloc (Z.of_nat nworkers))
                                      (eject_order (eject_tt (w_cfg wst)) (w_buf wst) (nth i lefts []))))
              workers_idx
        else []
    | IStop _ => []
    end.

  Definition forget_ops (own : amap N) (it : item) : list sop :=
    map (fun t => SOp (match alookup t own with Some w => N.to_nat w | None => 0%nat end) (OForget t)) (i_forgot it).

  (* every op of the item must be one the model allows *)
  Definition ops_valid (ws : list wstate) (ops : list sop) : bool :=
    forallb (fun so => match step smp (k_dry k) (wnth ws (sop_w so)) (sop_op so) with Some _ => true | None => false end) ops.

  Definition model_dec (own : amap N) (ws : list wstate) (t : N) : N :=
    match alookup t own with
    | None => 0%N
    | Some w => match alookup t (w_dec (wnth ws (N.to_nat w))) with
                | None => 0%N | Some true => 1%N | Some false => 2%N end
    end.

  Definition item_agrees (own : amap N) (ws : list wstate) (it : item) : bool * list wstate :=
    let ops := item_ops ws it in
    let valid := ops_valid ws ops in       (* the ops of one item address distinct workers *)
    let '(ws1, es) := sys_run smp (k_dry k) ws ops in
    let '(ws2, _) := sys_run smp (k_dry k) ws1 (forget_ops own it) in
    let ok :=
      valid &&
      list_eqb N.eqb (sort_evs (concat es)) (sort_evs (o_fwd it)) &&
      list_eqb (list_eqb buf_entry_eqb) (map (fun w => obs_buf (w_buf w)) ws2) (o_bufs it) &&
      list_eqb N.eqb (map (model_dec own ws2) (seqN (k_ntr k))) (o_dec it) in
    (ok, ws2).

  Fixpoint items_agree (own : amap N) (ws : list wstate) (its : list item) : bool :=
    match its with
    | [] => true
    | it :: r => let '(ok, ws1) := item_agrees own ws it in ok && items_agree own ws1 r
    end.

  Definition model_agrees : bool :=
    items_agree (owners (k_items k) []) (repeat (winit (k_cfg k)) nworkers) (k_items k).

  (* debugging aid: per item (valid, events ok, buffers ok, decisions ok) and the model's view *)
  Fixpoint items_diag (own : amap N) (ws : list wstate) (its : list item)
    : list (bool * bool * bool * bool * list N * list bufobs * list N) :=
    match its with
    | [] => []
    | it :: r =>
        let ops := item_ops ws it in
        let '(ws1, es) := sys_run smp (k_dry k) ws ops in
        let '(ws2, _) := sys_run smp (k_dry k) ws1 (forget_ops own it) in
        (ops_valid ws ops,
         list_eqb N.eqb (sort_evs (concat es)) (sort_evs (o_fwd it)),
         list_eqb (list_eqb buf_entry_eqb) (map (fun w => obs_buf (w_buf w)) ws2) (o_bufs it),
         list_eqb N.eqb (map (model_dec own ws2) (seqN (k_ntr k))) (o_dec it),
         sort_evs (concat es), map (fun w => obs_buf (w_buf w)) ws2, map (model_dec own ws2) (seqN (k_ntr k)))
        :: items_diag own ws2 r
    end.
  Definition diag := items_diag (owners (k_items k) []) (repeat (winit (k_cfg k)) nworkers) (k_items k).

  (* forgetting is legitimate only for a KEPT decision, and only when the worker's kept-decision
     LRU is over its capacity at that moment (k_kept entries per worker); the dropped-trace filter
     is sized far beyond any case.  Returns false if some reported forgetting is not legitimate. *)
  Definition count_kept (w : wstate) : N := N.of_nat (length (filter (fun kv : N * bool => snd kv) (w_dec w))).
  Fixpoint forgets_legit (own : amap N) (ws : list wstate) (its : list item) : bool :=
    match its with
    | [] => true
    | it :: r =>
        let '(ws1, _) := sys_run smp (k_dry k) ws (item_ops ws it) in
        let '(ws2, _) := sys_run smp (k_dry k) ws1 (forget_ops own it) in
        forallb (fun t => match alookup t own with
                          | None => false
                          | Some w => let wst := wnth ws1 (N.to_nat w) in
                                      match alookup t (w_dec wst) with
                                      | Some true => N.ltb (k_kept k) (count_kept wst)
                                      | _ => false
                                      end
                          end) (i_forgot it)
        && forgets_legit own ws2 r
    end.
  Definition forgetting_legit : bool :=
    forgets_legit (owners (k_items k) []) (repeat (winit (k_cfg k)) nworkers) (k_items k).
End RunCase.

(* ---------- projections of the implementation's observation (used by the monitors) ---------- *)
Definition accepted_sids (its : list item) (t : N) : list N :=
  flat_map (fun it => match i_op it with ISpan _ s => if N.eqb (s_tid s) t then [s_id s] else [] | _ => [] end) its.
Definition forwarded_sids (its : list item) (t : N) : list N :=
  flat_map (fun it => flat_map (fun e : ev => if N.eqb (fst (fst e)) t then [snd (fst e)] else []) (o_fwd it)) its.
Definition all_fwd (its : list item) : list ev := flat_map o_fwd its.
Definition was_forgot (its : list item) (t : N) : bool := existsb (fun it => mem_N t (i_forgot it)) its.
Definition final_bufs (its : list item) : list bufobs := match rev its with it :: _ => o_bufs it | [] => [] end.
Definition final_dec (its : list item) (t : N) : N := match rev its with it :: _ => nthN (o_dec it) t 0%N | [] => 0%N end.
Definition buffered_sids (bufs : list bufobs) (t : N) : list N :=
  flat_map (fun b => flat_map (fun e : N * list N * Z => if N.eqb (fst (fst e)) t then snd (fst e) else []) b) bufs.
Definition subset_N (a b : list N) : bool := forallb (fun x => mem_N x b) a.
Fixpoint nodup_N (l : list N) : bool := match l with [] => true | x :: r => negb (mem_N x r) && nodup_N r end.
Definition cond (b : bool) (c : N) : codes := if b then [] else [c].

(* ---------- specification tracker (used by the C03 / C07 monitors) ----------
   Follows the IMPLEMENTATION for which traces are buffered (its buffer snapshots) and computes,
   independently of the implementation, what the specification says about them: spans, deadline
   (add_span / new_trace = the proved deadline formula), impact, size, config in force. *)
Record tstate := { ts_bufs : list (amap trace); ts_cfg : cfg }.
Definition keys_of (b : bufobs) : list N := map (fun e : N * list N * Z => fst (fst e)) b.
Definition tb (ts : tstate) (w : nat) : amap trace := nth w (ts_bufs ts) [].
Definition set_tb (ts : tstate) (w : nat) (b : amap trace) : tstate :=
  {| ts_bufs := upd w b (ts_bufs ts); ts_cfg := ts_cfg ts |}.
Definition drop_keys (b : amap trace) (ks : list N) : amap trace := filter (fun kv => negb (mem_N (fst kv) ks)) b.

Definition track_step (ts : tstate) (it : item) : tstate :=
  match i_op it with
  | ISpan w s =>
      let wi := N.to_nat w in
      let b := tb ts wi in
      let after := keys_of (nth wi (o_bufs it) []) in
      let b1 := if mem_N (s_tid s) after then
                  aset (s_tid s)
                       (add_span (ts_cfg ts) (i_now it)
                          (match alookup (s_tid s) b with Some tr => tr | None => new_trace (ts_cfg ts) (i_now it) end) s) b
                else b in
      set_tb ts wi (filter (fun kv => mem_N (fst kv) after) b1)
  | ITick w lf => set_tb ts (N.to_nat w) (drop_keys (tb ts (N.to_nat w)) lf)
  | IEject w _ lf => set_tb ts (N.to_nat w) (drop_keys (tb ts (N.to_nat w)) lf)
  | IReload c => {| ts_bufs := ts_bufs ts; ts_cfg := c |}
  | IAlloc _ _ lefts | IStop lefts | ITickAll lefts =>
      {| ts_bufs := map (fun p : amap trace * list N => drop_keys (fst p) (snd p))
                        (combine (ts_bufs ts) (lefts ++ repeat [] (length (ts_bufs ts))));
         ts_cfg := ts_cfg ts |}
  end.

(* (spec state before the item, item) for every item *)
Fixpoint track (ts : tstate) (its : list item) : list (tstate * item) :=
  match its with
  | [] => []
  | it :: r => (ts, it) :: track (track_step ts it) r
  end.
Definition tracked (k : case) : list (tstate * item) :=
  track {| ts_bufs := repeat [] (N.to_nat (k_workers k)); ts_cfg := k_cfg k |} (k_items k).
Definition ev_tid (e : ev) : N := fst (fst e).
Definition ev_reason (e : ev) : N := snd e.
