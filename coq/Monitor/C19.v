(* Correspondence case and checker for C19 (every received event takes exactly one route). *)
From Refinery Require Export Lib.Base Lib.SMap_route2 Model.Payload Model.Route Monitor.PayloadCmp_route2.
From Refinery Require Import Gen.GenC20.

(* one sink call as observed: for the collector / stress sinks the span handed over (snapshot taken
   inside the call), for the transmissions the event as it arrived at the fake Honeycomb / peer
   endpoint after the real DirectTransmission *)
Record oem := {
  o_sink : sink; o_host : string; o_key : string; o_dataset : string;
  o_rate : Z; o_sec : Z; o_nsec : N; o_data : fields; o_trace : string; o_root : bool
}.

Record ecase := {
  e_env : envelope;          (* the request: configured Honeycomb API, API key, dataset, rate, timestamp *)
  e_fields : fields;
  e_accepted : bool;         (* the client was told the event was accepted *)
  e_obs : list oem           (* sink calls caused by this event, in order *)
}.

Record case := {
  c_path : path; c_cfg : xcfg; c_ua : string; c_widen : list (N * N);
  c_incoming : bool; c_stressed : bool; c_processed : bool; c_kept : bool; c_full : bool;
  c_remote : list string;    (* trace ids owned by the other node *)
  c_peer : string;           (* its address *)
  c_events : list ecase;
  c_deliv : list deliv       (* delivery scenario run on the real DirectTransmission (usually none) *)
}.

Definition node_of (c : case) : node :=
  {| n_incoming := c_incoming c; n_stressed := c_stressed c; n_processed := c_processed c;
     n_kept := c_kept c; n_full := c_full c;
     n_owner := fun tid => if smem tid (c_remote c) then Some (c_peer c) else None |}.

Definition sink_eqb (a b : sink) : bool :=
  match a, b with
  | SUpstream, SUpstream | SPeer, SPeer | SCollector, SCollector
  | SCollectorPeer, SCollectorPeer | SStress, SStress => true
  | _, _ => false
  end.
Definition is_collector (s : sink) : bool :=
  match s with SCollector | SCollectorPeer | SStress => true | _ => false end.

Definition env_eqb_obs (e : envelope) (o : oem) : bool :=
  String.eqb (v_apikey e) (o_key o) && String.eqb (v_dataset e) (o_dataset o) &&
  Z.eqb (v_rate e) (o_rate o) && Z.eqb (v_sec e) (o_sec o) && N.eqb (v_nsec e) (o_nsec o).

Definition emission_eqb (m : emission) (o : oem) : bool :=
  sink_eqb (m_sink m) (o_sink o) && String.eqb (v_apihost (m_env m)) (o_host o) &&
  env_eqb_obs (m_env m) o && fields_eqb (m_data m) (o_data o) &&
  (if is_collector (m_sink m)
   then String.eqb (m_trace m) (o_trace o) && Bool.eqb (m_root m) (o_root o) else true).

Fixpoint all2 {A B} (f : A -> B -> bool) (a : list A) (b : list B) : bool :=
  match a, b with
  | [], [] => true
  | x :: a', y :: b' => f x y && all2 f a' b'
  | _, _ => false
  end.

Definition model_agrees (c : case) (e : ecase) : bool :=
  match process (widen_of (c_widen c)) (node_of c) (c_path c) (c_cfg c) (c_ua c) (e_env e) (e_fields e) with
  | Done l => e_accepted e && all2 emission_eqb l (e_obs e)
  | Rejected | Refused => negb (e_accepted e) && match e_obs e with [] => true | _ => false end
  end.

(* ---------- the property monitor on the observation ---------- *)
Definition o_handling (o : oem) : bool := negb (is_marker (o_sink o) (o_data o)).

Definition event_monitor (c : case) (e : ecase) : codes :=
  let w := widen_of (c_widen c) in
  match ingest w (c_path c) (c_cfg c) (c_ua c) (e_fields e) with
  | None => match e_obs e with [] => [] | _ => [18%N] end        (* not well-formed: must not be routed *)
  | Some p =>
      let obs := e_obs e in
      let tid := meta_str meta_trace_id p in
      let stress := c_stressed c && c_processed c in
      let remote := smem tid (c_remote c) in
      if is_probe p then (match obs with [] => [] | _ => [13%N] end)
      else
        let nh := length (filter o_handling obs) in
        (if (nh =? 0)%nat && negb (c_full c && negb remote && negb stress && negb (is_empty_str tid)) then [10%N] else [])
        ++ (if (1 <? nh)%nat then [11%N] else [])
        ++ (if is_empty_str tid && negb (forallb (fun o => sink_eqb (o_sink o) SUpstream) obs) then [12%N] else [])
        ++ (if negb (is_empty_str tid) && negb stress &&
               existsb (fun o => if remote then is_collector (o_sink o) || sink_eqb (o_sink o) SUpstream
                                 else sink_eqb (o_sink o) SPeer || sink_eqb (o_sink o) SUpstream) obs
            then [16%N] else [])
        ++ (if existsb (fun o => sink_eqb (o_sink o) SPeer && negb (String.eqb (o_host o) (c_peer c))) obs
            then [17%N] else [])
        ++ (if existsb (fun o => negb (is_collector (o_sink o)) && negb (env_eqb_obs (e_env e) o)) obs
            then [14%N] else [])
        ++ (if existsb (fun o => sink_eqb (o_sink o) SPeer &&
                                 match flat_map (field_codes w (c_path c) (o_data o))
                                                (filter (fun kv => negb (reserved (fst kv))) (e_fields e)) with
                                 | [] => negb (forallb (fun k => reserved k || shas k (e_fields e)) (skeys (o_data o)))
                                 | l => negb (forallb (fun x => N.eqb x 13) l)   (* bin->str on the loose path is C20's known finding *)
                                 end) obs
            then [15%N] else [])
  end.

Definition check (c : case) : codes :=
  flat_map (fun e => (if model_agrees c e then [] else [code_mismatch]) ++ event_monitor c e) (c_events c)
  ++ flat_map deliv_codes (c_deliv c).
