(* Correspondence case and checker for C26 (DirectTransmission). *)
From Refinery Require Export Lib.Base Model.Transmit.

(* a request as the fake server saw it (attempts of one batch grouped by the batch's first event id) *)
Record obs_req := { o_first : N; o_dest : N; o_ids : list N; o_size : Z; o_wire : Z; o_attempts : N; o_time : Z }.

Record case := {
  c_max : Z; c_bt : Z; c_t0 : Z;
  c_ops : list top;                  (* the driver appends Stop *)
  c_beh : list (N * list resp);      (* what the fake server answered, per batch (first event id), per attempt *)
  c_bad : list N;                    (* destinations with an API host that does not form a URL *)
  c_reqs : list obs_req;             (* sorted by first id *)
  c_sleeps : list Z;                 (* Clock.Sleep durations, sorted *)
  c_syncs : list (Z * Z);            (* at each Sync: (ups - downs, pending events) *)
  c_sync_timeouts : N;               (* Syncs at which ups - downs never reached pending *)
  c_gauge : Z;                       (* ups - downs after Stop returned *)
  c_cnt : list Z;                    (* [response_20x; response_errors; send_errors; send_retries; batches_sent; messages_sent] *)
  c_burst : list N;                  (* ids enqueued by goroutines released together as the first events of new destinations *)
  c_bad_bodies : N                   (* attempts whose body was not the serialized events of a batch (undecodable) *)
}.

Definition beh_of (c : case) (k : N) : list resp :=
  match alookup k (c_beh c) with Some l => l | None => [] end.
Definition bad_of (c : case) (d : N) : bool := mem_N d (c_bad c).

(* ---------- canonical order ---------- *)
Fixpoint insert_by {A} (key : A -> N) (x : A) (l : list A) : list A :=
  match l with
  | [] => [x]
  | y :: r => if (key x <=? key y)%N then x :: l else y :: insert_by key x r
  end.
Definition sort_by {A} (key : A -> N) (l : list A) : list A := fold_right (insert_by key) [] l.

Definition req_to_obs (r : request) : obs_req :=
  {| o_first := first_id (rq_evs r); o_dest := rq_dest r; o_ids := map eid (rq_evs r);
     o_size := rq_size r; o_wire := 0; o_attempts := rq_attempts r; o_time := rq_time r |}.
Definition obs_req_eqb (a b : obs_req) : bool :=
  N.eqb (o_first a) (o_first b) && N.eqb (o_dest a) (o_dest b) && list_eqb N.eqb (o_ids a) (o_ids b) &&
  Z.eqb (o_size a) (o_size b) && N.eqb (o_attempts a) (o_attempts b) && Z.eqb (o_time a) (o_time b).

Definition model_agrees (c : case) : bool :=
  match run (gen_cfg (c_max c) (c_bt c)) (beh_of c) (bad_of c) (c_t0 c) (c_ops c) with
  | None => false
  | Some r =>
      N.eqb (c_bad_bodies c) 0 &&
      list_eqb obs_req_eqb (sort_by o_first (map req_to_obs (filter (fun q => negb (N.eqb (rq_attempts q) 0)) (r_reqs r)))) (c_reqs c) &&
      list_eqb Z.eqb (zsort (r_sleeps r)) (c_sleeps c) &&
      list_eqb Z.eqb (r_syncs r) (map fst (c_syncs c)) &&
      list_eqb Z.eqb (r_syncs r) (map snd (c_syncs c)) &&
      Z.eqb (r_ups r - downs (r_cnt r)) (c_gauge c) &&
      list_eqb Z.eqb [ok20x (r_cnt r); resp_err (r_cnt r); send_err (r_cnt r); retries (r_cnt r);
                      batches (r_cnt r); msgs (r_cnt r)] (c_cnt c)
  end.

(* ---------- the property monitor: reads only the ops and the observations ---------- *)
Fixpoint find_ev (k : N) (l : list (event * Z)) : option (event * Z) :=
  match l with
  | [] => None
  | (e, t) :: r => if N.eqb (eid e) k then Some (e, t) else find_ev k r
  end.
Fixpoint has_dup (l : list N) : bool :=
  match l with [] => false | x :: r => mem_N x r || has_dup r end.

Definition mon_limits := gen_cfg 0 0.     (* only the source constants are read *)

Definition req_codes (c : case) (ets : list (event * Z)) (r : obs_req) : codes :=
  (if existsb (fun k => match find_ev k ets with Some (e, _) => negb (N.eqb (edest e) (o_dest r)) | None => false end) (o_ids r)
   then [12%N] else []) ++
  (if (maxBody mon_limits <? o_size r) || (maxBody mon_limits <? o_wire r) then [13%N] else []) ++
  (if c_max c <? Z.of_nat (length (o_ids r)) then [14%N] else []) ++
  (if existsb (fun k => match find_ev k ets with Some (_, t) => 5 * c_bt c <? 4 * (o_time r - t) | None => false end) (o_ids r)
   then [15%N] else []) ++
  (if (2 <? o_attempts r)%N then [16%N] else []) ++
  (if existsb (fun k => match find_ev k ets with Some (e, _) => maxEv mon_limits <? esize e | None => false end) (o_ids r)
   then [18%N] else []) ++
  (if existsb (fun k => match find_ev k ets with Some _ => false | None => true end) (o_ids r) then [19%N] else []).

Definition monitor (c : case) : codes :=
  let ets := stamps (c_t0 c) (c_ops c) in
  let sent := concat (map o_ids (c_reqs c)) in
  let nover := Z.of_nat (length (filter (fun et => maxEv mon_limits <? esize (fst et)) ets)) in
  let lost := filter (fun et => negb (maxEv mon_limits <? esize (fst et)) && negb (bad_of c (edest (fst et))) &&
                                negb (mem_N (eid (fst et)) sent)) ets in
  (if existsb (fun et => negb (mem_N (eid (fst et)) (c_burst c))) lost then [10%N] else []) ++
  (if existsb (fun et => mem_N (eid (fst et)) (c_burst c)) lost ||
      existsb (fun k => (1 <? length (filter (N.eqb k) sent))%nat) (c_burst c) then [20%N] else []) ++
  (if has_dup sent then [11%N] else []) ++
  flat_map (req_codes c ets) (c_reqs c) ++
  (if negb (c_gauge c =? 0) || existsb (fun gp => negb (fst gp =? snd gp)) (c_syncs c) || negb (N.eqb (c_sync_timeouts c) 0)
   then [17%N] else []) ++
  (if nth 1 (c_cnt c) 0 <? nover then [18%N] else []) ++
  (if N.eqb (c_bad_bodies c) 0 then [] else [21%N]).

Definition check (c : case) : codes :=
  (if model_agrees c then [] else [code_mismatch]) ++ monitor c.
