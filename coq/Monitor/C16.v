(* Correspondence case and checker for C16 (stress-relief decisions, remembered, delivered intact).
   Scenario: node A (the node under test: real routers, sharder, InMemCollector, StressRelief, upstream and
   peer DirectTransmission) and peer B.  host 0 = the fake Honeycomb API, host 1 = peer B. *)
From Refinery Require Export Lib.Base Lib.Prim_cross Model.StressRoute.
From Refinery Require Import Gen.GenC16.

Record case := {
  c_seed : N;                      (* hashSeed used by the harness for the oracle column *)
  c_rate : N;                      (* StressRelief.SamplingRate at the start *)
  c_rate_changes : list (nat * N); (* (i, r): before op number i of c_ops a reload set SamplingRate := r (UpdateFromConfig); several reloads may precede one op, the LAST one is in force *)
  c_tinfo : list (N * (N * N));    (* trace -> (owner: 0 = A, 1 = B ; wyhash(traceID, hashSeed) as returned by the real function) *)
  c_ops : list op;                 (* the schedule, ending with FlushUp; FlushPeer *)
  c_events : list out;             (* Dropped / Buffered outcomes observed on node A, in op order *)
  c_posts : list out;              (* every batch request received by the fake Honeycomb API or by B's peer router *)
  c_peer_collected : list N;       (* span ids that reached B's collector *)
  c_fields_bad : list N;           (* delivered span ids whose client fields differ from what the client sent *)
  c_probe_handled : list N         (* ids of probes arriving at A's peer router that A did NOT discard (its router counted them as spans) *)
}.

Definition max_u64 : N := 18446744073709551615%N.

Section WithCase.
  Variable c : case.
  Definition m_own (tid : N) : N := match alookup tid (c_tinfo c) with Some (o, _) => o | None => 0%N end.
  Definition m_hash (tid : N) : N := match alookup tid (c_tinfo c) with Some (_, h) => h | None => 0%N end.
  (* StressRelief.GetSampleRate: rate <= 1 keeps everything, else hash <= MaxUint64 / rate *)
  (* the deterministic rule for a given rate: rate <= 1 keeps everything, else hash <= MaxUint64 / rate *)
  Definition rule_at (rate : N) (tid : N) : bool :=
    if N.leb rate 1 then true else N.leb (m_hash tid) (max_u64 / rate).
  (* the rate IN FORCE when each trace was first decided under stress (the decision is remembered afterwards) *)
  Fixpoint first_rates (i : nat) (st : bool) (rate : N) (ops : list op) (acc : amap N) : amap N :=
    let rate' := match find (fun ch => Nat.eqb (fst ch) i) (rev (c_rate_changes c)) with Some ch => snd ch | None => rate end in
    match ops with
    | [] => acc
    | Arr _ tid _ _ :: r =>
        first_rates (S i) st rate' r
          (if st then match alookup tid acc with Some _ => acc | None => aset tid rate' acc end else acc)
    | Stress b :: r => first_rates (S i) b rate' r acc
    | _ :: r => first_rates (S i) st rate' r acc
    end.
  Definition m_first_rates : amap N := first_rates 0 false (c_rate c) (c_ops c) [].
  Definition m_keep (tid : N) : bool :=
    rule_at (match alookup tid m_first_rates with Some r => r | None => c_rate c end) tid.
  Definition m_alias : bool := negb probe_is_copy.
  Definition m_outs : list out := snd (hrun m_own m_keep m_alias hinit (c_ops c)).

  (* what can be observed of an event inside a request: its data; key, dataset and host are the request's *)
  Definition canon_post (o : out) : out :=
    match o with
    | Post u h k d evs =>
        Post u h k d (map (fun p => mkPay (p_sid p) (p_tid p) k d h (p_probe p) (p_stressed p) (p_late p)) evs)
    | _ => o
    end.
  Definition post_key (o : out) : N :=
    match o with
    | Post u h k d evs =>
        ((((if u then 1 else 0) * 16 + h) * 1024 + k) * 1024 + d) * 1048576 + match evs with p :: _ => p_sid p | [] => 0 end
    | _ => 0
    end%N.
  Fixpoint ins_post (o : out) (l : list out) : list out :=
    match l with
    | [] => [o]
    | x :: r => if N.leb (post_key o) (post_key x) then o :: l else x :: ins_post o r
    end.
  Definition sort_posts (l : list out) : list out := fold_right ins_post [] l.

  Definition pay_eqb (a b : pay) : bool :=
    N.eqb (p_sid a) (p_sid b) && N.eqb (p_tid a) (p_tid b) && N.eqb (p_key a) (p_key b) && N.eqb (p_ds a) (p_ds b) &&
    N.eqb (p_host a) (p_host b) && Bool.eqb (p_probe a) (p_probe b) && Bool.eqb (p_stressed a) (p_stressed b) &&
    Bool.eqb (p_late a) (p_late b).
  Definition out_eqb (a b : out) : bool :=
    match a, b with
    | Post u h k d e, Post u' h' k' d' e' =>
        Bool.eqb u u' && N.eqb h h' && N.eqb k k' && N.eqb d d' && list_eqb pay_eqb e e'
    | Dropped s, Dropped s' => N.eqb s s'
    | Buffered s, Buffered s' => N.eqb s s'
    | _, _ => false
    end.

  Definition posts_of (l : list out) : list out := filter is_post l.
  Definition pays_to (h : N) (l : list out) : list pay :=
    flat_map (fun o => match o with Post _ h' _ _ evs => if N.eqb h h' then evs else [] | _ => [] end) l.

  Definition model_agrees : bool :=
    N.eqb (c_seed c) stress_hash_seed &&
    list_eqb out_eqb (events m_outs) (c_events c) &&
    list_eqb out_eqb (sort_posts (map canon_post (posts_of m_outs))) (sort_posts (map canon_post (c_posts c))) &&
    list_eqb N.eqb (nsort (map p_sid (filter (fun p => negb (p_probe p)) (pays_to 1 (posts_of m_outs)))))
                   (nsort (c_peer_collected c)) &&
    match c_probe_handled c with [] => true | _ => false end.

  (* ---------- the property monitor: the implementation's observations against the specification ---------- *)
  Definition x_up : list pay := spec_up m_own m_keep false [] [] (c_ops c).
  Definition x_pr : list pay := spec_pr m_own m_keep false [] [] (c_ops c).

  Definition ev_sid (o : out) : N := match o with Dropped s => s | Buffered s => s | _ => 0%N end.
  (* walk the schedule with the specification's state; every span's observed outcome must be the expected one *)
  Fixpoint decisions (st : bool) (seen buf : list N) (ops : list op) : codes :=
    match ops with
    | [] => []
    | Arr sid tid key ds :: r =>
        let want := expect_ev (fate_of m_own m_keep st seen buf tid) sid in
        let got := filter (fun o => N.eqb (ev_sid o) sid) (c_events c) in
        (if list_eqb out_eqb want got then [] else [if st then 10%N else 11%N]) ++
        decisions st (if st then tid :: seen else seen) (buf_after m_own st seen buf tid) r
    | Stress b :: r => decisions b seen buf r
    | _ :: r => decisions st seen buf r
    end.

  Definition hny : list pay := pays_to 0 (c_posts c).
  Definition find_pay (sid : N) (l : list pay) : option pay := find (fun p => N.eqb (p_sid p) sid) l.

  Definition once_ok : bool := list_eqb N.eqb (nsort (map p_sid hny)) (nsort (map p_sid x_up)).
  Definition stressed_ok : bool :=
    forallb (fun p => match find_pay (p_sid p) x_up with
                      | Some e => implb (p_stressed e) (p_stressed p)
                      | None => true end) hny.
  Definition intact_ok : bool :=
    forallb (fun p => match find_pay (p_sid p) x_up with
                      | Some e => N.eqb (p_tid e) (p_tid p) && N.eqb (p_key e) (p_key p) && N.eqb (p_ds e) (p_ds p)
                      | None => true end) hny &&
    forallb (fun s => negb (mem_N s (map p_sid hny))) (c_fields_bad c).
  Definition no_probe_to_hny : bool := forallb (fun p => negb (p_probe p)) hny.
  Definition upstream_to_hny : bool :=
    forallb (fun o => match o with Post true h _ _ _ => N.eqb h 0 | _ => true end) (c_posts c).
  Definition probes_discarded : bool :=
    forallb (fun s => mem_N s (map p_sid (filter (fun p => negb (p_probe p)) x_pr))) (c_peer_collected c) &&
    match c_probe_handled c with [] => true | _ => false end.

  Definition monitor : codes :=
    decisions false [] [] (c_ops c) ++
    (if once_ok then [] else [12%N]) ++
    (if stressed_ok then [] else [13%N]) ++
    (if intact_ok then [] else [14%N]) ++
    (if no_probe_to_hny then [] else [15%N]) ++
    (if upstream_to_hny then [] else [16%N]) ++
    (if probes_discarded then [] else [17%N]).
End WithCase.

Fixpoint dedup (l : codes) : codes :=
  match l with [] => [] | x :: r => if mem_N x r then dedup r else x :: dedup r end.

Definition check (c : case) : codes :=
  (if model_agrees c then [] else [code_mismatch]) ++ dedup (monitor c).
