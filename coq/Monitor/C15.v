(* Correspondence case and checker for C15 (stress relief). *)
From Refinery Require Export Lib.Base Model.Stress.
From Refinery Require Import Gen.GenC15.

(* c_obs: for every SRecalc of c_ops, in order: cluster_stress_level gauge, stress_level gauge, Stressed() *)
Record case := { c_t0 : Z; c_cfg0 : scfg; c_ops : list sop; c_obs : list (N * N * bool) }.

Definition PT := peer_entry_timeout.

Definition obs_eqb (a b : N * N * bool) : bool :=
  N.eqb (fst (fst a)) (fst (fst b)) && N.eqb (snd (fst a)) (snd (fst b)) && Bool.eqb (snd a) (snd b).

Definition model_agrees (c : case) : bool :=
  ops_ok (c_ops c) &&
  list_eqb obs_eqb (map (fun q => (r_cluster q, r_level q, r_on q)) (srun PT (sinit (c_t0 c) (c_cfg0 c)) (c_ops c)))
           (c_obs c).

(* ---- monitor: the implementation's observations against the two specifications ---- *)
Definition classify_switch (past : list srec) (c : scfg) (nw : Z) (lvl : N) (on : bool) : codes :=
  if Bool.eqb on (expected_on past c nw lvl) then [] else
  match c_mode c with
  | MNever => [12%N]
  | MAlways => [13%N]
  | MMonitor =>
      if negb on && (c_act c <=? lvl)%N && (c_deact c <=? c_act c)%N then [14%N]
      else if negb on && on_of past then [15%N]
      else [16%N]
  end.

(* walk the ops with the level specification (lspec), the configuration in force, and the observed
   trace so far (newest first); allB: every level reported so far is <= 100 *)
Fixpoint smon (sp : lspec) (cf : scfg) (past : list srec) (allB : bool)
              (ops : list sop) (obs : list (N * N * bool)) : codes :=
  match ops with
  | [] => match obs with [] => [] | _ => [16%N] end
  | o :: r =>
      let allB' := allB && op_le 100 o in
      let '(sp', out) := lstep PT sp o in
      match o, out, obs with
      | SRecalc local, Some (cl, lv), (ocl, olv, oon) :: xs =>
          let q := {| r_t := l_now sp; r_cfg := cf; r_local := local; r_cluster := ocl; r_level := olv; r_on := oon |} in
          (if N.eqb ocl cl && N.eqb olv lv then [] else [10%N]) ++
          (if allB' && (100 <? olv)%N then [11%N] else []) ++
          classify_switch past cf (l_now sp) olv oon ++
          smon sp' cf (q :: past) allB' r xs
      | SRecalc _, _, _ => [16%N]
      | SConfig c, _, _ => smon sp' c past allB' r obs
      | _, _, _ => smon sp' cf past allB' r obs
      end
  end.

Definition check (c : case) : codes :=
  (if model_agrees c then [] else [code_mismatch]) ++
  smon (linit (c_t0 c)) (c_cfg0 c) [] true (c_ops c) (c_obs c).
