(* Correspondence case and checker for C32 (TTL set / map). *)
From Refinery Require Export Lib.Base Model.TTL.

Record case := { c_ttl : Z; c_t0 : Z; c_ops : list top; c_obs : list tout }.

(* canonical form of an output: key lists sorted, value lists ordered by key.
   The harness sorts Members()/Keys() and uses SortedValues(). *)
Definition enc_kv (kv : N * N) : N := (fst kv * 4294967296 + snd kv)%N.
Definition canon (o : tout) : tout :=
  match o with
  | OKeys l => OKeys (nsort l)
  | OVals l => OVals (map (fun e => ((e / 4294967296)%N, (e mod 4294967296)%N)) (nsort (map enc_kv l)))
  | _ => o
  end.

Definition pair_eqb (a b : N * N) : bool := N.eqb (fst a) (fst b) && N.eqb (snd a) (snd b).
Definition tout_eqb (a b : tout) : bool :=
  match a, b with
  | ONone, ONone => true
  | OGet x, OGet y => option_eqb N.eqb x y
  | OKeys x, OKeys y => list_eqb N.eqb x y
  | OVals x, OVals y => list_eqb N.eqb (map snd x) (map snd y)
  | OLen x, OLen y => N.eqb x y
  | _, _ => false
  end.

Definition model_agrees (c : case) : bool :=
  list_eqb tout_eqb (map canon (trun (c_ttl c) (tinit (c_t0 c)) (c_ops c))) (c_obs c).

(* monitor: the implementation's observations against the liveness specification *)
Definition at_expiry (ttl : Z) (s : tspec) (kv : N * (Z * N)) : bool := snow s =? fst (snd kv) + ttl.
Definition classify (ttl : Z) (s : tspec) (o : top) : N :=
  match o with
  | Get k => match alookup k (last s) with
             | Some av => if at_expiry ttl s (k, av) then 10 else 12
             | None => 12 end
  | Keys | Vals | Len => if existsb (at_expiry ttl s) (last s) then 11 else 12
  | _ => 12
  end%N.

Fixpoint smon (ttl : Z) (s : tspec) (ops : list top) (obs : list tout) : codes :=
  match ops, obs with
  | [], [] => []
  | o :: r, x :: xs =>
      let '(s', out) := sstep ttl s o in
      (if tout_eqb (canon out) x then [] else [classify ttl s o]) ++ smon ttl s' r xs
  | _, _ => [12%N]
  end.

Definition check (c : case) : codes :=
  (if model_agrees c then [] else [code_mismatch]) ++
  smon (c_ttl c) (sinit (c_t0 c)) (c_ops c) (c_obs c).
