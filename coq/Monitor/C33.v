(* Correspondence case and checker for C33 (MultiMetrics value store). *)
From Refinery Require Export Lib.Base Model.Metrics.

(* c_obs: the result of every MGet, in order (None = not found; values are integral floats) *)
(* c_race: names whose first operations were performed by several goroutines released together
   (fresh names, never registered or registered concurrently) *)
(* one metric of the dynsampler recorder phase: the sampler's value when the recorder was registered,
   the snapshots GetMetrics handed out (in call order; the scripted source only grows), and reads of
   the store taken while no goroutine was inside RecordMetrics, each with the number of snapshots
   handed out before it. Counters are stored as deltas, gauges as the last value. *)
Record recobs := { ro_counter : bool; ro_init : Z; ro_snaps : list Z; ro_reads : list (nat * Z);
                   ro_all : list Z }.   (* every read in time order, also those taken while a goroutine was parked inside GetMetrics *)
Record case := { c_ops : list mop; c_race : list N; c_obs : list (option Z); c_rec : list recobs }.

(* with the snapshot taken under the mutex, snapshots are applied in the order they were handed out
   (Proofs/Recorder.v): after k of them the store shows the k-th *)
Definition rec_expected (r : recobs) (k : nat) : Z :=
  let v := match k with O => ro_init r | S j => nth j (ro_snaps r) (ro_init r) end in
  if ro_counter r then v - ro_init r else (match k with O => 0 | _ => v end).
Definition rec_agrees (r : recobs) : bool :=
  forallb (fun kv => snd kv =? rec_expected r (fst kv)) (ro_reads r).
Fixpoint nondecr (l : list Z) : bool :=
  match l with a :: ((b :: _) as r) => (a <=? b) && nondecr r | _ => true end.
Definition rec_monitor (r : recobs) : codes :=
  if ro_counter r
  then (if nondecr (ro_all r) && rec_agrees r then [] else [17%N])      (* never decreases; quiescent reads show the latest snapshot *)
  else (if rec_agrees r then [] else [17%N]).

Definition model_agrees (c : case) : bool :=
  list_eqb (option_eqb Z.eqb) (snd (mrun false minit (c_ops c))) (c_obs c).

(* the kind a name is used as: the first operation that registers or uses it decides *)
Fixpoint kind_of (name : N) (ops : list mop) : option mkind :=
  match ops with
  | [] => None
  | o :: r =>
      match o with
      | MReg n k => if N.eqb n name then Some k else kind_of name r
      | MInc n | MCount n _ => if N.eqb n name then Some KCounter else kind_of name r
      | MGaugeSet n _ => if N.eqb n name then Some KGauge else kind_of name r
      | MUp n | MDown n => if N.eqb n name then Some KUpDown else kind_of name r
      | _ => kind_of name r
      end
  end.

(* what Get must return after the history pre, when the property speaks about that name *)
Definition expected (pre : list mop) (name : N) : option (mkind * Z) :=
  match kind_of name pre with
  | Some KCounter => if forallb (uses_as KCounter name) pre then Some (KCounter, w64 (csum name pre)) else None
  | Some KGauge => if forallb (uses_as KGauge name) pre
                   then Some (KGauge, match lastset s_gauge name pre None with Some x => x | None => 0 end) else None
  | Some KUpDown => if forallb (uses_as KUpDown name) pre then Some (KUpDown, udsum name pre) else None
  | _ => None
  end.

Fixpoint mmon (race : list N) (pre_rev : list mop) (ops : list mop) (obs : list (option Z)) : codes :=
  match ops with
  | [] => match obs with [] => [] | _ => [15%N] end
  | MGet n :: r =>
      match obs with
      | [] => [15%N]
      | x :: xs =>
          (match expected (rev pre_rev) n, x with
           | Some (KCounter, e), Some v => if v =? e then [] else if mem_N n race then [16%N]
                                           else if v <? e then [10%N] else [11%N]
           | Some (KGauge, e), Some v => if v =? e then [] else [12%N]
           | Some (KUpDown, e), Some v => if v =? e then [] else if mem_N n race then [16%N] else [13%N]
           | Some _, None => if mem_N n race then [16%N] else [14%N]
           | _, _ => []
           end) ++ mmon race (MGet n :: pre_rev) r xs
      end
  | o :: r => mmon race (o :: pre_rev) r obs
  end.

Definition check (c : case) : codes :=
  (if model_agrees c && forallb rec_agrees (c_rec c) then [] else [code_mismatch]) ++
  mmon (c_race c) [] (c_ops c) (c_obs c) ++ flat_map rec_monitor (c_rec c).
