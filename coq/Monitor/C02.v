(* C02 — kept spans forwarded exactly once, dropped spans never, none lost: correspondence + monitor. *)
From Refinery Require Export Monitor.CollCase_coll.

(* Monitor over the implementation's observation (spans handed to the transmission):
   10  a span was forwarded twice
   11  a forwarded span was never accepted (invented, or attributed to another trace)
   12  after the final flush (late ticks until nothing is buffered) an accepted span of a trace whose
       remembered decision is keep (or any decided trace under dry run) was never forwarded
   13  a span of a trace whose remembered decision is drop was forwarded (dry run off)
   14  the final flush did not empty the buffers (a trace is never decided)
   15  spans were forwarded for a trace that was never decided
   16  flood (more traces decided than the outgoing queue holds while the upstream is stalled): spans of
       kept traces never reached the transmission
   (traces whose decision was forgotten are exempt from 12, 13 and 15) *)
Definition enc_ts (e : ev) : N := (fst (fst e) * 4294967296 + snd (fst e))%N.

Definition c02_trace (k : case) (t : N) : codes :=
  let its := k_items k in
  let acc := accepted_sids its t in
  let fwd := forwarded_sids its t in
  let d := final_dec its t in
  cond (subset_N fwd acc) 11 ++
  if was_forgot its t then [] else
    cond (negb (N.eqb (k_flush k) 1) || negb (N.eqb d 1 || (k_dry k && negb (N.eqb d 0))) || subset_N acc fwd) 12 ++
    cond (is_empty fwd || k_dry k || negb (N.eqb d 2)) 13 ++
    cond (is_empty fwd || negb (N.eqb d 0)) 15.

Definition check (k : case) : codes :=
  (if model_agrees k then [] else [code_mismatch]) ++
  cond (nodup_N (map enc_ts (all_fwd (k_items k)))) 10 ++
  cond (forallb (fun e => N.ltb (ev_tid e) (k_ntr k)) (all_fwd (k_items k))) 11 ++
  cond (negb (N.eqb (k_flush k) 1) || forallb (fun b : bufobs => is_empty b) (final_bufs (k_items k))) 14 ++
  cond (N.eqb (k_flood_lost k) 0) 16 ++
  flat_map (c02_trace k) (seqN (k_ntr k)).
