(* Correspondence case and checker for C30 (Health). *)
From Refinery Require Export Lib.Base Model.Health.
From Refinery Require Import Gen.GenC30.

(* c_tick is the period the real code passed to Clock.NewTicker; the driver delivered ticks with it. *)
Record case := { c_t0 : Z; c_tick : Z; c_ops : list hop; c_obs : list hout }.

Definition hout_eqb (a b : hout) : bool :=
  match a, b with
  | HNone, HNone => true
  | HBool x, HBool y => Bool.eqb x y
  | _, _ => false
  end.

Definition tickT := ticker_time.

Definition model_agrees (c : case) : bool :=
  (c_tick c =? tickT) && wf tickT (c_t0 c) (c_ops c) &&
  list_eqb hout_eqb (hrun tickT hinit (c_ops c)) (c_obs c).

(* ---- monitor: the implementation's answers against the timed statement of the property ---- *)
(* every subsystem that has reported did so less than timeout - tickT ago *)
Definition all_recent (sp : hspec) : bool :=
  forallb (fun kv => match s_rep (snd kv) with
                     | Some (_, _, r) => h_now sp - r <? s_to (snd kv) - tickT
                     | None => true end) (subs sp).
(* some subsystem (timeout >= 0) has been silent for more than timeout + tickT *)
Definition some_stale (sp : hspec) : bool :=
  existsb (fun kv => match s_rep (snd kv) with
                     | Some (_, _, r) => (0 <=? s_to (snd kv)) && (s_to (snd kv) + tickT <? h_now sp - r)
                     | None => false end) (subs sp).
(* >= 1 registered, none unregistered, all registered have reported and declared ready *)
Definition ready_struct (sp : hspec) : bool :=
  negb (match subs sp with [] => true | _ => false end) &&
  (match unreg sp with [] => true | _ => false end) &&
  forallb (fun kv => match s_rep (snd kv) with Some (b, _, _) => b | None => false end) (subs sp).
Definition all_reported (sp : hspec) : bool :=
  forallb (fun kv => match s_rep (snd kv) with Some _ => true | None => false end) (subs sp).

Definition classify (sp : hspec) (o : hop) (b : bool) : codes :=
  match o with
  | HAlive =>
      if negb b && all_recent sp then [10%N]
      else if b && some_stale sp then [11%N]
      else if Bool.eqb b (spec_alive tickT sp) then [] else [14%N]
  | HIsReady =>
      if b && negb (ready_struct sp) then [12%N]
      else if b && some_stale sp then [15%N]
      else if negb b && ready_struct sp && all_reported sp && all_recent sp then [13%N]
      else if Bool.eqb b (spec_ready tickT sp) then [] else [14%N]
  | _ => []
  end.

Fixpoint hmon (sp : hspec) (ops : list hop) (obs : list hout) : codes :=
  match ops, obs with
  | [], [] => []
  | o :: r, x :: xs =>
      (match o, x with
       | (HAlive | HIsReady), HBool b => classify sp o b
       | (HAlive | HIsReady), HNone => [14%N]
       | _, HNone => []
       | _, HBool _ => [14%N]
       end) ++ hmon (fst (sstep tickT sp o)) r xs
  | _, _ => [14%N]
  end.

Definition check (c : case) : codes :=
  (if model_agrees c then [] else [code_mismatch]) ++
  hmon (sinit tickT (c_t0 c)) (c_ops c) (c_obs c).
