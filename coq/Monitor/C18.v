(* Correspondence cases and checker for C18 (peer codec; a cluster of real RedisPubsubPeers nodes). *)
From Refinery Require Export Lib.Base Model.TTL Model.Peers.
From Refinery Require Import Gen.GenC18.

Definition la (s : string) : list ascii := list_ascii_of_string s.

(* one GetPeers observation of one node: the commands it processed so far (own Start included),
   the listing observed (id, address), and the driver's claim about the membership: L alive and
   publishing (with their addresses) since T0, delays at most d *)
Record view := { v_t0 : Z; v_items : list item; v_tau : Z; v_obs : option (list (N * N));
                 v_L : list (N * N); v_T0 : Z; v_d : Z }.
(* as printed by the harness: the items are given once per node; a view names its node and how many
   of that node's items had been processed when GetPeers was called *)
Record qview := { q_node : nat; q_n : nat; q_tau : Z; q_obs : option (list (N * N));
                  q_L : list (N * N); q_T0 : Z; q_d : Z }.
Definition view_of (t0 : Z) (nodes : list (list item)) (q : qview) : view :=
  {| v_t0 := t0; v_items := firstn (q_n q) (nth (q_node q) nodes []); v_tau := q_tau q; v_obs := q_obs q;
     v_L := q_L q; v_T0 := q_T0 q; v_d := q_d q |}.

Inductive case :=
| CCodec (a : string) (addr id : string) (wire : string) (dec : option (string * string * string))
| CDecode (wire : string) (dec : option (string * string * string))
| CCluster (t0 : Z) (intervals : list Z) (nodes : list (list item)) (views : list qview).

Definition ttl := peer_entry_timeout.
(* Ready() adds a jitter below a fifth of the interval (Props/C18.v proves the divisor extracted from
   the source is 5; it is not referenced here so that the monitor still runs when that extraction fails) *)
Definition imax := refresh_interval + refresh_interval / 5.

Definition str_eqb (a b : list ascii) : bool := list_eqb Ascii.eqb a b.
Definition dec_eqb (x : option (ascii * list ascii * list ascii)) (y : option (string * string * string)) : bool :=
  match x, y with
  | None, None => true
  | Some (a, ad, i), Some (a', ad', i') => str_eqb [a] (la a') && str_eqb ad (la ad') && str_eqb i (la i')
  | _, _ => false
  end.

Definition pair_key (p : N * N) : N := (fst p * 4294967296 + snd p)%N.
Definition canon (l : list (N * N)) : list N := nsort (map pair_key l).
Definition listing_eqb (a b : option (list (N * N))) : bool :=
  match a, b with
  | None, None => true
  | Some x, Some y => list_eqb N.eqb (canon x) (canon y)
  | _, _ => false
  end.

(* the premises of C18_get_peers_converged, as a boolean *)
Definition in_L (L : list (N * N)) (id : N) : bool := existsb (fun p => N.eqb (fst p) id) L.
Definition premises (v : view) : bool :=
  let L := v_L v in let d := v_d v in
  (imax + d <=? ttl) && (v_T0 v + d + ttl <? v_tau v) &&
  negb (match L with [] => true | _ => false end) &&
  forallb (fun it => i_t it <=? i_p it + d) (v_items v) &&
  forallb (fun it => if in_L L (i_id it)
                     then i_reg it && existsb (fun p => N.eqb (fst p) (i_id it) && N.eqb (snd p) (i_addr it)) L
                     else i_p it <=? v_T0 v) (v_items v) &&
  forallb (fun p => existsb (fun it => N.eqb (i_id it) (fst p) && (v_tau v - d - imax <=? i_p it)) (v_items v)) L.

Definition check_view (v : view) : codes :=
  (if items_ok (v_t0 v) (v_items v) (v_tau v) &&
      listing_eqb (get_peers ttl (v_t0 v) (v_items v) (v_tau v)) (v_obs v) then [] else [code_mismatch]) ++
  (if premises v && negb (listing_eqb (Some (v_L v)) (v_obs v)) then [10%N]
   else if listing_eqb (match spec_listing ttl (v_items v) (v_tau v) with [] => None | l => Some l end) (v_obs v)
        then [] else [11%N]).

Definition has_comma (s : list ascii) : bool := existsb is_comma s.

Definition check (c : case) : codes :=
  match c with
  | CCodec a addr id wire dec =>
      match la a with
      | [ac] =>
          (if str_eqb (marshal ac (la addr) (la id)) (la wire) && dec_eqb (unmarshal (la wire)) dec
           then [] else [code_mismatch]) ++
          (if act_ok ac then
             if dec_eqb (Some (ac, la addr, la id)) dec then []
             else if has_comma (la id) then [21%N] else [20%N]
           else match dec with None => [] | Some _ => [22%N] end)
      | _ => [code_mismatch]
      end
  | CDecode wire dec =>
      (if dec_eqb (unmarshal (la wire)) dec then [] else [code_mismatch]) ++
      match dec with
      | None => []
      | Some (a, ad, i) =>
          match la a with
          | [ac] => if act_ok ac && str_eqb (marshal ac (la ad) (la i)) (la wire) then [] else [22%N]
          | _ => [22%N]
          end
      end
  | CCluster t0 intervals nodes views =>
      (if forallb (fun x => (refresh_interval <=? x) && (x <? imax)) intervals then [] else [12%N]) ++
      flat_map (fun q => check_view (view_of t0 nodes q)) views
  end.
