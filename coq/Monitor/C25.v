(* Correspondence case and checker for C25 (query endpoints require the token). *)
From Refinery Require Export Lib.Base Model.Query.

Record case := {
  c_required : string;    (* configured QueryAuthToken *)
  c_method : string;
  c_path : string;        (* URL path as mux sees it (decoded) *)
  c_clean : bool;         (* mux's cleanPath leaves it unchanged *)
  c_hdr : string;         (* first value of the token header, "" when absent *)
  c_format_ok : bool;     (* the {format} variable, if any, is json / yaml / toml (any case) *)
  o_status : N;
  o_body : string;        (* response body (truncated by the driver at 600 bytes) *)
  o_proxied : bool;       (* the request reached the upstream Honeycomb API through the proxy handler *)
  o_leak : bool;          (* body contains a marker planted in rules / metadata / peer addresses, or the configured
                             token although the client did not send it *)
  o_marker : bool         (* body contains the marker of the data the addressed endpoint serves *)
}.

Definition check (c : case) : codes :=
  let model := serve (c_required c) (c_clean c) (c_method c) (c_path c) (c_hdr c) in
  let auth := authorized (c_required c) (c_hdr c) in
  let ep := if c_clean c then spec_endpoint (c_method c) (c_path c) else None in
  (* model vs implementation *)
  (match model with
   | QRedirect => if (o_status c =? 301)%N && negb (o_leak c) then [] else [code_mismatch]
   | QData _ => if (o_status c =? 200)%N && negb (o_proxied c) && (o_marker c || negb (c_format_ok c)) then [] else [code_mismatch]
   | QDenied st body => if (o_status c =? st)%N && String.eqb (o_body c) body && negb (o_proxied c) then [] else [code_mismatch]
   | QOther h => if String.eqb h "proxy" then (if o_proxied c && negb (o_leak c) then [] else [code_mismatch])
                 else if o_leak c then [code_mismatch] else []
   | QNone => [code_mismatch]
   end) ++
  (* the property on the observation *)
  (* data without authorization: code 10 for GET, the dedicated code 13 for every other method *)
  (if (o_leak c || o_marker c) && negb auth
   then (if String.eqb (c_method c) "GET" then [10%N] else [13%N]) else []) ++
  (match ep with
   | Some _ =>
       if auth then (if (o_status c =? 200)%N && (o_marker c || negb (c_format_ok c)) then [] else [11%N])
       else (if (400 <=? o_status c)%N && String.eqb (o_body c) (snd (denied_reply (c_required c) (c_hdr c))) then [] else [12%N])
   | None => []
   end).
