(* Correspondence case and checker for C23 (responses reflect what happened to the data). *)
From Refinery Require Export Lib.Base Model.Respond.

Record case := {
  c_req : request;
  o_status : N; o_hdr_calls : N; o_docs : list doc;
  o_adds : list (N * bool); o_up : list N; o_peer : list N
}.

Definition case_obs (c : case) : obs := {|
  ob_status := o_status c; ob_hdr_calls := o_hdr_calls c; ob_docs := o_docs c;
  ob_adds := o_adds c; ob_up := o_up c; ob_peer := o_peer c |}.

Definition nb_eqb (a b : N * bool) : bool := N.eqb (fst a) (fst b) && Bool.eqb (snd a) (snd b).

(* /1/ responses carry JSON documents the driver classifies; OTLP / gRPC bodies are not compared *)
Definition obs_eqb (v1 : bool) (a b : obs) : bool :=
  N.eqb (ob_status a) (ob_status b) && N.eqb (ob_hdr_calls a) (ob_hdr_calls b) &&
  (if v1 then list_eqb doc_eqb (ob_docs a) (ob_docs b) else true) &&
  list_eqb nb_eqb (ob_adds a) (ob_adds b) && list_eqb N.eqb (ob_up a) (ob_up b) &&
  list_eqb N.eqb (ob_peer a) (ob_peer b).

Definition model_obs (c : case) : obs := observe (handle gen_params (c_req c)).

Definition check (c : case) : codes :=
  (* the theorems assume the library codes handed over by the harness are error codes: validated here *)
  (if ext_ok (r_ext (c_req c)) && obs_eqb (is_v1 (r_ep (c_req c))) (model_obs c) (case_obs c)
   then [] else [code_mismatch]) ++
  check_obs (c_req c) (case_obs c).
