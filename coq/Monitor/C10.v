(* Correspondence case and checker for C10 (deterministic sampler / stress-relief sampling). *)
From Refinery Require Export Lib.Base Model.Determ.
From Refinery Require Gen.GenC10.

Inductive kind := KDet | KStress.

(* one (trace ID, rate) observation *)
Record obs := {
  o_crash : bool;          (* Start / UpdateFromConfig panicked or returned an error *)
  o_rates : list Z;        (* rate returned by every call (instances, trace variants, repeats) *)
  o_keeps : list bool      (* keep flag returned by every call *)
}.

(* one trace ID: the hash the harness computed for it and one obs per rate of the case *)
Record row := { r_h : Z; r_obs : list obs }.

Record case := {
  c_kind : kind;
  c_salt : string;         (* salt the harness used for sha1 (det)      — must equal the source's *)
  c_seed : N;              (* seed the harness used for wyhash (stress) — must equal the source's *)
  c_rates : list Z;        (* configured rates, shared by all rows *)
  c_rows : list row;
  c_stat : option (Z * Z * Z)   (* statistical batch: (rate, number of random IDs, number kept) *)
}.

Definition MAXof (k : kind) : Z :=
  match k with KDet => GenC10.det_max | KStress => GenC10.stress_max end.

(* the model's answer; None = no answer (crash) *)
Definition model (k : kind) (rate h : Z) : option (Z * bool) :=
  match k with KDet => det_sample rate h | KStress => Some (stress_sample rate h) end.

(* rates for which the model is compared with the implementation: the modelled domain minus
   deterministic rates >= 2^32 (the uint32 truncation there is C28's subject) *)
Definition compared (k : kind) (rate : Z) : bool :=
  match k with
  | KDet => rate <? 4294967296
  | KStress => (0 <=? rate) && (rate <? 18446744073709551616)
  end.

(* rates the property text quantifies over *)
Definition in_range (k : kind) (rate : Z) : bool :=
  match k with
  | KDet => (1 <=? rate) && (rate <=? 2147483648)
  | KStress => (1 <=? rate) && (rate <? 18446744073709551616)
  end.

Definition all_eq_b (x : bool) (l : list bool) : bool := forallb (Bool.eqb x) l.
Definition all_eq_z (x : Z) (l : list Z) : bool := forallb (Z.eqb x) l.
Definition hd_keep (o : obs) : bool := hd false (o_keeps o).
Definition hd_rate (o : obs) : Z := hd 0 (o_rates o).

(* ---- model vs implementation ---- *)
Definition obs_agrees (k : kind) (h rate : Z) (o : obs) : bool :=
  if negb (compared k rate) then true else
  match model k rate h with
  | None => true   (* model: Start divides by zero; outside C10's range, any behaviour accepted *)
  | Some (r, kp) => negb (o_crash o) && negb (length (o_keeps o) =? 0)%nat &&
                    all_eq_z r (o_rates o) && all_eq_b kp (o_keeps o)
  end.

Fixpoint zip_all {A B} (f : A -> B -> bool) (a : list A) (b : list B) : bool :=
  match a, b with
  | [], [] => true
  | x :: a', y :: b' => f x y && zip_all f a' b'
  | _, _ => false
  end.

Definition row_agrees (k : kind) (rates : list Z) (r : row) : bool :=
  zip_all (obs_agrees k (r_h r)) rates (r_obs r).

Definition model_agrees (c : case) : bool :=
  String.eqb (c_salt c) GenC10.det_salt && N.eqb (c_seed c) GenC10.stress_seed &&
  forallb (row_agrees (c_kind c) (c_rates c)) (c_rows c).

(* ---- property monitor on the implementation's observations ---- *)
(* 10: not a function of (trace ID, rate): instances / runs / trace variants disagree *)
Definition mon_pure (o : obs) : bool :=
  o_crash o || (all_eq_b (hd_keep o) (o_keeps o) && all_eq_z (hd_rate o) (o_rates o)).

(* 11: rate <= 1 must keep everything (at rate 1) *)
Definition mon_le1 (rate : Z) (o : obs) : bool :=
  if (rate <=? 1) && negb (o_crash o) then all_eq_b true (o_keeps o) && all_eq_z 1 (o_rates o) else true.

(* 14: the configured rate is the one reported *)
Definition mon_rate (k : kind) (rate : Z) (o : obs) : bool :=
  if in_range k rate && (1 <? rate) && negb (o_crash o) then all_eq_z rate (o_rates o) else true.

(* 16: no answer for a rate in the property's range *)
Definition mon_answer (k : kind) (rate : Z) (o : obs) : bool :=
  if in_range k rate then negb (o_crash o) && negb (length (o_keeps o) =? 0)%nat else true.

(* 13: the threshold sits at 1/rate of the hash range (one unit of slack on either side) *)
Definition mon_position (k : kind) (h rate : Z) (o : obs) : bool :=
  if in_range k rate && (1 <? rate) && negb (o_crash o) then
    if hd_keep o then h * rate <=? MAXof k + rate else MAXof k - rate <? h * rate
  else true.

Definition per_obs (k : kind) (h rate : Z) (o : obs) : codes :=
  (if mon_pure o then [] else [10%N]) ++
  (if mon_le1 rate o then [] else [11%N]) ++
  (if mon_position k h rate o then [] else [13%N]) ++
  (if mon_rate k rate o then [] else [14%N]) ++
  (if mon_answer k rate o then [] else [16%N]).

Fixpoint zip_codes {A B} (f : A -> B -> codes) (a : list A) (b : list B) : codes :=
  match a, b with
  | x :: a', y :: b' => f x y ++ zip_codes f a' b'
  | _, _ => []
  end.

(* 12: nesting within one row: kept at n, dropped at m <= n *)
Definition usable (k : kind) (ro : Z * obs) : bool :=
  in_range k (fst ro) && negb (o_crash (snd ro)) && negb (length (o_keeps (snd ro)) =? 0)%nat.
Definition nest_bad (k : kind) (a b : Z * obs) : bool :=
  usable k a && usable k b && (fst a <=? fst b) && hd_keep (snd b) && negb (hd_keep (snd a)).
Definition mon_nested (k : kind) (rates : list Z) (r : row) : bool :=
  let l := combine rates (r_obs r) in
  negb (existsb (fun a => existsb (nest_bad k a) l) l).

(* 17: at one rate the decision is monotone in the hash (there is a threshold) *)
Definition nth_obs (r : row) (i : nat) : option obs := nth_error (r_obs r) i.
Definition mono_bad (i : nat) (a b : row) : bool :=
  match nth_obs a i, nth_obs b i with
  | Some oa, Some ob =>
      negb (o_crash oa) && negb (o_crash ob) && (r_h a <=? r_h b) && hd_keep ob && negb (hd_keep oa)
  | _, _ => false
  end.
Definition mon_monotone (k : kind) (rates : list Z) (rows : list row) : bool :=
  negb (existsb (fun i => in_range k (nth i rates 0) &&
                          existsb (fun a => existsb (mono_bad i a) rows) rows)
                (seq 0 (length rates))).

(* 15: statistical batch, 6 sigma:  (kept*rate - n)^2 <= 36 * n * (rate-1) *)
Definition mon_stat (s : option (Z * Z * Z)) : bool :=
  match s with
  | None => true
  | Some (rate, n, kept) =>
      let d := kept * rate - n in d * d <=? 36 * n * (rate - 1)
  end.

Definition check (c : case) : codes :=
  let k := c_kind c in
  (if model_agrees c then [] else [code_mismatch]) ++
  flat_map (fun r => zip_codes (per_obs k (r_h r)) (c_rates c) (r_obs r)) (c_rows c) ++
  flat_map (fun r => if mon_nested k (c_rates c) r then [] else [12%N]) (c_rows c) ++
  (if mon_monotone k (c_rates c) (c_rows c) then [] else [17%N]) ++
  (if mon_stat (c_stat c) then [] else [15%N]).
