(* Correspondence case and checker for C31 (per-worker decision cache). *)
From Refinery Require Export Lib.Base Gen.GenC31 Model.SentCache.

(* ---- concrete instances of the model's parameters ---- *)
(* reason hash: an injective encoding of the string (stands for a collision-free wyhash) *)
Fixpoint str_code (s : string) : N :=
  match s with
  | EmptyString => 1
  | String a r => N_of_ascii a + 256 * str_code r
  end%N.

(* cuckoo.NewFilter sizing: buckets = nextPow2(cap/4), doubled when cap/(4*buckets) > 0.96, at least 1;
   4 slots per bucket *)
Fixpoint pow2_ge (fuel : nat) (p n : N) : N :=
  match fuel with
  | O => p
  | S f => if (n <=? p)%N then p else pow2_ge f (2 * p)%N n
  end.
Definition next_pow2 (n : N) : N := if N.eqb n 0 then 0%N else pow2_ge 64 1%N n.
Definition slots_model (cap : N) : N :=
  let nb := next_pow2 (cap / 4) in
  let nb := if (96 * (nb * 4) <? 100 * cap)%N then (2 * nb)%N else nb in
  let nb := if N.eqb nb 0 then 1%N else nb in
  (4 * nb)%N.

Definition mstep := step str_code slots_model.
Definition mrun_out := run_out str_code slots_model.
Definition minit := cache_init slots_model.

Record case := { c_ksz : N; c_dsz : N; c_wc : N; c_t0 : Z; c_ops : list op; c_obs : list ans }.

Definition ans_eqb (a b : ans) : bool :=
  match a, b with
  | AUnit, AUnit | ANotFound, ANotFound | ADropped, ADropped => true
  | AKept r d e l s rs, AKept r' d' e' l' s' rs' =>
      N.eqb r r' && N.eqb d d' && N.eqb e e' && N.eqb l l' && N.eqb s s' && String.eqb rs rs'
  | AState c s f q, AState c' s' f' q' =>
      N.eqb c c' && N.eqb s s' && N.eqb q q' &&
      option_eqb (fun x y => N.eqb (fst x) (fst y) && N.eqb (snd x) (snd y)) f f'
  | _, _ => false
  end.

Definition model_agrees (c : case) : bool :=
  list_eqb ans_eqb (mrun_out (minit (c_ksz c) (c_dsz c) (c_wc c) (c_t0 c)) (c_ops c)) (c_obs c).

(* ---- the property monitor: evaluated on the implementation's observations only ---- *)
(* an event of the past: operation, observed answer, kept capacity in force before the operation *)
Definition ev := (op * ans * N)%type.

Definition is_draining (o : op) : bool := match o with Drain | Maintain => true | _ => false end.

(* number of RecDropped events at the head of [past] (most recent first) before a draining event *)
Fixpoint pending_before (past : list ev) : N :=
  match past with
  | [] => 0
  | (o, _, _) :: r => if is_draining o then 0 else
                      (match o with RecDropped _ => 1 | _ => 0 end + pending_before r)
  end%N.

Definition obs_full (a : ans) : bool :=
  match a with AState c s _ _ => (full_num * s <? full_den * c)%N | _ => true end.
Definition obs_has_fut (a : ans) : bool :=
  match a with AState _ _ (Some _) _ => true | _ => false end.

(* has a rotating Maintain happened in [past]?  After the first rotation a future generation always exists
   (C31_rotation_installs_a_filter: the rotation creates a new one), whatever the implementation reports *)
Fixpoint rotated_before (past : list ev) : bool :=
  match past with
  | [] => false
  | (Maintain, _, _) :: r =>
      if match r with (Drain, a', _) :: _ => obs_full a' | _ => false end then true else rotated_before r
  | _ :: r => rotated_before r
  end.

(* must x be answered "dropped"?  0 = no obligation, 1 = yes (no rotation since its drain), 2 = yes across one
   rotation (it was drained while a future generation existed / had to exist).  Scan the past backwards.
   rots  : rotating Maintain events seen so far (they all happened after the scan position)
   first : the earliest draining event seen so far: Some (rotations after it, future observed, was a Drain) *)
Fixpoint must_dropped (x : N) (past : list ev) (rots : N) (first : option (N * bool * bool)) : N :=
  match past with
  | [] => 0%N
  | (o, a, _) :: r =>
      match o with
      | Maintain =>
          (* rotation is decided on the state observed by the Drain the driver issues just before *)
          let rot := match r with (Drain, a', _) :: _ => obs_full a' | _ => true end in
          must_dropped x r (if rot then rots + 1 else rots)%N (Some ((if rot then rots + 1 else rots)%N, false, false))
      | Drain => must_dropped x r rots (Some (rots, obs_has_fut a, true))
      | RecDropped y =>
          (* nested ifs: vm_compute evaluates the arguments of && eagerly *)
          if N.eqb y x then
            match first with
            | Some (n, hasfut, true) =>
                if N.eqb n 0 then
                  if (pending_before r <? add_queue_depth)%N then 1%N else must_dropped x r rots first
                else if N.eqb n 1 then
                  if hasfut then (if (pending_before r <? add_queue_depth)%N then 2%N else must_dropped x r rots first)
                  else if rotated_before r then (if (pending_before r <? add_queue_depth)%N then 2%N else must_dropped x r rots first)
                  else must_dropped x r rots first
                else must_dropped x r rots first
            | _ => must_dropped x r rots first
            end
          else must_dropped x r rots first
      | _ => must_dropped x r rots first
      end
  end.

Fixpoint ever_dropped (x : N) (past : list ev) : bool :=
  match past with
  | [] => false
  | (RecDropped y, _, _) :: r => N.eqb y x || ever_dropped x r
  | _ :: r => ever_dropped x r
  end.
Fixpoint ever_kept (x : N) (past : list ev) : bool :=
  match past with
  | [] => false
  | (RecKept y _ _ _ _ _ _, _, _) :: r => N.eqb y x || ever_kept x r
  | _ :: r => ever_kept x r
  end.

Definition add_id (y : N) (D : list N) : list N := if mem_N y D then D else y :: D.

(* must x be answered "kept"?  Some (rate, reason, a resize lies in between) when x's most recent
   record / kept answer is followed by fewer distinct other kept-ids than the smallest capacity in force *)
Fixpoint must_kept (x : N) (past : list ev) (D : list N) (mincap : N) (resized : bool)
  : option (N * string * bool) :=
  match past with
  | [] => None
  | (o, a, capb) :: r =>
      let mincap' := N.min mincap capb in
      if (mincap' <=? N.of_nat (length D))%N then None else
      match o with
      | RecKept y rate reason _ _ _ _ =>
          if N.eqb y x then Some (store_rate rate, reason, resized)
          else let D' := add_id y D in
               if (mincap' <=? N.of_nat (length D'))%N then None else must_kept x r D' mincap' resized
      | ChkSpan y _ | ChkTrace y =>
          if N.eqb y x then
            match a with
            | AKept rate _ _ _ _ reason => Some (rate, reason, resized)
            | _ => must_kept x r D mincap' resized
            end
          else let D' := add_id y D in
               if (mincap' <=? N.of_nat (length D'))%N then None else must_kept x r D' mincap' resized
      | Resize ksz _ wc => must_kept x r D mincap' (resized || negb (N.eqb (per_worker ksz wc) 0))
      | _ => must_kept x r D mincap' resized
      end
  end.

Definition code_dropped_forgotten : N := 10%N.
Definition code_kept_forgotten : N := 11%N.
Definition code_kept_wrong : N := 12%N.
Definition code_resize_lost : N := 13%N.
Definition code_phantom : N := 14%N.
Definition code_dropped_forgotten_after_rotation : N := 15%N.

Definition judge (x : N) (a : ans) (past : list ev) (cap : N) : codes :=
  let md := must_dropped x past 0%N None in
  if negb (N.eqb md 0) then
    match a with
    | ADropped => []
    | _ => [if N.eqb md 2 then code_dropped_forgotten_after_rotation else code_dropped_forgotten]
    end
  else
    match must_kept x past [] cap false with
    | Some (rate, reason, resized) =>
        match a with
        | AKept r _ _ _ _ rs => if N.eqb r rate && String.eqb rs reason then [] else [code_kept_wrong]
        | ADropped => if ever_dropped x past then [] else [code_phantom]
        | _ => [if resized then code_resize_lost else code_kept_forgotten]
        end
    | None =>
        match a with
        | AKept _ _ _ _ _ _ => if ever_kept x past then [] else [code_phantom]
        | ADropped => if ever_dropped x past then [] else [code_phantom]
        | _ => []
        end
    end.

Fixpoint monitor (ops : list op) (obs : list ans) (past : list ev) (cap : N) : codes :=
  match ops, obs with
  | [], [] => []
  | o :: r, a :: s =>
      let here := match o with
                  | ChkSpan x _ | ChkTrace x => judge x a past cap
                  | _ => []
                  end in
      let cap' := match o with
                  | Resize ksz _ wc => let kc := per_worker ksz wc in if N.eqb kc 0 then cap else kc
                  | _ => cap
                  end in
      here ++ monitor r s ((o, a, cap) :: past) cap'
  | _, _ => [code_phantom]
  end.

Definition check (c : case) : codes :=
  (if model_agrees c then [] else [code_mismatch]) ++
  monitor (c_ops c) (c_obs c) [] (per_worker (c_ksz c) (c_wc c)).
