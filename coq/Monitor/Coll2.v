(* Shared correspondence case of C04 / C05 / C06: the forwarding model against the real collector. *)
From Refinery Require Export Lib.Base Gen.GenC04 Model.Rates.

Record case := { c_cfg : cfg;
                 c_dec : list (N * (N * bool * string));     (* trace id -> sampler answer (rate, keep, reason) *)
                 c_sdec : list (N * (N * bool * string));    (* trace id -> stress relief answer *)
                 c_ops : list op;
                 c_obs : list (list out) }.                   (* per operation: forwarded spans sorted by span id *)

Definition oracle (l : list (N * (N * bool * string))) (tid : N) : N * bool * string :=
  match alookup tid l with Some d => d | None => (1%N, true, EmptyString) end.

Fixpoint insert_out (o : out) (l : list out) : list out :=
  match l with
  | [] => [o]
  | x :: r => if (o_sid o <=? o_sid x)%N then o :: l else x :: insert_out o r
  end.
Definition sort_outs (l : list out) : list out := fold_right insert_out [] l.

Definition attrs_eqb (a b : list (N * N)) : bool :=
  list_eqb (fun x y => N.eqb (fst x) (fst y) && N.eqb (snd x) (snd y)) a b.

Definition out_eqb (a b : out) : bool :=
  N.eqb (o_sid a) (o_sid b) && N.eqb (o_rate a) (o_rate b) && Z.eqb (o_final a) (o_final b) &&
  N.eqb (o_orig a) (o_orig b) && option_eqb Bool.eqb (o_dry a) (o_dry b) &&
  option_eqb N.eqb (o_dryrate a) (o_dryrate b) && String.eqb (o_reason a) (o_reason b) &&
  Bool.eqb (o_host a) (o_host b) && Bool.eqb (o_stressed a) (o_stressed b) &&
  N.eqb (o_spancount a) (o_spancount b) && N.eqb (o_eventcount a) (o_eventcount b) &&
  N.eqb (o_sevcount a) (o_sevcount b) && N.eqb (o_linkcount a) (o_linkcount b) &&
  attrs_eqb (o_attrs a) (o_attrs b).

Definition model_outs (c : case) : list (list out) :=
  map sort_outs (snd (run (oracle (c_dec c)) (oracle (c_sdec c)) (init (c_cfg c)) (c_ops c))).

Definition model_agrees (c : case) : bool :=
  list_eqb (list_eqb out_eqb) (model_outs c) (c_obs c).

(* ---- bookkeeping shared by the three property monitors (computed from the operations only) ----
   where : which spans are buffered, which traces have a recorded decision *)
Record book := { b_spans : amap span;          (* span id -> span, every span seen so far *)
                 b_buf : list N;               (* trace ids with a live buffered trace *)
                 b_bufspans : list span;       (* spans currently buffered, arrival order *)
                 b_dec : amap (bool * N * string);   (* trace id -> latest recorded decision (keep, rate, reason) *)
                 b_dropped : list N;           (* trace ids ever recorded as dropped (dropped wins) *)
                 b_cfg : cfg; b_host : bool }.

Definition book_init (c : cfg) : book :=
  {| b_spans := []; b_buf := []; b_bufspans := []; b_dec := []; b_dropped := []; b_cfg := c; b_host := c_hostmeta c |}.

Inductive path := POnTime | PLate | PStress | PNone.

(* classification of a span operation before it is applied *)
Definition span_path (b : book) (sp : span) : path :=
  if mem_N (s_tid sp) (b_buf b) then PNone
  else if mem_N (s_tid sp) (b_dropped b) then PLate
  else match alookup (s_tid sp) (b_dec b) with Some _ => PLate | None => PNone end.

Definition book_step (dec sdec : N -> N * bool * string) (b : book) (o : op) : book :=
  match o with
  | Span sp =>
      let b1 := {| b_spans := aset (s_id sp) sp (b_spans b); b_buf := b_buf b; b_bufspans := b_bufspans b;
                   b_dec := b_dec b; b_dropped := b_dropped b; b_cfg := b_cfg b; b_host := b_host b |} in
      match span_path b sp with
      | PLate => b1
      | _ => {| b_spans := b_spans b1; b_buf := if mem_N (s_tid sp) (b_buf b) then b_buf b else s_tid sp :: b_buf b;
                b_bufspans := b_bufspans b ++ [sp]; b_dec := b_dec b; b_dropped := b_dropped b;
                b_cfg := b_cfg b; b_host := b_host b |}
      end
  | Stress sp =>
      let spans := aset (s_id sp) sp (b_spans b) in
      if mem_N (s_tid sp) (b_dropped b) then
        {| b_spans := spans; b_buf := b_buf b; b_bufspans := b_bufspans b; b_dec := b_dec b;
           b_dropped := b_dropped b; b_cfg := b_cfg b; b_host := b_host b |}
      else match alookup (s_tid sp) (b_dec b) with
           | Some _ => {| b_spans := spans; b_buf := b_buf b; b_bufspans := b_bufspans b; b_dec := b_dec b;
                          b_dropped := b_dropped b; b_cfg := b_cfg b; b_host := b_host b |}
           | None =>
               let '(rate, keep, reason) := sdec (s_tid sp) in
               {| b_spans := spans; b_buf := b_buf b; b_bufspans := b_bufspans b;
                  b_dec := if keep then aset (s_tid sp) (true, rate, reason) (b_dec b) else b_dec b;
                  b_dropped := if keep then b_dropped b else s_tid sp :: b_dropped b;
                  b_cfg := b_cfg b; b_host := b_host b |}
           end
  | Decide =>
      let upd := fold_left (fun acc tid =>
                   let '(rate, keep, reason) := dec tid in
                   if keep then (aset tid (true, rate, reason) (fst acc), snd acc)
                   else (fst acc, tid :: snd acc)) (b_buf b) (b_dec b, b_dropped b) in
      {| b_spans := b_spans b; b_buf := []; b_bufspans := []; b_dec := fst upd; b_dropped := snd upd;
         b_cfg := b_cfg b; b_host := b_host b |}
  | Reload c =>
      {| b_spans := b_spans b; b_buf := b_buf b; b_bufspans := b_bufspans b; b_dec := b_dec b;
         b_dropped := b_dropped b; b_cfg := c; b_host := c_hostmeta c |}
  end.

Definition maxone (n : N) : N := if (n <? 1)%N then 1%N else n.
