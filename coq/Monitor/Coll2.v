(* Shared correspondence case of C04 / C05 / C06: the forwarding model against the real collector. *)
From Refinery Require Export Lib.Base Gen.GenC04 Model.Rates.

Record case := { c_cfg : cfg;
                 c_dec : list (N * (N * bool * string));     (* trace id -> sampler answer (rate, keep, reason) *)
                 c_sdec : list (N * (N * bool * string));    (* trace id -> stress relief answer *)
                 c_ops : list op;
                 c_obs : list (list out) }.                   (* per operation: forwarded spans sorted by span id *)

Definition oracle (l : list (N * (N * bool * string))) (tid : N) : N * bool * string :=
  match alookup tid l with Some d => d | None => (1%N, true, EmptyString) end.

Fixpoint insert_out (o : out) (l : list out) : list out :=
  match l with
  | [] => [o]
  | x :: r => if (o_sid o <=? o_sid x)%N then o :: l else x :: insert_out o r
  end.
Definition sort_outs (l : list out) : list out := fold_right insert_out [] l.

Definition attrs_eqb (a b : list (N * N)) : bool :=
  list_eqb (fun x y => N.eqb (fst x) (fst y) && N.eqb (snd x) (snd y)) a b.

Definition out_eqb (a b : out) : bool :=
  N.eqb (o_sid a) (o_sid b) && N.eqb (o_rate a) (o_rate b) && Z.eqb (o_final a) (o_final b) &&
  N.eqb (o_orig a) (o_orig b) && option_eqb Bool.eqb (o_dry a) (o_dry b) &&
  option_eqb N.eqb (o_dryrate a) (o_dryrate b) && String.eqb (o_reason a) (o_reason b) &&
  Bool.eqb (o_host a) (o_host b) && Bool.eqb (o_stressed a) (o_stressed b) &&
  N.eqb (o_spancount a) (o_spancount b) && N.eqb (o_eventcount a) (o_eventcount b) &&
  N.eqb (o_sevcount a) (o_sevcount b) && N.eqb (o_linkcount a) (o_linkcount b) &&
  attrs_eqb (o_attrs a) (o_attrs b).

Definition model_outs (c : case) : list (list out) :=
  map sort_outs (snd (run (oracle (c_dec c)) (oracle (c_sdec c)) (init (c_cfg c)) (c_ops c))).

Definition model_agrees (c : case) : bool :=
  list_eqb (list_eqb out_eqb) (model_outs c) (c_obs c).

(* ---- bookkeeping shared by the three property monitors (computed from the operations and the oracles,
   never from the model): which spans are buffered, which traces have a recorded decision, the counts a
   decision record should hold ---- *)
Definition cnt := (N * N * N * N)%type.        (* descendants, span events, links, spans *)
Definition cnt_add (a : N) (c : cnt) : cnt :=
  let '(d, e, l, s) := c in
  (d + 1, (if N.eqb a 1 then e + 1 else e), (if N.eqb a 2 then l + 1 else l),
   (if N.eqb a 1 || N.eqb a 2 then s else s + 1))%N.
Definition cnt_of (l : list span) : cnt := fold_left (fun c sp => cnt_add (s_ann sp) c) l (0, 0, 0, 0)%N.

Record book := { b_spans : amap span;          (* span id -> span, every span seen so far *)
                 b_buf : list N;               (* trace ids with a live buffered trace *)
                 b_bufspans : list span;       (* spans currently buffered, arrival order *)
                 b_dec : amap (N * string * cnt);   (* trace id -> latest recorded KEEP decision: rate, reason, counts *)
                 b_dropped : list N;           (* trace ids recorded as dropped (dropped wins in CheckSpan) *)
                 b_cfg : cfg; b_host : bool }.

Definition book_init (c : cfg) : book :=
  {| b_spans := []; b_buf := []; b_bufspans := []; b_dec := []; b_dropped := []; b_cfg := c; b_host := c_hostmeta c |}.

Inductive path := PBuffered | PLateDropped | PLateKept (rate : N) (reason : string) (c : cnt) | PNew.

(* classification of a span before it is processed; for a kept record the counts include this span *)
Definition span_path (b : book) (sp : span) (stress : bool) : path :=
  if negb stress && mem_N (s_tid sp) (b_buf b) then PBuffered
  else if mem_N (s_tid sp) (b_dropped b) then PLateDropped
  else match alookup (s_tid sp) (b_dec b) with
       | Some (rate, reason, c) => PLateKept rate reason (cnt_add (s_ann sp) c)
       | None => PNew
       end.

Definition with_spans (b : book) (sp : span) : book :=
  {| b_spans := aset (s_id sp) sp (b_spans b); b_buf := b_buf b; b_bufspans := b_bufspans b;
     b_dec := b_dec b; b_dropped := b_dropped b; b_cfg := b_cfg b; b_host := b_host b |}.
Definition with_dec (b : book) (d : amap (N * string * cnt)) (dr : list N) : book :=
  {| b_spans := b_spans b; b_buf := b_buf b; b_bufspans := b_bufspans b;
     b_dec := d; b_dropped := dr; b_cfg := b_cfg b; b_host := b_host b |}.

Definition book_step (dec sdec : N -> N * bool * string) (b : book) (o : op) : book :=
  match o with
  | Span sp =>
      let b1 := with_spans b sp in
      match span_path b sp false with
      | PLateDropped => b1
      | PLateKept rate reason c => with_dec b1 (aset (s_tid sp) (rate, reason, c) (b_dec b)) (b_dropped b)
      | _ => {| b_spans := b_spans b1; b_buf := if mem_N (s_tid sp) (b_buf b) then b_buf b else s_tid sp :: b_buf b;
                b_bufspans := b_bufspans b ++ [sp]; b_dec := b_dec b; b_dropped := b_dropped b;
                b_cfg := b_cfg b; b_host := b_host b |}
      end
  | Stress sp =>
      let b1 := with_spans b sp in
      match span_path b sp true with
      | PLateDropped => b1
      | PLateKept rate reason c => with_dec b1 (aset (s_tid sp) (rate, reason, c) (b_dec b)) (b_dropped b)
      | _ => let '(rate, keep, reason) := sdec (s_tid sp) in
             if keep then with_dec b1 (aset (s_tid sp) (rate, reason, (0, 0, 0, 0)%N) (b_dec b)) (b_dropped b)
             else with_dec b1 (b_dec b) (s_tid sp :: b_dropped b)
      end
  | Decide =>
      let upd := fold_left (fun acc tid =>
                   let '(rate, keep, reason) := dec tid in
                   if keep then (aset tid (rate, reason, cnt_of (filter (fun sp => N.eqb (s_tid sp) tid) (b_bufspans b))) (fst acc), snd acc)
                   else (fst acc, tid :: snd acc)) (b_buf b) (b_dec b, b_dropped b) in
      {| b_spans := b_spans b; b_buf := []; b_bufspans := []; b_dec := fst upd; b_dropped := snd upd;
         b_cfg := b_cfg b; b_host := b_host b |}
  | Reload c =>
      {| b_spans := b_spans b; b_buf := b_buf b; b_bufspans := b_bufspans b; b_dec := b_dec b;
         b_dropped := b_dropped b; b_cfg := c; b_host := c_hostmeta c |}
  end.

Definition maxone (n : N) : N := if (n <? 1)%N then 1%N else n.

(* generic monitor skeleton: [judge b o outs] looks at one operation in the state of the book before it *)
Fixpoint monitor_with (judge : book -> op -> list out -> codes) (dec sdec : N -> N * bool * string)
         (b : book) (ops : list op) (obs : list (list out)) : codes :=
  match ops, obs with
  | [], [] => []
  | o :: r, outs :: s => judge b o outs ++ monitor_with judge dec sdec (book_step dec sdec b o) r s
  | _, _ => [code_mismatch]
  end.

Definition sids (l : list out) : list N := map o_sid l.
