(* Correspondence case and checker for C14 (sampler selection by destination). *)
From Refinery Require Export Lib.Base Lib.Strs_samp Model.SamplerSel.

(* one destination: what the real code answered for it *)
Record eobs := {
  e_dest : dest;
  e_legacy : bool;            (* config.IsLegacyAPIKey *)
  e_skey : str;               (* fileConfig.DetermineSamplerKey *)
  e_cfg_type : N;             (* type tag of GetSamplerConfigForDestName(skey); 0 = none *)
  e_cfg_fields : list str;    (* GetSamplingKeyFieldsForDestName(skey) *)
  e_ingest : list str;        (* fields NewCoreFieldsUnmarshaler extracts for this destination *)
  e_impl_type : N;            (* type tag of the sampler the factory returns for the trace's sampler key *)
  e_all : list str;           (* sampler.GetKeyFields(): all *)
  e_nonroot : list str;       (*                          non-root *)
  e_memo : list str           (* names memoised after UnmarshalMsgpEvent of an event carrying every field *)
}.

(* collector level: one trace driven through the real InMemCollector (processSpan + decision on a
   single worker, in arrival order); co_tag identifies the rules-file entry whose sampler decided it
   (every entry's sampler answers with a reason naming the entry; sd_type holds the same tag) *)
Record cobs := { co_dest : dest; co_tag : N }.

(* route level: a classic-key POST /1/events/<segment> through the real router (mux + handler);
   rt_seen = the dataset of the span that reached the collector (None: request rejected / nothing arrived) *)
Record robs14 := { rt_segment : str; rt_seen : option str }.

Record case := { c_prefix : str; c_rules : rules; c_events : list eobs; c_coll : list cobs;
                 c_route : list robs14 }.

(* field lists are compared as sets *)
Definition canon_set (l : list str) : list str := compact (ssort l).
Definition set_eqb (a b : list str) : bool := list_eqb str_eqb (canon_set a) (canon_set b).

Definition expected_key (c : case) (e : eobs) : str :=
  sampler_key (c_prefix c) (d_key (e_dest e)) (d_env (e_dest e)) (d_dataset (e_dest e)).
Definition expected_def (c : case) (e : eobs) : option sdef := lookup (c_rules c) (expected_key c e).
Definition type_of (s : option sdef) : N := match s with Some d => sd_type d | None => 0%N end.

(* ---- model vs implementation ---- *)
Definition obs_agrees (c : case) (e : eobs) : bool :=
  Bool.eqb (e_legacy e) (is_legacy (d_key (e_dest e))) &&
  str_eqb (e_skey e) (expected_key c e) &&
  N.eqb (e_cfg_type e) (type_of (expected_def c e)) &&
  N.eqb (e_impl_type e) (type_of (decide_sampler (c_prefix c) (c_rules c) (e_dest e) [])) &&
  set_eqb (e_cfg_fields e) (fields_for (c_rules c) (expected_key c e)) &&
  set_eqb (e_ingest e) (ingest_fields (c_prefix c) (c_rules c) (e_dest e)) &&
  set_eqb (e_all e) (fst (sampler_reads (expected_def c e))) &&
  set_eqb (e_nonroot e) (snd (sampler_reads (expected_def c e))).

Definition coll_agrees (c : case) (o : cobs) : bool :=
  N.eqb (co_tag o) (type_of (decide_sampler (c_prefix c) (c_rules c) (co_dest o) [])).

Definition route_ok (o : robs14) : bool := option_eqb str_eqb (rt_seen o) (pct_decode (rt_segment o)).

Definition model_agrees (c : case) : bool :=
  forallb (obs_agrees c) (c_events c) && forallb (coll_agrees c) (c_coll c) && forallb route_ok (c_route c).

(* ---- property monitor (written against the documented shapes, not against the model) ---- *)
(* documented shapes, checked position by position *)
Definition doc_classic (k : str) : bool :=
  ((length k =? 32)%nat && forallb is_hex_lower k) ||
  ((length k =? 64)%nat &&
   str_eqb (firstn 2 k) (u "hc") && forallb is_lower (firstn 1 (skipn 2 k)) &&
   str_eqb (firstn 3 (skipn 3 k)) (u "ic_") && forallb is_alnum_lower (skipn 6 k)).

Definition doc_name (c : case) (e : eobs) : str :=
  let d := e_dest e in
  if doc_classic (d_key d)
  then match c_prefix c with [] => d_dataset d | p => p ++ [DOT] ++ d_dataset d end
  else d_env d.

Definition doc_type (c : case) (e : eobs) : N :=
  match rfind (doc_name c e) (c_rules c) with
  | Some d => sd_type d
  | None => match rfind DEFAULT (c_rules c) with Some d => sd_type d | None => 0%N end
  end.

Definition subset_b (a b : list str) : bool := forallb (fun x => mem_str x b) a.

Definition per_event (c : case) (e : eobs) : codes :=
  (* 15: key shape misclassified *)
  (if Bool.eqb (e_legacy e) (doc_classic (d_key (e_dest e))) then [] else [15%N]) ++
  (* 10 / 11: wrong name selected for an environment key / a classic key *)
  (if str_eqb (e_skey e) (doc_name c e) then []
   else if doc_classic (d_key (e_dest e)) then [11%N] else [10%N]) ++
  (* 12: the sampler used is not the one configured under that name (or __default__ when absent) *)
  (if N.eqb (e_impl_type e) (doc_type c e) && N.eqb (e_cfg_type e) (doc_type c e) then [] else [12%N]) ++
  (* 13: ingestion extracts other fields than the deciding sampler reads *)
  (if set_eqb (e_ingest e) (e_all e) then [] else [13%N]) ++
  (* 14: a field the sampler reads was not made available at ingestion *)
  (if subset_b (e_all e) (e_memo e) && subset_b (e_nonroot e) (e_memo e) then [] else [14%N]).

(* 16: the collector decided a trace with the sampler of another destination (the entry the
   documented selection names for this trace's key shape, environment, dataset and DatasetPrefix,
   or __default__ when that name has no sampler, is not the one that answered) *)
Definition doc_type_dest (c : case) (d : dest) : N :=
  let name := if doc_classic (d_key d)
              then match c_prefix c with [] => d_dataset d | p => p ++ [DOT] ++ d_dataset d end
              else d_env d in
  match rfind name (c_rules c) with
  | Some s => sd_type s
  | None => match rfind DEFAULT (c_rules c) with Some s => sd_type s | None => 0%N end
  end.

Definition per_coll (c : case) (o : cobs) : codes :=
  if N.eqb (co_tag o) (doc_type_dest c (co_dest o)) then [] else [16%N].

Definition check (c : case) : codes :=
  (if model_agrees c then [] else [code_mismatch]) ++ flat_map (per_event c) (c_events c) ++
  nodup N.eq_dec (flat_map (per_coll c) (c_coll c)) ++
  (* 17: the dataset the collector sees for a classic-key request is not the percent-decoding of the
         URL path segment (so the trace is sampled, and its fields extracted, for another name) *)
  (if forallb (fun o => match rt_seen o with Some d => option_eqb str_eqb (Some d) (pct_decode (rt_segment o)) | None => true end)
              (c_route c) then [] else [17%N]).
