(* Correspondence case and checker for C21 (trace identity and root status). *)
From Refinery Require Export Lib.Base Model.TraceId.
Local Open Scope string_scope.
Local Open Scope list_scope.


(* short names for the strings the driver uses most (keeps the generated case files small) *)
Definition q_tt := "trace.trace_id".   Definition q_ti := "traceId".        Definition q_tid := "tid".
Definition q_t_ := "trace_id".         Definition q_pp := "trace.parent_id". Definition q_pi := "parentId".
Definition q_pid := "pid".             Definition q_mt := "meta.trace_id".  Definition q_ms := "meta.signal_type".
Definition q_mn := "meta.note".        Definition q_du := "duration_ms".    Definition q_na := "name".
Definition q_hex := "0af7651916cd43dd". Definition q_log := "log".

Record cev := {
  e_path : N;                  (* 0: batch (msgpack or JSON), bytes path in wire order; 1: /1/events JSON, Go map path;
                                  2: /1/events msgpack, loosely decoded into a Go map *)
  e_fields : list field;       (* as sent, in the order sent *)
  e_obs : outcome              (* what the router did *)
}.
Record case := {
  c_trace : list string;          (* TraceNames as the operator configured them (or the documented default) *)
  c_parent : list string;         (* ParentNames likewise *)
  c_loaded_trace : list string;   (* what GetTraceIdFieldNames of the real loaded configuration returns *)
  c_loaded_parent : list string;
  c_events : list cev }.

Definition outcome_eqb (a b : outcome) : bool :=
  match a, b with
  | ORejected, ORejected | ONoTrace, ONoTrace | ODup, ODup => true
  | OSpan t r, OSpan t' r' => String.eqb t t' && Bool.eqb r r'
  | _, _ => false
  end.

Definition model_outcome (c : idcfg) (e : cev) : outcome :=
  match e_path e with
  | 0%N => outcome_bytes c (e_fields e)
  | 1%N => outcome_map c (e_fields e)
  | _ => outcome_loose c (e_fields e)
  end.

(* narrow violation classes *)
Definition monitor_strict (c : idcfg) (e : cev) : codes :=
  let fs := e_fields e in
  match e_obs e, spec_outcome c fs with
  | OSpan t r, OSpan t' r' =>
      (if String.eqb t t' then []
       else if is_empty (str_at (k_trace_id c) fs) then [10%N] else [13%N])
      ++ (if Bool.eqb r r' then [] else [12%N])
  | ONoTrace, ONoTrace => []
  | ONoTrace, OSpan _ _ | OSpan _ _, ONoTrace => [11%N]
  | _, _ => [14%N]
  end.

(* class 15: on the loosely decoded path a bin value in an ID field was taken as a string, and that
   alone explains the difference from the specification *)
Definition monitor (c : idcfg) (e : cev) : codes :=
  match monitor_strict c e with
  | [] => []
  | l => if (e_path e =? 2)%N && negb (no_bin_ids c (e_fields e))
            && outcome_eqb (e_obs e) (spec_outcome c (loosen (e_fields e)))
         then [15%N] else l
  end.

Definition check_event (c : idcfg) (e : cev) : codes :=
  (if outcome_eqb (model_outcome c e) (e_obs e) then [] else [code_mismatch]) ++
  (if ev_ok c (e_fields e) && cfg_ok c && table_ok c then monitor c e else []).

(* the configuration loader hands the extraction the operator's lists, in the operator's order *)
Definition loader_ok (k : case) : bool :=
  list_eqb String.eqb (c_loaded_trace k) (c_trace k) && list_eqb String.eqb (c_loaded_parent k) (c_parent k).

Definition check (k : case) : codes :=
  let c := std_cfg (c_trace k) (c_parent k) in
  nodup N.eq_dec ((if loader_ok k then [] else [16%N]) ++ flat_map (check_event c) (c_events k)).
